(* QuietLaws.v -- when no help flag is left on the line, a run never ends on stdout: for every
   definition without `adjacent` whose option levels all carry the default Info (no version, no
   fallback_to_usage, `-h/--help`), a state none of whose unconsumed tokens is the help flag leads to
   a value or to a failure on stderr -- in particular every inner failure handed outward by a
   subcommand is one.  States only move by the legal steps of Reach.v, which never bring a token back. *)
From Coq Require Import Lia List Bool Arith.
From BpafModel Require Import Wf.
From BpafLemmas Require Import Tac EvalEq Find Reach Ledger LoopLaws.
Import ListNotations.

(* no unconsumed token, in scope or not, is the help flag *)
Definition NH (s : state) : Prop :=
  forall ix a st, nth_error (items s) ix = Some a -> nth_error (ist s) ix = Some st -> present st = true ->
    matches_arg default_help_arg false a = false.

Lemma step_NH K s s' : step K s s' -> NH s -> NH s'.
Proof.
  intros St H. destruct St as [k ix s st HK Hin Hst Hp Ha|s c|s p|s a b s' Hs|s ist' Hl Hm].
  - unfold sremove. rewrite Hin, Hst, Hp. cbn [andb]. unfold ist_at in Hst.
    intros i a' st' Ha' Hs' Hp'. cbn [items ist] in *.
    destruct (Nat.eq_dec i ix) as [->|Ne].
    + assert (Hlt : ix < length (ist s)) by (apply nth_error_Some; congruence).
      rewrite (Ledger.update_nth_same ix Parsed (ist s) Hlt) in Hs'. inversion Hs'; subst st'. discriminate.
    + rewrite (Ledger.update_nth_other ix i Parsed (ist s) Ne) in Hs'. eapply H; eauto.
  - exact H.
  - exact H.
  - unfold set_scope in Hs. destruct (Nat.leb a b && Nat.leb b (length (ist s))); [|discriminate]. inversion Hs; subst. exact H.
  - intros i a' st' Ha' Hs' Hp'. cbn [items ist set_ist] in *.
    pose proof (Hm i) as E. rewrite Hs' in E. cbn in E.
    destruct (nth_error (ist s) i) as [st0|] eqn:E0; [|discriminate]. cbn in E. inversion E as [E1].
    apply (H i a' st0 Ha' E0). congruence.
Qed.

Lemma reach_NH K s s' : reach K s s' -> NH s -> NH s'.
Proof. induction 1 as [s|s1 s2 s3 R IH St]; intros H; [exact H|]. eapply step_NH; eauto. Qed.

(* results that are not a document or completion output *)
Definition okE (r : eres) : Prop :=
  match r with RErr (MsgParseFailure (FStdout _)) | RErr (MsgParseFailure (FCompletion _)) => False | _ => True end.
Definition okS (r : sres) : Prop :=
  match r with SFail (FStdout _) | SFail (FCompletion _) => False | _ => True end.
Definition okM (m : message) : Prop := okE (RErr m).

Definition quiet (ev : evaluator) : Prop := forall s, NH s -> okE (fst (ev s)).
Definition keepsNH (ev : evaluator) : Prop := forall s, NH s -> NH (snd (ev s)).
Definition quietr (run : state -> sres * state) : Prop := forall s, NH s -> okS (fst (run s)).

(* every Options node carries an Info like the default one: `-h/--help` as help flag, no version,
   no fallback_to_usage *)
Fixpoint dinfo (p : parser) {struct p} : Prop :=
  match p with
  | PCmd _ _ _ _ _ sub => dinfo_o sub
  | PCon fs | PAdj fs => dinfo_l fs
  | POr a b => dinfo a /\ dinfo b
  | POptional q _ | PMany q _ | PCollect q _ | PCount q | PLast q | PHide q | PBoxed q => dinfo q
  | PSome q _ _ | PFallback q _ _ | PFallbackWith q _ _ | PGuard q _ _ | PUsage q _ | PGroupHelp q _ => dinfo q
  | PParse q _ | PMap q _ => dinfo q
  | _ => True
  end
with dinfo_l (ps : plist) {struct ps} : Prop :=
  match ps with PNil => True | PCons q t => dinfo q /\ dinfo_l t end
with dinfo_o (o : oparser) {struct o} : Prop :=
  match o with Options q inf =>
    dinfo q /\ i_help_if_no_args inf = false /\ i_version inf = None /\ i_help_arg inf = default_help_arg
  end.

(* no `adjacent`: neither groups nor commands *)
Fixpoint noadj (p : parser) {struct p} : bool :=
  match p with
  | PCmd _ _ _ _ adjacent sub => negb adjacent && noadj_o sub
  | PCon fs => noadj_l fs
  | PAdj _ => false
  | POr a b => noadj a && noadj b
  | POptional q _ | PMany q _ | PCollect q _ | PCount q | PLast q | PHide q | PBoxed q => noadj q
  | PSome q _ _ | PFallback q _ _ | PFallbackWith q _ _ | PGuard q _ _ | PUsage q _ | PGroupHelp q _ => noadj q
  | PParse q _ | PMap q _ => noadj q
  | _ => true
  end
with noadj_l (ps : plist) {struct ps} : bool :=
  match ps with PNil => true | PCons q t => noadj q && noadj_l t end
with noadj_o (o : oparser) {struct o} : bool :=
  match o with Options q _ => noadj q end.

Section WithEnv.
Variable env : bytes -> option bytes.

(* ------------------------------------------------------------------ leaves *)
Lemma convert_okE ty w s : okE (fst (convert_res ty w s)).
Proof. unfold convert_res. destruct (convert ty w); exact I. Qed.

Lemma flag_quiet n p a : quiet (eval_flag env n p a).
Proof.
  intros s _. unfold eval_flag. destruct (take_flag n s); [exact I|].
  destruct (env_first env (n_env n)); [exact I|]. destruct a; [exact I|].
  destruct (flag_item n); [exact I|]. destruct (n_env n); exact I.
Qed.
Lemma arg_quiet n mv ty adj : quiet (eval_arg env n mv ty adj).
Proof.
  intros s _. unfold eval_arg. destruct (take_arg n adj s); try apply convert_okE; try exact I.
  destruct (env_first env (n_env n)); [apply convert_okE|].
  destruct (arg_item n mv); [exact I|]. destruct (n_env n); exact I.
Qed.
Lemma pos_quiet mv ty pos help : quiet (eval_pos mv ty pos help).
Proof.
  intros s _. unfold eval_pos. destruct (take_positional_word s) as [[[[ix st] w] s']|]; [|exact I].
  destruct pos; destruct st; try exact I; apply convert_okE.
Qed.
Lemma any_quiet mv help check anywhere : quiet (eval_any mv help check anywhere).
Proof.
  intros s _. unfold eval_any.
  match goal with |- context [match ?f with Some ix => _ | None => _ end] => destruct f as [ix|] end; [|exact I].
  destruct (nth_error (items s) ix) as [a|]; [|exact I]. destruct (check (arg_os a)); exact I.
Qed.

(* ------------------------------------------------------------------ wrappers *)
Section W.
Variable ev : evaluator.
Hypothesis Hk : keepsNH ev.
Hypothesis Hq : quiet ev.

Lemma parse_option_quiet len s c : NH s ->
  match fst (fst (parse_option ev len s c)) with OErr m => okM m | _ => True end /\ NH (snd (parse_option ev len s c)).
Proof.
  intros H. unfold parse_option. pose proof (Hq s H) as Q. pose proof (Hk s H) as K.
  destruct (ev s) as [r s1]. cbn [fst snd] in *.
  destruct r; cbn; auto.
  - destruct (lt_len (remaining s1) len); cbn; auto.
  - destruct (c || (is_missing m && Nat.eqb (remaining s) (remaining s1)) || (negb (is_missing m) && can_catch m)); cbn; auto.
Qed.

Lemma many_loop_quiet c fuel : forall len s acc, NH s -> okE (fst (fst (many_loop ev c fuel len s acc))).
Proof.
  induction fuel as [|f IH]; intros len s acc H; cbn [many_loop]; [exact I|].
  destruct (parse_option_quiet len s c H) as [Q K]. destruct (parse_option ev len s c) as [[o len'] s1]. cbn [fst snd] in *.
  destruct o; cbn; auto.
Qed.

Lemma count_loop_quiet fuel : forall len s cur k last, NH s ->
  okE (fst (fst (fst (count_loop ev fuel len s cur k last)))) /\ NH (snd (count_loop ev fuel len s cur k last)).
Proof.
  induction fuel as [|f IH]; intros len s cur k last H; cbn [count_loop]; [split; [exact I|exact H]|].
  destruct (parse_option_quiet len s false H) as [Q K]. destruct (parse_option ev len s false) as [[o len'] s1]. cbn [fst snd] in *.
  destruct o; cbn; auto. destruct (Nat.eqb cur (remaining s1)); cbn; auto.
Qed.

Lemma optional_quiet c : quiet (optional_body ev c).
Proof.
  intros s H. unfold optional_body. destruct (parse_option_quiet None s c H) as [Q _].
  destruct (parse_option ev None s c) as [[o l] s1]. cbn [fst] in Q. destruct o; cbn; auto.
Qed.
Lemma many_quiet c : quiet (many_body ev c).
Proof.
  intros s H. unfold many_body. pose proof (many_loop_quiet c (loop_fuel s) None s [] H) as Q.
  destruct (many_loop ev c (loop_fuel s) None s []) as [[r acc] s1]. cbn [fst] in Q. destruct r; cbn; auto.
Qed.
Lemma some_quiet m c : quiet (some_body ev m c).
Proof.
  intros s H. unfold some_body. pose proof (many_loop_quiet c (loop_fuel s) None s [] H) as Q.
  destruct (many_loop ev c (loop_fuel s) None s []) as [[r acc] s1]. cbn [fst] in Q. destruct r; cbn; auto. destruct acc; exact I.
Qed.
Lemma count_quiet : quiet (count_body ev).
Proof.
  intros s H. unfold count_body. destruct (count_loop_quiet (loop_fuel s) None s (remaining s) 0 None H) as [Q _].
  destruct (count_loop ev (loop_fuel s) None s (remaining s) 0 None) as [[[r k] l] s1]. cbn [fst] in Q. destruct r; cbn; auto.
Qed.
Lemma last_quiet : quiet (last_body ev).
Proof.
  intros s H. unfold last_body. destruct (count_loop_quiet (loop_fuel s) None s (remaining s) 0 None H) as [Q K].
  destruct (count_loop ev (loop_fuel s) None s (remaining s) 0 None) as [[[r k] l] s1]. cbn [fst snd] in Q, K.
  destruct r; cbn; auto. destruct l; [exact I|]. apply Hq. exact K.
Qed.
Lemma fallback_with_quiet fb : quiet (fallback_with_body ev fb).
Proof.
  intros s H. unfold fallback_with_body. pose proof (Hq s H) as Q. destruct (ev s) as [r s1]. cbn [fst] in Q.
  destruct r; cbn; auto. destruct (can_catch m); [destruct fb|]; cbn; auto.
Qed.
Lemma guard_quiet c m : quiet (guard_body ev c m).
Proof.
  intros s H. unfold guard_body. pose proof (Hq s H) as Q. destruct (ev s) as [r s1]. cbn [fst] in Q.
  destruct r; cbn; auto. destruct (c v); exact I.
Qed.
Lemma parse_quiet f : quiet (parse_body ev f).
Proof.
  intros s H. unfold parse_body. pose proof (Hq s H) as Q. destruct (ev s) as [r s1]. cbn [fst] in Q.
  destruct r; cbn; auto. destruct (f v); exact I.
Qed.
Lemma map_quiet f : quiet (map_body ev f).
Proof.
  intros s H. unfold map_body. pose proof (Hq s H) as Q. destruct (ev s) as [r s1]. cbn [fst] in Q. destruct r; cbn; auto.
Qed.
Lemma hide_quiet : quiet (hide_body ev).
Proof.
  intros s H. unfold hide_body. pose proof (Hq s H) as Q. destruct (ev s) as [r s1]. cbn [fst] in Q.
  destruct r; cbn; auto. destruct m; cbn; auto.
Qed.
End W.

Lemma combine_okM a b : okM a -> okM b -> okM (combine_with a b).
Proof.
  intros Ha Hb. unfold combine_with. destruct a; try exact Ha; destruct b; try exact Hb; try exact Ha; cbn;
    try (destruct (can_catch _); assumption); exact I.
Qed.

Lemma this_or_that_err ra rb s sa sb e s2 :
  this_or_that ra rb s sa sb = (inr e, s2) -> okE ra -> okE rb -> okM e.
Proof.
  unfold this_or_that. intros H Qa Qb.
  destruct (Nat.compare (depth sa) (depth sb)).
  - destruct ra as [va|ea|wa|]; destruct rb as [vb|eb|wb|]; cbn in H;
      try (match type of H with context [let '(_, _) := ?p in _] => destruct p as [[|] ix] end);
      try discriminate.
    inversion H; subst. apply combine_okM; assumption.
  - destruct rb as [vb|eb|wb|]; cbn in H; try discriminate. inversion H; subst. exact Qb.
  - destruct ra as [va|ea|wa|]; cbn in H; try discriminate. inversion H; subst. exact Qa.
Qed.

Lemma or_quiet eva evb : quiet eva -> quiet evb -> quiet (or_body eva evb).
Proof.
  intros Ha Hb s H. unfold or_body. pose proof (Ha s H) as Qa. pose proof (Hb s H) as Qb.
  destruct (eva s) as [ra sa]. destruct (evb s) as [rb sb]. cbn [fst] in Qa, Qb.
  destruct ra as [va|ea|wa|]; try exact I; destruct rb as [vb|eb|wb|]; try exact I;
    (destruct (this_or_that _ _ s sa sb) as [[[|]|e] s2] eqn:T; cbn [fst]; try assumption;
     eapply this_or_that_err; eauto).
Qed.

Lemma con_go_quiet ff evs : Forall keepsNH evs -> Forall quiet evs -> forall s first acc err,
  NH s -> match err with Some e => okM e | None => True end -> okE (fst (con_go ff evs s first acc err)).
Proof.
  intros Hk Hq. induction evs as [|ev t IH]; intros s first acc err H He; cbn [con_go].
  - destruct err; [exact He|exact I].
  - inversion Hk as [|? ? Hk1 Hk2]; subst. inversion Hq as [|? ? Hq1 Hq2]; subst.
    pose proof (Hq1 s H) as Q. pose proof (Hk1 s H) as K. destruct (ev s) as [r s1]. cbn [fst snd] in Q, K.
    destruct r; try exact I.
    + apply IH; assumption.
    + destruct (ff && first); [exact Q|]. apply IH; try assumption. destruct err; [exact He|exact Q].
Qed.

Lemma con_quiet ff evs : Forall keepsNH evs -> Forall quiet evs -> quiet (con_body ff evs).
Proof.
  intros Hk Hq s H. unfold con_body, con_reset. pose proof (con_go_quiet ff evs Hk Hq s true [] None H I) as Q.
  destruct (con_go ff evs s true [] None) as [r s1]. exact Q.
Qed.

(* ------------------------------------------------------------------ looking for the help flag finds nothing *)
Lemma take_flag_NH s : NH s -> take_flag default_help_arg s = None.
Proof.
  intros H. unfold take_flag. destruct (find_item s (fun _ a => matches_arg default_help_arg false a)) as [ix|] eqn:F; [|reflexivity].
  apply find_item_some in F. destruct F as (_ & a & st & Ha & Hs & Hp & M). unfold ist_at in Hs.
  rewrite (H ix a st Ha Hs Hp) in M. discriminate.
Qed.

Lemma info_eval_NH inf s : i_version inf = None -> i_help_arg inf = default_help_arg -> NH s ->
  fst (info_eval env inf s) = None.
Proof.
  intros Hv Hh H. unfold info_eval. rewrite Hh, Hv. unfold eval_flag. rewrite (take_flag_NH s H). cbn. reflexivity.
Qed.

Lemma run_sub_body_quiet inf m s r s1 :
  i_help_if_no_args inf = false -> i_version inf = None -> i_help_arg inf = default_help_arg ->
  okE r -> NH s1 -> okS (fst (run_sub_body env inf m s (r, s1))).
Proof.
  intros Hn Hv Hh Q H. unfold run_sub_body. rewrite Hn.
  pose proof (info_eval_NH inf s1 Hv Hh H) as Ei.
  destruct r as [v|e|w|]; try exact I.
  - cbn [andb]. destruct (first_item_ix s1); [|exact I].
    destruct (info_eval env inf s1) as [ex s2]. cbn [fst] in Ei. subst ex. exact I.
  - rewrite andb_false_r. cbn [andb].
    destruct e; try (destruct (info_eval env inf s1) as [ex s2]; cbn [fst] in Ei; subst ex; exact I).
    destruct f; try exact I; contradiction.
Qed.

(* ------------------------------------------------------------------ commands *)
Lemma NH_set_scope s a b s' : set_scope s a b = Some s' -> NH s -> NH s'.
Proof. intros E H. eapply (reach_NH (fun _ => True)); [eapply reach_scope; exact E|exact H]. Qed.

Lemma cmd_quiet name aliases shorts help adjacent m_sub i_sub run :
  quietr run -> quiet (cmd_body name aliases shorts help adjacent m_sub i_sub run).
Proof.
  intros Hq s H. unfold cmd_body.
  pose proof (take_cmd_any_reach (fun _ => True) ((name :: aliases) ++ map utf8_encode_char shorts) s (fun _ _ => I)) as R.
  destruct (take_cmd_any _ s) as [hit s1]. cbn [snd] in R. destruct hit; [|exact I].
  pose proof (reach_NH _ s s1 R H) as H1.
  destruct (current s1) as [cur|]; [|exact I].
  destruct (set_scope s1 cur (sc_end s1)) as [s2|] eqn:E2; [|exact I].
  pose proof (NH_set_scope _ _ _ _ E2 H1) as H2.
  assert (H3 : NH (set_path s2 (path s2 ++ [name]))) by exact H2.
  set (s3 := set_path s2 (path s2 ++ [name])) in *.
  destruct adjacent.
  - destruct (adjacently_available_from s3 (S (sc_start s3))) as [a b].
    destruct (set_scope s3 a b) as [s4|] eqn:E4; [|exact I].
    pose proof (Hq s4 (NH_set_scope _ _ _ _ E4 H3)) as Q4.
    destruct (run s4) as [[v|f|w|] s5]; cbn [fst okS] in Q4; try exact I.
    + destruct (set_scope s5 (sc_start s3) (sc_end s3)); exact I.
    + assert (Qf : okE (RErr (MsgParseFailure f))) by (destruct f; try exact I; contradiction).
      destruct (adjacent_scope s5 s3) as [| |na nb]; [exact I|exact Qf|].
      destruct (set_scope s3 na nb) as [o1|] eqn:E5; [|exact I].
      destruct (run o1) as [[v|f'|w|] o2]; try exact I; [|exact Qf].
      destruct (set_scope o2 (sc_start s3) (sc_end s3)); exact I.
  - pose proof (Hq s3 H3) as Q. destruct (run s3) as [[v|f|w|] s4]; cbn [fst okS] in Q; try exact I.
    destruct f; try exact I; contradiction.
Qed.

(* ------------------------------------------------------------------ adjacent groups *)
Section Adj.
Variable ev : evaluator.
Hypothesis Hq : quiet ev.

Definition stepq (st : adj_step) : Prop :=
  match st with ANext b => okM (b_err b) | AStop r _ => okE r | AReturn _ _ => True end.

Lemma adj_inner_quiet orig before : NH orig ->
  forall fuel ta best, NH ta -> okM (b_err best) -> stepq (adj_inner ev orig before fuel ta best).
Proof.
  intros Ho. induction fuel as [|f IH]; intros ta best Ht Hb; [exact I|].
  unfold adj_inner; fold adj_inner. pose proof (Hq ta Ht) as N.
  destruct (ev ta) as [r ta1]. cbn [fst] in N. destruct r; try exact I.
  - destruct (adjacent_scope ta1 orig) as [| |a b]; try exact I.
    + destruct (set_scope ta1 _ _); exact I.
    + destruct (set_scope orig a b) as [ta'|] eqn:E; [|exact I].
      apply IH; [eapply NH_set_scope; eauto|exact Hb].
  - destruct (Nat.ltb before (remaining ta1)); [exact I|].
    destruct (Nat.ltb (b_consumed best) (before - remaining ta1)); [exact N|exact Hb].
Qed.

Lemma adj_try_quiet orig width start best : NH orig -> okM (b_err best) -> stepq (adj_try ev orig width start best).
Proof.
  intros Ho Hb. unfold adj_try.
  destruct (set_scope orig start (length (items orig))) as [t0|] eqn:E0; [|exact I].
  pose proof (NH_set_scope _ _ _ _ E0 Ho) as H0.
  destruct (set_scope t0 start (start + width)) as [sc|] eqn:E1; [|exact I].
  pose proof (NH_set_scope _ _ _ _ E1 H0) as H1.
  destruct (Nat.eqb (remaining sc) 0); [exact Hb|].
  pose proof (Hq sc H1) as N. destruct (ev sc) as [r0 sc']. cbn [fst] in N.
  assert (Hgo : stepq (if Nat.eqb (remaining sc) (remaining sc') then ANext best
                   else match set_scope t0 start (sc_end orig) with
                        | None => AStop (RPanic P_set_scope) orig
                        | Some this_arg1 =>
                          match (if Nat.ltb (remaining this_arg1) (sc_end orig - start)
                                 then let '(a, b) := adjacently_available_from this_arg1 start in set_scope this_arg1 a b
                                 else Some this_arg1) with
                          | None => AStop (RPanic P_set_scope) orig
                          | Some this_arg2 => adj_inner ev orig (remaining this_arg1) (loop_fuel orig) this_arg2 best
                          end
                        end)).
  { destruct (Nat.eqb (remaining sc) (remaining sc')); [exact Hb|].
    destruct (set_scope t0 start (sc_end orig)) as [t1|] eqn:E2; [|exact I].
    pose proof (NH_set_scope _ _ _ _ E2 H0) as H2.
    destruct (Nat.ltb (remaining t1) (sc_end orig - start)).
    - destruct (adjacently_available_from t1 start) as [a b].
      destruct (set_scope t1 a b) as [t2|] eqn:E3; [|exact I].
      apply adj_inner_quiet; [exact Ho|eapply NH_set_scope; eauto|exact Hb].
    - apply adj_inner_quiet; [exact Ho|exact H2|exact Hb]. }
  destruct r0; try exact I; exact Hgo.
Qed.

Lemma adj_outer_quiet orig width : NH orig -> forall starts best, okM (b_err best) ->
  okE (fst (adj_outer ev orig width starts best)).
Proof.
  intros Ho. induction starts as [|st more IH]; intros best Hb; cbn [adj_outer];
    [destruct (set_scope (b_args best) (sc_start orig) (sc_end orig)); [exact Hb|exact I]|].
  pose proof (adj_try_quiet orig width st best Ho Hb) as N.
  destruct (adj_try ev orig width st best) as [v s|b|r s]; cbn [fst stepq] in *; [exact I|apply IH; exact N|exact N].
Qed.

Lemma adjacent_quiet fi : quiet (eval_adjacent ev fi).
Proof.
  intros s H. unfold eval_adjacent. destruct fi as [it|]; [|exact I].
  apply adj_outer_quiet; [exact H|exact I].
Qed.
End Adj.

(* ------------------------------------------------------------------ every parser *)
Lemma eval_keepsNH p : keepsNH (eval env p).
Proof.
  intros s H. eapply (reach_NH (fun _ => True)); [|exact H]. apply eval_reach. apply (proj1 LoopLaws.kinds_ok_true).
Qed.
Lemma evals_keepsNH ps : Forall keepsNH (evals env ps).
Proof.
  pose proof (proj1 (proj2 (eval_reach_all (fun _ => True) env)) ps (proj1 (proj2 LoopLaws.kinds_ok_true) ps)) as H.
  induction H as [|ev t Hev Ht IH]; constructor; [|exact IH].
  intros s Hs. eapply (reach_NH (fun _ => True)); [apply Hev|exact Hs].
Qed.

Theorem quiet_every :
  (forall p, dinfo p -> quiet (eval env p)) /\
  (forall ps, dinfo_l ps -> Forall quiet (evals env ps)) /\
  (forall o, dinfo_o o -> quietr (run_sub env o)).
Proof.
  apply parser_plist_oparser_ind; intros; cbn [dinfo dinfo_l dinfo_o] in *;
    try (intros s; autorewrite with evaleq).
  - apply flag_quiet.
  - apply arg_quiet.
  - apply pos_quiet.
  - apply any_quiet.
  - apply cmd_quiet. apply H; assumption.
  - destruct fields as [|q1 [|q2 t]].
    + rewrite eval_PCon_nil. intros _. exact I.
    + rewrite eval_PCon_one. specialize (H H0). rewrite evals_cons in H. inversion H; subst. auto.
    + rewrite eval_PCon_many. apply con_quiet; [apply evals_keepsNH|apply H; assumption].
  - apply adjacent_quiet. apply con_quiet; [apply evals_keepsNH|apply H; assumption].
  - destruct H1. apply or_quiet; auto.
  - apply optional_quiet; [apply eval_keepsNH|auto].
  - apply many_quiet; [apply eval_keepsNH|auto].
  - apply some_quiet; [apply eval_keepsNH|auto].
  - apply many_quiet; [apply eval_keepsNH|auto].
  - apply count_quiet; [apply eval_keepsNH|auto].
  - apply last_quiet; [apply eval_keepsNH|auto].
  - apply fallback_with_quiet; auto.
  - apply fallback_with_quiet; auto.
  - apply guard_quiet; auto.
  - apply parse_quiet; auto.
  - apply map_quiet; auto.
  - apply hide_quiet; auto.
  - apply H; auto.
  - apply H; auto.
  - intros _. exact I.
  - intros _. destruct r; exact I.
  - intros _. exact I.
  - apply H; auto.
  - rewrite evals_nil. constructor.
  - destruct H1. rewrite evals_cons. constructor; auto.
  - destruct H0 as (Hd & Hn & Hv & Hh). intros Hs. rewrite run_sub_eq.
    pose proof (H Hd s Hs) as Q. pose proof (eval_keepsNH p s Hs) as K.
    destruct (eval env p s) as [r s1]. apply run_sub_body_quiet; assumption.
Qed.

(* the statement for definitions without `adjacent` (kept for the conventional fragment, ConvStderr.v) *)
Theorem quiet_all :
  (forall p, noadj p = true -> dinfo p -> quiet (eval env p)) /\
  (forall ps, noadj_l ps = true -> dinfo_l ps -> Forall quiet (evals env ps)) /\
  (forall o, noadj_o o = true -> dinfo_o o -> quietr (run_sub env o)).
Proof.
  repeat split; intros; [apply (proj1 quiet_every)|apply (proj1 (proj2 quiet_every))|apply (proj2 (proj2 quiet_every))]; assumption.
Qed.
End WithEnv.

(* ------------------------------------------------------------------ a whole run *)
(* no token of the line is the help flag (the `--` separator itself is consumed by the tokenizer) *)
Definition no_help_token (t : tokenized) : Prop :=
  forall ix a, nth_error (t_items t) ix = Some a -> t_marker t <> Some ix -> matches_arg default_help_arg false a = false.

Lemma construct_NH sf sa name argv :
  no_help_token (tokenize sf sa argv) -> NH (fst (construct sf sa name argv)).
Proof.
  intros H. unfold construct. set (t := tokenize sf sa argv) in *.
  destruct (t_marker t) as [mk|] eqn:Em; cbn [fst]; intros ix a st Ha Hs Hp; cbn [items ist] in *.
  - apply (H ix a Ha). intros E. rewrite Em in E. inversion E; subst mk.
    assert (Hlt : ix < length (repeat Unparsed (length (t_items t)))).
    { rewrite repeat_length. apply nth_error_Some. congruence. }
    rewrite (Ledger.update_nth_same ix Parsed _ Hlt) in Hs. inversion Hs; subst st. discriminate.
  - apply (H ix a Ha). rewrite Em. discriminate.
Qed.

(* no help flag on the line: a run of such a definition ends in a value or on stderr -- adjacent groups and adjacent
   commands included *)
Theorem run_quiet_every feat env o name argv :
  dinfo_o o ->
  no_help_token (tokenize (fst (short_tables o)) (snd (short_tables o)) argv) ->
  match run_inner feat env o name argv with OutStdout _ | OutCompletion _ => False | _ => True end.
Proof.
  intros Hd Hn. unfold run_inner, run_inner_state, initial_state.
  destruct (short_tables o) as [sf sa]. cbn [fst snd] in Hn.
  pose proof (construct_NH sf sa name argv Hn) as H.
  destruct (construct sf sa name argv) as [st amb]. cbn [fst] in H.
  destruct amb as [[ix sh]|]; [exact I|].
  pose proof (proj2 (proj2 (quiet_every env)) o Hd st H) as Q.
  destruct (run_sub env o st) as [r s']. cbn [fst] in *. destruct r as [v|[h|c|m d]|w|]; try contradiction; exact I.
Qed.
Print Assumptions run_quiet_every.

Theorem run_quiet feat env o name argv :
  noadj_o o = true -> dinfo_o o ->
  no_help_token (tokenize (fst (short_tables o)) (snd (short_tables o)) argv) ->
  match run_inner feat env o name argv with OutStdout _ | OutCompletion _ => False | _ => True end.
Proof. intros _. apply run_quiet_every. Qed.
