(* LeafLaws.v -- laws of the primitive consumers (take_arg, positionals, strictness, PosWord). *)
From BpafLemmas Require Import Tac EvalEq Find Reach Ledger NoLoss C05Lemmas.

(* take_arg hands over exactly the bytes of the token that follows the key, whether that token is a
   separate word (`--name value`) or the attached part (`--name=value`), and consumes both *)
Theorem take_arg_value n adj s k w :
  find_item s (fun _ a => matches_arg n adj a) = Some k ->
  (get s (S k) = Some (Word w) \/ get s (S k) = Some (ArgWord w)) ->
  take_arg n adj s = TASome w (sremove (KArgVal n) (S k) (sremove (KArgKey n) k s)).
Proof.
  intros Hf Hg. unfold take_arg. rewrite Hf. destruct Hg as [-> | ->]; reflexivity.
Qed.

(* a key whose next token is anything else is an error, never a value *)
Theorem take_arg_no_value n adj s k :
  find_item s (fun _ a => matches_arg n adj a) = Some k ->
  (forall w, get s (S k) <> Some (Word w) /\ get s (S k) <> Some (ArgWord w)) ->
  take_arg n adj s = TAErr k.
Proof.
  intros Hf Hg. unfold take_arg. rewrite Hf.
  destruct (get s (S k)) as [[c a o|l a o|w|w|w]|] eqn:E; try reflexivity;
    destruct (Hg w) as [H1 H2]; congruence.
Qed.

(* byte-exact delivery for OS-string / path targets; String requires UTF-8 and is then exact *)
Theorem convert_os_exact w : convert TyOsString w = inl (VBytes w) /\ convert TyPathBuf w = inl (VBytes w).
Proof. split; reflexivity. Qed.

Theorem convert_string_exact w :
  (utf8_valid w = true -> convert TyString w = inl (VBytes w)) /\
  (utf8_valid w = false -> exists e, convert TyString w = inr e).
Proof. unfold convert. destruct (utf8_valid w); split; intros; try discriminate; eauto. Qed.

(* ------------------------------------------------------------------ PosWord is inert *)
Theorem posword_not_named k w :
  accepts k (PosWord w) = true -> k = KPos \/ k = KAny.
Proof. destruct k; cbn; intros H; try discriminate; auto. Qed.

Theorem argword_only_value k w :
  accepts k (ArgWord w) = true -> (exists n, k = KArgVal n) \/ k = KAny.
Proof. destruct k; cbn; intros H; try discriminate; eauto. Qed.

(* ------------------------------------------------------------------ positionals and strictness *)
Theorem eval_pos_ok mv ty pos help s v s' :
  eval_pos mv ty pos help s = (ROk v, s') ->
  exists ix w,
    find_item s (fun _ a => match a with Word _ | PosWord _ => true | _ => false end) = Some ix /\
    convert ty w = inl v /\ s' = sremove KPos ix s /\
    match pos with
    | Strict => nth_error (items s) ix = Some (PosWord w)
    | NonStrict => nth_error (items s) ix = Some (Word w)
    | Unrestricted => nth_error (items s) ix = Some (Word w) \/ nth_error (items s) ix = Some (PosWord w)
    end.
Proof.
  unfold eval_pos, take_positional_word.
  destruct (find_item s _) as [ix|] eqn:Hf; [|discriminate].
  destruct (nth_error (items s) ix) as [[c a o|l a o|w|w|w]|] eqn:Hn; try discriminate.
  - destruct pos; cbn; unfold convert_res; try discriminate;
      destruct (convert ty w) eqn:Hc; try discriminate; intros H; inv H; exists ix, w; auto.
  - destruct pos; cbn; unfold convert_res; try discriminate;
      destruct (convert ty w) eqn:Hc; try discriminate; intros H; inv H; exists ix, w; auto.
Qed.

(* a strict positional facing a word from the left of `--` fails with the FINAL StrictPos error;
   a non-strict one facing a word from the right fails with the catchable NonStrictPos *)
Theorem strict_wrong_side mv ty help s ix w :
  find_item s (fun _ a => match a with Word _ | PosWord _ => true | _ => false end) = Some ix ->
  nth_error (items s) ix = Some (Word w) ->
  fst (eval_pos mv ty Strict help s) = RErr (MsgStrictPos ix mv) /\
  can_catch (MsgStrictPos ix mv) = false.
Proof.
  intros Hf Hn. unfold eval_pos, take_positional_word. rewrite Hf, Hn. split; reflexivity.
Qed.

Theorem nonstrict_wrong_side mv ty help s ix w :
  find_item s (fun _ a => match a with Word _ | PosWord _ => true | _ => false end) = Some ix ->
  nth_error (items s) ix = Some (PosWord w) ->
  fst (eval_pos mv ty NonStrict help s) = RErr (MsgNonStrictPos ix mv) /\
  can_catch (MsgNonStrictPos ix mv) = true.
Proof.
  intros Hf Hn. unfold eval_pos, take_positional_word. rewrite Hf, Hn. split; reflexivity.
Qed.

(* ------------------------------------------------------------------ the separator *)
Lemma run_inner_marker K feat env o name argv v s' :
  okinds_ok K o ->
  run_inner_state feat env o name argv = (SOk v, s') ->
  forall m, t_marker (tokenize (fst (short_tables o)) (snd (short_tables o)) argv) = Some m ->
            In (m, KTok) (log s') /\ forall k, In (m, k) (log s') -> k = KTok.
Proof.
  intros Hk H m Hm.
  pose proof (run_inner_exactly_once K feat env o name argv v s' Hk H) as (Hnd & _ & _).
  unfold run_inner_state, initial_state in H.
  destruct (short_tables o) as [sf sa]. cbn [fst snd] in Hm.
  assert (Hlog0 : exists st amb, construct sf sa name argv = (st, amb) /\ log st = [(m, KTok)]).
  { unfold construct. rewrite Hm. eexists. eexists. split; reflexivity. }
  destruct Hlog0 as (st & amb & Hc & Hl0). rewrite Hc in H.
  assert (Hrun : run_sub env o st = (SOk v, s')).
  { destruct amb as [[ix sh]|]; [inv H|exact H]. }
  destruct (eval_good_all K env) as (_ & _ & Hgood). destruct (Hgood o Hk) as [Hreach _].
  pose proof (Hreach st) as R. rewrite Hrun in R. cbn in R.
  destruct (reach_ext _ _ _ R) as [l E].
  assert (Hin : In (m, KTok) (log s')).
  { rewrite (ext_log _ _ _ _ E), Hl0. apply in_or_app. right. left. reflexivity. }
  split; [exact Hin|].
  intros k Hk2.
  (* NoDup on first components: two entries with the same index are the same entry *)
  clear -Hnd Hin Hk2. induction (log s') as [|[i0 k0] t IH]; [destruct Hin|].
  cbn in Hnd. inversion Hnd as [|? ? Hnotin Hnd']; subst.
  destruct Hin as [E1|Hin], Hk2 as [E2|Hk2].
  - inv E1. inv E2. reflexivity.
  - inv E1. exfalso. apply Hnotin. apply in_map_iff. exists (m, k). auto.
  - inv E2. exfalso. apply Hnotin. apply in_map_iff. exists (m, KTok). auto.
  - apply IH; auto.
Qed.
