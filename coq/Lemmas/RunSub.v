(* RunSub.v -- inversion facts about OptionParser::run_subparser. *)
From BpafLemmas Require Import Tac EvalEq.

Lemma run_sub_body_ok env inf m s r s1 v s' :
  run_sub_body env inf m s (r, s1) = (SOk v, s') ->
  r = ROk v /\ s' = s1 /\ first_item_ix s1 = None.
Proof.
  unfold run_sub_body. intros H.
  destruct r as [v0|e|w|]; try discr.
  - cbn in H. destruct (first_item_ix s1) eqn:Hf.
    + destruct (info_eval env inf s1) as [[[d|ver]|] s2]; try discr.
      destruct (invariant_ok m); discr.
    + inv H. auto.
  - exfalso.
    destruct (_ && _ && _) in H.
    + destruct (invariant_ok m); discr.
    + destruct e; try (destruct (info_eval env inf s1) as [[[d|ver]|] s2]; try discr;
                       destruct (invariant_ok m); discr).
Qed.

Lemma run_sub_ok env q inf s v s' :
  run_sub env (Options q inf) s = (SOk v, s') ->
  eval env q s = (ROk v, s') /\ first_item_ix s' = None.
Proof.
  rewrite run_sub_eq. destruct (eval env q s) as [r s1] eqn:He. intros H.
  apply run_sub_body_ok in H. destruct H as (-> & -> & Hf). auto.
Qed.
