(* HtmlLaws.v -- HTML output (C16):
   (1) the tags a reader of the bytes sees are exactly the tags the renderer decided to emit: user
       text (help, names, metavariables) never opens or closes a tag;
   (2) for a document with balanced blocks those tags are well nested (style tags inside block
       tags, <dd>/<li> closed by the same kind that opened them). *)
From Coq Require Import Lia List Bool NArith.
From BpafModel Require Import Docs.
Import ListNotations.

(* ------------------------------------------------------------------ (1) a tag reader *)
(* outside a tag `<` opens one and `>` is an error; inside, `>` closes it and `<` is an error *)
Fixpoint tags_go (inside : option bytes) (s : bytes) : option (list bytes) :=
  match s with
  | [] => match inside with None => Some [] | Some _ => None end
  | c :: t =>
    match inside with
    | None => if (c =? 60)%N then tags_go (Some []) t else if (c =? 62)%N then None else tags_go None t
    | Some acc =>
      if (c =? 62)%N then option_map (cons (rev acc)) (tags_go None t)
      else if (c =? 60)%N then None else tags_go (Some (c :: acc)) t
    end
  end.
Definition html_tags (s : bytes) : option (list bytes) := tags_go None s.

Lemma tags_go_app a : forall i b x, tags_go i a = Some x ->
  tags_go i (a ++ b) = option_map (app x) (tags_go None b).
Proof.
  induction a as [|c t IH]; intros i b x H; cbn [app tags_go] in *.
  - destruct i; [discriminate|]. inversion H. destruct (tags_go None b); reflexivity.
  - destruct i as [acc|].
    + destruct (c =? 62)%N.
      * destruct (tags_go None t) as [y|] eqn:E; [|discriminate]. cbn in H. inversion H; subst.
        rewrite (IH None b y E). destruct (tags_go None b); reflexivity.
      * destruct (c =? 60)%N; [discriminate|]. apply IH. exact H.
    + destruct (c =? 60)%N; [apply IH; exact H|]. destruct (c =? 62)%N; [discriminate|]. apply IH. exact H.
Qed.

(* what the renderer means to emit *)
Definition strip_nl (s : bytes) : bytes := if (last s 0 =? 10)%N then removelast s else s.
Definition inner (s : bytes) : bytes := removelast (tl (strip_nl s)).
Definition ev_tags (e : hev) : list bytes :=
  match e with
  | EOpen t => [inner (open_str t)]
  | EClose t => [inner (close_str t)]
  | EBr => [[98; 114]%N]
  | EHash | EText _ => []
  end.

Lemma text_no_tags s : html_tags (html_escape s) = Some [].
Proof.
  unfold html_tags. induction s as [|c t IH]; [reflexivity|].
  cbn [html_escape flat_map]. fold (html_escape t).
  destruct (N.eqb_spec c 60); [subst; rewrite (tags_go_app k_amp_lt None _ []); [rewrite IH|]; reflexivity|].
  destruct (N.eqb_spec c 62); [subst; rewrite (tags_go_app k_amp_gt None _ []); [rewrite IH|]; reflexivity|].
  cbn [app tags_go]. rewrite (proj2 (N.eqb_neq c 60) n), (proj2 (N.eqb_neq c 62) n0). exact IH.
Qed.

Lemma ev_tags_exact e : html_tags (hev_str e) = Some (ev_tags e).
Proof.
  destruct e as [t|t| | |s]; try (destruct t; vm_compute; reflexivity); try (vm_compute; reflexivity).
  apply text_no_tags.
Qed.

(* C16: reading the HTML back gives exactly the renderer's own tags -- nothing in a help text, a
   name or a metavariable opens or closes one (and no `<` or `>` is left dangling) *)
Theorem html_tags_exact evs : html_tags (html_bytes evs) = Some (flat_map ev_tags evs).
Proof.
  unfold html_bytes. induction evs as [|e t IH]; [reflexivity|].
  cbn [flat_map]. unfold html_tags in *. rewrite (tags_go_app _ None _ _ (ev_tags_exact e)), IH. reflexivity.
Qed.

(* ------------------------------------------------------------------ (2) nesting *)
Fixpoint wn (st : list htag) (evs : list hev) : option (list htag) :=
  match evs with
  | [] => Some st
  | EOpen t :: r => wn (t :: st) r
  | EClose t :: r =>
    match st with
    | t' :: st' => if htag_eqb t t' then wn st' r else None
    | [] => None
    end
  | _ :: r => wn st r
  end.

Lemma wn_app a : forall st b, wn st (a ++ b) = match wn st a with Some st' => wn st' b | None => None end.
Proof.
  induction a as [|e t IH]; intros st b; cbn [app wn]; [reflexivity|].
  destruct e; try apply IH. destruct st as [|t' st']; [reflexivity|]. destruct (htag_eqb t0 t'); [apply IH|reflexivity].
Qed.

Definition style_tags (c : styles) : list htag :=
  (if st_italic c then [HI] else []) ++ (if st_bold c then [HB] else []) ++ (if st_mono c then [HTt] else []).

Lemma change_style_wn cur new rest :
  wn (style_tags cur ++ rest) (change_style cur new) = Some (style_tags new ++ rest).
Proof. destruct cur as [[] [] []], new as [[] [] []]; reflexivity. Qed.

Definition block_tag (b : block) (below : list block) : list htag :=
  match b with
  | BSection2 => [HDiv] | BItemTerm => [HDt]
  | BItemBody => if is_deflist below then [HDd] else [HLi]
  | BDefinitionList => [HDl] | BBlock => [HP] | BSection3 => [HDiv3]
  | _ => []
  end.
Fixpoint block_tags (stack : list block) : list htag :=
  match stack with [] => [] | b :: below => block_tag b below ++ block_tags below end.

Definition open_of (st : hstate) : list htag := style_tags (hs_cur st) ++ block_tags (hs_stack st).

Lemma track_cur st evs : hs_cur (track st evs) = hs_cur st /\ hs_stack (track st evs) = hs_stack st /\
                         hs_skip (track st evs) = hs_skip st.
Proof.
  unfold track. revert st. induction evs as [|e t IH]; intros st; cbn [fold_left]; [auto|].
  destruct (ev_visible e); [|apply IH].
  match goal with |- context [fold_left _ t ?x] => destruct (IH x) as [A [B C]] end.
  rewrite A, B, C. cbn. auto.
Qed.

(* text chunks carry no tags *)
Lemma chunks_no_tags full cs : forall st, wn st (fst (html_chunks full cs)) = Some st.
Proof.
  induction cs as [|c t IH]; intros st; cbn [html_chunks]; [reflexivity|].
  destruct c as [s w| |].
  - specialize (IH st). destruct (html_chunks full t) as [r k]. exact IH.
  - destruct full; [|reflexivity]. specialize (IH st). destruct (html_chunks true t) as [r k]. exact IH.
  - specialize (IH st). destruct (html_chunks full t) as [r k]. exact IH.
Qed.

Lemma blank_no_tags st s : wn s (blank_line st) = Some s.
Proof. unfold blank_line. destruct (hs_empty st || hs_br st); reflexivity. Qed.

Lemma htag_eqb_refl t : htag_eqb t t = true.
Proof. destruct t; reflexivity. Qed.

(* the stack of open tags follows the style and the block stack *)
Lemma step_wn full st t evs st' :
  html_step full st t = Some (evs, st') ->
  (forall b, t = TEnd b -> exists below, hs_stack st = b :: below) ->
  wn (open_of st) evs = Some (open_of st') /\
  hs_stack st' = match t with TText _ _ => hs_stack st | TStart b => b :: hs_stack st | TEnd _ => tl (hs_stack st) end.
Proof.
  intros H Hb. destruct t as [sty s|b|b]; cbn [html_step] in H.
  - destruct (Nat.ltb 0 (hs_skip st)); [inversion H; subst; cbn; auto|].
    destruct (html_chunks full (split true s)) as [e2 k] eqn:E.
    inversion H; subst. clear H.
    pose proof (track_cur (with_style st (styles_of sty)) (change_style (hs_cur st) (styles_of sty) ++ e2)) as [A [B C]].
    assert (O' : open_of (if k then with_skip (track (with_style st (styles_of sty)) (change_style (hs_cur st) (styles_of sty) ++ e2)) 1
                          else track (with_style st (styles_of sty)) (change_style (hs_cur st) (styles_of sty) ++ e2))
                 = style_tags (styles_of sty) ++ block_tags (hs_stack st)).
    { unfold open_of. destruct k; cbn [with_skip hs_cur hs_stack]; rewrite A, B; reflexivity. }
    split.
    + rewrite O'. unfold open_of. rewrite wn_app, change_style_wn.
      pose proof (chunks_no_tags full (split true s) (style_tags (styles_of sty) ++ block_tags (hs_stack st))) as W.
      rewrite E in W. exact W.
    + destruct k; cbn [with_skip hs_stack]; rewrite B; reflexivity.
  - set (e1 := change_style (hs_cur st) st_default) in *.
    set (st1 := track (with_style st st_default) e1) in *.
    pose proof (track_cur (with_style st st_default) e1) as [A1 [B1 C1]]. fold st1 in A1, B1, C1.
    cbn [with_style hs_cur hs_stack hs_skip] in A1, B1, C1.
    destruct (is_deflist (hs_stack st)) eqn:Ed;
    destruct b; try discriminate H;
      match type of H with Some (e1 ++ ?e2, with_stack ?st3 (?b :: _)) = _ =>
        inversion H; subst evs st'; clear H;
        match st3 with
        | context [track st1 ?ee] =>
          pose proof (track_cur st1 ee) as [A2 [B2 C2]]
        end
      end;
      (split;
       [ unfold open_of at 1; rewrite wn_app; unfold e1; rewrite change_style_wn;
         unfold open_of; cbn [with_stack hs_cur hs_stack];
         repeat match goal with |- context [if ?c then _ else _] => destruct c end;
         cbn [with_skip hs_cur hs_stack]; rewrite ?A2, ?B2, ?A1, ?B1; cbn [style_tags st_default st_italic st_bold st_mono app block_tags block_tag];
         rewrite ?wn_app, ?blank_no_tags; cbn [wn app]; try reflexivity
       | cbn [with_stack hs_stack]; repeat match goal with |- context [if ?c then _ else _] => destruct c end;
         cbn [with_skip hs_stack]; rewrite ?B2, ?B1; reflexivity ]).
    all: try (rewrite Ed; reflexivity).
  - destruct (Hb b eq_refl) as [below Hs].
    set (e1 := change_style (hs_cur st) st_default) in *.
    set (st1 := track (with_style st st_default) e1) in *.
    pose proof (track_cur (with_style st st_default) e1) as [A1 [B1 C1]]. fold st1 in A1, B1, C1.
    cbn [with_style hs_cur hs_stack hs_skip] in A1, B1, C1.
    rewrite B1, Hs in H. cbn [tl] in H.
    destruct b; try discriminate H;
      match type of H with Some (e1 ++ ?e2, ?st3) = _ =>
        inversion H; subst evs st'; clear H;
        match st3 with
        | context [track (with_stack st1 below) ?ee] =>
          pose proof (track_cur (with_stack st1 below) ee) as [A2 [B2 C2]]
        end
      end;
      cbn [with_stack hs_cur hs_stack] in A2, B2;
      (split;
       [ unfold open_of at 1; rewrite wn_app; unfold e1; rewrite change_style_wn;
         unfold open_of; cbn [with_skip hs_cur hs_stack]; rewrite ?A2, ?B2, ?A1, Hs;
         cbn [style_tags st_default st_italic st_bold st_mono app block_tags block_tag];
         rewrite ?blank_no_tags; cbn [wn app htag_eqb]; try reflexivity
       | cbn [with_skip hs_stack]; rewrite ?B2, Hs; reflexivity ]).
    all: try (destruct (is_deflist below); cbn [wn app htag_eqb]; reflexivity).
    all: try (cbn [with_stack hs_cur hs_stack]; rewrite A1; reflexivity).
Qed.

(* a document whose blocks are balanced *)
Fixpoint bal (stack : list block) (d : doc) : bool :=
  match d with
  | [] => is_nil stack
  | TText _ _ :: t => bal stack t
  | TStart b :: t => bal (b :: stack) t
  | TEnd b :: t => match stack with b' :: below => block_eqb b b' && bal below t | [] => false end
  end.

Lemma block_eqb_eq a b : block_eqb a b = true -> a = b.
Proof. destruct a, b; cbn; congruence. Qed.

Lemma run_wn full d : forall st evs,
  bal (hs_stack st) d = true -> html_run full st d = Some evs -> wn (open_of st) evs = Some [].
Proof.
  induction d as [|t d IH]; intros st evs Hb Hr; cbn [html_run] in Hr.
  - inversion Hr; subst. cbn [bal] in Hb. destruct (hs_stack st) eqn:Es; [|discriminate].
    unfold open_of. rewrite Es. cbn [block_tags]. rewrite change_style_wn. reflexivity.
  - destruct (html_step full st t) as [[e1 st1]|] eqn:E; [|discriminate].
    destruct (html_run full st1 d) as [rest|] eqn:E2; [|discriminate]. inversion Hr; subst evs.
    assert (Hend : forall b, t = TEnd b -> exists below, hs_stack st = b :: below).
    { intros b ->. cbn [bal] in Hb. destruct (hs_stack st) as [|b' below]; [discriminate|].
      apply andb_prop in Hb. destruct Hb as [Hb _]. apply block_eqb_eq in Hb. subst. eauto. }
    destruct (step_wn full st t e1 st1 E Hend) as [W S].
    rewrite wn_app, W. apply (IH st1 rest); [|exact E2].
    rewrite S. destruct t as [sty s|b|b]; cbn [bal] in Hb; [exact Hb|exact Hb|].
    destruct (hs_stack st) as [|b' below]; [discriminate|]. apply andb_prop in Hb. apply Hb.
Qed.

(* C16: balanced blocks in, well-nested tags out *)
Theorem html_well_nested full d evs :
  bal [] d = true -> render_html_events full d = Some evs -> wn [] evs = Some [].
Proof. intros Hb Hr. apply (run_wn full d hs_init evs Hb Hr). Qed.
