(* Tac.v -- reduction hints and small tactics shared by the proofs. *)
From Coq Require Export Lia List Bool PeanoNat NArith ZArith.
From BpafModel Require Export Eval.

Global Arguments Nat.ltb : simpl never.
Global Arguments Nat.leb : simpl never.
Global Arguments Nat.eqb : simpl never.
Global Arguments Nat.sub : simpl nomatch.
Global Arguments N.add : simpl never.
Global Arguments N.sub : simpl never.
Global Arguments N.mul : simpl never.
Global Arguments N.eqb : simpl never.
Global Arguments N.ltb : simpl never.
Global Arguments N.leb : simpl never.
Global Arguments N.div : simpl never.
Global Arguments N.modulo : simpl never.

Ltac inv H := inversion H; subst; clear H.

(* destruct the scrutinee of the first match/if found in hypothesis H *)
Ltac case_in H :=
  match type of H with
  | context [match ?x with _ => _ end] => destruct x eqn:?
  | context [if ?x then _ else _] => destruct x eqn:?
  end.

Ltac case_goal :=
  match goal with
  | |- context [match ?x with _ => _ end] => destruct x eqn:?
  | |- context [if ?x then _ else _] => destruct x eqn:?
  end.

(* the end of adj_outer's loop: the best attempt's state gets the caller's scope back, or (never) panics *)
Ltac adj_nil H :=
  match type of H with context [set_scope ?a ?b ?c] => destruct (set_scope a b c); discriminate H end.

Ltac discr := match goal with H : _ = _ |- _ => discriminate H end.

Global Arguments BpafModel.Message.render_message : simpl never.
Global Arguments adj_inner : simpl never.
Global Arguments adjacently_available_from : simpl never.
Global Arguments loop_fuel : simpl never.
Global Arguments set_scope : simpl never.
Global Arguments adjacent_scope : simpl never.
Global Arguments sremove : simpl never.
Global Arguments info_eval : simpl never.
Global Arguments eval_flag : simpl never.
