(* ManyOrderList.v -- C07, "wrapped in many / some the collected values follow command-line order", for a repeated
   choice between two required flags: the rounds consume positions in strictly increasing order, every collected
   value is the value of the flag whose consumer took that round's item, and the consumption log (ghost) records
   exactly these rounds.  So the returned list, read from its head, walks the line from left to right. *)
From Coq Require Import Lia List Bool Arith Sorted.
From BpafModel Require Import Wf.
From BpafLemmas Require Import Tac EvalEq Find Reach Ledger NoLoss C05Lemmas AdjLaws LoopLaws Exact TotalLaws AdjTotal TotalAll
     HelpLaws CmdLaws HelpWins PickLaws ManyOrder.
Import ListNotations.

(* find_item returns the LEAST in-scope available position that qualifies *)
Lemma find_item_least s f i :
  find_item s f = Some i ->
  forall q a st, in_scope s q = true -> nth_error (items s) q = Some a -> ist_at s q = Some st -> present st = true ->
                 f q a = true -> i <= q.
Proof.
  unfold find_item. intros H q a st Hin Ha Hs Hp Hf.
  destruct (Nat.le_gt_cases i q) as [Hle|Hgt]; [exact Hle|exfalso].
  unfold in_scope in Hin. apply andb_prop in Hin. destruct Hin as [H1 _]. apply Nat.leb_le in H1.
  pose proof (find_from_before _ _ _ _ _ _ H (q - sc_start s) a st) as B.
  replace (sc_start s + (q - sc_start s)) with q in B by lia.
  rewrite B in Hf; [discriminate|lia| | |exact Hp].
  - rewrite nth_error_skipn. replace (sc_start s + (q - sc_start s)) with q by lia. exact Ha.
  - unfold ist_at in Hs. rewrite nth_error_skipn. replace (sc_start s + (q - sc_start s)) with q by lia. exact Hs.
Qed.

Lemma Forall2_rev_ {A B} (R : A -> B -> Prop) l1 l2 : Forall2 R l1 l2 -> Forall2 R (rev l1) (rev l2).
Proof. induction 1; cbn; [constructor|]. apply Forall2_app; [assumption|constructor; [assumption|constructor]]. Qed.

Lemma sorted_snoc {A} (R : A -> A -> Prop) l e :
  StronglySorted R l -> Forall (fun x => R x e) l -> StronglySorted R (l ++ [e]).
Proof.
  induction 1 as [|x l Hs IH Hf]; intros Ha; cbn; [constructor; constructor|].
  inversion Ha; subst. constructor; [apply IH; assumption|]. apply Forall_app. split; [assumption|]. constructor; [assumption|constructor].
Qed.

Section List.
Variable env : bytes -> option bytes.
Variables na nb : named.
Variables va vb : val.
Hypothesis Ea : n_env na = [].
Hypothesis Eb : n_env nb = [].
Hypothesis Ka : flag_item na <> None.
Hypothesis Kb : flag_item nb <> None.
(* different names: no item is an occurrence of both *)
Hypothesis Hdis : forall a, matches_arg na false a = true -> matches_arg nb false a = false.

Definition ev : evaluator := or_body (eval_flag env na va None) (eval_flag env nb vb None).
Definition mine (a : arg) : bool := matches_arg na false a || matches_arg nb false a.
Definition cand (s : state) (q : nat) : Prop :=
  in_scope s q = true /\ live s q /\ exists a, nth_error (items s) q = Some a /\ mine a = true.
(* who owns a round: the value and the consumer recorded in the log *)
Definition own (v : val) (e : nat * ckind) : Prop := (snd e = KFlag na /\ v = va) \/ (snd e = KFlag nb /\ v = vb).

Lemma ev_reach_ev : ev_reach (fun _ => True) ev.
Proof. apply or_reach; apply eval_flag_reach; exact I. Qed.

Lemma live_save_conflicts s l w q : live (save_conflicts s l w) q <-> live s q.
Proof.
  unfold live, present_at, ist_at, save_conflicts. cbn [ist set_ist].
  pose proof (save_conflicts_go_present w (ist s) (ist l) q) as H.
  destruct (nth_error (save_conflicts_go w (ist s) (ist l)) q), (nth_error (ist s) q); cbn in *; split; congruence.
Qed.

Lemma live_sremove_iff k p s q st : in_scope s p = true -> ist_at s p = Some st -> present st = true ->
  (live (sremove k p s) q <-> live s q /\ q <> p).
Proof.
  intros Hin Hs Hp. unfold sremove. rewrite Hin, Hs, Hp. cbn [andb]. unfold live, present_at, ist_at in *. cbn [ist].
  destruct (Nat.eq_dec q p) as [->|Hne].
  - assert (Hlt : p < length (ist s)) by (apply nth_error_Some; congruence).
    rewrite (Ledger.update_nth_same p Parsed _ Hlt). cbn. split; [discriminate|tauto].
  - rewrite (Ledger.update_nth_other _ _ _ _ Hne). tauto.
Qed.

Lemma remaining_pos s p : G s -> in_scope s p = true -> live s p -> 1 <= remaining s.
Proof.
  intros (_ & _ & Hex) Hin Hl. unfold exact in Hex. rewrite Hex, count_present_cnt.
  unfold in_scope in Hin. apply andb_prop in Hin. destruct Hin as [H1 H2].
  apply Nat.leb_le in H1. apply Nat.ltb_lt in H2.
  apply (cnt_pos _ _ _ p); [lia|]. apply live_pres, Hl.
Qed.

(* one round *)
Lemma round s : G s ->
  (exists e, ev s = (RErr e, s) /\ is_missing e = true) \/
  (exists v p k s1, ev s = (ROk v, s1) /\ own v (p, k) /\ log s1 = (p, k) :: log s /\
     (forall q, live s1 q <-> live s q /\ q <> p) /\ items s1 = items s /\ (forall q, in_scope s1 q = in_scope s q) /\
     remaining s1 = pred (remaining s) /\ cand s p /\ (forall q, cand s q -> p <= q)).
Proof.
  intros Hg. unfold ev.
  destruct (find_item s (fun _ a => matches_arg na false a)) as [i|] eqn:Fa;
    destruct (find_item s (fun _ a => matches_arg nb false a)) as [j|] eqn:Fb.
  - (* both on the line *)
    pose proof (find_item_some _ _ _ Fa) as (Ia & a & x & Ha & Hx & Px & Ma).
    pose proof (find_item_some _ _ _ Fb) as (Ib & b & y & Hb & Hy & Py & Mb).
    assert (Hne : i <> j).
    { intros ->. rewrite Ha in Hb. inversion Hb; subst b. rewrite (Hdis a Ma) in Mb. discriminate. }
    assert (Li : live s i) by (unfold live, present_at; rewrite Hx; cbn; rewrite Px; reflexivity).
    assert (Lj : live s j) by (unfold live, present_at; rewrite Hy; cbn; rewrite Py; reflexivity).
    pose proof (remaining_pos s i Hg Ia Li) as Hr.
    rewrite (choice_takes_leftmost env na va nb vb s i j x y Ea Eb Fa Fb Hne Hx Hy Hr).
    assert (Least : forall p, p = Nat.min i j -> forall q, cand s q -> p <= q).
    { intros p -> q (Hin & Hl & c & Hc & Hm). unfold live, present_at in Hl.
      destruct (ist_at s q) as [st|] eqn:Hs; [|discriminate]. cbn in Hl. inversion Hl as [Hp].
      unfold mine in Hm. apply orb_prop in Hm. destruct Hm as [Hm|Hm].
      - pose proof (find_item_least s _ i Fa q c st Hin Hc Hs Hp Hm). lia.
      - pose proof (find_item_least s _ j Fb q c st Hin Hc Hs Hp Hm). lia. }
    right. destruct (Nat.ltb i j) eqn:L.
    + apply Nat.ltb_lt in L. exists va, i, (KFlag na), (save_conflicts (sremove (KFlag na) i s) (sremove (KFlag nb) j s) i).
      split; [reflexivity|]. split; [left; split; reflexivity|]. split.
      { unfold save_conflicts, sremove. rewrite Ia, Hx, Px. reflexivity. }
      split. { intros q. rewrite live_save_conflicts. apply (live_sremove_iff _ _ _ _ x Ia Hx Px). }
      split. { unfold save_conflicts. cbn. apply sremove_items. }
      split. { intros q. unfold save_conflicts. apply sremove_scope. }
      split. { unfold save_conflicts, sremove. rewrite Ia, Hx, Px. reflexivity. }
      split. { split; [exact Ia|]. split; [exact Li|]. exists a. split; [exact Ha|]. unfold mine. rewrite Ma. reflexivity. }
      apply Least. lia.
    + apply Nat.ltb_ge in L. exists vb, j, (KFlag nb), (save_conflicts (sremove (KFlag nb) j s) (sremove (KFlag na) i s) j).
      split; [reflexivity|]. split; [right; split; reflexivity|]. split.
      { unfold save_conflicts, sremove. rewrite Ib, Hy, Py. reflexivity. }
      split. { intros q. rewrite live_save_conflicts. apply (live_sremove_iff _ _ _ _ y Ib Hy Py). }
      split. { unfold save_conflicts. cbn. apply sremove_items. }
      split. { intros q. unfold save_conflicts. apply sremove_scope. }
      split. { unfold save_conflicts, sremove. rewrite Ib, Hy, Py. reflexivity. }
      split. { split; [exact Ib|]. split; [exact Lj|]. exists b. split; [exact Hb|]. unfold mine. rewrite Mb. apply orb_true_r. }
      apply Least. lia.
  - (* only the first *)
    pose proof (find_item_some _ _ _ Fa) as (Ia & a & x & Ha & Hx & Px & Ma).
    assert (Li : live s i) by (unfold live, present_at; rewrite Hx; cbn; rewrite Px; reflexivity).
    rewrite (choice_takes_the_one_present env na va nb vb s i Ea Eb Kb Fa Fb).
    right. exists va, i, (KFlag na), (sremove (KFlag na) i s).
    split; [reflexivity|]. split; [left; split; reflexivity|]. split.
    { unfold sremove. rewrite Ia, Hx, Px. reflexivity. }
    split. { intros q. apply (live_sremove_iff _ _ _ _ x Ia Hx Px). }
    split. { apply sremove_items. } split. { intros q. apply sremove_scope. }
    split. { unfold sremove. rewrite Ia, Hx, Px. reflexivity. }
    split. { split; [exact Ia|]. split; [exact Li|]. exists a. split; [exact Ha|]. unfold mine. rewrite Ma. reflexivity. }
    intros q (Hin & Hl & c & Hc & Hm). unfold live, present_at in Hl.
    destruct (ist_at s q) as [st|] eqn:Hs; [|discriminate]. cbn in Hl. inversion Hl as [Hp].
    unfold mine in Hm. apply orb_prop in Hm. destruct Hm as [Hm|Hm].
    + exact (find_item_least s _ i Fa q c st Hin Hc Hs Hp Hm).
    + rewrite (find_item_none s _ Fb q c st Hin Hc Hs Hp) in Hm. discriminate.
  - (* only the second *)
    pose proof (find_item_some _ _ _ Fb) as (Ib & b & y & Hb & Hy & Py & Mb).
    assert (Lj : live s j) by (unfold live, present_at; rewrite Hy; cbn; rewrite Py; reflexivity).
    unfold or_body. rewrite (req_flag_eval env na va s Ea), (req_flag_eval env nb vb s Eb), Fa, Fb.
    destruct (flag_item na) as [it|]; [|congruence].
    assert (D : depth (sremove (KFlag nb) j s) = depth s) by (unfold sremove; destruct (in_scope s j && _); reflexivity).
    unfold this_or_that. rewrite D, Nat.compare_refl. cbn.
    right. exists vb, j, (KFlag nb), (sremove (KFlag nb) j s).
    split; [reflexivity|]. split; [right; split; reflexivity|]. split.
    { unfold sremove. rewrite Ib, Hy, Py. reflexivity. }
    split. { intros q. apply (live_sremove_iff _ _ _ _ y Ib Hy Py). }
    split. { apply sremove_items. } split. { intros q. apply sremove_scope. }
    split. { unfold sremove. rewrite Ib, Hy, Py. reflexivity. }
    split. { split; [exact Ib|]. split; [exact Lj|]. exists b. split; [exact Hb|]. unfold mine. rewrite Mb. apply orb_true_r. }
    intros q (Hin & Hl & c & Hc & Hm). unfold live, present_at in Hl.
    destruct (ist_at s q) as [st|] eqn:Hs; [|discriminate]. cbn in Hl. inversion Hl as [Hp].
    unfold mine in Hm. apply orb_prop in Hm. destruct Hm as [Hm|Hm].
    + rewrite (find_item_none s _ Fa q c st Hin Hc Hs Hp) in Hm. discriminate.
    + exact (find_item_least s _ j Fb q c st Hin Hc Hs Hp Hm).
  - (* neither: both are missing *)
    left. unfold or_body. rewrite (req_flag_eval env na va s Ea), (req_flag_eval env nb vb s Eb), Fa, Fb.
    destruct (flag_item na) as [ia|]; [|congruence]. destruct (flag_item nb) as [ib|]; [|congruence].
    unfold this_or_that. rewrite Nat.compare_refl. cbn. eexists. split; reflexivity.
Qed.

Definition desc (a b : nat * ckind) : Prop := fst b < fst a.

(* the loop: what the rounds consumed, most recent first *)
Lemma many_loop_order : forall fuel len s acc u acc' s',
  G s -> (len = None \/ len = Some (remaining s)) ->
  many_loop ev false fuel len s acc = (ROk u, acc', s') ->
  exists es vs, log s' = es ++ log s /\ acc' = vs ++ acc /\ Forall2 own vs es /\
                StronglySorted desc es /\ Forall (fun e => cand s (fst e)) es.
Proof.
  induction fuel as [|f IH]; intros len s acc u acc' s' Hg Hlen H; [discriminate|].
  cbn [many_loop] in H. unfold parse_option in H.
  destruct (round s Hg) as [(e & Ev & Hm)|(v & p & k & s1 & Ev & Ho & Hlog & Hlive & Hit & Hsc & Hrem & Hc & Hleast)].
  - rewrite Ev in H. rewrite Hm, Nat.eqb_refl in H. cbn in H. inversion H; subst.
    exists [], []. repeat split; constructor.
  - rewrite Ev in H.
    assert (Hr : 1 <= remaining s) by (destruct Hc as (Hin & Hl & _); eapply remaining_pos; eauto).
    assert (Hlt : lt_len (remaining s1) len = true).
    { destruct Hlen as [->| ->]; [reflexivity|]. cbn. apply Nat.ltb_lt. lia. }
    rewrite Hlt in H.
    assert (G1 : G s1).
    { pose proof (ev_reach_ev s) as R. rewrite Ev in R. cbn in R. apply (reach_G _ _ _ R Hg). }
    destruct (IH (Some (remaining s1)) s1 (v :: acc) u acc' s' G1 (or_intror eq_refl) H)
      as (es & vs & Hl & Ha & Hf2 & Hs & Hall).
    assert (Hup : Forall (fun e => cand s (fst e) /\ p < fst e) es).
    { rewrite Forall_forall in *. intros e He. destruct (Hall e He) as (Hin & Hlv & a & Hae & Hme).
      assert (C : cand s (fst e)).
      { split; [rewrite <- Hsc; exact Hin|]. split; [apply Hlive in Hlv; tauto|]. exists a. rewrite <- Hit. auto. }
      split; [exact C|]. pose proof (Hleast _ C). apply Hlive in Hlv. lia. }
    exists (es ++ [(p, k)]), (vs ++ [v]).
    split. { rewrite Hl, Hlog, <- app_assoc. reflexivity. }
    split. { rewrite Ha, <- app_assoc. reflexivity. }
    split. { apply Forall2_app; [exact Hf2|constructor; [exact Ho|constructor]]. }
    split.
    + clear - Hs Hup. induction es as [|e es IHe]; cbn.
      * constructor; constructor.
      * inversion Hs; subst. inversion Hup; subst. constructor; [apply IHe; assumption|].
        apply Forall_app. split; [assumption|]. constructor; [|constructor]. unfold desc. cbn. tauto.
    + apply Forall_app. split.
      * eapply Forall_impl; [|exact Hup]. cbn. tauto.
      * constructor; [exact Hc|constructor].
Qed.

(* many over the choice: the list it returns, read from its head, consumed strictly increasing positions of the line,
   each value being the one of the flag whose consumer took that position *)
Theorem many_choice_in_line_order s vs s' :
  G s -> many_body ev false s = (ROk (VList vs), s') ->
  exists es, log s' = rev es ++ log s /\ Forall2 own vs es /\
             StronglySorted (fun a b => fst a < fst b) es /\ Forall (fun e => cand s (fst e)) es.
Proof.
  intros Hg H. unfold many_body in H.
  destruct (many_loop ev false (loop_fuel s) None s []) as [[r acc] s1] eqn:E.
  destruct r; try discriminate. inversion H; subst.
  destruct (many_loop_order _ _ _ _ _ _ _ Hg (or_introl eq_refl) E) as (es & ws & Hl & Ha & Hf2 & Hs & Hall).
  rewrite app_nil_r in Ha. subst acc.
  exists (rev es). rewrite rev_involutive. split; [exact Hl|]. split; [rewrite <- (rev_involutive ws); apply Forall2_rev_; rewrite rev_involutive; exact Hf2|].
  split; [|apply Forall_rev; exact Hall].
  clear - Hs. induction Hs as [|e es Hs IH Hf]; cbn; [constructor|].
  apply sorted_snoc; [exact IH|]. rewrite Forall_forall in *. intros x Hx. apply in_rev in Hx. apply (Hf x Hx).
Qed.
End List.
