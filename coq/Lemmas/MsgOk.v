(* MsgOk.v -- C04 for error rendering: every failure a run reports carries a document.
   `failure`'s FStderr holds the document Message::render (Model/Message.v) built in the state and with the meta of
   the command level that reports the failure; None stands for a panic of the rendering (an index out of range, an
   unwrap of None, a panicking State::set_scope).  This file shows it is never None:
   (1) conflict marks name a position of the line as the winner, in every state reachable by legal steps
       (cw_ok; the premise of Reach.step for marks);
   (2) Message::render returns for every message that records only positions of the line, in such a state;
   (3) for EVERY parser of the model -- no well-formedness premise, adjacent groups with any members included --
       an error handed out by `eval` from a well-formed state records only positions of the line and scopes inside
       the ledger, and a failure handed out of a subcommand carries a document (`mok`): mutual induction over the
       parser / option parser, one lemma per combinator;
   (4) hence every failure of a whole run carries a document (run_inner_renders). *)
From Coq Require Import Lia List Bool Arith NArith.
From BpafModel Require Import Wf Message.
From BpafLemmas Require Import Tac EvalEq Find Reach Ledger NoLoss C05Lemmas AdjLaws LoopLaws Exact TotalLaws AdjTotal TotalAll MessageLaws.
Import ListNotations.

(* ------------------------------------------------------------------ (1) conflict marks *)
Definition cw_ok (s : state) : Prop :=
  forall i w, nth_error (ist s) i = Some (Conflict w) -> w < length (ist s).

Lemma nth_update_nth {A} ix (v : A) l i x :
  nth_error (update_nth ix v l) i = Some x -> x = v \/ nth_error l i = Some x.
Proof.
  revert ix i. induction l as [|h t IH]; intros ix i.
  - destruct ix, i; cbn; auto.
  - destruct ix; destruct i; cbn; auto; try apply IH.
    intros H; inversion H; auto.
Qed.

Lemma step_cw K s s' : step K s s' -> cw_ok s -> cw_ok s'.
Proof.
  intros St Hc. destruct St as [k ix s st HK Hin Hat Hp Hacc|s c|s p|s a b s' Hs|s ist' Hlen Hpres Hcw]; unfold cw_ok in *.
  - unfold sremove. destruct (in_scope s ix && _); [|exact Hc]. cbn [ist].
    intros i w H. rewrite LoopLaws.update_nth_length. apply nth_update_nth in H. destruct H as [H|H]; [discriminate|eauto].
  - exact Hc.
  - exact Hc.
  - apply set_scope_fields in Hs. destruct Hs as (_ & -> & _). exact Hc.
  - cbn [ist set_ist]. intros i w H. destruct (Hcw i w H) as [H1|H1]; [exact H1|]. rewrite Hlen. eauto.
Qed.

Lemma reach_cw K s s' : reach K s s' -> cw_ok s -> cw_ok s'.
Proof. induction 1 as [s|s1 s2 s3 R IH St]; intros H; [exact H|]. eapply step_cw; eauto. Qed.

(* ------------------------------------------------------------------ well-formed states with sane marks *)
Definition GC (s : state) : Prop := G s /\ cw_ok s.

Lemma reach_GC K s s' : reach K s s' -> GC s -> GC s' /\ items s' = items s.
Proof. intros R [Hg Hc]. destruct (reach_G K s s' R Hg) as [G' I']. split; [split; [exact G'|eapply reach_cw; eauto]|exact I']. Qed.

Lemma G_len s : G s -> length (ist s) = length (items s).
Proof. intros [[H _] _]. exact H. Qed.

Lemma set_scope_GC s a b s' : GC s -> set_scope s a b = Some s' -> GC s' /\ items s' = items s.
Proof.
  intros [Hg Hc] H. split; [split|].
  - eapply set_scope_G; eauto. apply G_len. exact Hg.
  - apply set_scope_fields in H. destruct H as (_ & Ht & _). unfold cw_ok. rewrite Ht. exact Hc.
  - apply set_scope_fields in H. tauto.
Qed.

(* ------------------------------------------------------------------ messages *)
Definition fdoc_ok (f : failure) : Prop := match f with FStderr _ None => False | _ => True end.
(* as msg_ok (MessageLaws.v); a failure a subcommand already rendered must carry its document *)
Definition mok (n : nat) (m : message) : Prop :=
  match m with MsgParseFailure f => fdoc_ok f | _ => msg_ok n m end.
Definition eok (n : nat) (r : eres) : Prop := match r with RErr m => mok n m | _ => True end.
Definition sok (r : sres) : Prop := match r with SFail f => fdoc_ok f | _ => True end.
Definition okmsg (ev : evaluator) : Prop := forall s, GC s -> eok (length (items s)) (fst (ev s)).
Definition okrun (run : state -> sres * state) : Prop := forall s, GC s -> sok (fst (run s)).
Definition keepsGC (ev : evaluator) : Prop := forall s, GC s -> GC (snd (ev s)) /\ items (snd (ev s)) = items s.

Lemma ev_reach_keepsGC K ev : ev_reach K ev -> keepsGC ev.
Proof. intros H s Hg. eapply reach_GC; eauto. Qed.

Lemma missing_mok it s : G s -> mok (length (items s)) (missing_msg it s).
Proof.
  intros Hg. pose proof (G_len s Hg) as Hl. destruct Hg as [_ [[H1 H2] _]].
  cbn. constructor; [|constructor]. unfold miss_ok. cbn. lia.
Qed.

Lemma mok_combine n a b : mok n a -> mok n b -> mok n (combine_with a b).
Proof.
  intros Ha Hb. destruct a, b; cbn [combine_with]; try exact Ha; try exact Hb;
    try (destruct (can_catch _); [exact Hb|exact Ha]).
  cbn in *. apply Forall_app. split; assumption.
Qed.

(* ------------------------------------------------------------------ (3) rendering returns *)
Lemma first_item_lt s ix : first_item_ix s = Some ix -> exists a, nth_error (items s) ix = Some a.
Proof. unfold first_item_ix. intros H. apply find_item_some in H. destruct H as (_ & a & st & Ha & _). eauto. Qed.

Lemma suggest_ix s m ix sg : suggest s m = Some (ix, sg) -> exists a, nth_error (items s) ix = Some a.
Proof.
  unfold suggest. destruct (first_item_ix s) as [i|]; [|discriminate].
  destruct (nth_error (items s) i) as [a|] eqn:E; [|discriminate].
  intros H. assert (ix = i); [|subst; eauto].
  repeat (case_in H; try discriminate); inversion H; reflexivity.
Qed.

Lemma render_suggestion s ix sg a : nth_error (items s) ix = Some a -> render_doc (RSuggestion ix sg) s <> None.
Proof. intros H. cbn [render_doc]. rewrite H. destruct sg; discriminate. Qed.

Lemma conflict_lt s loser winner : length (ist s) = length (items s) -> cw_ok s ->
  conflict s = Some (loser, winner) -> loser < length (items s) /\ winner < length (items s).
Proof.
  intros Hl Hc. unfold conflict. destruct (first_item_ix s) as [ix|] eqn:F; [|discriminate].
  destruct (ist_at s ix) as [[|w|]|] eqn:E; try discriminate. intros H; inversion H; subst.
  apply first_item_lt in F. destruct F as [a Ha]. split.
  - apply nth_error_Some. congruence.
  - rewrite <- Hl. apply (Hc loser). exact E.
Qed.

Lemma summarize_missing_renders xs m s :
  Forall (miss_ok (length (ist s))) xs ->
  exists r, summarize_missing xs m s = Some r /\ render_doc r s <> None.
Proof.
  intros H. unfold summarize_missing. destruct (best_missing xs None) as [best|] eqn:E.
  2:{ eexists. split; [reflexivity|discriminate]. }
  apply best_missing_in in E. destruct E as [E|E]; [discriminate|].
  rewrite Forall_forall in H. destruct (H best E) as (H1 & H2 & H3).
  destruct (set_scope_some s (Nat.max (fst (mi_scope best)) (mi_position best)) (snd (mi_scope best))) as [s' Es]; [lia|exact H2|].
  rewrite Es. apply set_scope_fields in Es. destruct Es as (Hi & _).
  destruct (first_item_ix s') as [ix|] eqn:F.
  - apply first_item_lt in F. destruct F as [a Ha]. rewrite Hi in Ha.
    destruct (suggest s' m) as [[ix' sg]|] eqn:S.
    + apply suggest_ix in S. destruct S as [a' Ha']. rewrite Hi in Ha'.
      eexists. split; [reflexivity|]. eapply render_suggestion; eauto.
    + eexists. split; [reflexivity|]. cbn [render_doc]. rewrite Ha. discriminate.
  - eexists. split; [reflexivity|]. discriminate.
Qed.

(* Message::render returns a document: for every message that records only positions of the line, in every
   state whose conflict marks do *)
Theorem render_message_returns msg s m :
  G s -> cw_ok s -> mok (length (items s)) msg ->
  match msg with MsgParseFailure _ => False | _ => True end ->
  render_message msg s m <> None.
Proof.
  intros Hg Hc Hm Hn. pose proof (G_len s Hg) as Hl. unfold render_message.
  destruct msg; try contradiction;
    try (cbn [pre_render]; apply render_plain_returns; exact Hm).
  - (* missing *) cbn [pre_render]. cbn in Hm. rewrite <- Hl in Hm.
    destruct (summarize_missing_renders xs m s Hm) as (r & -> & Hr). exact Hr.
  - (* unconsumed *) cbn [pre_render]. cbn in Hm.
    destruct (conflict s) as [[loser winner]|] eqn:C.
    + destruct (conflict_lt s loser winner Hl Hc C) as [A B].
      destruct (nth_some (items s) loser A) as [x Hx]. destruct (nth_some (items s) winner B) as [y Hy].
      cbn [render_doc]. rewrite Hx, Hy. discriminate.
    + destruct (only_once s ix) as [prev|].
      * destruct (nth_some (items s) ix Hm) as [x Hx]. cbn [render_doc]. rewrite Hx. discriminate.
      * destruct (suggest s m) as [[ix' sg]|] eqn:S.
        -- apply suggest_ix in S. destruct S as [a Ha]. eapply render_suggestion; eauto.
        -- apply render_plain_returns. exact Hm.
Qed.


Section WithEnv.
Variable env : bytes -> option bytes.

(* ------------------------------------------------------------------ leaves *)
Lemma convert_eok n ty w s : eok n (fst (convert_res ty w s)).
Proof. unfold convert_res. destruct (convert ty w); exact I. Qed.

Lemma flag_okmsg n p a : okmsg (eval_flag env n p a).
Proof.
  intros s [Hg _]. unfold eval_flag. destruct (take_flag n s); [exact I|].
  destruct (env_first env (n_env n)); [exact I|]. destruct a; [exact I|].
  destruct (flag_item n); [apply missing_mok; exact Hg|]. destruct (n_env n); exact I.
Qed.

Lemma arg_okmsg n mv ty adj : okmsg (eval_arg env n mv ty adj).
Proof.
  intros s [Hg _]. unfold eval_arg, take_arg.
  destruct (find_item s _) as [key|] eqn:F.
  - apply find_item_some in F. destruct F as (_ & a & st & Ha & _).
    assert (Hlt : key < length (items s)) by (apply nth_error_Some; congruence).
    destruct (get s (S key)) as [[c ad os|l ad os|w|w|w]|]; try exact Hlt; apply convert_eok.
  - destruct (env_first env (n_env n)); [apply convert_eok|].
    destruct (arg_item n mv); [apply missing_mok; exact Hg|]. destruct (n_env n); exact I.
Qed.

Lemma pos_okmsg mv ty pos help : okmsg (eval_pos mv ty pos help).
Proof.
  intros s [Hg _]. unfold eval_pos. destruct (take_positional_word s) as [[[[ix st] w] s']|]; [|apply missing_mok; exact Hg].
  destruct pos; destruct st; try exact I; apply convert_eok.
Qed.

Lemma any_okmsg mv help check anywhere : okmsg (eval_any mv help check anywhere).
Proof.
  intros s [Hg _]. unfold eval_any.
  match goal with |- context [match ?f with Some ix => _ | None => _ end] => destruct f as [ix|] end; [|apply missing_mok; exact Hg].
  destruct (nth_error (items s) ix) as [a|]; [|apply missing_mok; exact Hg].
  destruct (check (arg_os a)); [exact I|apply missing_mok; exact Hg].
Qed.

(* ------------------------------------------------------------------ repetition *)
Section Loops.
Variable ev : evaluator.
Variable its : list arg.
Hypothesis Hkeep : keepsGC ev.
Hypothesis Hok : okmsg ev.

Definition goodGC (s : state) : Prop := GC s /\ items s = its.
Definition oeok (o : opt_res) : Prop := match o with OErr m => mok (length its) m | _ => True end.

Lemma goodGC_next s : goodGC s -> goodGC (snd (ev s)).
Proof. intros [Hg Hi]. destruct (Hkeep s Hg) as [B E]. split; [exact B|congruence]. Qed.

Lemma parse_option_eok len s catch : goodGC s -> oeok (fst (fst (parse_option ev len s catch))).
Proof.
  intros [Hg Hi]. unfold parse_option. pose proof (Hok s Hg) as N. rewrite Hi in N. destruct (ev s) as [r s1]. cbn [fst] in N.
  destruct r; try exact I.
  - destruct (lt_len (remaining s1) len); exact I.
  - destruct (catch || (is_missing m && Nat.eqb (remaining s) (remaining s1)) || (negb (is_missing m) && can_catch m)); [exact I|exact N].
Qed.

Lemma parse_option_good len s catch v len' s' :
  goodGC s -> parse_option ev len s catch = (OSome v, len', s') -> goodGC s'.
Proof.
  intros Hg. unfold parse_option. pose proof (goodGC_next s Hg) as Hn.
  destruct (ev s) as [r s1]. cbn [snd] in Hn. destruct r; try discriminate.
  - destruct (lt_len (remaining s1) len); [|discriminate]. intros H; inversion H; subst. exact Hn.
  - destruct (catch || (is_missing m && Nat.eqb (remaining s) (remaining s1)) || (negb (is_missing m) && can_catch m)); discriminate.
Qed.

Lemma many_loop_eok catch fuel : forall len s acc,
  goodGC s -> eok (length its) (fst (fst (many_loop ev catch fuel len s acc))).
Proof.
  induction fuel as [|f IH]; intros len s acc Hg; [exact I|].
  cbn [many_loop]. pose proof (parse_option_eok len s catch Hg) as N.
  destruct (parse_option ev len s catch) as [[o len'] s'] eqn:E. cbn [fst] in N.
  destruct o; try exact I; [|exact N].
  apply IH. eapply parse_option_good; eauto.
Qed.

Lemma count_loop_eok fuel : forall len s cur n last,
  goodGC s -> eok (length its) (fst (fst (fst (count_loop ev fuel len s cur n last)))).
Proof.
  induction fuel as [|f IH]; intros len s cur n last Hg; [exact I|].
  cbn [count_loop]. pose proof (parse_option_eok len s false Hg) as N.
  destruct (parse_option ev len s false) as [[o len'] s'] eqn:E. cbn [fst] in N.
  destruct o; try exact I; [|exact N].
  destruct (Nat.eqb cur (remaining s')); [exact I|]. apply IH. eapply parse_option_good; eauto.
Qed.

Lemma count_loop_goodGC fuel : forall len s cur n last,
  goodGC s -> goodGC (snd (count_loop ev fuel len s cur n last)).
Proof.
  induction fuel as [|f IH]; intros len s cur n last Hg; cbn [count_loop]; [exact Hg|].
  unfold parse_option. pose proof (goodGC_next s Hg) as Hn. destruct (ev s) as [r s1]. cbn [snd] in Hn.
  destruct r; cbn [snd].
  - destruct (lt_len (remaining s1) len); cbn [snd]; [|exact Hn].
    destruct (Nat.eqb cur (remaining s1)); cbn [snd]; [exact Hn|apply IH; exact Hn].
  - destruct (false || (is_missing m && Nat.eqb (remaining s) (remaining s1)) || (negb (is_missing m) && can_catch m)); cbn [snd];
      [exact Hg|exact Hn].
  - exact Hn.
  - exact Hn.
Qed.
End Loops.

Lemma optional_okmsg ev c : keepsGC ev -> okmsg ev -> okmsg (optional_body ev c).
Proof.
  intros Hk Ht s Hg. unfold optional_body.
  pose proof (parse_option_eok ev (items s) Ht None s c (conj Hg eq_refl)) as N.
  destruct (parse_option ev None s c) as [[o l] s']. cbn [fst] in N. destruct o; try exact I; exact N.
Qed.
Lemma many_okmsg ev c : keepsGC ev -> okmsg ev -> okmsg (many_body ev c).
Proof.
  intros Hk Ht s Hg. unfold many_body.
  pose proof (many_loop_eok ev (items s) Hk Ht c (loop_fuel s) None s [] (conj Hg eq_refl)) as N.
  destruct (many_loop ev c (loop_fuel s) None s []) as [[r acc] s']. cbn [fst] in N. destruct r; try exact I; exact N.
Qed.
Lemma some_okmsg ev m c : keepsGC ev -> okmsg ev -> okmsg (some_body ev m c).
Proof.
  intros Hk Ht s Hg. unfold some_body.
  pose proof (many_loop_eok ev (items s) Hk Ht c (loop_fuel s) None s [] (conj Hg eq_refl)) as N.
  destruct (many_loop ev c (loop_fuel s) None s []) as [[r acc] s']. cbn [fst] in N. destruct r; try exact I; try exact N.
  destruct acc; exact I.
Qed.
Lemma count_okmsg ev : keepsGC ev -> okmsg ev -> okmsg (count_body ev).
Proof.
  intros Hk Ht s Hg. unfold count_body.
  pose proof (count_loop_eok ev (items s) Hk Ht (loop_fuel s) None s (remaining s) 0 None (conj Hg eq_refl)) as N.
  destruct (count_loop ev (loop_fuel s) None s (remaining s) 0 None) as [[[r k] l] s']. cbn [fst] in N.
  destruct r; try exact I; exact N.
Qed.
Lemma last_okmsg ev : keepsGC ev -> okmsg ev -> okmsg (last_body ev).
Proof.
  intros Hk Ht s Hg. unfold last_body.
  pose proof (count_loop_eok ev (items s) Hk Ht (loop_fuel s) None s (remaining s) 0 None (conj Hg eq_refl)) as N.
  pose proof (count_loop_goodGC ev (items s) Hk (loop_fuel s) None s (remaining s) 0 None (conj Hg eq_refl)) as Gn.
  destruct (count_loop ev (loop_fuel s) None s (remaining s) 0 None) as [[[r k] l] s']. cbn [fst snd] in N, Gn.
  destruct r; try exact I; try exact N. destruct l; [exact I|].
  destruct Gn as [Gn Hi]. rewrite <- Hi. apply Ht. exact Gn.
Qed.

(* ------------------------------------------------------------------ pass-through wrappers *)
Lemma fallback_with_okmsg ev fb : okmsg ev -> okmsg (fallback_with_body ev fb).
Proof.
  intros Ht s Hg. unfold fallback_with_body. pose proof (Ht s Hg) as N. destruct (ev s) as [r s']. cbn [fst] in N.
  destruct r; try exact I. destruct (can_catch m); [destruct fb; exact I|exact N].
Qed.
Lemma guard_okmsg ev c m : okmsg ev -> okmsg (guard_body ev c m).
Proof.
  intros Ht s Hg. unfold guard_body. pose proof (Ht s Hg) as N. destruct (ev s) as [r s']. cbn [fst] in N.
  destruct r; try exact I; try exact N. destruct (c v); exact I.
Qed.
Lemma parse_okmsg ev f : okmsg ev -> okmsg (parse_body ev f).
Proof.
  intros Ht s Hg. unfold parse_body. pose proof (Ht s Hg) as N. destruct (ev s) as [r s']. cbn [fst] in N.
  destruct r; try exact I; try exact N. destruct (f v); exact I.
Qed.
Lemma map_okmsg ev f : okmsg ev -> okmsg (map_body ev f).
Proof.
  intros Ht s Hg. unfold map_body. pose proof (Ht s Hg) as N. destruct (ev s) as [r s']. cbn [fst] in N.
  destruct r; try exact I; exact N.
Qed.
Lemma hide_okmsg ev : okmsg ev -> okmsg (hide_body ev).
Proof.
  intros Ht s Hg. unfold hide_body. pose proof (Ht s Hg) as N. destruct (ev s) as [r s']. cbn [fst] in N.
  destruct r; try exact I. destruct m; try exact N. cbn. constructor.
Qed.

Lemma or_okmsg eva evb : okmsg eva -> okmsg evb -> okmsg (or_body eva evb).
Proof.
  intros Ha Hb s Hg. unfold or_body. pose proof (Ha s Hg) as Na. pose proof (Hb s Hg) as Nb.
  destruct (eva s) as [ra sa]. destruct (evb s) as [rb sb]. cbn [fst] in Na, Nb.
  destruct ra; try exact I; destruct rb; try exact I; unfold this_or_that;
    destruct (Nat.compare (depth sa) (depth sb)); cbn; try exact I; try assumption;
    try (apply mok_combine; assumption).
  all: match goal with |- context [let '(_, _) := ?x in _] => destruct x as [[|] [w|]] end; cbn; exact I.
Qed.

Lemma con_go_okmsg ff evs : Forall keepsGC evs -> Forall okmsg evs -> forall s first acc err,
  GC s -> match err with Some e => mok (length (items s)) e | None => True end ->
  eok (length (items s)) (fst (con_go ff evs s first acc err)).
Proof.
  intros Hk Ht. induction evs as [|ev t IH]; intros s first acc err Hg He; cbn [con_go].
  - destruct err; [exact He|exact I].
  - inversion Hk as [|? ? Hk1 Hk2]; subst. inversion Ht as [|? ? Ht1 Ht2]; subst.
    pose proof (Ht1 s Hg) as N. destruct (Hk1 s Hg) as [Gn Hi]. destruct (ev s) as [r s']. cbn [fst snd] in N, Gn, Hi.
    rewrite <- Hi. destruct r; try exact I.
    + apply IH; try assumption. rewrite Hi. exact He.
    + destruct (ff && first); [rewrite Hi; exact N|]. apply IH; try assumption.
      rewrite Hi. destruct err; [exact He|exact N].
Qed.

Lemma con_okmsg ff evs : Forall keepsGC evs -> Forall okmsg evs -> okmsg (con_body ff evs).
Proof.
  intros Hk Ht s Hg. unfold con_body, con_reset. pose proof (con_go_okmsg ff evs Hk Ht s true [] None Hg I) as N.
  destruct (con_go ff evs s true [] None) as [r s']. exact N.
Qed.

(* ------------------------------------------------------------------ commands *)
Lemma GC_set_path s p : GC s -> GC (set_path s p).
Proof. intros H. exact H. Qed.

Lemma cmd_okmsg name aliases shorts help adjacent m_sub i_sub run :
  okrun run -> okmsg (cmd_body name aliases shorts help adjacent m_sub i_sub run).
Proof.
  intros Hr s Hg. unfold cmd_body.
  pose proof (take_cmd_any_reach (fun _ => True) ((name :: aliases) ++ map utf8_encode_char shorts) s (fun _ _ => I)) as R.
  destruct (take_cmd_any _ s) as [hit s1]. cbn [snd] in R.
  destruct (reach_GC _ s s1 R Hg) as [G1 Hi]. destruct hit.
  2:{ cbn [fst eok]. rewrite <- Hi. apply missing_mok. exact (proj1 G1). }
  destruct (current s1) as [cur|]; [|exact I].
  destruct (set_scope s1 cur (sc_end s1)) as [s2|] eqn:E2; [|exact I].
  destruct (set_scope_GC _ _ _ _ G1 E2) as [G2 _].
  pose proof (GC_set_path s2 (path s2 ++ [name]) G2) as G3.
  set (s3 := set_path s2 (path s2 ++ [name])) in *.
  destruct adjacent.
  - destruct (adjacently_available_from s3 (S (sc_start s3))) as [a b].
    destruct (set_scope s3 a b) as [s4|] eqn:E4; [|exact I].
    destruct (set_scope_GC _ _ _ _ G3 E4) as [G4 _].
    pose proof (Hr s4 G4) as N4. destruct (run s4) as [[v|f|w|] s5]; cbn [fst sok] in N4; try exact I.
    + destruct (set_scope s5 (sc_start s3) (sc_end s3)); exact I.
    + destruct (adjacent_scope s5 s3) as [| |na nb]; [exact I|exact N4|].
      destruct (set_scope s3 na nb) as [o1|] eqn:E5; [|exact I].
      destruct (run o1) as [[v|f'|w|] o2]; try exact I; [|exact N4].
      destruct (set_scope o2 (sc_start s3) (sc_end s3)); exact I.
  - pose proof (Hr s3 G3) as N3. destruct (run s3) as [[v|f|w|] s4]; cbn [fst sok] in N3; try exact I. exact N3.
Qed.

(* ------------------------------------------------------------------ adjacent groups *)
Section Adj.
Variable ev : evaluator.
Hypothesis Hok : okmsg ev.

Definition best_ok (n : nat) (b : adj_best) : Prop := mok n (b_err b).
Definition step_ok (n : nat) (st : adj_step) : Prop :=
  match st with ANext b => best_ok n b | AStop r _ => eok n r | AReturn _ _ => True end.

Lemma adj_inner_ok orig before : GC orig ->
  forall fuel ta best, GC ta -> items ta = items orig -> best_ok (length (items orig)) best ->
  step_ok (length (items orig)) (adj_inner ev orig before fuel ta best).
Proof.
  intros Go. induction fuel as [|f IH]; intros ta best Gt Hi Hb; [exact I|].
  unfold adj_inner; fold adj_inner. pose proof (Hok ta Gt) as N. rewrite Hi in N.
  destruct (ev ta) as [r ta1]. cbn [fst] in N. destruct r; try exact I.
  - destruct (adjacent_scope ta1 orig) as [| |a b]; try exact I.
    + destruct (set_scope ta1 _ _); exact I.
    + destruct (set_scope orig a b) as [ta'|] eqn:E; [|exact I].
      destruct (set_scope_GC _ _ _ _ Go E) as [G' I']. apply IH; [exact G'|exact I'|exact Hb].
  - destruct (Nat.ltb before (remaining ta1)); [exact I|].
    destruct (Nat.ltb (b_consumed best) (before - remaining ta1)); [exact N|exact Hb].
Qed.

Lemma adj_try_ok orig width start best : GC orig -> best_ok (length (items orig)) best ->
  step_ok (length (items orig)) (adj_try ev orig width start best).
Proof.
  intros Go Hb. unfold adj_try.
  destruct (set_scope orig start (length (items orig))) as [t0|] eqn:E0; [|exact I].
  destruct (set_scope_GC _ _ _ _ Go E0) as [G0 I0].
  destruct (set_scope t0 start (start + width)) as [sc|] eqn:E1; [|exact I].
  destruct (set_scope_GC _ _ _ _ G0 E1) as [G1 I1].
  destruct (Nat.eqb (remaining sc) 0); [exact Hb|].
  pose proof (Hok sc G1) as N. destruct (ev sc) as [r0 sc']. cbn [fst] in N.
  assert (Hgo : step_ok (length (items orig))
                  (if Nat.eqb (remaining sc) (remaining sc') then ANext best
                   else match set_scope t0 start (sc_end orig) with
                        | None => AStop (RPanic P_set_scope) orig
                        | Some this_arg1 =>
                          match (if Nat.ltb (remaining this_arg1) (sc_end orig - start)
                                 then let '(a, b) := adjacently_available_from this_arg1 start in set_scope this_arg1 a b
                                 else Some this_arg1) with
                          | None => AStop (RPanic P_set_scope) orig
                          | Some this_arg2 => adj_inner ev orig (remaining this_arg1) (loop_fuel orig) this_arg2 best
                          end
                        end)).
  { destruct (Nat.eqb (remaining sc) (remaining sc')); [exact Hb|].
    destruct (set_scope t0 start (sc_end orig)) as [t1|] eqn:E2; [|exact I].
    destruct (set_scope_GC _ _ _ _ G0 E2) as [G2 I2].
    destruct (Nat.ltb (remaining t1) (sc_end orig - start)).
    - destruct (adjacently_available_from t1 start) as [a b].
      destruct (set_scope t1 a b) as [t2|] eqn:E3; [|exact I].
      destruct (set_scope_GC _ _ _ _ G2 E3) as [G3 I3].
      apply adj_inner_ok; [exact Go|exact G3|congruence|exact Hb].
    - apply adj_inner_ok; [exact Go|exact G2|congruence|exact Hb]. }
  destruct r0; try exact I; exact Hgo.
Qed.

Lemma adj_outer_ok orig width : GC orig -> forall starts best, best_ok (length (items orig)) best ->
  eok (length (items orig)) (fst (adj_outer ev orig width starts best)).
Proof.
  intros Go. induction starts as [|st more IH]; intros best Hb; cbn [adj_outer];
    [destruct (set_scope (b_args best) (sc_start orig) (sc_end orig)); [exact Hb|exact I]|].
  pose proof (adj_try_ok orig width st best Go Hb) as N.
  destruct (adj_try ev orig width st best) as [v s|b|r s]; cbn [fst step_ok] in *; [exact I|apply IH; exact N|exact N].
Qed.

Lemma adjacent_okmsg fi : okmsg (eval_adjacent ev fi).
Proof.
  intros s Hg. unfold eval_adjacent. destruct fi as [it|]; [|exact I].
  apply adj_outer_ok; [exact Hg|]. unfold best_ok. cbn [b_err]. apply missing_mok. exact (proj1 Hg).
Qed.
End Adj.

(* ------------------------------------------------------------------ run_subparser *)
Lemma run_sub_body_sok inf m s r s1 :
  GC s1 -> eok (length (items s1)) r -> sok (fst (run_sub_body env inf m s (r, s1))).
Proof.
  intros G1 N. pose proof (info_eval_reach (fun _ => True) env inf s1 I I) as R2.
  assert (Fin : forall err, mok (length (items s1)) err ->
                 match err with MsgParseFailure _ => False | _ => True end ->
                 sok (fst (match info_eval env inf s1 with
                           | (Some (ExHelp detailed), s2) =>
                             if invariant_ok m then (SFail (FStdout (HHelp (path s2) inf m detailed)), s2)
                             else (SPanic P_invariant, s2)
                           | (Some (ExVersion v), s2) => (SFail (FStdout (HVersion v)), s2)
                           | (None, s2) => (SFail (FStderr err (render_message err s2 m)), s2)
                           end))).
  { intros err He Hn. destruct (info_eval env inf s1) as [[[d|ver]|] s3]; cbn [snd] in R2.
    - destruct (invariant_ok m); exact I.
    - exact I.
    - destruct (reach_GC _ s1 s3 R2 G1) as [[G2 C2] I2]. cbn [fst sok fdoc_ok].
      pose proof (render_message_returns err s3 m G2 C2) as Hr. rewrite I2 in Hr. specialize (Hr He Hn).
      destruct (render_message err s3 m); [exact I|congruence]. }
  unfold run_sub_body. destruct r as [v|e|w|]; try exact I.
  - cbn [andb]. destruct (first_item_ix s1) as [ix|] eqn:F; [|exact I].
    apply (Fin (MsgUnconsumed ix)); [|exact I].
    apply first_item_lt in F. destruct F as [a Ha]. cbn. apply nth_error_Some. congruence.
  - destruct (_ && i_help_if_no_args inf && Nat.eqb (remaining s) 0).
    { destruct (invariant_ok m); exact I. }
    cbn [eok] in N. destruct e; try (apply (Fin _ N I)). exact N.
Qed.

(* ------------------------------------------------------------------ every parser *)
Lemma kinds_all' : (forall p, kinds_ok (fun _ => True) p) /\ (forall ps, lkinds_ok (fun _ => True) ps) /\
                   (forall o, okinds_ok (fun _ => True) o).
Proof. exact kinds_ok_true. Qed.

Lemma eval_keepsGC p : keepsGC (eval env p).
Proof. apply (ev_reach_keepsGC (fun _ => True)). apply eval_reach. apply (proj1 kinds_all'). Qed.
Lemma evals_keepsGC ps : Forall keepsGC (evals env ps).
Proof.
  pose proof (proj1 (proj2 (eval_reach_all (fun _ => True) env)) ps (proj1 (proj2 kinds_all') ps)) as H.
  induction H; constructor; [eapply ev_reach_keepsGC; eauto|assumption].
Qed.

Theorem eval_okmsg_all :
  (forall p, okmsg (eval env p)) /\
  (forall ps, Forall okmsg (evals env ps)) /\
  (forall o, okrun (run_sub env o)).
Proof.
  apply parser_plist_oparser_ind; intros; try (intros s; autorewrite with evaleq).
  - apply flag_okmsg.
  - apply arg_okmsg.
  - apply pos_okmsg.
  - apply any_okmsg.
  - apply cmd_okmsg. exact H.
  - (* PCon *) destruct fields as [|q1 [|q2 t]].
    + rewrite eval_PCon_nil. intros _. exact I.
    + rewrite eval_PCon_one. rewrite evals_cons in H. inversion H; subst. auto.
    + rewrite eval_PCon_many. apply con_okmsg; [apply evals_keepsGC|exact H].
  - apply adjacent_okmsg. apply con_okmsg; [apply evals_keepsGC|exact H].
  - apply or_okmsg; auto.
  - apply optional_okmsg; [apply eval_keepsGC|auto].
  - apply many_okmsg; [apply eval_keepsGC|auto].
  - apply some_okmsg; [apply eval_keepsGC|auto].
  - apply many_okmsg; [apply eval_keepsGC|auto].
  - apply count_okmsg; [apply eval_keepsGC|auto].
  - apply last_okmsg; [apply eval_keepsGC|auto].
  - apply fallback_with_okmsg; auto.
  - apply fallback_with_okmsg; auto.
  - apply guard_okmsg; auto.
  - apply parse_okmsg; auto.
  - apply map_okmsg; auto.
  - apply hide_okmsg; auto.
  - apply H; auto.
  - apply H; auto.
  - intros _. exact I.
  - intros _. destruct r; exact I.
  - intros _. exact I.
  - apply H; auto.
  - rewrite evals_nil. constructor.
  - rewrite evals_cons. constructor; auto.
  - intros Hg. rewrite run_sub_eq. pose proof (H s Hg) as N. destruct (eval_keepsGC p s Hg) as [G1 I1].
    destruct (eval env p s) as [r s1]. cbn [fst snd] in *. apply run_sub_body_sok; [exact G1|rewrite I1; exact N].
Qed.
End WithEnv.

(* ------------------------------------------------------------------ a whole run *)
Section Levels.
Variable env : bytes -> option bytes.

(* ---- the tokenizer's own message *)
Lemma dis_go_ambig sf sa os : forall cs first ff acc p,
  dis_go sf sa os cs first ff acc = DisAmbig p -> p <> [] /\ (first = true -> exists f sc r, cs = f :: sc :: r).
Proof.
  induction cs as [|c rest IH]; intros first ff acc p H; cbn [dis_go] in H; [discriminate|].
  destruct (first && is_nil rest) eqn:Fn; [discriminate|].
  assert (Hshape : first = true -> exists f sc r, c :: rest = f :: sc :: r).
  { intros ->. destruct rest as [|sc r]; [discriminate Fn|eauto]. }
  destruct (mem_N c sf), (mem_N c sa).
  - inversion H; subst. split; [|exact Hshape]. intros E. cbn [rev] in E. apply app_eq_nil in E. destruct E; discriminate.
  - apply IH in H. split; [tauto|exact Hshape].
  - destruct (negb (is_nil rest)); discriminate.
  - discriminate.
Qed.

Lemma tok_go_ambig sf sa : forall argv pos_only acc marker ix short,
  t_ambiguity (tok_go sf sa argv pos_only acc marker) = Some (ix, short) ->
  ix < length (t_items (tok_go sf sa argv pos_only acc marker)) /\
  exists f sc r, utf8_decode short = Some (f :: sc :: r).
Proof.
  induction argv as [|os more IH]; intros pos_only acc marker ix short; cbn [tok_go]; [discriminate|].
  destruct pos_only; [apply IH|].
  destruct (split_os_argument os) as [[[[] nm] [body|]]|].
  - destruct (utf8_decode nm) as [[|c ?]|]; try discriminate. apply IH.
  - destruct (utf8_decode nm) as [cs|] eqn:U; [|discriminate].
    destruct (disambiguate_short sf sa os cs) as [pushed|pushed] eqn:D; [apply IH|].
    cbn [t_ambiguity t_items]. intros H; inversion H; subst.
    unfold disambiguate_short in D. apply dis_go_ambig in D. destruct D as [Hp Hs].
    split.
    + rewrite rev_length, app_length, rev_length. destruct pushed; [congruence|cbn; lia].
    + destruct (Hs eq_refl) as (f & sc & r & ->). eauto.
  - apply IH.
  - apply IH.
  - destruct (beqb os dashdash); apply IH.
Qed.

Lemma construct_cw sf sa name argv : cw_ok (fst (construct sf sa name argv)).
Proof.
  unfold construct. destruct (t_marker (tokenize sf sa argv)) as [ix|]; cbn [fst]; intros i w H; cbn [ist] in H.
  - apply nth_update_nth in H. destruct H as [H|H]; [discriminate|].
    apply nth_error_In in H. apply repeat_spec in H. discriminate.
  - apply nth_error_In in H. apply repeat_spec in H. discriminate.
Qed.

(* every failure of a whole run -- whichever command level reports it, the tokenizer's ambiguity message included --
   carries the document Message::render built for it *)
Theorem run_inner_renders feat o name argv : sok (fst (run_inner_state feat env o name argv)).
Proof.
  unfold run_inner_state, initial_state. destruct (short_tables o) as [sf sa].
  pose proof (construct_G sf sa name argv) as Hg. pose proof (construct_cw sf sa name argv) as Hc.
  destruct (construct sf sa name argv) as [st amb] eqn:C. cbn [fst] in *.
  destruct amb as [[ix short]|].
  - cbn [fst sok fdoc_ok].
    assert (Hm : mok (length (items st)) (MsgAmbiguity ix short)).
    { unfold construct in C. destruct (t_marker (tokenize sf sa argv)); injection C as Hs Ha.
      all: rewrite <- Hs; cbn [items]; unfold tokenize in *; apply tok_go_ambig in Ha; exact Ha. }
    pose proof (render_message_returns (MsgAmbiguity ix short) st (ometa_of o) Hg Hc Hm I) as Hr.
    destruct (render_message (MsgAmbiguity ix short) st (ometa_of o)); [exact I|congruence].
  - apply (proj2 (proj2 (eval_okmsg_all env)) o st). split; assumption.
Qed.

(* C06: when the parser of a level fails with a conversion / `parse` / guard failure, a run of that level that ends on
   stderr reports exactly that message (help / version requests and `fallback_to_usage` end on stdout), and the
   document it carries ends with the conversion error text / the guard's message *)
Theorem level_reports_failed_value q inf s s1 e m dd s2 :
  eval env q s = (RErr e, s1) ->
  match e with MsgParseFailed _ _ | MsgGuardFailed _ _ => True | _ => False end ->
  run_sub env (Options q inf) s = (SFail (FStderr m dd), s2) ->
  m = e /\
  exists d, dd = Some d /\
            match e with
            | MsgParseFailed _ t => exists pre, doc_text d = pre ++ m_colon_sp ++ t
            | MsgGuardFailed _ t => exists pre, doc_text d = pre ++ t
            | _ => True
            end.
Proof.
  intros E Hk H. rewrite run_sub_eq, E in H. unfold run_sub_body in H.
  assert (Hm : m = e /\ dd = render_message e s2 (meta_of q)).
  { destruct e; try contradiction;
      (destruct (_ && i_help_if_no_args inf && Nat.eqb (remaining s) 0);
       [destruct (invariant_ok (meta_of q)); discriminate|]);
      (destruct (info_eval env inf s1) as [[[d0|ver]|] s3];
       [destruct (invariant_ok (meta_of q)); discriminate|discriminate|inversion H; subst; split; reflexivity]). }
  destruct Hm as [-> ->]. split; [reflexivity|]. unfold render_message.
  destruct e; try contradiction; cbn [pre_render].
  - destruct (render_doc (RPlain (MsgParseFailed ix m)) s2) as [d|] eqn:R; [|discriminate R].
    exists d. split; [reflexivity|]. eapply parse_failed_text; eauto.
  - destruct (render_doc (RPlain (MsgGuardFailed ix m)) s2) as [d|] eqn:R; [|discriminate R].
    exists d. split; [reflexivity|]. eapply guard_failed_text; eauto.
Qed.
End Levels.

(* the same, spelled out *)
Corollary run_inner_has_document env feat o name argv m :
  fst (run_inner_state feat env o name argv) <> SFail (FStderr m None).
Proof. intros H. pose proof (run_inner_renders env feat o name argv) as N. rewrite H in N. exact N. Qed.

Corollary run_sub_has_document env o s m : GC s -> fst (run_sub env o s) <> SFail (FStderr m None).
Proof. intros Hg H. pose proof (proj2 (proj2 (eval_okmsg_all env)) o s Hg) as N. rewrite H in N. exact N. Qed.
