(* NoLoss.v -- a successful evaluation never hides a live item.
   NL s s': every item that was inside the scope of s and is still live in s' is inside the scope
   of s'.  Scopes are narrowed by commands and adjacent groups; this lemma is what makes the
   `Unconsumed` test of run_subparser (which only looks inside the final scope) a test about the
   whole window the parser was started on. *)
From BpafLemmas Require Import Tac EvalEq Find Reach Ledger.

Definition lenwf (s : state) : Prop := length (ist s) = length (items s).

Definition NL (s s' : state) : Prop :=
  forall i, in_scope s i = true -> live s' i -> in_scope s' i = true.

Definition same_scope (s s' : state) : Prop :=
  sc_start s' = sc_start s /\ sc_end s' = sc_end s.

Lemma same_scope_refl s : same_scope s s.
Proof. split; reflexivity. Qed.

Lemma same_scope_trans s1 s2 s3 : same_scope s1 s2 -> same_scope s2 s3 -> same_scope s1 s3.
Proof. unfold same_scope. intros [? ?] [? ?]. split; congruence. Qed.

Lemma same_scope_NL s s' : same_scope s s' -> NL s s'.
Proof. intros [H1 H2] i Hin _. unfold in_scope in *. rewrite H1, H2. exact Hin. Qed.

Lemma NL_refl s : NL s s.
Proof. intros i H _. exact H. Qed.

Section WithK.
Variable K : ckind -> Prop.

Lemma reach_mono s s' i : reach K s s' -> live s' i -> live s i.
Proof. intros H. apply reach_ext in H. destruct H as [l E]. apply (ext_mono _ _ _ _ E). Qed.

Lemma reach_lenwf s s' : reach K s s' -> lenwf s -> lenwf s'.
Proof.
  intros H. apply reach_ext in H. destruct H as [l E]. unfold lenwf.
  rewrite (ext_items _ _ _ _ E), (ext_len _ _ _ _ E). auto.
Qed.

Lemma NL_trans s1 s2 s3 : NL s1 s2 -> NL s2 s3 -> reach K s2 s3 -> NL s1 s3.
Proof.
  intros H12 H23 R i Hin Hl. apply H23; [|exact Hl]. apply H12; [exact Hin|].
  eapply reach_mono; eauto.
Qed.

(* ------------------------------------------------------------------ scope-preserving operations *)
Lemma sremove_same_scope k ix s : same_scope s (sremove k ix s).
Proof. unfold sremove. destruct (_ && _); split; reflexivity. Qed.

Lemma take_flag_scope n s s' : take_flag n s = Some s' -> same_scope s s'.
Proof.
  unfold take_flag. destruct (find_item s _); [|discriminate]. intros H; inv H.
  apply sremove_same_scope.
Qed.

Lemma take_arg_scope n adj s w s' : take_arg n adj s = TASome w s' -> same_scope s s'.
Proof.
  unfold take_arg. destruct (find_item s _); [|discriminate].
  destruct (get s _) as [[]|]; try discriminate; intros H; inv H;
    (eapply same_scope_trans; apply sremove_same_scope).
Qed.

Lemma take_positional_scope s ix st w s' :
  take_positional_word s = Some (ix, st, w, s') -> same_scope s s'.
Proof.
  unfold take_positional_word. destruct (find_item s _); [|discriminate].
  destruct (nth_error _ _) as [[]|]; try discriminate; intros H; inv H; apply sremove_same_scope.
Qed.

Section WithEnv.
Variable env : bytes -> option bytes.

Definition ev_scope (ev : evaluator) : Prop := forall s, same_scope s (snd (ev s)).

Lemma eval_flag_scope n p a : ev_scope (eval_flag env n p a).
Proof.
  intros s. unfold eval_flag. destruct (take_flag n s) eqn:Ht; cbn.
  - eapply take_flag_scope; eauto.
  - repeat (case_goal; cbn; try apply same_scope_refl).
Qed.

Lemma eval_arg_scope n mv ty adj : ev_scope (eval_arg env n mv ty adj).
Proof.
  intros s. unfold eval_arg. destruct (take_arg n adj s) eqn:Ht.
  - repeat (case_goal; cbn; try rewrite convert_res_snd; try apply same_scope_refl);
      split; reflexivity.
  - cbn. apply same_scope_refl.
  - rewrite convert_res_snd. eapply take_arg_scope; eauto.
Qed.

Lemma eval_pos_scope mv ty pos help : ev_scope (eval_pos mv ty pos help).
Proof.
  intros s. unfold eval_pos.
  destruct (take_positional_word s) as [[[[ix st] w] s']|] eqn:Ht; [|cbn; apply same_scope_refl].
  apply take_positional_scope in Ht.
  destruct pos, st; cbn; try rewrite convert_res_snd; exact Ht.
Qed.

Lemma eval_any_scope mv help check anywhere : ev_scope (eval_any mv help check anywhere).
Proof.
  intros s. unfold eval_any.
  match goal with |- context [match ?f with Some _ => _ | None => _ end] =>
                  destruct f as [ix|] end; [|cbn; apply same_scope_refl].
  destruct (nth_error (items s) ix) as [a|]; [|cbn; apply same_scope_refl].
  destruct (check (arg_os a)) as [v|]; [|cbn; apply same_scope_refl].
  cbn [snd]. match goal with |- context [if ?b then _ else _] => destruct b end.
  - eapply same_scope_trans; apply sremove_same_scope.
  - apply sremove_same_scope.
Qed.

(* ------------------------------------------------------------------ evaluators *)
(* a good evaluator: its final state is reachable, and on success no live item is hidden *)
Definition ev_nl (ev : evaluator) : Prop :=
  forall s v s', lenwf s -> ev s = (ROk v, s') -> NL s s'.
Definition ev_good (ev : evaluator) : Prop := ev_reach K ev /\ ev_nl ev.
Definition run_nl (run : state -> sres * state) : Prop :=
  forall s v s', lenwf s -> run s = (SOk v, s') -> NL s s' /\ first_item_ix s' = None.
Definition run_good (run : state -> sres * state) : Prop := run_reach K run /\ run_nl run.

Lemma ev_scope_nl ev : ev_scope ev -> ev_nl ev.
Proof.
  intros H s v s' _ He. apply same_scope_NL. specialize (H s). rewrite He in H. exact H.
Qed.

Lemma ev_reach_at ev s r s' : ev_reach K ev -> ev s = (r, s') -> reach K s s'.
Proof. intros H He. specialize (H s). rewrite He in H. exact H. Qed.

(* ---- parse_option and the loops *)
Lemma parse_option_nl ev len s catch o len' s1 :
  ev_good ev -> lenwf s -> parse_option ev len s catch = (o, len', s1) ->
  reach K s s1 /\ match o with OSome _ | ONone => NL s s1 | _ => True end.
Proof.
  intros [Hr Hn] Hw H.
  split.
  { pose proof (parse_option_reach K ev len s catch Hr) as R. rewrite H in R. exact R. }
  unfold parse_option in H. destruct (ev s) as [r s'] eqn:He.
  destruct r.
  - assert (NL s s') by (eapply Hn; eauto).
    destruct (lt_len (remaining s') len); inv H; auto.
  - destruct (catch || _ || _); inv H; auto using NL_refl.
  - inv H. exact I.
  - inv H. exact I.
Qed.

Lemma many_loop_nl ev catch fuel len s acc u acc' s' :
  ev_good ev -> lenwf s ->
  many_loop ev catch fuel len s acc = (ROk u, acc', s') -> NL s s'.
Proof.
  intros Hg. revert len s acc. induction fuel as [|f IH]; intros len s acc Hw H; cbn in H;
    [discriminate|].
  destruct (parse_option ev len s catch) as [[o len'] s1] eqn:Hp.
  destruct (parse_option_nl _ _ _ _ _ _ _ Hg Hw Hp) as [R Hn].
  destruct o; try discriminate.
  - inv H. exact Hn.
  - assert (Hw1 : lenwf s1) by (eapply reach_lenwf; eauto).
    specialize (IH _ _ _ Hw1 H).
    eapply NL_trans; [exact Hn|exact IH|].
    pose proof (many_loop_reach K ev catch f len' s1 (v :: acc) (proj1 Hg)) as R2.
    rewrite H in R2. exact R2.
Qed.

Lemma count_loop_nl ev fuel len s cur n last u n' last' s' :
  ev_good ev -> lenwf s ->
  count_loop ev fuel len s cur n last = (ROk u, n', last', s') -> NL s s'.
Proof.
  intros Hg. revert len s cur n last.
  induction fuel as [|f IH]; intros len s cur n last Hw H; cbn in H; [discriminate|].
  destruct (parse_option ev len s false) as [[o len'] s1] eqn:Hp.
  destruct (parse_option_nl _ _ _ _ _ _ _ Hg Hw Hp) as [R Hn].
  destruct o; try discriminate.
  - inv H. exact Hn.
  - destruct (Nat.eqb cur (remaining s1)).
    + inv H. exact Hn.
    + assert (Hw1 : lenwf s1) by (eapply reach_lenwf; eauto).
      specialize (IH _ _ _ _ _ Hw1 H).
      eapply NL_trans; [exact Hn|exact IH|].
      pose proof (count_loop_reach K ev f len' s1 (remaining s1) (S n) (Some v) (proj1 Hg)) as R2.
      rewrite H in R2. exact R2.
Qed.

Lemma optional_nl ev c : ev_good ev -> ev_nl (optional_body ev c).
Proof.
  intros Hg s v s' Hw H. unfold optional_body in H.
  destruct (parse_option ev None s c) as [[o len'] s1] eqn:Hp.
  destruct (parse_option_nl _ _ _ _ _ _ _ Hg Hw Hp) as [R Hn].
  destruct o; inv H; exact Hn.
Qed.

Lemma many_nl ev c : ev_good ev -> ev_nl (many_body ev c).
Proof.
  intros Hg s v s' Hw H. unfold many_body in H.
  destruct (many_loop ev c (loop_fuel s) None s []) as [[r acc] s1] eqn:Hm.
  destruct r; inv H. eapply many_loop_nl; eauto.
Qed.

Lemma some_nl ev m c : ev_good ev -> ev_nl (some_body ev m c).
Proof.
  intros Hg s v s' Hw H. unfold some_body in H.
  destruct (many_loop ev c (loop_fuel s) None s []) as [[r acc] s1] eqn:Hm.
  destruct r; try (inv H; fail). destruct acc; inv H. eapply many_loop_nl; eauto.
Qed.

Lemma count_nl ev : ev_good ev -> ev_nl (count_body ev).
Proof.
  intros Hg s v s' Hw H. unfold count_body in H.
  destruct (count_loop ev (loop_fuel s) None s (remaining s) O None) as [[[r n] l] s1] eqn:Hm.
  destruct r; inv H. eapply count_loop_nl; eauto.
Qed.

Lemma last_nl ev : ev_good ev -> ev_nl (last_body ev).
Proof.
  intros Hg s v s' Hw H. unfold last_body in H.
  destruct (count_loop ev (loop_fuel s) None s (remaining s) O None) as [[[r n] l] s1] eqn:Hm.
  destruct r; try (inv H; fail).
  assert (N1 : NL s s1) by (eapply count_loop_nl; eauto).
  destruct l; [inv H; exact N1|].
  pose proof (count_loop_reach K ev (loop_fuel s) None s (remaining s) O None (proj1 Hg)) as R1.
  rewrite Hm in R1. cbn in R1.
  assert (Hw1 : lenwf s1) by (eapply reach_lenwf; eauto).
  eapply NL_trans; [exact N1|eapply (proj2 Hg); eauto|eapply ev_reach_at; [apply Hg|eauto]].
Qed.

Lemma fallback_with_nl ev fb : ev_good ev -> ev_nl (fallback_with_body ev fb).
Proof.
  intros Hg s v s' Hw H. unfold fallback_with_body in H.
  destruct (ev s) as [r s1] eqn:He. destruct r; try (inv H; fail).
  - inv H. eapply (proj2 Hg); eauto.
  - destruct (can_catch m); [destruct fb|]; inv H. apply NL_refl.
Qed.

Lemma guard_nl ev c m : ev_good ev -> ev_nl (guard_body ev c m).
Proof.
  intros Hg s v s' Hw H. unfold guard_body in H.
  destruct (ev s) as [r s1] eqn:He. destruct r; try (inv H; fail).
  destruct (c v0); inv H. eapply (proj2 Hg); eauto.
Qed.

Lemma parse_nl ev f : ev_good ev -> ev_nl (parse_body ev f).
Proof.
  intros Hg s v s' Hw H. unfold parse_body in H.
  destruct (ev s) as [r s1] eqn:He. destruct r; try (inv H; fail).
  destruct (f v0); inv H. eapply (proj2 Hg); eauto.
Qed.

Lemma map_nl ev f : ev_good ev -> ev_nl (map_body ev f).
Proof.
  intros Hg s v s' Hw H. unfold map_body in H.
  destruct (ev s) as [r s1] eqn:He. destruct r; inv H. eapply (proj2 Hg); eauto.
Qed.

Lemma hide_nl ev : ev_good ev -> ev_nl (hide_body ev).
Proof.
  intros Hg s v s' Hw H. unfold hide_body in H.
  destruct (ev s) as [r s1] eqn:He. destruct r; try (inv H; fail).
  - inv H. eapply (proj2 Hg); eauto.
  - destruct m; inv H.
Qed.

(* ---- alternatives *)
Lemma save_conflicts_NL s0 s loser win : NL s0 s -> NL s0 (save_conflicts s loser win).
Proof.
  intros H i Hin Hl. unfold save_conflicts in *.
  change (in_scope (set_ist s _) i) with (in_scope s i). apply H; [exact Hin|].
  unfold live, present_at, ist_at in *. cbn in Hl.
  rewrite save_conflicts_go_present in Hl. exact Hl.
Qed.

Lemma this_or_that_state ra rb s sa sb r s' :
  this_or_that ra rb s sa sb = (r, s') ->
  match r with
  | inl true => s' = sa \/ exists w, w < length (ist sa) /\ s' = save_conflicts sa sb w
  | inl false => s' = sb \/ exists w, w < length (ist sb) /\ s' = save_conflicts sb sa w
  | inr _ => True
  end.
Proof.
  unfold this_or_that. intros H.
  destruct (Nat.compare (depth sa) (depth sb)).
  - destruct ra, rb; cbn in H;
      try (inv H; auto; fail);
      (destruct (Nat.eqb (remaining s) (remaining sa) && Nat.eqb (remaining s) (remaining sb));
       [inv H; auto|]);
      destruct (pick_winner sa sb) as [[|] [w|]] eqn:Epw; inv H; auto; apply pick_winner_lt in Epw; right; exists w; tauto.
  - destruct rb; inv H; auto.
  - destruct ra; inv H; auto.
Qed.

Lemma or_nl eva evb : ev_good eva -> ev_good evb -> ev_nl (or_body eva evb).
Proof.
  intros Ha Hb s v s' Hw H. unfold or_body in H.
  destruct (eva s) as [ra sa] eqn:Ea. destruct (evb s) as [rb sb] eqn:Eb.
  assert (Na : forall va, ra = ROk va -> NL s sa) by (intros va ->; eapply (proj2 Ha); eauto).
  assert (Nb : forall vb, rb = ROk vb -> NL s sb) by (intros vb ->; eapply (proj2 Hb); eauto).
  assert (Hcase : forall r0 s0, this_or_that ra rb s sa sb = (r0, s0) ->
            (match r0 with
             | inl true => (ra, s0) | inl false => (rb, s0) | inr e => (RErr e, s0) end)
            = (ROk v, s') -> NL s s').
  { intros r0 s0 Ht E. apply this_or_that_state in Ht.
    destruct r0 as [[|]|e]; inv E.
    - destruct Ht as [->|[w [_ ->]]]; eauto using save_conflicts_NL.
    - destruct Ht as [->|[w [_ ->]]]; eauto using save_conflicts_NL. }
  destruct ra; try (inv H; fail); destruct rb; try (inv H; fail);
    destruct (this_or_that _ _ s sa sb) as [r0 s0] eqn:Ht; eapply Hcase; eauto.
Qed.

(* ---- sequential composition *)
Lemma con_go_nl ff evs s first acc err v s' :
  Forall ev_good evs -> lenwf s ->
  con_go ff evs s first acc err = (ROk v, s') -> err = None /\ NL s s'.
Proof.
  intros Hall. revert s first acc err.
  induction Hall as [|ev evs Hev Hall IH]; intros s first acc err Hw H; cbn in H.
  - destruct err; inv H. split; [reflexivity|]. apply same_scope_NL. split; reflexivity.
  - destruct (ev s) as [r s1] eqn:He.
    assert (R : reach K s s1) by (eapply ev_reach_at; [apply Hev|eauto]).
    assert (Hw1 : lenwf s1) by (eapply reach_lenwf; eauto).
    destruct r; try (inv H; fail).
    + destruct (IH _ _ _ _ Hw1 H) as [He0 N2]. split; [exact He0|].
      eapply NL_trans; [eapply (proj2 Hev); eauto|exact N2|].
      pose proof (con_go_reach K ff evs s1 false (v0 :: acc) err
                               (Forall_impl _ (fun e (h : ev_good e) => proj1 h) Hall)) as R2.
      rewrite H in R2. exact R2.
    + destruct (ff && first); [inv H|].
      destruct (IH _ _ _ _ Hw1 H) as [He0 _]. destruct err; discriminate.
Qed.

Lemma con_nl ff evs : Forall ev_good evs -> ev_nl (con_body ff evs).
Proof.
  intros Hall s v s' Hw H. unfold con_body, con_reset in H.
  destruct (con_go ff evs s true [] None) as [r s1] eqn:Hc. inv H.
  destruct (con_go_nl _ _ _ _ _ _ _ _ Hall Hw Hc) as [_ N].
  intros i Hin Hl. change (in_scope (set_current s1 None) i) with (in_scope s1 i).
  apply N; auto.
Qed.

(* ---- adjacent groups restore the scope they were given *)
Definition adj_step_scope (orig : state) (st : adj_step) : Prop :=
  match st with
  | AReturn _ fin => same_scope orig fin
  | AStop r _ => forall v, r <> ROk v
  | ANext _ => True
  end.

Lemma adj_inner_scope ev orig before fuel this_arg best :
  adj_step_scope orig (adj_inner ev orig before fuel this_arg best).
Proof.
  revert this_arg best. induction fuel as [|f IH]; intros this_arg best.
  - rewrite adj_inner_O. cbn. discriminate.
  - rewrite adj_inner_S. destruct (ev this_arg) as [r ta].
    destruct r; cbn; try discriminate.
    + destruct (adjacent_scope ta orig) as [| |a b]; cbn; try discriminate.
      * destruct (set_scope ta (sc_start orig) (sc_end orig)) as [fin|] eqn:Hs; cbn;
          [|discriminate].
        apply set_scope_fields in Hs. destruct Hs as (_ & _ & _ & _ & _ & H1 & H2 & _).
        split; assumption.
      * destruct (set_scope orig a b); cbn; [apply IH|discriminate].
    + destruct (Nat.ltb before (remaining ta)); cbn; [discriminate|].
      destruct (Nat.ltb _ _); exact I.
Qed.

Lemma adj_try_scope ev orig width start best :
  adj_step_scope orig (adj_try ev orig width start best).
Proof.
  unfold adj_try.
  destruct (set_scope orig start (length (items orig))) as [ta0|]; cbn; [|discriminate].
  destruct (set_scope ta0 start (start + width)) as [scratch|]; cbn; [|discriminate].
  destruct (Nat.eqb (remaining scratch) 0); cbn; [exact I|].
  destruct (ev scratch) as [r0 scratch'].
  assert (Hmain :
    adj_step_scope orig
      (if Nat.eqb (remaining scratch) (remaining scratch') then ANext best
       else match set_scope ta0 start (sc_end orig) with
            | None => AStop (RPanic P_set_scope) orig
            | Some this_arg1 =>
              match (if Nat.ltb (remaining this_arg1) (sc_end orig - start)
                     then let '(a, b) := adjacently_available_from this_arg1 start in
                          set_scope this_arg1 a b
                     else Some this_arg1) with
              | None => AStop (RPanic P_set_scope) orig
              | Some this_arg2 =>
                adj_inner ev orig (remaining this_arg1) (loop_fuel orig) this_arg2 best
              end
            end)).
  { destruct (Nat.eqb (remaining scratch) (remaining scratch')); cbn; [exact I|].
    destruct (set_scope ta0 start (sc_end orig)) as [ta1|]; cbn; [|discriminate].
    destruct (Nat.ltb (remaining ta1) (sc_end orig - start)).
    - destruct (adjacently_available_from ta1 start) as [a b].
      destruct (set_scope ta1 a b); cbn; [apply adj_inner_scope|discriminate].
    - apply adj_inner_scope. }
  destruct r0; cbn; try discriminate; exact Hmain.
Qed.

Lemma adj_outer_scope ev orig width starts best v s' :
  adj_outer ev orig width starts best = (ROk v, s') -> same_scope orig s'.
Proof.
  revert best. induction starts as [|st more IH]; intros best H; cbn [adj_outer] in H;
    [destruct (set_scope (b_args best) (sc_start orig) (sc_end orig)); discriminate|].
  pose proof (adj_try_scope ev orig width st best) as Ht.
  destruct (adj_try ev orig width st best); cbn in Ht.
  - inv H. exact Ht.
  - eapply IH; eauto.
  - inv H. exfalso. eapply Ht; eauto.
Qed.

Lemma adjacent_nl ev fi : ev_nl (eval_adjacent ev fi).
Proof.
  intros s v s' _ H. unfold eval_adjacent in H. destruct fi; [|discriminate].
  apply same_scope_NL. eapply adj_outer_scope; eauto.
Qed.

(* ---- commands *)
Lemma first_item_first s ix :
  lenwf s -> first_item_ix s = Some ix ->
  in_scope s ix = true /\ forall i, in_scope s i = true -> live s i -> ix <= i.
Proof.
  intros Hw H. unfold first_item_ix in H.
  pose proof (find_item_some _ _ _ H) as (Hin & _).
  split; [exact Hin|]. intros i Hi Hl.
  destruct (Nat.le_gt_cases ix i) as [|Hlt]; [assumption|exfalso].
  unfold find_item in H.
  unfold in_scope in Hi. apply andb_prop in Hi. destruct Hi as [Hi1 Hi2].
  apply Nat.leb_le in Hi1. apply Nat.ltb_lt in Hi2.
  unfold live, present_at, ist_at in Hl.
  destruct (nth_error (ist s) i) as [st|] eqn:Hst; [|discriminate]. cbn in Hl. inv Hl.
  assert (Hlen : i < length (items s)).
  { rewrite <- Hw. apply nth_error_Some. congruence. }
  destruct (nth_error (items s) i) as [a|] eqn:Ha; [|apply nth_error_None in Ha; lia].
  assert (Hc : true = false).
  { eapply (find_from_before _ _ _ _ _ _ H (i - sc_start s) a st); try lia.
    - rewrite nth_error_skipn. replace (sc_start s + (i - sc_start s)) with i by lia. exact Ha.
    - rewrite nth_error_skipn. replace (sc_start s + (i - sc_start s)) with i by lia. exact Hst.
    - assumption. }
  discriminate Hc.
Qed.

(* after a successful take_cmd: scope unchanged, current = the consumed first live item *)
Definition took (s s1 : state) : Prop :=
  same_scope s s1 /\
  exists cur, current s1 = Some cur /\ in_scope s cur = true /\
              forall i, in_scope s i = true -> live s1 i -> cur < i.

Lemma live_set_current s c i : live (set_current s c) i <-> live s i.
Proof. unfold live, present_at, ist_at. cbn. tauto. Qed.

Lemma live_sremove k ix s i : live (sremove k ix s) i -> live s i.
Proof.
  unfold sremove. destruct (in_scope s ix) eqn:Hin; cbn [andb]; [|tauto].
  destruct (ist_at s ix) as [st|] eqn:Hst; [|tauto].
  destruct (present st) eqn:Hp; [|tauto].
  unfold live, present_at, ist_at in *. cbn. intros Hl.
  destruct (Nat.eq_dec i ix) as [->|Hne].
  - rewrite update_nth_same in Hl; [discriminate|]. apply nth_error_Some. congruence.
  - rewrite update_nth_other in Hl by exact Hne. exact Hl.
Qed.

Lemma dead_sremove k ix s : in_scope s ix = true -> live s ix -> ~ live (sremove k ix s) ix.
Proof.
  intros Hin Hl. unfold live, present_at in Hl.
  destruct (ist_at s ix) as [st|] eqn:Hst; [|discriminate]. cbn in Hl. inv Hl.
  rewrite (sremove_eff k ix s st Hin Hst) by congruence.
  unfold live, present_at, ist_at in *. cbn.
  rewrite update_nth_same; [discriminate|]. apply nth_error_Some. congruence.
Qed.

Lemma take_cmd_took word s s1 : lenwf s -> take_cmd word s = (true, s1) -> took s s1.
Proof.
  intros Hw H. unfold take_cmd in H.
  destruct (first_item_ix s) as [ix|] eqn:Hf; [|inv H].
  destruct (first_item_first _ _ Hw Hf) as [Hin Hfirst].
  assert (Hlive : live s ix).
  { unfold first_item_ix in Hf. apply find_item_some in Hf.
    destruct Hf as (_ & a & st & _ & Hs & Hp & _). unfold live, present_at. rewrite Hs. cbn.
    congruence. }
  assert (Hgo : s1 = set_current (sremove (KCmd word) ix s) (Some ix) -> took s s1).
  { intros ->. split.
    - destruct (sremove_same_scope (KCmd word) ix s) as [A B]. split; cbn; assumption.
    - exists ix. split; [reflexivity|]. split; [exact Hin|].
      intros i Hi Hl. apply live_set_current in Hl.
      assert (Hne : i <> ix) by (intros ->; eapply dead_sremove; eauto).
      apply live_sremove in Hl. specialize (Hfirst i Hi Hl). lia. }
  destruct (nth_error (items s) ix) as [[c adj w|nm adj w|w|w|w]|]; try (inv H; fail).
  - destruct (beqb w word); inv H. auto.
  - destruct adj; [inv H|]. destruct (beqb w word); inv H. auto.
  - destruct (beqb w word); inv H. auto.
Qed.

Lemma take_cmd_false word s s1 : take_cmd word s = (false, s1) -> s1 = set_current s None.
Proof.
  unfold take_cmd. destruct (first_item_ix s); [|intros H; inv H; reflexivity].
  destruct (nth_error (items s) n) as [[c adj w|nm adj w|w|w|w]|]; try (intros H; inv H; reflexivity).
  - destruct (beqb w word); intros H; inv H; reflexivity.
  - destruct adj; [intros H; inv H; reflexivity|]. destruct (beqb w word); intros H; inv H; reflexivity.
  - destruct (beqb w word); intros H; inv H; reflexivity.
Qed.

Lemma took_set_current s c s1 : took (set_current s c) s1 -> took s s1.
Proof. intros H. exact H. Qed.

Lemma take_cmd_any_took names s s1 : lenwf s -> take_cmd_any names s = (true, s1) -> took s s1.
Proof.
  revert s. induction names as [|n t IH]; intros s Hw H; cbn in H; [inv H|].
  destruct (take_cmd n s) as [b s0] eqn:Ht. destruct b.
  - inv H. eapply take_cmd_took; eauto.
  - apply take_cmd_false in Ht. subst s0. apply took_set_current with (c := None).
    apply IH; [exact Hw|exact H].
Qed.

Lemma cmd_nl name aliases shorts help adjacent m_sub i_sub run :
  (forall w, In w ((name :: aliases) ++ map utf8_encode_char shorts) -> K (KCmd w)) ->
  run_good run ->
  ev_nl (cmd_body name aliases shorts help adjacent m_sub i_sub run).
Proof.
  intros Hk [Rr Rn] s v s' Hw H. unfold cmd_body in H.
  pose proof (take_cmd_any_reach K _ s Hk) as R1.
  destruct (take_cmd_any _ s) as [hit s1] eqn:Ht. cbn in R1.
  destruct hit; [|inv H].
  apply take_cmd_any_took in Ht; [|exact Hw].
  destruct Ht as [[Sc1 Sc2] (cur & Hcur & Hcin & Hafter)].
  rewrite Hcur in H.
  destruct (set_scope s1 cur (sc_end s1)) as [s2|] eqn:H2; [|inv H].
  pose proof (reach_scope K _ _ _ _ H2) as R2.
  apply set_scope_fields in H2.
  destruct H2 as (I2 & T2 & L2 & P2 & C2 & A2 & B2 & _).
  remember (set_path s2 (path s2 ++ [name])) as s3 eqn:E3.
  assert (R3 : reach K s s3).
  { eapply reach_trans; [exact R1|]. eapply reach_trans; [exact R2|]. subst s3. apply reach_path. }
  assert (Hw3 : lenwf s3) by (eapply reach_lenwf; eauto).
  assert (Sc3 : sc_start s3 = cur /\ sc_end s3 = sc_end s) by (subst s3; cbn; split; congruence).
  assert (L3 : forall i, live s3 i <-> live s1 i).
  { intros i. subst s3. unfold live, present_at, ist_at. cbn. rewrite T2. tauto. }
  (* any item of the old scope that is still live somewhere later lies in [cur, end) *)
  assert (Key : forall sx, reach K s3 sx -> sc_start sx = cur -> sc_end sx = sc_end s -> NL s sx).
  { intros sx Rx Hs He i Hi Hl.
    assert (Hl1 : live s1 i) by (apply L3; eapply reach_mono; eauto).
    specialize (Hafter i Hi Hl1).
    unfold in_scope in *. rewrite Hs, He. apply andb_prop in Hi. destruct Hi as [_ Hi2].
    apply andb_true_intro. split; [apply Nat.leb_le; lia|exact Hi2]. }
  assert (N3 : NL s s3) by (apply Key; [constructor|tauto|tauto]).
  destruct adjacent.
  - match type of H with context [adjacently_available_from ?x ?y] =>
      destruct (adjacently_available_from x y) as [a b] end.
    destruct (set_scope s3 a b) as [s4|] eqn:H4; [|inv H].
    pose proof (reach_scope K _ _ _ _ H4) as R4.
    pose proof (Rr s4) as R5. destruct (run s4) as [r s5] eqn:Hrun. cbn in R5.
    destruct r as [v5|f|w|]; try (inv H; fail).
    + match type of H with context [set_scope s5 ?x ?y] =>
        destruct (set_scope s5 x y) as [s6|] eqn:H6 end; inv H.
      pose proof (reach_scope K _ _ _ _ H6) as R6.
      apply set_scope_fields in H6. destruct H6 as (_ & _ & _ & _ & _ & A6 & B6 & _).
      apply Key.
      * eapply reach_trans; [exact R4|]. eapply reach_trans; [exact R5|exact R6].
      * rewrite A6. tauto.
      * rewrite B6. tauto.
    + destruct (adjacent_scope s5 s3) as [| |na nb]; try (inv H; fail).
      destruct (set_scope s3 na nb) as [o1|] eqn:H7; [|inv H].
      pose proof (reach_scope K _ _ _ _ H7) as R7.
      pose proof (Rr o1) as R8. destruct (run o1) as [r2 o2] eqn:Hrun2. cbn in R8.
      destruct r2; try (inv H; fail).
      match type of H with context [set_scope o2 ?x ?y] =>
        destruct (set_scope o2 x y) as [o3|] eqn:H9 end; inv H.
      pose proof (reach_scope K _ _ _ _ H9) as R9.
      apply set_scope_fields in H9. destruct H9 as (_ & _ & _ & _ & _ & A9 & B9 & _).
      apply Key.
      * eapply reach_trans; [exact R7|]. eapply reach_trans; [exact R8|exact R9].
      * rewrite A9. tauto.
      * rewrite B9. tauto.
  - pose proof (Rr s3) as R4. destruct (run s3) as [r s4] eqn:Hrun. cbn in R4.
    destruct r; inv H.
    destruct (Rn _ _ _ Hw3 Hrun) as [N4 _].
    eapply NL_trans; [exact N3|exact N4|exact R4].
Qed.

Lemma run_sub_body_nl inf m s r s1 v s' :
  run_sub_body env inf m s (r, s1) = (SOk v, s') ->
  r = ROk v /\ s' = s1 /\ first_item_ix s1 = None.
Proof.
  unfold run_sub_body. intros H.
  destruct r as [v0|e|w|]; try discr.
  - cbn in H. destruct (first_item_ix s1) eqn:Hf.
    + destruct (info_eval env inf s1) as [[[d|ver]|] s2]; try discr.
      destruct (invariant_ok m); discr.
    + inv H. auto.
  - exfalso.
    destruct (_ && _ && _) in H.
    + destruct (invariant_ok m); discr.
    + destruct e; try (destruct (info_eval env inf s1) as [[[d|ver]|] s2]; try discr;
                       destruct (invariant_ok m); discr).
Qed.

End WithEnv.
End WithK.

(* ------------------------------------------------------------------ the whole interpreter *)
Theorem eval_good_all K env :
  (forall p, kinds_ok K p -> ev_good K (eval env p)) /\
  (forall ps, lkinds_ok K ps -> Forall (ev_good K) (evals env ps)) /\
  (forall o, okinds_ok K o -> run_good K (run_sub env o)).
Proof.
  pose proof (eval_reach_all K env) as (ER & ELR & ORR).
  apply parser_plist_oparser_ind; intros; cbn [kinds_ok lkinds_ok okinds_ok] in *.
  all: try (split; [apply ER; cbn [kinds_ok lkinds_ok okinds_ok]; tauto|]).
  all: try (intros s v s' Hw; autorewrite with evaleq; revert s v s' Hw;
            match goal with |- forall s v s', lenwf s -> ?ev s = _ -> NL s s' =>
              change (ev_nl ev) end).
  - apply ev_scope_nl. apply eval_flag_scope.
  - apply ev_scope_nl. apply eval_arg_scope.
  - apply ev_scope_nl. apply eval_pos_scope.
  - apply ev_scope_nl. apply eval_any_scope.
  - apply (cmd_nl K env); [tauto|]. apply H. tauto.
  - (* PCon *)
    intros s v s' Hw. destruct fields as [|q1 [|q2 t]].
    + rewrite eval_PCon_nil. intros E; inv E. apply same_scope_NL. split; reflexivity.
    + rewrite eval_PCon_one. specialize (H H0). rewrite evals_cons in H. inv H.
      match goal with Hg : ev_good K (eval env q1) |- _ => apply (proj2 Hg); exact Hw end.
    + rewrite eval_PCon_many. apply (con_nl K); auto.
  - apply adjacent_nl.
  - apply (or_nl K); [apply H|apply H0]; tauto.
  - apply (optional_nl K); auto.
  - apply (many_nl K); auto.
  - apply (some_nl K); auto.
  - apply (many_nl K); auto.
  - apply (count_nl K); auto.
  - apply (last_nl K); auto.
  - apply (fallback_with_nl K); auto.
  - apply (fallback_with_nl K); auto.
  - apply (guard_nl K); auto.
  - apply (parse_nl K); auto.
  - apply (map_nl K); auto.
  - apply (hide_nl K); auto.
  - apply H; auto.
  - apply H; auto.
  - intros s ? s' Hw E. rewrite eval_PPure in E. inv E. apply same_scope_NL. split; reflexivity.
  - intros s ? s' Hw E. rewrite eval_PPureWith in E. destruct r; inv E. apply NL_refl.
  - intros s ? s' Hw E. rewrite eval_PFail in E. inv E.
  - apply H; auto.
  - rewrite evals_nil. constructor.
  - rewrite evals_cons. constructor; [apply H|apply H0]; tauto.
  - split; [apply ORR; cbn [okinds_ok]; tauto|].
    intros s v s' Hw E. rewrite run_sub_eq in E.
    destruct (eval env p s) as [r s1] eqn:He.
    apply run_sub_body_nl in E. destruct E as (-> & -> & Hf).
    split; [|exact Hf]. destruct H0 as (_ & _ & Hk). eapply (proj2 (H Hk)); eauto.
Qed.
