(* AbsSim.v -- the evaluator of the flat fragment depends on the ledger only through its LIVE
   TOKENS.  `view s` is the list of (index, token) pairs that are still present; `aeval` is the
   same interpreter written over such lists (find / remove / lookup on a list, no state, no scope,
   no ghost log); `eval_sim`: for every parser of the fragment -- flags, arguments, positionals,
   construct!, optional / many / some / count / last / fallback -- running the real evaluator on a
   full-scope state and running `aeval` on its view give related results and related final views.
   Everything C01 says about the compiled conventional parser is then list reasoning (ConvRefine.v). *)
From Coq Require Import Lia List Bool Arith ZArith.
From BpafModel Require Import Conv.
From BpafLemmas Require Import Tac EvalEq Find Reach.
Import ListNotations.

Definition lv := list (nat * arg).

Inductive ares :=
| AOk (v : val)
| AErr (missing catchable : bool)      (* is_missing e, can_catch e *)
| AStuck.                              (* loop fuel exhausted *)

Definition afind (f : arg -> bool) (l : lv) : option (nat * arg) := find (fun p => f (snd p)) l.
Definition aremove (i : nat) (l : lv) : lv := filter (fun p => negb (Nat.eqb (fst p) i)) l.
Definition aget (i : nat) (l : lv) : option arg := option_map snd (find (fun p => Nat.eqb (fst p) i) l).

Definition is_word (a : arg) : bool := match a with Word _ | PosWord _ => true | _ => false end.

Definition aeval_flag (n : named) (present : val) (absent : option val) (l : lv) : ares * lv :=
  match afind (matches_arg n false) l with
  | Some (i, _) => (AOk present, aremove i l)
  | None => match absent with Some a => (AOk a, l) | None => (AErr true true, l) end
  end.

Definition aconvert (ty : vty) (w : bytes) (l : lv) : ares * lv :=
  match convert ty w with inl v => (AOk v, l) | inr _ => (AErr false false, l) end.

Definition aeval_arg (n : named) (ty : vty) (l : lv) : ares * lv :=
  match afind (matches_arg n false) l with
  | None => (AErr true true, l)
  | Some (i, _) =>
    match aget (S i) l with
    | Some (Word w) | Some (ArgWord w) => aconvert ty w (aremove (S i) (aremove i l))
    | _ => (AErr false false, l)
    end
  end.

Definition aeval_pos (ty : vty) (l : lv) : ares * lv :=
  match afind is_word l with
  | Some (i, Word w) | Some (i, PosWord w) => aconvert ty w (aremove i l)
  | _ => (AErr true true, l)
  end.

Inductive aopt := AONone | AOSome (v : val) | AOErr (missing catchable : bool) | AOStuck.

Definition aparse_option (ev : lv -> ares * lv) (len : option nat) (l : lv) : aopt * option nat * lv :=
  let '(r, l') := ev l in
  match r with
  | AOk v => if lt_len (length l') len then (AOSome v, Some (length l'), l') else (AONone, len, l')
  | AErr missing catchable =>
    if (missing && Nat.eqb (length l) (length l')) || (negb missing && catchable)
    then (AONone, len, l) else (AOErr missing catchable, len, l')
  | AStuck => (AOStuck, len, l')
  end.

Fixpoint amany_loop (ev : lv -> ares * lv) (fuel : nat) (len : option nat) (l : lv) (acc : list val)
  : ares * list val * lv :=
  match fuel with
  | O => (AStuck, acc, l)
  | S f =>
    match aparse_option ev len l with
    | (AOSome v, len', l') => amany_loop ev f len' l' (v :: acc)
    | (AONone, _, l') => (AOk VUnit, acc, l')
    | (AOErr m c, _, l') => (AErr m c, acc, l')
    | (AOStuck, _, l') => (AStuck, acc, l')
    end
  end.

Fixpoint acount_loop (ev : lv -> ares * lv) (fuel : nat) (len : option nat) (l : lv)
         (cur n : nat) (last : option val) : ares * nat * option val * lv :=
  match fuel with
  | O => (AStuck, n, last, l)
  | S f =>
    match aparse_option ev len l with
    | (AOSome v, len', l') =>
      if Nat.eqb cur (length l') then (AOk VUnit, S n, Some v, l')
      else acount_loop ev f len' l' (length l') (S n) (Some v)
    | (AONone, _, l') => (AOk VUnit, n, last, l')
    | (AOErr m c, _, l') => (AErr m c, n, last, l')
    | (AOStuck, _, l') => (AStuck, n, last, l')
    end
  end.

Definition aoptional (ev : lv -> ares * lv) (l : lv) : ares * lv :=
  match aparse_option ev None l with
  | (AOSome v, _, l') => (AOk (VSome v), l')
  | (AONone, _, l') => (AOk VNone, l')
  | (AOErr m c, _, l') => (AErr m c, l')
  | (AOStuck, _, l') => (AStuck, l')
  end.
Definition amany (fuel : nat) (ev : lv -> ares * lv) (l : lv) : ares * lv :=
  match amany_loop ev fuel None l [] with
  | (AOk _, acc, l') => (AOk (VList (rev acc)), l')
  | (r, _, l') => (r, l')
  end.
Definition asome (fuel : nat) (ev : lv -> ares * lv) (l : lv) : ares * lv :=
  match amany_loop ev fuel None l [] with
  | (AOk _, [], l') => (AErr false true, l')
  | (AOk _, acc, l') => (AOk (VList (rev acc)), l')
  | (r, _, l') => (r, l')
  end.
Definition acount (fuel : nat) (ev : lv -> ares * lv) (l : lv) : ares * lv :=
  match acount_loop ev fuel None l (length l) O None with
  | (AOk _, n, _, l') => (AOk (VNum (Z.of_nat n)), l')
  | (r, _, _, l') => (r, l')
  end.
Definition alast (fuel : nat) (ev : lv -> ares * lv) (l : lv) : ares * lv :=
  match acount_loop ev fuel None l (length l) O None with
  | (AOk _, _, Some v, l') => (AOk v, l')
  | (AOk _, _, None, l') => ev l'
  | (r, _, _, l') => (r, l')
  end.
Definition afallback (ev : lv -> ares * lv) (v : val) (l : lv) : ares * lv :=
  match ev l with
  | (AOk r, l') => (AOk r, l')
  | (AErr m c, l') => if c then (AOk v, l) else (AErr m c, l)
  | (AStuck, l') => (AStuck, l')
  end.

Fixpoint acon_go (evs : list (lv -> ares * lv)) (l : lv) (acc : list val) (err : option (bool * bool))
  : ares * lv :=
  match evs with
  | [] => match err with Some (m, c) => (AErr m c, l) | None => (AOk (VTuple (rev acc)), l) end
  | ev :: t =>
    let '(r, l') := ev l in
    match r with
    | AOk v => acon_go t l' (v :: acc) err
    | AErr m c => acon_go t l' acc (match err with Some _ => err | None => Some (m, c) end)
    | AStuck => (AStuck, l')
    end
  end.

(* the fragment *)
Fixpoint aeval (fuel : nat) (p : parser) (l : lv) {struct p} : ares * lv :=
  match p with
  | PFlag n pr ab => aeval_flag n pr ab l
  | PArg n _ ty _ => aeval_arg n ty l
  | PPos _ ty _ _ => aeval_pos ty l
  | POptional q _ => aoptional (aeval fuel q) l
  | PMany q _ => amany fuel (aeval fuel q) l
  | PSome q _ _ => asome fuel (aeval fuel q) l
  | PCount q => acount fuel (aeval fuel q) l
  | PLast q => alast fuel (aeval fuel q) l
  | PFallback q v _ => afallback (aeval fuel q) v l
  | PCon fields => acon_go (aevals fuel fields) l [] None
  | _ => (AStuck, l)
  end
with aevals (fuel : nat) (ps : plist) {struct ps} : list (lv -> ares * lv) :=
  match ps with
  | PNil => []
  | PCons q t => aeval fuel q :: aevals fuel t
  end.

Fixpoint flatp (p : parser) {struct p} : bool :=
  match p with
  | PFlag n _ _ => named_ok n
  | PArg n _ _ adj => named_ok n && negb adj
  | PPos _ _ pos _ => match pos with Unrestricted => true | _ => false end
  | POptional q c | PMany q c | PSome q _ c => negb c && flatp q
  | PCount q | PLast q | PFallback q _ _ => flatp q
  | PCon fields => match fields with PCons _ (PCons _ _) => lflatp fields | _ => false end
  | _ => false
  end
with lflatp (ps : plist) {struct ps} : bool :=
  match ps with
  | PNil => true
  | PCons q t => flatp q && lflatp t
  end.

(* ------------------------------------------------------------------ the view of a state *)
Fixpoint view_from (ix : nat) (its : list arg) (sts : list istate) : lv :=
  match its, sts with
  | a :: its', st :: sts' => (if present st then [(ix, a)] else []) ++ view_from (S ix) its' sts'
  | _, _ => []
  end.
Definition view (s : state) : lv :=
  view_from (sc_start s) (skipn (sc_start s) (items s)) (skipn (sc_start s) (ist s)).

Record Sim (n : nat) (s : state) (l : lv) : Prop := mkSim {
  sim_items : length (items s) = n;
  sim_ist : length (ist s) = n;
  sim_start : sc_start s <= n;
  sim_end : sc_end s = n;
  sim_view : view s = l;
  sim_rem : remaining s = length l }.

Lemma view_from_lb ix its sts p : In p (view_from ix its sts) -> ix <= fst p.
Proof.
  revert ix sts. induction its as [|a t IH]; intros ix [|st sts] H; cbn in H; try contradiction.
  apply in_app_or in H. destruct H as [H|H].
  - destruct (present st); [|contradiction]. destruct H as [<-|[]]. cbn. lia.
  - apply IH in H. lia.
Qed.

(* find_item on a full-scope state = find on the view *)
Lemma find_from_view f ix its sts e :
  ix + length its <= e -> length sts = length its ->
  find_from (fun _ a => f a) ix its sts e = option_map fst (afind f (view_from ix its sts)).
Proof.
  revert ix sts. induction its as [|a t IH]; intros ix [|st sts] He Hl; cbn in *; try reflexivity; try discriminate.
  assert (Hlt : Nat.ltb ix e = true) by (apply Nat.ltb_lt; lia). rewrite Hlt.
  destruct (present st) eqn:P; cbn.
  - unfold afind. cbn. destruct (f a); [reflexivity|]. apply IH; lia.
  - apply IH; lia.
Qed.

Lemma find_item_view n s l f :
  Sim n s l -> find_item s (fun _ a => f a) = option_map fst (afind f l).
Proof.
  intros [Hi Hs H0 He Hv _]. unfold find_item. rewrite He. subst l.
  unfold view. apply find_from_view; rewrite !skipn_length; lia.
Qed.

Lemma afind_in f l i a : afind f l = Some (i, a) -> In (i, a) l /\ f a = true.
Proof. unfold afind. intros H. apply find_some in H. exact H. Qed.

(* membership in the view = present at that index *)
Lemma view_from_in ix its sts i a :
  In (i, a) (view_from ix its sts) <->
  exists k st, i = ix + k /\ nth_error its k = Some a /\ nth_error sts k = Some st /\ present st = true.
Proof.
  revert ix sts. induction its as [|b t IH]; intros ix [|st sts]; cbn.
  - split; [contradiction|]. intros (k & st & _ & H & _). destruct k; discriminate.
  - split; [contradiction|]. intros (k & st' & _ & H & _). destruct k; discriminate.
  - split; [contradiction|]. intros (k & st' & _ & _ & H & _). destruct k; discriminate.
  - rewrite in_app_iff. split.
    + intros [H|H].
      * destruct (present st) eqn:P; [|contradiction]. destruct H as [H|[]]. inversion H; subst.
        exists 0, st. repeat split; auto; lia.
      * apply IH in H. destruct H as (k & st' & -> & H1 & H2 & H3). exists (S k), st'. repeat split; auto; lia.
    + intros (k & st' & -> & H1 & H2 & H3). destruct k as [|k]; cbn in H1, H2.
      * inversion H1; inversion H2; subst. rewrite H3. left. left. f_equal. lia.
      * right. apply IH. exists k, st'. repeat split; auto; lia.
Qed.

Lemma view_in n s l i a :
  Sim n s l -> (In (i, a) l <-> sc_start s <= i /\ nth_error (items s) i = Some a /\ present_at s i = Some true).
Proof.
  intros HS. rewrite <- (sim_view _ _ _ HS). unfold view. rewrite view_from_in. split.
  - intros (k & st & -> & H1 & H2 & H3). rewrite nth_error_skipn in H1. rewrite nth_error_skipn in H2. split; [lia|]. split; [exact H1|].
    unfold present_at, ist_at. rewrite H2. cbn. f_equal. exact H3.
  - intros (Hle & H1 & H2). unfold present_at, ist_at in H2. destruct (nth_error (ist s) i) as [st|] eqn:E; [|discriminate].
    cbn in H2. inversion H2. exists (i - sc_start s), st. rewrite !nth_error_skipn.
    replace (sc_start s + (i - sc_start s)) with i by lia. repeat split; auto; lia.
Qed.

(* the first components of a view are strictly increasing, hence distinct *)
Lemma view_from_unique ix its sts i a b :
  In (i, a) (view_from ix its sts) -> In (i, b) (view_from ix its sts) -> a = b.
Proof.
  intros H1 H2. apply view_from_in in H1. apply view_from_in in H2.
  destruct H1 as (k & st & E1 & A1 & _). destruct H2 as (k' & st' & E2 & A2 & _).
  assert (k = k') by lia. subst. congruence.
Qed.

Lemma aget_view n s l i :
  Sim n s l -> get s i = aget i l.
Proof.
  intros HS. unfold get, aget.
  destruct (find (fun p => Nat.eqb (fst p) i) l) as [[j a]|] eqn:F; cbn.
  - apply find_some in F. destruct F as [Hin Hj]. cbn in Hj. apply Nat.eqb_eq in Hj. subst j.
    apply (view_in _ _ _ _ _ HS) in Hin. destruct Hin as (Hle & Ha & Hp).
    assert (Hsc : in_scope s i = true).
    { unfold in_scope. rewrite (sim_end _ _ _ HS).
      apply andb_true_intro. split; [apply Nat.leb_le; lia|apply Nat.ltb_lt].
      rewrite <- (sim_items _ _ _ HS). apply nth_error_Some. congruence. }
    rewrite Hsc. unfold present_at in Hp. destruct (ist_at s i) as [st|]; [|discriminate].
    cbn in Hp. inversion Hp as [Hp']. rewrite Hp'. cbn. exact Ha.
  - destruct (in_scope s i && match ist_at s i with Some st => present st | None => false end) eqn:E; [|reflexivity].
    apply andb_prop in E. destruct E as [Esc E]. destruct (ist_at s i) as [st|] eqn:Es; [|discriminate].
    destruct (nth_error (items s) i) as [a|] eqn:Ea; [|reflexivity].
    exfalso. assert (Hin : In (i, a) l).
    { apply (view_in _ _ _ _ _ HS). unfold in_scope in Esc. apply andb_prop in Esc. destruct Esc as [E1 _]. apply Nat.leb_le in E1.
      split; [exact E1|]. split; [exact Ea|]. unfold present_at. rewrite Es. cbn. f_equal. exact E. }
    pose proof (find_none _ _ F _ Hin) as Hn. cbn in Hn. rewrite Nat.eqb_refl in Hn. discriminate.
Qed.

Lemma filter_all {A} (f : A -> bool) l : (forall x, In x l -> f x = true) -> filter f l = l.
Proof.
  induction l as [|x t IH]; intros H; cbn; [reflexivity|].
  rewrite (H x (or_introl eq_refl)). f_equal. apply IH. intros y Hy. apply H. right. exact Hy.
Qed.

(* removing a live index *)
Lemma view_from_remove ix its sts k st :
  nth_error sts k = Some st -> present st = true -> length sts = length its ->
  view_from ix its (update_nth k Parsed sts) = aremove (ix + k) (view_from ix its sts) /\
  S (length (view_from ix its (update_nth k Parsed sts))) = length (view_from ix its sts).
Proof.
  revert ix sts k. induction its as [|a t IH]; intros ix [|s0 sts] k Hk Hp Hl; cbn in *; try discriminate.
  - destruct k; discriminate.
  - destruct k as [|k]; cbn in Hk.
    + inversion Hk; subst s0. cbn [update_nth]. cbn [view_from present]. rewrite Hp. cbn [app].
      unfold aremove. cbn [filter fst]. replace (ix + 0) with ix by lia. rewrite Nat.eqb_refl. cbn [negb].
      assert (E : filter (fun p => negb (Nat.eqb (fst p) ix)) (view_from (S ix) t sts) = view_from (S ix) t sts).
      { apply filter_all. intros p Hin. apply view_from_lb in Hin.
        apply negb_true_iff. apply Nat.eqb_neq. lia. }
      rewrite E. split; reflexivity.
    + cbn [update_nth view_from]. destruct (IH (S ix) sts k Hk Hp ltac:(lia)) as [E1 E2].
      replace (ix + S k) with (S ix + k) by lia. split.
      * rewrite E1. unfold aremove. rewrite filter_app. f_equal.
        destruct (present s0); cbn; [|reflexivity].
        assert (Hne : Nat.eqb ix (S (ix + k)) = false) by (apply Nat.eqb_neq; lia). rewrite Hne. reflexivity.
      * rewrite !app_length. lia.
Qed.

Lemma upd_length {A} ix (v : A) l : length (update_nth ix v l) = length l.
Proof. revert ix. induction l as [|x t IH]; intros [|ix]; cbn; auto. Qed.

Lemma skipn_update {A} a i (v : A) l : a <= i ->
  skipn a (update_nth i v l) = update_nth (i - a) v (skipn a l).
Proof.
  revert i l. induction a as [|a IH]; intros i l H; [rewrite Nat.sub_0_r; reflexivity|].
  destruct l as [|x t].
  - destruct i as [|i]; [lia|]. cbn. destruct (i - a); reflexivity.
  - destruct i as [|i]; [lia|]. cbn. apply IH. lia.
Qed.

Lemma sremove_sim n s l k i a :
  Sim n s l -> In (i, a) l -> Sim n (sremove k i s) (aremove i l).
Proof.
  intros HS Hin. pose proof (proj1 (view_in _ _ _ _ _ HS) Hin) as (Hle & Ha & Hp).
  unfold present_at in Hp. destruct (ist_at s i) as [st|] eqn:Es; [|discriminate]. cbn in Hp. inversion Hp as [Hp'].
  assert (Hsc : in_scope s i = true).
  { unfold in_scope. rewrite (sim_end _ _ _ HS).
    apply andb_true_intro. split; [apply Nat.leb_le; lia|apply Nat.ltb_lt].
    rewrite <- (sim_items _ _ _ HS). apply nth_error_Some. congruence. }
  unfold sremove. rewrite Hsc, Es, Hp'. cbn [andb].
  destruct HS as [Hi Hs H0 He Hv Hr].
  assert (Es' : nth_error (skipn (sc_start s) (ist s)) (i - sc_start s) = Some st).
  { rewrite nth_error_skipn. replace (sc_start s + (i - sc_start s)) with i by lia. exact Es. }
  destruct (view_from_remove (sc_start s) (skipn (sc_start s) (items s)) (skipn (sc_start s) (ist s)) (i - sc_start s) st Es' Hp'
              ltac:(rewrite !skipn_length; lia)) as [E1 E2].
  replace (sc_start s + (i - sc_start s)) with i in E1 by lia.
  constructor; cbn; auto.
  - rewrite upd_length. exact Hs.
  - unfold view. cbn. rewrite skipn_update by exact Hle. rewrite E1. unfold view in Hv. rewrite Hv. reflexivity.
  - rewrite Hr. unfold view in Hv. rewrite <- Hv. rewrite <- E1. lia.
Qed.

Lemma set_current_sim n s l c : Sim n s l -> Sim n (set_current s c) l.
Proof. intros [A B C D E F]. constructor; auto. Qed.

(* ------------------------------------------------------------------ simulation *)
Definition rel (r : eres) (a : ares) : Prop :=
  match r, a with
  | ROk v, AOk v' => v = v'
  | RErr e, AErr m c => is_missing e = m /\ can_catch e = c
  | RFuel, AStuck => True
  | _, _ => False
  end.

Definition sim_ev (n : nat) (ev : evaluator) (aev : lv -> ares * lv) : Prop :=
  forall s l, Sim n s l -> rel (fst (ev s)) (fst (aev l)) /\ Sim n (snd (ev s)) (snd (aev l)).

Section WithEnv.
Variable env : bytes -> option bytes.

Lemma named_ok_env n : named_ok n = true -> env_first env (n_env n) = None.
Proof.
  unfold named_ok. intros H. apply andb_prop in H. destruct H as [H _].
  destruct (n_env n); [reflexivity|discriminate].
Qed.

Lemma named_ok_item n : named_ok n = true -> exists sl, shortlong_of n = Some sl.
Proof.
  unfold named_ok, shortlong_of. intros H. apply andb_prop in H. destruct H as [_ H].
  destruct (n_short n), (n_long n); cbn in H; try discriminate; eauto.
Qed.

Lemma flag_sim n nm pr ab : named_ok nm = true -> sim_ev n (eval_flag env nm pr ab) (aeval_flag nm pr ab).
Proof.
  intros Hok s l HS. unfold eval_flag, aeval_flag, take_flag.
  rewrite (find_item_view n s l _ HS).
  destruct (afind (matches_arg nm false) l) as [[i a]|] eqn:F; cbn [option_map fst].
  - cbn. split; [reflexivity|]. apply afind_in in F. destruct F as [Hin _]. eapply sremove_sim; eauto.
  - rewrite (named_ok_env nm Hok). destruct ab as [a|]; cbn; [split; [reflexivity|exact HS]|].
    destruct (named_ok_item nm Hok) as [sl Hsl]. unfold flag_item. rewrite Hsl. cbn.
    split; [split; reflexivity|exact HS].
Qed.

Lemma convert_sim n ty w s l :
  Sim n s l -> rel (fst (convert_res ty w s)) (fst (aconvert ty w l)) /\
               Sim n (snd (convert_res ty w s)) (snd (aconvert ty w l)).
Proof.
  intros HS. unfold convert_res, aconvert. destruct (convert ty w); cbn; split; auto.
Qed.

Lemma arg_sim n nm mv ty : named_ok nm = true -> sim_ev n (eval_arg env nm mv ty false) (aeval_arg nm ty).
Proof.
  intros Hok s l HS. unfold eval_arg, aeval_arg, take_arg.
  rewrite (find_item_view n s l _ HS).
  destruct (afind (matches_arg nm false) l) as [[i a]|] eqn:F; cbn [option_map fst].
  - rewrite (aget_view n s l (S i) HS).
    apply afind_in in F. destruct F as [Hin _].
    destruct (aget (S i) l) as [[c adj os|nm' adj os|w|w|w]|] eqn:G; cbn; try (split; [split; reflexivity|exact HS]).
    + (* ArgWord *)
      assert (S1 : Sim n (sremove (KArgKey nm) i s) (aremove i l)) by (eapply sremove_sim; eauto).
      assert (Hin2 : In (S i, ArgWord w) (aremove i l)).
      { unfold aget in G. destruct (find (fun p => Nat.eqb (fst p) (S i)) l) as [[j b]|] eqn:F2; [|discriminate].
        cbn in G. inversion G; subst b. apply find_some in F2. destruct F2 as [H1 H2]. cbn in H2.
        apply Nat.eqb_eq in H2. subst j. unfold aremove. apply filter_In. split; [exact H1|].
        cbn. apply negb_true_iff. apply Nat.eqb_neq. lia. }
      apply convert_sim. eapply sremove_sim; eauto.
    + (* Word *)
      assert (S1 : Sim n (sremove (KArgKey nm) i s) (aremove i l)) by (eapply sremove_sim; eauto).
      assert (Hin2 : In (S i, Word w) (aremove i l)).
      { unfold aget in G. destruct (find (fun p => Nat.eqb (fst p) (S i)) l) as [[j b]|] eqn:F2; [|discriminate].
        cbn in G. inversion G; subst b. apply find_some in F2. destruct F2 as [H1 H2]. cbn in H2.
        apply Nat.eqb_eq in H2. subst j. unfold aremove. apply filter_In. split; [exact H1|].
        cbn. apply negb_true_iff. apply Nat.eqb_neq. lia. }
      apply convert_sim. eapply sremove_sim; eauto.
  - rewrite (named_ok_env nm Hok). destruct (named_ok_item nm Hok) as [sl Hsl]. unfold arg_item. rewrite Hsl. cbn.
    split; [split; reflexivity|exact HS].
Qed.

Lemma pos_sim n mv ty help : sim_ev n (eval_pos mv ty Unrestricted help) (aeval_pos ty).
Proof.
  intros s l HS. unfold eval_pos, aeval_pos, take_positional_word.
  change (fun (_ : nat) (a : arg) => match a with Word _ | PosWord _ => true | _ => false end)
    with (fun (_ : nat) (a : arg) => is_word a).
  rewrite (find_item_view n s l _ HS).
  destruct (afind is_word l) as [[i a]|] eqn:F; cbn [option_map fst].
  - apply afind_in in F. destruct F as [Hin Hw].
    pose proof (proj1 (view_in _ _ _ _ _ HS) Hin) as (_ & Ha & _). rewrite Ha.
    destruct a; try discriminate Hw; apply convert_sim; eapply sremove_sim; eauto.
  - cbn. split; [split; reflexivity|exact HS].
Qed.

(* parse_option *)
Definition relo (o : opt_res) (a : aopt) : Prop :=
  match o, a with
  | ONone, AONone => True
  | OSome v, AOSome v' => v = v'
  | OErr e, AOErr m c => is_missing e = m /\ can_catch e = c
  | OFuel, AOStuck => True
  | _, _ => False
  end.

Lemma parse_option_sim n ev aev len s l :
  sim_ev n ev aev -> Sim n s l ->
  let '(o, len1, s') := parse_option ev len s false in
  let '(a, len2, l') := aparse_option aev len l in
  relo o a /\ len1 = len2 /\ Sim n s' l'.
Proof.
  intros Hs HS. unfold parse_option, aparse_option.
  destruct (Hs s l HS) as [R S']. destruct (ev s) as [r s1]. destruct (aev l) as [a l1]. cbn [fst snd] in *.
  destruct r as [v|e|w|]; destruct a as [v'|m c|]; cbn in R; try contradiction.
  - subst v'. rewrite (sim_rem _ _ _ S'). destruct (lt_len (length l1) len); cbn; auto.
  - destruct R as [<- <-]. rewrite (sim_rem _ _ _ HS), (sim_rem _ _ _ S'). cbn [orb].
    destruct ((is_missing e && Nat.eqb (length l) (length l1)) || (negb (is_missing e) && can_catch e)); cbn; auto.
  - cbn. auto.
Qed.

Lemma many_loop_sim n ev aev : sim_ev n ev aev ->
  forall fuel len s l acc, Sim n s l ->
  let '(r, acc1, s') := many_loop ev false fuel len s acc in
  let '(a, acc2, l') := amany_loop aev fuel len l acc in
  rel r a /\ acc1 = acc2 /\ Sim n s' l'.
Proof.
  intros Hs. induction fuel as [|f IH]; intros len s l acc HS; cbn [many_loop amany_loop]; [cbn; auto|].
  pose proof (parse_option_sim n ev aev len s l Hs HS) as P.
  destruct (parse_option ev len s false) as [[o len1] s1]. destruct (aparse_option aev len l) as [[a len2] l1].
  destruct P as (R & <- & S1).
  destruct o; destruct a; cbn in R; try contradiction; cbn; auto.
  subst. apply IH. exact S1.
Qed.

Lemma count_loop_sim n ev aev : sim_ev n ev aev ->
  forall fuel len s l cur k last, Sim n s l ->
  let '(r, k1, last1, s') := count_loop ev fuel len s cur k last in
  let '(a, k2, last2, l') := acount_loop aev fuel len l cur k last in
  rel r a /\ k1 = k2 /\ last1 = last2 /\ Sim n s' l'.
Proof.
  intros Hs. induction fuel as [|f IH]; intros len s l cur k last HS; cbn [count_loop acount_loop]; [cbn; auto|].
  pose proof (parse_option_sim n ev aev len s l Hs HS) as P.
  destruct (parse_option ev len s false) as [[o len1] s1]. destruct (aparse_option aev len l) as [[a len2] l1].
  destruct P as (R & <- & S1).
  destruct o; destruct a; cbn in R; try contradiction; cbn; auto.
  subst. rewrite (sim_rem _ _ _ S1). destruct (Nat.eqb cur (length l1)); [cbn; auto|]. apply IH. exact S1.
Qed.

Lemma loop_fuel_sim n s l : Sim n s l -> loop_fuel s = S (S n).
Proof. intros HS. unfold loop_fuel. rewrite (sim_items _ _ _ HS). reflexivity. Qed.

Lemma optional_sim n ev aev : sim_ev n ev aev -> sim_ev n (optional_body ev false) (aoptional aev).
Proof.
  intros Hs s l HS. unfold optional_body, aoptional.
  pose proof (parse_option_sim n ev aev None s l Hs HS) as P.
  destruct (parse_option ev None s false) as [[o len1] s1]. destruct (aparse_option aev None l) as [[a len2] l1].
  destruct P as (R & _ & S1). destruct o; destruct a; cbn in R; try contradiction; cbn; auto. subst. auto.
Qed.

Lemma many_sim n ev aev : sim_ev n ev aev -> sim_ev n (many_body ev false) (amany (S (S n)) aev).
Proof.
  intros Hs s l HS. unfold many_body, amany. rewrite (loop_fuel_sim n s l HS).
  pose proof (many_loop_sim n ev aev Hs (S (S n)) None s l [] HS) as P.
  destruct (many_loop ev false (S (S n)) None s []) as [[r acc1] s1].
  destruct (amany_loop aev (S (S n)) None l []) as [[a acc2] l1].
  destruct P as (R & <- & S1). destruct r; destruct a; cbn in R; try contradiction; cbn; auto.
Qed.

Lemma some_sim n ev aev msg : sim_ev n ev aev -> sim_ev n (some_body ev msg false) (asome (S (S n)) aev).
Proof.
  intros Hs s l HS. unfold some_body, asome. rewrite (loop_fuel_sim n s l HS).
  pose proof (many_loop_sim n ev aev Hs (S (S n)) None s l [] HS) as P.
  destruct (many_loop ev false (S (S n)) None s []) as [[r acc1] s1].
  destruct (amany_loop aev (S (S n)) None l []) as [[a acc2] l1].
  destruct P as (R & <- & S1). destruct r; destruct a; cbn in R; try contradiction; cbn; auto.
  destruct acc1; cbn; auto.
Qed.

Lemma count_sim n ev aev : sim_ev n ev aev -> sim_ev n (count_body ev) (acount (S (S n)) aev).
Proof.
  intros Hs s l HS. unfold count_body, acount. rewrite (loop_fuel_sim n s l HS), (sim_rem _ _ _ HS).
  pose proof (count_loop_sim n ev aev Hs (S (S n)) None s l (length l) 0 None HS) as P.
  destruct (count_loop ev (S (S n)) None s (length l) 0 None) as [[[r k1] la1] s1].
  destruct (acount_loop aev (S (S n)) None l (length l) 0 None) as [[[a k2] la2] l1].
  destruct P as (R & <- & <- & S1). destruct r; destruct a; cbn in R; try contradiction; cbn; auto.
Qed.

Lemma last_sim n ev aev : sim_ev n ev aev -> sim_ev n (last_body ev) (alast (S (S n)) aev).
Proof.
  intros Hs s l HS. unfold last_body, alast. rewrite (loop_fuel_sim n s l HS), (sim_rem _ _ _ HS).
  pose proof (count_loop_sim n ev aev Hs (S (S n)) None s l (length l) 0 None HS) as P.
  destruct (count_loop ev (S (S n)) None s (length l) 0 None) as [[[r k1] la1] s1].
  destruct (acount_loop aev (S (S n)) None l (length l) 0 None) as [[[a k2] la2] l1].
  destruct P as (R & <- & <- & S1). destruct r; destruct a; cbn in R; try contradiction; cbn; auto.
  destruct la1; cbn; auto.
Qed.

Lemma fallback_sim n ev aev v : sim_ev n ev aev -> sim_ev n (fallback_body ev v) (afallback aev v).
Proof.
  intros Hs s l HS. unfold fallback_body, fallback_with_body, afallback.
  destruct (Hs s l HS) as [R S1]. destruct (ev s) as [r s1]. destruct (aev l) as [a l1]. cbn [fst snd] in *.
  destruct r as [x|e|w|]; destruct a as [x'|mm cc|]; cbn in R; try contradiction.
  - subst. cbn. auto.
  - destruct R as [<- <-]. destruct (can_catch e) eqn:Ec; cbn; auto.
  - cbn. auto.
Qed.

Definition rel_err (e : option message) (a : option (bool * bool)) : Prop :=
  match e, a with
  | None, None => True
  | Some m, Some (x, c) => is_missing m = x /\ can_catch m = c
  | _, _ => False
  end.

Lemma con_go_sim n evs aevs : Forall2 (sim_ev n) evs aevs ->
  forall s l first acc err aerr, Sim n s l -> rel_err err aerr ->
  rel (fst (con_go false evs s first acc err)) (fst (acon_go aevs l acc aerr)) /\
  Sim n (snd (con_go false evs s first acc err)) (snd (acon_go aevs l acc aerr)).
Proof.
  induction 1 as [|ev aev evs aevs Hs Hl IH]; intros s l first acc err aerr HS E; cbn [con_go acon_go].
  - destruct err as [m|]; destruct aerr as [[x c]|]; cbn in E; try contradiction; cbn.
    + split; [exact E|exact HS].
    + split; [reflexivity|apply set_current_sim; exact HS].
  - destruct (Hs s l HS) as [R S1]. destruct (ev s) as [r s1]. destruct (aev l) as [a l1]. cbn [fst snd] in *.
    destruct r; destruct a; cbn in R; try contradiction.
    + subst. apply IH; assumption.
    + cbn [andb]. apply IH; [exact S1|]. destruct err; destruct aerr as [[x c]|]; cbn in E; try contradiction; cbn; auto.
    + cbn. auto.
Qed.

Lemma con_sim n evs aevs : Forall2 (sim_ev n) evs aevs ->
  sim_ev n (con_body false evs) (fun l => acon_go aevs l [] None).
Proof.
  intros H s l HS. unfold con_body, con_reset.
  destruct (con_go_sim n evs aevs H s l true [] None None HS I) as [R S1].
  destruct (con_go false evs s true [] None) as [r s1]. cbn [fst snd] in *.
  split; [exact R|apply set_current_sim; exact S1].
Qed.

(* the whole fragment *)
Theorem eval_sim_all n :
  (forall p, flatp p = true -> sim_ev n (eval env p) (aeval (S (S n)) p)) /\
  (forall ps, lflatp ps = true -> Forall2 (sim_ev n) (evals env ps) (aevals (S (S n)) ps)) /\
  (forall o : oparser, True).
Proof.
  apply parser_plist_oparser_ind; intros; try exact I; cbn [flatp lflatp] in *; try discriminate.
  - intros s l HS. rewrite eval_PFlag. apply flag_sim; assumption.
  - apply andb_prop in H. destruct H as [H1 H2]. apply negb_true_iff in H2. subst adjacent.
    intros s l HS. rewrite eval_PArg. apply arg_sim; assumption.
  - destruct pos; try discriminate. intros s l HS. rewrite eval_PPos. apply pos_sim; assumption.
  - (* PCon *) destruct fields as [|q1 [|q2 t]]; try discriminate.
    intros s l HS. rewrite eval_PCon_many. cbn [aeval]. apply con_sim; auto.
  - apply andb_prop in H0. destruct H0 as [Hc Hq]. apply negb_true_iff in Hc. subst catch.
    intros s l HS. rewrite eval_POptional. cbn [aeval]. apply optional_sim; auto.
  - apply andb_prop in H0. destruct H0 as [Hc Hq]. apply negb_true_iff in Hc. subst catch.
    intros s l HS. rewrite eval_PMany. cbn [aeval]. apply many_sim; auto.
  - apply andb_prop in H0. destruct H0 as [Hc Hq]. apply negb_true_iff in Hc. subst catch.
    intros s l HS. rewrite eval_PSome. cbn [aeval]. apply some_sim; auto.
  - intros s l HS. rewrite eval_PCount. cbn [aeval]. apply count_sim; auto.
  - intros s l HS. rewrite eval_PLast. cbn [aeval]. apply last_sim; auto.
  - intros s l HS. rewrite eval_PFallback. cbn [aeval]. apply fallback_sim; auto.
  - constructor.
  - apply andb_prop in H1. destruct H1 as [Hq Ht]. rewrite evals_cons. cbn [aevals]. constructor; auto.
Qed.

Definition eval_sim n := proj1 (eval_sim_all n).
End WithEnv.
