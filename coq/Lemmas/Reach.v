(* Reach.v -- the ledger moves only by legal steps.
   `step K` lists the primitive ways a State changes (remove a live in-scope item that the
   consumer accepts -- the consumer kind being one allowed by K --, change `current`/`path`,
   re-scope, mark conflicts); `reach K` is its reflexive-transitive closure.
   Main theorem (eval_reach): for every parser whose consumers all satisfy K, the state left
   behind by `eval` (and by run_subparser) is reachable from the input state, whatever the
   nesting, rollbacks and retries.  Every ledger invariant preserved by `step` (Ledger.v)
   therefore holds after any evaluation. *)
From BpafLemmas Require Import Tac EvalEq Find.

(* which token shapes a consumer may claim *)
Definition accepts (k : ckind) (a : arg) : bool :=
  match k with
  | KFlag n => matches_arg n false a
  | KArgKey n => matches_arg n false a
  | KArgVal _ => match a with Word _ | ArgWord _ => true | _ => false end
  | KPos => match a with Word _ | PosWord _ => true | _ => false end
  | KCmd name =>
    match a with
    | Word w | Short _ _ w | Long _ false w => beqb w name
    | _ => false
    end
  | KAny => true
  | KTok => false
  end.

Section Reach.
Variable K : ckind -> Prop.

Inductive step : state -> state -> Prop :=
| StRemove k ix s st :
    K k ->
    in_scope s ix = true -> ist_at s ix = Some st -> present st = true ->
    (forall a, nth_error (items s) ix = Some a -> accepts k a = true) ->
    step s (sremove k ix s)
| StCurrent s c : step s (set_current s c)
| StPath s p : step s (set_path s p)
| StScope s a b s' : set_scope s a b = Some s' -> step s s'
| StMarks s ist' :
    length ist' = length (ist s) ->
    (forall i, option_map present (nth_error ist' i) = option_map present (nth_error (ist s) i)) ->
    (* a conflict mark names a position of the line as the winner, or was there before *)
    (forall i w, nth_error ist' i = Some (Conflict w) -> w < length ist' \/ nth_error (ist s) i = Some (Conflict w)) ->
    step s (set_ist s ist').

Inductive reach : state -> state -> Prop :=
| reach_refl s : reach s s
| reach_more s1 s2 s3 : reach s1 s2 -> step s2 s3 -> reach s1 s3.

Lemma reach_trans s1 s2 s3 : reach s1 s2 -> reach s2 s3 -> reach s1 s3.
Proof. intros H12 H23. induction H23; eauto using reach. Qed.

Lemma reach_one s1 s2 : step s1 s2 -> reach s1 s2.
Proof. eauto using reach. Qed.

Lemma reach_current s c : reach s (set_current s c).
Proof. apply reach_one. constructor. Qed.
Lemma reach_path s p : reach s (set_path s p).
Proof. apply reach_one. constructor. Qed.
Lemma reach_scope s a b s' : set_scope s a b = Some s' -> reach s s'.
Proof. intros H. apply reach_one. econstructor; eauto. Qed.

Ltac rtrans :=
  match goal with
  | H1 : reach ?a ?b, H2 : reach ?b ?c |- reach ?a ?c => exact (reach_trans _ _ _ H1 H2)
  end.

(* ------------------------------------------------------------------ state operations *)
Lemma reach_sremove k ix s :
  K k -> (forall a, nth_error (items s) ix = Some a -> accepts k a = true) ->
  reach s (sremove k ix s).
Proof.
  intros Hk Hacc.
  destruct (in_scope s ix) eqn:Hin; [|unfold sremove; rewrite Hin; constructor].
  destruct (ist_at s ix) as [st|] eqn:Hst;
    [|unfold sremove; rewrite Hin, Hst; constructor].
  destruct (present st) eqn:Hp; [|unfold sremove; rewrite Hin, Hst, Hp; constructor].
  apply reach_one. eapply StRemove; eauto.
Qed.

Lemma take_flag_reach n s s' : K (KFlag n) -> take_flag n s = Some s' -> reach s s'.
Proof.
  intros Hk. unfold take_flag. destruct (find_item s _) as [ix|] eqn:Hf; [|discriminate].
  intros H; inv H. apply find_item_some in Hf.
  destruct Hf as (Hin & a & st & Ha & Hs & Hp & Hm).
  apply reach_sremove; [exact Hk|]. intros a' Ha'. rewrite Ha in Ha'. inv Ha'. exact Hm.
Qed.

Lemma matches_arg_weaken n adj a : matches_arg n adj a = true -> matches_arg n false a = true.
Proof.
  destruct a; cbn; try discriminate; intros H; apply andb_prop in H; destruct H as [H _];
    rewrite H; reflexivity.
Qed.

Lemma take_arg_reach n adj s w s' :
  K (KArgKey n) -> K (KArgVal n) -> take_arg n adj s = TASome w s' -> reach s s'.
Proof.
  intros Hk1 Hk2. unfold take_arg. destruct (find_item s _) as [key|] eqn:Hf; [|discriminate].
  apply find_item_some in Hf. destruct Hf as (Hin & a & st & Ha & Hs & Hp & Hm).
  destruct (get s (S key)) as [va|] eqn:Hg; [|discriminate].
  apply get_some in Hg. destruct Hg as (Hvin & Hva & vst & Hvs & Hvp).
  assert (Hgo : (exists wv, va = Word wv \/ va = ArgWord wv) ->
                reach s (sremove (KArgVal n) (S key) (sremove (KArgKey n) key s))).
  { intros [wv Hw]. eapply reach_trans.
    - apply reach_sremove; [exact Hk1|]. intros a' Ha'. rewrite Ha in Ha'. inv Ha'.
      cbn. eapply matches_arg_weaken; eauto.
    - apply reach_sremove; [exact Hk2|]. intros a' Ha'. rewrite sremove_items in Ha'.
      rewrite Hva in Ha'. inv Ha'. destruct Hw; subst; reflexivity. }
  destruct va; try discriminate; intros H; inv H; apply Hgo; eauto.
Qed.

Lemma take_positional_reach s ix strict w s' :
  K KPos -> take_positional_word s = Some (ix, strict, w, s') -> reach s s'.
Proof.
  intros Hk. unfold take_positional_word. destruct (find_item s _) as [i|] eqn:Hf; [|discriminate].
  apply find_item_some in Hf. destruct Hf as (Hin & a & st & Ha & Hs & Hp & Hm).
  rewrite Ha. destruct a; try discriminate; intros H; inv H;
    (apply reach_sremove; [exact Hk|]; intros a' Ha'; rewrite Ha in Ha'; inv Ha'; reflexivity).
Qed.

Lemma take_cmd_reach word s : K (KCmd word) -> reach s (snd (take_cmd word s)).
Proof.
  intros Hk. unfold take_cmd. unfold first_item_ix.
  destruct (find_item s _) as [ix|] eqn:Hf; cbn; [|apply reach_current].
  apply find_item_some in Hf. destruct Hf as (Hin & a & st & Ha & Hs & Hp & _).
  rewrite Ha.
  assert (Hgo : forall w, (beqb w word = true -> accepts (KCmd word) a = true) ->
                          reach s (snd (if beqb w word
                                        then (true, set_current (sremove (KCmd word) ix s) (Some ix))
                                        else (false, set_current s None)))).
  { intros w Hacc. destruct (beqb w word) eqn:Hb; cbn; [|apply reach_current].
    eapply reach_trans; [|apply reach_current].
    apply reach_sremove; [exact Hk|]. intros a' Ha'. rewrite Ha in Ha'. inv Ha'. auto. }
  destruct a as [c adj w|nm adj w|w|w|w]; cbn; try apply reach_current.
  - apply Hgo. intros Hb. cbn. exact Hb.
  - destruct adj; cbn; try apply reach_current. apply Hgo. intros Hb. cbn. exact Hb.
  - apply Hgo. intros Hb. cbn. exact Hb.
Qed.

Lemma take_cmd_any_reach names s :
  (forall w, In w names -> K (KCmd w)) -> reach s (snd (take_cmd_any names s)).
Proof.
  revert s. induction names as [|n t IH]; intros s Hk; cbn; [constructor|].
  pose proof (take_cmd_reach n s (Hk n (or_introl eq_refl))) as H1.
  destruct (take_cmd n s) as [b s1]. cbn in H1.
  destruct b; cbn; [exact H1|].
  eapply reach_trans; [exact H1|apply IH]. intros w Hw. apply Hk. right. exact Hw.
Qed.

Lemma save_conflicts_reach s loser win : win < length (ist s) -> reach s (save_conflicts s loser win).
Proof.
  intros Hw. apply reach_one. unfold save_conflicts. apply StMarks.
  - apply save_conflicts_go_length.
  - intros i. apply save_conflicts_go_present.
  - intros i w H. apply save_conflicts_go_conflict in H. destruct H as [->|H]; [left|right; exact H].
    rewrite save_conflicts_go_length. exact Hw.
Qed.

(* ------------------------------------------------------------------ evaluators *)
Definition ev_reach (ev : evaluator) : Prop := forall s, reach s (snd (ev s)).
Definition run_reach (run : state -> sres * state) : Prop := forall s, reach s (snd (run s)).

Section WithEnv.
Variable env : bytes -> option bytes.

Lemma eval_flag_reach n p a : K (KFlag n) -> ev_reach (eval_flag env n p a).
Proof.
  intros Hk s. unfold eval_flag.
  destruct (take_flag n s) as [s'|] eqn:Ht; cbn.
  - eapply take_flag_reach; eauto.
  - repeat (case_goal; cbn; try constructor).
Qed.

Lemma convert_res_snd ty w s : snd (convert_res ty w s) = s.
Proof. unfold convert_res. destruct (convert ty w); reflexivity. Qed.

Lemma eval_arg_reach n mv ty adj :
  K (KArgKey n) -> K (KArgVal n) -> ev_reach (eval_arg env n mv ty adj).
Proof.
  intros Hk1 Hk2 s. unfold eval_arg.
  destruct (take_arg n adj s) as [|k|w s'] eqn:Ht.
  - repeat (case_goal; cbn; try rewrite convert_res_snd; try apply reach_current; try constructor).
  - cbn. constructor.
  - rewrite convert_res_snd. eapply take_arg_reach; eauto.
Qed.

Lemma eval_pos_reach mv ty pos help : K KPos -> ev_reach (eval_pos mv ty pos help).
Proof.
  intros Hk s. unfold eval_pos.
  destruct (take_positional_word s) as [[[[ix st] w] s']|] eqn:Ht; [|cbn; constructor].
  apply take_positional_reach in Ht; [|exact Hk].
  destruct pos, st; cbn; try rewrite convert_res_snd; exact Ht.
Qed.

Lemma eval_any_reach mv help check anywhere : K KAny -> ev_reach (eval_any mv help check anywhere).
Proof.
  intros Hk s. unfold eval_any.
  match goal with |- context [match ?f with Some _ => _ | None => _ end] =>
                  destruct f as [ix|] eqn:Hfound end; [|cbn; constructor].
  destruct (nth_error (items s) ix) as [a|] eqn:Ha; [|cbn; constructor].
  destruct (check (arg_os a)) as [v|] eqn:Hc; [|cbn; constructor].
  cbn [snd].
  assert (H1 : reach s (sremove KAny ix s)) by (apply reach_sremove; auto).
  match goal with |- context [if ?b then _ else _] => destruct b end; [|exact H1].
  eapply reach_trans; [exact H1|]. apply reach_sremove; auto.
Qed.

(* ---- wrappers *)
Lemma parse_option_reach ev len s catch :
  ev_reach ev -> reach s (snd (parse_option ev len s catch)).
Proof.
  intros Hev. unfold parse_option. specialize (Hev s).
  destruct (ev s) as [r s']. cbn in Hev.
  destruct r; cbn; repeat (case_goal; cbn); auto using reach_refl.
Qed.

Lemma many_loop_reach ev catch fuel len s acc :
  ev_reach ev -> reach s (snd (many_loop ev catch fuel len s acc)).
Proof.
  intros Hev. revert len s acc. induction fuel as [|f IH]; intros len s acc; cbn; [constructor|].
  pose proof (parse_option_reach ev len s catch Hev) as Hp.
  destruct (parse_option ev len s catch) as [[o len'] s']. cbn in Hp.
  destruct o; cbn; auto.
  eapply reach_trans; [exact Hp|apply IH].
Qed.

Lemma count_loop_reach ev fuel len s cur n last :
  ev_reach ev -> reach s (snd (count_loop ev fuel len s cur n last)).
Proof.
  intros Hev. revert len s cur n last.
  induction fuel as [|f IH]; intros len s cur n last; cbn; [constructor|].
  pose proof (parse_option_reach ev len s false Hev) as Hp.
  destruct (parse_option ev len s false) as [[o len'] s']. cbn in Hp.
  destruct o; cbn; auto.
  destruct (Nat.eqb cur (remaining s')); cbn; [exact Hp|].
  eapply reach_trans; [exact Hp|apply IH].
Qed.

Lemma optional_reach ev c : ev_reach ev -> ev_reach (optional_body ev c).
Proof.
  intros Hev s. unfold optional_body.
  pose proof (parse_option_reach ev None s c Hev) as Hp.
  destruct (parse_option ev None s c) as [[o len'] s']. destruct o; exact Hp.
Qed.

Lemma many_reach ev c : ev_reach ev -> ev_reach (many_body ev c).
Proof.
  intros Hev s. unfold many_body.
  pose proof (many_loop_reach ev c (loop_fuel s) None s [] Hev) as Hp.
  destruct (many_loop ev c (loop_fuel s) None s []) as [[r acc] s']. destruct r; exact Hp.
Qed.

Lemma some_reach ev m c : ev_reach ev -> ev_reach (some_body ev m c).
Proof.
  intros Hev s. unfold some_body.
  pose proof (many_loop_reach ev c (loop_fuel s) None s [] Hev) as Hp.
  destruct (many_loop ev c (loop_fuel s) None s []) as [[r acc] s'].
  destruct r; try exact Hp. destruct acc; exact Hp.
Qed.

Lemma count_reach ev : ev_reach ev -> ev_reach (count_body ev).
Proof.
  intros Hev s. unfold count_body.
  pose proof (count_loop_reach ev (loop_fuel s) None s (remaining s) O None Hev) as Hp.
  destruct (count_loop ev (loop_fuel s) None s (remaining s) O None) as [[[r n] l] s'].
  destruct r; exact Hp.
Qed.

Lemma last_reach ev : ev_reach ev -> ev_reach (last_body ev).
Proof.
  intros Hev s. unfold last_body.
  pose proof (count_loop_reach ev (loop_fuel s) None s (remaining s) O None Hev) as Hp.
  destruct (count_loop ev (loop_fuel s) None s (remaining s) O None) as [[[r n] l] s'].
  cbn in Hp. destruct r; try exact Hp. destruct l; [exact Hp|].
  eapply reach_trans; [exact Hp|apply Hev].
Qed.

Lemma fallback_with_reach ev fb : ev_reach ev -> ev_reach (fallback_with_body ev fb).
Proof.
  intros Hev s. unfold fallback_with_body. specialize (Hev s).
  destruct (ev s) as [r s']. cbn in Hev.
  destruct r; cbn; auto. destruct (can_catch m); [destruct fb|]; cbn; constructor.
Qed.

Lemma guard_reach ev c m : ev_reach ev -> ev_reach (guard_body ev c m).
Proof.
  intros Hev s. unfold guard_body. specialize (Hev s).
  destruct (ev s) as [r s']. cbn in Hev. destruct r; cbn; auto. destruct (c v); exact Hev.
Qed.

Lemma parse_reach ev f : ev_reach ev -> ev_reach (parse_body ev f).
Proof.
  intros Hev s. unfold parse_body. specialize (Hev s).
  destruct (ev s) as [r s']. cbn in Hev. destruct r; cbn; auto. destruct (f v); exact Hev.
Qed.

Lemma map_reach ev f : ev_reach ev -> ev_reach (map_body ev f).
Proof.
  intros Hev s. unfold map_body. specialize (Hev s).
  destruct (ev s) as [r s']. cbn in Hev. destruct r; cbn; auto.
Qed.

Lemma hide_reach ev : ev_reach ev -> ev_reach (hide_body ev).
Proof.
  intros Hev s. unfold hide_body. specialize (Hev s).
  destruct (ev s) as [r s']. cbn in Hev. destruct r; cbn; auto. destruct m; exact Hev.
Qed.

Lemma this_or_that_reach ra rb s sa sb :
  reach s sa -> reach s sb -> reach s (snd (this_or_that ra rb s sa sb)).
Proof.
  intros Ha Hb. unfold this_or_that.
  destruct (Nat.compare (depth sa) (depth sb)); cbn; auto.
  destruct ra, rb; cbn; auto using reach_refl.
  all: match goal with |- context [let '(_, _) := ?x in _] => destruct x as [pick ix] eqn:Epw end.
  all: destruct pick, ix; cbn; auto; (eapply reach_trans; [|apply save_conflicts_reach]); auto.
  all: match type of Epw with
       | (if ?c then _ else _) = _ => destruct c; [discriminate Epw|]; apply pick_winner_lt in Epw; tauto
       end.
Qed.

Lemma or_reach eva evb : ev_reach eva -> ev_reach evb -> ev_reach (or_body eva evb).
Proof.
  intros Ha Hb s. unfold or_body. specialize (Ha s). specialize (Hb s).
  destruct (eva s) as [ra sa]. destruct (evb s) as [rb sb]. cbn in Ha, Hb.
  pose proof (this_or_that_reach ra rb s sa sb Ha Hb) as Ht.
  destruct ra; cbn; auto; destruct rb; cbn; auto;
    destruct (this_or_that _ _ s sa sb) as [[[|]|e] s']; cbn in *; exact Ht.
Qed.

Lemma con_go_reach ff evs s first acc err :
  Forall ev_reach evs -> reach s (snd (con_go ff evs s first acc err)).
Proof.
  intros Hall. revert s first acc err.
  induction Hall as [|ev evs Hev Hall IH]; intros s first acc err; cbn.
  - destruct err; cbn; [constructor|apply reach_current].
  - specialize (Hev s). destruct (ev s) as [r s']. cbn in Hev.
    destruct r; cbn; auto.
    + eapply reach_trans; [exact Hev|apply IH].
    + destruct (ff && first); cbn; [exact Hev|].
      eapply reach_trans; [exact Hev|apply IH].
Qed.

Lemma con_reach ff evs : Forall ev_reach evs -> ev_reach (con_body ff evs).
Proof.
  intros Hall s. unfold con_body, con_reset.
  pose proof (con_go_reach ff evs s true [] None Hall) as H.
  destruct (con_go ff evs s true [] None) as [r s']. cbn in *.
  eapply reach_trans; [exact H|apply reach_current].
Qed.

(* ---- adjacent groups *)
Definition adj_step_reach (s0 : state) (st : adj_step) : Prop :=
  match st with
  | AReturn _ s | AStop _ s => reach s0 s
  | ANext b => reach s0 (b_args b)
  end.

Lemma adj_inner_reach ev s0 orig before fuel this_arg best :
  ev_reach ev -> reach s0 orig -> reach s0 this_arg -> reach s0 (b_args best) ->
  adj_step_reach s0 (adj_inner ev orig before fuel this_arg best).
Proof.
  intros Hev Ho. revert this_arg best.
  induction fuel as [|f IH]; intros this_arg best Ht Hb; [exact Ht|].
  rewrite adj_inner_S. pose proof (Hev this_arg) as He. destruct (ev this_arg) as [r ta]. cbn in He.
  assert (Hta : reach s0 ta) by rtrans.
  destruct r; cbn; auto.
  - destruct (adjacent_scope ta orig) as [| |a b]; cbn; auto.
    + destruct (set_scope ta (sc_start orig) (sc_end orig)) as [fin|] eqn:Hs; cbn; auto.
      eapply reach_trans; [exact Hta|eapply reach_scope; eauto].
    + destruct (set_scope orig a b) as [ta'|] eqn:Hs; cbn; auto.
      apply IH; auto. eapply reach_trans; [exact Ho|eapply reach_scope; eauto].
  - destruct (Nat.ltb before (remaining ta)); cbn; auto.
    destruct (Nat.ltb (b_consumed best) (before - remaining ta)); cbn; auto.
Qed.

Lemma adj_try_reach ev s0 orig width start best :
  ev_reach ev -> reach s0 orig -> reach s0 (b_args best) ->
  adj_step_reach s0 (adj_try ev orig width start best).
Proof.
  intros Hev Ho Hb. unfold adj_try.
  destruct (set_scope orig start (length (items orig))) as [ta0|] eqn:H0; cbn; auto.
  assert (R0 : reach s0 ta0) by (eapply reach_trans; [exact Ho|eapply reach_scope; eauto]).
  destruct (set_scope ta0 start (start + width)) as [scratch|] eqn:H1; cbn; auto.
  assert (R1 : reach s0 scratch) by (eapply reach_trans; [exact R0|eapply reach_scope; eauto]).
  destruct (Nat.eqb (remaining scratch) 0); cbn; auto.
  pose proof (Hev scratch) as He. destruct (ev scratch) as [r0 scratch']. cbn in He.
  assert (R2 : reach s0 scratch') by rtrans.
  assert (Hmain :
    adj_step_reach s0
      (if Nat.eqb (remaining scratch) (remaining scratch') then ANext best
       else match set_scope ta0 start (sc_end orig) with
            | None => AStop (RPanic P_set_scope) orig
            | Some this_arg1 =>
              match (if Nat.ltb (remaining this_arg1) (sc_end orig - start)
                     then let '(a, b) := adjacently_available_from this_arg1 start in
                          set_scope this_arg1 a b
                     else Some this_arg1) with
              | None => AStop (RPanic P_set_scope) orig
              | Some this_arg2 =>
                adj_inner ev orig (remaining this_arg1) (loop_fuel orig) this_arg2 best
              end
            end)).
  { destruct (Nat.eqb (remaining scratch) (remaining scratch')); cbn; auto.
    destruct (set_scope ta0 start (sc_end orig)) as [ta1|] eqn:H2; cbn; auto.
    assert (R3 : reach s0 ta1) by (eapply reach_trans; [exact R0|eapply reach_scope; eauto]).
    destruct (Nat.ltb (remaining ta1) (sc_end orig - start)).
    - destruct (adjacently_available_from ta1 start) as [a b].
      destruct (set_scope ta1 a b) as [ta2|] eqn:H3; cbn; auto.
      apply adj_inner_reach; auto.
      eapply reach_trans; [exact R3|eapply reach_scope; eauto].
    - apply adj_inner_reach; auto. }
  destruct r0; cbn; auto.
Qed.

Lemma adj_outer_reach ev s0 orig width starts best :
  ev_reach ev -> reach s0 orig -> reach s0 (b_args best) ->
  reach s0 (snd (adj_outer ev orig width starts best)).
Proof.
  intros Hev Ho. revert best. induction starts as [|st0 more IH]; intros best Hb; cbn [adj_outer].
  - destruct (set_scope (b_args best) (sc_start orig) (sc_end orig)) as [fin|] eqn:E; cbn [snd]; [|exact Ho].
    eapply reach_trans; [exact Hb|eapply reach_scope; eauto].
  - pose proof (adj_try_reach ev s0 orig width st0 best Hev Ho Hb) as Ht.
    destruct (adj_try ev orig width st0 best); cbn in *; auto.
Qed.

Lemma adjacent_reach ev fi : ev_reach ev -> ev_reach (eval_adjacent ev fi).
Proof.
  intros Hev s. unfold eval_adjacent. destruct fi as [it|]; cbn; [|constructor].
  apply adj_outer_reach; auto using reach_refl.
Qed.

(* ---- commands and run_subparser *)
Lemma cmd_reach name aliases shorts help adjacent m_sub i_sub run :
  (forall w, In w ((name :: aliases) ++ map utf8_encode_char shorts) -> K (KCmd w)) ->
  run_reach run ->
  ev_reach (cmd_body name aliases shorts help adjacent m_sub i_sub run).
Proof.
  intros Hk Hrun s. unfold cmd_body.
  pose proof (take_cmd_any_reach _ s Hk) as H1.
  destruct (take_cmd_any _ s) as [hit s1]. cbn in H1.
  destruct hit; cbn; [|exact H1].
  destruct (current s1) as [cur|]; cbn; [|exact H1].
  destruct (set_scope s1 cur (sc_end s1)) as [s2|] eqn:H2; cbn; [|exact H1].
  assert (R2 : reach s s2) by (eapply reach_trans; [exact H1|eapply reach_scope; eauto]).
  set (s3 := set_path s2 (path s2 ++ [name])).
  assert (R3 : reach s s3) by (eapply reach_trans; [exact R2|apply reach_path]).
  destruct adjacent.
  - match goal with |- context [adjacently_available_from ?x ?y] =>
      destruct (adjacently_available_from x y) as [a b] end.
    destruct (set_scope s3 a b) as [s4|] eqn:H4; cbn; [|exact R3].
    assert (R4 : reach s s4) by (eapply reach_trans; [exact R3|eapply reach_scope; eauto]).
    pose proof (Hrun s4) as H5. destruct (run s4) as [r s5]. cbn in H5.
    assert (R5 : reach s s5) by rtrans.
    destruct r as [v|f|w|]; cbn; auto.
    + match goal with |- context [set_scope s5 ?x ?y] =>
        destruct (set_scope s5 x y) as [s6|] eqn:H6 end; cbn; auto.
      eapply reach_trans; [exact R5|eapply reach_scope; eauto].
    + destruct (adjacent_scope s5 s3) as [| |na nb]; cbn; auto.
      destruct (set_scope s3 na nb) as [o1|] eqn:H7; cbn; auto.
      assert (R7 : reach s o1) by (eapply reach_trans; [exact R3|eapply reach_scope; eauto]).
      pose proof (Hrun o1) as H8. destruct (run o1) as [r2 o2]. cbn in H8.
      assert (R8 : reach s o2) by rtrans.
      destruct r2; cbn; auto.
      match goal with |- context [set_scope o2 ?x ?y] =>
        destruct (set_scope o2 x y) as [o3|] eqn:H9 end; cbn; auto.
      eapply reach_trans; [exact R8|eapply reach_scope; eauto].
  - pose proof (Hrun s3) as H4. destruct (run s3) as [r s4]. cbn in H4.
    assert (R4 : reach s s4) by rtrans.
    destruct r; cbn; auto.
Qed.

Lemma info_eval_reach i s :
  K (KFlag (i_help_arg i)) -> K (KFlag (i_version_arg i)) -> reach s (snd (info_eval env i s)).
Proof.
  intros Hh Hv. unfold info_eval.
  pose proof (eval_flag_reach (i_help_arg i) VUnit None Hh) as Eh.
  pose proof (eval_flag_reach (i_version_arg i) VUnit None Hv) as Ev.
  pose proof (Eh s) as H1. destruct (eval_flag env (i_help_arg i) VUnit None s) as [r1 s1]. cbn in H1.
  assert (Hver : reach s (snd (match i_version i with
                               | Some v => match eval_flag env (i_version_arg i) VUnit None s1 with
                                           | (ROk _, s2) => (Some (ExVersion v), s2)
                                           | (_, s2) => (None, s2)
                                           end
                               | None => (None, s1)
                               end))).
  { destruct (i_version i); cbn; auto.
    pose proof (Ev s1) as H2. destruct (eval_flag env (i_version_arg i) VUnit None s1) as [r2 s2].
    cbn in H2. assert (reach s s2) by rtrans. destruct r2; cbn; auto. }
  destruct r1; try exact Hver.
  pose proof (Eh s1) as H2. destruct (eval_flag env (i_help_arg i) VUnit None s1) as [r2 s2].
  cbn in H2. assert (reach s s2) by rtrans. destruct r2; cbn; auto.
Qed.

Lemma run_sub_body_reach inf m s res :
  K (KFlag (i_help_arg inf)) -> K (KFlag (i_version_arg inf)) ->
  reach s (snd res) -> reach s (snd (run_sub_body env inf m s res)).
Proof.
  intros Hh Hv Hr. unfold run_sub_body. destruct res as [r s1]. cbn in Hr.
  assert (Hfin : forall err,
             reach s (snd (match info_eval env inf s1 with
                           | (Some (ExHelp detailed), s2) =>
                             if invariant_ok m
                             then (SFail (FStdout (HHelp (path s2) inf m detailed)), s2)
                             else (SPanic P_invariant, s2)
                           | (Some (ExVersion v), s2) => (SFail (FStdout (HVersion v)), s2)
                           | (None, s2) => (SFail (FStderr err (Message.render_message err s2 m)), s2)
                           end))).
  { intros err. pose proof (info_eval_reach inf s1 Hh Hv) as Hi.
    destruct (info_eval env inf s1) as [ex s2]. cbn in Hi.
    assert (reach s s2) by rtrans.
    destruct ex as [[d|v]|]; cbn; auto. destruct (invariant_ok m); cbn; auto. }
  destruct r as [v|e|w|]; cbn; auto.
  - destruct (first_item_ix s1); cbn; auto.
  - match goal with |- context [if ?c then _ else _] => destruct c end.
    + destruct (invariant_ok m); cbn; auto.
    + destruct e; cbn; auto.
Qed.

End WithEnv.
End Reach.

(* ------------------------------------------------------------------ which consumers a parser has *)
Fixpoint kinds_ok (K : ckind -> Prop) (p : parser) {struct p} : Prop :=
  match p with
  | PFlag n _ _ => K (KFlag n)
  | PArg n _ _ _ => K (KArgKey n) /\ K (KArgVal n)
  | PPos _ _ _ _ => K KPos
  | PAny _ _ _ _ => K KAny
  | PCmd name aliases shorts _ _ sub =>
    (forall w, In w ((name :: aliases) ++ map utf8_encode_char shorts) -> K (KCmd w)) /\
    okinds_ok K sub
  | PCon fields | PAdj fields => lkinds_ok K fields
  | POr a b => kinds_ok K a /\ kinds_ok K b
  | POptional q _ | PMany q _ | PSome q _ _ | PCollect q _ | PCount q | PLast q
  | PFallback q _ _ | PFallbackWith q _ _ | PGuard q _ _ | PParse q _ | PMap q _
  | PHide q | PUsage q _ | PGroupHelp q _ | PBoxed q => kinds_ok K q
  | PPure _ | PPureWith _ | PFail _ => True
  end
with lkinds_ok (K : ckind -> Prop) (ps : plist) {struct ps} : Prop :=
  match ps with
  | PNil => True
  | PCons q t => kinds_ok K q /\ lkinds_ok K t
  end
with okinds_ok (K : ckind -> Prop) (o : oparser) {struct o} : Prop :=
  match o with
  | Options q inf => K (KFlag (i_help_arg inf)) /\ K (KFlag (i_version_arg inf)) /\ kinds_ok K q
  end.

Scheme parser_mut := Induction for parser Sort Prop
  with plist_mut := Induction for plist Sort Prop
  with oparser_mut := Induction for oparser Sort Prop.
Combined Scheme parser_plist_oparser_ind from parser_mut, plist_mut, oparser_mut.

Theorem eval_reach_all K env :
  (forall p, kinds_ok K p -> ev_reach K (eval env p)) /\
  (forall ps, lkinds_ok K ps -> Forall (ev_reach K) (evals env ps)) /\
  (forall o, okinds_ok K o -> run_reach K (run_sub env o)).
Proof.
  apply parser_plist_oparser_ind; intros; cbn [kinds_ok lkinds_ok okinds_ok] in *;
    try (intros s; autorewrite with evaleq).
  - apply eval_flag_reach; auto.
  - apply eval_arg_reach; tauto.
  - apply eval_pos_reach; auto.
  - apply eval_any_reach; auto.
  - apply cmd_reach; [tauto|]. apply H. tauto.
  - (* PCon *) destruct fields as [|q1 [|q2 t]].
    + rewrite eval_PCon_nil. cbn. apply reach_current.
    + rewrite eval_PCon_one. specialize (H H0). rewrite evals_cons in H. inv H. auto.
    + rewrite eval_PCon_many. apply con_reach; auto.
  - apply adjacent_reach. apply con_reach; auto.
  - apply or_reach; [apply H|apply H0]; tauto.
  - apply optional_reach; auto.
  - apply many_reach; auto.
  - apply some_reach; auto.
  - apply many_reach; auto.
  - apply count_reach; auto.
  - apply last_reach; auto.
  - apply fallback_with_reach; auto.
  - apply fallback_with_reach; auto.
  - apply guard_reach; auto.
  - apply parse_reach; auto.
  - apply map_reach; auto.
  - apply hide_reach; auto.
  - apply H; auto.
  - apply H; auto.
  - cbn. apply reach_current.
  - destruct r; cbn; constructor.
  - cbn. apply reach_current.
  - apply H; auto.
  - rewrite evals_nil. constructor.
  - rewrite evals_cons. constructor; [apply H|apply H0]; tauto.
  - rewrite run_sub_eq. apply run_sub_body_reach; try tauto. apply H. tauto.
Qed.

Definition eval_reach K env := proj1 (eval_reach_all K env).
Definition run_sub_reach K env := proj2 (proj2 (eval_reach_all K env)).
