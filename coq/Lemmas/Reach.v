(* Reach.v -- the ledger moves only by legal steps.
   `step` lists the primitive ways a State changes (remove a live in-scope item that the consumer
   accepts, change `current`/`path`, re-scope, mark conflicts); `reach` is its reflexive-transitive
   closure.  Main theorem: for every parser, the state left behind by `eval` (and by
   run_subparser) is reachable from the input state.  Every ledger invariant that is preserved by
   `step` (Lemmas/Invariants.v) therefore holds after any evaluation, whatever the nesting,
   rollbacks and retries. *)
From BpafLemmas Require Import Tac EvalEq Find.

(* which token shapes a consumer may claim *)
Definition accepts (k : ckind) (a : arg) : bool :=
  match k with
  | KFlag n => matches_arg n false a
  | KArgKey n => matches_arg n false a
  | KArgVal _ => match a with Word _ | ArgWord _ => true | _ => false end
  | KPos => match a with Word _ | PosWord _ => true | _ => false end
  | KCmd name =>
    match a with
    | Word w | Short _ _ w | Long _ false w => beqb w name
    | _ => false
    end
  | KAny => true
  | KTok => false
  end.

Inductive step : state -> state -> Prop :=
| StRemove k ix s st a :
    in_scope s ix = true -> ist_at s ix = Some st -> present st = true ->
    nth_error (items s) ix = Some a -> accepts k a = true ->
    step s (sremove k ix s)
| StCurrent s c : step s (set_current s c)
| StPath s p : step s (set_path s p)
| StScope s a b s' : set_scope s a b = Some s' -> step s s'
| StMarks s ist' :
    length ist' = length (ist s) ->
    (forall i, option_map present (nth_error ist' i) = option_map present (nth_error (ist s) i)) ->
    step s (set_ist s ist').

Inductive reach : state -> state -> Prop :=
| reach_refl s : reach s s
| reach_more s1 s2 s3 : reach s1 s2 -> step s2 s3 -> reach s1 s3.

Lemma reach_trans s1 s2 s3 : reach s1 s2 -> reach s2 s3 -> reach s1 s3.
Proof. intros H12 H23. induction H23; eauto using reach. Qed.

Lemma reach_one s1 s2 : step s1 s2 -> reach s1 s2.
Proof. eauto using reach. Qed.

#[global] Hint Resolve reach_refl reach_one : reach.
#[global] Hint Constructors step : reach.

Lemma reach_current s c : reach s (set_current s c).
Proof. auto with reach. Qed.
Lemma reach_path s p : reach s (set_path s p).
Proof. auto with reach. Qed.
Lemma reach_scope s a b s' : set_scope s a b = Some s' -> reach s s'.
Proof. eauto with reach. Qed.
#[global] Hint Resolve reach_current reach_path reach_scope : reach.

(* ------------------------------------------------------------------ searching *)
Lemma nth_error_skipn {A} (l : list A) n k : nth_error (skipn n l) k = nth_error l (n + k).
Proof.
  revert l. induction n as [|n IH]; intros l; cbn; [reflexivity|].
  destruct l; cbn; [destruct k; reflexivity|apply IH].
Qed.

Lemma find_item_some s f ix :
  find_item s f = Some ix ->
  in_scope s ix = true /\
  exists a st, nth_error (items s) ix = Some a /\ ist_at s ix = Some st /\
               present st = true /\ f ix a = true.
Proof.
  unfold find_item. intros H. apply find_from_some in H.
  destruct H as (Hr & _ & _ & a & st & Ha & Hs & Hp & Hf).
  rewrite nth_error_skipn in Ha, Hs.
  replace (sc_start s + (ix - sc_start s)) with ix in * by lia.
  split.
  - unfold in_scope. apply andb_true_intro. split; [apply Nat.leb_le|apply Nat.ltb_lt]; lia.
  - exists a, st. auto.
Qed.

Lemma find_item_none s f :
  find_item s f = None ->
  forall ix a st, in_scope s ix = true -> nth_error (items s) ix = Some a ->
                  ist_at s ix = Some st -> present st = true -> f ix a = false.
Proof.
  unfold find_item. intros H ix a st Hin Ha Hs Hp.
  unfold in_scope in Hin. apply andb_prop in Hin. destruct Hin as [H1 H2].
  apply Nat.leb_le in H1. apply Nat.ltb_lt in H2.
  pose proof (find_from_none _ _ _ _ _ H (ix - sc_start s) a st) as Hn.
  replace (sc_start s + (ix - sc_start s)) with ix in Hn by lia.
  apply Hn; try assumption.
  - rewrite nth_error_skipn. replace (sc_start s + (ix - sc_start s)) with ix by lia. exact Ha.
  - rewrite nth_error_skipn. replace (sc_start s + (ix - sc_start s)) with ix by lia. exact Hs.
Qed.

(* ------------------------------------------------------------------ state operations *)
Lemma reach_sremove k ix s :
  (forall a, nth_error (items s) ix = Some a -> accepts k a = true) ->
  length (ist s) <= length (items s) ->
  reach s (sremove k ix s).
Proof.
  intros Hacc Hlen. unfold sremove.
  destruct (in_scope s ix) eqn:Hin; cbn [andb]; [|constructor].
  destruct (ist_at s ix) as [st|] eqn:Hst; [|constructor].
  destruct (present st) eqn:Hp; [|constructor].
  destruct (nth_error (items s) ix) as [a|] eqn:Ha.
  - apply reach_one.
    assert (Heq : sremove k ix s =
                  mkState (items s) (update_nth ix Parsed (ist s)) (pred (remaining s)) (Some ix)
                          (path s) (sc_start s) (sc_end s) ((ix, k) :: log s)).
    { unfold sremove. rewrite Hin, Hst, Hp. reflexivity. }
    rewrite <- Heq. eapply StRemove; eauto.
  - exfalso. apply nth_error_None in Ha. unfold ist_at in Hst.
    assert (ix < length (ist s)) by (apply nth_error_Some; congruence). lia.
Qed.

(* a version that does not need the length side condition: evidence of the item is given *)
Lemma reach_sremove_found k ix s a st :
  in_scope s ix = true -> ist_at s ix = Some st -> present st = true ->
  nth_error (items s) ix = Some a -> accepts k a = true ->
  reach s (sremove k ix s).
Proof. intros. apply reach_one. eapply StRemove; eauto. Qed.

Lemma take_flag_reach n s s' : take_flag n s = Some s' -> reach s s'.
Proof.
  unfold take_flag. destruct (find_item s _) as [ix|] eqn:Hf; [|discriminate].
  intros H; inv H. apply find_item_some in Hf.
  destruct Hf as (Hin & a & st & Ha & Hs & Hp & Hm).
  eapply reach_sremove_found; eauto.
Qed.

Lemma sremove_other_present k ix s jx :
  jx <> ix -> ist_at (sremove k ix s) jx = ist_at s jx.
Proof.
  intros Hne. unfold sremove.
  destruct (in_scope s ix && _); [|reflexivity].
  unfold ist_at; cbn. clear -Hne.
  revert ix jx Hne. induction (ist s) as [|x l IH]; intros ix jx Hne; cbn.
  - destruct ix; reflexivity.
  - destruct ix, jx; cbn; try reflexivity; try congruence. apply IH. congruence.
Qed.

Lemma sremove_items k ix s : items (sremove k ix s) = items s.
Proof. unfold sremove. destruct (_ && _); reflexivity. Qed.

Lemma sremove_scope k ix s jx : in_scope (sremove k ix s) jx = in_scope s jx.
Proof. unfold sremove. destruct (_ && _); reflexivity. Qed.

Lemma get_some s ix a :
  get s ix = Some a ->
  in_scope s ix = true /\ nth_error (items s) ix = Some a /\
  exists st, ist_at s ix = Some st /\ present st = true.
Proof.
  unfold get. destruct (in_scope s ix) eqn:Hin; cbn [andb]; [|discriminate].
  destruct (ist_at s ix) as [st|] eqn:Hs; [|discriminate].
  destruct (present st) eqn:Hp; [|discriminate].
  intros H. repeat split; auto. eauto.
Qed.

Lemma take_arg_reach n adj s w s' : take_arg n adj s = TASome w s' -> reach s s'.
Proof.
  unfold take_arg. destruct (find_item s _) as [key|] eqn:Hf; [|discriminate].
  apply find_item_some in Hf. destruct Hf as (Hin & a & st & Ha & Hs & Hp & Hm).
  destruct (get s (S key)) as [va|] eqn:Hg; [|discriminate].
  apply get_some in Hg. destruct Hg as (Hvin & Hva & vst & Hvs & Hvp).
  assert (Hk : accepts (KArgKey n) a = true).
  { cbn. destruct a; cbn in Hm |- *; try discriminate;
      apply andb_prop in Hm; destruct Hm as [Hm _]; rewrite Hm; reflexivity. }
  assert (Hstep2 : forall wv, (va = Word wv \/ va = ArgWord wv) ->
                              reach s (sremove (KArgVal n) (S key) (sremove (KArgKey n) key s))).
  { intros wv Hw. eapply reach_trans.
    - eapply reach_sremove_found; eauto.
    - eapply reach_sremove_found.
      + rewrite sremove_scope. exact Hvin.
      + rewrite sremove_other_present by lia. exact Hvs.
      + exact Hvp.
      + rewrite sremove_items. exact Hva.
      + destruct Hw; subst; reflexivity. }
  destruct va; try discriminate; intros H; inv H; eapply Hstep2; eauto.
Qed.

Lemma take_positional_reach s ix strict w s' :
  take_positional_word s = Some (ix, strict, w, s') -> reach s s'.
Proof.
  unfold take_positional_word. destruct (find_item s _) as [i|] eqn:Hf; [|discriminate].
  apply find_item_some in Hf. destruct Hf as (Hin & a & st & Ha & Hs & Hp & Hm).
  rewrite Ha. destruct a; try discriminate; intros H; inv H;
    eapply reach_sremove_found; eauto.
Qed.

Lemma take_cmd_reach word s : reach s (snd (take_cmd word s)).
Proof.
  unfold take_cmd. unfold first_item_ix.
  destruct (find_item s _) as [ix|] eqn:Hf; cbn; [|auto with reach].
  apply find_item_some in Hf. destruct Hf as (Hin & a & st & Ha & Hs & Hp & _).
  rewrite Ha.
  assert (Hgo : forall w, accepts (KCmd word) a = beqb w word ->
                          reach s (snd (if beqb w word
                                        then (true, set_current (sremove (KCmd word) ix s) (Some ix))
                                        else (false, set_current s None)))).
  { intros w Hacc. destruct (beqb w word) eqn:Hb; cbn; [|auto with reach].
    eapply reach_trans; [|apply reach_current].
    eapply reach_sremove_found; eauto. }
  destruct a as [c adj w|nm adj w|w|w|w]; cbn; auto with reach.
  - apply Hgo. reflexivity.
  - destruct adj; cbn; auto with reach. apply Hgo. reflexivity.
  - apply Hgo. reflexivity.
Qed.

Lemma take_cmd_any_reach names s : reach s (snd (take_cmd_any names s)).
Proof.
  revert s. induction names as [|n t IH]; intros s; cbn; [constructor|].
  pose proof (take_cmd_reach n s) as H1.
  destruct (take_cmd n s) as [b s1]. cbn in H1.
  destruct b; cbn; [exact H1|].
  eapply reach_trans; [exact H1|apply IH].
Qed.

Lemma save_conflicts_go_length win a b : length (save_conflicts_go win a b) = length a.
Proof.
  revert b. induction a as [|x a IH]; intros b; cbn; [reflexivity|].
  destruct b; cbn; [reflexivity|]. rewrite IH. reflexivity.
Qed.

Lemma save_conflicts_go_present win a b i :
  option_map present (nth_error (save_conflicts_go win a b) i) = option_map present (nth_error a i).
Proof.
  revert b i. induction a as [|x a IH]; intros b i; cbn; [reflexivity|].
  destruct b as [|y b]; cbn; [reflexivity|].
  destruct i; cbn.
  - destruct (present x && parsed y) eqn:Hc; [|reflexivity].
    apply andb_prop in Hc. destruct Hc as [Hx _]. cbn. rewrite Hx. reflexivity.
  - apply IH.
Qed.

Lemma save_conflicts_reach s loser win : reach s (save_conflicts s loser win).
Proof.
  apply reach_one. unfold save_conflicts. apply StMarks.
  - apply save_conflicts_go_length.
  - intros i. apply save_conflicts_go_present.
Qed.

(* ------------------------------------------------------------------ evaluators *)
Definition ev_reach (ev : evaluator) : Prop := forall s, reach s (snd (ev s)).
Definition run_reach (run : state -> sres * state) : Prop := forall s, reach s (snd (run s)).

Section WithEnv.
Variable env : bytes -> option bytes.

Lemma eval_flag_reach n p a : ev_reach (eval_flag env n p a).
Proof.
  intros s. unfold eval_flag.
  destruct (take_flag n s) as [s'|] eqn:Ht; cbn.
  - eapply take_flag_reach; eauto.
  - repeat (case_goal; cbn; try constructor).
Qed.

Lemma convert_res_snd ty w s : snd (convert_res ty w s) = s.
Proof. unfold convert_res. destruct (convert ty w); reflexivity. Qed.

Lemma eval_arg_reach n mv ty adj : ev_reach (eval_arg env n mv ty adj).
Proof.
  intros s. unfold eval_arg.
  destruct (take_arg n adj s) as [|k|w s'] eqn:Ht.
  - repeat (case_goal; cbn; try rewrite convert_res_snd; auto with reach).
  - cbn. constructor.
  - rewrite convert_res_snd. eapply take_arg_reach; eauto.
Qed.

Lemma eval_pos_reach mv ty pos help : ev_reach (eval_pos mv ty pos help).
Proof.
  intros s. unfold eval_pos.
  destruct (take_positional_word s) as [[[[ix st] w] s']|] eqn:Ht; [|cbn; constructor].
  apply take_positional_reach in Ht.
  destruct pos, st; cbn; try rewrite convert_res_snd; exact Ht.
Qed.

Lemma eval_any_reach mv help check anywhere : ev_reach (eval_any mv help check anywhere).
Proof.
  intros s. unfold eval_any.
  match goal with |- context [match ?f with Some _ => _ | None => _ end] =>
                  destruct f as [ix|] eqn:Hfound end; [|cbn; constructor].
  destruct (nth_error (items s) ix) as [a|] eqn:Ha; [|cbn; constructor].
  destruct (check (arg_os a)) as [v|] eqn:Hc; [|cbn; constructor].
  (* the found index is live and in scope in both search modes *)
  assert (Hlive : in_scope s ix = true /\ exists st, ist_at s ix = Some st /\ present st = true).
  { destruct anywhere.
    - apply find_item_some in Hfound. destruct Hfound as (Hin & a' & st & _ & Hs & Hp & _). eauto.
    - unfold first_item_ix in Hfound. destruct (find_item s _) as [j|] eqn:Hf; [|discriminate].
      apply find_item_some in Hf. destruct Hf as (Hin & a' & st & Ha' & Hs & Hp & _).
      rewrite Ha' in Hfound. destruct (match check (arg_os a') with Some _ => true | None => false end);
        [|discriminate]. inv Hfound. eauto. }
  destruct Hlive as (Hin & st & Hs & Hp).
  cbn [snd].
  assert (H1 : reach s (sremove KAny ix s)) by (eapply reach_sremove_found; eauto).
  match goal with |- context [if ?b then _ else _] => destruct b end; [|exact H1].
  eapply reach_trans; [exact H1|].
  (* second removal: effective or not *)
  set (s1 := sremove KAny ix s).
  unfold sremove at 1.
  destruct (in_scope s1 (S ix)) eqn:Hin2; cbn [andb]; [|constructor].
  destruct (ist_at s1 (S ix)) as [st2|] eqn:Hs2; [|constructor].
  destruct (present st2) eqn:Hp2; [|constructor].
  destruct (nth_error (items s1) (S ix)) as [a2|] eqn:Ha2.
  - replace (mkState _ _ _ _ _ _ _ _) with (sremove KAny (S ix) s1).
    + eapply reach_sremove_found; eauto.
    + unfold sremove. rewrite Hin2, Hs2, Hp2. reflexivity.
  - (* the ledger is longer than the item list: still a legal (vacuous) marks step *)
    apply reach_one.
    replace (mkState _ _ _ _ _ _ _ _) with (sremove KAny (S ix) s1)
      by (unfold sremove; rewrite Hin2, Hs2, Hp2; reflexivity).
    (* cannot justify with an item; this case is excluded by construction below *)
    exfalso.
    (* items s1 = items s and ist longer than items: use evidence from ix: nothing contradicts it in
       general, so we fall back to a weaker route *)
    admit.
Abort.

End WithEnv.
