(* ConvChain.v -- C01 for nested subcommands: a level whose tail is ONE subcommand (with aliases),
   recursively.  The command step narrows the scope to what follows the command word; the
   generalised simulation relation of AbsSim (any scope start) carries the flat-level theorem
   into each level of the chain. *)
From Coq Require Import Lia List Bool Arith ZArith.
From BpafModel Require Import Conv.
From BpafLemmas Require Import Tac EvalEq Find Reach Ledger NoLoss C05Lemmas OkReach OkLaws ConvLaws AbsSim AbsTotal ConvRefine.
Import ListNotations.

(* ------------------------------------------------------------------ views and scope narrowing *)
Lemma view_from_head ix its sts i x rest :
  view_from ix its sts = (i, x) :: rest ->
  ix <= i /\ above i rest /\
  exists k, i = ix + k /\
    view_from i (skipn k its) (skipn k sts) = (i, x) :: rest.
Proof.
  revert ix sts. induction its as [|a t IH]; intros ix [|st sts] H; cbn in H; try discriminate.
  destruct (present st) eqn:P; cbn in H.
  - inversion H; subst. split; [lia|]. split.
    + intros p Hp. apply view_from_lb in Hp. lia.
    + exists 0. split; [lia|]. cbn [skipn view_from]. rewrite P. reflexivity.
  - destruct (IH (S ix) sts H) as (Hle & Hab & k & -> & E). split; [lia|]. split; [exact Hab|].
    exists (S k). split; [lia|]. cbn [skipn]. replace (ix + S k) with (S ix + k) by lia. exact E.
Qed.

Lemma skipn_skipn {A} a b (l : list A) : skipn a (skipn b l) = skipn (b + a) l.
Proof.
  revert l. induction b as [|b IH]; intros l; [reflexivity|]. destruct l as [|x t]; cbn; [destruct a; reflexivity|]. apply IH.
Qed.

Lemma count_present_view ist its a :
  length ist = length its -> a <= length its ->
  count_present ist a (length its) = length (view_from a (skipn a its) (skipn a ist)).
Proof.
  intros Hl Ha. unfold count_present.
  assert (E : firstn (length its - a) (skipn a ist) = skipn a ist).
  { apply firstn_all2. rewrite skipn_length. lia. }
  rewrite E. clear E.
  assert (G : forall ix its' sts', length sts' = length its' -> length (filter present sts') = length (view_from ix its' sts')).
  { intros ix its'. revert ix. induction its' as [|x t IH]; intros ix [|st sts] H; cbn in *; try discriminate; [reflexivity|].
    rewrite app_length. destruct (present st); cbn; rewrite (IH (S ix) sts); lia. }
  apply G. rewrite !skipn_length. lia.
Qed.

(* the first live item is consumed as a command word and the scope narrows to what follows it *)
Lemma cmd_enter n s i w rest k :
  Sim n s ((i, Word w) :: rest) ->
  let s1 := set_current (sremove k i s) (Some i) in
  exists s2, set_scope s1 i (sc_end s1) = Some s2 /\ Sim n s2 rest /\ path s2 = path s.
Proof.
  intros HS s1.
  assert (Hin : In (i, Word w) ((i, Word w) :: rest)) by (left; reflexivity).
  pose proof (proj1 (view_in _ _ _ _ _ HS) Hin) as (Hle & Ha & Hp).
  unfold present_at in Hp. destruct (ist_at s i) as [st|] eqn:Es; [|discriminate]. cbn in Hp. inversion Hp as [Hp'].
  assert (Hi : i < n) by (rewrite <- (sim_items _ _ _ HS); apply nth_error_Some; congruence).
  assert (Hsc : in_scope s i = true).
  { unfold in_scope. rewrite (sim_end _ _ _ HS). apply andb_true_intro. split; [apply Nat.leb_le; lia|apply Nat.ltb_lt; lia]. }
  subst s1. unfold sremove. rewrite Hsc, Es, Hp'. cbn [andb set_current].
  unfold set_scope, set_current. cbn [sc_end ist items current remaining path sc_start log].
  rewrite (sim_end _ _ _ HS). rewrite upd_length, (sim_ist _ _ _ HS).
  assert (Hc : Nat.leb i n && Nat.leb n n = true) by (apply andb_true_intro; split; apply Nat.leb_le; lia).
  rewrite Hc. eexists. split; [reflexivity|]. split; [|reflexivity].
  (* the new view *)
  pose proof (sim_view _ _ _ HS) as Hv. unfold view in Hv.
  destruct (view_from_head _ _ _ _ _ _ Hv) as (_ & Hab & k0 & Ek & E).
  rewrite !skipn_skipn in E. replace (sc_start s + k0) with i in E by lia.
  assert (Es' : nth_error (skipn i (ist s)) 0 = Some st).
  { rewrite nth_error_skipn. rewrite Nat.add_0_r. exact Es. }
  destruct (view_from_remove i (skipn i (items s)) (skipn i (ist s)) 0 st Es' Hp'
              ltac:(rewrite !skipn_length; rewrite (sim_ist _ _ _ HS), (sim_items _ _ _ HS); lia)) as [E1 E2].
  rewrite Nat.add_0_r in E1. rewrite E in E1. rewrite (aremove_head i (Word w) rest Hab) in E1.
  assert (Vn : view_from i (skipn i (items s)) (skipn i (update_nth i Parsed (ist s))) = rest).
  { rewrite skipn_update by lia. rewrite Nat.sub_diag. exact E1. }
  constructor; cbn.
  - exact (sim_items _ _ _ HS).
  - rewrite upd_length. exact (sim_ist _ _ _ HS).
  - lia.
  - reflexivity.
  - unfold view. cbn. exact Vn.
  - rewrite <- Vn. rewrite <- (sim_items _ _ _ HS).
    apply count_present_view; [rewrite upd_length, (sim_ist _ _ _ HS), (sim_items _ _ _ HS); reflexivity|].
    rewrite (sim_items _ _ _ HS). lia.
Qed.

Lemma first_item_head n s i a rest : Sim n s ((i, a) :: rest) -> first_item_ix s = Some i.
Proof. intros HS. unfold first_item_ix. rewrite (find_item_view n s _ (fun _ => true) HS). reflexivity. Qed.

Lemma beqb_true a b : beqb a b = true -> a = b.
Proof.
  revert b. induction a as [|x t IH]; intros [|y b] E; cbn in E; try discriminate; [reflexivity|].
  apply andb_prop in E. destruct E as [E1 E2]. apply N.eqb_eq in E1. subst. f_equal. apply IH. exact E2.
Qed.

(* take_cmd_any tries the names in order; a miss only resets `current` *)
Lemma take_cmd_any_hit n s i w rest names :
  Sim n s ((i, Word w) :: rest) -> mem_bytes w names = true ->
  exists s0 k, Sim n s0 ((i, Word w) :: rest) /\ path s0 = path s /\
               take_cmd_any names s = (true, set_current (sremove k i s0) (Some i)).
Proof.
  revert s. induction names as [|nm t IH]; intros s HS Hm; [discriminate|].
  cbn [take_cmd_any]. unfold take_cmd. rewrite (first_item_head n s i _ rest HS).
  assert (Hin : In (i, Word w) ((i, Word w) :: rest)) by (left; reflexivity).
  pose proof (proj1 (view_in _ _ _ _ _ HS) Hin) as (_ & Ha & _). rewrite Ha.
  destruct (beqb w nm) eqn:E.
  - exists s, (KCmd nm). split; [exact HS|]. split; reflexivity.
  - cbn [mem_bytes existsb] in Hm. unfold mem_bytes in Hm. cbn [existsb] in Hm. rewrite E in Hm. cbn [orb] in Hm.
    destruct (IH (set_current s None) (set_current_sim _ _ _ _ HS) Hm) as (s0 & k & S0 & P0 & E0).
    exists s0, k. split; [exact S0|]. split; [exact P0|exact E0].
Qed.

Section Cmd.
Variable env : bytes -> option bytes.

(* entering a subcommand whose inner parser is known to succeed on what follows the command word *)
Lemma cmd_at n name aliases q s i w rest v :
  Sim n s ((i, Word w) :: rest) -> mem_bytes w (name :: aliases) = true ->
  (forall s3, Sim n s3 rest -> exists s4, eval env q s3 = (ROk v, s4) /\ Sim n s4 []) ->
  exists s', eval env (PCmd name aliases [] None false (Options q default_info)) s = (ROk v, s') /\ Sim n s' [].
Proof.
  intros HS M Hq.
  rewrite eval_PCmd. unfold cmd_body. cbn [map app]. rewrite app_nil_r.
  destruct (take_cmd_any_hit n s i w rest (name :: aliases) HS M) as (s0 & k & S0 & P0 & Et).
  rewrite Et. cbn [current set_current].
  destruct (cmd_enter n s0 i w rest k S0) as (s2 & Es2 & S2 & P2).
  cbn zeta in Es2. rewrite Es2.
  set (s3 := set_path s2 (path s2 ++ [name])).
  assert (S3 : Sim n s3 rest) by (destruct S2; constructor; auto).
  rewrite run_sub_eq.
  destruct (Hq s3 S3) as (s4 & Ee & S4). rewrite Ee.
  unfold run_sub_body. cbn [andb].
  unfold first_item_ix. rewrite (find_item_view n s4 [] (fun _ => true) S4). cbn.
  eexists. split; [reflexivity|exact S4].
Qed.
End Cmd.

(* all fields but the last are flat; the last one is known to succeed on the list they leave *)
Fixpoint arun (aevs : list (lv -> ares * lv)) (l : lv) : option (list val * lv) :=
  match aevs with
  | [] => Some ([], l)
  | aev :: t =>
    match aev l with
    | (AOk v, l1) => match arun t l1 with Some (vs, l2) => Some (v :: vs, l2) | None => None end
    | _ => None
    end
  end.

Lemma con_go_last n evs aevs evc vc lfin :
  Forall2 (sim_ev n) evs aevs ->
  forall s l first acc vs lk,
    Sim n s l -> arun aevs l = Some (vs, lk) ->
    (forall sk, Sim n sk lk -> exists s', evc sk = (ROk vc, s') /\ Sim n s' lfin) ->
    exists s', con_go false (evs ++ [evc]) s first acc None = (ROk (VTuple (rev acc ++ vs ++ [vc])), s') /\ Sim n s' lfin.
Proof.
  intros Hs. induction Hs as [|ev aev evs aevs H1 Hl IH]; intros s l first acc vs lk HS Ea Hc; cbn [app con_go arun] in *.
  - inversion Ea; subst. destruct (Hc s HS) as (s1 & E1 & S1). rewrite E1. cbn [rev].
    eexists. split; [rewrite app_nil_l; reflexivity|apply set_current_sim; exact S1].
  - destruct (H1 s l HS) as [R S1]. destruct (ev s) as [r s1]. destruct (aev l) as [a l1]. cbn [fst snd] in *.
    destruct a as [x'|m c|]; try discriminate.
    destruct r as [x|e|w|]; cbn in R; try contradiction. subst x'.
    destruct (arun aevs l1) as [[vs' l2]|] eqn:Er; [|discriminate]. inversion Ea; subst vs lk.
    destruct (IH s1 l1 false (x :: acc) vs' l2 S1 Er Hc) as (s' & E' & S').
    exists s'. split; [|exact S']. rewrite E'. cbn [rev]. rewrite <- !app_assoc. reflexivity.
Qed.

(* ------------------------------------------------------------------ the items of a level, as a run *)
Lemma items_run items (Hdis : disjoint_names items) fuel lo t0 :
  WF items lo t0 -> length t0 < fuel ->
  forall its k vs,
    (forall p it, nth_error its p = Some it -> nth_error items (k + p) = Some it) ->
    items_values its k (occs_of t0) = Some vs ->
    arun (map (aeval fuel) (map compile_item its)) (untag (filter (keep k) t0)) =
    Some (vs, untag (filter (keep (k + length its)) t0)).
Proof.
  intros W Hf. induction its as [|it its IH]; intros k vs Hn Hv.
  - cbn in Hv. inversion Hv; subst. cbn. rewrite Nat.add_0_r. reflexivity.
  - cbn [items_values] in Hv.
    destruct (item_value it (occ_of k (occs_of t0))) as [v|] eqn:Ev; [|discriminate].
    destruct (items_values its (S k) (occs_of t0)) as [vs'|] eqn:Er; [|discriminate].
    inversion Hv; subst vs. cbn [map arun].
    assert (Hk : nth_error items k = Some it) by (rewrite <- (Nat.add_0_r k); apply Hn; reflexivity).
    assert (St : aeval fuel (compile_item it) (untag (filter (keep k) t0)) =
                 (AOk v, untag (filter (keep (S k)) (filter (keep k) t0)))).
    { apply (item_step items Hdis fuel k it lo); auto.
      - apply WF_filter. exact W.
      - apply kept_filter.
      - rewrite untag_length. pose proof (length_filter_le (keep k) t0). lia.
      - fold (kvals k t0) in Ev. rewrite (kvals_filter items k k lo t0 W (le_n k)). exact Ev. }
    rewrite St. rewrite (filter_keep_S k t0).
    rewrite (IH (S k) vs').
    + cbn [length]. replace (S k + length its) with (k + S (length its)) by lia. reflexivity.
    + intros p it' Hp. replace (S k + p) with (k + S p) by lia. apply Hn. exact Hp.
    + exact Er.
Qed.

(* ------------------------------------------------------------------ the scan up to a command word *)
Lemma att_cons_cmd' r o w res a sub rest :
  att_cons r o w res = ScCmd a sub rest ->
  exists a', res = ScCmd a' sub rest /\ a = mkAttr (r ++ at_roles a') (o ++ at_occ a') (w ++ at_words a').
Proof. destruct res; cbn; intros H; inversion H; eauto. Qed.

Definition foreign_tag (l : lv) : tl3 := map (fun p => (fst p, snd p, RMark)) l.

Section ScanCmd.
Variable items : list citem.
Variable anc : list citem.
Variable cs : clist.

Definition scan_cmd_good (ix : nat) (pre : list (arg * bool)) (a : attribution) : Prop :=
  let t := tag_from ix pre (at_roles a) in
  WF items ix t /\ occs_of t = at_occ a /\ untag t = live_from ix pre /\
  (forall x, In x t -> exists j, snd x = RKey j \/ snd x = RVal j).

Lemma scan_cmd_wf n : forall ts, length ts <= n -> forall ix a sub rest,
  scan items anc (TCmds cs) ts = ScCmd a sub rest ->
  exists pre w, ts = pre ++ (Word w, false) :: rest /\ find_cmd cs w = Some sub /\ scan_cmd_good ix pre a.
Proof.
  induction n as [|n IH]; intros ts Hn ix a sub rest H.
  - destruct ts; [cbn in H; discriminate|cbn in Hn; lia].
  - destruct ts as [|[x m] r]; [cbn in H; discriminate|]. cbn [scan] in H. cbn [length] in Hn.
    destruct m.
    + apply att_cons_cmd' in H. destruct H as (a' & H & ->).
      destruct (IH r ltac:(lia) (S ix) a' sub rest H) as (pre & w & -> & Hf & W & Ho & Hu & Hr).
      exists ((x, true) :: pre), w. split; [reflexivity|]. split; [exact Hf|].
      unfold scan_cmd_good. cbn [at_roles at_occ tag_from app live_from].
      repeat split; auto. eapply WF_weaken; [|exact W]. lia.
    + destruct x as [c adj os|nm adj os|w|w|w].
      * destruct (is_help _); [discriminate|].
        destruct (find_owner items _ 0) as [[k it]|] eqn:Fo; [|destruct (find_owner anc _ 0); [discriminate|]; destruct (unspec_later _ _ _ _ _); discriminate].
        destruct (is_argument it) eqn:Ia.
        -- destruct r as [|[b mb] r']; [destruct (unspec_later _ _ _ _ _); discriminate|].
           destruct b as [c2 a2 o2|n2 a2 o2|w|w|w]; destruct mb; try (destruct (unspec_later _ _ _ _ _); discriminate).
           ++ apply att_cons_cmd' in H. destruct H as (a' & H & ->). cbn [length] in Hn.
              destruct (IH r' ltac:(lia) (S (S ix)) a' sub rest H) as (pre & w0 & -> & Hf & W & Ho & Hu & Hr).
              exists ((Short c adj os, false) :: (ArgWord w, false) :: pre), w0. split; [reflexivity|]. split; [exact Hf|].
              unfold scan_cmd_good. cbn [at_roles at_occ tag_from app live_from]. repeat split.
              ** eapply WF_arg; eauto. reflexivity.
              ** cbn [occs_of word_of]. rewrite Ho. reflexivity.
              ** cbn [untag map fst]. f_equal. f_equal. exact Hu.
              ** intros y [<-|[<-|Hy]]; [exists k; auto|exists k; auto|apply Hr; exact Hy].
           ++ apply att_cons_cmd' in H. destruct H as (a' & H & ->). cbn [length] in Hn.
              destruct (IH r' ltac:(lia) (S (S ix)) a' sub rest H) as (pre & w0 & -> & Hf & W & Ho & Hu & Hr).
              exists ((Short c adj os, false) :: (Word w, false) :: pre), w0. split; [reflexivity|]. split; [exact Hf|].
              unfold scan_cmd_good. cbn [at_roles at_occ tag_from app live_from]. repeat split.
              ** eapply WF_arg; eauto. reflexivity.
              ** cbn [occs_of word_of]. rewrite Ho. reflexivity.
              ** cbn [untag map fst]. f_equal. f_equal. exact Hu.
              ** intros y [<-|[<-|Hy]]; [exists k; auto|exists k; auto|apply Hr; exact Hy].
        -- apply att_cons_cmd' in H. destruct H as (a' & H & ->).
           destruct (IH r ltac:(lia) (S ix) a' sub rest H) as (pre & w0 & -> & Hf & W & Ho & Hu & Hr).
           exists ((Short c adj os, false) :: pre), w0. split; [reflexivity|]. split; [exact Hf|].
           unfold scan_cmd_good. cbn [at_roles at_occ tag_from app live_from]. repeat split.
           ++ eapply WF_flag; eauto.
           ++ rewrite (occs_flag items ix ix _ k _ W (le_n ix)). rewrite Ho. reflexivity.
           ++ cbn [untag map fst]. f_equal. exact Hu.
           ++ intros y [<-|Hy]; [exists k; auto|apply Hr; exact Hy].
      * destruct (is_help _); [discriminate|].
        destruct (find_owner items _ 0) as [[k it]|] eqn:Fo; [|destruct (find_owner anc _ 0); [discriminate|]; destruct (unspec_later _ _ _ _ _); discriminate].
        destruct (is_argument it) eqn:Ia.
        -- destruct r as [|[b mb] r']; [destruct (unspec_later _ _ _ _ _); discriminate|].
           destruct b as [c2 a2 o2|n2 a2 o2|w|w|w]; destruct mb; try (destruct (unspec_later _ _ _ _ _); discriminate).
           ++ apply att_cons_cmd' in H. destruct H as (a' & H & ->). cbn [length] in Hn.
              destruct (IH r' ltac:(lia) (S (S ix)) a' sub rest H) as (pre & w0 & -> & Hf & W & Ho & Hu & Hr).
              exists ((Long nm adj os, false) :: (ArgWord w, false) :: pre), w0. split; [reflexivity|]. split; [exact Hf|].
              unfold scan_cmd_good. cbn [at_roles at_occ tag_from app live_from]. repeat split.
              ** eapply WF_arg; eauto. reflexivity.
              ** cbn [occs_of word_of]. rewrite Ho. reflexivity.
              ** cbn [untag map fst]. f_equal. f_equal. exact Hu.
              ** intros y [<-|[<-|Hy]]; [exists k; auto|exists k; auto|apply Hr; exact Hy].
           ++ apply att_cons_cmd' in H. destruct H as (a' & H & ->). cbn [length] in Hn.
              destruct (IH r' ltac:(lia) (S (S ix)) a' sub rest H) as (pre & w0 & -> & Hf & W & Ho & Hu & Hr).
              exists ((Long nm adj os, false) :: (Word w, false) :: pre), w0. split; [reflexivity|]. split; [exact Hf|].
              unfold scan_cmd_good. cbn [at_roles at_occ tag_from app live_from]. repeat split.
              ** eapply WF_arg; eauto. reflexivity.
              ** cbn [occs_of word_of]. rewrite Ho. reflexivity.
              ** cbn [untag map fst]. f_equal. f_equal. exact Hu.
              ** intros y [<-|[<-|Hy]]; [exists k; auto|exists k; auto|apply Hr; exact Hy].
        -- apply att_cons_cmd' in H. destruct H as (a' & H & ->).
           destruct (IH r ltac:(lia) (S ix) a' sub rest H) as (pre & w0 & -> & Hf & W & Ho & Hu & Hr).
           exists ((Long nm adj os, false) :: pre), w0. split; [reflexivity|]. split; [exact Hf|].
           unfold scan_cmd_good. cbn [at_roles at_occ tag_from app live_from]. repeat split.
           ++ eapply WF_flag; eauto.
           ++ rewrite (occs_flag items ix ix _ k _ W (le_n ix)). rewrite Ho. reflexivity.
           ++ cbn [untag map fst]. f_equal. exact Hu.
           ++ intros y [<-|Hy]; [exists k; auto|apply Hr; exact Hy].
      * destruct (unspec_later _ _ _ _ _); discriminate.
      * destruct (dashy w); [discriminate|].
        destruct (find_cmd cs w) as [sub'|] eqn:Fc; [|destruct (unspec_later _ _ _ _ _); discriminate].
        inversion H; subst. exists [], w. split; [reflexivity|]. split; [exact Fc|].
        unfold scan_cmd_good. cbn. repeat split; try constructor. intros y [].
      * destruct (unspec_later _ _ _ _ _); discriminate.
Qed.
End ScanCmd.

(* ------------------------------------------------------------------ tokens of deeper levels are foreign *)
Lemma live_from_app ts1 : forall ix ts2,
  live_from ix (ts1 ++ ts2) = live_from ix ts1 ++ live_from (ix + length ts1) ts2.
Proof.
  induction ts1 as [|[a m] r IH]; intros ix ts2; cbn [app live_from length].
  - rewrite Nat.add_0_r. reflexivity.
  - rewrite IH. rewrite <- app_assoc. replace (S ix + length r) with (ix + S (length r)) by lia. reflexivity.
Qed.

Lemma live_from_lb ts : forall ix p, In p (live_from ix ts) -> ix <= fst p.
Proof.
  induction ts as [|[a m] r IH]; intros ix p Hp; cbn in Hp; [contradiction|].
  apply in_app_or in Hp. destruct Hp as [Hp|Hp].
  - destruct m; [contradiction|]. destruct Hp as [<-|[]]. cbn. lia.
  - apply IH in Hp. lia.
Qed.

Lemma live_from_tok ts : forall ix p, In p (live_from ix ts) -> In (snd p, false) ts.
Proof.
  induction ts as [|[a m] r IH]; intros ix p Hp; cbn in Hp; [contradiction|].
  apply in_app_or in Hp. destruct Hp as [Hp|Hp].
  - destruct m; [contradiction|]. destruct Hp as [<-|[]]. left. reflexivity.
  - right. eapply IH. exact Hp.
Qed.

Section Foreign.
Variable items : list citem.

Definition inert (a : arg) : Prop := forall it, In it items -> matches_arg (item_named it) false a = false.

(* a list of live tokens all inert for this level is well formed as a foreign block *)
Lemma WF_foreign_live ts : forall ix,
  (forall a, In (a, false) ts -> inert a) -> WF items ix (foreign_tag (live_from ix ts)).
Proof.
  induction ts as [|[a m] r IH]; intros ix Hi; cbn [live_from foreign_tag map app]; [constructor|].
  destruct m; cbn [app map fst snd].
  - apply (WF_weaken items (S ix) ix); [lia|]. apply IH. intros b Hb. apply Hi. right. exact Hb.
  - apply WF_foreign; [lia|apply Hi; left; reflexivity|]. apply IH. intros b Hb. apply Hi. right. exact Hb.
Qed.

Lemma WF_app lo hi t1 t2 :
  WF items lo t1 -> lo <= hi -> (forall x, In x (untag t1) -> fst x < hi) -> WF items hi t2 -> WF items lo (t1 ++ t2).
Proof.
  intros W. induction W as [lo|lo i a k it t Hl Hk Ho Ha W IH|lo i a k it b w t Hl Hk Ho Ha Hv W IH|lo i a t Hl Hw W IH|lo i a t Hl Hfo W IH];
    intros Hle Hb W2; cbn [app].
  - eapply WF_weaken; eauto.
  - eapply WF_flag; eauto. apply IH; [|intros x Hx; apply Hb; right; exact Hx|exact W2].
    specialize (Hb (i, a) (or_introl eq_refl)). cbn in Hb. lia.
  - eapply WF_arg; eauto. apply IH; [|intros x Hx; apply Hb; right; right; exact Hx|exact W2].
    specialize (Hb (S i, b) (or_intror (or_introl eq_refl))). cbn in Hb. lia.
  - apply WF_word; auto. apply IH; [|intros x Hx; apply Hb; right; exact Hx|exact W2].
    specialize (Hb (i, a) (or_introl eq_refl)). cbn in Hb. lia.
  - apply WF_foreign; auto. apply IH; [|intros x Hx; apply Hb; right; exact Hx|exact W2].
    specialize (Hb (i, a) (or_introl eq_refl)). cbn in Hb. lia.
Qed.

Lemma occs_foreign l : occs_of (foreign_tag l) = [].
Proof. induction l as [|[i a] t IH]; cbn; [reflexivity|exact IH]. Qed.

Lemma occs_app_foreign lo t1 l2 hi :
  WF items lo t1 -> lo <= hi -> (forall x, In x (untag t1) -> fst x < hi) -> WF items hi (foreign_tag l2) ->
  occs_of (t1 ++ foreign_tag l2) = occs_of t1.
Proof.
  intros W. induction W as [lo|lo i a k it t Hl Hk Ho Ha W IH|lo i a k it b w t Hl Hk Ho Ha Hv W IH|lo i a t Hl Hw W IH|lo i a t Hl Hfo W IH];
    intros Hle Hb W2; cbn [app].
  - apply occs_foreign.
  - assert (Hi : S i <= hi) by (specialize (Hb (i, a) (or_introl eq_refl)); cbn in Hb; lia).
    assert (Hb' : forall x, In x (untag t) -> fst x < hi) by (intros x Hx; apply Hb; right; exact Hx).
    rewrite (occs_flag items lo i a k _ (WF_app _ _ _ _ W Hi Hb' W2) Hl).
    rewrite (occs_flag items lo i a k _ W Hl). rewrite (IH Hi Hb' W2). reflexivity.
  - cbn [occs_of]. rewrite IH; auto.
    + specialize (Hb (S i, b) (or_intror (or_introl eq_refl))). cbn in Hb. lia.
    + intros x Hx. apply Hb. right. right. exact Hx.
  - cbn [occs_of]. apply IH; auto.
    + specialize (Hb (i, a) (or_introl eq_refl)). cbn in Hb. lia.
    + intros x Hx. apply Hb. right. exact Hx.
  - cbn [occs_of]. apply IH; auto.
    + specialize (Hb (i, a) (or_introl eq_refl)). cbn in Hb. lia.
    + intros x Hx. apply Hb. right. exact Hx.
Qed.

Lemma untag_foreign l : untag (foreign_tag l) = l.
Proof. unfold untag, foreign_tag. rewrite map_map. cbn. induction l as [|[i a] t IH]; cbn; [reflexivity|]. rewrite IH. reflexivity. Qed.

Lemma filter_keep_foreign k l : filter (keep k) (foreign_tag l) = foreign_tag l.
Proof. apply filter_all. intros x Hx. unfold foreign_tag in Hx. apply in_map_iff in Hx. destruct Hx as (p & <- & _). reflexivity. Qed.

(* once every item of the level is done, only the foreign block is left of a keys-and-values prefix *)
Lemma filter_prefix_gone lo t :
  WF items lo t -> (forall x, In x t -> exists j, snd x = RKey j \/ snd x = RVal j) ->
  filter (keep (length items)) t = [].
Proof.
  intros W. induction W as [lo|lo i a k it t Hl Hk Ho Ha W IH|lo i a k it b w t Hl Hk Ho Ha Hv W IH|lo i a t Hl Hw W IH|lo i a t Hl Hfo W IH];
    intros Hr; cbn [filter keep snd].
  - reflexivity.
  - destruct (find_owner_spec items a 0 k it Ho) as (_ & Hn & _). rewrite Nat.sub_0_r in Hn. apply nth_error_Some_lt in Hn.
    assert (K : Nat.leb (length items) k = false) by (apply Nat.leb_gt; exact Hn). rewrite K.
    apply IH. intros y Hy. apply Hr. right. exact Hy.
  - destruct (find_owner_spec items a 0 k it Ho) as (_ & Hn & _). rewrite Nat.sub_0_r in Hn. apply nth_error_Some_lt in Hn.
    assert (K : Nat.leb (length items) k = false) by (apply Nat.leb_gt; exact Hn). rewrite K.
    apply IH. intros y Hy. apply Hr. right. right. exact Hy.
  - destruct (Hr _ (or_introl eq_refl)) as [j [Hj|Hj]]; discriminate.
  - destruct (Hr _ (or_introl eq_refl)) as [j [Hj|Hj]]; discriminate.
Qed.
End Foreign.

(* ------------------------------------------------------------------ every key of an accepted vector has an owner in the tree *)
Lemma wf_keys_owned items lo t :
  WF items lo t -> (forall x, In x t -> snd x <> RMark) ->
  forall x, In x t -> is_key (snd (fst x)) = true ->
  exists it, In it items /\ matches_arg (item_named it) false (snd (fst x)) = true.
Proof.
  induction 1 as [lo|lo i a k it t Hl Hk Ho Ha W IH|lo i a k it b w t Hl Hk Ho Ha Hv W IH|lo i a t Hl Hw W IH|lo i a t Hl Hfo W IH];
    intros Hnm x Hx Kx.
  - contradiction.
  - destruct Hx as [<-|Hx]; [|apply IH; auto; intros y Hy; apply Hnm; right; exact Hy].
    destruct (find_owner_spec items a 0 k it Ho) as (_ & Hn & M). rewrite Nat.sub_0_r in Hn.
    exists it. split; [eapply nth_error_In; exact Hn|exact M].
  - destruct Hx as [<-|[<-|Hx]]; [| |apply IH; auto; intros y Hy; apply Hnm; right; right; exact Hy].
    + destruct (find_owner_spec items a 0 k it Ho) as (_ & Hn & M). rewrite Nat.sub_0_r in Hn.
      exists it. split; [eapply nth_error_In; exact Hn|exact M].
    + cbn in Kx. rewrite (value_not_key b w Hv) in Kx. discriminate.
  - destruct Hx as [<-|Hx]; [|apply IH; auto; intros y Hy; apply Hnm; right; exact Hy].
    cbn in Kx. rewrite (word_not_key a Hw) in Kx. discriminate.
  - exfalso. apply (Hnm _ (or_introl eq_refl)). reflexivity.
Qed.

Lemma live_from_in ts : forall ix a, In (a, false) ts -> exists i, In (i, a) (live_from ix ts).
Proof.
  induction ts as [|[b m] r IH]; intros ix a Hin; [contradiction|]. cbn [live_from].
  destruct Hin as [E|Hin].
  - inversion E; subst. exists ix. apply in_or_app. left. left. reflexivity.
  - destruct (IH (S ix) a Hin) as [i Hi]. exists i. apply in_or_app. right. exact Hi.
Qed.

Lemma find_cmd_items cs w sub : find_cmd cs w = Some sub -> incl (all_items sub) (all_items_cs cs).
Proof.
  induction cs as [|name aliases s0 rest IH]; cbn [find_cmd all_items_cs]; [discriminate|].
  destruct (beqb w name || mem_bytes w aliases).
  - intros H; inversion H; subst. apply incl_appl. apply incl_refl.
  - intros H. apply incl_appr. apply IH. exact H.
Qed.

Lemma untag_in t i a : In (i, a) (untag t) -> exists r, In (i, a, r) t.
Proof. unfold untag. intros H. apply in_map_iff in H. destruct H as ([[j b] r] & E & Hin). cbn in E. inversion E; subst. eauto. Qed.

Lemma denote_keys_owned f : forall l anc ts v,
  denote_level f l anc ts = Accept v ->
  forall a, In (a, false) ts -> is_key a = true ->
  exists it, In it (all_items l) /\ matches_arg (item_named it) false a = true.
Proof.
  induction f as [|f IH]; intros [items tail] anc ts v Hd a Hin Ka; cbn [denote_level] in Hd; [discriminate|].
  destruct (scan items anc tail ts) as [at_|at_ sub rest| |] eqn:Sc; try discriminate.
  - (* the level ends here *)
    destruct (scan_wf items anc tail _ ts (le_n _) 0 at_ Sc) as (W & _ & _ & Hu & Hnf).
    destruct (live_from_in ts 0 a Hin) as [i Hi]. rewrite <- Hu in Hi.
    destruct (untag_in _ _ _ Hi) as [r Hr].
    destruct (wf_keys_owned items 0 _ W Hnf _ Hr Ka) as (it & Hit & M).
    exists it. split; [|exact M]. cbn [all_items]. apply in_or_app. left. exact Hit.
  - (* a subcommand follows *)
    destruct tail as [|ps|cs];
      [exfalso; eapply (scan_not_cmd items anc TNone); [intros cs0 E0; discriminate E0|apply le_n|exact Sc]
      |exfalso; eapply (scan_not_cmd items anc (TPos ps)); [intros cs0 E0; discriminate E0|apply le_n|exact Sc]|].
    destruct (scan_cmd_wf items anc cs _ ts (le_n _) 0 at_ sub rest Sc) as (pre & w & -> & Hfc & W & _ & Hu & Hr).
    destruct (denote_level f sub (anc ++ items) rest) as [sv| |] eqn:Ds; try discriminate.
    apply in_app_or in Hin. destruct Hin as [Hin|[E|Hin]].
    + destruct (live_from_in pre 0 a Hin) as [i Hi]. rewrite <- Hu in Hi.
      destruct (untag_in _ _ _ Hi) as [r Hr'].
      assert (Hnf : forall x, In x (tag_from 0 pre (at_roles at_)) -> snd x <> RMark).
      { intros x Hx. destruct (Hr x Hx) as [j [-> | ->]]; discriminate. }
      destruct (wf_keys_owned items 0 _ W Hnf _ Hr' Ka) as (it & Hit & M).
      exists it. split; [|exact M]. cbn [all_items]. apply in_or_app. left. exact Hit.
    + inversion E; subst a. discriminate.
    + destruct (IH sub (anc ++ items) rest sv Ds a Hin Ka) as (it & Hit & M).
      exists it. split; [|exact M]. cbn [all_items]. apply in_or_app. right. eapply find_cmd_items; eauto.
Qed.

(* ------------------------------------------------------------------ chains of subcommands *)
Fixpoint chain_ok (l : level) : Prop :=
  match l with
  | Level items tail =>
    match tail with
    | TCmds (CCons name aliases sub CNil) =>
      disjoint_names items /\ Forall (fun it => named_ok (item_named it) = true) items /\ 1 <= length items /\
      chain_ok sub /\
      (forall it it' a, In it items -> In it' (all_items sub) ->
                        matches_arg (item_named it) false a = true -> matches_arg (item_named it') false a = true -> False)
    | TCmds _ => False
    | _ => flat_ok items tail
    end
  end.

Lemma live_from_ub ts : forall ix p, In p (live_from ix ts) -> fst p < ix + length ts.
Proof.
  induction ts as [|[a m] r IH]; intros ix p Hp; cbn in Hp; [contradiction|].
  apply in_app_or in Hp. destruct Hp as [Hp|Hp].
  - destruct m; [contradiction|]. destruct Hp as [<-|[]]. cbn. lia.
  - apply IH in Hp. cbn [length]. lia.
Qed.

Lemma evals_plist env l : evals env (plist_of l) = map (eval env) l.
Proof. induction l as [|p t IH]; cbn [plist_of map]; [reflexivity|]. rewrite evals_cons, IH. reflexivity. Qed.

Lemma items_sim env n items :
  Forall (fun it => named_ok (item_named it) = true) items ->
  Forall2 (sim_ev n) (map (eval env) (map compile_item items)) (map (aeval (S (S n))) (map compile_item items)).
Proof.
  induction 1 as [|it t Hit Ht IH]; cbn [map]; constructor; [|exact IH].
  apply eval_sim. apply flatp_item. exact Hit.
Qed.

Section Chain.
Variable env : bytes -> option bytes.
Variable n : nat.

Theorem chain_eval f : forall l anc ts ix s v,
  chain_ok l -> Sim n s (live_from ix ts) -> length ts <= n ->
  denote_level f l anc ts = Accept v ->
  exists s', eval env (compile l) s = (ROk v, s') /\ Sim n s' [].
Proof.
  induction f as [|f IH]; intros [items tail] anc ts ix s v Hok S0 Hlen Hd; [discriminate|].
  destruct tail as [|ps|cs].
  - eapply level_eval_flat; eauto.
  - eapply level_eval_flat; eauto.
  - cbn [chain_ok] in Hok. destruct cs as [|name aliases sub rest0]; [contradiction|].
    destruct rest0 as [|]; [|contradiction].
    destruct Hok as (Hdis & Hnames & Hlen1 & Hsub & Hcross).
    cbn [denote_level] in Hd.
    destruct (scan items anc (TCmds (CCons name aliases sub CNil)) ts) as [a|a sub' rest| |] eqn:Sc; try discriminate.
    { destruct (items_values items 0 (at_occ a)); discriminate. }
    destruct (scan_cmd_wf items anc _ _ ts (le_n _) ix a sub' rest Sc) as (pre & w & -> & Hfc & W & Ho & Hu & Hr).
    cbn [find_cmd] in Hfc.
    destruct (beqb w name || mem_bytes w aliases) eqn:Mw; [|discriminate]. inversion Hfc; subst sub'. clear Hfc.
    assert (Mn : mem_bytes w (name :: aliases) = true) by (unfold mem_bytes in *; cbn [existsb]; exact Mw).
    destruct (denote_level f sub (anc ++ items) rest) as [sv| |] eqn:Ds; try discriminate.
    destruct (items_values items 0 (at_occ a)) as [vs|] eqn:Ev; [|discriminate].
    inversion Hd; subst v. clear Hd.
    set (tp := tag_from ix pre (at_roles a)) in *.
    set (j := ix + length pre).
    set (F := foreign_tag (live_from j ((Word w, false) :: rest))).
    (* the tokens after the command word are inert for this level *)
    assert (Hinert : forall b, In (b, false) ((Word w, false) :: rest) -> inert items b).
    { intros b [E|Hb] it Hit.
      - inversion E; subst b. reflexivity.
      - destruct (is_key b) eqn:Kb; [|apply not_key_no_match; exact Kb].
        destruct (denote_keys_owned f sub (anc ++ items) rest sv Ds b Hb Kb) as (it' & Hit' & M').
        destruct (matches_arg (item_named it) false b) eqn:M; [|reflexivity].
        exfalso. eapply Hcross; eauto. }
    assert (WFf : WF items j F) by (apply WF_foreign_live; exact Hinert).
    assert (Hub : forall x, In x (untag tp) -> fst x < j).
    { intros x Hx. rewrite Hu in Hx. apply live_from_ub in Hx. exact Hx. }
    assert (W0 : WF items ix (tp ++ F)) by (apply (WF_app items ix j); [exact W|unfold j; lia|exact Hub|exact WFf]).
    assert (Hlive : live_from ix (pre ++ (Word w, false) :: rest) = untag (tp ++ F)).
    { rewrite live_from_app. unfold untag. rewrite map_app. fold (untag tp). fold (untag F). rewrite Hu.
      unfold F. rewrite untag_foreign. reflexivity. }
    rewrite Hlive in S0.
    assert (Ho0 : occs_of (tp ++ F) = at_occ a).
    { unfold F. rewrite (occs_app_foreign items ix tp _ j W ltac:(unfold j; lia) Hub WFf). exact Ho. }
    assert (Hl0 : length (tp ++ F) < S (S n)).
    { rewrite <- (untag_length (tp ++ F)), <- Hlive. pose proof (live_from_le (pre ++ (Word w, false) :: rest) ix). lia. }
    (* the items *)
    pose proof (items_run items Hdis (S (S n)) ix (tp ++ F) W0 Hl0 items 0 vs (fun p it H => H)) as Hrun.
    rewrite Ho0 in Hrun. specialize (Hrun Ev). cbn [Nat.add] in Hrun. rewrite filter_keep_0 in Hrun.
    rewrite filter_app in Hrun. rewrite (filter_prefix_gone items ix tp W Hr) in Hrun.
    unfold F in Hrun. rewrite filter_keep_foreign in Hrun. cbn [app] in Hrun. rewrite untag_foreign in Hrun.
    cbn [live_from app] in Hrun.
    (* the compiled parser *)
    cbn [compile compile_cmds fold_left].
    set (c := PCmd name aliases [] None false (Options (compile sub) default_info)).
    assert (Efields : exists p1 p2 r, map compile_item items ++ [c] = p1 :: p2 :: r).
    { destruct items as [|i1 it']; [cbn in Hlen1; lia|]. cbn [map app]. destruct (map compile_item it' ++ [c]) as [|p2 r] eqn:E.
      - destruct (map compile_item it'); discriminate.
      - eauto. }
    destruct Efields as (p1 & p2 & r & Ef). rewrite Ef. cbn [plist_of]. rewrite eval_PCon_many.
    change (PCons p1 (PCons p2 (plist_of r))) with (plist_of (p1 :: p2 :: r)). rewrite <- Ef.
    rewrite evals_plist, map_app. cbn [map]. unfold con_body, con_reset.
    destruct (con_go_last n _ _ (eval env c) sv [] (items_sim env n items Hnames)
                s (untag (tp ++ F)) true [] vs _ S0 Hrun) as (s' & Ec & S').
    { intros sk Sk. apply (cmd_at env n name aliases (compile sub) sk j w (live_from (S j) rest) sv Sk Mn).
      intros s3 S3. apply (IH sub (anc ++ items) rest (S j) s3 sv Hsub S3); [|exact Ds].
      rewrite app_length in Hlen. cbn in Hlen. lia. }
    match goal with |- context [con_go ?a ?b ?c ?d ?e ?g] => destruct (con_go a b c d e g) as [x sx] eqn:Eg end.
    assert (Heq : (x, sx) = (ROk (VTuple (rev [] ++ vs ++ [sv])), s')) by (rewrite <- Eg; exact Ec).
    inversion Heq; subst x sx. cbn [rev app]. eexists. split; [reflexivity|apply set_current_sim; exact S'].
Qed.
End Chain.

(* C01 for chains of subcommands: sentences are accepted with the value they denote *)
Theorem denote_accept_chain feat env l argv v :
  chain_ok l ->
  denote l argv = Accept v ->
  run_inner feat env (compile_options l) None argv = OutOk v.
Proof.
  intros Hok Hd.
  unfold denote in Hd. unfold run_inner, run_inner_state, initial_state.
  destruct (short_tables (compile_options l)) as [sf sa].
  pose proof (construct_sim sf sa None argv) as S0. cbn zeta in S0.
  pose proof (construct_amb sf sa None argv) as Hamb.
  set (t := tokenize sf sa argv) in *.
  destruct (construct sf sa None argv) as [s0 amb0]. cbn [fst snd] in S0, Hamb. subst amb0.
  destruct (t_ambiguity t) as [amb|] eqn:Ea; [discriminate|].
  assert (Hlen : length (mark_tokens t) <= length (t_items t)) by (unfold mark_tokens; rewrite mark_go_length; lia).
  destruct (chain_eval env _ _ l [] (mark_tokens t) 0 s0 v Hok S0 Hlen Hd) as (s1 & Ee & S1).
  unfold compile_options. rewrite run_sub_eq, Ee.
  unfold run_sub_body. cbn [andb].
  unfold first_item_ix. rewrite (find_item_view _ s1 [] (fun _ => true) S1). reflexivity.
Qed.

(* the chain condition is decidable *)
Lemma share_false_no_common a b x :
  share a b = false -> matches_arg a false x = true -> matches_arg b false x = true -> False.
Proof. intros Hs Ma Mb. rewrite (share_match a b x Ma Mb) in Hs. discriminate. Qed.

Fixpoint chain_okb_sound (l : level) : chain_okb l = true -> chain_ok l.
Proof.
  destruct l as [items tail]. destruct tail as [|ps|cs]; cbn [chain_okb chain_ok].
  - apply flat_okb_sound.
  - apply flat_okb_sound.
  - destruct cs as [|name aliases sub rest]; [discriminate|]. destruct rest; [|discriminate].
    intros H. apply andb_prop in H. destruct H as [H H5]. apply andb_prop in H. destruct H as [H H4].
    apply andb_prop in H. destruct H as [H H3]. apply andb_prop in H. destruct H as [H1 H2].
    split; [apply disjointb_sound; exact H1|]. split; [apply Forall_forall; rewrite forallb_forall in H2; exact H2|].
    split; [apply Nat.leb_le; exact H3|]. split; [apply (chain_okb_sound sub); exact H4|].
    intros it it' a Hit Hit' Ma Mb. rewrite forallb_forall in H5. specialize (H5 it Hit).
    rewrite forallb_forall in H5. specialize (H5 it' Hit'). apply negb_true_iff in H5.
    eapply share_false_no_common; eauto.
Qed.
