(* HelpLaws.v -- Info::eval / run_subparser facts used by C10 and C08. *)
From BpafLemmas Require Import Tac EvalEq Find Reach.

Theorem long_token_acceptors k l os :
  accepts k (Long l false os) = true ->
  (exists n, (k = KFlag n \/ k = KArgKey n) /\ mem_bytes l (n_long n) = true) \/
  (exists w, k = KCmd w /\ beqb os w = true) \/ k = KAny.
Proof.
  destruct k; cbn; intros H; try discriminate; auto.
  - left. exists n. rewrite andb_true_r in H. auto.
  - left. exists n. rewrite andb_true_r in H. auto.
  - right. left. eauto.
Qed.

Lemma eval_flag_taken env n p a s s2 :
  take_flag n s = Some s2 -> eval_flag env n p a s = (ROk p, s2).
Proof. intros H. unfold eval_flag. rewrite H. reflexivity. Qed.

Theorem help_found env inf m s r s1 s2 :
  (forall f, r <> RErr (MsgParseFailure f)) -> (forall w, r <> RPanic w) -> r <> RFuel ->
  (forall v, r = ROk v -> first_item_ix s1 <> None) ->
  (i_help_if_no_args inf && Nat.eqb (remaining s) 0 = false) ->
  take_flag (i_help_arg inf) s1 = Some s2 -> invariant_ok m = true ->
  exists detailed s3,
    run_sub_body env inf m s (r, s1) = (SFail (FStdout (HHelp (path s3) inf m detailed)), s3).
Proof.
  intros Hpf Hp Hf Hleft Hno Ht Hinv. unfold run_sub_body.
  assert (Hie : exists d s3, info_eval env inf s1 = (Some (ExHelp d), s3)).
  { unfold info_eval. rewrite (eval_flag_taken env _ VUnit None s1 s2 Ht).
    destruct (eval_flag env (i_help_arg inf) VUnit None s2) as [r2 s3]. destruct r2; eauto. }
  destruct Hie as (d & s3 & Hie).
  assert (Hno' : forall b, b && i_help_if_no_args inf && Nat.eqb (remaining s) 0 = false).
  { intros b. rewrite <- andb_assoc. rewrite Hno. apply andb_false_r. }
  destruct r as [v|e|w|].
  - rewrite Hno'. destruct (first_item_ix s1) eqn:Hfi; [|exfalso; eapply Hleft; eauto].
    rewrite Hie, Hinv. eauto.
  - rewrite Hno'. destruct e; try (rewrite Hie, Hinv; eauto; fail).
    exfalso. eapply Hpf; eauto.
  - exfalso. eapply Hp; eauto.
  - exfalso. apply Hf. reflexivity.
Qed.

(* construct!(required --foo, cmd) on `cmd --help`: the parent reports its own missing field *)
Definition refuted_seq_parser : oparser :=
  Options (PCon (PCons (PFlag (mkNamed [] [[102;111;111]%N] [] None) VUnit None)
                (PCons (PCmd [99;109;100]%N [] [] None false
                             (Options (PFlag (mkNamed [120%N] [] [] None) (VBool true) (Some (VBool false)))
                                      default_info))
                 PNil)))
          default_info.

Theorem refuted_seq :
  exists o argv m,
    run_inner (mkFeat true true false) (fun _ => None) o None argv = OutStderr m.
Proof.
  exists refuted_seq_parser, [[99;109;100]%N; [45;45;104;101;108;112]%N].
  eexists. vm_compute. reflexivity.
Qed.
