(* ConvRefine.v -- C01, completeness of the compiled parser for the sentences of the declared
   grammar (flat levels): if Conv.denote accepts a vector with value v, the evaluator returns v.
   All reasoning is about lists of live tokens (AbsSim.v moves it to real states). *)
From Coq Require Import Lia List Bool Arith ZArith.
From BpafModel Require Import Conv.
From BpafLemmas Require Import Tac EvalEq Find Reach Ledger NoLoss C05Lemmas AbsSim.
Import ListNotations.

(* ------------------------------------------------------------------ A. primitives on `x :: l` *)
Definition above (i : nat) (l : lv) : Prop := forall p, In p l -> i < fst p.

Lemma aremove_notin i l : (forall p, In p l -> fst p <> i) -> aremove i l = l.
Proof.
  intros H. unfold aremove. apply filter_all. intros p Hp. apply negb_true_iff. apply Nat.eqb_neq. apply H. exact Hp.
Qed.

Lemma aremove_above i l : above i l -> aremove i l = l.
Proof. intros H. apply aremove_notin. intros p Hp. specialize (H p Hp). lia. Qed.

Lemma aremove_head i a l : above i l -> aremove i ((i, a) :: l) = l.
Proof.
  intros H. unfold aremove. cbn [filter fst]. rewrite Nat.eqb_refl. cbn [negb]. apply (aremove_above i l H).
Qed.

Lemma aremove_skip i j a l : i <> j -> aremove i ((j, a) :: l) = (j, a) :: aremove i l.
Proof.
  intros H. unfold aremove. cbn [filter fst]. assert (E : Nat.eqb j i = false) by (apply Nat.eqb_neq; lia).
  rewrite E. reflexivity.
Qed.

Lemma above_remove i j l : above i l -> above i (aremove j l).
Proof. intros H p Hp. unfold aremove in Hp. apply filter_In in Hp. apply H. apply Hp. Qed.

Lemma above_weaken i j l : i <= j -> above j l -> above i l.
Proof. intros H A p Hp. specialize (A p Hp). lia. Qed.

Lemma afind_head f i a l : f a = true -> afind f ((i, a) :: l) = Some (i, a).
Proof. intros H. unfold afind. cbn. rewrite H. reflexivity. Qed.
Lemma afind_skip f i a l : f a = false -> afind f ((i, a) :: l) = afind f l.
Proof. intros H. unfold afind. cbn. rewrite H. reflexivity. Qed.

Lemma afind_above f i l j b : above i l -> afind f l = Some (j, b) -> i < j.
Proof. intros A H. apply afind_in in H. destruct H as [H _]. apply (A _ H). Qed.

Lemma aget_head i a l : aget i ((i, a) :: l) = Some a.
Proof. unfold aget. cbn. rewrite Nat.eqb_refl. reflexivity. Qed.
Lemma aget_skip i j a l : i <> j -> aget i ((j, a) :: l) = aget i l.
Proof. intros H. unfold aget. cbn. assert (E : Nat.eqb j i = false) by (apply Nat.eqb_neq; lia). rewrite E. reflexivity. Qed.

(* flags *)
Lemma flag_head nm pr ab i a l :
  matches_arg nm false a = true -> above i l -> aeval_flag nm pr ab ((i, a) :: l) = (AOk pr, l).
Proof. intros M A. unfold aeval_flag. rewrite (afind_head _ i a l M). rewrite (aremove_head i a l A). reflexivity. Qed.

Lemma flag_skip nm pr ab i a l :
  matches_arg nm false a = false -> above i l ->
  aeval_flag nm pr ab ((i, a) :: l) = (fst (aeval_flag nm pr ab l), (i, a) :: snd (aeval_flag nm pr ab l)).
Proof.
  intros M A. unfold aeval_flag. rewrite (afind_skip _ i a l M).
  destruct (afind (matches_arg nm false) l) as [[j b]|] eqn:F.
  - cbn [fst snd]. rewrite aremove_skip; [reflexivity|]. pose proof (afind_above _ _ _ _ _ A F). lia.
  - destruct ab; reflexivity.
Qed.

(* arguments *)
Lemma aconvert_snd ty w l : snd (aconvert ty w l) = l.
Proof. unfold aconvert. destruct (convert ty w); reflexivity. Qed.
Lemma aconvert_cons ty w x l : aconvert ty w (x :: l) = (fst (aconvert ty w l), x :: snd (aconvert ty w l)).
Proof. unfold aconvert. destruct (convert ty w); reflexivity. Qed.

Definition is_value (b : arg) : option bytes :=
  match b with Word w | ArgWord w => Some w | _ => None end.

Lemma arg_head nm ty i a b w l :
  matches_arg nm false a = true -> is_value b = Some w -> above (S i) l ->
  aeval_arg nm ty ((i, a) :: (S i, b) :: l) = aconvert ty w l.
Proof.
  intros M V A. unfold aeval_arg. rewrite (afind_head _ i a _ M).
  rewrite aget_skip by lia. rewrite aget_head.
  assert (E : aremove (S i) (aremove i ((i, a) :: (S i, b) :: l)) = l).
  { rewrite aremove_head.
    - apply aremove_head. exact A.
    - intros p [<-|Hp]; cbn; [lia|]. specialize (A p Hp). lia. }
  rewrite E. destruct b; cbn in V; try discriminate; inversion V; subst; reflexivity.
Qed.

Lemma arg_skip nm ty i a l :
  matches_arg nm false a = false -> above i l ->
  aeval_arg nm ty ((i, a) :: l) = (fst (aeval_arg nm ty l), (i, a) :: snd (aeval_arg nm ty l)).
Proof.
  intros M A. unfold aeval_arg. rewrite (afind_skip _ i a l M).
  destruct (afind (matches_arg nm false) l) as [[j b]|] eqn:F; [|reflexivity].
  pose proof (afind_above _ _ _ _ _ A F) as Hj.
  rewrite aget_skip by lia.
  destruct (aget (S j) l) as [[c adj os|n' adj os|w|w|w]|]; try reflexivity.
  - rewrite (aremove_skip j i a l) by lia. rewrite (aremove_skip (S j) i a) by lia. apply aconvert_cons.
  - rewrite (aremove_skip j i a l) by lia. rewrite (aremove_skip (S j) i a) by lia. apply aconvert_cons.
Qed.

(* positionals *)
Definition word_of (b : arg) : bytes := match b with Word w | ArgWord w | PosWord w => w | _ => [] end.

Lemma pos_head ty i a l :
  is_word a = true -> above i l -> aeval_pos ty ((i, a) :: l) = aconvert ty (word_of a) l.
Proof.
  intros W A. unfold aeval_pos. rewrite (afind_head _ i a l W). rewrite (aremove_head i a l A).
  destruct a; try discriminate; reflexivity.
Qed.

Lemma pos_nil ty : aeval_pos ty [] = (AErr true true, []).
Proof. reflexivity. Qed.

(* ------------------------------------------------------------------ B. loops over a popper *)
(* `Pops ev l vs l'`: evaluating ev again and again on l yields the values vs, each evaluation
   removing something, and then reports "missing" without consuming on l' *)
Inductive Pops (ev : lv -> ares * lv) : lv -> list val -> lv -> Prop :=
| Pops_nil l : ev l = (AErr true true, l) -> Pops ev l [] l
| Pops_cons l v l1 vs l' :
    ev l = (AOk v, l1) -> length l1 < length l -> Pops ev l1 vs l' -> Pops ev l (v :: vs) l'.

Lemma pops_length ev l vs l' : Pops ev l vs l' -> length vs + length l' <= length l.
Proof. induction 1; cbn; lia. Qed.

Definition len_ok (len : option nat) (l : lv) : Prop := len = None \/ len = Some (length l).

Lemma amany_pops ev l vs l' : Pops ev l vs l' ->
  forall fuel len acc, length vs < fuel -> len_ok len l ->
  amany_loop ev fuel len l acc = (AOk VUnit, rev vs ++ acc, l').
Proof.
  induction 1 as [l E|l v l1 vs l' E Hlt P IH]; intros fuel len acc Hf Hl.
  - destruct fuel as [|f]; [cbn in Hf; lia|]. cbn [amany_loop]. unfold aparse_option. rewrite E.
    cbn [andb]. rewrite Nat.eqb_refl. reflexivity.
  - destruct fuel as [|f]; [cbn in Hf; lia|]. cbn [amany_loop]. unfold aparse_option. rewrite E.
    assert (L : lt_len (length l1) len = true).
    { destruct Hl as [->| ->]; cbn; [reflexivity|apply Nat.ltb_lt; exact Hlt]. }
    rewrite L. rewrite (IH f (Some (length l1)) (v :: acc)); [|cbn in Hf; lia|right; reflexivity].
    cbn [rev]. rewrite <- app_assoc. reflexivity.
Qed.

Lemma acount_pops ev l vs l' : Pops ev l vs l' ->
  forall fuel len cur n last, length vs < fuel -> len_ok len l -> length l <= cur ->
  (cur = length l -> vs = [] \/ True) ->
  acount_loop ev fuel len l cur n last =
  (AOk VUnit, n + length vs, match rev vs with v :: _ => Some v | [] => last end, l').
Proof.
  induction 1 as [l E|l v l1 vs l' E Hlt P IH]; intros fuel len cur n last Hf Hl Hc _.
  - destruct fuel as [|f]; [cbn in Hf; lia|]. cbn [acount_loop]. unfold aparse_option. rewrite E.
    cbn [andb]. rewrite Nat.eqb_refl. cbn. rewrite Nat.add_0_r. reflexivity.
  - destruct fuel as [|f]; [cbn in Hf; lia|]. cbn [acount_loop]. unfold aparse_option. rewrite E.
    assert (L : lt_len (length l1) len = true).
    { destruct Hl as [->| ->]; cbn; [reflexivity|apply Nat.ltb_lt; exact Hlt]. }
    rewrite L.
    assert (Ne : Nat.eqb cur (length l1) = false) by (apply Nat.eqb_neq; lia). rewrite Ne.
    rewrite (IH f (Some (length l1)) (length l1) (S n) (Some v)); [|cbn in Hf; lia|right; reflexivity|lia|auto].
    cbn [length rev]. f_equal. f_equal; [f_equal; lia|].
    destruct (rev vs) as [|x r]; reflexivity.
Qed.

(* a popper that ignores a smaller-index head element can be run under it *)
Lemma pops_skip ev x l vs l' :
  (forall l0, above (fst x) l0 -> ev (x :: l0) = (fst (ev l0), x :: snd (ev l0))) ->
  (forall l0, incl (snd (ev l0)) l0) ->
  above (fst x) l -> Pops ev l vs l' -> Pops ev (x :: l) vs (x :: l').
Proof.
  intros Hskip Hincl A P. induction P as [l E|l v l1 vs l' E Hlt P IH].
  - apply Pops_nil. rewrite (Hskip l A), E. reflexivity.
  - assert (A1 : above (fst x) l1).
    { intros p Hp. apply A. pose proof (Hincl l) as I. rewrite E in I. apply I. exact Hp. }
    eapply Pops_cons; [rewrite (Hskip l A), E; reflexivity|cbn; lia|apply IH; exact A1].
Qed.

Lemma aremove_incl i l : incl (aremove i l) l.
Proof. intros p Hp. unfold aremove in Hp. apply filter_In in Hp. apply Hp. Qed.

Lemma flag_incl nm pr ab l : incl (snd (aeval_flag nm pr ab l)) l.
Proof.
  unfold aeval_flag. destruct (afind (matches_arg nm false) l) as [[i a]|]; cbn [snd].
  - apply aremove_incl.
  - destruct ab; apply incl_refl.
Qed.

Lemma arg_incl nm ty l : incl (snd (aeval_arg nm ty l)) l.
Proof.
  unfold aeval_arg. destruct (afind (matches_arg nm false) l) as [[i a]|]; [|apply incl_refl].
  destruct (aget (S i) l) as [[c adj os|n' adj os|w|w|w]|]; try apply incl_refl;
    rewrite aconvert_snd; (eapply incl_tran; [apply aremove_incl|apply aremove_incl]).
Qed.

(* ------------------------------------------------------------------ C. tagged token lists *)
Definition tl3 := list (nat * arg * role).
Definition untag (t : tl3) : lv := map fst t.

Definition keep (k : nat) (x : nat * arg * role) : bool :=
  match snd x with RKey j | RVal j => Nat.leb k j | RWord | RMark => true end.

Fixpoint occs_of (t : tl3) : list (nat * option bytes) :=
  match t with
  | (_, _, RKey k) :: ((_, b, RVal _) :: t') => (k, Some (word_of b)) :: occs_of t'
  | (_, _, RKey k) :: t' => (k, None) :: occs_of t'
  | _ :: t' => occs_of t'
  | [] => []
  end.

Definition words_of (t : tl3) : list bytes :=
  flat_map (fun x => match snd x with RWord => [word_of (snd (fst x))] | _ => [] end) t.

Section Level.
Variable items : list citem.

Definition disjoint_names : Prop :=
  forall a j k itj itk, nth_error items j = Some itj -> nth_error items k = Some itk ->
    matches_arg (item_named itj) false a = true -> matches_arg (item_named itk) false a = true -> j = k.

Lemma find_owner_spec its a : forall k0 k it,
  find_owner its a k0 = Some (k, it) ->
  k0 <= k /\ nth_error its (k - k0) = Some it /\ matches_arg (item_named it) false a = true.
Proof.
  induction its as [|x t IH]; intros k0 k it H; cbn in H; [discriminate|].
  destruct (matches_arg (item_named x) false a) eqn:M.
  - inversion H; subst. rewrite Nat.sub_diag. auto.
  - apply IH in H. destruct H as (H1 & H2 & H3). split; [lia|]. split; [|exact H3].
    replace (k - k0) with (S (k - S k0)) by lia. exact H2.
Qed.

Lemma find_owner_first its a : forall k0 p it,
  nth_error its p = Some it -> matches_arg (item_named it) false a = true ->
  exists k it', find_owner its a k0 = Some (k, it') /\ k <= k0 + p.
Proof.
  induction its as [|x t IH]; intros k0 p it Hn M; [destruct p; discriminate|].
  cbn [find_owner]. destruct (matches_arg (item_named x) false a) eqn:Mx.
  - exists k0, x. split; [reflexivity|lia].
  - destruct p as [|p]; cbn in Hn.
    + inversion Hn; subst. congruence.
    + destruct (IH (S k0) p it Hn M) as (k & it' & E & Hk). exists k, it'. split; [exact E|lia].
Qed.

Hypothesis Hdis : disjoint_names.

(* the owner of a token is THE item whose name it carries *)
Lemma owner_iff k it a :
  nth_error items k = Some it ->
  (matches_arg (item_named it) false a = true <-> find_owner items a 0 = Some (k, it)).
Proof.
  intros Hn. split.
  - intros M. destruct (find_owner_first items a 0 k it Hn M) as (k' & it' & E & _).
    destruct (find_owner_spec items a 0 k' it' E) as (_ & Hn' & M'). rewrite Nat.sub_0_r in Hn'.
    assert (k' = k) by (eapply Hdis; eauto). subst k'. rewrite Hn in Hn'. inversion Hn'; subst. exact E.
  - intros E. apply (find_owner_spec items a 0 k it E).
Qed.

Inductive WF : nat -> tl3 -> Prop :=
| WF_nil lo : WF lo []
| WF_flag lo i a k it t :
    lo <= i -> is_key a = true -> find_owner items a 0 = Some (k, it) -> is_argument it = false ->
    WF (S i) t -> WF lo ((i, a, RKey k) :: t)
| WF_arg lo i a k it b w t :
    lo <= i -> is_key a = true -> find_owner items a 0 = Some (k, it) -> is_argument it = true ->
    is_value b = Some w -> WF (S (S i)) t -> WF lo ((i, a, RKey k) :: (S i, b, RVal k) :: t)
| WF_word lo i a t : lo <= i -> is_word a = true -> WF (S i) t -> WF lo ((i, a, RWord) :: t)
(* a token that belongs to a deeper command level (tagged RMark): no item of this level matches it *)
| WF_foreign lo i a t :
    lo <= i -> (forall it, In it items -> matches_arg (item_named it) false a = false) ->
    WF (S i) t -> WF lo ((i, a, RMark) :: t).

Lemma WF_weaken lo lo' t : lo' <= lo -> WF lo t -> WF lo' t.
Proof. intros H W. destruct W; econstructor; eauto; lia. Qed.

Lemma WF_above lo t : WF lo t -> forall p, In p (untag t) -> lo <= fst p.
Proof.
  induction 1 as [lo|lo i a k it t Hl Hk Ho Ha W IH|lo i a k it b w t Hl Hk Ho Ha Hv W IH|lo i a t Hl Hw W IH|lo i a t Hl Hf W IH];
    intros p Hp; cbn in Hp.
  - contradiction.
  - destruct Hp as [<-|Hp]; cbn; [lia|]. specialize (IH p Hp). lia.
  - destruct Hp as [<-|[<-|Hp]]; cbn; try lia. specialize (IH p Hp). lia.
  - destruct Hp as [<-|Hp]; cbn; [lia|]. specialize (IH p Hp). lia.
  - destruct Hp as [<-|Hp]; cbn; [lia|]. specialize (IH p Hp). lia.
Qed.

Lemma WF_above' lo t : WF (S lo) t -> above lo (untag t).
Proof. intros W p Hp. pose proof (WF_above _ _ W p Hp). lia. Qed.

Lemma WF_filter k lo t : WF lo t -> WF lo (filter (keep k) t).
Proof.
  induction 1 as [lo|lo i a j it t Hl Hk Ho Ha W IH|lo i a j it b w t Hl Hk Ho Ha Hv W IH|lo i a t Hl Hw W IH|lo i a t Hl Hf W IH];
    cbn [filter keep snd].
  - constructor.
  - destruct (Nat.leb k j); [eapply WF_flag; eauto|]. eapply WF_weaken; [|exact IH]. lia.
  - destruct (Nat.leb k j); [eapply WF_arg; eauto|]. eapply WF_weaken; [|exact IH]. lia.
  - apply WF_word; auto.
  - apply WF_foreign; auto.
Qed.

Definition kept (k : nat) (t : tl3) : Prop := forall x, In x t -> keep k x = true.

Lemma kept_filter k t : kept k (filter (keep k) t).
Proof. intros x Hx. apply filter_In in Hx. apply Hx. Qed.

Lemma kept_tail k x t : kept k (x :: t) -> kept k t.
Proof. intros H y Hy. apply H. right. exact Hy. Qed.

Lemma filter_keep_S k t : filter (keep (S k)) (filter (keep k) t) = filter (keep (S k)) t.
Proof.
  induction t as [|x t IH]; cbn; [reflexivity|].
  destruct (keep k x) eqn:K; cbn.
  - destruct (keep (S k) x); rewrite IH; reflexivity.
  - assert (E : keep (S k) x = false).
    { unfold keep in *. destruct (snd x); try discriminate; try reflexivity; apply Nat.leb_gt in K; apply Nat.leb_gt; lia. }
    rewrite E. exact IH.
Qed.

Definition kvals (k : nat) (t : tl3) : list (option bytes) := occ_of k (occs_of t).

Lemma not_key_no_match nm a : is_key a = false -> matches_arg nm false a = false.
Proof. destruct a; cbn; congruence. Qed.
Lemma value_not_key b w : is_value b = Some w -> is_key b = false.
Proof. destruct b; cbn; congruence. Qed.
Lemma word_not_key a : is_word a = true -> is_key a = false.
Proof. destruct a; cbn; congruence. Qed.

Section Item.
Variable k : nat.
Variable it : citem.
Hypothesis Hit : nth_error items k = Some it.
Let nm := item_named it.

Lemma key_match a j itj : find_owner items a 0 = Some (j, itj) -> matches_arg nm false a = Nat.eqb j k.
Proof.
  intros E. destruct (Nat.eqb j k) eqn:J.
  - apply Nat.eqb_eq in J. subst j. destruct (find_owner_spec items a 0 k itj E) as (_ & Hn & M).
    rewrite Nat.sub_0_r in Hn. rewrite Hit in Hn. inversion Hn; subst. exact M.
  - destruct (matches_arg nm false a) eqn:M; [|reflexivity].
    apply (proj1 (owner_iff k it a Hit)) in M. rewrite M in E. inversion E; subst. rewrite Nat.eqb_refl in J. discriminate.
Qed.

(* flag-like items: every occurrence is popped, one per evaluation *)
Lemma flag_pops pr lo t :
  is_argument it = false -> WF lo t -> kept k t ->
  Pops (aeval_flag nm pr None) (untag t) (repeat pr (length (kvals k t))) (untag (filter (keep (S k)) t)).
Proof.
  intros Hna W. induction W as [lo|lo i a j itj t Hl Hk Ho Ha W IH|lo i a j itj b w t Hl Hk Ho Ha Hv W IH|lo i a t Hl Hw W IH|lo i a t Hl Hfo W IH];
    intros Kp.
  - apply Pops_nil. reflexivity.
  - pose proof (key_match a j itj Ho) as M. specialize (IH (kept_tail _ _ _ Kp)).
    unfold kvals in *.
    assert (E : occs_of ((i, a, RKey j) :: t) = (j, None) :: occs_of t).
    { destruct t as [|[[i2 b2] r2] t2]; [reflexivity|]. destruct r2; try reflexivity.
      (* an RVal right after a flag-like key: impossible in WF *)
      inversion W. }
    rewrite E. unfold occ_of. cbn [filter fst]. cbn [untag map fst filter keep snd].
    destruct (Nat.eqb j k) eqn:J.
    + apply Nat.eqb_eq in J. subst j. cbn [map length repeat].
      assert (Kf : Nat.leb (S k) k = false) by (apply Nat.leb_gt; lia). rewrite Kf.
      eapply Pops_cons; [apply flag_head; [exact M|apply WF_above'; exact W]|cbn; lia|exact IH].
    + assert (Kj : keep k (i, a, RKey j) = true) by (apply Kp; left; reflexivity). cbn in Kj. apply Nat.leb_le in Kj.
      apply Nat.eqb_neq in J. assert (Kf : Nat.leb (S k) j = true) by (apply Nat.leb_le; lia). rewrite Kf.
      cbn [map fst]. apply (pops_skip _ (i, a)); [|apply flag_incl|apply WF_above'; exact W|exact IH].
      intros l0 A. apply flag_skip; [exact M|exact A].
  - pose proof (key_match a j itj Ho) as M. specialize (IH (fun x Hx => Kp x (or_intror (or_intror Hx)))).
    assert (J : Nat.eqb j k = false).
    { destruct (Nat.eqb j k) eqn:J; [|reflexivity]. apply Nat.eqb_eq in J. subst j.
      destruct (find_owner_spec items a 0 k itj Ho) as (_ & Hn & _). rewrite Nat.sub_0_r, Hit in Hn. inversion Hn; subst. congruence. }
    rewrite J in M.
    unfold kvals in *. cbn [occs_of]. unfold occ_of. cbn [filter fst]. rewrite J.
    assert (Kj : keep k (i, a, RKey j) = true) by (apply Kp; left; reflexivity). cbn in Kj. apply Nat.leb_le in Kj.
    apply Nat.eqb_neq in J. cbn [untag map fst filter keep snd].
    assert (Kf : Nat.leb (S k) j = true) by (apply Nat.leb_le; lia). rewrite Kf. cbn [map fst].
    apply (pops_skip _ (i, a)); [|apply flag_incl| |].
    + intros l0 A. apply flag_skip; [exact M|exact A].
    + intros p [<-|Hp]; cbn; [lia|]. pose proof (WF_above _ _ W p Hp). lia.
    + apply (pops_skip _ (S i, b)); [|apply flag_incl|apply WF_above'; exact W|exact IH].
      intros l0 A. apply flag_skip; [apply not_key_no_match; eapply value_not_key; eauto|exact A].
  - specialize (IH (kept_tail _ _ _ Kp)). unfold kvals in *. cbn [occs_of untag map fst filter keep snd].
    apply (pops_skip _ (i, a)); [|apply flag_incl|apply WF_above'; exact W|exact IH].
    intros l0 A. apply flag_skip; [apply not_key_no_match; apply word_not_key; exact Hw|exact A].
  - specialize (IH (kept_tail _ _ _ Kp)). unfold kvals in *. cbn [occs_of untag map fst filter keep snd].
    apply (pops_skip _ (i, a)); [|apply flag_incl|apply WF_above'; exact W|exact IH].
    intros l0 A. apply flag_skip; [apply Hfo; eapply nth_error_In; exact Hit|exact A].
Qed.

(* argument items: every occurrence (key + value) is popped, values in command-line order *)
Lemma arg_pops ty lo t :
  is_argument it = true -> WF lo t -> kept k t ->
  forall vs, convert_all ty (kvals k t) = Some vs ->
  Pops (aeval_arg nm ty) (untag t) vs (untag (filter (keep (S k)) t)).
Proof.
  intros Hia W. induction W as [lo|lo i a j itj t Hl Hk Ho Ha W IH|lo i a j itj b w t Hl Hk Ho Ha Hv W IH|lo i a t Hl Hw W IH|lo i a t Hl Hfo W IH];
    intros Kp vs Hc.
  - cbn in Hc. inversion Hc; subst. apply Pops_nil. reflexivity.
  - pose proof (key_match a j itj Ho) as M.
    assert (J : Nat.eqb j k = false).
    { destruct (Nat.eqb j k) eqn:J; [|reflexivity]. apply Nat.eqb_eq in J. subst j.
      destruct (find_owner_spec items a 0 k itj Ho) as (_ & Hn & _). rewrite Nat.sub_0_r, Hit in Hn. inversion Hn; subst. congruence. }
    rewrite J in M.
    assert (E : occs_of ((i, a, RKey j) :: t) = (j, None) :: occs_of t).
    { destruct t as [|[[i2 b2] r2] t2]; [reflexivity|]. destruct r2; try reflexivity. inversion W. }
    unfold kvals in *. rewrite E in Hc. unfold occ_of in *. cbn [filter fst] in Hc. rewrite J in Hc.
    specialize (IH (kept_tail _ _ _ Kp) vs Hc).
    assert (Kj : keep k (i, a, RKey j) = true) by (apply Kp; left; reflexivity). cbn in Kj. apply Nat.leb_le in Kj.
    apply Nat.eqb_neq in J. cbn [untag map fst filter keep snd].
    assert (Kf : Nat.leb (S k) j = true) by (apply Nat.leb_le; lia). rewrite Kf. cbn [map fst].
    apply (pops_skip _ (i, a)); [|apply arg_incl|apply WF_above'; exact W|exact IH].
    intros l0 A. apply arg_skip; [exact M|exact A].
  - pose proof (key_match a j itj Ho) as M.
    unfold kvals in *. cbn [occs_of] in Hc. unfold occ_of in *. cbn [filter fst] in Hc.
    assert (Hw : word_of b = w) by (destruct b; cbn in Hv; try discriminate; inversion Hv; reflexivity).
    cbn [untag map fst filter keep snd].
    destruct (Nat.eqb j k) eqn:J.
    + apply Nat.eqb_eq in J. subst j. cbn [map snd] in Hc. rewrite Hw in Hc. cbn [convert_all] in Hc.
      destruct (convert ty w) as [v|e] eqn:Cv; [|discriminate].
      destruct (convert_all ty (map snd (filter (fun p => Nat.eqb (fst p) k) (occs_of t)))) as [vs'|] eqn:Cr; [|discriminate].
      inversion Hc; subst vs.
      assert (Kf : Nat.leb (S k) k = false) by (apply Nat.leb_gt; lia). rewrite Kf.
      specialize (IH (fun x Hx => Kp x (or_intror (or_intror Hx))) vs' eq_refl).
      fold (untag t). apply (Pops_cons _ _ v (untag t)); [|unfold untag; cbn [length map]; lia|exact IH].
      rewrite (arg_head nm ty i a b w (untag t) M Hv (WF_above' _ _ W)). unfold aconvert. rewrite Cv. reflexivity.
    + specialize (IH (fun x Hx => Kp x (or_intror (or_intror Hx))) vs Hc).
      assert (Kj : keep k (i, a, RKey j) = true) by (apply Kp; left; reflexivity). cbn in Kj. apply Nat.leb_le in Kj.
      apply Nat.eqb_neq in J. assert (Kf : Nat.leb (S k) j = true) by (apply Nat.leb_le; lia). rewrite Kf. cbn [map fst].
      apply (pops_skip _ (i, a)); [|apply arg_incl| |].
      * intros l0 A. apply arg_skip; [exact M|exact A].
      * intros p [<-|Hp]; cbn; [lia|]. pose proof (WF_above _ _ W p Hp). lia.
      * apply (pops_skip _ (S i, b)); [|apply arg_incl|apply WF_above'; exact W|exact IH].
        intros l0 A. apply arg_skip; [apply not_key_no_match; eapply value_not_key; eauto|exact A].
  - unfold kvals in *. cbn [occs_of] in Hc. specialize (IH (kept_tail _ _ _ Kp) vs Hc).
    cbn [untag map fst filter keep snd].
    apply (pops_skip _ (i, a)); [|apply arg_incl|apply WF_above'; exact W|exact IH].
    intros l0 A. apply arg_skip; [apply not_key_no_match; apply word_not_key; exact Hw|exact A].
  - unfold kvals in *. cbn [occs_of] in Hc. specialize (IH (kept_tail _ _ _ Kp) vs Hc).
    cbn [untag map fst filter keep snd].
    apply (pops_skip _ (i, a)); [|apply arg_incl|apply WF_above'; exact W|exact IH].
    intros l0 A. apply arg_skip; [apply Hfo; eapply nth_error_In; exact Hit|exact A].
Qed.
End Item.
End Level.

(* ------------------------------------------------------------------ D. arity wrappers over a popper *)
Lemma pops_one ev l v l' : Pops ev l [v] l' -> ev l = (AOk v, l').
Proof. intros P. inversion P as [|? ? l1 ? ? E Hlt P1]; subst. inversion P1; subst. exact E. Qed.

Lemma pops_none ev l l' : Pops ev l [] l' -> ev l = (AErr true true, l) /\ l' = l.
Proof. intros P. inversion P; subst. auto. Qed.

Lemma optional_none ev l l' : Pops ev l [] l' -> aoptional ev l = (AOk VNone, l').
Proof.
  intros P. destruct (pops_none _ _ _ P) as [E ->]. unfold aoptional, aparse_option. rewrite E.
  cbn [andb]. rewrite Nat.eqb_refl. reflexivity.
Qed.

Lemma optional_one ev l v l' : Pops ev l [v] l' -> aoptional ev l = (AOk (VSome v), l').
Proof. intros P. unfold aoptional, aparse_option. rewrite (pops_one _ _ _ _ P). reflexivity. Qed.

Lemma fallback_none ev d l l' : Pops ev l [] l' -> afallback ev d l = (AOk d, l').
Proof. intros P. destruct (pops_none _ _ _ P) as [E ->]. unfold afallback. rewrite E. reflexivity. Qed.

Lemma fallback_one ev d l v l' : Pops ev l [v] l' -> afallback ev d l = (AOk v, l').
Proof. intros P. unfold afallback. rewrite (pops_one _ _ _ _ P). reflexivity. Qed.

Lemma many_all ev fuel l vs l' : Pops ev l vs l' -> length l < fuel -> amany fuel ev l = (AOk (VList vs), l').
Proof.
  intros P Hf. unfold amany. rewrite (amany_pops ev l vs l' P fuel None []); [|pose proof (pops_length _ _ _ _ P); lia|left; reflexivity].
  rewrite app_nil_r, rev_involutive. reflexivity.
Qed.

Lemma some_all ev fuel l vs l' : Pops ev l vs l' -> vs <> [] -> length l < fuel -> asome fuel ev l = (AOk (VList vs), l').
Proof.
  intros P Hne Hf. unfold asome. rewrite (amany_pops ev l vs l' P fuel None []); [|pose proof (pops_length _ _ _ _ P); lia|left; reflexivity].
  rewrite app_nil_r. destruct (rev vs) as [|x r] eqn:E.
  - exfalso. apply Hne. rewrite <- (rev_involutive vs), E. reflexivity.
  - rewrite <- E, rev_involutive. reflexivity.
Qed.

Lemma count_all ev fuel l vs l' : Pops ev l vs l' -> length l < fuel ->
  acount fuel ev l = (AOk (VNum (Z.of_nat (length vs))), l').
Proof.
  intros P Hf. unfold acount.
  rewrite (acount_pops ev l vs l' P fuel None (length l) 0 None); [reflexivity|pose proof (pops_length _ _ _ _ P); lia|left; reflexivity|lia|auto].
Qed.

Lemma last_all ev fuel l vs l' : Pops ev l vs l' -> vs <> [] -> length l < fuel ->
  alast fuel ev l = (AOk (last vs VUnit), l').
Proof.
  intros P Hne Hf. unfold alast.
  rewrite (acount_pops ev l vs l' P fuel None (length l) 0 None); [|pose proof (pops_length _ _ _ _ P); lia|left; reflexivity|lia|auto].
  destruct (rev vs) as [|x r] eqn:E.
  - exfalso. apply Hne. rewrite <- (rev_involutive vs), E. reflexivity.
  - assert (Hl : last vs VUnit = x).
    { rewrite <- (rev_involutive vs), E. cbn [rev]. apply last_last. }
    rewrite Hl. reflexivity.
Qed.

Lemma flag_absent nm pr ab l :
  aeval_flag nm pr (Some ab) l =
  match aeval_flag nm pr None l with
  | (AErr _ _, l') => (AOk ab, l')
  | x => x
  end.
Proof. unfold aeval_flag. destruct (afind (matches_arg nm false) l) as [[i a]|]; reflexivity. Qed.

Lemma repeat_map {A B} (p : B) (os : list A) : map (fun _ => p) os = repeat p (length os).
Proof. induction os; cbn; congruence. Qed.

(* ------------------------------------------------------------------ one item of the level *)
Section ItemStep.
Variable items : list citem.
Hypothesis Hdis : disjoint_names items.

Lemma item_step fuel k it lo t v :
  nth_error items k = Some it -> WF items lo t -> kept k t -> length (untag t) < fuel ->
  item_value it (kvals k t) = Some v ->
  aeval fuel (compile_item it) (untag t) = (AOk v, untag (filter (keep (S k)) t)).
Proof.
  intros Hit W Kp Hf Hv.
  destruct it as [n|n p a|n p|n|n p|n mv ty ar]; cbn [compile_item item_value] in *.
  - (* switch *)
    pose proof (flag_pops items Hdis k _ Hit (VBool true) lo t eq_refl W Kp) as P. cbn [item_named] in P.
    cbn [aeval]. rewrite flag_absent.
    destruct (kvals k t) as [|o [|o2 r]]; cbn [length repeat] in P; try discriminate; inversion Hv; subst.
    + destruct (pops_none _ _ _ P) as [E El]. rewrite E, El. reflexivity.
    + rewrite (pops_one _ _ _ _ P). reflexivity.
  - (* flag *)
    pose proof (flag_pops items Hdis k _ Hit p lo t eq_refl W Kp) as P. cbn [item_named] in P.
    cbn [aeval]. rewrite flag_absent.
    destruct (kvals k t) as [|o [|o2 r]]; cbn [length repeat] in P; try discriminate; inversion Hv; subst.
    + destruct (pops_none _ _ _ P) as [E El]. rewrite E, El. reflexivity.
    + rewrite (pops_one _ _ _ _ P). reflexivity.
  - (* req_flag *)
    pose proof (flag_pops items Hdis k _ Hit p lo t eq_refl W Kp) as P. cbn [item_named] in P.
    cbn [aeval].
    destruct (kvals k t) as [|o [|o2 r]]; cbn [length repeat] in P; try discriminate; inversion Hv; subst.
    apply (pops_one _ _ _ _ P).
  - (* count *)
    pose proof (flag_pops items Hdis k _ Hit VUnit lo t eq_refl W Kp) as P. cbn [item_named] in P.
    cbn [aeval]. change (fun l : lv => aeval_flag n VUnit None l) with (aeval_flag n VUnit None). inversion Hv; subst.
    rewrite (count_all _ fuel _ _ _ P Hf). rewrite repeat_length. reflexivity.
  - (* req_flag many *)
    pose proof (flag_pops items Hdis k _ Hit p lo t eq_refl W Kp) as P. cbn [item_named] in P.
    cbn [aeval]. change (fun l : lv => aeval_flag n p None l) with (aeval_flag n p None). inversion Hv; subst.
    rewrite (many_all _ fuel _ _ _ P Hf). rewrite repeat_map. reflexivity.
  - (* argument *)
    destruct (convert_all ty (kvals k t)) as [vs|] eqn:Cv; [|discriminate].
    pose proof (arg_pops items Hdis k _ Hit ty lo t eq_refl W Kp vs Cv) as P. cbn [item_named] in P.
    destruct ar; cbn [aeval compile_item]; try change (fun l : lv => aeval_arg n ty l) with (aeval_arg n ty).
    + (* required *) destruct vs as [|x [|y r]]; try discriminate. inversion Hv; subst. apply (pops_one _ _ _ _ P).
    + (* optional *) destruct vs as [|x [|y r]]; try discriminate; inversion Hv; subst.
      * apply optional_none. exact P.
      * apply optional_one. exact P.
    + (* many *) inversion Hv; subst. apply many_all; assumption.
    + (* some *) destruct vs as [|x r]; [discriminate|]. inversion Hv; subst. apply some_all; [exact P|discriminate|exact Hf].
    + (* fallback *) destruct vs as [|x [|y r]]; try discriminate; inversion Hv; subst.
      * apply fallback_none. exact P.
      * apply fallback_one. exact P.
    + (* last *) destruct vs as [|x r]; [discriminate|]. inversion Hv; subst.
      rewrite (last_all _ fuel _ _ _ P ltac:(discriminate) Hf). reflexivity.
Qed.
End ItemStep.

(* ------------------------------------------------------------------ E. all items, then the positional suffix *)
Section Fields.
Variable items : list citem.
Hypothesis Hdis : disjoint_names items.

Lemma occs_flag lo i a j t : WF items (S i) t -> lo <= i ->
  occs_of ((i, a, RKey j) :: t) = (j, None) :: occs_of t.
Proof.
  intros W _. destruct t as [|[[i2 b2] r2] t2]; [reflexivity|]. destruct r2; try reflexivity. inversion W.
Qed.

(* filtering away the items below k does not change what item j >= k sees *)
Lemma kvals_filter k j lo t : WF items lo t -> k <= j -> kvals j (filter (keep k) t) = kvals j t.
Proof.
  intros W Hj. unfold kvals.
  induction W as [lo|lo i a j' it t Hl Hk Ho Ha W IH|lo i a j' it b w t Hl Hk Ho Ha Hv W IH|lo i a t Hl Hw W IH|lo i a t Hl Hfo W IH].
  - reflexivity.
  - rewrite (occs_flag lo i a j' t W Hl). cbn [filter keep snd].
    destruct (Nat.leb k j') eqn:K.
    + rewrite (occs_flag lo i a j' _ (WF_filter items k _ _ W) Hl). unfold occ_of in *. cbn [filter fst].
      destruct (Nat.eqb j' j); cbn [map]; rewrite IH; reflexivity.
    + apply Nat.leb_gt in K. unfold occ_of in *. cbn [filter fst].
      assert (E : Nat.eqb j' j = false) by (apply Nat.eqb_neq; lia). rewrite E. exact IH.
  - cbn [filter keep snd]. destruct (Nat.leb k j') eqn:K.
    + cbn [occs_of]. unfold occ_of in *. cbn [filter fst]. destruct (Nat.eqb j' j); cbn [map]; rewrite IH; reflexivity.
    + apply Nat.leb_gt in K. cbn [occs_of]. unfold occ_of in *. cbn [filter fst].
      assert (E : Nat.eqb j' j = false) by (apply Nat.eqb_neq; lia). rewrite E. exact IH.
  - cbn [filter keep snd occs_of]. exact IH.
  - cbn [filter keep snd occs_of]. exact IH.
Qed.

Lemma length_filter_le {A} (f : A -> bool) l : length (filter f l) <= length l.
Proof. induction l as [|x t IH]; cbn; [lia|]. destruct (f x); cbn; lia. Qed.

Lemma untag_length t : length (untag t) = length t.
Proof. apply map_length. Qed.

Lemma items_go fuel lo t0 rest :
  WF items lo t0 -> length t0 < fuel ->
  forall its k acc vs,
    (forall p it, nth_error its p = Some it -> nth_error items (k + p) = Some it) ->
    items_values its k (occs_of t0) = Some vs ->
    acon_go (map (aeval fuel) (map compile_item its) ++ rest) (untag (filter (keep k) t0)) acc None =
    acon_go rest (untag (filter (keep (k + length its)) t0)) (rev vs ++ acc) None.
Proof.
  intros W Hf. induction its as [|it its IH]; intros k acc vs Hn Hv.
  - cbn in Hv. inversion Hv; subst. cbn. rewrite Nat.add_0_r. reflexivity.
  - cbn [items_values] in Hv.
    destruct (item_value it (occ_of k (occs_of t0))) as [v|] eqn:Ev; [|discriminate].
    destruct (items_values its (S k) (occs_of t0)) as [vs'|] eqn:Er; [|discriminate].
    inversion Hv; subst vs. cbn [map app acon_go].
    assert (Hk : nth_error items k = Some it) by (rewrite <- (Nat.add_0_r k); apply Hn; reflexivity).
    assert (St : aeval fuel (compile_item it) (untag (filter (keep k) t0)) =
                 (AOk v, untag (filter (keep (S k)) (filter (keep k) t0)))).
    { apply (item_step items Hdis fuel k it lo); auto.
      - apply WF_filter. exact W.
      - apply kept_filter.
      - rewrite untag_length. pose proof (length_filter_le (keep k) t0). lia.
      - fold (kvals k t0) in Ev. rewrite (kvals_filter k k lo t0 W (le_n k)). exact Ev. }
    rewrite St. rewrite (filter_keep_S k t0).
    rewrite (IH (S k) (v :: acc) vs').
    + cbn [length rev]. replace (S k + length its) with (k + S (length its)) by lia.
      rewrite <- app_assoc. reflexivity.
    + intros p it' Hp. replace (S k + p) with (k + S p) by lia. apply Hn. exact Hp.
    + exact Er.
Qed.
End Fields.

Section Positional.
Variable items : list citem.

Definition all_words (t : tl3) : Prop := forall x, In x t -> snd x = RWord.

Lemma all_words_tail x t : all_words (x :: t) -> all_words t.
Proof. intros H y Hy. apply H. right. exact Hy. Qed.

Lemma word_pops ty lo t :
  WF items lo t -> all_words t -> forall vs, conv_words ty (words_of t) = Some vs ->
  Pops (aeval_pos ty) (untag t) vs [].
Proof.
  intros W. induction W as [lo|lo i a j it t Hl Hk Ho Ha W IH|lo i a j it b w t Hl Hk Ho Ha Hv W IH|lo i a t Hl Hw W IH|lo i a t Hl Hfo W IH];
    intros Aw vs Hc.
  - cbn in Hc. inversion Hc; subst. apply Pops_nil. reflexivity.
  - specialize (Aw _ (or_introl eq_refl)). discriminate.
  - specialize (Aw _ (or_introl eq_refl)). discriminate.
  - cbn [words_of flat_map snd fst app] in Hc. fold (words_of t) in Hc. cbn [conv_words] in Hc.
    unfold conv_word in Hc. destruct (convert ty (word_of a)) as [v|e] eqn:Cv; [|discriminate].
    destruct (conv_words ty (words_of t)) as [vs'|] eqn:Cr; [|discriminate]. inversion Hc; subst vs.
    cbn [untag map fst]. fold (untag t).
    apply (Pops_cons _ _ v (untag t)); [|unfold untag; cbn [length map]; lia|apply IH; [eapply all_words_tail; eauto|reflexivity]].
    rewrite (pos_head ty i a (untag t) Hw (WF_above' items _ _ W)). unfold aconvert. rewrite Cv. reflexivity.
  - specialize (Aw _ (or_introl eq_refl)). discriminate.
Qed.

Lemma all_words_nil t : all_words t -> words_of t = [] -> t = [].
Proof.
  intros Aw H. destruct t as [|[[i a] r] t]; [reflexivity|].
  pose proof (Aw _ (or_introl eq_refl)) as Hr. cbn in Hr. subst r. cbn in H. discriminate.
Qed.

Lemma pos_go fuel ps : forall lo t acc pv,
  WF items lo t -> all_words t -> length t < fuel ->
  pos_values ps (words_of t) = Some pv ->
  acon_go (map (aeval fuel) (map compile_pos ps)) (untag t) acc None = (AOk (VTuple (rev (rev pv ++ acc))), []).
Proof.
  induction ps as [|p ps IH]; intros lo t acc pv W Aw Hf Hv.
  - cbn [pos_values] in Hv. destruct (words_of t) eqn:Ew; [|discriminate]. inversion Hv; subst.
    rewrite (all_words_nil t Aw Ew). reflexivity.
  - cbn [pos_values] in Hv. cbn [map acon_go]. unfold compile_pos at 1.
    destruct (cp_par p) eqn:Par.
    + (* required *)
      destruct W as [lo|lo i a j it t Hl Hk Ho Ha W|lo i a j it b w t Hl Hk Ho Ha Hvv W|lo i a t Hl Hw W|lo i a t Hl Hfo W].
      * cbn in Hv. discriminate.
      * specialize (Aw _ (or_introl eq_refl)). discriminate.
      * specialize (Aw _ (or_introl eq_refl)). discriminate.
      * cbn [words_of flat_map snd fst app] in Hv. fold (words_of t) in Hv.
        unfold conv_word in Hv. destruct (convert (cp_ty p) (word_of a)) as [v|e] eqn:Cv; [|discriminate].
        destruct (pos_values ps (words_of t)) as [vs|] eqn:Er; [|discriminate]. inversion Hv; subst pv.
        cbn [aeval untag map fst]. fold (untag t).
        rewrite (pos_head (cp_ty p) i a (untag t) Hw (WF_above' items _ _ W)). unfold aconvert. rewrite Cv.
        rewrite (IH (S i) t (v :: acc) vs W (all_words_tail _ _ Aw) ltac:(cbn in Hf; lia) Er).
        cbn [rev]. rewrite <- app_assoc. reflexivity.
      * specialize (Aw _ (or_introl eq_refl)). discriminate.
    + (* optional *)
      destruct W as [lo|lo i a j it t Hl Hk Ho Ha W|lo i a j it b w t Hl Hk Ho Ha Hvv W|lo i a t Hl Hw W|lo i a t Hl Hfo W].
      * cbn [words_of flat_map] in Hv. destruct (pos_values ps []) as [vs|] eqn:Er; [|discriminate]. inversion Hv; subst pv.
        cbn [aeval untag map]. unfold aoptional, aparse_option. cbn. rewrite Nat.eqb_refl. cbn.
        change (@nil (nat * arg)) with (untag []).
        rewrite (IH lo [] (VNone :: acc) vs (WF_nil items lo) (fun _ F => match F with end) ltac:(cbn in *; lia) Er).
        cbn [rev]. rewrite <- app_assoc. reflexivity.
      * specialize (Aw _ (or_introl eq_refl)). discriminate.
      * specialize (Aw _ (or_introl eq_refl)). discriminate.
      * cbn [words_of flat_map snd fst app] in Hv. fold (words_of t) in Hv.
        unfold conv_word in Hv. destruct (convert (cp_ty p) (word_of a)) as [v|e] eqn:Cv; [|discriminate].
        destruct (pos_values ps (words_of t)) as [vs|] eqn:Er; [|discriminate]. inversion Hv; subst pv.
        cbn [aeval untag map fst]. fold (untag t). unfold aoptional, aparse_option.
        change (fun l : lv => aeval_pos (cp_ty p) l) with (aeval_pos (cp_ty p)).
        rewrite (pos_head (cp_ty p) i a (untag t) Hw (WF_above' items _ _ W)). unfold aconvert. rewrite Cv. cbn [lt_len].
        rewrite (IH (S i) t (VSome v :: acc) vs W (all_words_tail _ _ Aw) ltac:(cbn in Hf; lia) Er).
        cbn [rev]. rewrite <- app_assoc. reflexivity.
      * specialize (Aw _ (or_introl eq_refl)). discriminate.
    + (* many *)
      destruct (conv_words (cp_ty p) (words_of t)) as [vs|] eqn:Cw; [|discriminate].
      destruct (pos_values ps []) as [r|] eqn:Er; [|discriminate]. inversion Hv; subst pv.
      cbn [aeval]. change (fun l : lv => aeval_pos (cp_ty p) l) with (aeval_pos (cp_ty p)).
      rewrite (many_all _ fuel _ _ _ (word_pops (cp_ty p) lo t W Aw vs Cw)); [|rewrite untag_length; exact Hf].
      change (@nil (nat * arg)) with (untag []).
      rewrite (IH lo [] (VList vs :: acc) r (WF_nil items lo) (fun _ F => match F with end) ltac:(cbn in *; lia) Er).
      cbn [rev]. rewrite <- app_assoc. reflexivity.
    + (* some *)
      destruct (words_of t) as [|w0 ws0] eqn:Ew; [discriminate|]. rewrite <- Ew in Hv.
      destruct (conv_words (cp_ty p) (words_of t)) as [vs|] eqn:Cw; [|discriminate].
      destruct (pos_values ps []) as [r|] eqn:Er; [|discriminate]. inversion Hv; subst pv.
      cbn [aeval]. change (fun l : lv => aeval_pos (cp_ty p) l) with (aeval_pos (cp_ty p)).
      assert (Hne : vs <> []).
      { intros ->. rewrite Ew in Cw. cbn in Cw. destruct (conv_word (cp_ty p) w0); [|discriminate].
        destruct (conv_words (cp_ty p) ws0); discriminate. }
      rewrite (some_all _ fuel _ _ _ (word_pops (cp_ty p) lo t W Aw vs Cw) Hne); [|rewrite untag_length; exact Hf].
      change (@nil (nat * arg)) with (untag []).
      rewrite (IH lo [] (VList vs :: acc) r (WF_nil items lo) (fun _ F => match F with end) ltac:(cbn in *; lia) Er).
      cbn [rev]. rewrite <- app_assoc. reflexivity.
Qed.
End Positional.

(* ------------------------------------------------------------------ F. the scan produces a well-formed tagging *)
Fixpoint tag_from (ix : nat) (ts : list (arg * bool)) (rs : list role) : tl3 :=
  match ts, rs with
  | (a, m) :: ts', r :: rs' => (if m then [] else [(ix, a, r)]) ++ tag_from (S ix) ts' rs'
  | _, _ => []
  end.

Fixpoint live_from (ix : nat) (ts : list (arg * bool)) : lv :=
  match ts with
  | [] => []
  | (a, m) :: r => (if m then [] else [(ix, a)]) ++ live_from (S ix) r
  end.

Lemma att_cons_done r o w res a :
  att_cons r o w res = ScDone a ->
  exists a', res = ScDone a' /\ a = mkAttr (r ++ at_roles a') (o ++ at_occ a') (w ++ at_words a').
Proof. destruct res; cbn; intros H; inversion H; eauto. Qed.

Section Scan.
Variable items : list citem.
Variable anc : list citem.
Variable tail : ctail.

Definition scan_good (ix : nat) (ts : list (arg * bool)) (a : attribution) : Prop :=
  let t := tag_from ix ts (at_roles a) in
  WF items ix t /\ occs_of t = at_occ a /\ words_of t = at_words a /\ untag t = live_from ix ts /\
  (forall x, In x t -> snd x <> RMark).

Lemma scan_wf n : forall ts, length ts <= n -> forall ix a,
  scan items anc tail ts = ScDone a -> scan_good ix ts a.
Proof.
  induction n as [|n IH]; intros ts Hn ix a H.
  - destruct ts; [|cbn in Hn; lia]. cbn in H. inversion H; subst. cbn. repeat split; try constructor. intros x [].
  - destruct ts as [|[x m] rest]; [cbn in H; inversion H; subst; cbn; repeat split; try constructor; intros x0 []|].
    cbn [scan] in H. cbn [length] in Hn.
    destruct m.
    + (* the `--` item *)
      apply att_cons_done in H. destruct H as (a' & H & ->).
      destruct (IH rest ltac:(lia) (S ix) a' H) as (W & Ho & Hw & Hu & Hnf).
      unfold scan_good. cbn [at_roles at_occ at_words tag_from app].
      repeat split; auto. eapply WF_weaken; [|exact W]. lia.
    + destruct x as [c adj os|nm adj os|w|w|w].
      * (* short *)
        destruct (is_help (Short c adj os)); [discriminate|].
        destruct (find_owner items (Short c adj os) 0) as [[k it]|] eqn:Fo; [|destruct (find_owner anc _ 0); [discriminate|]; destruct (unspec_later _ _ _ _ _); discriminate].
        destruct (is_argument it) eqn:Ia.
        -- destruct rest as [|[b mb] rest']; [destruct (unspec_later _ _ _ _ _); discriminate|].
           destruct b as [c2 a2 o2|n2 a2 o2|w|w|w]; destruct mb; try (destruct (unspec_later _ _ _ _ _); discriminate).
           ++ (* ArgWord *)
              apply att_cons_done in H. destruct H as (a' & H & ->). cbn [length] in Hn.
              destruct (IH rest' ltac:(lia) (S (S ix)) a' H) as (W & Ho & Hw & Hu & Hnf).
              unfold scan_good. cbn [at_roles at_occ at_words tag_from app].
              repeat split.
              ** eapply WF_arg; eauto. reflexivity.
              ** cbn [occs_of word_of]. rewrite Ho. reflexivity.
              ** cbn [words_of flat_map snd app]. exact Hw.
              ** cbn [untag map fst live_from app]. f_equal. f_equal. exact Hu.
              ** intros x [<-|[<-|Hx]]; [discriminate|discriminate|exact (Hnf x Hx)].
           ++ (* Word *)
              apply att_cons_done in H. destruct H as (a' & H & ->). cbn [length] in Hn.
              destruct (IH rest' ltac:(lia) (S (S ix)) a' H) as (W & Ho & Hw & Hu & Hnf).
              unfold scan_good. cbn [at_roles at_occ at_words tag_from app].
              repeat split.
              ** eapply WF_arg; eauto. reflexivity.
              ** cbn [occs_of word_of]. rewrite Ho. reflexivity.
              ** cbn [words_of flat_map snd app]. exact Hw.
              ** cbn [untag map fst live_from app]. f_equal. f_equal. exact Hu.
              ** intros x [<-|[<-|Hx]]; [discriminate|discriminate|exact (Hnf x Hx)].
        -- apply att_cons_done in H. destruct H as (a' & H & ->).
           destruct (IH rest ltac:(lia) (S ix) a' H) as (W & Ho & Hw & Hu & Hnf).
           unfold scan_good. cbn [at_roles at_occ at_words tag_from app].
           repeat split.
           ++ eapply WF_flag; eauto.
           ++ rewrite (occs_flag items ix ix _ k _ W (le_n ix)). rewrite Ho. reflexivity.
           ++ cbn [words_of flat_map snd app]. exact Hw.
           ++ cbn [untag map fst live_from app]. f_equal. exact Hu.
           ++ intros x [<-|Hx]; [discriminate|exact (Hnf x Hx)].
      * (* long *)
        destruct (is_help (Long nm adj os)); [discriminate|].
        destruct (find_owner items (Long nm adj os) 0) as [[k it]|] eqn:Fo; [|destruct (find_owner anc _ 0); [discriminate|]; destruct (unspec_later _ _ _ _ _); discriminate].
        destruct (is_argument it) eqn:Ia.
        -- destruct rest as [|[b mb] rest']; [destruct (unspec_later _ _ _ _ _); discriminate|].
           destruct b as [c2 a2 o2|n2 a2 o2|w|w|w]; destruct mb; try (destruct (unspec_later _ _ _ _ _); discriminate).
           ++ apply att_cons_done in H. destruct H as (a' & H & ->). cbn [length] in Hn.
              destruct (IH rest' ltac:(lia) (S (S ix)) a' H) as (W & Ho & Hw & Hu & Hnf).
              unfold scan_good. cbn [at_roles at_occ at_words tag_from app].
              repeat split.
              ** eapply WF_arg; eauto. reflexivity.
              ** cbn [occs_of word_of]. rewrite Ho. reflexivity.
              ** cbn [words_of flat_map snd app]. exact Hw.
              ** cbn [untag map fst live_from app]. f_equal. f_equal. exact Hu.
              ** intros x [<-|[<-|Hx]]; [discriminate|discriminate|exact (Hnf x Hx)].
           ++ apply att_cons_done in H. destruct H as (a' & H & ->). cbn [length] in Hn.
              destruct (IH rest' ltac:(lia) (S (S ix)) a' H) as (W & Ho & Hw & Hu & Hnf).
              unfold scan_good. cbn [at_roles at_occ at_words tag_from app].
              repeat split.
              ** eapply WF_arg; eauto. reflexivity.
              ** cbn [occs_of word_of]. rewrite Ho. reflexivity.
              ** cbn [words_of flat_map snd app]. exact Hw.
              ** cbn [untag map fst live_from app]. f_equal. f_equal. exact Hu.
              ** intros x [<-|[<-|Hx]]; [discriminate|discriminate|exact (Hnf x Hx)].
        -- apply att_cons_done in H. destruct H as (a' & H & ->).
           destruct (IH rest ltac:(lia) (S ix) a' H) as (W & Ho & Hw & Hu & Hnf).
           unfold scan_good. cbn [at_roles at_occ at_words tag_from app].
           repeat split.
           ++ eapply WF_flag; eauto.
           ++ rewrite (occs_flag items ix ix _ k _ W (le_n ix)). rewrite Ho. reflexivity.
           ++ cbn [words_of flat_map snd app]. exact Hw.
           ++ cbn [untag map fst live_from app]. f_equal. exact Hu.
           ++ intros x [<-|Hx]; [discriminate|exact (Hnf x Hx)].
      * (* ArgWord *) destruct (unspec_later _ _ _ _ _); discriminate.
      * (* Word *)
        destruct (dashy w); [discriminate|].
        destruct tail as [|ps|cs].
        -- destruct (unspec_later _ _ _ _ _); discriminate.
        -- apply att_cons_done in H. destruct H as (a' & H & ->).
           destruct (IH rest ltac:(lia) (S ix) a' H) as (W & Ho & Hw & Hu & Hnf).
           unfold scan_good. cbn [at_roles at_occ at_words tag_from app].
           repeat split.
           ++ apply WF_word; auto.
           ++ cbn [occs_of]. exact Ho.
           ++ cbn [words_of flat_map snd fst app word_of]. f_equal. exact Hw.
           ++ cbn [untag map fst live_from app]. f_equal. exact Hu.
           ++ intros x [<-|Hx]; [discriminate|exact (Hnf x Hx)].
        -- destruct (find_cmd cs w); [discriminate|]. destruct (unspec_later _ _ _ _ _); discriminate.
      * (* PosWord *)
        destruct tail as [|ps|cs]; try (destruct (unspec_later _ _ _ _ _); discriminate).
        apply att_cons_done in H. destruct H as (a' & H & ->).
        destruct (IH rest ltac:(lia) (S ix) a' H) as (W & Ho & Hw & Hu & Hnf).
        unfold scan_good. cbn [at_roles at_occ at_words tag_from app].
        repeat split.
        -- apply WF_word; auto.
        -- cbn [occs_of]. exact Ho.
        -- cbn [words_of flat_map snd fst app word_of]. f_equal. exact Hw.
        -- cbn [untag map fst live_from app]. f_equal. exact Hu.
        -- intros x [<-|Hx]; [discriminate|exact (Hnf x Hx)].
Qed.
End Scan.

(* ------------------------------------------------------------------ G. from lists back to run_inner *)
Lemma view_mark its : forall ix sts mk,
  length sts = length its ->
  (forall p st, nth_error sts p = Some st ->
                present st = negb (match mk with Some m => Nat.eqb m (ix + p) | None => false end)) ->
  view_from ix its sts = live_from ix (mark_go mk its ix).
Proof.
  induction its as [|a t IH]; intros ix [|st sts] mk Hl Hp; cbn in Hl; try discriminate; [reflexivity|].
  cbn [view_from mark_go live_from].
  pose proof (Hp 0 st eq_refl) as H0. rewrite Nat.add_0_r in H0. rewrite H0.
  destruct (match mk with Some m => Nat.eqb m ix | None => false end); cbn [negb app]; f_equal;
    (apply IH; [lia|intros p st' Hn; specialize (Hp (S p) st' Hn); replace (S ix + p) with (ix + S p) by lia; exact Hp]).
Qed.

Lemma live_from_length_none its : forall ix, length (live_from ix (mark_go None its ix)) = length its.
Proof. induction its as [|a t IH]; intros ix; cbn; [reflexivity|]. rewrite IH. reflexivity. Qed.

Lemma live_from_length_some its m : forall ix,
  length (live_from ix (mark_go (Some m) its ix)) =
  length its - (if Nat.leb ix m && Nat.ltb m (ix + length its) then 1 else 0).
Proof.
  induction its as [|a t IH]; intros ix; cbn [mark_go live_from length].
  - rewrite Nat.add_0_r. destruct (Nat.leb ix m && Nat.ltb m ix); reflexivity.
  - rewrite app_length, IH.
    destruct (Nat.eqb m ix) eqn:E.
    + apply Nat.eqb_eq in E. subst m. cbn [length].
      assert (A : Nat.leb (S ix) ix = false) by (apply Nat.leb_gt; lia). rewrite A. cbn [andb].
      assert (B : Nat.leb ix ix && Nat.ltb ix (ix + S (length t)) = true).
      { apply andb_true_intro. split; [apply Nat.leb_le|apply Nat.ltb_lt]; lia. }
      rewrite B. lia.
    + apply Nat.eqb_neq in E. cbn [length].
      destruct (Nat.leb (S ix) m && Nat.ltb m (S ix + length t)) eqn:C.
      * apply andb_prop in C. destruct C as [C1 C2]. apply Nat.leb_le in C1. apply Nat.ltb_lt in C2.
        assert (B : Nat.leb ix m && Nat.ltb m (ix + S (length t)) = true).
        { apply andb_true_intro. split; [apply Nat.leb_le|apply Nat.ltb_lt]; lia. }
        rewrite B. lia.
      * assert (B : Nat.leb ix m && Nat.ltb m (ix + S (length t)) = false).
        { apply andb_false_iff in C. apply andb_false_iff. destruct C as [C|C].
          - apply Nat.leb_gt in C. left. apply Nat.leb_gt. lia.
          - apply Nat.ltb_ge in C. right. apply Nat.ltb_ge. lia. }
        rewrite B. lia.
Qed.

Lemma nth_error_Some_lt {A} (l : list A) n x : nth_error l n = Some x -> n < length l.
Proof. intros H. apply nth_error_Some. congruence. Qed.

Lemma construct_amb sf sa name argv :
  snd (construct sf sa name argv) = t_ambiguity (tokenize sf sa argv).
Proof. unfold construct. destruct (t_marker (tokenize sf sa argv)); reflexivity. Qed.

Lemma construct_sim sf sa name argv :
  let t := tokenize sf sa argv in
  Sim (length (t_items t)) (fst (construct sf sa name argv)) (live_from 0 (mark_tokens t)).
Proof.
  cbn zeta. unfold construct, mark_tokens. set (t := tokenize sf sa argv).
  pose proof (tok_go_marker sf sa argv false [] None (fun m E => ltac:(discriminate))) as Hmk.
  fold (tokenize sf sa argv) in Hmk. fold t in Hmk.
  destruct (t_marker t) as [m|] eqn:Hm; cbn [fst].
  - specialize (Hmk m eq_refl).
    constructor; cbn; auto; try lia.
    + rewrite update_nth_length, repeat_length. reflexivity.
    + unfold view. cbn. apply view_mark.
      * rewrite update_nth_length, repeat_length. reflexivity.
      * intros p st Hn. cbn [Nat.add]. destruct (Nat.eqb m p) eqn:E.
        -- apply Nat.eqb_eq in E. subst p. rewrite update_nth_same in Hn by (rewrite repeat_length; exact Hmk).
           inversion Hn; subst. reflexivity.
        -- apply Nat.eqb_neq in E. rewrite update_nth_other in Hn by lia.
           assert (Hp : p < length (t_items t)).
           { apply nth_error_Some_lt in Hn. rewrite repeat_length in Hn. exact Hn. }
           rewrite repeat_nth in Hn by exact Hp. inversion Hn; subst. reflexivity.
    + rewrite live_from_length_some. cbn [Nat.add].
      assert (B : Nat.leb 0 m && Nat.ltb m (length (t_items t)) = true).
      { apply andb_true_intro. split; [reflexivity|apply Nat.ltb_lt; exact Hmk]. }
      rewrite B. lia.
  - constructor; cbn; auto; try lia.
    + apply repeat_length.
    + unfold view. cbn. apply view_mark.
      * apply repeat_length.
      * intros p st Hn. assert (Hp : p < length (t_items t)).
        { apply nth_error_Some_lt in Hn. rewrite repeat_length in Hn. exact Hn. }
        rewrite repeat_nth in Hn by exact Hp. inversion Hn; subst. reflexivity.
    + rewrite live_from_length_none. reflexivity.
Qed.

Lemma WF_roles_lt items lo t : WF items lo t ->
  forall x j, In x t -> (snd x = RKey j \/ snd x = RVal j) -> j < length items.
Proof.
  induction 1 as [lo|lo i a k it t Hl Hk Ho Ha W IH|lo i a k it b w t Hl Hk Ho Ha Hv W IH|lo i a t Hl Hw W IH|lo i a t Hl Hfo W IH];
    intros x j Hx Hr.
  - contradiction.
  - destruct Hx as [<-|Hx]; [|eapply IH; eauto]. cbn in Hr.
    destruct (find_owner_spec items a 0 k it Ho) as (_ & Hn & _). rewrite Nat.sub_0_r in Hn.
    apply nth_error_Some_lt in Hn. destruct Hr as [Hr|Hr]; inversion Hr; subst; exact Hn.
  - destruct (find_owner_spec items a 0 k it Ho) as (_ & Hn & _). rewrite Nat.sub_0_r in Hn.
    apply nth_error_Some_lt in Hn.
    destruct Hx as [<-|[<-|Hx]]; [| |eapply IH; eauto]; cbn in Hr; destruct Hr as [Hr|Hr]; inversion Hr; subst; exact Hn.
  - destruct Hx as [<-|Hx]; [|eapply IH; eauto]. cbn in Hr. destruct Hr; discriminate.
  - destruct Hx as [<-|Hx]; [|eapply IH; eauto]. cbn in Hr. destruct Hr; discriminate.
Qed.

Definition no_foreign (t : tl3) : Prop := forall x, In x t -> snd x <> RMark.

Lemma filter_all_words items lo t : WF items lo t -> no_foreign t -> all_words (filter (keep (length items)) t).
Proof.
  intros W Nf x Hx. apply filter_In in Hx. destruct Hx as [Hin Hk]. unfold keep in Hk.
  destruct (snd x) as [j|j| |] eqn:E; try reflexivity.
  - apply Nat.leb_le in Hk. pose proof (WF_roles_lt items lo t W x j Hin (or_introl E)). lia.
  - apply Nat.leb_le in Hk. pose proof (WF_roles_lt items lo t W x j Hin (or_intror E)). lia.
  - exfalso. apply (Nf x Hin). exact E.
Qed.

Lemma words_filter k t : words_of (filter (keep k) t) = words_of t.
Proof.
  induction t as [|x t IH]; [reflexivity|].
  cbn [filter]. unfold keep at 1. destruct (snd x) as [j|j| |] eqn:E.
  - destruct (Nat.leb k j); cbn [words_of flat_map]; rewrite E; cbn [app]; apply IH.
  - destruct (Nat.leb k j); cbn [words_of flat_map]; rewrite E; cbn [app]; apply IH.
  - cbn [words_of flat_map]. rewrite E. f_equal. apply IH.
  - cbn [words_of flat_map]. rewrite E. cbn [app]. apply IH.
Qed.

Lemma filter_keep_0 t : filter (keep 0) t = t.
Proof. apply filter_all. intros x Hx. unfold keep. destruct (snd x); reflexivity. Qed.

Lemma aevals_plist fuel l : aevals fuel (plist_of l) = map (aeval fuel) l.
Proof. induction l as [|p t IH]; cbn; [reflexivity|]. rewrite IH. reflexivity. Qed.

Lemma lflatp_plist l : forallb flatp l = true -> lflatp (plist_of l) = true.
Proof. induction l as [|p t IH]; cbn; [reflexivity|]. intros H. apply andb_prop in H. destruct H as [H1 H2]. rewrite H1. auto. Qed.

Lemma flatp_item it : named_ok (item_named it) = true -> flatp (compile_item it) = true.
Proof.
  intros H. destruct it as [n|n p a|n p|n|n p|n mv ty ar]; cbn in *; try exact H; try (rewrite H; reflexivity).
  destruct ar; cbn; rewrite H; reflexivity.
Qed.

Lemma flatp_pos p : flatp (compile_pos p) = true.
Proof. unfold compile_pos. destruct (cp_par p); reflexivity. Qed.

(* the conventional flat level: names are unique, every item has a name and no environment
   variable, and there are at least two fields (construct! of one field is the field itself) *)
Definition flat_ok (items : list citem) (tail : ctail) : Prop :=
  disjoint_names items /\
  Forall (fun it => named_ok (item_named it) = true) items /\
  match tail with
  | TNone => 2 <= length items
  | TPos ps => 2 <= length items + length ps
  | TCmds _ => False
  end.

Definition tail_fields (tail : ctail) : list parser :=
  match tail with TPos ps => map compile_pos ps | _ => [] end.

Lemma compile_flat items tail : flat_ok items tail ->
  compile (Level items tail) = PCon (plist_of (map compile_item items ++ tail_fields tail)) /\
  flatp (compile (Level items tail)) = true.
Proof.
  intros (Hd & Hn & Hl).
  assert (E : compile (Level items tail) = PCon (plist_of (map compile_item items ++ tail_fields tail))).
  { cbn [compile]. destruct tail; try reflexivity. contradiction. }
  split; [exact E|]. rewrite E. cbn [flatp].
  assert (Hf : forallb flatp (map compile_item items ++ tail_fields tail) = true).
  { rewrite forallb_app. apply andb_true_intro. split.
    - rewrite forallb_forall. intros p Hp. apply in_map_iff in Hp. destruct Hp as (it & <- & Hin).
      apply flatp_item. rewrite Forall_forall in Hn. apply Hn. exact Hin.
    - destruct tail; cbn; try reflexivity. rewrite forallb_forall. intros p Hp. apply in_map_iff in Hp.
      destruct Hp as (q & <- & _). apply flatp_pos. }
  pose proof (lflatp_plist _ Hf) as Hlf.
  assert (Hlen : 2 <= length (map compile_item items ++ tail_fields tail)).
  { rewrite app_length, map_length. destruct tail; cbn; rewrite ?map_length; lia. }
  destruct (map compile_item items ++ tail_fields tail) as [|p1 [|p2 r]]; cbn in Hlen; try lia.
  cbn [plist_of] in *. exact Hlf.
Qed.

Lemma att_cons_cmd r o w res a sub rest :
  att_cons r o w res = ScCmd a sub rest -> exists a', res = ScCmd a' sub rest.
Proof. destruct res; cbn; intros H; inversion H; eauto. Qed.

Lemma scan_not_cmd items anc tail n : (forall cs, tail <> TCmds cs) ->
  forall ts, length ts <= n -> forall a sub rest, scan items anc tail ts <> ScCmd a sub rest.
Proof.
  intros Ht. induction n as [|n IH]; intros ts Hn a sub rest H.
  - destruct ts; [cbn in H; discriminate|cbn in Hn; lia].
  - destruct ts as [|[x m] r]; [cbn in H; discriminate|]. cbn [scan] in H. cbn [length] in Hn.
    destruct m.
    + apply att_cons_cmd in H. destruct H as [a' H]. eapply IH; [|exact H]. lia.
    + destruct x as [c adj os|nm adj os|w|w|w].
      * destruct (is_help _); [discriminate|].
        destruct (find_owner items _ 0) as [[k it]|]; [|destruct (find_owner anc _ 0); [discriminate|]; destruct (unspec_later _ _ _ _ _); discriminate].
        destruct (is_argument it).
        -- destruct r as [|[b mb] r']; [destruct (unspec_later _ _ _ _ _); discriminate|].
           destruct b; destruct mb; try (destruct (unspec_later _ _ _ _ _); discriminate).
           ++ apply att_cons_cmd in H. destruct H as [a' H]. eapply IH; [|exact H]. cbn in Hn. lia.
           ++ apply att_cons_cmd in H. destruct H as [a' H]. eapply IH; [|exact H]. cbn in Hn. lia.
        -- apply att_cons_cmd in H. destruct H as [a' H]. eapply IH; [|exact H]. lia.
      * destruct (is_help _); [discriminate|].
        destruct (find_owner items _ 0) as [[k it]|]; [|destruct (find_owner anc _ 0); [discriminate|]; destruct (unspec_later _ _ _ _ _); discriminate].
        destruct (is_argument it).
        -- destruct r as [|[b mb] r']; [destruct (unspec_later _ _ _ _ _); discriminate|].
           destruct b; destruct mb; try (destruct (unspec_later _ _ _ _ _); discriminate).
           ++ apply att_cons_cmd in H. destruct H as [a' H]. eapply IH; [|exact H]. cbn in Hn. lia.
           ++ apply att_cons_cmd in H. destruct H as [a' H]. eapply IH; [|exact H]. cbn in Hn. lia.
        -- apply att_cons_cmd in H. destruct H as [a' H]. eapply IH; [|exact H]. lia.
      * destruct (unspec_later _ _ _ _ _); discriminate.
      * destruct (dashy w); [discriminate|]. destruct tail as [|ps|cs].
        -- destruct (unspec_later _ _ _ _ _); discriminate.
        -- apply att_cons_cmd in H. destruct H as [a' H]. eapply IH; [|exact H]. lia.
        -- exfalso. eapply Ht. reflexivity.
      * destruct tail as [|ps|cs]; try (destruct (unspec_later _ _ _ _ _); discriminate).
        apply att_cons_cmd in H. destruct H as [a' H]. eapply IH; [|exact H]. lia.
Qed.

Lemma mark_go_length mk its : forall ix, length (mark_go mk its ix) = length its.
Proof. induction its as [|a t IH]; intros ix; cbn; [reflexivity|]. rewrite IH. reflexivity. Qed.

Lemma live_from_le ts : forall ix, length (live_from ix ts) <= length ts.
Proof. induction ts as [|[a m] r IH]; intros ix; cbn; [lia|]. rewrite app_length. specialize (IH (S ix)). destruct m; cbn; lia. Qed.

(* a flat level evaluated on any state whose live tokens are the level's tokens *)
Lemma level_eval_flat env n items tail anc ts ix s v f :
  flat_ok items tail -> Sim n s (live_from ix ts) -> length ts <= n ->
  denote_level (S f) (Level items tail) anc ts = Accept v ->
  exists s', eval env (compile (Level items tail)) s = (ROk v, s') /\ Sim n s' [].
Proof.
  intros Hok S0 Hlen Hd. pose proof Hok as (Hdis & Hnames & Hl2).
  destruct (compile_flat items tail Hok) as [Ec Hflat].
  cbn [denote_level] in Hd.
  assert (Hnc : forall cs, tail <> TCmds cs) by (intros cs ->; contradiction).
  destruct (scan items anc tail ts) as [a|a sub rest| |] eqn:Sc; try discriminate;
    [|exfalso; eapply (scan_not_cmd items anc tail _ Hnc ts (le_n _)); exact Sc].
  destruct (items_values items 0 (at_occ a)) as [vs|] eqn:Ev; [|discriminate].
  destruct (scan_wf items anc tail _ ts (le_n _) ix a Sc) as (W & Ho & Hw & Hu & Hnf).
  set (t0 := tag_from ix ts (at_roles a)) in *.
  assert (Hlt0 : length t0 < S (S n)).
  { rewrite <- (untag_length t0), Hu. pose proof (live_from_le ts ix) as L. lia. }
  assert (Ha : aeval (S (S n)) (compile (Level items tail)) (untag t0) = (AOk v, [])).
  { rewrite Ec. cbn [aeval]. rewrite aevals_plist, map_app.
    rewrite <- (filter_keep_0 t0) at 1.
    rewrite (items_go items Hdis (S (S n)) ix t0 _ W Hlt0 items 0 [] vs (fun p it H => H)); [|rewrite Ho; exact Ev].
    cbn [Nat.add]. rewrite app_nil_r.
    set (tw := filter (keep (length items)) t0).
    assert (Ww : WF items ix tw) by (apply WF_filter; exact W).
    assert (Aw : all_words tw) by (eapply filter_all_words; [exact W|exact Hnf]).
    assert (Hww : words_of tw = at_words a).
    { unfold tw. rewrite words_filter. exact Hw. }
    destruct tail as [|ps|cs]; [| |contradiction].
    - cbn [tail_fields map acon_go]. destruct (at_words a) eqn:Eaw; [|discriminate].
      rewrite (all_words_nil tw Aw Hww). inversion Hd; subst. rewrite rev_involutive. reflexivity.
    - cbn [tail_fields]. destruct (pos_values ps (at_words a)) as [pv|] eqn:Ep; [|discriminate].
      inversion Hd; subst v.
      rewrite (pos_go items (S (S n)) ps ix tw (rev vs) pv Ww Aw); [| |rewrite Hww; exact Ep].
      + rewrite rev_app_distr, !rev_involutive. reflexivity.
      + unfold tw. pose proof (length_filter_le (keep (length items)) t0). lia. }
  rewrite Hu in Ha.
  destruct (eval_sim env n (compile (Level items tail)) Hflat s _ S0) as [R S1].
  rewrite Ha in R, S1. cbn [fst snd] in R, S1.
  destruct (eval env (compile (Level items tail)) s) as [r s1]. cbn [fst snd] in R, S1.
  destruct r as [v'|e|w|]; cbn in R; try contradiction. subst v'. eauto.
Qed.

(* C01, sentences: what the declared grammar accepts with value v, the parser returns as v *)
Theorem denote_accept_flat feat env items tail argv v :
  flat_ok items tail ->
  denote (Level items tail) argv = Accept v ->
  run_inner feat env (compile_options (Level items tail)) None argv = OutOk v.
Proof.
  intros Hok Hd.
  unfold denote in Hd. unfold run_inner, run_inner_state, initial_state.
  destruct (short_tables (compile_options (Level items tail))) as [sf sa].
  pose proof (construct_sim sf sa None argv) as S0. cbn zeta in S0.
  pose proof (construct_amb sf sa None argv) as Hamb.
  set (t := tokenize sf sa argv) in *.
  destruct (construct sf sa None argv) as [s0 amb0]. cbn [fst snd] in S0, Hamb. subst amb0.
  destruct (t_ambiguity t) as [amb|] eqn:Ea; [discriminate|].
  assert (Hlen : length (mark_tokens t) <= length (t_items t)) by (unfold mark_tokens; rewrite mark_go_length; lia).
  destruct (level_eval_flat env _ items tail [] (mark_tokens t) 0 s0 v _ Hok S0 Hlen Hd) as (s1 & Ee & S1).
  unfold compile_options. rewrite run_sub_eq, Ee.
  unfold run_sub_body. cbn [andb].
  unfold first_item_ix. rewrite (find_item_view _ s1 [] (fun _ => true) S1). reflexivity.
Qed.

(* ------------------------------------------------------------------ a decidable sufficient condition for flat_ok *)
Lemma mem_N_in c l : mem_N c l = true -> exists d, In d l /\ (c =? d)%N = true.
Proof. unfold mem_N. intros H. apply existsb_exists in H. destruct H as (d & Hd & E). eauto. Qed.

Lemma share_match a b x :
  matches_arg a false x = true -> matches_arg b false x = true -> share a b = true.
Proof.
  unfold share. destruct x as [c adj os|l adj os|w|w|w]; cbn; try discriminate; rewrite !andb_true_r.
  - intros Ha Hb. apply orb_true_intro. left. unfold mem_N in Ha. apply existsb_exists in Ha. destruct Ha as (d & Hd & E).
    apply existsb_exists. exists d. split; [exact Hd|]. apply N.eqb_eq in E. subst d. exact Hb.
  - intros Ha Hb. apply orb_true_intro. right. unfold mem_bytes in Ha. apply existsb_exists in Ha. destruct Ha as (d & Hd & E).
    apply existsb_exists. exists d. split; [exact Hd|].
    assert (l = d).
    { clear -E. revert d E. induction l as [|x t IH]; intros [|y d] E; cbn in E; try discriminate; [reflexivity|].
      apply andb_prop in E. destruct E as [E1 E2]. apply N.eqb_eq in E1. subst. f_equal. apply IH. exact E2. }
    subst d. exact Hb.
Qed.

Lemma share_sym a b : share a b = true -> share b a = true.
Proof.
  unfold share. intros H. apply orb_prop in H. apply orb_true_intro. destruct H as [H|H]; [left|right].
  - apply existsb_exists in H. destruct H as (c & Hc & M). apply mem_N_in in M. destruct M as (d & Hd & E).
    apply N.eqb_eq in E. subst d. apply existsb_exists. exists c. split; [exact Hd|].
    unfold mem_N. apply existsb_exists. exists c. split; [exact Hc|apply N.eqb_refl].
  - apply existsb_exists in H. destruct H as (l & Hl & M). unfold mem_bytes in M. apply existsb_exists in M.
    destruct M as (d & Hd & E).
    assert (l = d).
    { clear -E. revert d E. induction l as [|x t IH]; intros [|y d] E; cbn in E; try discriminate; [reflexivity|].
      apply andb_prop in E. destruct E as [E1 E2]. apply N.eqb_eq in E1. subst. f_equal. apply IH. exact E2. }
    subst d. apply existsb_exists. exists l. split; [exact Hd|]. unfold mem_bytes. apply existsb_exists. exists l.
    split; [exact Hl|]. clear. induction l; cbn; [reflexivity|]. rewrite N.eqb_refl. exact IHl.
Qed.

Lemma disjointb_sound items : disjointb items = true -> disjoint_names items.
Proof.
  induction items as [|x t IH]; intros H a j k itj itk Hj Hk Mj Mk.
  - destruct j; discriminate.
  - cbn [disjointb] in H. apply andb_prop in H. destruct H as [Hx Ht].
    rewrite forallb_forall in Hx.
    destruct j as [|j]; destruct k as [|k]; cbn in Hj, Hk.
    + reflexivity.
    + inversion Hj; subst itj. apply nth_error_In in Hk. specialize (Hx _ Hk).
      rewrite (share_match _ _ a Mj Mk) in Hx. discriminate.
    + inversion Hk; subst itk. apply nth_error_In in Hj. specialize (Hx _ Hj).
      rewrite (share_sym _ _ (share_match _ _ a Mj Mk)) in Hx. discriminate.
    + f_equal. eapply (IH Ht a j k); eauto.
Qed.

Lemma flat_okb_sound items tail : flat_okb items tail = true -> flat_ok items tail.
Proof.
  unfold flat_okb, flat_ok. intros H. apply andb_prop in H. destruct H as [H H3]. apply andb_prop in H. destruct H as [H1 H2].
  split; [apply disjointb_sound; exact H1|]. split.
  - apply Forall_forall. rewrite forallb_forall in H2. exact H2.
  - destruct tail; try discriminate; apply Nat.leb_le in H3; exact H3.
Qed.
