(* OkReach.v -- what a SUCCESSFUL evaluation consumed.
   eval_reach (Reach.v) bounds every evaluation, failing ones included, and therefore has to allow
   the help/version lookups of run_subparser.  A successful evaluation never keeps the ledger of a
   failed sub-evaluation (wrappers roll back, alternatives keep one fork, retries restart from the
   saved state), so its final state is reachable using only the consumers of the parser itself:
   the help/version flags are not among them, and an alternative contributes the consumers of ONE
   branch. *)
From BpafLemmas Require Import Tac EvalEq Find Reach Ledger NoLoss.

Fixpoint pkinds_ok (K : ckind -> Prop) (p : parser) {struct p} : Prop :=
  match p with
  | PFlag n _ _ => K (KFlag n)
  | PArg n _ _ _ => K (KArgKey n) /\ K (KArgVal n)
  | PPos _ _ _ _ => K KPos
  | PAny _ _ _ _ => K KAny
  | PCmd name aliases shorts _ _ sub =>
    (forall w, In w ((name :: aliases) ++ map utf8_encode_char shorts) -> K (KCmd w)) /\
    opkinds_ok K sub
  | PCon fields | PAdj fields => lpkinds_ok K fields
  | POr a b => pkinds_ok K a /\ pkinds_ok K b
  | POptional q _ | PMany q _ | PSome q _ _ | PCollect q _ | PCount q | PLast q
  | PFallback q _ _ | PFallbackWith q _ _ | PGuard q _ _ | PParse q _ | PMap q _
  | PHide q | PUsage q _ | PGroupHelp q _ | PBoxed q => pkinds_ok K q
  | PPure _ | PPureWith _ | PFail _ => True
  end
with lpkinds_ok (K : ckind -> Prop) (ps : plist) {struct ps} : Prop :=
  match ps with
  | PNil => True
  | PCons q t => pkinds_ok K q /\ lpkinds_ok K t
  end
with opkinds_ok (K : ckind -> Prop) (o : oparser) {struct o} : Prop :=
  match o with
  | Options q inf => pkinds_ok K q
  end.

Section Ok.
Variable K : ckind -> Prop.
Variable env : bytes -> option bytes.

Definition ev_ok (ev : evaluator) : Prop := forall s v s', ev s = (ROk v, s') -> reach K s s'.
Definition run_ok (run : state -> sres * state) : Prop :=
  forall s v s', run s = (SOk v, s') -> reach K s s'.

Ltac rt := match goal with
           | H1 : reach K ?a ?b, H2 : reach K ?b ?c |- reach K ?a ?c => exact (reach_trans K _ _ _ H1 H2)
           end.

Lemma eval_flag_ok n p a : K (KFlag n) -> ev_ok (eval_flag env n p a).
Proof.
  intros Hk s v s' H. pose proof (eval_flag_reach K env n p a Hk s) as R. rewrite H in R. exact R.
Qed.
Lemma eval_arg_ok n mv ty adj : K (KArgKey n) -> K (KArgVal n) -> ev_ok (eval_arg env n mv ty adj).
Proof.
  intros H1 H2 s v s' H. pose proof (eval_arg_reach K env n mv ty adj H1 H2 s) as R. rewrite H in R. exact R.
Qed.
Lemma eval_pos_ok' mv ty pos help : K KPos -> ev_ok (eval_pos mv ty pos help).
Proof.
  intros Hk s v s' H. pose proof (eval_pos_reach K mv ty pos help Hk s) as R. rewrite H in R. exact R.
Qed.
Lemma eval_any_ok mv help check anywhere : K KAny -> ev_ok (eval_any mv help check anywhere).
Proof.
  intros Hk s v s' H. pose proof (eval_any_reach K mv help check anywhere Hk s) as R. rewrite H in R. exact R.
Qed.

Lemma parse_option_ok ev len s catch o len' s1 :
  ev_ok ev -> parse_option ev len s catch = (o, len', s1) ->
  match o with OSome _ | ONone => reach K s s1 | _ => True end.
Proof.
  intros Hev H. unfold parse_option in H. destruct (ev s) as [r s'] eqn:He.
  destruct r.
  - apply Hev in He. destruct (lt_len (remaining s') len); inv H; exact He.
  - destruct (catch || _ || _); inv H; [constructor|exact I].
  - inv H. exact I.
  - inv H. exact I.
Qed.

Lemma many_loop_ok ev catch fuel len s acc u acc' s' :
  ev_ok ev -> many_loop ev catch fuel len s acc = (ROk u, acc', s') -> reach K s s'.
Proof.
  intros Hev. revert len s acc. induction fuel as [|f IH]; intros len s acc H; cbn in H; [discriminate|].
  destruct (parse_option ev len s catch) as [[o len'] s1] eqn:Hp.
  pose proof (parse_option_ok _ _ _ _ _ _ _ Hev Hp) as R.
  destruct o; try discriminate.
  - inv H. exact R.
  - apply IH in H. rt.
Qed.

Lemma count_loop_ok ev fuel len s cur n last u n' last' s' :
  ev_ok ev -> count_loop ev fuel len s cur n last = (ROk u, n', last', s') -> reach K s s'.
Proof.
  intros Hev. revert len s cur n last.
  induction fuel as [|f IH]; intros len s cur n last H; cbn in H; [discriminate|].
  destruct (parse_option ev len s false) as [[o len'] s1] eqn:Hp.
  pose proof (parse_option_ok _ _ _ _ _ _ _ Hev Hp) as R.
  destruct o; try discriminate.
  - inv H. exact R.
  - destruct (Nat.eqb cur (remaining s1)); [inv H; exact R|]. apply IH in H. rt.
Qed.

Lemma optional_ok ev c : ev_ok ev -> ev_ok (optional_body ev c).
Proof.
  intros Hev s v s' H. unfold optional_body in H.
  destruct (parse_option ev None s c) as [[o len'] s1] eqn:Hp.
  pose proof (parse_option_ok _ _ _ _ _ _ _ Hev Hp) as R. destruct o; inv H; exact R.
Qed.

Lemma many_ok ev c : ev_ok ev -> ev_ok (many_body ev c).
Proof.
  intros Hev s v s' H. unfold many_body in H.
  destruct (many_loop ev c (loop_fuel s) None s []) as [[r acc] s1] eqn:Hm.
  destruct r; inv H. eapply many_loop_ok; eauto.
Qed.

Lemma some_ok ev m c : ev_ok ev -> ev_ok (some_body ev m c).
Proof.
  intros Hev s v s' H. unfold some_body in H.
  destruct (many_loop ev c (loop_fuel s) None s []) as [[r acc] s1] eqn:Hm.
  destruct r; try (inv H; fail). destruct acc; inv H. eapply many_loop_ok; eauto.
Qed.

Lemma count_ok ev : ev_ok ev -> ev_ok (count_body ev).
Proof.
  intros Hev s v s' H. unfold count_body in H.
  destruct (count_loop ev (loop_fuel s) None s (remaining s) O None) as [[[r n] l] s1] eqn:Hm.
  destruct r; inv H. eapply count_loop_ok; eauto.
Qed.

Lemma last_ok ev : ev_ok ev -> ev_ok (last_body ev).
Proof.
  intros Hev s v s' H. unfold last_body in H.
  destruct (count_loop ev (loop_fuel s) None s (remaining s) O None) as [[[r n] l] s1] eqn:Hm.
  destruct r; try (inv H; fail).
  assert (R1 : reach K s s1) by (eapply count_loop_ok; eauto).
  destruct l; [inv H; exact R1|]. apply Hev in H. rt.
Qed.

Lemma fallback_with_ok ev fb : ev_ok ev -> ev_ok (fallback_with_body ev fb).
Proof.
  intros Hev s v s' H. unfold fallback_with_body in H.
  destruct (ev s) as [r s1] eqn:He. destruct r; try (inv H; fail).
  - inv H. eapply Hev; eauto.
  - destruct (can_catch m); [destruct fb|]; inv H. constructor.
Qed.

Lemma guard_ok ev c m : ev_ok ev -> ev_ok (guard_body ev c m).
Proof.
  intros Hev s v s' H. unfold guard_body in H.
  destruct (ev s) as [r s1] eqn:He. destruct r; try (inv H; fail).
  destruct (c v0); inv H. eapply Hev; eauto.
Qed.

Lemma parse_ok ev f : ev_ok ev -> ev_ok (parse_body ev f).
Proof.
  intros Hev s v s' H. unfold parse_body in H.
  destruct (ev s) as [r s1] eqn:He. destruct r; try (inv H; fail).
  destruct (f v0); inv H. eapply Hev; eauto.
Qed.

Lemma map_ok ev f : ev_ok ev -> ev_ok (map_body ev f).
Proof.
  intros Hev s v s' H. unfold map_body in H.
  destruct (ev s) as [r s1] eqn:He. destruct r; inv H. eapply Hev; eauto.
Qed.

Lemma hide_ok ev : ev_ok ev -> ev_ok (hide_body ev).
Proof.
  intros Hev s v s' H. unfold hide_body in H.
  destruct (ev s) as [r s1] eqn:He. destruct r; try (inv H; fail).
  - inv H. eapply Hev; eauto.
  - destruct m; inv H.
Qed.

Lemma con_go_ok ff evs s first acc err v s' :
  Forall ev_ok evs -> con_go ff evs s first acc err = (ROk v, s') -> err = None /\ reach K s s'.
Proof.
  intros Hall. revert s first acc err.
  induction Hall as [|ev evs Hev Hall IH]; intros s first acc err H; cbn in H.
  - destruct err; inv H. split; [reflexivity|apply reach_current].
  - destruct (ev s) as [r s1] eqn:He. destruct r; try (inv H; fail).
    + apply Hev in He. destruct (IH _ _ _ _ H) as [E R]. split; [exact E|rt].
    + destruct (ff && first); [inv H|]. destruct (IH _ _ _ _ H) as [E _]. destruct err; discriminate.
Qed.

Lemma con_ok ff evs : Forall ev_ok evs -> ev_ok (con_body ff evs).
Proof.
  intros Hall s v s' H. unfold con_body, con_reset in H.
  destruct (con_go ff evs s true [] None) as [r s1] eqn:Hc. inv H.
  destruct (con_go_ok _ _ _ _ _ _ _ _ Hall Hc) as [_ R].
  eapply reach_trans; [exact R|apply reach_current].
Qed.

(* ---- adjacent *)
Definition adj_step_ok (s0 : state) (st : adj_step) : Prop :=
  match st with
  | AReturn _ fin => reach K s0 fin
  | AStop r _ => forall v, r <> ROk v
  | ANext _ => True
  end.

Lemma adj_inner_ok ev s0 orig before fuel this_arg best :
  ev_ok ev -> reach K s0 orig -> reach K s0 this_arg ->
  adj_step_ok s0 (adj_inner ev orig before fuel this_arg best).
Proof.
  intros Hev Ho. revert this_arg best. induction fuel as [|f IH]; intros this_arg best Ht.
  - rewrite adj_inner_O. cbn. discriminate.
  - rewrite adj_inner_S. destruct (ev this_arg) as [r ta] eqn:He.
    destruct r; cbn; try discriminate.
    + apply Hev in He. assert (Hta : reach K s0 ta) by rt.
      destruct (adjacent_scope ta orig) as [| |a b]; cbn; try discriminate.
      * destruct (set_scope ta (sc_start orig) (sc_end orig)) as [fin|] eqn:Hs; cbn; [|discriminate].
        eapply reach_trans; [exact Hta|eapply reach_scope; eauto].
      * destruct (set_scope orig a b) as [ta'|] eqn:Hs; cbn; [|discriminate].
        apply IH. eapply reach_trans; [exact Ho|eapply reach_scope; eauto].
    + destruct (Nat.ltb before (remaining ta)); cbn; [discriminate|].
      destruct (Nat.ltb _ _); exact I.
Qed.

Lemma adj_try_ok ev s0 orig width start best :
  ev_ok ev -> reach K s0 orig -> adj_step_ok s0 (adj_try ev orig width start best).
Proof.
  intros Hev Ho. unfold adj_try.
  destruct (set_scope orig start (length (items orig))) as [ta0|] eqn:H0; cbn; [|discriminate].
  assert (R0 : reach K s0 ta0) by (eapply reach_trans; [exact Ho|eapply reach_scope; eauto]).
  destruct (set_scope ta0 start (start + width)) as [scratch|]; cbn; [|discriminate].
  destruct (Nat.eqb (remaining scratch) 0); cbn; [exact I|].
  destruct (ev scratch) as [r0 scratch'].
  assert (Hmain :
    adj_step_ok s0
      (if Nat.eqb (remaining scratch) (remaining scratch') then ANext best
       else match set_scope ta0 start (sc_end orig) with
            | None => AStop (RPanic P_set_scope) orig
            | Some this_arg1 =>
              match (if Nat.ltb (remaining this_arg1) (sc_end orig - start)
                     then let '(a, b) := adjacently_available_from this_arg1 start in
                          set_scope this_arg1 a b
                     else Some this_arg1) with
              | None => AStop (RPanic P_set_scope) orig
              | Some this_arg2 =>
                adj_inner ev orig (remaining this_arg1) (loop_fuel orig) this_arg2 best
              end
            end)).
  { destruct (Nat.eqb (remaining scratch) (remaining scratch')); cbn; [exact I|].
    destruct (set_scope ta0 start (sc_end orig)) as [ta1|] eqn:H2; cbn; [|discriminate].
    assert (R1 : reach K s0 ta1) by (eapply reach_trans; [exact R0|eapply reach_scope; eauto]).
    destruct (Nat.ltb (remaining ta1) (sc_end orig - start)).
    - destruct (adjacently_available_from ta1 start) as [a b].
      destruct (set_scope ta1 a b) as [ta2|] eqn:H3; cbn; [|discriminate].
      apply adj_inner_ok; auto. eapply reach_trans; [exact R1|eapply reach_scope; eauto].
    - apply adj_inner_ok; auto. }
  destruct r0; cbn; try discriminate; exact Hmain.
Qed.

Lemma adj_outer_ok ev s0 orig width starts best v s' :
  ev_ok ev -> reach K s0 orig ->
  adj_outer ev orig width starts best = (ROk v, s') -> reach K s0 s'.
Proof.
  intros Hev Ho. revert best. induction starts as [|st more IH]; intros best H; cbn [adj_outer] in H; [adj_nil H|].
  pose proof (adj_try_ok ev s0 orig width st best Hev Ho) as Ht.
  destruct (adj_try ev orig width st best); cbn in Ht.
  - inv H. exact Ht.
  - eapply IH; eauto.
  - inv H. exfalso. eapply Ht; eauto.
Qed.

Lemma adjacent_ok ev fi : ev_ok ev -> ev_ok (eval_adjacent ev fi).
Proof.
  intros Hev s v s' H. unfold eval_adjacent in H. destruct fi; [|discriminate].
  eapply adj_outer_ok; eauto. constructor.
Qed.

(* ---- commands *)
Lemma cmd_ok name aliases shorts help adjacent m_sub i_sub run :
  (forall w, In w ((name :: aliases) ++ map utf8_encode_char shorts) -> K (KCmd w)) ->
  run_ok run ->
  ev_ok (cmd_body name aliases shorts help adjacent m_sub i_sub run).
Proof.
  intros Hk Hrun s v s' H. unfold cmd_body in H.
  pose proof (take_cmd_any_reach K _ s Hk) as R1.
  destruct (take_cmd_any _ s) as [hit s1]. cbn in R1.
  destruct hit; [|inv H].
  destruct (current s1) as [cur|]; [|inv H].
  destruct (set_scope s1 cur (sc_end s1)) as [s2|] eqn:H2; [|inv H].
  pose proof (reach_scope K _ _ _ _ H2) as R2.
  remember (set_path s2 (path s2 ++ [name])) as s3 eqn:E3.
  assert (R3 : reach K s s3).
  { eapply reach_trans; [exact R1|]. eapply reach_trans; [exact R2|]. subst s3. apply reach_path. }
  destruct adjacent.
  - match type of H with context [adjacently_available_from ?x ?y] =>
      destruct (adjacently_available_from x y) as [a b] end.
    destruct (set_scope s3 a b) as [s4|] eqn:H4; [|inv H].
    pose proof (reach_scope K _ _ _ _ H4) as R4.
    destruct (run s4) as [r s5] eqn:Hrun4.
    destruct r as [v5|f|w|]; try (inv H; fail).
    + apply Hrun in Hrun4.
      match type of H with context [set_scope s5 ?x ?y] =>
        destruct (set_scope s5 x y) as [s6|] eqn:H6 end; inv H.
      pose proof (reach_scope K _ _ _ _ H6) as R6.
      eapply reach_trans; [exact R3|]. eapply reach_trans; [exact R4|]. eapply reach_trans; [exact Hrun4|exact R6].
    + destruct (adjacent_scope s5 s3) as [| |na nb]; try (inv H; fail).
      destruct (set_scope s3 na nb) as [o1|] eqn:H7; [|inv H].
      pose proof (reach_scope K _ _ _ _ H7) as R7.
      destruct (run o1) as [r2 o2] eqn:Hrun2.
      destruct r2; try (inv H; fail).
      apply Hrun in Hrun2.
      match type of H with context [set_scope o2 ?x ?y] =>
        destruct (set_scope o2 x y) as [o3|] eqn:H9 end; inv H.
      pose proof (reach_scope K _ _ _ _ H9) as R9.
      eapply reach_trans; [exact R3|]. eapply reach_trans; [exact R7|]. eapply reach_trans; [exact Hrun2|exact R9].
  - destruct (run s3) as [r s4] eqn:Hrun3. destruct r; inv H.
    apply Hrun in Hrun3. rt.
Qed.

End Ok.

(* alternatives: the state handed back was produced by ONE branch *)
Lemma or_ok2 Ka Kb eva evb s v s' :
  ev_ok Ka eva -> ev_ok Kb evb ->
  or_body eva evb s = (ROk v, s') -> reach Ka s s' \/ reach Kb s s'.
Proof.
  intros Ha Hb H. unfold or_body in H.
  destruct (eva s) as [ra sa] eqn:Ea. destruct (evb s) as [rb sb] eqn:Eb.
  assert (Hcase : forall r0 s0, this_or_that ra rb s sa sb = (r0, s0) ->
            (match r0 with
             | inl true => (ra, s0) | inl false => (rb, s0) | inr e => (RErr e, s0) end)
            = (ROk v, s') -> reach Ka s s' \/ reach Kb s s').
  { intros r0 s0 Ht E. apply this_or_that_state in Ht.
    destruct r0 as [[|]|e]; inv E.
    - left. apply Ha in Ea. destruct Ht as [->|[w [Hw ->]]]; [exact Ea|].
      eapply reach_trans; [exact Ea|apply save_conflicts_reach; exact Hw].
    - right. apply Hb in Eb. destruct Ht as [->|[w [Hw ->]]]; [exact Eb|].
      eapply reach_trans; [exact Eb|apply save_conflicts_reach; exact Hw]. }
  destruct ra; try (inv H; fail); destruct rb; try (inv H; fail);
    destruct (this_or_that _ _ s sa sb) as [r0 s0] eqn:Ht; eapply Hcase; eauto.
Qed.

Lemma or_ok K eva evb : ev_ok K eva -> ev_ok K evb -> ev_ok K (or_body eva evb).
Proof. intros Ha Hb s v s' H. destruct (or_ok2 K K _ _ _ _ _ Ha Hb H); assumption. Qed.

Theorem eval_ok_all K env :
  (forall p, pkinds_ok K p -> ev_ok K (eval env p)) /\
  (forall ps, lpkinds_ok K ps -> Forall (ev_ok K) (evals env ps)) /\
  (forall o, opkinds_ok K o -> run_ok K (run_sub env o)).
Proof.
  apply parser_plist_oparser_ind; intros; cbn [pkinds_ok lpkinds_ok opkinds_ok] in *.
  all: try (intros s0 v0 s0' E0; autorewrite with evaleq in E0; revert s0 v0 s0' E0).
  - apply eval_flag_ok; auto.
  - apply eval_arg_ok; tauto.
  - apply eval_pos_ok'; auto.
  - apply eval_any_ok; auto.
  - apply cmd_ok; [tauto|]. apply H. tauto.
  - intros s ? s' E. destruct fields as [|q1 [|q2 t]].
    + rewrite eval_PCon_nil in E. inv E. apply reach_current.
    + rewrite eval_PCon_one in E. specialize (H H0). rewrite evals_cons in H. inv H.
      match goal with Hg : ev_ok K (eval env q1) |- _ => eapply Hg; eauto end.
    + rewrite eval_PCon_many in E. eapply (con_ok K _ _ (H H0)); exact E.
  - apply adjacent_ok. apply con_ok; auto.
  - apply or_ok; [apply H|apply H0]; tauto.
  - apply optional_ok; auto.
  - apply many_ok; auto.
  - apply some_ok; auto.
  - apply many_ok; auto.
  - apply count_ok; auto.
  - apply last_ok; auto.
  - apply fallback_with_ok; auto.
  - apply fallback_with_ok; auto.
  - apply guard_ok; auto.
  - apply parse_ok; auto.
  - apply map_ok; auto.
  - apply hide_ok; auto.
  - apply H; auto.
  - apply H; auto.
  - intros s ? s' E. inv E. apply reach_current.
  - intros s ? s' E. destruct r; inv E. constructor.
  - intros s ? s' E. inv E.
  - apply H; auto.
  - rewrite evals_nil. constructor.
  - rewrite evals_cons. constructor; [apply H|apply H0]; tauto.
  - intros s v s' E. rewrite run_sub_eq in E.
    destruct (eval env p s) as [r s1] eqn:He.
    apply run_sub_body_nl in E. destruct E as (-> & -> & _).
    eapply H; eauto.
Qed.
