(* ConvTotal.v -- running the parser of a conventional flat level is total (C04/C01): for every
   argument vector the outcome is a value, a help/version document or an error message -- never a
   panic outcome of the model, never fuel exhaustion. *)
From Coq Require Import Lia List Bool Arith ZArith.
From BpafModel Require Import Conv.
From BpafLemmas Require Import Tac EvalEq Find Reach Ledger NoLoss C05Lemmas AbsSim AbsTotal ConvRefine.
Import ListNotations.

Fixpoint inv_all (xs : list meta) (is_pos : bool) : option bool :=
  match xs with
  | [] => Some is_pos
  | x :: t => match inv_go x is_pos with Some p => inv_all t p | None => None end
  end.
Lemma inv_and xs b : inv_go (MAnd xs) b = inv_all xs b.
Proof. cbn [inv_go]. revert b. induction xs as [|x t IH]; intros b; cbn; [reflexivity|]. destruct (inv_go x b); [apply IH|reflexivity]. Qed.

Lemma inv_item it : inv_go (meta_of (compile_item it)) false = Some false.
Proof.
  destruct it as [n|n p a|n p|n|n p|n mv ty ar]; cbn [compile_item meta_of].
  - unfold flag_item. destruct (shortlong_of n); reflexivity.
  - unfold flag_item. destruct (shortlong_of n); reflexivity.
  - unfold flag_item. destruct (shortlong_of n); reflexivity.
  - unfold flag_item. destruct (shortlong_of n); reflexivity.
  - unfold flag_item. destruct (shortlong_of n); reflexivity.
  - destruct ar; cbn [meta_of with_suffix is_nil]; unfold arg_item; destruct (shortlong_of n); reflexivity.
Qed.

Lemma inv_pos p b : inv_go (meta_of (compile_pos p)) b = Some true.
Proof. unfold compile_pos. destruct (cp_par p); destruct b; reflexivity. Qed.

Lemma metas_plist l : metas_of (plist_of l) = map meta_of l.
Proof. induction l as [|p t IH]; cbn; [reflexivity|]. rewrite IH. reflexivity. Qed.

Lemma inv_all_items items rest :
  inv_all (map meta_of (map compile_item items) ++ rest) false = inv_all rest false.
Proof.
  induction items as [|it t IH]; cbn [map app inv_all]; [reflexivity|]. rewrite inv_item. exact IH.
Qed.

Lemma inv_all_pos ps : forall b, exists b', inv_all (map meta_of (map compile_pos ps)) b = Some b'.
Proof.
  induction ps as [|p t IH]; intros b; cbn [map inv_all]; [eauto|]. rewrite inv_pos. apply IH.
Qed.

Lemma invariant_flat items tail : flat_ok items tail ->
  invariant_ok (meta_of (compile (Level items tail))) = true.
Proof.
  intros Hok. destruct (compile_flat items tail Hok) as [Ec _]. rewrite Ec. cbn [meta_of].
  destruct Hok as (_ & _ & Hlen).
  assert (Hl2 : 2 <= length (map compile_item items ++ tail_fields tail)).
  { rewrite app_length, map_length. destruct tail; cbn; rewrite ?map_length; try lia; try contradiction. }
  destruct (map compile_item items ++ tail_fields tail) as [|p1 [|p2 r]] eqn:E; cbn in Hl2; try lia.
  cbn [plist_of con_meta]. fold (plist_of r).
  change (meta_of p1 :: metas_of (PCons p2 (plist_of r))) with (metas_of (plist_of (p1 :: p2 :: r))).
  rewrite metas_plist, <- E. unfold invariant_ok. rewrite inv_and, map_app, inv_all_items.
  destruct tail as [|ps|cs]; cbn [tail_fields map inv_all]; [reflexivity| |reflexivity].
  destruct (inv_all_pos ps false) as [b' ->]. reflexivity.
Qed.

(* C04 / C01: total on every vector *)
Definition normal_outcome (o : outcome) : Prop :=
  match o with OutPanic _ | OutFuel => False | _ => True end.

Theorem flat_run_total feat env items tail argv :
  flat_ok items tail ->
  normal_outcome (run_inner feat env (compile_options (Level items tail)) None argv).
Proof.
  intros Hok. destruct (compile_flat items tail Hok) as [_ Hflat].
  pose proof (invariant_flat items tail Hok) as Hinv.
  unfold run_inner, run_inner_state, initial_state.
  destruct (short_tables (compile_options (Level items tail))) as [sf sa].
  pose proof (construct_sim sf sa None argv) as S0. cbn zeta in S0.
  destruct (construct sf sa None argv) as [s0 amb]. cbn [fst] in S0.
  destruct amb as [[ix sh]|]; [exact I|].
  unfold compile_options. rewrite run_sub_eq.
  remember (meta_of (compile (Level items tail))) as mm eqn:Em. clear Em.
  destruct (flat_eval_total env _ (compile (Level items tail)) s0 _ Hflat S0) as [[v Ev]|[e Ev]];
    destruct (eval env (compile (Level items tail)) s0) as [r s1]; cbn [fst] in Ev; subst r;
    unfold run_sub_body; cbn [andb i_help_if_no_args default_info].
  - destruct (first_item_ix s1); [|exact I].
    destruct (info_eval env default_info s1) as [[[d|vv]|] s2]; cbn; try rewrite Hinv; exact I.
  - rewrite andb_false_r.
    destruct e; try (destruct (info_eval env default_info s1) as [[[d|vv]|] s2]; cbn; try rewrite Hinv; exact I).
    destruct f as [h|c|m]; exact I.
Qed.

(* ------------------------------------------------------------------ order does not matter (C03) *)
(* the verdict of a flat level depends on the vector only through, for every item, the sequence of
   its own occurrences, and the sequence of positional words *)
Lemma items_values_ext items : forall k occ1 occ2,
  (forall j, occ_of j occ1 = occ_of j occ2) -> items_values items k occ1 = items_values items k occ2.
Proof.
  induction items as [|it t IH]; intros k occ1 occ2 H; cbn [items_values]; [reflexivity|].
  rewrite (H k), (IH (S k) occ1 occ2 H). reflexivity.
Qed.

Definition same_reading (a1 a2 : attribution) : Prop :=
  (forall j, occ_of j (at_occ a1) = occ_of j (at_occ a2)) /\ at_words a1 = at_words a2.

Theorem order_irrelevant_flat feat env items tail argv1 argv2 sf sa a1 a2 v :
  flat_ok items tail ->
  short_tables (compile_options (Level items tail)) = (sf, sa) ->
  t_ambiguity (tokenize sf sa argv1) = None -> t_ambiguity (tokenize sf sa argv2) = None ->
  scan items [] tail (mark_tokens (tokenize sf sa argv1)) = ScDone a1 ->
  scan items [] tail (mark_tokens (tokenize sf sa argv2)) = ScDone a2 ->
  same_reading a1 a2 ->
  denote (Level items tail) argv1 = Accept v ->
  run_inner feat env (compile_options (Level items tail)) None argv1 = OutOk v /\
  run_inner feat env (compile_options (Level items tail)) None argv2 = OutOk v.
Proof.
  intros Hok Hst A1 A2 S1 S2 [Ho Hw] Hd.
  split; [apply denote_accept_flat; assumption|]. apply denote_accept_flat; [assumption|].
  unfold denote in *. rewrite Hst in *. rewrite A1 in Hd. rewrite A2.
  cbn [denote_level] in *. rewrite S1 in Hd. rewrite S2.
  rewrite <- (items_values_ext items 0 _ _ Ho), <- Hw. exact Hd.
Qed.
