(* DeriveLaws.v -- facts about the derive rules (C17): kebab-case naming and the locality of
   explicit annotations. *)
From Coq Require Import List Bool NArith Lia.
From BpafModel Require Import Derive.
Import ListNotations.

(* ------------------------------------------------------------------ to_kebab_case *)
Definition kebab_char_ok (c : N) : bool := negb (is_upper c) && negb (c =? c_us)%N.

Lemma to_lower_not_upper c : is_upper c = true -> kebab_char_ok (to_lower c) = true.
Proof.
  unfold kebab_char_ok, to_lower, is_upper, c_us. intros H. rewrite H.
  apply andb_prop in H. destruct H as [H1 H2]. apply N.leb_le in H1. apply N.leb_le in H2.
  apply andb_true_intro. split; apply negb_true_iff.
  - apply andb_false_iff. right. apply N.leb_gt. lia.
  - apply N.eqb_neq. lia.
Qed.

(* the derived long name never contains an upper-case ASCII letter or an underscore *)
Theorem kebab_alphabet s : forall b, forallb kebab_char_ok (kebab_go s b) = true.
Proof.
  induction s as [|c t IH]; intros b; cbn [kebab_go]; [reflexivity|].
  destruct (is_upper c) eqn:U.
  - rewrite forallb_app. cbn [forallb]. rewrite (to_lower_not_upper c U), IH.
    destruct b; reflexivity.
  - destruct ((c =? c_hy)%N || (c =? c_us)%N) eqn:E; cbn [forallb]; rewrite IH, andb_true_r.
    + reflexivity.
    + unfold kebab_char_ok. rewrite U. apply orb_false_iff in E. destruct E as [_ E]. rewrite E. reflexivity.
Qed.

(* a name that is already kebab-case is left alone *)
Lemma kebab_fixed s : forallb kebab_char_ok s = true -> forall b, kebab_go s b = s.
Proof.
  induction s as [|c t IH]; intros H b; [reflexivity|].
  cbn [forallb] in H. apply andb_prop in H. destruct H as [Hc Ht].
  unfold kebab_char_ok in Hc. apply andb_prop in Hc. destruct Hc as [Hu Hs].
  apply negb_true_iff in Hu. apply negb_true_iff in Hs.
  cbn [kebab_go]. rewrite Hu, Hs, orb_false_r.
  destruct (c =? c_hy)%N eqn:E.
  - apply N.eqb_eq in E. subst c. rewrite (IH Ht). reflexivity.
  - rewrite (IH Ht). reflexivity.
Qed.

Theorem kebab_idempotent s : to_kebab_case (to_kebab_case s) = to_kebab_case s.
Proof. unfold to_kebab_case. apply kebab_fixed. apply kebab_alphabet. Qed.

(* two different snake_case field names never get the same long name *)
Definition snake_char (c : N) : bool := negb (is_upper c) && negb (c =? c_hy)%N.

Theorem kebab_snake_injective a : forall b ba bb,
  forallb snake_char a = true -> forallb snake_char b = true ->
  kebab_go a ba = kebab_go b bb -> a = b.
Proof.
  induction a as [|x a IH]; intros [|y b] ba bb Ha Hb E.
  - reflexivity.
  - cbn [forallb] in Hb. apply andb_prop in Hb. destruct Hb as [Hy _].
    unfold snake_char in Hy. apply andb_prop in Hy. destruct Hy as [Hu _]. apply negb_true_iff in Hu.
    cbn [kebab_go] in E. rewrite Hu in E. destruct ((y =? c_hy)%N || (y =? c_us)%N); discriminate.
  - cbn [forallb] in Ha. apply andb_prop in Ha. destruct Ha as [Hx _].
    unfold snake_char in Hx. apply andb_prop in Hx. destruct Hx as [Hu _]. apply negb_true_iff in Hu.
    cbn [kebab_go] in E. rewrite Hu in E. destruct ((x =? c_hy)%N || (x =? c_us)%N); discriminate.
  - cbn [forallb] in Ha, Hb. apply andb_prop in Ha. apply andb_prop in Hb.
    destruct Ha as [Hx Ha]. destruct Hb as [Hy Hb].
    unfold snake_char in Hx, Hy. apply andb_prop in Hx. apply andb_prop in Hy.
    destruct Hx as [Hxu Hxh]. destruct Hy as [Hyu Hyh].
    apply negb_true_iff in Hxu. apply negb_true_iff in Hyu. apply negb_true_iff in Hxh. apply negb_true_iff in Hyh.
    cbn [kebab_go] in E. rewrite Hxu, Hyu, Hxh, Hyh in E. cbn [orb] in E.
    destruct (x =? c_us)%N eqn:Ex; destruct (y =? c_us)%N eqn:Ey.
    + injection E as E2. apply N.eqb_eq in Ex. apply N.eqb_eq in Ey. subst. f_equal. eapply IH; eauto.
    + injection E as E1 E2. subst y. rewrite N.eqb_refl in Hyh. discriminate.
    + injection E as E1 E2. subst x. rewrite N.eqb_refl in Hxh. discriminate.
    + injection E as E1 E2. subst y. f_equal. eapply IH; eauto.
Qed.

(* ------------------------------------------------------------------ locality of annotations *)
(* for a named field, naming annotations change the names and nothing else *)
Theorem names_only_names i sh ns ns' c fb h p p' :
  derive_field (mkField (Some i) sh ns c fb h) = Some p ->
  derive_field (mkField (Some i) sh ns' c fb h) = Some p' ->
  pl_cons p = pl_cons p' /\ pl_post p = pl_post p' /\ pl_help p = pl_help p'.
Proof.
  unfold derive_field. cbn [fd_ident fd_shape fd_names fd_cons fd_fallback fd_help orb].
  destruct (match c with Some a => Some (cons_of_ann a) | None => derive_consumer true sh end) as [k|]; [|discriminate].
  destruct (resolve_names (Some i) ns) as [[s1 l1]|]; [|discriminate].
  destruct (resolve_names (Some i) ns') as [[s2 l2]|]; [|discriminate].
  intros H1 H2.
  repeat match type of H1 with context [match ?x with _ => _ end] => destruct x; try discriminate end.
  all: repeat match type of H2 with context [match ?x with _ => _ end] => destruct x; try discriminate end.
  all: inversion H1; inversion H2; subst; cbn; auto.
Qed.

(* the doc comment only becomes the help text *)
Theorem help_only_help i sh ns c fb h h' p :
  derive_field (mkField i sh ns c fb h) = Some p ->
  derive_field (mkField i sh ns c fb h') =
    Some (mkPlan (pl_short p) (pl_long p) (pl_env p) (pl_cons p) (pl_post p) h').
Proof.
  unfold derive_field. cbn [fd_ident fd_shape fd_names fd_cons fd_fallback fd_help].
  repeat match goal with |- context [match ?x with _ => _ end] => destruct x; try discriminate end;
    intros H; inversion H; subst; reflexivity.
Qed.

(* implicit rules by field type, for a field `name: T` without annotations *)
Theorem implicit_rules i sh :
  (2 <= length i)%nat ->
  derive_field (mkField (Some i) sh [] None false None) =
  Some (mkPlan [] [to_kebab_case i] []
               (match sh with ShBool => KSwitch | ShUnit => KReqFlagK | _ => KArgumentK default_metavar end)
               (match sh with ShOptional => [PoOptional] | ShMultiple => [PoMany] | _ => [] end) None).
Proof.
  intros Hl. unfold derive_field. cbn.
  destruct i as [|a [|b t]]; cbn in Hl; try lia.
  destruct sh; reflexivity.
Qed.

(* unnamed fields are positionals *)
Theorem unnamed_is_positional sh :
  sh <> ShBool -> sh <> ShUnit ->
  derive_field (mkField None sh [] None false None) =
  Some (mkPlan [] [] [] (KPositionalK default_metavar)
               (match sh with ShOptional => [PoOptional] | ShMultiple => [PoMany] | _ => [] end) None).
Proof. intros H1 H2. destruct sh; try congruence; reflexivity. Qed.

(* ------------------------------------------------------------------ doc comment blocks of an `options` type *)
Lemma options_help_explicit doc d h f :
  (forall x, d = Some x -> fst (fst (options_help doc d h f)) = Some x) /\
  (forall x, h = Some x -> snd (fst (options_help doc d h f)) = Some x) /\
  (forall x, f = Some x -> snd (options_help doc d h f) = Some x).
Proof. unfold options_help. destruct doc; repeat split; intros x ->; reflexivity. Qed.

(* each part depends on the doc comment and on ITS OWN annotation only *)
Lemma options_help_local doc d h f d' h' f' :
  fst (fst (options_help doc d h f)) = fst (fst (options_help doc d h' f')) /\
  snd (fst (options_help doc d h f)) = snd (fst (options_help doc d' h f')) /\
  snd (options_help doc d h f) = snd (options_help doc d' h' f).
Proof. unfold options_help. destruct doc; repeat split; reflexivity. Qed.

(* without annotations: description = first block, header = second block unless empty, footer = the rest *)
Lemma options_help_from_doc c :
  options_help (Some c) None None None =
  (hd_error (doc_blocks c),
   match tl (doc_blocks c) with b :: _ => if is_nil b then None else Some b | [] => None end,
   let rest := join_rest (tl (tl (doc_blocks c))) [] in if is_nil rest then None else Some rest).
Proof. reflexivity. Qed.
