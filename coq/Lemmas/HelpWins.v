(* HelpWins.v -- C10 for definitions without subcommands (adjacent groups, also nested, are members since a failed
   group hands its caller's scope back: AdjTotal.adjacent_inscope): if the help flag stands on the
   line as an item of its own (and no item of the parser uses its names), the outcome is the help of this
   level -- whatever else is missing, duplicated or malformed.
   Why: (1) only subcommands produce a ready-made failure, so the parser's own error never pre-empts the
   lookup; (2) it neither panics nor runs out of fuel (TotalAll); (3) nobody can consume the help item, so
   it is still available -- and, the scope being kept (AdjTotal.memb_inscope), still in scope -- when
   Info::eval looks for it; a successful parse therefore has a leftover, and `remaining` (exact) is not 0. *)
From Coq Require Import Lia List Bool Arith.
From BpafModel Require Import Wf.
From BpafLemmas Require Import Tac EvalEq Find Reach Ledger NoLoss C05Lemmas AdjLaws LoopLaws Exact TotalLaws AdjTotal TotalAll HelpLaws CmdLaws.
Import ListNotations.

Definition npf (r : eres) : Prop := forall f, r <> RErr (MsgParseFailure f).
Definition npfe (ev : evaluator) : Prop := forall s, npf (fst (ev s)).

Lemma npf_ok v : npf (ROk v).  Proof. intros f H; discriminate. Qed.
Lemma npf_panic w : npf (RPanic w).  Proof. intros f H; discriminate. Qed.
Lemma npf_fuel : npf RFuel.  Proof. intros f H; discriminate. Qed.
#[local] Hint Resolve npf_ok npf_panic npf_fuel : npf.

Ltac npf_msg := let f := fresh in let H := fresh in intros f H; discriminate.

Section NPF.
Variable env : bytes -> option bytes.

Lemma convert_npf ty w s : npf (fst (convert_res ty w s)).
Proof. unfold convert_res. destruct (convert ty w); cbn; npf_msg. Qed.

Lemma flag_npf n p a : npfe (eval_flag env n p a).
Proof.
  intros s. unfold eval_flag. destruct (take_flag n s); cbn; [npf_msg|].
  repeat match goal with |- context [match ?x with _ => _ end] => destruct x; cbn end; npf_msg.
Qed.

Ltac crush_npf :=
  repeat match goal with
         | |- context [match ?x with _ => _ end] => destruct x eqn:?; cbn [fst snd]
         | |- context [if ?x then _ else _] => destruct x eqn:?; cbn [fst snd]
         end; try npf_msg; auto with npf.

Lemma arg_npf n mv ty adj : npfe (eval_arg env n mv ty adj).
Proof.
  intros s. unfold eval_arg. destruct (take_arg n adj s); cbn [fst]; try apply convert_npf; try npf_msg.
  destruct (env_first env (n_env n)); [apply convert_npf|]. crush_npf.
Qed.
Lemma pos_npf mv ty pos help : npfe (eval_pos mv ty pos help).
Proof.
  intros s. unfold eval_pos. destruct (take_positional_word s) as [[[[ix st] w] s']|]; cbn [fst]; [|npf_msg].
  destruct pos, st; cbn [fst]; try apply convert_npf; npf_msg.
Qed.
Lemma any_npf mv help check anywhere : npfe (eval_any mv help check anywhere).
Proof. intros s. unfold eval_any. crush_npf. Qed.

Lemma parse_option_npf ev len s c : npfe ev ->
  match fst (fst (parse_option ev len s c)) with OErr e => forall f, e <> MsgParseFailure f | _ => True end.
Proof.
  intros H. unfold parse_option. specialize (H s). destruct (ev s) as [r s']. cbn [fst] in H.
  destruct r; cbn; repeat (match goal with |- context [if ?x then _ else _] => destruct x end; cbn); auto.
  intros f E. subst. eapply H; reflexivity.
Qed.

Lemma optional_npf ev c : npfe ev -> npfe (optional_body ev c).
Proof.
  intros H s. unfold optional_body. pose proof (parse_option_npf ev None s c H) as P.
  destruct (parse_option ev None s c) as [[o l] s1]. cbn [fst] in P. destruct o; cbn [fst]; try npf_msg.
  intros f E. inversion E; subst. eapply P; reflexivity.
Qed.

Lemma many_loop_npf ev c : npfe ev -> forall fuel len s acc, npf (fst (fst (many_loop ev c fuel len s acc))).
Proof.
  intros H. induction fuel as [|f IH]; intros len s acc; cbn [many_loop]; [cbn; npf_msg|].
  pose proof (parse_option_npf ev len s c H) as P.
  destruct (parse_option ev len s c) as [[o l] s1]. cbn [fst] in P. destruct o; cbn [fst]; try npf_msg; [apply IH|].
  intros f0 E. inversion E; subst. eapply P; reflexivity.
Qed.
Lemma many_npf ev c : npfe ev -> npfe (many_body ev c).
Proof.
  intros H s. unfold many_body. pose proof (many_loop_npf ev c H (loop_fuel s) None s []) as P.
  destruct (many_loop ev c (loop_fuel s) None s []) as [[r acc] s1]. cbn [fst] in *. destruct r; cbn [fst]; try npf_msg; exact P.
Qed.
Lemma some_npf ev m c : npfe ev -> npfe (some_body ev m c).
Proof.
  intros H s. unfold some_body. pose proof (many_loop_npf ev c H (loop_fuel s) None s []) as P.
  destruct (many_loop ev c (loop_fuel s) None s []) as [[r acc] s1]. cbn [fst] in *.
  destruct r; cbn [fst]; try exact P; try npf_msg. destruct acc; cbn; npf_msg.
Qed.
Lemma count_loop_npf ev : npfe ev -> forall fuel len s cur n last,
  npf (fst (fst (fst (count_loop ev fuel len s cur n last)))).
Proof.
  intros H. induction fuel as [|f IH]; intros len s cur n last; cbn [count_loop]; [cbn; npf_msg|].
  pose proof (parse_option_npf ev len s false H) as P.
  destruct (parse_option ev len s false) as [[o l] s1]. cbn [fst] in P. destruct o; cbn [fst]; try npf_msg.
  - destruct (Nat.eqb cur (remaining s1)); cbn [fst]; [npf_msg|apply IH].
  - intros f0 E. inversion E; subst. eapply P; reflexivity.
Qed.
Lemma count_npf ev : npfe ev -> npfe (count_body ev).
Proof.
  intros H s. unfold count_body. pose proof (count_loop_npf ev H (loop_fuel s) None s (remaining s) 0 None) as P.
  destruct (count_loop ev (loop_fuel s) None s (remaining s) 0 None) as [[[r n] l] s1]. cbn [fst] in *.
  destruct r; cbn [fst]; try exact P; npf_msg.
Qed.
Lemma last_npf ev : npfe ev -> npfe (last_body ev).
Proof.
  intros H s. unfold last_body. pose proof (count_loop_npf ev H (loop_fuel s) None s (remaining s) 0 None) as P.
  destruct (count_loop ev (loop_fuel s) None s (remaining s) 0 None) as [[[r n] l] s1]. cbn [fst] in *.
  destruct r; cbn [fst]; try exact P. destruct l; cbn [fst]; [npf_msg|apply H].
Qed.
Lemma fallback_with_npf ev fb : npfe ev -> npfe (fallback_with_body ev fb).
Proof.
  intros H s. unfold fallback_with_body. specialize (H s). destruct (ev s) as [r s']. cbn [fst] in H.
  destruct r; cbn [fst]; try npf_msg. destruct (can_catch m); [destruct fb; cbn; npf_msg|exact H].
Qed.
Lemma guard_npf ev c m : npfe ev -> npfe (guard_body ev c m).
Proof.
  intros H s. unfold guard_body. specialize (H s). destruct (ev s) as [r s']. cbn [fst] in H.
  destruct r; cbn [fst]; try exact H. destruct (c v); cbn; npf_msg.
Qed.
Lemma parse_npf ev f : npfe ev -> npfe (parse_body ev f).
Proof.
  intros H s. unfold parse_body. specialize (H s). destruct (ev s) as [r s']. cbn [fst] in H.
  destruct r; cbn [fst]; try exact H. destruct (f v); cbn; npf_msg.
Qed.
Lemma map_npf ev f : npfe ev -> npfe (map_body ev f).
Proof.
  intros H s. unfold map_body. specialize (H s). destruct (ev s) as [r s']. cbn [fst] in H.
  destruct r; cbn [fst]; try exact H. npf_msg.
Qed.
Lemma hide_npf ev : npfe ev -> npfe (hide_body ev).
Proof.
  intros H s. unfold hide_body. specialize (H s). destruct (ev s) as [r s']. cbn [fst] in H.
  destruct r; cbn [fst]; try exact H. destruct m; cbn [fst]; try exact H. npf_msg.
Qed.

Lemma combine_npf a b : (forall f, a <> MsgParseFailure f) -> (forall f, b <> MsgParseFailure f) ->
  forall f, combine_with a b <> MsgParseFailure f.
Proof.
  intros Ha Hb f. destruct a; try (exfalso; eapply Ha; reflexivity);
    destruct b; try (exfalso; eapply Hb; reflexivity); cbn; try discriminate;
    match goal with |- context [if ?x then _ else _] => destruct x end; discriminate.
Qed.

Lemma or_npf eva evb : npfe eva -> npfe evb -> npfe (or_body eva evb).
Proof.
  intros Ha Hb s. unfold or_body. specialize (Ha s). specialize (Hb s).
  destruct (eva s) as [ra sa]. destruct (evb s) as [rb sb]. cbn [fst] in Ha, Hb.
  assert (M : npf (fst (match this_or_that ra rb s sa sb with
                        | (inl true, s') => (ra, s') | (inl false, s') => (rb, s') | (inr e, s') => (RErr e, s') end))).
  { destruct (this_or_that ra rb s sa sb) as [[[|]|e] s'] eqn:E; cbn [fst]; [exact Ha|exact Hb|].
    unfold this_or_that in E.
    destruct (Nat.compare (depth sa) (depth sb)).
    - destruct ra as [va|ea|wa|], rb as [vb|eb|wb|]; cbn in E; try discriminate;
        try (match type of E with context [if ?x then _ else _] => destruct x end);
        try (match type of E with context [pick_winner ?x ?y] => destruct (pick_winner x y) as [[|] [w|]] end);
        try discriminate.
      inversion E; subst. intros f Hf. inversion Hf as [Hc]. eapply (combine_npf ea eb); [| |exact Hc].
      + intros f0 E0. subst. eapply Ha; reflexivity.
      + intros f0 E0. subst. eapply Hb; reflexivity.
    - destruct rb; cbn in E; inversion E; subst. exact Hb.
    - destruct ra; cbn in E; inversion E; subst. exact Ha. }
  destruct ra; cbn [fst]; try npf_msg; destruct rb; cbn [fst]; try npf_msg; exact M.
Qed.

Lemma con_go_npf ff evs : Forall npfe evs -> forall s first acc err,
  (forall e, err = Some e -> forall f, e <> MsgParseFailure f) ->
  npf (fst (con_go ff evs s first acc err)).
Proof.
  induction 1 as [|ev t Hev _ IH]; intros s first acc err He; cbn [con_go].
  - destruct err; cbn; [|npf_msg]. intros f E. inversion E; subst. eapply He; reflexivity.
  - specialize (Hev s). destruct (ev s) as [r s']. cbn [fst] in Hev.
    destruct r; cbn [fst]; try npf_msg.
    + apply IH. exact He.
    + destruct (ff && first); cbn [fst]; [exact Hev|]. apply IH.
      intros e E. destruct err; inversion E; subst; [eapply He; reflexivity|].
      intros f E2. subst. eapply Hev; reflexivity.
Qed.
Lemma con_npf ff evs : Forall npfe evs -> npfe (con_body ff evs).
Proof.
  intros H s. unfold con_body, con_reset.
  pose proof (con_go_npf ff evs H s true [] None (fun e E => ltac:(discriminate))) as P.
  destruct (con_go ff evs s true [] None) as [r s1]. exact P.
Qed.

(* a group reports what its member parser reported, or that its first item is missing *)
Definition mnpf (m : message) : Prop := forall f, m <> MsgParseFailure f.
Definition stepn (st : adj_step) : Prop :=
  match st with ANext b => mnpf (b_err b) | AStop r _ => npf r | AReturn _ _ => True end.

Lemma npf_err m : mnpf m -> npf (RErr m).
Proof. intros H f E. inversion E. eapply H; eauto. Qed.
Lemma err_npf m : npf (RErr m) -> mnpf m.
Proof. intros H f E. apply (H f). rewrite E. reflexivity. Qed.

Lemma adj_inner_npf ev orig before : npfe ev -> forall fuel ta best, mnpf (b_err best) ->
  stepn (adj_inner ev orig before fuel ta best).
Proof.
  intros Hn. induction fuel as [|f IH]; intros ta best Hb; [cbn; npf_msg|].
  unfold adj_inner; fold adj_inner. pose proof (Hn ta) as N. destruct (ev ta) as [r t1]. cbn [fst] in N.
  destruct r; cbn [stepn]; try npf_msg.
  - destruct (adjacent_scope t1 orig) as [| |a b]; cbn [stepn]; try npf_msg.
    + destruct (set_scope t1 _ _); cbn [stepn]; [exact I|npf_msg].
    + destruct (set_scope orig a b) as [ta'|]; [apply IH; exact Hb|cbn; npf_msg].
  - destruct (Nat.ltb before (remaining t1)); cbn [stepn]; [npf_msg|].
    destruct (Nat.ltb (b_consumed best) (before - remaining t1)); cbn [stepn b_err]; [apply err_npf; exact N|exact Hb].
Qed.

Lemma adj_try_npf ev orig width start best : npfe ev -> mnpf (b_err best) -> stepn (adj_try ev orig width start best).
Proof.
  intros Hn Hb. unfold adj_try.
  destruct (set_scope orig start (length (items orig))) as [t0|]; [|cbn; npf_msg].
  destruct (set_scope t0 start (start + width)) as [sc|]; [|cbn; npf_msg].
  destruct (Nat.eqb (remaining sc) 0); [exact Hb|].
  pose proof (Hn sc) as N. destruct (ev sc) as [r0 sc']. cbn [fst] in N.
  assert (Hgo : stepn (if Nat.eqb (remaining sc) (remaining sc') then ANext best
                   else match set_scope t0 start (sc_end orig) with
                        | None => AStop (RPanic P_set_scope) orig
                        | Some this_arg1 =>
                          match (if Nat.ltb (remaining this_arg1) (sc_end orig - start)
                                 then let '(a, b) := adjacently_available_from this_arg1 start in set_scope this_arg1 a b
                                 else Some this_arg1) with
                          | None => AStop (RPanic P_set_scope) orig
                          | Some this_arg2 => adj_inner ev orig (remaining this_arg1) (loop_fuel orig) this_arg2 best
                          end
                        end)).
  { destruct (Nat.eqb (remaining sc) (remaining sc')); [exact Hb|].
    destruct (set_scope t0 start (sc_end orig)) as [t1|]; [|cbn; npf_msg].
    destruct (Nat.ltb (remaining t1) (sc_end orig - start)).
    - destruct (adjacently_available_from t1 start) as [a b].
      destruct (set_scope t1 a b) as [t2|]; [apply adj_inner_npf; assumption|cbn; npf_msg].
    - apply adj_inner_npf; assumption. }
  destruct r0; try exact Hgo; cbn; npf_msg.
Qed.

Lemma adj_outer_npf ev orig width : npfe ev -> forall starts best, mnpf (b_err best) ->
  npf (fst (adj_outer ev orig width starts best)).
Proof.
  intros Hn. induction starts as [|st more IH]; intros best Hb; cbn [adj_outer].
  - destruct (set_scope (b_args best) (sc_start orig) (sc_end orig)); cbn [fst]; [apply npf_err; exact Hb|npf_msg].
  - pose proof (adj_try_npf ev orig width st best Hn Hb) as N.
    destruct (adj_try ev orig width st best) as [v s|b|r s]; cbn [fst stepn] in *; [npf_msg|apply IH; exact N|exact N].
Qed.

Lemma adjacent_npf ev fi : npfe ev -> npfe (eval_adjacent ev fi).
Proof.
  intros Hn s. unfold eval_adjacent. destruct fi as [it|]; [|cbn; npf_msg].
  apply adj_outer_npf; [exact Hn|]. intros f E. discriminate.
Qed.

Theorem memb_npf :
  (forall p, memb p = true -> npfe (eval env p)) /\
  (forall ps, membl ps = true -> Forall npfe (evals env ps)) /\
  (forall o : oparser, True).
Proof.
  apply parser_plist_oparser_ind; intros; cbn [memb membl] in *; try discriminate; try exact I.
  - intros s. rewrite eval_PFlag. apply flag_npf.
  - intros s. rewrite eval_PArg. apply arg_npf.
  - intros s. rewrite eval_PPos. apply pos_npf.
  - intros s. rewrite eval_PAny. apply any_npf.
  - destruct fields as [|q1 [|q2 t]].
    + intros s. rewrite eval_PCon_nil. cbn. npf_msg.
    + intros s. rewrite eval_PCon_one. specialize (H H0). rewrite evals_cons in H. inversion H; subst. auto.
    + intros s. rewrite eval_PCon_many. apply con_npf. apply H. exact H0.
  - intros s. rewrite eval_PAdj. apply adjacent_npf. apply con_npf. apply H. exact H0.
  - apply andb_prop in H1. destruct H1. intros s. rewrite eval_POr. apply or_npf; auto.
  - intros s. rewrite eval_POptional. apply optional_npf. auto.
  - intros s. rewrite eval_PMany. apply many_npf. auto.
  - intros s. rewrite eval_PSome. apply some_npf. auto.
  - intros s. rewrite eval_PCollect. apply many_npf. auto.
  - intros s. rewrite eval_PCount. apply count_npf. auto.
  - intros s. rewrite eval_PLast. apply last_npf. auto.
  - intros s. rewrite eval_PFallback. apply fallback_with_npf. auto.
  - intros s. rewrite eval_PFallbackWith. apply fallback_with_npf. auto.
  - intros s. rewrite eval_PGuard. apply guard_npf. auto.
  - intros s. rewrite eval_PParse. apply parse_npf. auto.
  - intros s. rewrite eval_PMap. apply map_npf. auto.
  - intros s. rewrite eval_PHide. apply hide_npf. auto.
  - intros s. rewrite eval_PUsage. apply H. exact H0.
  - intros s. rewrite eval_PGroupHelp. apply H. exact H0.
  - intros s. rewrite eval_PPureWith. destruct r; cbn; npf_msg.
  - intros s. rewrite eval_PBoxed. apply H. exact H0.
  - rewrite evals_nil. constructor.
  - apply andb_prop in H1. destruct H1. rewrite evals_cons. constructor; auto.
Qed.
End NPF.

(* ------------------------------------------------------------------ the help item survives and is found *)
Lemma cnt_pos f a n i : a <= i < a + n -> f i = true -> 1 <= cnt f a n.
Proof.
  intros Hi Hf. replace n with ((i - a) + (1 + (n - (i - a) - 1))) by lia. rewrite !cnt_split.
  replace (a + (i - a)) with i by lia.
  assert (E : cnt f i 1 = 1) by (unfold cnt; cbn [seq filter]; rewrite Hf; reflexivity). lia.
Qed.

Section Wins.
Variable env : bytes -> option bytes.

Theorem help_wins p inf s i a :
  memb p = true -> okp p = true -> invariant_ok (meta_of p) = true ->
  kinds_ok (fun k => accepts k a = false) p ->
  G s -> nth_error (items s) i = Some a -> live s i -> in_scope s i = true ->
  matches_arg (i_help_arg inf) false a = true ->
  exists detailed s3,
    run_sub env (Options p inf) s = (SFail (FStdout (HHelp (path s3) inf (meta_of p) detailed)), s3).
Proof.
  intros Hm Hok Hinv Hk Hg Ha Hl Hin Hmatch. rewrite run_sub_eq.
  pose proof (proj1 (memb_npf env) p Hm s) as Hnpf.
  pose proof (proj1 (eval_total_all env) p Hok s Hg) as Hnf.
  pose proof (proj1 (eval_reach_all (fun k => accepts k a = false) env) p Hk s) as Hr.
  pose proof (proj1 (memb_inscope env) p Hm s) as Hrel.
  destruct (eval env p s) as [r s1] eqn:E. cbn [fst snd] in *.
  (* the help item is still available, and in scope *)
  assert (Hl1 : live s1 i).
  { apply reach_ext in Hr. destruct Hr as [l X].
    assert (Hlt : i < length (ist s1)) by (rewrite (ext_len _ _ _ _ X); apply live_lt, Hl).
    destruct (lt_live_or_dead s1 i Hlt) as [L|D]; [exact L|exfalso].
    pose proof (ext_complete _ _ _ _ X i Hl D) as Hc. apply in_map_iff in Hc. destruct Hc as [[i' k] [Hf Hik]].
    cbn in Hf. subst i'. destruct (ext_entries _ _ _ _ X i k Hik) as (Hkk & _ & _ & Hacc).
    specialize (Hacc a Ha). cbn in Hkk. congruence. }
  destruct Hrel as ((S1 & S2) & I1 & L1 & _).
  assert (Hin1 : in_scope s1 i = true) by (unfold in_scope in *; rewrite S1, S2; exact Hin).
  assert (Ha1 : nth_error (items s1) i = Some a) by (rewrite I1; exact Ha).
  assert (Hst : exists st, ist_at s1 i = Some st /\ present st = true).
  { unfold live, present_at in Hl1. destruct (ist_at s1 i) as [st|]; [|discriminate]. exists st. split; [reflexivity|].
    cbn in Hl1. congruence. }
  destruct Hst as (st & Hst & Hp).
  assert (Htf : exists s2, take_flag (i_help_arg inf) s1 = Some s2).
  { unfold take_flag. destruct (find_item s1 (fun _ a0 => matches_arg (i_help_arg inf) false a0)) eqn:F; [eauto|].
    exfalso. pose proof (find_item_none _ _ F i a st Hin1 Ha1 Hst Hp) as X. cbn in X. congruence. }
  destruct Htf as [s2 Htf].
  apply (help_found env inf (meta_of p) s r s1 s2).
  - exact Hnpf.
  - intros w ->. exact Hnf.
  - intros ->. exact Hnf.
  - intros v _ F. unfold first_item_ix in F.
    pose proof (find_item_none _ _ F i a st Hin1 Ha1 Hst Hp) as X. discriminate.
  - apply andb_false_iff. right. apply Nat.eqb_neq.
    destruct Hg as (_ & _ & Hex). unfold exact in Hex. rewrite Hex, count_present_cnt.
    unfold in_scope in Hin. apply andb_prop in Hin. destruct Hin as [H1 H2].
    apply Nat.leb_le in H1. apply Nat.ltb_lt in H2.
    assert (1 <= cnt (pres (ist s)) (sc_start s) (sc_end s - sc_start s)); [|lia].
    apply (cnt_pos _ _ _ i); [lia|]. apply live_pres, Hl.
  - exact Htf.
  - exact Hinv.
Qed.
End Wins.

(* ------------------------------------------------------------------ a whole run *)
Theorem help_wins_run_inner feat env p inf name argv st i a :
  memb p = true -> oko (Options p inf) = true ->
  kinds_ok (fun k => accepts k a = false) p ->
  initial_state (Options p inf) name argv = (st, None) ->
  nth_error (items st) i = Some a -> live st i ->
  matches_arg (i_help_arg inf) false a = true ->
  exists pth detailed, run_inner feat env (Options p inf) name argv = OutStdout (HHelp pth inf (meta_of p) detailed).
Proof.
  intros Hm Hok Hk Hi Ha Hl Hmatch. cbn [oko] in Hok. apply andb_prop in Hok. destruct Hok as [Hokp Hinv].
  unfold run_inner, run_inner_state. rewrite Hi.
  unfold initial_state in Hi. destruct (short_tables (Options p inf)) as [sf sa].
  pose proof (construct_G sf sa name argv) as Hg. pose proof (construct_ok sf sa name argv) as Hio.
  rewrite Hi in Hg, Hio. cbn [fst] in Hg, Hio.
  assert (Hin : in_scope st i = true).
  { destruct Hio as [Hw [F1 F2] _]. unfold in_scope. rewrite F1, F2. apply live_lt in Hl. unfold lenwf in Hw.
    apply andb_true_intro. split; [apply Nat.leb_le; lia|apply Nat.ltb_lt; lia]. }
  destruct (help_wins env p inf st i a Hm Hokp Hinv Hk Hg Ha Hl Hin Hmatch) as (d & s3 & E).
  rewrite E. cbn. eauto.
Qed.

(* ------------------------------------------------------------------ the version flag *)
Section Version.
Variable env : bytes -> option bytes.

Lemma eval_flag_not_taken n s : take_flag n s = None -> n_env n = [] ->
  snd (eval_flag env n VUnit None s) = s /\ forall v, fst (eval_flag env n VUnit None s) <> ROk v.
Proof.
  intros Ht He. unfold eval_flag. rewrite Ht, He. cbn [env_first].
  destruct (flag_item n); cbn; split; try reflexivity; intros v H; discriminate.
Qed.

Theorem version_found inf m s r s1 s2 v :
  (forall f, r <> RErr (MsgParseFailure f)) -> (forall w, r <> RPanic w) -> r <> RFuel ->
  (forall x, r = ROk x -> first_item_ix s1 <> None) ->
  (i_help_if_no_args inf && Nat.eqb (remaining s) 0 = false) ->
  take_flag (i_help_arg inf) s1 = None -> n_env (i_help_arg inf) = [] ->
  i_version inf = Some v -> take_flag (i_version_arg inf) s1 = Some s2 ->
  run_sub_body env inf m s (r, s1) = (SFail (FStdout (HVersion v)), s2).
Proof.
  intros Hpf Hp Hf Hleft Hno Hh Hhe Hv Ht. unfold run_sub_body.
  assert (Hie : info_eval env inf s1 = (Some (ExVersion v), s2)).
  { unfold info_eval. destruct (eval_flag_not_taken (i_help_arg inf) s1 Hh Hhe) as [E1 E2].
    destruct (eval_flag env (i_help_arg inf) VUnit None s1) as [r1 s1']. cbn [fst snd] in E1, E2. subst s1'.
    destruct r1 as [x| | |]; [exfalso; eapply E2; reflexivity| | |];
      rewrite Hv, (eval_flag_taken env _ VUnit None s1 s2 Ht); reflexivity. }
  assert (Hno' : forall b, b && i_help_if_no_args inf && Nat.eqb (remaining s) 0 = false).
  { intros b. rewrite <- andb_assoc. rewrite Hno. apply andb_false_r. }
  destruct r as [x|e|w|].
  - rewrite Hno'. destruct (first_item_ix s1) eqn:Hfi; [|exfalso; eapply Hleft; eauto].
    rewrite Hie. reflexivity.
  - rewrite Hno'. destruct e; try (rewrite Hie; reflexivity). exfalso. eapply Hpf; eauto.
  - exfalso. eapply Hp; eauto.
  - exfalso. apply Hf. reflexivity.
Qed.

(* the version flag as an item of its own, a version configured, no help flag on the line *)
Theorem version_wins p inf s i a v :
  memb p = true -> okp p = true ->
  kinds_ok (fun k => accepts k a = false) p ->
  G s -> nth_error (items s) i = Some a -> live s i -> in_scope s i = true ->
  i_version inf = Some v -> matches_arg (i_version_arg inf) false a = true ->
  n_env (i_help_arg inf) = [] ->
  (forall j b, nth_error (items s) j = Some b -> live s j -> matches_arg (i_help_arg inf) false b = false) ->
  exists s3, run_sub env (Options p inf) s = (SFail (FStdout (HVersion v)), s3).
Proof.
  intros Hm Hok Hk Hg Ha Hl Hin Hv Hmatch Hhe Hnohelp. rewrite run_sub_eq.
  pose proof (proj1 (memb_npf env) p Hm s) as Hnpf.
  pose proof (proj1 (eval_total_all env) p Hok s Hg) as Hnf.
  pose proof (proj1 (eval_reach_all (fun k => accepts k a = false) env) p Hk s) as Hr.
  pose proof (proj1 (eval_reach_all (fun _ => True) env) p (proj1 kinds_all p) s) as Hr0.
  pose proof (proj1 (memb_inscope env) p Hm s) as Hrel.
  destruct (eval env p s) as [r s1] eqn:E. cbn [fst snd] in *.
  assert (Hl1 : live s1 i).
  { apply reach_ext in Hr. destruct Hr as [l X].
    assert (Hlt : i < length (ist s1)) by (rewrite (ext_len _ _ _ _ X); apply live_lt, Hl).
    destruct (lt_live_or_dead s1 i Hlt) as [L|D]; [exact L|exfalso].
    pose proof (ext_complete _ _ _ _ X i Hl D) as Hc. apply in_map_iff in Hc. destruct Hc as [[i' k] [Hf Hik]].
    cbn in Hf. subst i'. destruct (ext_entries _ _ _ _ X i k Hik) as (Hkk & _ & _ & Hacc).
    specialize (Hacc a Ha). cbn in Hkk. congruence. }
  destruct Hrel as ((S1 & S2) & I1 & L1 & _).
  assert (Hin1 : in_scope s1 i = true) by (unfold in_scope in *; rewrite S1, S2; exact Hin).
  assert (Ha1 : nth_error (items s1) i = Some a) by (rewrite I1; exact Ha).
  assert (Hst : exists st, ist_at s1 i = Some st /\ present st = true).
  { unfold live, present_at in Hl1. destruct (ist_at s1 i) as [st|]; [|discriminate]. exists st. split; [reflexivity|].
    cbn in Hl1. congruence. }
  destruct Hst as (st & Hst & Hp).
  assert (Htf : exists s2, take_flag (i_version_arg inf) s1 = Some s2).
  { unfold take_flag. destruct (find_item s1 (fun _ a0 => matches_arg (i_version_arg inf) false a0)) eqn:F; [eauto|].
    exfalso. pose proof (find_item_none _ _ F i a st Hin1 Ha1 Hst Hp) as X. cbn in X. congruence. }
  destruct Htf as [s2 Htf].
  assert (Hnh : take_flag (i_help_arg inf) s1 = None).
  { unfold take_flag. destruct (find_item s1 (fun _ a0 => matches_arg (i_help_arg inf) false a0)) as [j|] eqn:F; [|reflexivity].
    exfalso. apply find_item_some in F. destruct F as (_ & b & stb & Hb & Hsb & Hpb & Hmb). cbn in Hmb.
    rewrite I1 in Hb.
    assert (Lj : live s j).
    { apply (reach_mono (fun _ => True) s s1 j Hr0). unfold live, present_at. rewrite Hsb. cbn. rewrite Hpb. reflexivity. }
    rewrite (Hnohelp j b Hb Lj) in Hmb. discriminate. }
  exists s2. apply (version_found inf (meta_of p) s r s1 s2 v); try assumption.
  - intros w ->. exact Hnf.
  - intros ->. exact Hnf.
  - intros x _ F. unfold first_item_ix in F.
    pose proof (find_item_none _ _ F i a st Hin1 Ha1 Hst Hp) as X. discriminate.
  - apply andb_false_iff. right. apply Nat.eqb_neq.
    destruct Hg as (_ & _ & Hex). unfold exact in Hex. rewrite Hex, count_present_cnt.
    unfold in_scope in Hin. apply andb_prop in Hin. destruct Hin as [H1 H2].
    apply Nat.leb_le in H1. apply Nat.ltb_lt in H2.
    assert (1 <= cnt (pres (ist s)) (sc_start s) (sc_end s - sc_start s)); [|lia].
    apply (cnt_pos _ _ _ i); [lia|]. apply live_pres, Hl.
Qed.
End Version.

(* ------------------------------------------------------------------ help after a subcommand's name (C08) *)
Theorem help_after_name env name aliases shorts help q inf s s1 cur s2 i a :
  take_cmd_any ((name :: aliases) ++ map utf8_encode_char shorts) s = (true, s1) ->
  current s1 = Some cur -> set_scope s1 cur (sc_end s1) = Some s2 ->
  memb q = true -> okp q = true -> invariant_ok (meta_of q) = true ->
  kinds_ok (fun k => accepts k a = false) q ->
  G s2 -> nth_error (items s2) i = Some a -> live s2 i -> in_scope s2 i = true ->
  matches_arg (i_help_arg inf) false a = true ->
  exists detailed s4,
    eval env (PCmd name aliases shorts help false (Options q inf)) s =
    (RErr (MsgParseFailure (FStdout (HHelp (path s4) inf (meta_of q) detailed))), s4).
Proof.
  intros Ht Hc Hs Hm Hok Hinv Hk Hg Ha Hl Hin Hmatch.
  rewrite eval_PCmd. cbn [ometa_of oinfo_of].
  rewrite (CmdLaws.cmd_enter name aliases shorts help (meta_of q) inf (run_sub env (Options q inf)) s s1 cur s2 Ht Hc Hs).
  set (s3 := set_path s2 (path s2 ++ [name])).
  assert (Hg3 : G s3) by exact Hg.
  destruct (help_wins env q inf s3 i a Hm Hok Hinv Hk Hg3 Ha Hl Hin Hmatch) as (d & s4 & E).
  rewrite E. eauto.
Qed.
