(* Ledger.v -- what `reach` implies about the consumption ledger and the ghost log:
   items never change, the ledger keeps its length, consumption is monotone, and the log grows
   by exactly one entry (index, consumer) per item that went from live to Parsed -- each such
   consumer being allowed (K) and accepting the token it claimed. *)
From BpafLemmas Require Import Tac EvalEq Find Reach.

Definition live (s : state) (i : nat) : Prop := present_at s i = Some true.
Definition dead (s : state) (i : nat) : Prop := present_at s i = Some false.

Lemma update_nth_length {A} n (x : A) l : length (update_nth n x l) = length l.
Proof.
  revert n. induction l as [|h t IH]; intros n; [destruct n; reflexivity|].
  destruct n; cbn; [reflexivity|]. rewrite IH. reflexivity.
Qed.

Lemma update_nth_same {A} n (x : A) l : n < length l -> nth_error (update_nth n x l) n = Some x.
Proof.
  revert n. induction l as [|h t IH]; intros n Hn; cbn in *; [lia|].
  destruct n; cbn; [reflexivity|]. apply IH. lia.
Qed.

Lemma update_nth_other {A} n m (x : A) l : m <> n -> nth_error (update_nth n x l) m = nth_error l m.
Proof.
  revert n m. induction l as [|h t IH]; intros n m Hne; cbn.
  - destruct n; reflexivity.
  - destruct n, m; cbn; try reflexivity; try congruence. apply IH. congruence.
Qed.

(* the effect of an effective removal *)
Lemma sremove_eff k ix s st :
  in_scope s ix = true -> ist_at s ix = Some st -> present st = true ->
  sremove k ix s =
  mkState (items s) (update_nth ix Parsed (ist s)) (pred (remaining s)) (Some ix)
          (path s) (sc_start s) (sc_end s) ((ix, k) :: log s).
Proof. intros Hin Hs Hp. unfold sremove. rewrite Hin, Hs, Hp. reflexivity. Qed.

Record ext (K : ckind -> Prop) (s s' : state) (l : list (nat * ckind)) : Prop := mkExt {
  ext_items : items s' = items s;
  ext_len : length (ist s') = length (ist s);
  ext_mono : forall i, live s' i -> live s i;
  ext_log : log s' = l ++ log s;
  ext_nodup : NoDup (map fst l);
  ext_entries : forall i k, In (i, k) l ->
      K k /\ live s i /\ dead s' i /\
      (forall a, nth_error (items s) i = Some a -> accepts k a = true);
  ext_complete : forall i, live s i -> dead s' i -> In i (map fst l) }.

Lemma ext_refl K s : ext K s s [].
Proof.
  constructor; auto; try (constructor; fail).
  - intros i k [].
  - intros i H1 H2. unfold live, dead in *. congruence.
Qed.

Lemma live_dead_excl s i : live s i -> dead s i -> False.
Proof. unfold live, dead. congruence. Qed.

Lemma set_scope_fields s a b s' :
  set_scope s a b = Some s' ->
  items s' = items s /\ ist s' = ist s /\ log s' = log s /\ path s' = path s /\
  current s' = current s /\ sc_start s' = a /\ sc_end s' = b /\
  a <= b /\ b <= length (ist s).
Proof.
  unfold set_scope. destruct (Nat.leb a b && Nat.leb b (length (ist s))) eqn:Hc; [|discriminate].
  intros H; inv H. cbn. apply andb_prop in Hc. destruct Hc as [H1 H2].
  apply Nat.leb_le in H1. apply Nat.leb_le in H2. repeat split; auto.
Qed.

Lemma ext_step K s1 s2 s3 l :
  ext K s1 s2 l -> step K s2 s3 -> exists l', ext K s1 s3 l'.
Proof.
  intros E St. destruct E as [Ei El Em Eg En Ee Ec].
  inversion St as [k ix s st Hk Hin Hst Hp Hacc| | | |]; subst.
  - (* remove *)
    exists ((ix, k) :: l).
    rewrite (sremove_eff k ix s2 st Hin Hst Hp).
    assert (Hlt : ix < length (ist s2)).
    { unfold ist_at in Hst. apply nth_error_Some. congruence. }
    assert (Hlive2 : live s2 ix) by (unfold live, present_at; rewrite Hst; cbn; congruence).
    assert (Hpa : forall j, j <> ix ->
              present_at (mkState (items s2) (update_nth ix Parsed (ist s2)) (pred (remaining s2))
                                  (Some ix) (path s2) (sc_start s2) (sc_end s2) ((ix, k) :: log s2)) j
              = present_at s2 j).
    { intros j Hj. unfold present_at, ist_at. cbn. rewrite update_nth_other by exact Hj. reflexivity. }
    assert (Hpi : present_at (mkState (items s2) (update_nth ix Parsed (ist s2)) (pred (remaining s2))
                                  (Some ix) (path s2) (sc_start s2) (sc_end s2) ((ix, k) :: log s2)) ix
                  = Some false).
    { unfold present_at, ist_at. cbn. rewrite update_nth_same by exact Hlt. reflexivity. }
    constructor; cbn.
    + exact Ei.
    + rewrite update_nth_length. exact El.
    + intros i Hl. apply Em. unfold live in *. destruct (Nat.eq_dec i ix) as [->|Hne].
      * rewrite Hpi in Hl. discriminate.
      * rewrite Hpa in Hl by exact Hne. exact Hl.
    + rewrite Eg. reflexivity.
    + constructor; [|exact En]. intros Hi. apply in_map_iff in Hi.
      destruct Hi as [[i' k'] [Hfst Hin']]. cbn in Hfst. subst i'.
      destruct (Ee _ _ Hin') as (_ & _ & Hd & _). eapply live_dead_excl; eauto.
    + intros i k0 [Heq|Hin'].
      * inv Heq. repeat split; auto.
        intros a Ha. apply Hacc. rewrite Ei. exact Ha.
      * destruct (Ee _ _ Hin') as (Hk0 & Hl1 & Hd2 & Ha). repeat split; auto.
        unfold dead in *. destruct (Nat.eq_dec i ix) as [->|Hne]; [exact Hpi|].
        rewrite Hpa by exact Hne. exact Hd2.
    + intros i Hl1 Hd3. destruct (Nat.eq_dec i ix) as [->|Hne]; [left; reflexivity|].
      right. apply Ec; [exact Hl1|]. unfold dead in *. rewrite Hpa in Hd3 by exact Hne. exact Hd3.
  - exists l. constructor; auto.
  - exists l. constructor; auto.
  - match goal with H : set_scope _ _ _ = Some _ |- _ =>
      apply set_scope_fields in H; destruct H as (Hi & His & Hlg & _) end.
    exists l. constructor; unfold live, dead, present_at, ist_at in *;
      try rewrite Hi; try rewrite His; try rewrite Hlg; auto.
  - exists l.
    assert (Hpa : forall i, present_at (set_ist s2 ist') i = present_at s2 i).
    { intros i. unfold present_at, ist_at. cbn. auto. }
    constructor; unfold live, dead in *; cbn; auto.
    + congruence.
    + intros i Hl. apply Em. rewrite Hpa in Hl. exact Hl.
    + intros i k Hin. destruct (Ee _ _ Hin) as (? & ? & ? & ?). rewrite Hpa. auto.
    + intros i Hl Hd. rewrite Hpa in Hd. auto.
Qed.

Theorem reach_ext K s s' : reach K s s' -> exists l, ext K s s' l.
Proof.
  intros H. induction H as [s|s1 s2 s3 H12 IH St].
  - exists []. apply ext_refl.
  - destruct IH as [l E]. eapply ext_step; eauto.
Qed.
