(* LoopLaws.v -- termination of the repetition loops (C04).
   `many` / `some` / `collect` / `count` / `last` re-run their inner parser for as long as it
   consumes something; the model gives these loops explicit fuel `S (S (length items))` and an
   explicit out-of-fuel outcome.  Here: the fuel is never exhausted by the loop itself, for EVERY
   inner parser and every state -- if a repetition reports RFuel, the inner parser did.
   Ingredients: (a) the consumed-something rule of parse_option makes `len` strictly decrease
   after the first round; (b) `remaining <= length items` is an invariant of every evaluation
   (it is preserved by each ledger step, hence by `eval` through Reach.eval_reach_all). *)
From Coq Require Import Lia List Bool Arith.
From BpafLemmas Require Import Tac EvalEq Find Reach.
Import ListNotations.

(* ------------------------------------------------------------------ the ledger bound *)
Definition bounded (s : state) : Prop :=
  length (ist s) = length (items s) /\ remaining s <= length (items s).

Lemma filter_len_le {A} (f : A -> bool) l : length (filter f l) <= length l.
Proof. induction l as [|x t IH]; cbn; [lia|]. destruct (f x); cbn; lia. Qed.

Lemma count_present_le l a b : count_present l a b <= length l.
Proof.
  unfold count_present.
  etransitivity; [apply filter_len_le|]. rewrite firstn_length, skipn_length. lia.
Qed.

Lemma update_nth_length {A} ix (v : A) l : length (update_nth ix v l) = length l.
Proof.
  revert ix. induction l as [|x t IH]; intros [|ix]; cbn; auto.
Qed.

Lemma step_bounded K s s' : step K s s' -> bounded s -> bounded s' /\ items s' = items s.
Proof.
  intros St [Hl Hr]. destruct St as [k ix s st HK Hin Hat Hp Hacc|s c|s p|s a b s' Hs|s ist' Hlen Hpres].
  - unfold sremove. destruct (in_scope s ix && match ist_at s ix with Some i => present i | None => false end).
    + cbn. split; [split|reflexivity]; cbn; [rewrite update_nth_length; exact Hl|lia].
    + repeat split; auto.
  - repeat split; auto.
  - repeat split; auto.
  - unfold set_scope in Hs. destruct (Nat.leb a b && Nat.leb b (length (ist s))); [|discriminate].
    inversion Hs; subst s'. cbn. split; [split|reflexivity]; cbn; [exact Hl|]. rewrite <- Hl. apply count_present_le.
  - cbn. split; [split|reflexivity]; cbn; [congruence|exact Hr].
Qed.

Lemma reach_bounded K s s' : reach K s s' -> bounded s -> bounded s' /\ items s' = items s.
Proof.
  induction 1 as [s|s1 s2 s3 R IH St]; intros Hb; [auto|].
  destruct (IH Hb) as [B2 I2]. destruct (step_bounded K s2 s3 St B2) as [B3 I3]. split; [exact B3|congruence].
Qed.

(* every evaluation keeps the ledger bounded and never touches the item list *)
Definition keeps (ev : state -> eres * state) : Prop :=
  forall s, bounded s -> bounded (snd (ev s)) /\ items (snd (ev s)) = items s.

Lemma ev_reach_keeps K ev : ev_reach K ev -> keeps ev.
Proof. intros H s Hb. apply (reach_bounded K s _ (H s) Hb). Qed.

Lemma kinds_ok_true : (forall p, kinds_ok (fun _ => True) p) /\ (forall ps, lkinds_ok (fun _ => True) ps) /\
                      (forall o, okinds_ok (fun _ => True) o).
Proof. apply parser_plist_oparser_ind; intros; cbn [kinds_ok lkinds_ok okinds_ok]; tauto. Qed.

Theorem eval_keeps env p : keeps (eval env p).
Proof. apply (ev_reach_keeps (fun _ => True)). apply eval_reach. apply (proj1 kinds_ok_true). Qed.

(* ------------------------------------------------------------------ the loops *)
Section Loops.
Variable ev : state -> eres * state.
Variable its : list arg.
Hypothesis Hkeep : keeps ev.

Definition good (s : state) : Prop := bounded s /\ items s = its.

Lemma good_next s : good s -> good (snd (ev s)).
Proof. intros [Hb Hi]. destruct (Hkeep s Hb) as [B I]. split; [exact B|congruence]. Qed.

Definition measure (len : option nat) : nat :=
  match len with None => S (S (length its)) | Some n => S n end.

(* one round: what parse_option returns *)
Lemma parse_option_some len s catch v len' s' :
  good s -> parse_option ev len s catch = (OSome v, len', s') ->
  good s' /\ measure len' < measure len.
Proof.
  intros Hg. unfold parse_option. pose proof (good_next s Hg) as Hn.
  destruct (ev s) as [r s1] eqn:E. cbn [snd] in Hn. destruct r; try discriminate.
  - destruct (lt_len (remaining s1) len) eqn:L; [|discriminate]. intros H; inversion H; subst. split; [exact Hn|].
    destruct Hn as [[_ Hr] Hi]. rewrite Hi in Hr. destruct len as [n|]; cbn in *.
    + apply Nat.ltb_lt in L. lia.
    + lia.
  - destruct (catch || (is_missing m && Nat.eqb (remaining s) (remaining s1)) || (negb (is_missing m) && can_catch m));
      discriminate.
Qed.

Lemma parse_option_fuel len s catch len' s' :
  parse_option ev len s catch = (OFuel, len', s') -> fst (ev s) = RFuel.
Proof.
  unfold parse_option. destruct (ev s) as [r s1]. destruct r; try discriminate; try reflexivity.
  - destruct (lt_len (remaining s1) len); discriminate.
  - destruct (catch || (is_missing m && Nat.eqb (remaining s) (remaining s1)) || (negb (is_missing m) && can_catch m));
      discriminate.
Qed.

(* many / some / collect: out of fuel only if the inner parser was *)
Lemma many_loop_fuel catch fuel : forall len s acc,
  good s -> measure len <= fuel ->
  fst (fst (many_loop ev catch fuel len s acc)) = RFuel -> exists s', good s' /\ fst (ev s') = RFuel.
Proof.
  induction fuel as [|f IH]; intros len s acc Hg Hm; [destruct len; cbn in Hm; lia|].
  cbn [many_loop]. destruct (parse_option ev len s catch) as [[o len'] s'] eqn:E.
  destruct o; cbn [fst]; try discriminate.
  - destruct (parse_option_some len s catch v len' s' Hg E) as [Hg' Hlt]. apply IH; [exact Hg'|lia].
  - intros _. exists s. split; [exact Hg|]. eapply parse_option_fuel; eauto.
Qed.

(* count / last *)
Lemma count_loop_fuel fuel : forall len s cur n last,
  good s -> measure len <= fuel ->
  fst (fst (fst (count_loop ev fuel len s cur n last))) = RFuel -> exists s', good s' /\ fst (ev s') = RFuel.
Proof.
  induction fuel as [|f IH]; intros len s cur n last Hg Hm; [destruct len; cbn in Hm; lia|].
  cbn [count_loop]. destruct (parse_option ev len s false) as [[o len'] s'] eqn:E.
  destruct o; cbn [fst]; try discriminate.
  - destruct (parse_option_some len s false v len' s' Hg E) as [Hg' Hlt].
    destruct (Nat.eqb cur (remaining s')); [cbn; discriminate|]. apply IH; [exact Hg'|lia].
  - intros _. exists s. split; [exact Hg|]. eapply parse_option_fuel; eauto.
Qed.
End Loops.

(* the four repetition combinators, with the fuel the model gives them *)
Theorem many_body_fuel ev catch s :
  keeps ev -> bounded s -> fst (many_body ev catch s) = RFuel -> exists s', fst (ev s') = RFuel.
Proof.
  intros Hk Hb. unfold many_body.
  destruct (many_loop ev catch (loop_fuel s) None s []) as [[r acc] s1] eqn:E. intros H.
  assert (Hr : r = RFuel) by (destruct r; cbn in H; congruence).
  destruct (many_loop_fuel ev (items s) Hk catch (loop_fuel s) None s [] (conj Hb eq_refl)) as [s' [_ F]].
  - cbn. unfold loop_fuel. lia.
  - rewrite E. exact Hr.
  - eauto.
Qed.

Theorem some_body_fuel ev msg catch s :
  keeps ev -> bounded s -> fst (some_body ev msg catch s) = RFuel -> exists s', fst (ev s') = RFuel.
Proof.
  intros Hk Hb. unfold some_body.
  destruct (many_loop ev catch (loop_fuel s) None s []) as [[r acc] s1] eqn:E. intros H.
  assert (Hr : r = RFuel) by (destruct r; try destruct acc; cbn in H; congruence).
  destruct (many_loop_fuel ev (items s) Hk catch (loop_fuel s) None s [] (conj Hb eq_refl)) as [s' [_ F]].
  - cbn. unfold loop_fuel. lia.
  - rewrite E. exact Hr.
  - eauto.
Qed.

Theorem count_body_fuel ev s :
  keeps ev -> bounded s -> fst (count_body ev s) = RFuel -> exists s', fst (ev s') = RFuel.
Proof.
  intros Hk Hb. unfold count_body.
  destruct (count_loop ev (loop_fuel s) None s (remaining s) 0 None) as [[[r n] l] s1] eqn:E. intros H.
  assert (Hr : r = RFuel) by (destruct r; cbn in H; congruence).
  destruct (count_loop_fuel ev (items s) Hk (loop_fuel s) None s (remaining s) 0 None (conj Hb eq_refl)) as [s' [_ F]].
  - cbn. unfold loop_fuel. lia.
  - rewrite E. exact Hr.
  - eauto.
Qed.

Theorem last_body_fuel ev s :
  keeps ev -> bounded s -> fst (last_body ev s) = RFuel -> exists s', fst (ev s') = RFuel.
Proof.
  intros Hk Hb. unfold last_body.
  destruct (count_loop ev (loop_fuel s) None s (remaining s) 0 None) as [[[r n] l] s1] eqn:E. intros H.
  destruct r as [v|e|w|].
  - destruct l as [v'|]; cbn in H; [discriminate|]. eauto.
  - cbn in H. discriminate.
  - cbn in H. discriminate.
  - destruct (count_loop_fuel ev (items s) Hk (loop_fuel s) None s (remaining s) 0 None (conj Hb eq_refl)) as [s' [_ F]].
    + cbn. unfold loop_fuel. lia.
    + rewrite E. reflexivity.
    + eauto.
Qed.

(* the initial state of a run is bounded *)
Lemma construct_bounded sf sa name argv : bounded (fst (construct sf sa name argv)).
Proof.
  unfold construct. destruct (t_marker (tokenize sf sa argv)) as [ix|]; cbn; split; cbn;
    rewrite ?update_nth_length, ?repeat_length; lia.
Qed.
