(* AdjLaws.v -- adjacent groups: the block a group returns is one contiguous run of the line,
   starting at its first item, fully consumed, and nothing outside it is touched. *)
From BpafLemmas Require Import Tac EvalEq Find Reach Ledger NoLoss C05Lemmas.

(* ------------------------------------------------------------------ windows *)
Lemma take_while_all {A} (f : A -> bool) l i x :
  i < length (take_while f l) -> nth_error l i = Some x -> f x = true.
Proof.
  revert i. induction l as [|h t IH]; intros i Hi Hn; cbn in *; [lia|].
  destruct (f h) eqn:Hf; cbn in Hi; [|lia].
  destruct i; cbn in Hn; [inv Hn; exact Hf|]. eapply IH; eauto. lia.
Qed.

Lemma take_while_length_le {A} (f : A -> bool) l : length (take_while f l) <= length l.
Proof. induction l as [|h t IH]; cbn; [lia|]. destruct (f h); cbn; lia. Qed.

(* adjacently_available_from: a run of live items starting at `start` *)
Theorem adjacently_available_live s start :
  fst (adjacently_available_from s start) = start /\
  forall i, start <= i < snd (adjacently_available_from s start) -> live s i.
Proof.
  unfold adjacently_available_from. cbn [fst snd]. split; [reflexivity|].
  intros i Hi. unfold live, present_at, ist_at.
  destruct (nth_error (ist s) i) as [st|] eqn:E.
  - cbn. f_equal. eapply (take_while_all present (skipn start (ist s)) (i - start)); [lia|].
    rewrite nth_error_skipn. replace (start + (i - start)) with i by lia. exact E.
  - exfalso. apply nth_error_None in E.
    pose proof (take_while_length_le present (skipn start (ist s))) as Hl.
    rewrite skipn_length in Hl. lia.
Qed.

(* ------------------------------------------------------------------ the return condition *)
Lemma both_present_from_spec ix this orig r :
  both_present_from ix this orig = r ->
  match r with
  | Some off =>
    ix <= off /\
    (forall k, k < off - ix -> forall x y, nth_error this k = Some x -> nth_error orig k = Some y ->
                                           present x && present y = false)
  | None =>
    forall k x y, nth_error this k = Some x -> nth_error orig k = Some y -> present x && present y = false
  end.
Proof.
  revert ix orig r. induction this as [|a this IH]; intros ix orig r H; cbn in H.
  - subst r. intros k x y Hx. destruct k; discriminate.
  - destruct orig as [|b orig].
    + subst r. intros k x y _ Hy. destruct k; discriminate.
    + destruct (present a && present b) eqn:Hc.
      * subst r. split; [lia|]. intros k Hk. lia.
      * specialize (IH (S ix) orig r H). destruct r as [off|].
        -- destruct IH as [Hle Hb]. split; [lia|].
           intros k Hk x y Hx Hy. destruct k as [|k]; cbn in *.
           ++ inv Hx. inv Hy. exact Hc.
           ++ eapply Hb; eauto. lia.
        -- intros k x y Hx Hy. destruct k as [|k]; cbn in *.
           ++ inv Hx. inv Hy. exact Hc.
           ++ eapply IH; eauto.
Qed.

(* ASNone: inside the scope the group was left with, nothing that was available to it is still live *)
Theorem adjacent_scope_none ta orig :
  lenwf ta -> adjacent_scope ta orig = ASNone ->
  forall i, sc_start ta <= i < sc_end ta -> ~ (live ta i /\ live orig i).
Proof.
  unfold adjacent_scope. intros Hw H i Hi [Hl1 Hl2].
  pose proof (live_lt _ _ Hl1) as Hlt1.
  destruct (is_nil (items ta)) eqn:Hnil.
  - unfold lenwf in Hw. destruct (items ta); [cbn in Hw; lia|discriminate].
  - destruct (Nat.ltb (length (ist ta)) (sc_start ta) || Nat.ltb (length (ist orig)) (sc_start ta)); [discriminate|].
    destruct (both_present_from (sc_start ta) (skipn (sc_start ta) (ist ta)) (skipn (sc_start ta) (ist orig)))
      as [off|] eqn:Hb.
    + destruct (Nat.eqb (sc_start ta) (sc_start ta) && Nat.eqb (sc_end ta) off) eqn:Hc; [|discriminate].
      apply andb_prop in Hc. destruct Hc as [_ Hc]. apply Nat.eqb_eq in Hc.
      apply both_present_from_spec in Hb. destruct Hb as [_ Hb].
      unfold live, present_at, ist_at in Hl1, Hl2.
      destruct (nth_error (ist ta) i) as [x|] eqn:Ex; [|discriminate].
      destruct (nth_error (ist orig) i) as [y|] eqn:Ey; [|discriminate].
      cbn in Hl1, Hl2. assert (Px : present x = true) by congruence.
      assert (Py : present y = true) by congruence.
      assert (Hf : present x && present y = false).
      { apply (Hb (i - sc_start ta)); [lia| |].
        - rewrite nth_error_skipn. replace (sc_start ta + (i - sc_start ta)) with i by lia. exact Ex.
        - rewrite nth_error_skipn. replace (sc_start ta + (i - sc_start ta)) with i by lia. exact Ey. }
      rewrite Px, Py in Hf. discriminate.
    + apply both_present_from_spec in Hb.
      unfold live, present_at, ist_at in Hl1, Hl2.
      destruct (nth_error (ist ta) i) as [x|] eqn:Ex; [|discriminate].
      destruct (nth_error (ist orig) i) as [y|] eqn:Ey; [|discriminate].
      cbn in Hl1, Hl2. assert (Px : present x = true) by congruence.
      assert (Py : present y = true) by congruence.
      assert (Hf : present x && present y = false).
      { apply (Hb (i - sc_start ta)).
        - rewrite nth_error_skipn. replace (sc_start ta + (i - sc_start ta)) with i by lia. exact Ex.
        - rewrite nth_error_skipn. replace (sc_start ta + (i - sc_start ta)) with i by lia. exact Ey. }
      rewrite Px, Py in Hf. discriminate.
Qed.

(* ------------------------------------------------------------------ consuming inside the scope *)
(* inrel s s': s' keeps the scope, the items and the ledger length of s, and every item that went
   from live to not-live was inside the scope *)
Definition inrel (s s' : state) : Prop :=
  same_scope s s' /\ items s' = items s /\ length (ist s') = length (ist s) /\
  forall i, live s i -> ~ live s' i -> in_scope s i = true.
Definition ev_inscope (ev : evaluator) : Prop := forall s, inrel s (snd (ev s)).

Lemma inrel_refl s : inrel s s.
Proof. unfold inrel, same_scope. repeat split; auto; try (intros; tauto). Qed.

Lemma inrel_current s c : inrel s (set_current s c).
Proof. unfold inrel, same_scope. repeat split; auto; try (intros i Hl Hd; exfalso; apply Hd; exact Hl). Qed.

Lemma inrel_sremove k ix s : inrel s (sremove k ix s).
Proof.
  split; [apply sremove_same_scope|]. split; [apply sremove_items|]. split.
  - unfold sremove. destruct (_ && _); cbn; [apply update_nth_length|reflexivity].
  - intros i Hl Hd. unfold sremove in Hd.
    destruct (in_scope s ix) eqn:Hin; cbn [andb] in Hd; [|tauto].
    destruct (ist_at s ix) as [st|] eqn:Hst; [|tauto].
    destruct (present st) eqn:Hp; [|tauto].
    destruct (Nat.eq_dec i ix) as [->|Hne]; [exact Hin|].
    exfalso. apply Hd. unfold live, present_at, ist_at in *. cbn.
    rewrite update_nth_other by exact Hne. exact Hl.
Qed.

Lemma inrel_trans s1 s2 s3 : inrel s1 s2 -> inrel s2 s3 -> inrel s1 s3.
Proof.
  intros (S1 & I1 & L1 & C1) (S2 & I2 & L2 & C2).
  split; [eapply same_scope_trans; eauto|]. split; [congruence|]. split; [congruence|].
  intros i Hl Hd.
  destruct (present_at s2 i) as [[|]|] eqn:E.
  - assert (in_scope s2 i = true) by (apply C2; [exact E|exact Hd]).
    destruct S1 as [A B]. unfold in_scope in *. rewrite <- A, <- B. assumption.
  - apply C1; [exact Hl|]. unfold live. congruence.
  - apply C1; [exact Hl|]. unfold live. congruence.
Qed.

Lemma inrel_lenwf s s' : inrel s s' -> lenwf s -> lenwf s'.
Proof. intros (_ & I & L & _) H. unfold lenwf in *. congruence. Qed.

Section WithEnv.
Variable env : bytes -> option bytes.

Lemma eval_flag_inscope n p a : ev_inscope (eval_flag env n p a).
Proof.
  intros s. unfold eval_flag. destruct (take_flag n s) as [s'|] eqn:Ht; cbn.
  - unfold take_flag in Ht. destruct (find_item s _); [|discriminate]. inv Ht. apply inrel_sremove.
  - repeat (case_goal; cbn; try apply inrel_refl).
Qed.

Lemma eval_arg_inscope n mv ty adj : ev_inscope (eval_arg env n mv ty adj).
Proof.
  intros s. unfold eval_arg. destruct (take_arg n adj s) as [|k|w s'] eqn:Ht.
  - repeat (case_goal; cbn; try rewrite convert_res_snd; try apply inrel_refl; try apply inrel_current).
  - cbn. apply inrel_refl.
  - rewrite convert_res_snd. unfold take_arg in Ht. destruct (find_item s _); [|discriminate].
    destruct (get s _) as [[]|]; try discriminate; inv Ht;
      (eapply inrel_trans; [apply inrel_sremove|apply inrel_sremove]).
Qed.

Lemma eval_pos_inscope mv ty pos help : ev_inscope (eval_pos mv ty pos help).
Proof.
  intros s. unfold eval_pos.
  destruct (take_positional_word s) as [[[[ix st] w] s']|] eqn:Ht; [|cbn; apply inrel_refl].
  assert (H : inrel s s').
  { unfold take_positional_word in Ht. destruct (find_item s _); [|discriminate].
    destruct (nth_error _ _) as [[]|]; try discriminate; inv Ht; apply inrel_sremove. }
  destruct pos, st; cbn; try rewrite convert_res_snd; exact H.
Qed.

Lemma eval_any_inscope mv help check anywhere : ev_inscope (eval_any mv help check anywhere).
Proof.
  intros s. unfold eval_any.
  match goal with |- context [match ?f with Some _ => _ | None => _ end] =>
                  destruct f as [ix|] end; [|cbn; apply inrel_refl].
  destruct (nth_error (items s) ix) as [a|]; [|cbn; apply inrel_refl].
  destruct (check (arg_os a)) as [v|]; [|cbn; apply inrel_refl].
  cbn [snd]. match goal with |- context [if ?b then _ else _] => destruct b end.
  - eapply inrel_trans; apply inrel_sremove.
  - apply inrel_sremove.
Qed.

Lemma parse_option_inscope ev len s c :
  ev_inscope ev -> inrel s (snd (parse_option ev len s c)).
Proof.
  intros Hev. unfold parse_option. specialize (Hev s). destruct (ev s) as [r s']. cbn in Hev.
  destruct r; cbn; repeat (case_goal; cbn); auto using inrel_refl.
Qed.

Lemma optional_inscope ev c : ev_inscope ev -> ev_inscope (optional_body ev c).
Proof.
  intros Hev s. unfold optional_body.
  pose proof (parse_option_inscope ev None s c Hev) as H.
  destruct (parse_option ev None s c) as [[o l] s1]. destruct o; exact H.
Qed.

Lemma guard_inscope ev c m : ev_inscope ev -> ev_inscope (guard_body ev c m).
Proof.
  intros Hev s. unfold guard_body. specialize (Hev s). destruct (ev s) as [r s']. cbn in Hev.
  destruct r; cbn; auto. destruct (c v); exact Hev.
Qed.
Lemma parse_inscope ev f : ev_inscope ev -> ev_inscope (parse_body ev f).
Proof.
  intros Hev s. unfold parse_body. specialize (Hev s). destruct (ev s) as [r s']. cbn in Hev.
  destruct r; cbn; auto. destruct (f v); exact Hev.
Qed.
Lemma map_inscope ev f : ev_inscope ev -> ev_inscope (map_body ev f).
Proof.
  intros Hev s. unfold map_body. specialize (Hev s). destruct (ev s) as [r s']. cbn in Hev.
  destruct r; cbn; auto.
Qed.

Lemma many_loop_inscope ev c : ev_inscope ev -> forall fuel len s acc,
  inrel s (snd (many_loop ev c fuel len s acc)).
Proof.
  intros Hev. induction fuel as [|f IH]; intros len s acc; cbn [many_loop]; [apply inrel_refl|].
  pose proof (parse_option_inscope ev len s c Hev) as H.
  destruct (parse_option ev len s c) as [[o l] s1]. cbn [snd] in H.
  destruct o; cbn [snd]; try exact H. eapply inrel_trans; [exact H|apply IH].
Qed.
Lemma many_inscope ev c : ev_inscope ev -> ev_inscope (many_body ev c).
Proof.
  intros Hev s. unfold many_body. pose proof (many_loop_inscope ev c Hev (loop_fuel s) None s []) as H.
  destruct (many_loop ev c (loop_fuel s) None s []) as [[r acc] s1]. destruct r; exact H.
Qed.
Lemma some_inscope ev m c : ev_inscope ev -> ev_inscope (some_body ev m c).
Proof.
  intros Hev s. unfold some_body. pose proof (many_loop_inscope ev c Hev (loop_fuel s) None s []) as H.
  destruct (many_loop ev c (loop_fuel s) None s []) as [[r acc] s1]. destruct r; try exact H. destruct acc; exact H.
Qed.
Lemma count_loop_inscope ev : ev_inscope ev -> forall fuel len s cur n last,
  inrel s (snd (count_loop ev fuel len s cur n last)).
Proof.
  intros Hev. induction fuel as [|f IH]; intros len s cur n last; cbn [count_loop]; [apply inrel_refl|].
  pose proof (parse_option_inscope ev len s false Hev) as H.
  destruct (parse_option ev len s false) as [[o l] s1]. cbn [snd] in H.
  destruct o; cbn [snd]; try exact H.
  destruct (Nat.eqb cur (remaining s1)); cbn [snd]; [exact H|]. eapply inrel_trans; [exact H|apply IH].
Qed.
Lemma count_inscope ev : ev_inscope ev -> ev_inscope (count_body ev).
Proof.
  intros Hev s. unfold count_body. pose proof (count_loop_inscope ev Hev (loop_fuel s) None s (remaining s) 0 None) as H.
  destruct (count_loop ev (loop_fuel s) None s (remaining s) 0 None) as [[[r n] l] s1]. destruct r; exact H.
Qed.
Lemma last_inscope ev : ev_inscope ev -> ev_inscope (last_body ev).
Proof.
  intros Hev s. unfold last_body. pose proof (count_loop_inscope ev Hev (loop_fuel s) None s (remaining s) 0 None) as H.
  destruct (count_loop ev (loop_fuel s) None s (remaining s) 0 None) as [[[r n] l] s1]. cbn [snd] in H.
  destruct r; try exact H. destruct l; [exact H|]. eapply inrel_trans; [exact H|apply Hev].
Qed.
Lemma fallback_with_inscope ev fb : ev_inscope ev -> ev_inscope (fallback_with_body ev fb).
Proof.
  intros Hev s. unfold fallback_with_body. specialize (Hev s). destruct (ev s) as [r s']. cbn in Hev.
  destruct r; cbn; auto. destruct (can_catch m); [destruct fb|]; cbn; apply inrel_refl.
Qed.
Lemma hide_inscope ev : ev_inscope ev -> ev_inscope (hide_body ev).
Proof.
  intros Hev s. unfold hide_body. specialize (Hev s). destruct (ev s) as [r s']. cbn in Hev.
  destruct r; cbn; auto. destruct m; exact Hev.
Qed.

Lemma inrel_save_conflicts s x loser w : inrel s x -> inrel s (save_conflicts x loser w).
Proof.
  intros (S1 & I1 & L1 & C1). unfold save_conflicts.
  split; [exact S1|]. split; [exact I1|]. split; [cbn; rewrite save_conflicts_go_length; exact L1|].
  intros i Hl Hd. apply C1; [exact Hl|]. intros Hx. apply Hd.
  unfold live, present_at, ist_at in *. cbn. rewrite save_conflicts_go_present. exact Hx.
Qed.

Lemma this_or_that_states ra rb s sa sb r s' :
  this_or_that ra rb s sa sb = (r, s') ->
  s' = s \/ s' = sa \/ s' = sb \/ (exists w, s' = save_conflicts sa sb w) \/ (exists w, s' = save_conflicts sb sa w).
Proof.
  unfold this_or_that. intros H.
  destruct (Nat.compare (depth sa) (depth sb)).
  - destruct ra, rb; cbn in H;
      try (inv H; auto; fail);
      (destruct (Nat.eqb (remaining s) (remaining sa) && Nat.eqb (remaining s) (remaining sb));
       [inv H; auto|]);
      destruct (pick_winner sa sb) as [[|] [w|]]; inv H; eauto 8.
  - destruct rb; inv H; auto.
  - destruct ra; inv H; auto.
Qed.

Lemma or_inscope eva evb : ev_inscope eva -> ev_inscope evb -> ev_inscope (or_body eva evb).
Proof.
  intros Ha Hb s. unfold or_body. specialize (Ha s). specialize (Hb s).
  destruct (eva s) as [ra sa]. cbn in Ha.
  assert (Hmain : forall rb sb, inrel s sb ->
            inrel s (snd (match this_or_that ra rb s sa sb with
                          | (inl true, s') => (ra, s') | (inl false, s') => (rb, s') | (inr e, s') => (RErr e, s') end))).
  { intros rb sb Hsb. destruct (this_or_that ra rb s sa sb) as [r s'] eqn:E.
    apply this_or_that_states in E.
    assert (Hs' : inrel s s').
    { destruct E as [->|[->|[->|[[w ->]|[w ->]]]]]; auto using inrel_refl, inrel_save_conflicts. }
    destruct r as [[|]|e]; exact Hs'. }
  destruct ra; cbn [snd]; try exact Ha;
    (destruct (evb s) as [rb sb]; cbn in Hb; destruct rb; cbn [snd]; try exact Hb; apply Hmain; exact Hb).
Qed.

Lemma con_go_inscope ff evs s first acc err :
  Forall ev_inscope evs -> inrel s (snd (con_go ff evs s first acc err)).
Proof.
  intros Hall. revert s first acc err.
  induction Hall as [|ev evs Hev Hall IH]; intros s first acc err; cbn.
  - destruct err; cbn; [apply inrel_refl|apply inrel_current].
  - specialize (Hev s). destruct (ev s) as [r s']. cbn in Hev.
    destruct r; cbn; auto.
    + eapply inrel_trans; [exact Hev|apply IH].
    + destruct (ff && first); cbn; [exact Hev|]. eapply inrel_trans; [exact Hev|apply IH].
Qed.

Lemma con_inscope ff evs : Forall ev_inscope evs -> ev_inscope (con_body ff evs).
Proof.
  intros Hall s. unfold con_body, con_reset.
  pose proof (con_go_inscope ff evs s true [] None Hall) as H.
  destruct (con_go ff evs s true [] None) as [r s1]. cbn in *.
  eapply inrel_trans; [exact H|apply inrel_current].
Qed.

End WithEnv.

(* ------------------------------------------------------------------ the block *)
Lemma set_scope_live s a b s' i : set_scope s a b = Some s' -> (live s' i <-> live s i).
Proof.
  intros H. apply set_scope_fields in H. destruct H as (_ & Hi & _).
  unfold live, present_at, ist_at. rewrite Hi. tauto.
Qed.

(* What adj_inner hands back: the group was evaluated successfully on a window [a, b) of the
   ORIGINAL ledger; every item of the window that was available is consumed; nothing outside the
   window changed. *)
Theorem adj_inner_block ev orig before fuel this_arg best v fin :
  ev_inscope ev -> lenwf orig ->
  (forall i, live this_arg i <-> live orig i) -> lenwf this_arg ->
  adj_inner ev orig before fuel this_arg best = AReturn v fin ->
  exists a b,
    (forall i, a <= i < b -> live orig i -> ~ live fin i) /\
    (forall i, live orig i -> ~ live fin i -> a <= i < b).
Proof.
  intros Hev Hwo. revert this_arg best.
  induction fuel as [|f IH]; intros this_arg best Hsame Hwt H; [rewrite adj_inner_O in H; discriminate|].
  rewrite adj_inner_S in H. pose proof (Hev this_arg) as Hrel.
  destruct (ev this_arg) as [r ta] eqn:He. cbn in Hrel.
  destruct r; try discriminate.
  - destruct (adjacent_scope ta orig) as [| |na nb] eqn:Ha; try discriminate.
    + destruct (set_scope ta (sc_start orig) (sc_end orig)) as [fin'|] eqn:Hs; [|discriminate]. inv H.
      assert (Hwta : lenwf ta) by (eapply inrel_lenwf; eauto).
      destruct Hrel as (Hsc & _ & _ & Hin).
      exists (sc_start ta), (sc_end ta). split.
      * intros i Hi Hlo Hlf. apply (adjacent_scope_none ta orig Hwta Ha i Hi).
        split; [|exact Hlo]. apply (proj1 (set_scope_live _ _ _ _ i Hs)). exact Hlf.
      * intros i Hlo Hdf.
        assert (Hd : ~ live ta i) by (intros Hl; apply Hdf; apply (proj2 (set_scope_live _ _ _ _ i Hs)); exact Hl).
        assert (Hi : in_scope this_arg i = true) by (apply Hin; [apply Hsame; exact Hlo|exact Hd]).
        destruct Hsc as [A B]. unfold in_scope in Hi. apply andb_prop in Hi. destruct Hi as [H1 H2].
        apply Nat.leb_le in H1. apply Nat.ltb_lt in H2. lia.
    + destruct (set_scope orig na nb) as [ta'|] eqn:Hs; [|discriminate].
      eapply IH; [| |exact H].
      * intros i. apply (set_scope_live _ _ _ _ i Hs).
      * apply set_scope_fields in Hs. destruct Hs as (Hi & Hst & _). unfold lenwf in *. congruence.
  - destruct (Nat.ltb before (remaining ta)); [discriminate|]. cbn in H.
    destruct (Nat.ltb (b_consumed best) (before - remaining ta)); discriminate.
Qed.

Lemma adjacent_scope_some ta orig a b : adjacent_scope ta orig = ASSome a b -> a = sc_start ta.
Proof.
  unfold adjacent_scope. destruct (is_nil (items ta)); [discriminate|].
  destruct (_ || _); [discriminate|].
  destruct (both_present_from _ _ _); [|discriminate].
  destruct (_ && _); [discriminate|]. intros H; inv H. reflexivity.
Qed.

(* the same, also pinning the left end of the block: it is where the window started *)
Theorem adj_inner_block_start ev orig before fuel this_arg best v fin :
  ev_inscope ev -> lenwf orig ->
  (forall i, live this_arg i <-> live orig i) -> lenwf this_arg ->
  adj_inner ev orig before fuel this_arg best = AReturn v fin ->
  exists b,
    (forall i, sc_start this_arg <= i < b -> live orig i -> ~ live fin i) /\
    (forall i, live orig i -> ~ live fin i -> sc_start this_arg <= i < b) /\
    same_scope orig fin.
Proof.
  intros Hev Hwo. revert this_arg best.
  induction fuel as [|f IH]; intros this_arg best Hsame Hwt H; [rewrite adj_inner_O in H; discriminate|].
  rewrite adj_inner_S in H. pose proof (Hev this_arg) as Hrel.
  destruct (ev this_arg) as [r ta] eqn:He. cbn in Hrel.
  destruct r; try discriminate.
  - destruct (adjacent_scope ta orig) as [| |na nb] eqn:Ha; try discriminate.
    + destruct (set_scope ta (sc_start orig) (sc_end orig)) as [fin'|] eqn:Hs; [|discriminate]. inv H.
      assert (Hwta : lenwf ta) by (eapply inrel_lenwf; eauto).
      destruct Hrel as (Hsc & _ & _ & Hin).
      destruct Hsc as [A B].
      exists (sc_end ta). split; [|split].
      * intros i Hi Hlo Hlf. apply (adjacent_scope_none ta orig Hwta Ha i); [lia|].
        split; [|exact Hlo]. apply (proj1 (set_scope_live _ _ _ _ i Hs)). exact Hlf.
      * intros i Hlo Hdf.
        assert (Hd : ~ live ta i) by (intros Hl; apply Hdf; apply (proj2 (set_scope_live _ _ _ _ i Hs)); exact Hl).
        assert (Hi : in_scope this_arg i = true) by (apply Hin; [apply Hsame; exact Hlo|exact Hd]).
        unfold in_scope in Hi. apply andb_prop in Hi. destruct Hi as [H1 H2].
        apply Nat.leb_le in H1. apply Nat.ltb_lt in H2. lia.
      * apply set_scope_fields in Hs. destruct Hs as (_ & _ & _ & _ & _ & S1 & S2 & _). split; assumption.
    + destruct (set_scope orig na nb) as [ta'|] eqn:Hs; [|discriminate].
      pose proof (adjacent_scope_some _ _ _ _ Ha) as Hna.
      destruct Hrel as ((A & B) & _).
      assert (Hst : sc_start ta' = sc_start this_arg).
      { apply set_scope_fields in Hs. destruct Hs as (_ & _ & _ & _ & _ & S1 & _). congruence. }
      rewrite <- Hst. eapply IH; [| |exact H].
      * intros i. apply (set_scope_live _ _ _ _ i Hs).
      * apply set_scope_fields in Hs. destruct Hs as (Hi & Hist & _). unfold lenwf in *. congruence.
  - destruct (Nat.ltb before (remaining ta)); [discriminate|]. cbn in H.
    destruct (Nat.ltb (b_consumed best) (before - remaining ta)); discriminate.
Qed.

(* lifted to the whole group parser: one start offset succeeded; the block starts there *)
Theorem adj_try_block ev orig width start best v fin :
  ev_inscope ev -> lenwf orig ->
  adj_try ev orig width start best = AReturn v fin ->
  exists b,
    (forall i, start <= i < b -> live orig i -> ~ live fin i) /\
    (forall i, live orig i -> ~ live fin i -> start <= i < b) /\
    same_scope orig fin.
Proof.
  intros Hev Hwo H. unfold adj_try in H.
  destruct (set_scope orig start (length (items orig))) as [ta0|] eqn:H0; [|discriminate].
  destruct (set_scope ta0 start (start + width)) as [scratch|]; [|discriminate].
  destruct (Nat.eqb (remaining scratch) 0); [discriminate|].
  destruct (ev scratch) as [r0 scratch'].
  assert (Hmain :
    (if Nat.eqb (remaining scratch) (remaining scratch') then ANext best
     else match set_scope ta0 start (sc_end orig) with
          | None => AStop (RPanic P_set_scope) orig
          | Some this_arg1 =>
            match (if Nat.ltb (remaining this_arg1) (sc_end orig - start)
                   then let '(a, b) := adjacently_available_from this_arg1 start in
                        set_scope this_arg1 a b
                   else Some this_arg1) with
            | None => AStop (RPanic P_set_scope) orig
            | Some this_arg2 =>
              adj_inner ev orig (remaining this_arg1) (loop_fuel orig) this_arg2 best
            end
          end) = AReturn v fin ->
    exists b,
      (forall i, start <= i < b -> live orig i -> ~ live fin i) /\
      (forall i, live orig i -> ~ live fin i -> start <= i < b) /\ same_scope orig fin).
  { clear H. intros H.
    destruct (Nat.eqb (remaining scratch) (remaining scratch')); [discriminate|].
    destruct (set_scope ta0 start (sc_end orig)) as [ta1|] eqn:H2; [|discriminate].
    assert (L1 : forall i, live ta1 i <-> live orig i).
    { intros i. rewrite (set_scope_live _ _ _ _ i H2). apply (set_scope_live _ _ _ _ i H0). }
    assert (W1 : lenwf ta1).
    { apply set_scope_fields in H2. destruct H2 as (I2 & T2 & _).
      apply set_scope_fields in H0. destruct H0 as (I0 & T0 & _). unfold lenwf in *. congruence. }
    assert (S1 : sc_start ta1 = start).
    { apply set_scope_fields in H2. destruct H2 as (_ & _ & _ & _ & _ & S & _). exact S. }
    destruct (Nat.ltb (remaining ta1) (sc_end orig - start)).
    - pose proof (adjacently_available_live ta1 start) as [Ha _].
      destruct (adjacently_available_from ta1 start) as [a b]. cbn in Ha. subst a.
      destruct (set_scope ta1 start b) as [ta2|] eqn:H3; [|discriminate].
      assert (S2 : sc_start ta2 = start).
      { apply set_scope_fields in H3. destruct H3 as (_ & _ & _ & _ & _ & S & _). exact S. }
      rewrite <- S2. eapply adj_inner_block_start; [exact Hev|exact Hwo| | |exact H].
      + intros i. rewrite (set_scope_live _ _ _ _ i H3). apply L1.
      + apply set_scope_fields in H3. destruct H3 as (I3 & T3 & _). unfold lenwf in *. congruence.
    - rewrite <- S1. eapply adj_inner_block_start; eauto. }
  destruct r0; try discriminate; apply Hmain; exact H.
Qed.

Theorem eval_adjacent_block ev fi s v s' :
  ev_inscope ev -> lenwf s ->
  eval_adjacent ev fi s = (ROk v, s') ->
  exists a b,
    (forall i, a <= i < b -> live s i -> ~ live s' i) /\
    (forall i, live s i -> ~ live s' i -> a <= i < b) /\
    same_scope s s'.
Proof.
  intros Hev Hw H. unfold eval_adjacent in H. destruct fi as [it|]; [|discriminate].
  remember (mkBest 0 s (missing_msg it s)) as best eqn:Eb. clear Eb.
  revert best H. induction (adj_starts s (item_width it)) as [|st more IH]; intros best H; cbn [adj_outer] in H;
    [adj_nil H|].
  destruct (adj_try ev s (item_width it) st best) as [v0 fin|best'|r sx] eqn:Ht.
  - inv H. destruct (adj_try_block _ _ _ _ _ _ _ Hev Hw Ht) as (b & H1 & H2 & H3). eauto.
  - eapply IH; eauto.
  - pose proof (adj_try_scope ev s (item_width it) st best) as Hs. rewrite Ht in Hs. cbn in Hs.
    inversion H as [[Hr Hx]]. exfalso. eapply Hs; eauto.
Qed.

(* ------------------------------------------------------------------ a failed group gives the scope back *)
(* (fix: commit in /repo) the attempts of a group run in windows that start at the group's first item; when the group
   fails, the state handed back -- the one of the attempt that got furthest -- carries the CALLER's scope again, so what
   the caller looks for next (the help and version flags first of all) is looked for on the whole level *)
Definition stop_only (st : adj_step) : Prop :=
  match st with AStop (RPanic _) _ | AStop RFuel _ => True | AStop _ _ => False | _ => True end.

Lemma adj_inner_stop_only ev orig before : forall fuel ta best, stop_only (adj_inner ev orig before fuel ta best).
Proof.
  induction fuel as [|f IH]; intros ta best; [exact I|].
  unfold adj_inner; fold adj_inner. destruct (ev ta) as [r ta1]. destruct r; try exact I.
  - destruct (adjacent_scope ta1 orig) as [| |a b]; try exact I.
    + destruct (set_scope ta1 _ _); exact I.
    + destruct (set_scope orig a b) as [ta'|]; [apply IH|exact I].
  - destruct (Nat.ltb before (remaining ta1)); [exact I|].
    destruct (Nat.ltb (b_consumed best) (before - remaining ta1)); exact I.
Qed.

Lemma adj_try_stop_only ev orig width start best : stop_only (adj_try ev orig width start best).
Proof.
  unfold adj_try.
  destruct (set_scope orig start (length (items orig))) as [t0|]; [|exact I].
  destruct (set_scope t0 start (start + width)) as [sc|]; [|exact I].
  destruct (Nat.eqb (remaining sc) 0); [exact I|].
  destruct (ev sc) as [r0 sc'].
  assert (Hgo : stop_only (if Nat.eqb (remaining sc) (remaining sc') then ANext best
                   else match set_scope t0 start (sc_end orig) with
                        | None => AStop (RPanic P_set_scope) orig
                        | Some this_arg1 =>
                          match (if Nat.ltb (remaining this_arg1) (sc_end orig - start)
                                 then let '(a, b) := adjacently_available_from this_arg1 start in set_scope this_arg1 a b
                                 else Some this_arg1) with
                          | None => AStop (RPanic P_set_scope) orig
                          | Some this_arg2 => adj_inner ev orig (remaining this_arg1) (loop_fuel orig) this_arg2 best
                          end
                        end)).
  { destruct (Nat.eqb (remaining sc) (remaining sc')); [exact I|].
    destruct (set_scope t0 start (sc_end orig)) as [t1|]; [|exact I].
    destruct (Nat.ltb (remaining t1) (sc_end orig - start)).
    - destruct (adjacently_available_from t1 start) as [a b].
      destruct (set_scope t1 a b) as [t2|]; [apply adj_inner_stop_only|exact I].
    - apply adj_inner_stop_only. }
  destruct r0; try exact I; exact Hgo.
Qed.

Lemma adj_outer_err_scope ev orig width : forall starts best e s',
  adj_outer ev orig width starts best = (RErr e, s') -> same_scope orig s'.
Proof.
  induction starts as [|st more IH]; intros best e s' H; cbn [adj_outer] in H.
  - destruct (set_scope (b_args best) (sc_start orig) (sc_end orig)) as [fin|] eqn:E; [|discriminate].
    inversion H; subst. apply set_scope_fields in E. unfold same_scope. tauto.
  - pose proof (adj_try_stop_only ev orig width st best) as Hs.
    destruct (adj_try ev orig width st best) as [v fin|best'|r sx]; [discriminate|eapply IH; eauto|].
    inversion H; subst. cbn in Hs. contradiction.
Qed.

Theorem adjacent_err_scope ev fi s e s' :
  eval_adjacent ev fi s = (RErr e, s') -> same_scope s s'.
Proof.
  unfold eval_adjacent. destruct fi as [it|]; [|discriminate]. apply adj_outer_err_scope.
Qed.

(* ------------------------------------------------------------------ which block is taken *)
(* start offsets are tried from left to right; the value comes from the FIRST one at which the group
   parses (so `many` over the group yields the blocks in command-line order) *)
Theorem adj_outer_first ev orig width : forall starts best v fin,
  adj_outer ev orig width starts best = (ROk v, fin) ->
  exists before start after best',
    starts = before ++ start :: after /\
    adj_try ev orig width start best' = AReturn v fin /\
    (forall st, In st before -> exists b0 b1, adj_try ev orig width st b0 = ANext b1).
Proof.
  induction starts as [|st more IH]; intros best v fin H; cbn [adj_outer] in H; [adj_nil H|].
  destruct (adj_try ev orig width st best) as [v0 s0|best'|r s0] eqn:E.
  - inversion H; subst. exists [], st, more, best. split; [reflexivity|]. split; [exact E|]. intros x [].
  - destruct (IH best' v fin H) as (before & start & after & b' & Hs & Ht & Hb).
    exists (st :: before), start, after, b'. split; [cbn; rewrite Hs; reflexivity|]. split; [exact Ht|].
    intros x [<-|Hx]; [eauto|apply Hb, Hx].
  - pose proof (adj_try_scope ev orig width st best) as Hs. rewrite E in Hs. cbn in Hs.
    inversion H as [[Hr Hx]]. exfalso. eapply Hs; eauto.
Qed.

Lemma adj_starts_sorted s width : forall i j a b,
  nth_error (adj_starts s width) i = Some a -> nth_error (adj_starts s width) j = Some b -> i < j -> a < b.
Proof.
  unfold adj_starts.
  assert (G : forall (f : nat -> bool) n st i j a b,
             nth_error (filter f (seq st n)) i = Some a -> nth_error (filter f (seq st n)) j = Some b -> i < j -> a < b).
  { intros f. induction n as [|n IH]; intros st i j a b Hi Hj Hlt; cbn [seq filter] in *; [destruct i; discriminate|].
    destruct (f st).
    - destruct i as [|i]; destruct j as [|j]; try lia; cbn [nth_error] in *.
      + inversion Hi; subst. assert (Hin : In b (filter f (seq (S a) n))) by (eapply nth_error_In; eauto).
        apply filter_In in Hin. destruct Hin as [Hin _]. apply in_seq in Hin. lia.
      + eapply IH; eauto. lia.
    - eapply IH; eauto. }
  intros i j a b. apply G.
Qed.
