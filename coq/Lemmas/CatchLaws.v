(* CatchLaws.v -- which errors the wrappers may turn into a default, and which they must pass on. *)
From BpafLemmas Require Import Tac EvalEq.

(* the catchable messages, read off the table regenerated from src/error.rs *)
Theorem catch_table m :
  can_catch m = true <->
  (exists x, m = MsgNoEnv x) \/ (exists x, m = MsgParseSome x) \/ (exists x, m = MsgParseFail x) \/
  (exists x, m = MsgPureFailed x) \/ (exists x, m = MsgMissing x) \/ (exists i x, m = MsgNonStrictPos i x).
Proof.
  split.
  - destruct m; cbn; intros H; try discriminate; eauto 10.
  - intros [[x ->]|[[x ->]|[[x ->]|[[x ->]|[[x ->]|[i [x ->]]]]]]]; reflexivity.
Qed.

(* "present but invalid" errors are final *)
Theorem final_errors ix t mv :
  can_catch (MsgParseFailed ix t) = false /\ can_catch (MsgGuardFailed ix t) = false /\
  can_catch (MsgNoArgument (match ix with Some i => i | None => 0 end) mv) = false /\
  can_catch (MsgStrictPos (match ix with Some i => i | None => 0 end) mv) = false /\
  (forall f, can_catch (MsgParseFailure f) = false) /\
  (forall i, can_catch (MsgUnconsumed i) = false) /\ (forall i s, can_catch (MsgAmbiguity i s) = false).
Proof. repeat split. Qed.

Lemma final_not_missing e : can_catch e = false -> is_missing e = false.
Proof. destruct e; cbn; congruence. Qed.

(* parse_option without `catch` passes a final error on, with the failing state *)
Theorem parse_option_final ev len s e s1 :
  ev s = (RErr e, s1) -> can_catch e = false ->
  parse_option ev len s false = (OErr e, len, s1).
Proof.
  intros He Hc. unfold parse_option. rewrite He. rewrite (final_not_missing e Hc), Hc. reflexivity.
Qed.

Theorem optional_final ev s e s1 :
  ev s = (RErr e, s1) -> can_catch e = false -> optional_body ev false s = (RErr e, s1).
Proof. intros He Hc. unfold optional_body. rewrite (parse_option_final _ _ _ _ _ He Hc). reflexivity. Qed.

(* the loops: a final error at ANY iteration is the result of the loop *)
Theorem many_loop_final ev fuel len s acc e s1 :
  ev s = (RErr e, s1) -> can_catch e = false ->
  many_loop ev false (S fuel) len s acc = (RErr e, acc, s1).
Proof. intros He Hc. cbn. rewrite (parse_option_final _ _ _ _ _ He Hc). reflexivity. Qed.

Theorem count_loop_final ev fuel len s cur n last e s1 :
  ev s = (RErr e, s1) -> can_catch e = false ->
  count_loop ev (S fuel) len s cur n last = (RErr e, n, last, s1).
Proof. intros He Hc. cbn. rewrite (parse_option_final _ _ _ _ _ He Hc). reflexivity. Qed.

(* errors of a loop are errors of its body: nothing is invented, and a final body error is never
   replaced by a value *)
Theorem many_loop_err_origin ev fuel len s acc e acc' s' :
  many_loop ev false fuel len s acc = (RErr e, acc', s') ->
  exists s0 s1, ev s0 = (RErr e, s1).
Proof.
  revert len s acc. induction fuel as [|f IH]; intros len s acc H; cbn in H; [discriminate|].
  unfold parse_option in H. destruct (ev s) as [r s1] eqn:He.
  destruct r.
  - destruct (lt_len (remaining s1) len); [|inv H]. eapply IH; eauto.
  - destruct (false || _ || _); inv H. eauto.
  - inv H.
  - inv H.
Qed.

Theorem many_final ev s e s1 :
  ev s = (RErr e, s1) -> can_catch e = false -> many_body ev false s = (RErr e, s1).
Proof.
  intros He Hc. unfold many_body, loop_fuel. rewrite (many_loop_final _ _ _ _ _ _ _ He Hc). reflexivity.
Qed.

Theorem some_final ev msg s e s1 :
  ev s = (RErr e, s1) -> can_catch e = false -> some_body ev msg false s = (RErr e, s1).
Proof.
  intros He Hc. unfold some_body, loop_fuel. rewrite (many_loop_final _ _ _ _ _ _ _ He Hc). reflexivity.
Qed.

Theorem count_final ev s e s1 :
  ev s = (RErr e, s1) -> can_catch e = false -> count_body ev s = (RErr e, s1).
Proof.
  intros He Hc. unfold count_body, loop_fuel. rewrite (count_loop_final _ _ _ _ _ _ _ _ _ He Hc). reflexivity.
Qed.

Theorem last_final ev s e s1 :
  ev s = (RErr e, s1) -> can_catch e = false -> last_body ev s = (RErr e, s1).
Proof.
  intros He Hc. unfold last_body, loop_fuel. rewrite (count_loop_final _ _ _ _ _ _ _ _ _ He Hc). reflexivity.
Qed.

Theorem fallback_final ev fb s e s1 :
  ev s = (RErr e, s1) -> can_catch e = false -> fallback_with_body ev fb s = (RErr e, s).
Proof. intros He Hc. unfold fallback_with_body. rewrite He, Hc. reflexivity. Qed.

(* guard / parse / map / hide never turn an error into a value, and attach the user's text *)
Theorem guard_fails ev check msg s v s1 :
  ev s = (ROk v, s1) -> check v = false ->
  guard_body ev check msg s = (RErr (MsgGuardFailed (current s1) msg), s1) /\
  can_catch (MsgGuardFailed (current s1) msg) = false.
Proof. intros He Hc. unfold guard_body. rewrite He, Hc. split; reflexivity. Qed.

Theorem parse_fails ev f s v s1 t :
  ev s = (ROk v, s1) -> f v = inr t ->
  parse_body ev f s = (RErr (MsgParseFailed (current s1) t), s1) /\
  can_catch (MsgParseFailed (current s1) t) = false.
Proof. intros He Hc. unfold parse_body. rewrite He, Hc. split; reflexivity. Qed.

Theorem convert_fails ty w s t :
  convert ty w = inr t ->
  convert_res ty w s = (RErr (MsgParseFailed (current s) t), s) /\
  can_catch (MsgParseFailed (current s) t) = false.
Proof. intros H. unfold convert_res. rewrite H. split; reflexivity. Qed.

Theorem passthrough_err ev s e s1 :
  ev s = (RErr e, s1) ->
  (forall c m, guard_body ev c m s = (RErr e, s1)) /\
  (forall f, parse_body ev f s = (RErr e, s1)) /\
  (forall f, map_body ev f s = (RErr e, s1)) /\
  (is_missing e = false -> hide_body ev s = (RErr e, s1)).
Proof.
  intros He. unfold guard_body, parse_body, map_body, hide_body. rewrite He.
  repeat split. intros Hm. destruct e; try reflexivity. discriminate.
Qed.

(* env-backed or not, an absent optional leaf yields the default: absence is catchable *)
Theorem absent_is_catchable it s : can_catch (missing_msg it s) = true.
Proof. reflexivity. Qed.

Theorem optional_absent ev s it :
  ev s = (RErr (missing_msg it s), s) -> optional_body ev false s = (ROk VNone, s).
Proof.
  intros He. unfold optional_body, parse_option. rewrite He. cbn.
  rewrite Nat.eqb_refl. reflexivity.
Qed.

Theorem fallback_absent ev v s it :
  ev s = (RErr (missing_msg it s), s) -> fallback_body ev v s = (ROk v, s).
Proof. intros He. unfold fallback_body, fallback_with_body. rewrite He. reflexivity. Qed.

(* sequential composition (construct!) never loses an error: once a field has failed with e, the
   result is e (later fields are still evaluated, their errors do not replace it) *)
Theorem con_go_keeps_error evs s first acc e r s' :
  con_go false evs s first acc (Some e) = (r, s') ->
  r = RErr e \/ (exists w, r = RPanic w) \/ r = RFuel.
Proof.
  revert s first acc. induction evs as [|ev evs IH]; intros s first acc H; cbn in H.
  - inv H. auto.
  - destruct (ev s) as [r0 s1]. destruct r0.
    + eapply IH; eauto.
    + cbn in H. eapply IH; eauto.
    + inv H. eauto.
    + inv H. auto.
Qed.

Theorem con_go_first_failure evs ev s first acc e s1 r s' :
  ev s = (RErr e, s1) ->
  con_go false (ev :: evs) s first acc None = (r, s') ->
  r = RErr e \/ (exists w, r = RPanic w) \/ r = RFuel.
Proof.
  intros He H. cbn in H. rewrite He in H. cbn in H. eapply con_go_keeps_error; eauto.
Qed.
