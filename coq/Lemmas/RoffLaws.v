(* RoffLaws.v -- manpage output (C16):
   (1) every output line that begins with a roff control character (`.` or `'`) begins with a byte
       bpaf itself emitted as the start of a request (origin OCtl) -- for EVERY document, every
       help text, name and metavariable;
   (2) user text is read back by roff exactly: the escaping round-trips through a reader of roff
       text that knows only the escapes bpaf uses and fails on any other backslash sequence. *)
From Coq Require Import Lia List Bool NArith.
From BpafModel Require Import Docs.
Import ListNotations.

(* ------------------------------------------------------------------ (2) round trip *)
(* a reader of roff text: \& is nothing, \\ \- "\ " are the character, \*(Aq is an apostrophe; any
   other escape is NOT understood (None) *)
Fixpoint unroff (s : bytes) : option bytes :=
  match s with
  | [] => Some []
  | c :: t =>
    if (c =? c_bsl)%N then
      match t with
      | d :: t' =>
        if (d =? 38)%N then unroff t'
        else if (d =? c_bsl)%N then option_map (cons c_bsl) (unroff t')
        else if (d =? c_minus)%N then option_map (cons c_minus) (unroff t')
        else if (d =? 32)%N then option_map (cons 32%N) (unroff t')
        else if (d =? 42)%N then
          match t' with
          | x :: y :: z :: t'' =>
            if ((x =? 40) && (y =? 65) && (z =? 113))%N then option_map (cons c_apos) (unroff t'') else None
          | _ => None
          end
        else None
      | [] => None
      end
    else option_map (cons c) (unroff t)
  end.

Definition untag (o : list tbyte) : bytes := map fst o.
Lemma untag_app a b : untag (a ++ b) = untag a ++ untag b.
Proof. apply map_app. Qed.

Definition nl_to_sp (c : N) : N := if (c =? 10)%N then 32%N else c.

Ltac eqb_cases c :=
  destruct (N.eqb_spec c 39); [subst c|];
  [|destruct (N.eqb_spec c 92); [subst c|];
    [|destruct (N.eqb_spec c 45); [subst c|];
      [|destruct (N.eqb_spec c 46); [subst c|];
        [|destruct (N.eqb_spec c 10); [subst c|];
          [|destruct (N.eqb_spec c 32); [subst c|]]]]]].

Ltac neqs :=
  repeat (unfold c_dot, c_apos, c_bsl, c_minus in *;
          repeat match goal with
                 | H : ?c <> ?k |- context [(?c =? ?k)%N] => rewrite (proj2 (N.eqb_neq c k) H)
                 end; cbn).

(* one byte of Special text reads back as itself *)
Lemma unroff_special_byte a c r :
  unroff (untag (fst (esc_byte ESpecial a c)) ++ r) = option_map (cons c) (unroff r).
Proof. unfold esc_byte. eqb_cases c; destruct a; neqs; reflexivity. Qed.

Lemma unroff_nonl_byte a c r :
  unroff (untag (fst (esc_byte ESpecialNoNl a c)) ++ r) = option_map (cons (nl_to_sp c)) (unroff r).
Proof. unfold esc_byte, nl_to_sp. eqb_cases c; destruct a; neqs; reflexivity. Qed.

Lemma unroff_spaces_byte a c r :
  unroff (untag (fst (esc_byte ESpaces a c)) ++ r) = option_map (cons (nl_to_sp c)) (unroff r).
Proof. unfold esc_byte, nl_to_sp. eqb_cases c; destruct a; neqs; reflexivity. Qed.

Lemma esc_bytes_cons m a c t :
  esc_bytes m a (c :: t) =
  (fst (esc_byte m a c) ++ fst (esc_bytes m (snd (esc_byte m a c)) t),
   snd (esc_bytes m (snd (esc_byte m a c)) t)).
Proof.
  cbn [esc_bytes]. destruct (esc_byte m a c) as [o1 a1]. cbn [fst snd]. destruct (esc_bytes m a1 t) as [o2 a2]. reflexivity.
Qed.

(* help texts, metavariables, names: written with Escape::Special, read back unchanged *)
Theorem special_roundtrip s : forall a, unroff (untag (fst (esc_bytes ESpecial a s))) = Some s.
Proof.
  induction s as [|c t IH]; intros a; [reflexivity|].
  rewrite esc_bytes_cons. cbn [fst]. rewrite untag_app, unroff_special_byte, IH. reflexivity.
Qed.

(* item terms (strip_newlines): the same with newlines turned into spaces *)
Theorem special_nonl_roundtrip s : forall a,
  unroff (untag (fst (esc_bytes ESpecialNoNl a s))) = Some (map nl_to_sp s).
Proof.
  induction s as [|c t IH]; intros a; [reflexivity|].
  rewrite esc_bytes_cons. cbn [fst]. rewrite untag_app, unroff_nonl_byte, IH. reflexivity.
Qed.

(* arguments of requests (section titles, command paths, the application name) *)
Theorem spaces_roundtrip s : forall a,
  unroff (untag (fst (esc_bytes ESpaces a s))) = Some (map nl_to_sp s).
Proof.
  induction s as [|c t IH]; intros a; [reflexivity|].
  rewrite esc_bytes_cons. cbn [fst]. rewrite untag_app, unroff_spaces_byte, IH. reflexivity.
Qed.

(* the reader really rejects foreign escapes: `\fB` passed through unescaped is not understood *)
Example unroff_rejects_raw_escape : unroff [92; 102; 66]%N = None.
Proof. reflexivity. Qed.

(* ------------------------------------------------------------------ (1) control lines *)
Definition is_ctl_char (c : N) : bool := ((c =? 46) || (c =? 39))%N.
Definition is_octl (o : origin) : bool := match o with OCtl => true | _ => false end.

(* walk the output keeping "really at the start of a line"; None = a line begins with a control
   character that is not the start of one of bpaf's requests *)
Fixpoint chk (r : bool) (out : list tbyte) : option bool :=
  match out with
  | [] => Some r
  | (c, o) :: t => if r && is_ctl_char c && negb (is_octl o) then None else chk (c =? 10)%N t
  end.

Lemma chk_app r a b : chk r (a ++ b) = match chk r a with Some r' => chk r' b | None => None end.
Proof.
  revert r. induction a as [|[c o] t IH]; intros r; cbn [app chk]; [reflexivity|].
  destruct (r && is_ctl_char c && negb (is_octl o)); [reflexivity|apply IH].
Qed.

(* the invariant of `escape`: whenever the output really is at a line start, the flag says so *)
Definition inv (r f : bool) : Prop := r = true -> f = true.

Lemma inv_false f : inv false f.
Proof. intros H; discriminate. Qed.
Lemma inv_same b : inv b b.
Proof. intros H; exact H. Qed.
#[local] Hint Resolve inv_false inv_same : roff.

(* Special text: whatever the bytes *)
Lemma chk_special_byte m c r f :
  (m = ESpecial \/ m = ESpecialNoNl) -> inv r f ->
  exists r', chk r (fst (esc_byte m f c)) = Some r' /\ inv r' (snd (esc_byte m f c)).
Proof.
  intros Hm Hi. unfold inv in Hi.
  destruct r; [rewrite (Hi eq_refl)|]; destruct Hm; subst m; unfold esc_byte;
    eqb_cases c; try destruct f; neqs; unfold is_ctl_char; neqs; eauto with roff.
Qed.

Lemma chk_special m s : (m = ESpecial \/ m = ESpecialNoNl) -> forall r f, inv r f ->
  exists r', chk r (fst (esc_bytes m f s)) = Some r' /\ inv r' (snd (esc_bytes m f s)).
Proof.
  intros Hm. induction s as [|c t IH]; intros r f Hi; [exists r; split; [reflexivity|exact Hi]|].
  rewrite esc_bytes_cons. cbn [fst snd].
  destruct (chk_special_byte m c r f Hm Hi) as [r1 [E1 I1]].
  destruct (IH r1 _ I1) as [r2 [E2 I2]].
  exists r2. rewrite chk_app, E1. auto.
Qed.

(* request arguments: only ever written in the middle of a line, and never emit a newline *)
Lemma chk_spaces s : forall f, chk false (fst (esc_bytes ESpaces f s)) = Some false.
Proof.
  induction s as [|c t IH]; intros f; [reflexivity|].
  rewrite esc_bytes_cons. cbn [fst]. rewrite chk_app.
  assert (E : chk false (fst (esc_byte ESpaces f c)) = Some false).
  { unfold esc_byte. destruct ((c =? 32)%N || (c =? 10)%N) eqn:E0; [reflexivity|].
    apply orb_false_iff in E0. destruct E0 as [_ E10].
    destruct (c =? c_bsl)%N eqn:Eb; cbn.
    - apply N.eqb_eq in Eb. subst c. reflexivity.
    - rewrite E10. reflexivity. }
  rewrite E. apply IH.
Qed.

(* bpaf's fixed vocabulary: no newline inside, does not begin with a control character *)
Definition fix_safe (p : bytes) : bool :=
  forallb (fun c => negb (c =? 10)%N) p && match p with c :: _ => negb (is_ctl_char c) | [] => true end.

Lemma chk_unesc_tail p : forall f, forallb (fun c => negb (c =? 10)%N) p = true ->
  chk false (fst (esc_bytes EUnesc f p)) = Some false /\ (p <> [] -> snd (esc_bytes EUnesc f p) = false).
Proof.
  induction p as [|c t IH]; intros f H; [split; [reflexivity|congruence]|].
  cbn [forallb] in H. apply andb_prop in H. destruct H as [Hc Ht].
  rewrite esc_bytes_cons. cbn [fst snd esc_byte]. apply negb_true_iff in Hc. rewrite Hc.
  destruct (IH false Ht) as [E1 E2]. split.
  - cbn [app chk andb]. rewrite Hc. exact E1.
  - intros _. destruct t; [reflexivity|]. apply E2. discriminate.
Qed.

Lemma chk_unesc p r f : fix_safe p = true -> inv r f ->
  exists r', chk r (fst (esc_bytes EUnesc f p)) = Some r' /\ inv r' (snd (esc_bytes EUnesc f p)) /\
             (p <> [] -> r' = false).
Proof.
  intros H Hi. unfold fix_safe in H. apply andb_prop in H. destruct H as [Hn Hh].
  destruct p as [|c t]; [exists r; repeat split; [exact Hi|congruence]|].
  cbn [forallb] in Hn. apply andb_prop in Hn. destruct Hn as [Hc Ht].
  rewrite esc_bytes_cons. cbn [fst snd esc_byte]. apply negb_true_iff in Hc. rewrite Hc.
  destruct (chk_unesc_tail t false Ht) as [E1 E2].
  exists false. cbn [app chk]. apply negb_true_iff in Hh. rewrite Hh, andb_false_r. cbn [andb]. rewrite Hc.
  repeat split; auto with roff.
Qed.

(* the bytes of a request start are bpaf's own *)
Lemma chk_ctl p : forall r f, exists r',
  chk r (fst (esc_bytes EUnescNl f p)) = Some r' /\
  (p <> [] -> inv r' (snd (esc_bytes EUnescNl f p))) /\ (p = [] -> r' = r).
Proof.
  induction p as [|c t IH]; intros r f; [exists r; repeat split; congruence|].
  rewrite esc_bytes_cons. cbn [fst snd esc_byte]. cbn [app chk is_octl negb]. rewrite andb_false_r.
  destruct (IH (c =? 10)%N (c =? 10)%N) as [r' [E [I1 I2]]]. exists r'. split; [exact E|]. split; [|discriminate].
  intros _. destruct t; [|apply I1; discriminate].
  rewrite (I2 eq_refl). apply inv_same.
Qed.

(* escape_go with the final flag *)
Fixpoint escape_go2 (at_start : bool) (fs : list frag) : list tbyte * bool :=
  match fs with
  | [] => ([], at_start)
  | (m, p) :: t =>
    let nlb := negb at_start && esc_eqb m EUnescNl in
    let '(o, a) := esc_bytes m (if nlb then true else at_start) p in
    let '(o2, a2) := escape_go2 a t in
    ((if nlb then [(10%N, OIns)] else []) ++ o ++ o2, a2)
  end.
Lemma escape_go2_fst f fs : fst (escape_go2 f fs) = escape_go f fs.
Proof.
  revert f. induction fs as [|[m p] t IH]; intros f; cbn [escape_go2 escape_go]; [reflexivity|].
  destruct (esc_bytes m _ p) as [o a]. rewrite <- IH. destruct (escape_go2 a t). reflexivity.
Qed.
Lemma escape_go2_app f a b :
  escape_go2 f (a ++ b) = (fst (escape_go2 f a) ++ fst (escape_go2 (snd (escape_go2 f a)) b),
                           snd (escape_go2 (snd (escape_go2 f a)) b)).
Proof.
  revert f. induction a as [|[m p] t IH]; intros f; cbn [app escape_go2].
  - cbn. destruct (escape_go2 f b); reflexivity.
  - destruct (esc_bytes m _ p) as [o x]. rewrite IH. destruct (escape_go2 x t) as [o2 a2]. cbn [fst snd].
    destruct (escape_go2 a2 b). cbn [fst snd]. rewrite <- !app_assoc. reflexivity.
Qed.

(* a run of fragments is fine from state (r, f) and leaves the invariant *)
Definition fine (fs : list frag) : Prop :=
  forall r f, inv r f -> exists r', chk r (fst (escape_go2 f fs)) = Some r' /\ inv r' (snd (escape_go2 f fs)).

Lemma fine_nil : fine [].
Proof. intros r f H. exists r. auto. Qed.

Lemma fine_app a b : fine a -> fine b -> fine (a ++ b).
Proof.
  intros Ha Hb r f Hi. rewrite escape_go2_app. cbn [fst snd].
  destruct (Ha r f Hi) as [r1 [E1 I1]]. destruct (Hb r1 _ I1) as [r2 [E2 I2]].
  exists r2. rewrite chk_app, E1. auto.
Qed.

Lemma escape_go2_one f m p :
  escape_go2 f [(m, p)] =
  let nlb := negb f && esc_eqb m EUnescNl in
  ((if nlb then [(10%N, OIns)] else []) ++ fst (esc_bytes m (if nlb then true else f) p),
   snd (esc_bytes m (if nlb then true else f) p)).
Proof.
  cbn [escape_go2]. destruct (esc_bytes m _ p) as [o a]. cbn. rewrite app_nil_r. reflexivity.
Qed.

(* a newline inserted before a request does no harm *)
Lemma chk_ins_nl r : chk r [(10%N, OIns)] = Some true.
Proof. cbn. rewrite andb_false_r. reflexivity. Qed.

Lemma fine_special m s : (m = ESpecial \/ m = ESpecialNoNl) -> fine [(m, s)].
Proof.
  intros Hm r f Hi. rewrite escape_go2_one.
  assert (E : esc_eqb m EUnescNl = false) by (destruct Hm; subst; reflexivity).
  rewrite E, andb_false_r. cbn [app fst snd]. apply chk_special; assumption.
Qed.

Lemma fine_unesc p : fix_safe p = true -> fine [(EUnesc, p)].
Proof.
  intros Hp r f Hi. rewrite escape_go2_one. cbn [esc_eqb]. rewrite andb_false_r. cbn [app fst snd].
  destruct (chk_unesc p r f Hp Hi) as [r' [E [I _]]]. eauto.
Qed.

(* the start of a request: from any state; afterwards we are in the middle of a line *)
Lemma ctl_dot r f : inv r f ->
  chk r (fst (escape_go2 f [(EUnescNl, [c_dot])])) = Some false /\ snd (escape_go2 f [(EUnescNl, [c_dot])]) = false.
Proof.
  intros Hi. rewrite escape_go2_one. cbn [esc_eqb]. rewrite andb_true_r.
  destruct f; cbn; rewrite ?andb_false_r; auto.
Qed.

(* the end of a request / a source line break: a newline unless the flag says we are at one *)
Lemma fine_ctl_nil : fine [(EUnescNl, [])].
Proof.
  intros r f Hi. rewrite escape_go2_one. cbn [esc_eqb]. rewrite andb_true_r.
  destruct f; cbn.
  - exists r. auto.
  - exists true. rewrite andb_false_r. auto with roff.
Qed.

(* mid-line fragments: a fixed word without newline keeps us mid-line *)
Lemma mid_unesc p f : fix_safe p = true ->
  chk false (fst (escape_go2 f [(EUnesc, p)])) = Some false.
Proof.
  intros Hp. rewrite escape_go2_one. cbn [esc_eqb]. rewrite andb_false_r. cbn [app fst].
  unfold fix_safe in Hp. apply andb_prop in Hp. destruct Hp as [Hn _].
  apply (chk_unesc_tail p f Hn).
Qed.
Lemma mid_spaces p f : chk false (fst (escape_go2 f [(ESpaces, p)])) = Some false.
Proof. rewrite escape_go2_one. cbn [esc_eqb]. rewrite andb_false_r. cbn [app fst]. apply chk_spaces. Qed.

(* a run that starts mid-line, stays mid-line: (EUnesc name) (EUnesc " " ; ESpaces arg)* *)
Definition mid (fs : list frag) : Prop := forall f, chk false (fst (escape_go2 f fs)) = Some false.
Lemma mid_nil : mid [].
Proof. intros f. reflexivity. Qed.
Lemma mid_app a b : mid a -> mid b -> mid (a ++ b).
Proof. intros Ha Hb f. rewrite escape_go2_app. cbn [fst]. rewrite chk_app, Ha. apply Hb. Qed.

Lemma mid_args args :
  mid (flat_map (fun a => [(EUnesc, [32%N]); (ESpaces, if is_nil a then k_empty_arg else a)]) args).
Proof.
  induction args as [|a t IH]; [apply mid_nil|]. cbn [flat_map].
  change ([(EUnesc, [32%N]); (ESpaces, if is_nil a then k_empty_arg else a)] ++ ?x)
    with ([(EUnesc, [32%N])] ++ ([(ESpaces, if is_nil a then k_empty_arg else a)] ++ x)).
  apply mid_app; [intros f; apply mid_unesc; reflexivity|].
  apply mid_app; [intros f; apply mid_spaces|exact IH].
Qed.

(* a request with arguments *)
Lemma fine_control name args : fix_safe name = true -> fine (r_control name args).
Proof.
  intros Hn r f Hi. unfold r_control.
  change ([(EUnescNl, [c_dot]); (EUnesc, name)] ++ ?x ++ ?y)
    with ([(EUnescNl, [c_dot])] ++ (([(EUnesc, name)] ++ x) ++ y)).
  rewrite escape_go2_app. cbn [fst snd].
  destruct (ctl_dot r f Hi) as [E1 F1]. rewrite chk_app, E1, F1.
  rewrite escape_go2_app. cbn [fst snd]. rewrite chk_app.
  assert (M : mid ([(EUnesc, name)] ++ flat_map (fun a => [(EUnesc, [32%N]); (ESpaces, if is_nil a then k_empty_arg else a)]) args)).
  { apply mid_app; [intros g; apply mid_unesc; exact Hn|apply mid_args]. }
  rewrite M. apply fine_ctl_nil. apply inv_false.
Qed.

Lemma fine_control0 name : fix_safe name = true -> fine (r_control0 name).
Proof.
  intros Hn r f Hi. unfold r_control0.
  change [(EUnescNl, [c_dot]); (EUnesc, name); (EUnescNl, [])]
    with ([(EUnescNl, [c_dot])] ++ ([(EUnesc, name)] ++ [(EUnescNl, [])])).
  rewrite escape_go2_app. cbn [fst snd].
  destruct (ctl_dot r f Hi) as [E1 F1]. rewrite chk_app, E1, F1.
  rewrite escape_go2_app. cbn [fst snd]. rewrite chk_app, (mid_unesc name false Hn).
  apply fine_ctl_nil. apply inv_false.
Qed.

Lemma fine_text strip fnt s : fine (r_text strip fnt s).
Proof.
  unfold r_text.
  change [(EUnesc, font_esc fnt); (if strip then ESpecialNoNl else ESpecial, s); (EUnesc, restore_font)]
    with ([(EUnesc, font_esc fnt)] ++ ([(if strip then ESpecialNoNl else ESpecial, s)] ++ [(EUnesc, restore_font)])).
  apply fine_app; [apply fine_unesc; destruct fnt; reflexivity|].
  apply fine_app; [apply fine_special; destruct strip; auto|apply fine_unesc; reflexivity].
Qed.

(* every token of every document contributes a fine run *)
Lemma fine_roff_step st t fs st' : roff_step st t = Some (fs, st') -> fine fs.
Proof.
  destruct t as [sty s|b|b]; cbn [roff_step].
  - destruct (rs_capturing st); intros H; inversion H; subst; [apply fine_nil|].
    apply fine_app; [|apply fine_text]. destruct sty; try apply fine_nil. apply fine_control0. reflexivity.
  - destruct b; intros H; inversion H; subst; try apply fine_nil; apply fine_control0; reflexivity.
  - destruct b; intros H; inversion H; subst; try apply fine_nil;
      try (apply fine_control0; reflexivity); try (apply fine_control; reflexivity).
    apply fine_ctl_nil.
Qed.

Lemma fine_roff_frags d : forall st fs, roff_frags st d = Some fs -> fine fs.
Proof.
  induction d as [|t d IH]; intros st fs H; cbn [roff_frags] in H.
  - inversion H. apply fine_nil.
  - destruct (roff_step st t) as [[f1 st1]|] eqn:E; [|discriminate].
    destruct (roff_frags st1 d) as [r|] eqn:E2; [|discriminate]. inversion H; subst.
    apply fine_app; [eapply fine_roff_step; eauto|eapply IH; eauto].
Qed.

Lemma chk_all_ctl p r : exists r', chk r (tag OCtl p) = Some r'.
Proof.
  revert r. induction p as [|c t IH]; intros r; [exists r; reflexivity|].
  cbn [tag map chk is_octl negb]. rewrite andb_false_r. apply IH.
Qed.

(* C16: for EVERY document and `.TH` arguments, no line of the manpage begins with `.` or `'`
   unless that byte is the start of a request bpaf wrote itself (or of its fixed preamble) *)
Theorem roff_control_lines th d fs :
  render_roff_frags th d = Some fs ->
  exists r, chk true (roff_render_tagged fs) = Some r.
Proof.
  unfold render_roff_frags. destruct (roff_frags rs_init d) as [fs0|] eqn:E; [|discriminate].
  cbn [option_map]. intros H; inversion H; subst fs. clear H.
  unfold roff_render_tagged. rewrite chk_app.
  assert (P : chk true (tag OCtl preamble) = Some true) by (vm_compute; reflexivity).
  rewrite P.
  assert (F : fine (r_control k_TH th ++ fs0)).
  { apply fine_app; [apply fine_control; reflexivity|eapply fine_roff_frags; eauto]. }
  destruct (F true true (inv_same true)) as [r' [E' _]]. rewrite <- escape_go2_fst. eauto.
Qed.

(* the checker means what it says *)
Lemma chk_sound out : forall r r', chk r out = Some r' ->
  forall pre c o post, out = pre ++ (c, o) :: post ->
    (match rev pre with [] => r = true | (x, _) :: _ => x = 10%N end) ->
    (c = 46%N \/ c = 39%N) -> o = OCtl.
Proof.
  induction out as [|[c0 o0] t IH]; intros r r' H pre c o post E Hs Hc.
  - destruct pre; discriminate.
  - cbn [chk] in H. destruct pre as [|[c1 o1] pre'].
    + cbn in E. inversion E; subst. cbn in Hs. subst r.
      assert (Hk : is_ctl_char c = true) by (unfold is_ctl_char; destruct Hc; subst; reflexivity).
      rewrite Hk in H. cbn in H. destruct o; try discriminate. reflexivity.
    + cbn in E. inversion E; subst.
      destruct (r && is_ctl_char c1 && negb (is_octl o1)); [discriminate|].
      eapply IH; [exact H|reflexivity| |exact Hc].
      cbn [rev] in Hs. destruct (rev pre') as [|[x ox] rp] eqn:Er.
      * cbn in Hs. apply N.eqb_eq. exact Hs.
      * cbn in Hs. exact Hs.
Qed.
