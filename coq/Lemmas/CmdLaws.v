(* CmdLaws.v -- entering a subcommand: State::take_cmd, ParseCommand::eval, propagation of the
   inner outcome. *)
From BpafLemmas Require Import Tac EvalEq Find Reach Ledger NoLoss.

Definition cmd_token (a : arg) (word : bytes) : bool :=
  match a with
  | Word w | Short _ _ w | Long _ false w => beqb w word
  | _ => false
  end.

(* the name must be the FIRST live item of the scope; nothing else is looked at *)
Theorem take_cmd_spec word s :
  take_cmd word s =
  match first_item_ix s with
  | Some ix =>
    match nth_error (items s) ix with
    | Some a => if cmd_token a word
                then (true, set_current (sremove (KCmd word) ix s) (Some ix))
                else (false, set_current s None)
    | None => (false, set_current s None)
    end
  | None => (false, set_current s None)
  end.
Proof.
  unfold take_cmd. destruct (first_item_ix s) as [ix|]; [|reflexivity].
  destruct (nth_error (items s) ix) as [[c adj w|nm adj w|w|w|w]|]; cbn; try reflexivity.
  destruct adj; reflexivity.
Qed.

Theorem take_cmd_needs_first word s s1 :
  lenwf s -> take_cmd word s = (true, s1) ->
  exists ix a, first_item_ix s = Some ix /\ nth_error (items s) ix = Some a /\ cmd_token a word = true /\
               (forall i, in_scope s i = true -> live s i -> ix <= i) /\
               s1 = set_current (sremove (KCmd word) ix s) (Some ix).
Proof.
  intros Hw H. rewrite take_cmd_spec in H.
  destruct (first_item_ix s) as [ix|] eqn:Hf; [|inv H].
  destruct (nth_error (items s) ix) as [a|] eqn:Ha; [|inv H].
  destruct (cmd_token a word) eqn:Hc; inv H.
  destruct (first_item_first _ _ Hw Hf) as [_ Hfirst].
  exists ix, a. auto.
Qed.

(* a PosWord / ArgWord / attached long is never a command name *)
Theorem cmd_token_shapes a word :
  cmd_token a word = true ->
  match a with
  | Word _ | Short _ _ _ | Long _ false _ => True
  | _ => False
  end.
Proof. destruct a as [c adj w|nm adj w|w|w|w]; cbn; try discriminate; auto. destruct adj; auto; discriminate. Qed.

(* after entering: the inner OptionParser runs on the window that starts at the name and keeps the
   old end, with the path extended; its value is the command's value, its failure is final *)
Theorem cmd_enter name aliases shorts help m_sub i_sub run s s1 cur s2 :
  take_cmd_any ((name :: aliases) ++ map utf8_encode_char shorts) s = (true, s1) ->
  current s1 = Some cur -> set_scope s1 cur (sc_end s1) = Some s2 ->
  cmd_body name aliases shorts help false m_sub i_sub run s =
  match run (set_path s2 (path s2 ++ [name])) with
  | (SOk v, s4) => (ROk v, s4)
  | (SFail f, s4) => (RErr (MsgParseFailure f), s4)
  | (SPanic w, s4) => (RPanic w, s4)
  | (SFuel, s4) => (RFuel, s4)
  end.
Proof. intros Ht Hc Hs. unfold cmd_body. rewrite Ht, Hc, Hs. reflexivity. Qed.

Theorem cmd_not_entered name aliases shorts help adjacent m_sub i_sub run s s1 :
  take_cmd_any ((name :: aliases) ++ map utf8_encode_char shorts) s = (false, s1) ->
  exists m, cmd_body name aliases shorts help adjacent m_sub i_sub run s = (RErr (MsgMissing m), s1).
Proof. intros Ht. unfold cmd_body. rewrite Ht. unfold missing_msg. eauto. Qed.

(* the inner outcome (help, version, or an error already rendered for the subcommand) is final:
   no wrapper may catch it and combining it with any other error keeps it *)
Theorem inner_failure_final f :
  can_catch (MsgParseFailure f) = false /\
  (forall e, combine_with (MsgParseFailure f) e = MsgParseFailure f) /\
  (forall e, (forall g, e <> MsgParseFailure g) -> combine_with e (MsgParseFailure f) = MsgParseFailure f).
Proof.
  split; [reflexivity|]. split.
  - intros e. reflexivity.
  - intros e He. destruct e; try reflexivity. exfalso. eapply He; eauto.
Qed.

(* ... and run_subparser of the ENCLOSING level hands an inner help/version straight through *)
Theorem inner_stdout_propagates env inf m s h s1 :
  run_sub_body env inf m s (RErr (MsgParseFailure (FStdout h)), s1) = (SFail (FStdout h), s1).
Proof. unfold run_sub_body. cbn. reflexivity. Qed.

(* the leftover check: an inner parser that succeeds but leaves a live item in its window makes
   the subcommand fail (unless that item is the help/version flag) *)
Theorem leftover_fails env inf m s v s1 ix :
  first_item_ix s1 = Some ix ->
  forall v' s', run_sub_body env inf m s (ROk v, s1) <> (SOk v', s').
Proof.
  intros Hf v' s' H. unfold run_sub_body in H. cbn in H. rewrite Hf in H.
  destruct (info_eval env inf s1) as [[[d|ver]|] s2]; try discriminate.
  destruct (invariant_ok m); discriminate.
Qed.
