(* ConvRespell.v -- C02 on conventional trees: equivalent spellings are read alike.
   `--name value`, `--name=value`, `-n value`, `-n=value`, `-nvalue`, and `-abc` against `-a -b -c`
   differ, after tokenisation, only in the `adjacent` bit and the recorded text of the option tokens
   and in whether a VALUE is a Word or an ArgWord.  The grammar looks at none of these: related
   token lists get the same verdict (same value when accepted), level by level through the tree. *)
From Coq Require Import Lia List Bool Arith.
From BpafModel Require Import Conv.
From BpafLemmas Require Import Tac EvalEq Find Reach AbsSim ConvRefine ConvTotal ConvChain ConvTree ConvSound ConvTreeSound ConvStderr.
Import ListNotations.

(* the same token up to the adjacent bit and the recorded text *)
Definition tsim (a b : arg) : Prop :=
  match a, b with
  | Short c _ _, Short c' _ _ => c = c'
  | Long l _ _, Long l' _ _ => l = l'
  | Word w, Word w' => w = w'
  | ArgWord w, ArgWord w' => w = w'
  | PosWord w, PosWord w' => w = w'
  | _, _ => False
  end.

Lemma tsim_match nm a b : tsim a b -> matches_arg nm false a = matches_arg nm false b.
Proof. destruct a, b; cbn; try contradiction; intros ->; reflexivity. Qed.

Lemma tsim_key a b : tsim a b -> is_key a = is_key b.
Proof. destruct a, b; cbn; try contradiction; reflexivity. Qed.

Lemma tsim_help a b : tsim a b -> is_help a = is_help b.
Proof. intros H. unfold is_help. apply tsim_match. exact H. Qed.

Lemma tsim_owner its a b : tsim a b -> forall k, find_owner its a k = find_owner its b k.
Proof.
  intros H. induction its as [|x t IH]; intros k; cbn [find_owner]; [reflexivity|].
  rewrite (tsim_match (item_named x) a b H). destruct (matches_arg (item_named x) false b); [reflexivity|apply IH].
Qed.

(* two option tokens that the level reads alike: the same name, or two names of the same item *)
Definition ksim (items : list citem) (a b : arg) : Prop :=
  is_key a = true /\ is_key b = true /\ is_help a = is_help b /\
  find_owner items a 0 = find_owner items b 0 /\ (find_owner items a 0 = None -> tsim a b).

Lemma tsim_ksim items a b : is_key a = true -> tsim a b -> ksim items a b.
Proof.
  intros K H. split; [exact K|]. split; [rewrite <- (tsim_key a b H); exact K|]. split; [apply tsim_help; exact H|].
  split; [apply tsim_owner; exact H|intros _; exact H].
Qed.

(* related token lists, level by level *)
Inductive Resp : level -> list (arg * bool) -> list (arg * bool) -> Prop :=
| RNil l : Resp l [] []
| RMark l a r r' : Resp l r r' -> Resp l ((a, true) :: r) ((a, true) :: r')
| RKeyVal items tail k k' b b' w it j r r' :
    ksim items k k' -> find_owner items k 0 = Some (j, it) -> is_argument it = true ->
    is_value b = Some w -> is_value b' = Some w ->
    Resp (Level items tail) r r' ->
    Resp (Level items tail) ((k, false) :: (b, false) :: r) ((k', false) :: (b', false) :: r')
| RArgNoVal items tail k k' it j r r' :
    ksim items k k' -> find_owner items k 0 = Some (j, it) -> is_argument it = true ->
    novalue r -> novalue r' ->
    Resp (Level items tail) ((k, false) :: r) ((k', false) :: r')
| RFlagKey items tail a a' r r' :
    ksim items a a' ->
    (forall j it, find_owner items a 0 = Some (j, it) -> is_argument it = false) ->
    Resp (Level items tail) r r' ->
    Resp (Level items tail) ((a, false) :: r) ((a', false) :: r')
| RTok items tail a a' r r' :
    tsim a a' -> is_key a = false ->
    (forall cs w, tail = TCmds cs -> a = Word w -> find_cmd cs w = None) ->
    Resp (Level items tail) r r' ->
    Resp (Level items tail) ((a, false) :: r) ((a', false) :: r')
| RCmd items cs w sub r r' :
    find_cmd cs w = Some sub -> Resp sub r r' ->
    Resp (Level items (TCmds cs)) ((Word w, false) :: r) ((Word w, false) :: r').


(* scan results up to "not accepted" *)
Definition rsim (r r' : scan_result) : Prop :=
  match r, r' with
  | ScDone a, ScDone a' => a = a'
  | ScCmd a sub rest, ScCmd a' sub' rest' => a = a' /\ sub = sub' /\ Resp sub rest rest'
  | (ScReject | ScUnspec), (ScReject | ScUnspec) => True
  | _, _ => False
  end.

Lemma rsim_cons ro oo wo r r' : rsim r r' -> rsim (att_cons ro oo wo r) (att_cons ro oo wo r').
Proof.
  destruct r as [a|a sub rest| |], r' as [a'|a' sub' rest'| |]; cbn; try contradiction; try exact (fun x => x).
  - intros ->. reflexivity.
  - intros (-> & -> & H). auto.
Qed.

Lemma rsim_rej (b b' : bool) : rsim (if b then ScUnspec else ScReject) (if b' then ScUnspec else ScReject).
Proof. destruct b, b'; exact I. Qed.

(* ------------------------------------------------------------------ the scan does not tell them apart *)
Definition value_head (rest : list (arg * bool)) : option (bytes * list (arg * bool)) :=
  match rest with
  | (ArgWord w, false) :: rest' | (Word w, false) :: rest' => Some (w, rest')
  | _ => None
  end.

Definition key_step (items anc : list citem) (tail : ctail) (x : arg) (rest : list (arg * bool)) : scan_result :=
  if is_help x then ScUnspec else
  match find_owner items x 0 with
  | Some (k, it) =>
    if is_argument it then
      match value_head rest with
      | Some (w, rest') => att_cons [RKey k; RVal k] [(k, Some w)] [] (scan items anc tail rest')
      | None => if unspec_later items anc tail false ((x, false) :: rest) then ScUnspec else ScReject
      end
    else att_cons [RKey k] [(k, None)] [] (scan items anc tail rest)
  | None =>
    match find_owner anc x 0 with
    | Some _ => ScUnspec
    | None => if unspec_later items anc tail false ((x, false) :: rest) then ScUnspec else ScReject
    end
  end.

Lemma scan_key items anc tail x rest : is_key x = true ->
  scan items anc tail ((x, false) :: rest) = key_step items anc tail x rest.
Proof.
  destruct x; cbn [is_key]; try discriminate; intros _; unfold key_step; cbn [scan];
    (destruct (is_help _); [reflexivity|]); (destruct (find_owner items _ 0) as [[k it]|]; [|reflexivity]);
    (destruct (is_argument it); [|reflexivity]);
    (destruct rest as [|[b m] r]; [reflexivity|]); destruct b; destruct m; reflexivity.
Qed.

Lemma value_head_val b w r : is_value b = Some w -> value_head ((b, false) :: r) = Some (w, r).
Proof. destruct b; cbn; intros H; try discriminate; inversion H; reflexivity. Qed.

Lemma value_head_none r : novalue r -> value_head r = None.
Proof.
  destruct r as [|[b m] r']; [reflexivity|]. destruct m; [destruct b; reflexivity|].
  cbn. destruct b; cbn; intros H; try discriminate; reflexivity.
Qed.

Lemma scan_resp n : forall items tail anc ts ts', length ts <= n ->
  Resp (Level items tail) ts ts' -> rsim (scan items anc tail ts) (scan items anc tail ts').
Proof.
  induction n as [|n IH]; intros items tail anc ts ts' Hn R.
  - inversion R; subst; cbn in Hn; try lia. cbn. reflexivity.
  - inversion R as [l0|l0 a r r' R'|items0 tail0 k k' b b' w it j r r' Hs Fo Ia Vb Vb' R'|items0 tail0 k k' it j r r' Hs Fo Ia Nv Nv'
                    |items0 tail0 a a' r r' Hs Hna R'|items0 tail0 a a' r r' Hs Ka Hnc R'|items0 cs w sub r r' Fc R']; subst.
    + cbn. reflexivity.
    + cbn [scan]. apply rsim_cons. apply IH; [cbn in Hn; lia|exact R'].
    + (* an argument and its value *)
      destruct Hs as (Kk & Kk' & Hh & Ho & _).
      rewrite (scan_key items anc tail k _ Kk), (scan_key items anc tail k' _ Kk'). unfold key_step.
      rewrite <- Hh. destruct (is_help k); [exact I|].
      rewrite <- Ho, Fo, Ia.
      rewrite (value_head_val b w r Vb), (value_head_val b' w r' Vb').
      apply rsim_cons. apply IH; [cbn in Hn; lia|exact R'].
    + (* an argument's name without a value: rejected (or left unspecified) on both sides *)
      destruct Hs as (Kk & Kk' & Hh & Ho & _).
      rewrite (scan_key items anc tail k _ Kk), (scan_key items anc tail k' _ Kk'). unfold key_step.
      rewrite <- Hh. destruct (is_help k); [exact I|].
      rewrite <- Ho, Fo, Ia.
      rewrite (value_head_none r Nv), (value_head_none r' Nv'). apply rsim_rej.
    + (* a flag's name, or a name nobody of this level owns *)
      destruct Hs as (Ka & Ka' & Hh & Ho & Hu).
      rewrite (scan_key items anc tail a _ Ka), (scan_key items anc tail a' _ Ka'). unfold key_step.
      rewrite <- Hh. destruct (is_help a); [exact I|].
      rewrite <- Ho. destruct (find_owner items a 0) as [[j it]|] eqn:Fo.
      * rewrite (Hna j it eq_refl). apply rsim_cons. apply IH; [cbn in Hn; lia|exact R'].
      * rewrite <- (tsim_owner anc _ _ (Hu eq_refl) 0). destruct (find_owner anc a 0); [exact I|apply rsim_rej].
    + (* a word *)
      cbn [scan].
      destruct a as [c adj os|nm adj os|x|x|x]; try discriminate; destruct a' as [c' adj' os'|nm' adj' os'|x'|x'|x']; try contradiction.
      * apply rsim_rej.
      * cbn in Hs. subst x'. destruct (dashy x); [exact I|]. destruct tail as [|ps|cs].
        -- apply rsim_rej.
        -- apply rsim_cons. apply IH; [cbn in Hn; lia|exact R'].
        -- rewrite (Hnc cs x eq_refl eq_refl). apply rsim_rej.
      * cbn in Hs. subst x'. destruct tail as [|ps|cs]; try apply rsim_rej.
        apply rsim_cons. apply IH; [cbn in Hn; lia|exact R'].
    + (* the command word *)
      cbn [scan]. destruct (dashy w); [exact I|]. rewrite Fc. cbn. auto.
Qed.

(* ------------------------------------------------------------------ nor does the grammar *)
Definition vsimv (a b : verdict) : Prop :=
  match a, b with
  | Accept v, Accept v' => v = v'
  | (Reject | Unspecified), (Reject | Unspecified) => True
  | _, _ => False
  end.

Lemma denote_resp f : forall l anc ts ts', Resp l ts ts' -> vsimv (denote_level f l anc ts) (denote_level f l anc ts').
Proof.
  induction f as [|f IH]; intros [items tail] anc ts ts' R; [exact I|]. cbn [denote_level].
  pose proof (scan_resp _ items tail anc ts ts' (le_n _) R) as S.
  destruct (scan items anc tail ts) as [a|a sub rest| |], (scan items anc tail ts') as [a'|a' sub' rest'| |]; cbn in S; try contradiction.
  - subst a'. destruct (items_values items 0 (at_occ a)); [|exact I].
    destruct tail as [|ps|cs]; [destruct (at_words a); [reflexivity|exact I]|destruct (pos_values ps (at_words a)); [reflexivity|exact I]|exact I].
  - destruct S as (-> & -> & Rs). pose proof (IH sub' (anc ++ items) rest rest' Rs) as Hv.
    destruct (denote_level f sub' (anc ++ items) rest) as [sv| |], (denote_level f sub' (anc ++ items) rest') as [sv'| |]; cbn in Hv; try contradiction; try exact I.
    subst sv'. destruct (items_values items 0 (at_occ a')); [reflexivity|exact I].
  - exact I.
  - exact I.
  - exact I.
  - exact I.
Qed.

(* the fuel of denote_level only has to exceed the number of tokens *)
Lemma denote_level_fuel f : forall f' l anc ts, length ts < f -> length ts < f' ->
  denote_level f l anc ts = denote_level f' l anc ts.
Proof.
  induction f as [|f IH]; intros f' [items tail] anc ts H H'; [lia|]. destruct f' as [|f']; [lia|]. cbn [denote_level].
  destruct (scan items anc tail ts) as [a|a sub rest| |] eqn:Sc; try reflexivity.
  destruct tail as [|ps|cs];
    [exfalso; eapply (scan_not_cmd items anc TNone _ (fun cs E => ltac:(discriminate)) _ (le_n _)); exact Sc
    |exfalso; eapply (scan_not_cmd items anc (TPos ps) _ (fun cs E => ltac:(discriminate)) _ (le_n _)); exact Sc|].
  destruct (scan_cmd_wf items anc cs _ _ (le_n _) 0 a sub rest Sc) as (pre & w & -> & _).
  rewrite app_length in H, H'. cbn [length] in H, H'.
  rewrite (IH f' sub (anc ++ items) rest); [reflexivity|lia|lia].
Qed.

(* C02 on conventional trees: vectors whose tokens differ only by spelling are judged alike *)
Theorem respell_verdict l argv1 argv2 :
  let st := short_tables (compile_options l) in
  let t1 := tokenize (fst st) (snd st) argv1 in
  let t2 := tokenize (fst st) (snd st) argv2 in
  t_ambiguity t1 = None -> t_ambiguity t2 = None ->
  Resp l (mark_tokens t1) (mark_tokens t2) ->
  vsimv (denote l argv1) (denote l argv2).
Proof.
  cbn zeta. unfold denote. destruct (short_tables (compile_options l)) as [sf sa]. cbn [fst snd].
  intros A1 A2 R. rewrite A1, A2.
  set (t1 := tokenize sf sa argv1) in *. set (t2 := tokenize sf sa argv2) in *.
  assert (L1 : length (mark_tokens t1) = length (t_items t1)) by (unfold mark_tokens; apply mark_go_length).
  assert (L2 : length (mark_tokens t2) = length (t_items t2)) by (unfold mark_tokens; apply mark_go_length).
  set (f := S (length (t_items t1) + length (t_items t2))).
  rewrite (denote_level_fuel _ f l [] (mark_tokens t1)) by (unfold f; lia).
  rewrite (denote_level_fuel _ f l [] (mark_tokens t2)) by (unfold f; lia).
  apply denote_resp. exact R.
Qed.

(* ... and parsed alike: the same value, or an error message on stderr for both *)
Theorem respell_outcome feat env l argv1 argv2 :
  tree_ok l -> plain_cmds l = true ->
  let st := short_tables (compile_options l) in
  let t1 := tokenize (fst st) (snd st) argv1 in
  let t2 := tokenize (fst st) (snd st) argv2 in
  t_ambiguity t1 = None -> t_ambiguity t2 = None ->
  Resp l (mark_tokens t1) (mark_tokens t2) ->
  denote l argv1 <> Unspecified -> denote l argv2 <> Unspecified ->
  (exists v, run_inner feat env (compile_options l) None argv1 = OutOk v /\
             run_inner feat env (compile_options l) None argv2 = OutOk v) \/
  (exists m1 m2, run_inner feat env (compile_options l) None argv1 = OutStderr m1 /\
                 run_inner feat env (compile_options l) None argv2 = OutStderr m2).
Proof.
  intros Hok Hpl st t1 t2 A1 A2 R S1 S2.
  pose proof (respell_verdict l argv1 argv2 A1 A2 R) as V.
  destruct (denote l argv1) as [v| |] eqn:D1; [|clear S1|contradiction S1; reflexivity];
    destruct (denote l argv2) as [v'| |] eqn:D2; cbn in V; try contradiction; try (contradiction S2; reflexivity).
  - subst v'. left. exists v. split; apply denote_accept_tree; auto.
  - right. destruct (denote_reject_stderr_tree feat env l argv1 Hok Hpl D1) as [m1 H1].
    destruct (denote_reject_stderr_tree feat env l argv2 Hok Hpl D2) as [m2 H2]. eauto.
Qed.
Print Assumptions respell_outcome.
