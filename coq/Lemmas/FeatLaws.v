(* FeatLaws.v -- cargo features do not change parsing or monochrome rendering (C20). *)
From Coq Require Import Lia List Bool NArith.
From BpafModel Require Import Console Eval.
Import ListNotations.

(* parsing: after the fix the feature record is not consulted at all *)
Theorem run_inner_features_irrelevant f1 f2 env o name argv :
  run_inner f1 env o name argv = run_inner f2 env o name argv.
Proof. reflexivity. Qed.

(* ------------------------------------------------------------------ the splitter and `docgen` *)
Definition fence : str := [nl; nl; tick; tick; tick].

(* no "\n\n```" anywhere in the text *)
Definition nofence (s : str) : Prop := forall pre suf, s = pre ++ suf -> starts_with fence suf = false.

Definition suffix (a b : str) : Prop := exists pre, b = pre ++ a.

Lemma suffix_refl a : suffix a a.
Proof. exists []. reflexivity. Qed.
Lemma suffix_cons a c b : suffix a b -> suffix a (c :: b).
Proof. intros [p ->]. exists (c :: p). reflexivity. Qed.
Lemma suffix_trans a b c : suffix a b -> suffix b c -> suffix a c.
Proof. intros [p ->] [q ->]. exists (q ++ p). rewrite app_assoc. reflexivity. Qed.
Lemma suffix_skipn n a : suffix (skipn n a) a.
Proof. exists (firstn n a). symmetry. apply firstn_skipn. Qed.

Lemma nofence_suffix a b : suffix a b -> nofence b -> nofence a.
Proof.
  intros [p ->] H pre suf E. apply (H (p ++ pre) suf). rewrite E. rewrite app_assoc. reflexivity.
Qed.

Lemma split_nl_suffix s line rest : split_nl s = (line, Some rest) -> suffix (nl :: rest) s.
Proof.
  revert line rest. induction s as [|c t IH]; intros line rest H; cbn in H; [discriminate|].
  destruct (c =? nl)%N eqn:E.
  - inversion H; subst. apply N.eqb_eq in E. subst c. apply suffix_refl.
  - destruct (split_nl t) as [a b]. inversion H; subst. apply suffix_cons. eapply IH. reflexivity.
Qed.

Lemma take_word_suffix s w rest : take_word s = (w, rest) -> suffix rest s.
Proof.
  revert w rest. induction s as [|c t IH]; intros w rest H; cbn in H.
  - inversion H. apply suffix_refl.
  - destruct ((c =? nl)%N || (c =? sp)%N).
    + inversion H. apply suffix_refl.
    + destruct (take_word t) as [a b]. inversion H; subst. apply suffix_cons. eapply IH. reflexivity.
Qed.

(* one step outside code mode: same chunk with and without docgen, still outside code mode, and
   the rest of the input is a suffix of the input *)
Lemma split_next_nofence input :
  nofence input ->
  match split_next true CodeNo input, split_next false CodeNo input with
  | Some (c1, i1, k1), Some (c2, i2, k2) => c1 = c2 /\ i1 = i2 /\ k1 = CodeNo /\ k2 = CodeNo /\ suffix i1 input
  | None, None => True
  | _, _ => False
  end.
Proof.
  intros Hn. destruct input as [|c0 tail0]; [exact I|].
  unfold split_next. cbn [andb].
  destruct (c0 =? nl)%N eqn:E0.
  - apply N.eqb_eq in E0. subst c0.
    destruct (starts_with four_spaces tail0).
    + destruct (split_nl (skipn 4 tail0)) as [line [rest|]] eqn:Es.
      * repeat split; auto. apply split_nl_suffix in Es.
        eapply suffix_trans; [exact Es|]. apply suffix_cons. apply suffix_skipn.
      * repeat split; auto. exists (nl :: tail0). rewrite app_nil_r. reflexivity.
    + destruct (starts_with [nl; tick; tick; tick] tail0) eqn:Ef.
      * exfalso. specialize (Hn [] (nl :: tail0) eq_refl).
        unfold fence in Hn. cbn [starts_with] in Hn. rewrite N.eqb_refl in Hn. cbn [andb] in Hn.
        cbn [starts_with] in Ef. congruence.
      * destruct (starts_with (nl :: four_spaces) tail0).
        -- repeat split; auto. apply suffix_cons. apply suffix_refl.
        -- destruct tail0 as [|c1 t2].
           ++ repeat split; auto. apply suffix_cons. apply suffix_refl.
           ++ destruct (c1 =? nl)%N; [|destruct (c1 =? sp)%N]; repeat split; auto;
                first [apply suffix_cons; apply suffix_refl | do 2 apply suffix_cons; apply suffix_refl].
  - destruct (c0 =? sp)%N.
    + repeat split; auto. apply suffix_cons. apply suffix_refl.
    + destruct (take_word (c0 :: tail0)) as [w rest] eqn:Et.
      repeat split; auto. eapply take_word_suffix; eauto.
Qed.

Theorem split_go_nofence fuel input :
  nofence input -> split_go true fuel CodeNo input = split_go false fuel CodeNo input.
Proof.
  revert input. induction fuel as [|f IH]; intros input Hn; cbn; [reflexivity|].
  pose proof (split_next_nofence input Hn) as H.
  destruct (split_next true CodeNo input) as [[[c1 i1] k1]|];
    destruct (split_next false CodeNo input) as [[[c2 i2] k2]|]; try contradiction; [|reflexivity].
  destruct H as (-> & -> & -> & -> & Hs). f_equal. apply IH. eapply nofence_suffix; eauto.
Qed.

Theorem split_docgen_irrelevant s : nofence s -> Console.split true s = Console.split false s.
Proof. intros H. unfold Console.split. apply split_go_nofence. exact H. Qed.

Definition doc_nofence (d : cdoc) : Prop :=
  forall sty s, In (CText sty s) d -> nofence s.

Lemma token_step_docgen full mw ts st t :
  (forall sty s, t = CText sty s -> nofence s) ->
  token_step true full mw ts st t = token_step false full mw ts st t.
Proof.
  intros H. destruct t as [sty s|b|b]; try reflexivity.
  unfold token_step. rewrite (split_docgen_irrelevant s (H sty s eq_refl)). reflexivity.
Qed.

Theorem render_docgen_irrelevant full mw d :
  doc_nofence d -> render_console true full mw d = render_console false full mw d.
Proof.
  intros H. unfold render_console, render_state.
  assert (E : forall st ts, fold_left (token_step true full mw ts) d st = fold_left (token_step false full mw ts) d st).
  { revert H. induction d as [|t d IH]; intros H st ts; cbn; [reflexivity|].
    rewrite token_step_docgen.
    - apply IH. intros sty s Hin. apply (H sty s). right. exact Hin.
    - intros sty s ->. apply (H sty s). left. reflexivity. }
  rewrite E. reflexivity.
Qed.

(* the restriction is needed: a fenced code block is split differently (known finding) *)
Theorem split_docgen_refuted : exists s, Console.split true s <> Console.split false s.
Proof.
  exists [97; 10; 10; 96; 96; 96; 10; 120; 32; 121; 10; 96; 96; 96]%N.
  vm_compute. intros H. discriminate H.
Qed.
