(* ShellLaws.v -- single-quote escaping round-trips through a POSIX word lexer; renderer output is
   newline-terminated; the completion name filters are sound. *)
From Coq Require Import Lia List Bool NArith.
From BpafModel Require Import Shell.
Import ListNotations.

(* A lexer for ONE shell word that consists only of data: single-quoted segments and `\c` escapes.
   Any unquoted, unescaped character -- a space, `$`, `;`, `(`, a newline ... -- makes it fail, so
   `unquote w = Some s` says both "the shell reads w as the single word s" and "nothing in w is
   interpreted". *)
Fixpoint unq_go (inq : bool) (s : str) (acc : str) {struct s} : option str :=
  match s with
  | [] => if inq then None else Some (rev acc)
  | c :: t =>
    if inq then (if (c =? q)%N then unq_go false t acc else unq_go true t (c :: acc))
    else if (c =? q)%N then unq_go true t acc
    else if (c =? bsl)%N then match t with d :: t' => unq_go false t' (d :: acc) | [] => None end
    else None
  end.
Definition unquote (w : str) : option str := unq_go false w [].

(* inside quotes: the escaped text is read back character by character *)
Lemma unq_inside s rest acc :
  unq_go true (flat_map quote_char s ++ rest) acc = unq_go true rest (rev s ++ acc).
Proof.
  revert acc. induction s as [|c s IH]; intros acc; cbn [flat_map app rev]; [reflexivity|].
  unfold quote_char at 1. destruct (c =? q)%N eqn:E.
  - apply N.eqb_eq in E. subst c. cbn [app unq_go].
    change ((q =? q)%N) with true. change ((bsl =? q)%N) with false. change ((bsl =? bsl)%N) with true.
    cbn match. rewrite IH. rewrite <- app_assoc. reflexivity.
  - cbn [app unq_go]. rewrite E. rewrite IH. rewrite <- app_assoc. reflexivity.
Qed.

(* C15 quote round-trip: for EVERY string -- quotes, `$()`, `;`, newlines, spaces, non-ASCII -- the
   shell reads the quoted form back as exactly that string, and interprets nothing *)
Theorem quote_roundtrip s : unquote (quote s) = Some s.
Proof.
  unfold unquote, quote. cbn [unq_go]. change ((q =? q)%N) with true. cbn match.
  rewrite unq_inside. cbn [unq_go]. change ((q =? q)%N) with true. cbn match.
  rewrite app_nil_r, rev_involutive. reflexivity.
Qed.

(* quoting is injective: two different data strings never become the same word *)
Theorem quote_injective a b : quote a = quote b -> a = b.
Proof.
  intros H. pose proof (quote_roundtrip a) as Ha. rewrite H in Ha. rewrite quote_roundtrip in Ha.
  congruence.
Qed.

(* ------------------------------------------------------------------ newline-terminated output *)
Definition nl_terminated (s : str) : Prop := s = [] \/ exists p, s = p ++ [nl].

Lemma nlt_line s : nl_terminated (line s).
Proof. right. exists s. reflexivity. Qed.

Local Opaque line.

Lemma nlt_app a b : nl_terminated a -> nl_terminated b -> nl_terminated (a ++ b).
Proof.
  intros [->|[p ->]] [->|[r ->]]; cbn.
  - left. reflexivity.
  - right. exists r. reflexivity.
  - right. exists p. rewrite app_nil_r. reflexivity.
  - right. exists (p ++ [nl] ++ r). rewrite <- !app_assoc. reflexivity.
Qed.

Lemma nlt_flat_map {A} (f : A -> str) l : (forall x, nl_terminated (f x)) -> nl_terminated (flat_map f l).
Proof.
  intros H. induction l as [|x l IH]; cbn; [left; reflexivity|]. apply nlt_app; auto.
Qed.

Lemma nlt_zsh_op o : nl_terminated (zsh_op o).
Proof. destruct o as [[m|]|[m|]|b z f e|]; unfold zsh_op; try apply nlt_line. left. reflexivity. Qed.
Lemma nlt_bash_op o : nl_terminated (bash_op o).
Proof. destruct o as [[m|]|[m|]|b z f e|]; unfold bash_op; try apply nlt_line. left. reflexivity. Qed.
Lemma nlt_zsh_item i : nl_terminated (zsh_item i).
Proof. unfold zsh_item. apply nlt_app; [apply nlt_line|]. destruct (sc_group i); apply nlt_line. Qed.

Lemma nlt_bash_items prev items : nl_terminated (bash_items prev items).
Proof.
  revert prev. induction items as [|i t IH]; intros prev; cbn; [left; reflexivity|].
  destruct (sc_group i) as [g|].
  - destruct (match prev with Some p => beqb p g | None => is_nil g end); cbn;
      repeat apply nlt_app; try apply nlt_line; try apply IH; left; reflexivity.
  - cbn. apply nlt_app; [apply nlt_line|apply IH].
Qed.

(* every directive of the bash and zsh scripts is terminated by a newline: nothing is glued *)
Lemma nlt_nil : nl_terminated [].
Proof. left. reflexivity. Qed.

Ltac nlt := repeat first [apply nlt_line | apply nlt_nil
                          | apply nlt_flat_map; first [apply nlt_zsh_op | apply nlt_bash_op | apply nlt_zsh_item]
                          | apply nlt_bash_items | apply nlt_app].

Theorem render_zsh_lines items ops l : nl_terminated (render_zsh items ops l).
Proof.
  unfold render_zsh. destruct (is_nil items && is_nil ops); [apply nlt_line|].
  destruct items as [|i [|j t]]; [nlt| |nlt].
  destruct (is_nil (sc_subst i)); nlt.
Qed.

Theorem render_bash_lines items ops l : nl_terminated (render_bash items ops l).
Proof.
  unfold render_bash. destruct (is_nil items && is_nil ops); [apply nlt_line|].
  destruct items as [|i [|j t]]; [nlt| |nlt].
  destruct (is_nil (sc_subst i)); nlt.
  right. exists []. reflexivity.
Qed.

(* every requested shell completer is rendered, whatever the number of candidates *)
Theorem render_zsh_keeps_ops items ops l :
  (is_nil items && is_nil ops = false) ->
  exists rest, render_zsh items ops l = flat_map zsh_op ops ++ rest.
Proof.
  intros H. unfold render_zsh. rewrite H. destruct items as [|i [|j t]]; eauto.
  destruct (is_nil (sc_subst i)); eauto.
Qed.

Theorem render_bash_keeps_ops items ops l :
  (is_nil items && is_nil ops = false) ->
  exists rest, render_bash items ops l = flat_map bash_op ops ++ rest.
Proof.
  intros H. unfold render_bash. rewrite H. destruct items as [|i [|j t]]; eauto.
  destruct (is_nil (sc_subst i)); eauto.
Qed.

(* the typed word is echoed back QUOTED when nothing matches *)
Local Transparent line.
Theorem render_zsh_nothing l : render_zsh [] [] l = line (s_compadd_dd ++ quote l).
Proof. reflexivity. Qed.
Theorem render_bash_nothing l : render_bash [] [] l = line (s_compreply_open ++ quote l ++ [rparen]).
Proof. reflexivity. Qed.

(* ------------------------------------------------------------------ name filters (C14) *)
Theorem arg_matches_sound arg short long n :
  arg_matches arg short long = Some n ->
  n = preferred_name short long /\
  (arg = [] \/ arg = [dash] \/
   (exists c, short = Some c /\ arg = [dash; c]) \/
   (exists l rest, long = Some l /\ arg = dash :: dash :: rest /\ starts_with rest l = true)).
Proof.
  unfold arg_matches.
  destruct (is_nil arg) eqn:En.
  - destruct arg; [|discriminate]. cbn. intros H; inversion H. auto.
  - cbn [orb]. destruct (beqb arg [dash]) eqn:Ed.
    + intros H; inversion H. split; [reflexivity|]. right. left.
      destruct arg as [|a [|b t]]; cbn in Ed; try discriminate.
      * rewrite andb_true_r in Ed. apply N.eqb_eq in Ed. subst. reflexivity.
      * rewrite andb_false_r in Ed. discriminate.
    + set (ms := match short with Some c => beqb arg [dash; c] | None => false end).
      set (ml := match long, arg with
                 | Some l, a :: b :: rest => (a =? dash)%N && (b =? dash)%N && starts_with rest l
                 | _, _ => false end).
      destruct (ms || ml) eqn:E; [|discriminate]. intros H; inversion H. split; [reflexivity|].
      apply orb_prop in E. destruct E as [E|E].
      * right. right. left. unfold ms in E. destruct short as [c|]; [|discriminate]. exists c. split; [reflexivity|].
        destruct arg as [|a [|b [|x t]]]; cbn in E; try discriminate E;
          try (rewrite ?andb_false_r in E; discriminate E).
        apply andb_prop in E. destruct E as [E1 E2]. apply andb_prop in E2. destruct E2 as [E2 _].
        apply N.eqb_eq in E1. apply N.eqb_eq in E2. subst. reflexivity.
      * right. right. right. unfold ml in E. destruct long as [l|]; [|discriminate].
        destruct arg as [|a [|b rest]]; try discriminate E.
        apply andb_prop in E. destruct E as [E E3]. apply andb_prop in E. destruct E as [E1 E2].
        apply N.eqb_eq in E1. apply N.eqb_eq in E2. subst. exists l, rest. auto.
Qed.

Theorem cmd_matches_sound arg name short :
  cmd_matches arg name short = true ->
  starts_with arg name = true \/ exists c, short = Some c /\ arg = [c].
Proof.
  unfold cmd_matches. intros H. apply orb_prop in H. destruct H as [H|H]; [auto|].
  right. destruct short as [c|]; [|discriminate]. exists c. split; [reflexivity|].
  destruct arg as [|a [|b t]]; cbn in H; try discriminate H;
    try (rewrite ?andb_false_r in H; discriminate H).
  rewrite andb_true_r in H. apply N.eqb_eq in H. subst. reflexivity.
Qed.
