(* ConsoleLaws.v -- render_console: the width only inserts or removes whitespace. *)
From Coq Require Import Lia List Bool NArith.
From BpafModel Require Import Console.
Import ListNotations.

Definition strip (s : str) : str := filter (fun c => negb (is_ws c)) s.

Lemma strip_app a b : strip (a ++ b) = strip a ++ strip b.
Proof. apply filter_app. Qed.

Lemma strip_rev a : strip (rev a) = rev (strip a).
Proof.
  induction a as [|c a IH]; cbn; [reflexivity|].
  rewrite strip_app, IH. cbn. destruct (is_ws c); cbn; [rewrite app_nil_r; reflexivity|reflexivity].
Qed.

Lemma strip_push_rev x r : strip (push_rev x r) = rev (strip x) ++ strip r.
Proof. unfold push_rev. rewrite rev_append_rev, strip_app, strip_rev. reflexivity. Qed.

Lemma strip_nl r : strip (nl :: r) = strip r.
Proof. reflexivity. Qed.

Lemma strip_drop_ws r : strip (drop_while is_ws r) = strip r.
Proof.
  induction r as [|c r IH]; cbn; [reflexivity|].
  destruct (is_ws c) eqn:E; cbn; [exact IH|rewrite E; reflexivity].
Qed.

Lemma strip_pad n : strip (pad n) = [].
Proof. unfold pad. induction (N.to_nat n) as [|k IH]; cbn; [reflexivity|exact IH]. Qed.

Lemma strip_space : strip [sp] = [].
Proof. reflexivity. Qed.

Lemma beqb_eq a b : beqb a b = true -> a = b.
Proof.
  revert b. induction a as [|x a IH]; intros [|y b] H; cbn in H; try discriminate; [reflexivity|].
  apply andb_prop in H. destruct H as [H1 H2]. apply N.eqb_eq in H1. subst. f_equal. auto.
Qed.

(* one raw chunk: whatever the width and the pending flags, the non-whitespace content grows by
   exactly the chunk's own non-whitespace characters; `skip` is untouched *)
Lemma raw_step_content mw s w st :
  strip (rres (raw_step mw s w st)) = rev (strip s) ++ strip (rres st) /\
  skip (raw_step mw s w st) = skip st.
Proof.
  unfold raw_step.
  destruct (is_nil (rres st)) eqn:Hnil.
  - (* nothing written yet *)
    cbn [fst snd].
    destruct (char_pos st <=? cur_margin (margins st))%N;
      destruct (pend_margin st && _ && _); cbn;
        repeat rewrite strip_push_rev; repeat rewrite strip_pad; cbn; auto.
  - set (ra := if (pend_nl st || pend_blank st) && negb (ends_nl (rres st))
               then (nl :: rres st, 0%N) else (rres st, char_pos st)).
    assert (Hra : strip (fst ra) = strip (rres st)).
    { unfold ra. destruct ((pend_nl st || pend_blank st) && negb (ends_nl (rres st))); reflexivity. }
    destruct ra as [ra0 cpa]. cbn [fst] in Hra.
    set (rb := if pend_blank st && negb (ends_nlnl ra0) then nl :: ra0 else ra0).
    assert (Hrb : strip rb = strip (rres st)).
    { unfold rb. destruct (pend_blank st && negb (ends_nlnl ra0)); cbn; rewrite ?strip_nl; exact Hra. }
    destruct (mw <? cpa + blen s)%N.
    + destruct (beqb s [sp]) eqn:Hsp.
      * apply beqb_eq in Hsp. subst s. cbn [rres skip]. rewrite strip_nl, strip_drop_ws, Hrb. auto.
      * destruct (0 <=? cur_margin (margins st))%N;
          destruct (pend_margin st && _ && _); cbn [rres skip];
            repeat rewrite strip_push_rev; repeat rewrite strip_pad; cbn [app rev];
              rewrite ?strip_nl, ?strip_drop_ws, ?Hrb; auto.
    + destruct (cpa <=? cur_margin (margins st))%N;
        destruct (pend_margin st && _ && _); cbn [rres skip];
          repeat rewrite strip_push_rev; repeat rewrite strip_pad; cbn [app rev]; rewrite ?Hrb; auto.
Qed.

Definition R (a b : cstate_r) : Prop := strip (rres a) = strip (rres b) /\ skip a = skip b.

Lemma chunks_step_R full w1 w2 cs a b :
  R a b -> R (chunks_step full w1 cs a) (chunks_step full w2 cs b).
Proof.
  revert a b. induction cs as [|c cs IH]; intros a b [H1 H2]; cbn; [split; assumption|].
  destruct c as [s w| |].
  - apply IH. destruct (raw_step_content w1 s w a) as [A1 A2].
    destruct (raw_step_content w2 s w b) as [B1 B2]. split; congruence.
  - destruct full.
    + apply IH. unfold R. cbn [rres skip]. rewrite !strip_nl. split; assumption.
    + unfold R. cbn [rres skip]. rewrite !strip_nl. split; [assumption|reflexivity].
  - apply IH. unfold R. cbn [rres skip]. rewrite !strip_nl. split; assumption.
Qed.

Lemma token_step_R docgen full w1 w2 ts1 ts2 a b t :
  R a b -> R (token_step docgen full w1 ts1 a t) (token_step docgen full w2 ts2 b t).
Proof.
  intros [H1 H2]. destruct t as [st s|blk|blk]; unfold token_step.
  - rewrite <- H2. destruct (Nat.ltb 0 (skip a)); [split; assumption|].
    apply chunks_step_R. split; assumption.
  - destruct blk; unfold R, set_flags; cbn [rres skip]; rewrite <- ?H2;
      try (split; [assumption|reflexivity]); try (split; assumption).
    + split; [change (tick :: strip (rres a) = tick :: strip (rres b)); rewrite H1; reflexivity|reflexivity].
  - destruct blk; unfold R, set_flags; cbn [rres skip]; rewrite <- ?H2;
      try (split; [assumption|reflexivity]); try (split; assumption).
    + split; [change (tick :: strip (rres a) = tick :: strip (rres b)); rewrite H1; reflexivity|reflexivity].
Qed.

Lemma fold_R docgen full w1 w2 ts1 ts2 d a b :
  R a b ->
  R (fold_left (token_step docgen full w1 ts1) d a) (fold_left (token_step docgen full w2 ts2) d b).
Proof.
  revert a b. induction d as [|t d IH]; intros a b H; cbn; [exact H|].
  apply IH. apply token_step_R. exact H.
Qed.

(* C13 content preservation: for every document, both forms, every pair of widths *)
Theorem render_content docgen full w1 w2 d o1 o2 :
  render_console docgen full w1 d = Some o1 ->
  render_console docgen full w2 d = Some o2 ->
  strip o1 = strip o2.
Proof.
  unfold render_console, render_state. intros H1 H2.
  pose proof (fold_R docgen full w1 w2 (tabstop_go d false 0 0 + 4)%N (tabstop_go d false 0 0 + 4)%N
                     d init_cr init_cr (conj eq_refl eq_refl)) as [Hs _].
  destruct (cpanic _) in H1; [discriminate|]. destruct (cpanic _) in H2; [discriminate|].
  inversion H1; inversion H2; subst. rewrite !strip_rev. f_equal.
  destruct (pend_nl _ || pend_blank _); destruct (pend_nl _ || pend_blank _); cbn; rewrite ?strip_nl; exact Hs.
Qed.

(* the renderer only ever panics through padding; with margins <= 50 it never does *)
Definition margins_small (st : cstate_r) : Prop := forall m, In m (margins st) -> (m <= 50)%N.

(* ------------------------------------------------------------------ the short form *)
Fixpoint until_para (cs : list chunk) : list chunk :=
  match cs with
  | [] => []
  | CPara :: _ => []
  | c :: t => c :: until_para t
  end.
Fixpoint has_para (cs : list chunk) : bool :=
  match cs with [] => false | CPara :: _ => true | _ :: t => has_para t end.

(* in the short form a text shows exactly its first paragraph, then everything is skipped *)
Theorem short_is_first_paragraph mw cs st :
  chunks_step false mw cs st =
  let st' := chunks_step true mw (until_para cs) st in
  if has_para cs
  then mkCR (nl :: rres st') 0%N 1 (margins st') (pend_nl st') (pend_blank st') (pend_margin st') (cpanic st')
  else st'.
Proof.
  revert st. induction cs as [|c cs IH]; intros st; cbn; [reflexivity|].
  destruct c as [s w| |]; cbn.
  - rewrite IH. reflexivity.
  - reflexivity.
  - rewrite IH. reflexivity.
Qed.

(* ... and once skipping, text tokens contribute nothing until the enclosing inline blocks close *)
Theorem skipping_ignores_text docgen full mw ts st sty s :
  skip st <> 0 -> token_step docgen full mw ts st (CText sty s) = st.
Proof.
  intros H. cbn. destruct (skip st); [congruence|reflexivity].
Qed.

(* ------------------------------------------------------------------ the short form of a help text
   A help text is embedded as an inline block (Doc::doc) holding text tokens.  In the short form the
   block shows the texts before the first paragraph break and the first paragraph of the text holding
   the break; every later token of the block is skipped, and the end of the block switches
   skipping off again, so that the next help text starts afresh. *)
Definition para_state (st' : cstate_r) : cstate_r :=
  mkCR (nl :: rres st') 0%N 1 (margins st') (pend_nl st') (pend_blank st') (pend_margin st') (cpanic st').

Fixpoint short_texts (docgen : bool) (mw : N) (d : list (style * str)) (st : cstate_r) : cstate_r :=
  match d with
  | [] => st
  | (_, s) :: t =>
    let cs := split docgen s in
    if has_para cs then para_state (chunks_step true mw (until_para cs) st)
    else short_texts docgen mw t (chunks_step true mw cs st)
  end.

Definition texts (d : list (style * str)) : cdoc := map (fun x => CText (fst x) (snd x)) d.

Lemma raw_step_skip mw s w st : skip (raw_step mw s w st) = skip st.
Proof. exact (proj2 (raw_step_content mw s w st)). Qed.

Lemma chunks_full_skip mw cs st : skip (chunks_step true mw cs st) = skip st.
Proof.
  revert st. induction cs as [|c cs IH]; intros st; cbn; [reflexivity|].
  destruct c as [s w| |]; cbn; rewrite IH; cbn; [apply raw_step_skip|reflexivity|reflexivity].
Qed.

Lemma skipping_texts docgen full mw ts d st :
  skip st <> 0 -> fold_left (token_step docgen full mw ts) (texts d) st = st.
Proof.
  revert st. induction d as [|[sty s] d IH]; intros st H; cbn [texts map fold_left]; [reflexivity|].
  cbn [fst snd]. rewrite skipping_ignores_text by exact H. apply IH. exact H.
Qed.

Lemma until_para_all cs : has_para cs = false -> until_para cs = cs.
Proof.
  induction cs as [|c cs IH]; cbn; [reflexivity|]. destruct c; intros H; try discriminate; rewrite IH by exact H; reflexivity.
Qed.

Theorem short_block docgen mw ts d st :
  skip st = 0 ->
  fold_left (token_step docgen false mw ts) (texts d) st = short_texts docgen mw d st.
Proof.
  revert st. induction d as [|[sty s] d IH]; intros st H; cbn [texts map fold_left short_texts]; [reflexivity|].
  cbn [fst snd]. fold (texts d).
  assert (E : token_step docgen false mw ts st (CText sty s) = chunks_step false mw (split docgen s) st).
  { cbn. rewrite H. reflexivity. }
  rewrite E, short_is_first_paragraph. cbv zeta.
  destruct (has_para (split docgen s)) eqn:Hp.
  - apply skipping_texts. cbn. discriminate.
  - rewrite until_para_all by exact Hp. apply IH. rewrite chunks_full_skip. exact H.
Qed.

Lemma short_texts_skip docgen mw d st : skip st = 0 -> skip (short_texts docgen mw d st) <= 1.
Proof.
  revert st. induction d as [|[sty s] d IH]; intros st H; cbn [short_texts].
  - rewrite H. auto.
  - destruct (has_para (split docgen s)); [cbn; auto|]. apply IH. rewrite chunks_full_skip. exact H.
Qed.

(* a help text block leaves skipping off, whatever it holds *)
Theorem short_block_closes docgen mw ts d st :
  skip st = 0 ->
  skip (fold_left (token_step docgen false mw ts) (CStart BInlineBlock :: texts d ++ [CEnd BInlineBlock]) st) = 0.
Proof.
  intros H. cbn [fold_left]. rewrite fold_left_app. cbn [fold_left].
  set (st0 := token_step docgen false mw ts st (CStart BInlineBlock)).
  assert (H0 : skip st0 = 0) by (unfold st0; cbn; rewrite H; reflexivity).
  rewrite short_block by exact H0.
  pose proof (short_texts_skip docgen mw d st0 H0) as Hle.
  cbn [token_step set_flags skip].
  destruct (skip (short_texts docgen mw d st0)) as [|[|n]]; cbn [pred]; try reflexivity.
  exfalso. apply le_S_n in Hle. inversion Hle.
Qed.

(* NOT the case for a text that embeds a further document: a paragraph break inside the inner block
   is forgotten at the inner block's end (the counter only counts blocks opened while skipping) *)
Lemma short_nested_witness :
  let a := 97%N in let b := 98%N in let c := 99%N in
  let d := [CStart BInlineBlock; CStart BInlineBlock; CText SText [a; 10; 10; b]%N; CEnd BInlineBlock;
            CText SText [c]; CEnd BInlineBlock] in
  render_console false true 100%N d = Some [a; 10; b; c]%N /\
  render_console false false 100%N d = Some [a; 10; c]%N.
Proof. split; vm_compute; reflexivity. Qed.

(* ------------------------------------------------------------------ the renderer returns
   (after the fix: commit "console rendering pads margins wider than the padding constant"; before it a
   margin above 50 columns -- deeply nested em_doc blocks in a help text -- made PADDING[..missing] panic) *)
Lemma raw_step_cpanic mw s w st : cpanic (raw_step mw s w st) = cpanic st.
Proof.
  unfold raw_step.
  match goal with |- context [if is_nil (rres st) then ?A else ?B] => destruct (if is_nil (rres st) then A else B) as [[r1 cp1] skipit] end.
  destruct skipit; [reflexivity|].
  destruct (cp1 <=? cur_margin (margins st))%N;
    match goal with |- context [if ?c then _ else _] => destruct c end; cbn [cpanic]; rewrite !orb_false_r; reflexivity.
Qed.

Lemma chunks_step_cpanic full mw cs : forall st, cpanic (chunks_step full mw cs st) = cpanic st.
Proof.
  induction cs as [|c cs IH]; intros st; cbn [chunks_step]; [reflexivity|].
  destruct c as [s w| |].
  - rewrite IH. apply raw_step_cpanic.
  - destruct full; [rewrite IH|]; reflexivity.
  - rewrite IH. reflexivity.
Qed.

Lemma token_step_cpanic docgen full mw ts st t : cpanic (token_step docgen full mw ts st t) = cpanic st.
Proof.
  destruct t as [sty s|b|b]; cbn [token_step].
  - destruct (Nat.ltb 0 (skip st)); [reflexivity|apply chunks_step_cpanic].
  - destruct b; reflexivity.
  - destruct b; reflexivity.
Qed.

Theorem render_console_returns docgen full mw d : render_console docgen full mw d <> None.
Proof.
  unfold render_console, render_state.
  assert (H : forall ts l st, cpanic (fold_left (token_step docgen full mw ts) l st) = cpanic st).
  { intros ts l. induction l as [|t l IH]; intros st; cbn [fold_left]; [reflexivity|]. rewrite IH. apply token_step_cpanic. }
  rewrite H. cbn. discriminate.
Qed.
