(* OrderLaws.v -- position-independence of tokenisation and of the named consumers (C03). *)
From BpafLemmas Require Import Tac EvalEq Find TokLaws Reach Ledger NoLoss.

(* whole occurrences tokenise on their own, so reordering them reorders their token groups *)
Theorem tokens_swap sf sa a b ta tb :
  pre_tokens sf sa a = Some ta -> pre_tokens sf sa b = Some tb ->
  pre_tokens sf sa (a ++ b) = Some (ta ++ tb) /\ pre_tokens sf sa (b ++ a) = Some (tb ++ ta).
Proof. intros Ha Hb. split; apply pre_tokens_app; assumption. Qed.

Theorem tokens_swap_middle sf sa pre a b post tp ta tb tq :
  pre_tokens sf sa pre = Some tp -> pre_tokens sf sa a = Some ta ->
  pre_tokens sf sa b = Some tb -> pre_tokens sf sa post = Some tq ->
  pre_tokens sf sa (pre ++ a ++ b ++ post) = Some (tp ++ ta ++ tb ++ tq) /\
  pre_tokens sf sa (pre ++ b ++ a ++ post) = Some (tp ++ tb ++ ta ++ tq).
Proof.
  intros Hp Ha Hb Hq. split; repeat (apply pre_tokens_app; try assumption).
Qed.

(* named consumers search the whole scope: a matching live item is found wherever it stands *)
Theorem find_item_complete s f ix a st :
  lenwf s -> in_scope s ix = true -> nth_error (items s) ix = Some a -> ist_at s ix = Some st ->
  present st = true -> f ix a = true -> exists jx, find_item s f = Some jx /\ jx <= ix.
Proof.
  intros Hw Hin Ha Hs Hp Hf.
  destruct (find_item s f) as [jx|] eqn:E.
  - exists jx. split; [reflexivity|].
    destruct (Nat.le_gt_cases jx ix) as [|Hlt]; [assumption|exfalso].
    unfold find_item in E. unfold in_scope in Hin. apply andb_prop in Hin. destruct Hin as [H1 H2].
    apply Nat.leb_le in H1. apply Nat.ltb_lt in H2.
    assert (Hc : f (sc_start s + (ix - sc_start s)) a = false).
    { eapply (find_from_before _ _ _ _ _ _ E (ix - sc_start s) a st); try lia.
      - rewrite nth_error_skipn. replace (sc_start s + (ix - sc_start s)) with ix by lia. exact Ha.
      - rewrite nth_error_skipn. replace (sc_start s + (ix - sc_start s)) with ix by lia. exact Hs.
      - exact Hp. }
    replace (sc_start s + (ix - sc_start s)) with ix in Hc by lia. congruence.
  - exfalso. pose proof (find_item_none _ _ E ix a st Hin Ha Hs Hp) as Hc. congruence.
Qed.

Theorem take_flag_anywhere n s ix a st :
  lenwf s -> in_scope s ix = true -> nth_error (items s) ix = Some a -> ist_at s ix = Some st ->
  present st = true -> matches_arg n false a = true -> exists s', take_flag n s = Some s'.
Proof.
  intros Hw Hin Ha Hs Hp Hm.
  destruct (find_item_complete s (fun _ a => matches_arg n false a) ix a st Hw Hin Ha Hs Hp Hm) as (jx & Hj & _).
  unfold take_flag. rewrite Hj. eauto.
Qed.

(* ... and what they return does not depend on where the item stood: a flag yields its constant,
   an argument the bytes of the token next to the LEFTMOST matching key *)
Theorem flag_value_position_free e n p a s s' :
  take_flag n s = Some s' -> eval_flag e n p a s = (ROk p, s').
Proof. intros H. unfold eval_flag. rewrite H. reflexivity. Qed.

Theorem find_item_leftmost s f ix :
  find_item s f = Some ix ->
  forall jx a st, sc_start s <= jx < ix -> nth_error (items s) jx = Some a -> ist_at s jx = Some st ->
                  present st = true -> f jx a = false.
Proof.
  intros E jx a st Hj Ha Hs Hp. unfold find_item in E.
  assert (Hc : f (sc_start s + (jx - sc_start s)) a = false).
  { eapply (find_from_before _ _ _ _ _ _ E (jx - sc_start s) a st); try lia.
    - rewrite nth_error_skipn. replace (sc_start s + (jx - sc_start s)) with jx by lia. exact Ha.
    - rewrite nth_error_skipn. replace (sc_start s + (jx - sc_start s)) with jx by lia. exact Hs.
    - exact Hp. }
  replace (sc_start s + (jx - sc_start s)) with jx in Hc by lia. exact Hc.
Qed.

(* positional consumers skip named items: only Word / PosWord tokens are ever candidates *)
Theorem positional_skips_named s ix strict w s' :
  take_positional_word s = Some (ix, strict, w, s') ->
  (nth_error (items s) ix = Some (Word w) /\ strict = false) \/
  (nth_error (items s) ix = Some (PosWord w) /\ strict = true).
Proof.
  unfold take_positional_word. destruct (find_item s _) as [i|]; [|discriminate].
  destruct (nth_error (items s) i) as [[c a o|l a o|x|x|x]|] eqn:E; try discriminate;
    intros H; inv H; auto.
Qed.
