(* EnvFrame.v -- the environment is consulted only through the variables a parser declares.
   Every combinator body is extensional in its sub-evaluators (it only applies them), so two
   environments that agree on the declared names give the same evaluation -- no axiom needed. *)
From BpafLemmas Require Import Tac EvalEq Reach.

Definition ev_eq (a b : evaluator) : Prop := forall s, a s = b s.
Definition run_eq (a b : state -> sres * state) : Prop := forall s, a s = b s.

Lemma parse_option_ext a b len s c : ev_eq a b -> parse_option a len s c = parse_option b len s c.
Proof. intros H. unfold parse_option. rewrite H. reflexivity. Qed.

Lemma many_loop_ext a b c fuel len s acc :
  ev_eq a b -> many_loop a c fuel len s acc = many_loop b c fuel len s acc.
Proof.
  intros H. revert len s acc. induction fuel as [|f IH]; intros len s acc; cbn; [reflexivity|].
  rewrite (parse_option_ext a b len s c H).
  destruct (parse_option b len s c) as [[o l] s']. destruct o; auto.
Qed.

Lemma count_loop_ext a b fuel len s cur n last :
  ev_eq a b -> count_loop a fuel len s cur n last = count_loop b fuel len s cur n last.
Proof.
  intros H. revert len s cur n last. induction fuel as [|f IH]; intros len s cur n last; cbn; [reflexivity|].
  rewrite (parse_option_ext a b len s false H).
  destruct (parse_option b len s false) as [[o l] s']. destruct o; auto.
  destruct (Nat.eqb cur (remaining s')); auto.
Qed.

Lemma optional_ext a b c : ev_eq a b -> ev_eq (optional_body a c) (optional_body b c).
Proof. intros H s. unfold optional_body. rewrite (parse_option_ext a b None s c H). reflexivity. Qed.
Lemma many_ext a b c : ev_eq a b -> ev_eq (many_body a c) (many_body b c).
Proof. intros H s. unfold many_body. rewrite (many_loop_ext a b c _ None s [] H). reflexivity. Qed.
Lemma some_ext a b m c : ev_eq a b -> ev_eq (some_body a m c) (some_body b m c).
Proof. intros H s. unfold some_body. rewrite (many_loop_ext a b c _ None s [] H). reflexivity. Qed.
Lemma count_ext a b : ev_eq a b -> ev_eq (count_body a) (count_body b).
Proof. intros H s. unfold count_body. rewrite (count_loop_ext a b _ None s _ _ _ H). reflexivity. Qed.
Lemma last_ext a b : ev_eq a b -> ev_eq (last_body a) (last_body b).
Proof.
  intros H s. unfold last_body. rewrite (count_loop_ext a b _ None s _ _ _ H).
  destruct (count_loop b _ None s _ _ _) as [[[r n] l] s']. destruct r; auto. destruct l; auto.
Qed.
Lemma fallback_with_ext a b fb : ev_eq a b -> ev_eq (fallback_with_body a fb) (fallback_with_body b fb).
Proof. intros H s. unfold fallback_with_body. rewrite H. reflexivity. Qed.
Lemma guard_ext a b c m : ev_eq a b -> ev_eq (guard_body a c m) (guard_body b c m).
Proof. intros H s. unfold guard_body. rewrite H. reflexivity. Qed.
Lemma parse_ext a b f : ev_eq a b -> ev_eq (parse_body a f) (parse_body b f).
Proof. intros H s. unfold parse_body. rewrite H. reflexivity. Qed.
Lemma map_ext a b f : ev_eq a b -> ev_eq (map_body a f) (map_body b f).
Proof. intros H s. unfold map_body. rewrite H. reflexivity. Qed.
Lemma hide_ext a b : ev_eq a b -> ev_eq (hide_body a) (hide_body b).
Proof. intros H s. unfold hide_body. rewrite H. reflexivity. Qed.
Lemma or_ext a1 b1 a2 b2 : ev_eq a1 a2 -> ev_eq b1 b2 -> ev_eq (or_body a1 b1) (or_body a2 b2).
Proof. intros Ha Hb s. unfold or_body. rewrite Ha, Hb. reflexivity. Qed.

Lemma con_go_ext ff evs1 evs2 s first acc err :
  Forall2 ev_eq evs1 evs2 -> con_go ff evs1 s first acc err = con_go ff evs2 s first acc err.
Proof.
  intros H. revert s first acc err. induction H as [|a b l1 l2 Hab Hl IH]; intros s first acc err; cbn;
    [reflexivity|].
  rewrite Hab. destruct (b s) as [r s']. destruct r; auto. destruct (ff && first); auto.
Qed.
Lemma con_ext ff evs1 evs2 : Forall2 ev_eq evs1 evs2 -> ev_eq (con_body ff evs1) (con_body ff evs2).
Proof. intros H s. unfold con_body. rewrite (con_go_ext ff _ _ s true [] None H). reflexivity. Qed.

Lemma adj_inner_ext a b orig before fuel this_arg best :
  ev_eq a b -> adj_inner a orig before fuel this_arg best = adj_inner b orig before fuel this_arg best.
Proof.
  intros H. revert this_arg best. induction fuel as [|f IH]; intros this_arg best.
  - rewrite !adj_inner_O. reflexivity.
  - rewrite !adj_inner_S. rewrite H. destruct (b this_arg) as [r ta]. destruct r; auto.
    destruct (adjacent_scope ta orig); auto. destruct (set_scope orig a0 b0); auto.
Qed.
Lemma adj_try_ext a b orig width start best :
  ev_eq a b -> adj_try a orig width start best = adj_try b orig width start best.
Proof.
  intros H. unfold adj_try.
  destruct (set_scope orig start (length (items orig))) as [ta0|]; auto.
  destruct (set_scope ta0 start (start + width)) as [scratch|]; auto.
  destruct (Nat.eqb (remaining scratch) 0); auto.
  rewrite H. destruct (b scratch) as [r0 scratch'].
  destruct r0; auto;
    (destruct (Nat.eqb (remaining scratch) (remaining scratch')); auto;
     destruct (set_scope ta0 start (sc_end orig)) as [ta1|]; auto;
     destruct (if Nat.ltb (remaining ta1) (sc_end orig - start) then _ else _); auto;
     apply adj_inner_ext; exact H).
Qed.
Lemma adj_outer_ext a b orig width starts best :
  ev_eq a b -> adj_outer a orig width starts best = adj_outer b orig width starts best.
Proof.
  intros H. revert best. induction starts as [|st more IH]; intros best; cbn; [reflexivity|].
  rewrite (adj_try_ext a b orig width st best H). destruct (adj_try b orig width st best); auto.
Qed.
Lemma adjacent_ext a b fi : ev_eq a b -> ev_eq (eval_adjacent a fi) (eval_adjacent b fi).
Proof. intros H s. unfold eval_adjacent. destruct fi; auto. apply adj_outer_ext. exact H. Qed.

Lemma cmd_ext name aliases shorts help adjacent m i r1 r2 :
  run_eq r1 r2 -> ev_eq (cmd_body name aliases shorts help adjacent m i r1)
                        (cmd_body name aliases shorts help adjacent m i r2).
Proof.
  intros H s. unfold cmd_body. destruct (take_cmd_any _ s) as [hit s1]. destruct hit; auto.
  destruct (current s1); auto. destruct (set_scope s1 n (sc_end s1)) as [s2|]; auto.
  destruct adjacent.
  - destruct (adjacently_available_from _ _) as [a b]. destruct (set_scope _ a b) as [s4|]; auto.
    rewrite H. destruct (r2 s4) as [r s5]. destruct r; auto.
    destruct (adjacent_scope s5 _); auto. destruct (set_scope _ a0 b0) as [o1|]; auto. rewrite H. reflexivity.
  - rewrite H. reflexivity.
Qed.

(* ------------------------------------------------------------------ declared variables *)
Fixpoint env_names (p : parser) {struct p} : list bytes :=
  match p with
  | PFlag n _ _ => n_env n
  | PArg n _ _ _ => n_env n
  | PPos _ _ _ _ | PAny _ _ _ _ => []
  | PCmd _ _ _ _ _ sub => oenv_names sub
  | PCon fields | PAdj fields => lenv_names fields
  | POr a b => env_names a ++ env_names b
  | POptional q _ | PMany q _ | PSome q _ _ | PCollect q _ | PCount q | PLast q
  | PFallback q _ _ | PFallbackWith q _ _ | PGuard q _ _ | PParse q _ | PMap q _
  | PHide q | PUsage q _ | PGroupHelp q _ | PBoxed q => env_names q
  | PPure _ | PPureWith _ | PFail _ => []
  end
with lenv_names (ps : plist) {struct ps} : list bytes :=
  match ps with
  | PNil => []
  | PCons q t => env_names q ++ lenv_names t
  end
with oenv_names (o : oparser) {struct o} : list bytes :=
  match o with
  | Options q inf => n_env (i_help_arg inf) ++ n_env (i_version_arg inf) ++ env_names q
  end.

Definition agree (e1 e2 : bytes -> option bytes) (names : list bytes) : Prop :=
  forall n, In n names -> e1 n = e2 n.

Lemma agree_app_l e1 e2 a b : agree e1 e2 (a ++ b) -> agree e1 e2 a.
Proof. intros H n Hn. apply H. apply in_or_app. auto. Qed.
Lemma agree_app_r e1 e2 a b : agree e1 e2 (a ++ b) -> agree e1 e2 b.
Proof. intros H n Hn. apply H. apply in_or_app. auto. Qed.

Lemma env_first_agree e1 e2 names : agree e1 e2 names -> env_first e1 names = env_first e2 names.
Proof.
  induction names as [|n t IH]; intros H; cbn; [reflexivity|].
  rewrite (H n (or_introl eq_refl)). rewrite IH; [reflexivity|].
  intros m Hm. apply H. right. exact Hm.
Qed.

Lemma eval_flag_agree e1 e2 n p a : agree e1 e2 (n_env n) -> ev_eq (eval_flag e1 n p a) (eval_flag e2 n p a).
Proof. intros H s. unfold eval_flag. rewrite (env_first_agree _ _ _ H). reflexivity. Qed.
Lemma eval_arg_agree e1 e2 n mv ty adj :
  agree e1 e2 (n_env n) -> ev_eq (eval_arg e1 n mv ty adj) (eval_arg e2 n mv ty adj).
Proof. intros H s. unfold eval_arg. rewrite (env_first_agree _ _ _ H). reflexivity. Qed.

Lemma info_eval_agree e1 e2 i s :
  agree e1 e2 (n_env (i_help_arg i)) -> agree e1 e2 (n_env (i_version_arg i)) ->
  info_eval e1 i s = info_eval e2 i s.
Proof.
  intros Hh Hv. unfold info_eval.
  rewrite (eval_flag_agree e1 e2 _ VUnit None Hh s).
  destruct (eval_flag e2 (i_help_arg i) VUnit None s) as [r1 s1]. destruct r1.
  - rewrite (eval_flag_agree e1 e2 _ VUnit None Hh s1). reflexivity.
  - destruct (i_version i); auto. rewrite (eval_flag_agree e1 e2 _ VUnit None Hv s1). reflexivity.
  - destruct (i_version i); auto. rewrite (eval_flag_agree e1 e2 _ VUnit None Hv s1). reflexivity.
  - destruct (i_version i); auto. rewrite (eval_flag_agree e1 e2 _ VUnit None Hv s1). reflexivity.
Qed.

Lemma run_sub_body_agree e1 e2 inf m s res :
  agree e1 e2 (n_env (i_help_arg inf)) -> agree e1 e2 (n_env (i_version_arg inf)) ->
  run_sub_body e1 inf m s res = run_sub_body e2 inf m s res.
Proof.
  intros Hh Hv. unfold run_sub_body. destruct res as [r s1].
  rewrite (info_eval_agree e1 e2 inf s1 Hh Hv). reflexivity.
Qed.

Theorem env_frame_all e1 e2 :
  (forall p, agree e1 e2 (env_names p) -> ev_eq (eval e1 p) (eval e2 p)) /\
  (forall ps, agree e1 e2 (lenv_names ps) -> Forall2 ev_eq (evals e1 ps) (evals e2 ps)) /\
  (forall o, agree e1 e2 (oenv_names o) -> run_eq (run_sub e1 o) (run_sub e2 o)).
Proof.
  apply parser_plist_oparser_ind; intros; cbn [env_names lenv_names oenv_names] in *;
    try (intros s; autorewrite with evaleq).
  - apply eval_flag_agree; auto.
  - apply eval_arg_agree; auto.
  - reflexivity.
  - reflexivity.
  - apply cmd_ext. apply H. auto.
  - destruct fields as [|q1 [|q2 t]].
    + rewrite !eval_PCon_nil. reflexivity.
    + rewrite !eval_PCon_one. specialize (H H0). rewrite !evals_cons in H. inv H. auto.
    + rewrite !eval_PCon_many. apply con_ext. auto.
  - apply adjacent_ext. apply con_ext. auto.
  - apply or_ext; [apply H|apply H0]; eauto using agree_app_l, agree_app_r.
  - apply optional_ext; auto.
  - apply many_ext; auto.
  - apply some_ext; auto.
  - apply many_ext; auto.
  - apply count_ext; auto.
  - apply last_ext; auto.
  - apply fallback_with_ext; auto.
  - apply fallback_with_ext; auto.
  - apply guard_ext; auto.
  - apply parse_ext; auto.
  - apply map_ext; auto.
  - apply hide_ext; auto.
  - apply H; auto.
  - apply H; auto.
  - reflexivity.
  - reflexivity.
  - reflexivity.
  - apply H; auto.
  - rewrite !evals_nil. constructor.
  - rewrite !evals_cons. constructor; [apply H|apply H0]; eauto using agree_app_l, agree_app_r.
  - rewrite !run_sub_eq.
    assert (A1 : agree e1 e2 (n_env (i_help_arg i))) by (eapply agree_app_l; eauto).
    assert (A2 : agree e1 e2 (n_env (i_version_arg i))).
    { eapply agree_app_l. eapply agree_app_r. eauto. }
    assert (A3 : agree e1 e2 (env_names p)).
    { eapply agree_app_r. eapply agree_app_r. eauto. }
    rewrite (H A3 s). apply run_sub_body_agree; assumption.
Qed.

Theorem env_frame_run_inner feat e1 e2 o name argv :
  agree e1 e2 (oenv_names o) -> run_inner feat e1 o name argv = run_inner feat e2 o name argv.
Proof.
  intros H. unfold run_inner, run_inner_state.
  destruct (initial_state o name argv) as [st amb].
  destruct (env_frame_all e1 e2) as (_ & _ & Ho).
  destruct amb as [[ix sh]|]; [reflexivity|]; rewrite (Ho o H st); reflexivity.
Qed.

(* ------------------------------------------------------------------ precedence at the leaf *)
(* an argument found on the line never consults the environment *)
Theorem arg_line_first e n mv ty adj s w s' :
  take_arg n adj s = TASome w s' -> eval_arg e n mv ty adj s = convert_res ty w s'.
Proof. intros H. unfold eval_arg. rewrite H. reflexivity. Qed.

Theorem arg_env_fallback e n mv ty adj s v :
  take_arg n adj s = TANone -> env_first e (n_env n) = Some v ->
  eval_arg e n mv ty adj s = convert_res ty v (set_current s None).
Proof. intros H1 H2. unfold eval_arg. rewrite H1, H2. reflexivity. Qed.

Theorem flag_present_iff e n p a s :
  fst (eval_flag e n p a s) = ROk p <->
  (take_flag n s <> None \/ env_first e (n_env n) <> None \/ a = Some p).
Proof.
  unfold eval_flag. destruct (take_flag n s) eqn:Ht; cbn.
  - split; auto. intros _. left. discriminate.
  - destruct (env_first e (n_env n)) eqn:He; cbn.
    + split; auto. intros _. right. left. discriminate.
    + destruct a as [x|]; cbn.
      * split.
        -- intros H. inv H. auto.
        -- intros [H|[H|H]]; try congruence.
      * destruct (flag_item n); cbn; [split; [discriminate|intros [H|[H|H]]; congruence]|].
        destruct (n_env n); cbn; split; try discriminate; intros [H|[H|H]]; congruence.
Qed.

(* the first set declared variable wins *)
Theorem env_first_spec e names v :
  env_first e names = Some v <->
  exists pre n post, names = pre ++ n :: post /\ e n = Some v /\ forall m, In m pre -> e m = None.
Proof.
  split.
  - induction names as [|n t IH]; cbn; [discriminate|].
    destruct (e n) eqn:En.
    + intros H; inv H. exists [], n, t. repeat split; auto. intros m [].
    + intros H. destruct (IH H) as (pre & n0 & post & -> & Hn & Hpre).
      exists (n :: pre), n0, post. repeat split; auto. intros m [<-|Hm]; auto.
  - intros (pre & n & post & -> & Hn & Hpre). induction pre as [|m pre IH]; cbn.
    + rewrite Hn. reflexivity.
    + rewrite (Hpre m (or_introl eq_refl)). apply IH. intros x Hx. apply Hpre. right. exact Hx.
Qed.

(* absent from the line and no declared variable set: the item is reported absent (catchable),
   naming the item, or the variable for a name-less item; the state is untouched *)
Theorem arg_absent e n mv ty adj s :
  take_arg n adj s = TANone -> env_first e (n_env n) = None ->
  snd (eval_arg e n mv ty adj s) = s /\
  ((exists it, arg_item n mv = Some it /\ fst (eval_arg e n mv ty adj s) = RErr (missing_msg it s)) \/
   (exists v t, n_env n = v :: t /\ fst (eval_arg e n mv ty adj s) = RErr (MsgNoEnv v)) \/
   (n_short n = [] /\ n_long n = [] /\ n_env n = [])).
Proof.
  intros H1 H2. unfold eval_arg. rewrite H1, H2.
  destruct (arg_item n mv) as [it|] eqn:Hi; cbn.
  - split; [reflexivity|]. left. eauto.
  - destruct (n_env n) as [|v t] eqn:He; cbn.
    + split; [reflexivity|]. right. right.
      unfold arg_item, shortlong_of in Hi. destruct (n_short n), (n_long n); try discriminate. auto.
    + split; [reflexivity|]. right. left. eauto.
Qed.
