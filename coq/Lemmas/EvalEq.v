(* EvalEq.v -- unfolding equations of the mutual interpreter (all by reflexivity), after which
   eval / eval_con / run_sub are never unfolded by simpl/cbn. *)
From BpafLemmas Require Import Tac.

Section Eq.
Variable env : bytes -> option bytes.

Lemma run_sub_eq q inf s :
  run_sub env (Options q inf) s = run_sub_body env inf (meta_of q) s (eval env q s).
Proof. reflexivity. Qed.

Lemma eval_PFlag n p a s : eval env (PFlag n p a) s = eval_flag env n p a s.
Proof. reflexivity. Qed.
Lemma eval_PArg n mv ty adj s : eval env (PArg n mv ty adj) s = eval_arg env n mv ty adj s.
Proof. reflexivity. Qed.
Lemma eval_PPos mv ty pos help s : eval env (PPos mv ty pos help) s = eval_pos mv ty pos help s.
Proof. reflexivity. Qed.
Lemma eval_PAny mv help check anywhere s :
  eval env (PAny mv help check anywhere) s = eval_any mv help check anywhere s.
Proof. reflexivity. Qed.
Lemma eval_PCmd name aliases shorts help adjacent sub s :
  eval env (PCmd name aliases shorts help adjacent sub) s =
  cmd_body name aliases shorts help adjacent (ometa_of sub) (oinfo_of sub) (run_sub env sub) s.
Proof. reflexivity. Qed.
Lemma eval_PCon_nil s : eval env (PCon PNil) s = (ROk (VTuple []), set_current s None).
Proof. reflexivity. Qed.
Lemma eval_PCon_one q s : eval env (PCon (PCons q PNil)) s = eval env q s.
Proof. reflexivity. Qed.
Lemma eval_PCon_many q1 q2 t s :
  eval env (PCon (PCons q1 (PCons q2 t))) s =
  con_body false (evals env (PCons q1 (PCons q2 t))) s.
Proof. reflexivity. Qed.
Lemma eval_PAdj fields s :
  eval env (PAdj fields) s =
  eval_adjacent (con_body true (evals env fields)) (first_item (con_meta fields)) s.
Proof. reflexivity. Qed.
Lemma eval_POr a b s : eval env (POr a b) s = or_body (eval env a) (eval env b) s.
Proof. reflexivity. Qed.
Lemma eval_POptional q c s : eval env (POptional q c) s = optional_body (eval env q) c s.
Proof. reflexivity. Qed.
Lemma eval_PMany q c s : eval env (PMany q c) s = many_body (eval env q) c s.
Proof. reflexivity. Qed.
Lemma eval_PCollect q c s : eval env (PCollect q c) s = many_body (eval env q) c s.
Proof. reflexivity. Qed.
Lemma eval_PSome q m c s : eval env (PSome q m c) s = some_body (eval env q) m c s.
Proof. reflexivity. Qed.
Lemma eval_PCount q s : eval env (PCount q) s = count_body (eval env q) s.
Proof. reflexivity. Qed.
Lemma eval_PLast q s : eval env (PLast q) s = last_body (eval env q) s.
Proof. reflexivity. Qed.
Lemma eval_PFallback q v sh s : eval env (PFallback q v sh) s = fallback_body (eval env q) v s.
Proof. reflexivity. Qed.
Lemma eval_PFallbackWith q r sh s :
  eval env (PFallbackWith q r sh) s = fallback_with_body (eval env q) r s.
Proof. reflexivity. Qed.
Lemma eval_PGuard q c m s : eval env (PGuard q c m) s = guard_body (eval env q) c m s.
Proof. reflexivity. Qed.
Lemma eval_PParse q f s : eval env (PParse q f) s = parse_body (eval env q) f s.
Proof. reflexivity. Qed.
Lemma eval_PMap q f s : eval env (PMap q f) s = map_body (eval env q) f s.
Proof. reflexivity. Qed.
Lemma eval_PHide q s : eval env (PHide q) s = hide_body (eval env q) s.
Proof. reflexivity. Qed.
Lemma eval_PUsage q d s : eval env (PUsage q d) s = eval env q s.
Proof. reflexivity. Qed.
Lemma eval_PGroupHelp q d s : eval env (PGroupHelp q d) s = eval env q s.
Proof. reflexivity. Qed.
Lemma eval_PPure v s : eval env (PPure v) s = (ROk v, set_current s None).
Proof. reflexivity. Qed.
Lemma eval_PPureWith r s :
  eval env (PPureWith r) s =
  match r with inl v => (ROk v, s) | inr e => (RErr (MsgPureFailed e), s) end.
Proof. reflexivity. Qed.
Lemma eval_PFail m s : eval env (PFail m) s = (RErr (MsgParseFail m), set_current s None).
Proof. reflexivity. Qed.
Lemma eval_PBoxed q s : eval env (PBoxed q) s = eval env q s.
Proof. reflexivity. Qed.

Lemma evals_nil : evals env PNil = [].
Proof. reflexivity. Qed.
Lemma evals_cons q t : evals env (PCons q t) = eval env q :: evals env t.
Proof. reflexivity. Qed.
End Eq.


Lemma adj_inner_S ev orig before f this_arg best :
  adj_inner ev orig before (S f) this_arg best =
    let '(r, ta) := ev this_arg in
    match r with
    | ROk res =>
      match adjacent_scope ta orig with
      | ASPanic => AStop (RPanic P_adj_scope) ta
      | ASSome a b =>
        match set_scope orig a b with
        | Some ta' => adj_inner ev orig before f ta' best
        | None => AStop (RPanic P_set_scope) ta
        end
      | ASNone =>
        match set_scope ta (sc_start orig) (sc_end orig) with
        | Some fin => AReturn res fin
        | None => AStop (RPanic P_set_scope) ta
        end
      end
    | RErr err =>
      if Nat.ltb before (remaining ta) then AStop (RPanic P_sub_overflow) ta
      else
        let consumed := before - remaining ta in
        if Nat.ltb (b_consumed best) consumed then ANext (mkBest consumed ta err) else ANext best
    | RPanic w => AStop (RPanic w) ta
    | RFuel => AStop RFuel ta
    end.
Proof. reflexivity. Qed.

Lemma adj_inner_O ev orig before this_arg best :
  adj_inner ev orig before O this_arg best = AStop RFuel this_arg.
Proof. reflexivity. Qed.

Global Arguments eval : simpl never.
Global Arguments evals : simpl never.
Global Arguments run_sub : simpl never.

#[global] Hint Rewrite eval_PFlag eval_PArg eval_PPos eval_PAny eval_PCmd eval_PCon_nil eval_PCon_one
  eval_PCon_many eval_PAdj eval_POr eval_POptional eval_PMany eval_PCollect eval_PSome eval_PCount
  eval_PLast eval_PFallback eval_PFallbackWith eval_PGuard eval_PParse eval_PMap eval_PHide
  eval_PUsage eval_PGroupHelp eval_PPure eval_PPureWith eval_PFail eval_PBoxed : evaleq.
