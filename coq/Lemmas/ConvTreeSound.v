(* ConvTreeSound.v -- C01, the converse for whole subcommand trees: on every vector the grammar
   specifies, the parser returns Ok v only for sentences denoting v.
   A level that offers subcommands: the named fields run first, on a line that also holds the
   subcommand's items; they take whole occurrences (a key, or a key with its value) and never
   touch what belongs to deeper levels; the alternative of commands can only enter at the first
   token still on the line, which must be a command word -- so either the fields consumed exactly
   the occurrences the scan attributes to them and the command word is the one the scan stopped at,
   or the run fails.  What the subcommand's parser then returns is judged by induction. *)
From Coq Require Import Lia List Bool Arith.
From BpafModel Require Import Conv.
From BpafLemmas Require Import Tac EvalEq Find Reach AbsSim AbsTotal ConvRefine ConvTotal ConvChain PathLaws ConvTree ConvSound TokOs.
Import ListNotations.

(* ------------------------------------------------------------------ P2. invariants of the token list *)
Definition preserves (P : lv -> Prop) (ev : lv -> ares * lv) : Prop := forall l, P l -> P (snd (ev l)).

Section Pres.
Variable P : lv -> Prop.
Variable ev : lv -> ares * lv.
Hypothesis H : preserves P ev.

Lemma parse_option_pres len l : P l -> P (snd (aparse_option ev len l)).
Proof.
  intros Hp. unfold aparse_option. pose proof (H l Hp) as H1. destruct (ev l) as [r l1]. cbn [snd] in H1.
  destruct r as [v|m c|]; cbn; auto.
  - destruct (lt_len (length l1) len); cbn; auto.
  - destruct ((m && Nat.eqb (length l) (length l1)) || (negb m && c)); cbn; auto.
Qed.

Lemma many_loop_pres fuel : forall len l acc, P l -> P (snd (amany_loop ev fuel len l acc)).
Proof.
  induction fuel as [|f IH]; intros len l acc Hp; cbn [amany_loop]; [exact Hp|].
  pose proof (parse_option_pres len l Hp) as H1. destruct (aparse_option ev len l) as [[o len'] l1]. cbn [snd] in H1.
  destruct o; cbn; auto.
Qed.

Lemma count_loop_pres fuel : forall len l cur k last, P l -> P (snd (acount_loop ev fuel len l cur k last)).
Proof.
  induction fuel as [|f IH]; intros len l cur k last Hp; cbn [acount_loop]; [exact Hp|].
  pose proof (parse_option_pres len l Hp) as H1. destruct (aparse_option ev len l) as [[o len'] l1]. cbn [snd] in H1.
  destruct o; cbn; auto. destruct (Nat.eqb cur (length l1)); cbn; auto.
Qed.

Lemma optional_pres : preserves P (aoptional ev).
Proof.
  intros l Hp. unfold aoptional. pose proof (parse_option_pres None l Hp) as H1.
  destruct (aparse_option ev None l) as [[o len'] l1]. destruct o; cbn in *; auto.
Qed.
Lemma many_pres fuel : preserves P (amany fuel ev).
Proof.
  intros l Hp. unfold amany. pose proof (many_loop_pres fuel None l [] Hp) as H1.
  destruct (amany_loop ev fuel None l []) as [[r acc] l1]. destruct r; cbn in *; auto.
Qed.
Lemma some_pres fuel : preserves P (asome fuel ev).
Proof.
  intros l Hp. unfold asome. pose proof (many_loop_pres fuel None l [] Hp) as H1.
  destruct (amany_loop ev fuel None l []) as [[r acc] l1]. destruct r; cbn in *; auto. destruct acc; cbn; auto.
Qed.
Lemma count_pres fuel : preserves P (acount fuel ev).
Proof.
  intros l Hp. unfold acount. pose proof (count_loop_pres fuel None l (length l) 0 None Hp) as H1.
  destruct (acount_loop ev fuel None l (length l) 0 None) as [[[r k] la] l1]. destruct r; cbn in *; auto.
Qed.
Lemma last_pres fuel : preserves P (alast fuel ev).
Proof.
  intros l Hp. unfold alast. pose proof (count_loop_pres fuel None l (length l) 0 None Hp) as H1.
  destruct (acount_loop ev fuel None l (length l) 0 None) as [[[r k] la] l1]. cbn [snd] in *.
  destruct r; cbn; auto. destruct la; cbn; auto.
Qed.
Lemma fallback_pres v : P [] \/ True -> forall l, P l -> P (snd (afallback ev v l)).
Proof.
  intros _ l Hp. unfold afallback. pose proof (H l Hp) as H1. destruct (ev l) as [r l1]. cbn [snd] in H1.
  destruct r as [y|m c|]; cbn; auto. destruct c; cbn; auto.
Qed.
End Pres.

Lemma item_pres (P : lv -> Prop) fuel it :
  (is_argument it = false -> forall pr ab, preserves P (aeval_flag (item_named it) pr ab)) ->
  (is_argument it = true -> forall ty, preserves P (aeval_arg (item_named it) ty)) ->
  preserves P (aeval fuel (compile_item it)).
Proof.
  intros Hfl Har. destruct it as [n|n p a|n p|n|n p|n mv ty ar]; cbn [compile_item item_named is_argument] in *.
  - apply Hfl; reflexivity.
  - apply Hfl; reflexivity.
  - apply Hfl; reflexivity.
  - cbn [aeval]. apply count_pres. apply Hfl; reflexivity.
  - cbn [aeval]. apply many_pres. apply Hfl; reflexivity.
  - destruct ar; cbn [aeval].
    + apply Har; reflexivity.
    + apply optional_pres. apply Har; reflexivity.
    + apply many_pres. apply Har; reflexivity.
    + apply some_pres. apply Har; reflexivity.
    + intros l Hp. apply fallback_pres; [apply Har; reflexivity|auto|exact Hp].
    + apply last_pres. apply Har; reflexivity.
Qed.

Lemma arun_pres (P : lv -> Prop) aevs : Forall (preserves P) aevs -> forall l vs lk,
  P l -> arun aevs l = Some (vs, lk) -> P lk.
Proof.
  induction 1 as [|aev t H Ht IH]; intros l vs lk Hp E; cbn [arun] in E.
  - inversion E; subst. exact Hp.
  - pose proof (H l Hp) as H1. destruct (aev l) as [r l1]. cbn [snd] in H1.
    destruct r as [v|m c|]; try discriminate.
    destruct (arun t l1) as [[vs' l2]|] eqn:Er; [|discriminate]. inversion E; subst. eapply IH; eauto.
Qed.

(* ------------------------------------------------------------------ lookups in a well-formed tagged list *)
Lemma wf_rval items lo t : WF items lo t -> forall i b k, In (i, b, RVal k) t ->
  exists j a it w, i = S j /\ In (j, a, RKey k) t /\ find_owner items a 0 = Some (k, it) /\
                   is_argument it = true /\ is_value b = Some w.
Proof.
  induction 1 as [lo|lo i0 a0 k0 it0 t Hl Hk Ho Ha W IH|lo i0 a0 k0 it0 b0 w0 t Hl Hk Ho Ha Hv W IH|lo i0 a0 t Hl Hw W IH|lo i0 a0 t Hl Hfo W IH];
    intros i b k Hin.
  - contradiction.
  - destruct Hin as [E|Hin]; [discriminate|]. destruct (IH _ _ _ Hin) as (j & a & it & w & E & H1 & H2). exists j, a, it, w. split; [exact E|]. split; [right; exact H1|exact H2].
  - destruct Hin as [E|[E|Hin]]; [discriminate| |].
    + inversion E; subst. exists i0, a0, it0, w0. repeat split; auto. left. reflexivity.
    + destruct (IH _ _ _ Hin) as (j & a & it & w & E & H1 & H2). exists j, a, it, w. split; [exact E|]. split; [right; right; exact H1|exact H2].
  - destruct Hin as [E|Hin]; [discriminate|]. destruct (IH _ _ _ Hin) as (j & a & it & w & E & H1 & H2). exists j, a, it, w. split; [exact E|]. split; [right; exact H1|exact H2].
  - destruct Hin as [E|Hin]; [discriminate|]. destruct (IH _ _ _ Hin) as (j & a & it & w & E & H1 & H2). exists j, a, it, w. split; [exact E|]. split; [right; exact H1|exact H2].
Qed.

Lemma wf_rkey items lo t : WF items lo t -> forall i a k, In (i, a, RKey k) t ->
  is_key a = true /\ exists it, find_owner items a 0 = Some (k, it) /\
    (is_argument it = true -> exists b w, In (S i, b, RVal k) t /\ is_value b = Some w).
Proof.
  induction 1 as [lo|lo i0 a0 k0 it0 t Hl Hk Ho Ha W IH|lo i0 a0 k0 it0 b0 w0 t Hl Hk Ho Ha Hv W IH|lo i0 a0 t Hl Hw W IH|lo i0 a0 t Hl Hfo W IH];
    intros i a k Hin.
  - contradiction.
  - destruct Hin as [E|Hin].
    + inversion E; subst. split; [exact Hk|]. exists it0. split; [exact Ho|]. intros F. congruence.
    + destruct (IH _ _ _ Hin) as (K & it & H1 & H2). split; [exact K|]. exists it. split; [exact H1|].
      intros Hi. destruct (H2 Hi) as (b & w & Hb & Vb). exists b, w. split; [right; exact Hb|exact Vb].
  - destruct Hin as [E|[E|Hin]]; [|discriminate|].
    + inversion E; subst. split; [exact Hk|]. exists it0. split; [exact Ho|]. intros _. exists b0, w0. split; [right; left; reflexivity|exact Hv].
    + destruct (IH _ _ _ Hin) as (K & it & H1 & H2). split; [exact K|]. exists it. split; [exact H1|].
      intros Hi. destruct (H2 Hi) as (b & w & Hb & Vb). exists b, w. split; [right; right; exact Hb|exact Vb].
  - destruct Hin as [E|Hin]; [discriminate|].
    destruct (IH _ _ _ Hin) as (K & it & H1 & H2). split; [exact K|]. exists it. split; [exact H1|].
    intros Hi. destruct (H2 Hi) as (b & w & Hb & Vb). exists b, w. split; [right; exact Hb|exact Vb].
  - destruct Hin as [E|Hin]; [discriminate|].
    destruct (IH _ _ _ Hin) as (K & it & H1 & H2). split; [exact K|]. exists it. split; [exact H1|].
    intros Hi. destruct (H2 Hi) as (b & w & Hb & Vb). exists b, w. split; [right; exact Hb|exact Vb].
Qed.

(* ------------------------------------------------------------------ P3. the named fields take whole occurrences only *)
Section Inv.
Variable items : list citem.
Hypothesis Hdis : disjoint_names items.
Variable lo : nat.
Variable tp : tl3.                       (* the attributed prefix: keys and values of this level *)
Hypothesis Wp : WF items lo tp.
Hypothesis Hnamed : forall x, In x tp -> exists j, snd x = RKey j \/ snd x = RVal j.
Variable R : lv.                         (* whatever follows: nothing in it has an index of the prefix *)
Hypothesis HRidx : forall x y, In x tp -> In y R -> fst (fst x) < fst y.

Definition l0 : lv := untag tp ++ R.

(* a value still on the line has its key still on the line *)
Definition Pair (l : lv) : Prop :=
  forall j b k, In (S j, b, RVal k) tp -> In (S j, b) l -> exists a, In (j, a, RKey k) tp /\ In (j, a) l.

Definition Good (l : lv) : Prop := uniq l /\ incl l l0 /\ Pair l.

Lemma good_filt ev l : filt ev -> uniq l -> incl l l0 -> uniq (snd (ev l)) /\ incl (snd (ev l)) l0.
Proof.
  intros Hf U I. split; [apply filt_uniq; assumption|]. intros x Hx. apply I. eapply filt_incl; eauto.
Qed.

Lemma arg_good nm ty : preserves Good (aeval_arg nm ty).
Proof.
  intros l (U & I & P). destruct (good_filt (aeval_arg nm ty) l (filt_arg nm ty) U I) as [U' I'].
  split; [exact U'|]. split; [exact I'|].
  unfold aeval_arg in *. destruct (afind (matches_arg nm false) l) as [[i a]|] eqn:F; [|exact P].
  apply afind_in in F. destruct F as [Hin Ma].
  destruct (aget (S i) l) as [b|] eqn:G; [|exact P].
  pose proof (aget_in _ _ _ G) as Hb.
  assert (Hrem : forall w, is_value b = Some w -> Pair (aremove (S i) (aremove i l))).
  { intros w Vb j b' k Hv Hl'. unfold aremove in Hl'. apply filter_In in Hl'. destruct Hl' as [Hl' N1].
    apply filter_In in Hl'. destruct Hl' as [Hl' N2]. cbn [fst] in N1, N2.
    apply negb_true_iff in N1. apply negb_true_iff in N2. apply Nat.eqb_neq in N1. apply Nat.eqb_neq in N2.
    destruct (P j b' k Hv Hl') as (a' & Ht & Hl). exists a'. split; [exact Ht|].
    unfold aremove. apply filter_In. split; [apply filter_In; split; [exact Hl|]|]; cbn [fst]; apply negb_true_iff; apply Nat.eqb_neq.
    - intros E. subst j. lia.
    - intros E. subst j.
      (* the key of a pair at the index of a value *)
      assert (Eq : (S i, a') = (S i, b)) by (apply (uniq_same l); auto).
      inversion Eq; subst a'. destruct (wf_rkey items lo tp Wp _ _ _ Ht) as [K _].
      rewrite (value_not_key b w Vb) in K. discriminate. }
  destruct b as [c adj os|n' adj os|w|w|w]; cbn [snd]; try exact P; rewrite aconvert_snd'; eapply Hrem; reflexivity.
Qed.

Lemma flag_good it pr ab : In it items -> is_argument it = false -> preserves Good (aeval_flag (item_named it) pr ab).
Proof.
  intros Hit Ia l (U & I & P).
  destruct (good_filt (aeval_flag (item_named it) pr ab) l (filt_flag _ pr ab) U I) as [U' I'].
  split; [exact U'|]. split; [exact I'|].
  unfold aeval_flag in *. destruct (afind (matches_arg (item_named it) false) l) as [[i a]|] eqn:F; [|destruct ab; exact P].
  apply afind_in in F. destruct F as [Hin Ma]. cbn [snd].
  intros j b k Hv Hl'. unfold aremove in Hl'. apply filter_In in Hl'. destruct Hl' as [Hl' N1].
  destruct (P j b k Hv Hl') as (a' & Ht & Hl). exists a'. split; [exact Ht|].
  unfold aremove. apply filter_In. split; [exact Hl|]. cbn [fst]. apply negb_true_iff. apply Nat.eqb_neq. intros E. subst j.
  assert (Eq : (i, a') = (i, a)) by (apply (uniq_same l); auto). inversion Eq; subst a'.
  (* a is the key of an argument's occurrence and carries the flag's name *)
  destruct (wf_rval items lo tp Wp _ _ _ Hv) as (j' & a2 & it2 & w & Ej & Hk2 & Ho2 & Ia2 & _). inversion Ej; subst j'.
  destruct (wf_rkey items lo tp Wp _ _ _ Ht) as (_ & it3 & Ho3 & _).
  destruct (find_owner_spec items a 0 k it3 Ho3) as (_ & Hn3 & M3). rewrite Nat.sub_0_r in Hn3.
  destruct (find_owner_spec items a2 0 k it2 Ho2) as (_ & Hn2 & _). rewrite Nat.sub_0_r in Hn2.
  assert (it3 = it2) by congruence. subst it3.
  rewrite (same_owner items Hdis a it it2 Hit (nth_error_In _ _ Hn3) Ma M3) in Ia. congruence.
Qed.

End Inv.

(* ------------------------------------------------------------------ P5. the construct!, read backwards *)
Lemma con_go_err_not_ok ff evs : forall s first acc e v s', con_go ff evs s first acc (Some e) <> (ROk v, s').
Proof.
  induction evs as [|ev t IH]; intros s first acc e v s'; cbn [con_go]; [discriminate|].
  destruct (ev s) as [r s1]. destruct r; try discriminate; try apply IH.
  destruct (ff && first); [discriminate|apply IH].
Qed.

Lemma con_go_inv n evs aevs evc : Forall2 (sim_ev n) evs aevs ->
  forall s l first acc v s', Sim n s l ->
  con_go false (evs ++ [evc]) s first acc None = (ROk v, s') ->
  exists vs lk sk vc s'', arun aevs l = Some (vs, lk) /\ Sim n sk lk /\ evc sk = (ROk vc, s'') /\
                          v = VTuple (rev acc ++ vs ++ [vc]).
Proof.
  intros Hs. induction Hs as [|ev aev evs aevs H1 Hl IH]; intros s l first acc v s' HS E; cbn [app con_go arun] in *.
  - destruct (evc s) as [r s1] eqn:Ec. destruct r as [x|e|w|]; try discriminate.
    cbn [con_go] in E. inversion E; subst. exists [], l, s, x, s1.
    split; [reflexivity|]. split; [exact HS|]. split; [exact Ec|]. reflexivity.
  - destruct (H1 s l HS) as [R S1]. destruct (ev s) as [r s1]. destruct (aev l) as [a l1]. cbn [fst snd] in *.
    destruct r as [x|e|w|]; try discriminate.
    + destruct a as [x'|m c|]; cbn in R; try contradiction. subst x'.
      destruct (IH s1 l1 false (x :: acc) v s' S1 E) as (vs & lk & sk & vc & s'' & Ea & Sk & Ev & Hv).
      exists (x :: vs), lk, sk, vc, s''. rewrite Ea. split; [reflexivity|]. split; [exact Sk|]. split; [exact Ev|].
      rewrite Hv. cbn [rev]. rewrite <- !app_assoc. reflexivity.
    + cbn [andb] in E. exfalso. eapply con_go_err_not_ok. exact E.
Qed.

(* ------------------------------------------------------------------ P6. the alternative of commands, read backwards *)
Section Alt.
Variable env : bytes -> option bytes.
Variable n : nat.

Lemma or_ok_some eva evb s v s' :
  or_body eva evb s = (ROk v, s') -> (exists sa, eva s = (ROk v, sa)) \/ (exists sb, evb s = (ROk v, sb)).
Proof.
  unfold or_body. destruct (eva s) as [ra sa]. destruct ra as [va|ea|wa|]; try discriminate;
    destruct (evb s) as [rb sb]; destruct rb as [vb|eb|wb|]; try discriminate;
      destruct (this_or_that _ _ s sa sb) as [[[|]|e] s2]; intros H; inversion H; subst; eauto.
Qed.

Lemma fold_or_ok more : forall c s v s',
  eval env (fold_left POr more c) s = (ROk v, s') ->
  exists q sq, In q (c :: more) /\ eval env q s = (ROk v, sq).
Proof.
  induction more as [|q more IH]; intros c s v s' H; cbn [fold_left] in H.
  - exists c, s'. split; [left; reflexivity|exact H].
  - destruct (IH _ _ _ _ H) as (q' & sq & [<-|Hin] & Hq).
    + rewrite eval_POr in Hq. apply or_ok_some in Hq. destruct Hq as [[sa Ha]|[sb Hb]].
      * exists c, sa. split; [left; reflexivity|exact Ha].
      * exists q, sb. split; [right; left; reflexivity|exact Hb].
    + exists q', sq. split; [right; right; exact Hin|exact Hq].
Qed.

(* the text a command name is compared with *)
Definition cmd_word (a : arg) : option bytes :=
  match a with Word w | Short _ _ w | Long _ false w => Some w | _ => None end.

Lemma take_cmd_any_nohit names : forall s l,
  Sim n s l ->
  match l with [] => True | (i, a) :: _ => forall w, cmd_word a = Some w -> mem_bytes w names = false end ->
  exists s1, take_cmd_any names s = (false, s1).
Proof.
  induction names as [|nm t IH]; intros s l HS Hh; cbn [take_cmd_any]; [eauto|].
  assert (Et : exists s1, take_cmd nm s = (false, s1) /\ Sim n s1 l).
  { unfold take_cmd. destruct l as [|[i a] rest].
    - unfold first_item_ix. rewrite (find_item_view n s [] (fun _ => true) HS). cbn.
      eexists. split; [reflexivity|apply set_current_sim; exact HS].
    - rewrite (first_item_head n s i a rest HS).
      assert (Hin : In (i, a) ((i, a) :: rest)) by (left; reflexivity).
      pose proof (proj1 (view_in _ _ _ _ _ HS) Hin) as (_ & Ha & _). rewrite Ha.
      assert (Hne : forall w, cmd_word a = Some w -> beqb w nm = false).
      { intros w Hw. specialize (Hh w Hw). unfold mem_bytes in Hh. cbn [existsb] in Hh. apply orb_false_iff in Hh. apply Hh. }
      destruct a as [c adj os|lg adj os|w|w|w]; cbn [cmd_word] in Hne;
        try (rewrite (Hne _ eq_refl)); try (eexists; split; [reflexivity|apply set_current_sim; exact HS]).
      destruct adj; [|rewrite (Hne _ eq_refl)]; eexists; (split; [reflexivity|apply set_current_sim; exact HS]). }
  destruct Et as (s1 & E1 & S1). rewrite E1.
  apply (IH s1 l S1). destruct l as [|[i a] rest]; [exact I|].
  intros w Hw. specialize (Hh w Hw). unfold mem_bytes in Hh. cbn [existsb] in Hh. apply orb_false_iff in Hh. apply Hh.
Qed.

Lemma cmd_nohit name aliases q s l v s' :
  Sim n s l ->
  match l with [] => True | (i, a) :: _ => forall w, cmd_word a = Some w -> mem_bytes w (name :: aliases) = false end ->
  eval env (PCmd name aliases [] None false (Options q default_info)) s <> (ROk v, s').
Proof.
  intros HS Hh. rewrite eval_PCmd. unfold cmd_body. cbn [map app]. rewrite app_nil_r.
  destruct (take_cmd_any_nohit (name :: aliases) s l HS Hh) as [s1 E1]. rewrite E1. discriminate.
Qed.

(* entering the command whose name stands first: its parser accepted everything to the right *)
Lemma cmd_inv name aliases q s i w rest v s' :
  Sim n s ((i, Word w) :: rest) -> mem_bytes w (name :: aliases) = true ->
  eval env (PCmd name aliases [] None false (Options q default_info)) s = (ROk v, s') ->
  exists s3 s4, Sim n s3 rest /\ eval env q s3 = (ROk v, s4) /\ first_item_ix s4 = None.
Proof.
  intros HS M H.
  rewrite eval_PCmd in H. unfold cmd_body in H. cbn [map app] in H. rewrite app_nil_r in H.
  destruct (take_cmd_any_hit n s i w rest (name :: aliases) HS M) as (s0 & k & S0 & P0 & Et).
  rewrite Et in H. cbn [current set_current] in H.
  destruct (cmd_enter n s0 i w rest k S0) as (s2 & Es2 & S2 & P2).
  cbn zeta in Es2. rewrite Es2 in H.
  set (s3 := set_path s2 (path s2 ++ [name])) in *.
  assert (S3 : Sim n s3 rest) by (destruct S2; constructor; auto).
  rewrite run_sub_eq in H.
  destruct (eval env q s3) as [r s4] eqn:Ee.
  destruct (run_sub_body env default_info (meta_of q) s3 (r, s4)) as [sr s5] eqn:Eb.
  destruct sr as [v'|f|wp|]; try discriminate. inversion H; subst v' s5.
  assert (Ho : outcome_of (fst (run_sub_body env default_info (meta_of q) s3 (r, s4))) = OutOk v) by (rewrite Eb; reflexivity).
  apply run_sub_body_ok in Ho. destruct Ho as [-> Hfi].
  exists s3, s4. auto.
Qed.
End Alt.

(* ------------------------------------------------------------------ runs of named fields *)
Lemma arun_filt aevs : Forall filt aevs -> forall l vs lk, arun aevs l = Some (vs, lk) -> exists f, lk = filter f l.
Proof.
  induction 1 as [|aev t H Ht IH]; intros l vs lk E; cbn [arun] in E.
  - inversion E; subst. exists (fun _ => true). apply filter_id.
  - destruct (H l) as [f Ef]. destruct (aev l) as [r l1]. cbn [snd] in Ef. destruct r as [v|m c|]; try discriminate.
    destruct (arun t l1) as [[vs' l2]|] eqn:Er; [|discriminate]. inversion E; subst.
    destruct (IH _ _ _ Er) as [g Eg]. subst. rewrite filter_filter. eauto.
Qed.

Lemma arun_safe x aevs : Forall (safe x) aevs -> forall l vs lk, uniq l -> In x l -> arun aevs l = Some (vs, lk) -> In x lk.
Proof.
  induction 1 as [|aev t H Ht IH]; intros l vs lk U Hx E; cbn [arun] in E.
  - inversion E; subst. exact Hx.
  - destruct (H l U Hx) as [U1 X1]. destruct (aev l) as [r l1]. cbn [snd] in *. destruct r as [v|m c|]; try discriminate.
    destruct (arun t l1) as [[vs' l2]|] eqn:Er; [|discriminate]. inversion E; subst. eapply IH; eauto.
Qed.

Lemma arun_acon aevs : forall l vs lk acc, arun aevs l = Some (vs, lk) ->
  acon_go aevs l acc None = (AOk (VTuple (rev acc ++ vs)), lk).
Proof.
  induction aevs as [|aev t IH]; intros l vs lk acc E; cbn [arun acon_go] in *.
  - inversion E; subst. rewrite app_nil_r. reflexivity.
  - destruct (aev l) as [r l1]. destruct r as [v|m c|]; try discriminate.
    destruct (arun t l1) as [[vs' l2]|] eqn:Er; [|discriminate]. inversion E; subst.
    rewrite (IH _ _ _ (v :: acc) Er). cbn [rev]. rewrite <- app_assoc. reflexivity.
Qed.

Lemma item_filt_all fuel its : Forall filt (map (aeval fuel) (map compile_item its)).
Proof. induction its as [|it t IH]; cbn; constructor; [apply filt_item|exact IH]. Qed.

Section ItemsInv.
Variable items : list citem.
Hypothesis Hdis : disjoint_names items.

(* the named fields of a level, read backwards: exactly their occurrences, or a key left behind *)
Lemma items_arun_inv fuel lo t0 :
  WF items lo t0 -> length t0 < fuel ->
  forall its k vs lk,
    (forall p it, nth_error its p = Some it -> nth_error items (k + p) = Some it) ->
    arun (map (aeval fuel) (map compile_item its)) (untag (filter (keep k) t0)) = Some (vs, lk) ->
    (items_values its k (occs_of t0) = Some vs /\ lk = untag (filter (keep (k + length its)) t0)) \/
    (exists x it, In x lk /\ In it items /\ matches_arg (item_named it) false (snd x) = true).
Proof.
  intros W Hf. induction its as [|it its IH]; intros k vs lk Hn E.
  - cbn in E. inversion E; subst. left. split; [reflexivity|]. rewrite Nat.add_0_r. reflexivity.
  - cbn [map arun] in E.
    assert (Hk : nth_error items k = Some it) by (rewrite <- (Nat.add_0_r k); apply Hn; reflexivity).
    set (tk := filter (keep k) t0) in *.
    assert (Wk : WF items lo tk) by (apply WF_filter; exact W).
    assert (Kk : kept k tk) by apply kept_filter.
    assert (Lk : length (untag tk) < fuel).
    { rewrite untag_length. pose proof (length_filter_le (keep k) t0). unfold tk. lia. }
    destruct (aeval fuel (compile_item it) (untag tk)) as [r l1] eqn:St.
    destruct r as [v1|m c|]; try discriminate.
    destruct (arun (map (aeval fuel) (map compile_item its)) l1) as [[vs' l2]|] eqn:Er; [|discriminate].
    inversion E; subst vs lk. clear E.
    destruct (item_inv items Hdis fuel k it lo tk v1 l1 Hk Wk Kk Lk St) as [[Hv El]|Lo].
    + subst l1. unfold tk in Er. rewrite (filter_keep_S k t0) in Er.
      destruct (IH (S k) vs' l2) as [[Hvs El2]|Hl].
      * intros p it' Hp. replace (S k + p) with (k + S p) by lia. apply Hn. exact Hp.
      * exact Er.
      * left. split.
        -- cbn [items_values]. unfold tk in Hv. rewrite (kvals_filter items k k lo t0 W (le_n k)) in Hv.
           unfold kvals in Hv. rewrite Hv, Hvs. reflexivity.
        -- cbn [length]. replace (k + S (length its)) with (S k + length its) by lia. exact El2.
      * right. exact Hl.
    + right. destruct Lo as (x & Hx & Mx).
      assert (Kx : is_key (snd x) = true) by (eapply match_is_key; exact Mx).
      assert (U1 : uniq l1).
      { pose proof (filt_uniq _ (untag tk) (filt_item fuel it) (WF_uniq items lo tk Wk)) as U. rewrite St in U. exact U. }
      exists x, it. split; [|split; [eapply nth_error_In; exact Hk|exact Mx]].
      eapply (arun_safe x); [|exact U1|exact Hx|exact Er].
      rewrite Forall_forall. intros ev Hev. apply in_map_iff in Hev. destruct Hev as (q & <- & Hq).
      apply in_map_iff in Hq. destruct Hq as (it' & <- & Hit').
      apply item_safe; [exact Kx|].
      destruct (matches_arg (item_named it') false (snd x)) eqn:M'; [|reflexivity]. exfalso.
      apply In_nth_error in Hit'. destruct Hit' as [p Hp].
      pose proof (Hn (S p) it' Hp) as Hp'.
      pose proof (Hdis (snd x) k (k + S p) it it' Hk Hp' Mx M'). lia.
Qed.
End ItemsInv.

(* ------------------------------------------------------------------ specified vectors hold no option of an enclosing level *)
Definition anc_free (anc : list citem) (ts : list (arg * bool)) : Prop :=
  forall b, In (b, false) ts -> forall it, In it anc -> matches_arg (item_named it) false b = false.

Lemma anc_free_app anc a b : anc_free anc a -> anc_free anc b -> anc_free anc (a ++ b).
Proof. intros Ha Hb x Hin. apply in_app_or in Hin. destruct Hin; [apply Ha|apply Hb]; assumption. Qed.

Lemma not_owned_free anc a : owned_by anc a = false -> forall it, In it anc -> matches_arg (item_named it) false a = false.
Proof.
  unfold owned_by. intros H it Hit. destruct (is_key a) eqn:K; [|apply not_key_no_match; exact K].
  cbn in H. destruct (find_owner anc a 0) eqn:F; [discriminate|]. eapply find_owner_none; eauto.
Qed.

Lemma unspec_later_free items anc tail : forall ts pc, unspec_later items anc tail pc ts = false -> anc_free anc ts.
Proof.
  induction ts as [|[a m] r IH]; intros pc H b Hin; [contradiction|]. cbn [unspec_later] in H.
  destruct m.
  - destruct Hin as [E|Hin]; [discriminate|]. eapply IH; eauto.
  - apply orb_false_elim in H. destruct H as [H Hr]. apply orb_false_elim in H. destruct H as [H _].
    apply orb_false_elim in H. destruct H as [_ Ho].
    destruct Hin as [E|Hin]; [inversion E; subst; apply not_owned_free; exact Ho|eapply IH; eauto].
Qed.

Section ScanSpec.
Variable items anc : list citem.
Variable tail : ctail.
Hypothesis Hcross : forall it it' a, In it items -> In it' anc ->
  matches_arg (item_named it) false a = true -> matches_arg (item_named it') false a = true -> False.

Definition post (ts : list (arg * bool)) (r : scan_result) : Prop :=
  match r with
  | ScUnspec => True
  | ScDone _ | ScReject => anc_free anc ts
  | ScCmd _ sub rest => exists pre w, ts = pre ++ (Word w, false) :: rest /\ anc_free anc pre
  end.

Lemma post_cons hd ts ro oo wo res : anc_free anc hd -> post ts res -> post (hd ++ ts) (att_cons ro oo wo res).
Proof.
  intros Hh Hp. destruct res as [a|a sub rest| |]; cbn [att_cons post] in *.
  - apply anc_free_app; assumption.
  - destruct Hp as (pre & w & -> & Hf). exists (hd ++ pre), w. split; [rewrite app_assoc; reflexivity|apply anc_free_app; assumption].
  - apply anc_free_app; assumption.
  - exact I.
Qed.

Lemma post_rej tl ts : post ts (if unspec_later items anc tl false ts then ScUnspec else ScReject).
Proof. destruct (unspec_later items anc tl false ts) eqn:E; cbn; [exact I|eapply unspec_later_free; exact E]. Qed.

Lemma free_marked a : anc_free anc [(a, true)].
Proof. intros b [E|[]]. discriminate. Qed.
Lemma free_nonkey a : is_key a = false -> anc_free anc [(a, false)].
Proof. intros K b [E|[]] it _. inversion E; subst. apply not_key_no_match. exact K. Qed.
Lemma free_owned a k it : find_owner items a 0 = Some (k, it) -> anc_free anc [(a, false)].
Proof.
  intros Fo b [E|[]] it' Hit'. inversion E; subst b.
  destruct (find_owner_spec items a 0 k it Fo) as (_ & Hn & M). rewrite Nat.sub_0_r in Hn.
  destruct (matches_arg (item_named it') false a) eqn:M'; [|reflexivity].
  exfalso. apply (Hcross it it' a (nth_error_In _ _ Hn) Hit' M M').
Qed.

Lemma scan_spec n : forall ts, length ts <= n -> post ts (scan items anc tail ts).
Proof.
  induction n as [|n IH]; intros ts Hn.
  - destruct ts; [cbn; intros b []|cbn in Hn; lia].
  - destruct ts as [|[x m] rest]; [cbn; intros b []|]. cbn [scan]. cbn [length] in Hn.
    destruct m.
    + apply (post_cons [(x, true)] rest); [apply free_marked|apply IH; lia].
    + assert (Hkey : is_key x = true ->
        post ((x, false) :: rest)
        (if is_help x then ScUnspec else
          match find_owner items x 0 with
          | Some (k, it) =>
            if is_argument it then
              match rest with
              | (ArgWord w, false) :: rest' | (Word w, false) :: rest' =>
                att_cons [RKey k; RVal k] [(k, Some w)] [] (scan items anc tail rest')
              | _ => if unspec_later items anc tail false ((x, false) :: rest) then ScUnspec else ScReject
              end
            else att_cons [RKey k] [(k, None)] [] (scan items anc tail rest)
          | None =>
            match find_owner anc x 0 with
            | Some _ => ScUnspec
            | None => if unspec_later items anc tail false ((x, false) :: rest) then ScUnspec else ScReject
            end
          end)).
      { intros Kx. destruct (is_help x); [exact I|].
        destruct (find_owner items x 0) as [[k it]|] eqn:Fo.
        - destruct (is_argument it).
          + destruct rest as [|[b mb] rest']; [apply post_rej|].
            destruct b as [c2 a2 o2|n2 a2 o2|w|w|w]; destruct mb; try apply post_rej.
            * apply (post_cons [(x, false); (ArgWord w, false)] rest');
                [apply (anc_free_app anc [(x, false)] [(ArgWord w, false)]); [eapply free_owned; eauto|apply free_nonkey; reflexivity]|].
              apply IH. cbn in Hn. lia.
            * apply (post_cons [(x, false); (Word w, false)] rest');
                [apply (anc_free_app anc [(x, false)] [(Word w, false)]); [eapply free_owned; eauto|apply free_nonkey; reflexivity]|].
              apply IH. cbn in Hn. lia.
          + apply (post_cons [(x, false)] rest); [eapply free_owned; eauto|apply IH; lia].
        - destruct (find_owner anc x 0); [exact I|apply post_rej]. }
      destruct x as [c adj os|nm adj os|w|w|w].
      * apply Hkey. reflexivity.
      * apply Hkey. reflexivity.
      * apply post_rej.
      * destruct (dashy w); [exact I|]. destruct tail as [|ps|cs].
        -- apply post_rej.
        -- apply (post_cons [(Word w, false)] rest); [apply free_nonkey; reflexivity|apply IH; lia].
        -- destruct (find_cmd cs w); [|apply post_rej]. cbn [post]. exists [], w. split; [reflexivity|intros b []].
      * destruct tail as [|ps|cs]; try apply post_rej.
        apply (post_cons [(PosWord w, false)] rest); [apply free_nonkey; reflexivity|apply IH; lia].
Qed.
End ScanSpec.

(* ------------------------------------------------------------------ ascending lists *)
Fixpoint asc (l : lv) : Prop :=
  match l with [] => True | x :: t => (forall y, In y t -> fst x < fst y) /\ asc t end.

Lemma asc_filter f l : asc l -> asc (filter f l).
Proof.
  induction l as [|x t IH]; cbn [filter asc]; [auto|]. intros [H1 H2]. destruct (f x); cbn [asc]; [|auto].
  split; [|auto]. intros y Hy. apply filter_In in Hy. apply H1. apply Hy.
Qed.

Lemma asc_live_from ts : forall ix, asc (live_from ix ts).
Proof.
  induction ts as [|[a m] r IH]; intros ix; cbn [live_from]; [exact I|]. destruct m; cbn [app]; [apply IH|].
  cbn [asc]. split; [|apply IH]. intros y Hy. apply live_from_lb in Hy. cbn. lia.
Qed.

(* ------------------------------------------------------------------ plain command names (Conv.plain_cmds) *)
Lemma plain_cs_in cs t : plain_cs cs = true -> In t (cs_list cs) ->
  forallb plainb (fst (fst t) :: snd (fst t)) = true /\ plain_cmds (snd t) = true.
Proof.
  induction cs as [|name aliases sub rest IH]; cbn [plain_cs cs_list]; [intros _ []|].
  intros H [<-|Hin].
  - apply andb_prop in H. destruct H as [H _]. apply andb_prop in H. exact H.
  - apply andb_prop in H. destruct H as [_ H]. apply IH; assumption.
Qed.

Lemma mem_plain w names : forallb plainb names = true -> mem_bytes w names = true -> plainb w = true.
Proof.
  intros Hp Hm. apply mem_bytes_in in Hm. rewrite forallb_forall in Hp. apply Hp. exact Hm.
Qed.

Lemma key_not_cmd a w names : is_key a = true -> key_os_ok a -> forallb plainb names = true ->
  cmd_word a = Some w -> mem_bytes w names = false.
Proof.
  intros K Ho Hp Hw. destruct (mem_bytes w names) eqn:M; [|reflexivity]. exfalso.
  pose proof (mem_plain w names Hp M) as P.
  destruct a as [c adj os|l adj os|x|x|x]; try discriminate; cbn in Ho, Hw.
  - inversion Hw; subst. destruct Ho as [->|[t ->]]; cbn in P; [discriminate|]. rewrite N.eqb_refl in P. discriminate.
  - destruct adj; [discriminate|]. inversion Hw; subst. destruct Ho as [->|[t ->]]; cbn in P; [discriminate|]. rewrite N.eqb_refl in P. discriminate.
Qed.

(* ------------------------------------------------------------------ what stands first after the named fields *)
Section Head.
Variable items : list citem.
Hypothesis Hdis : disjoint_names items.
Variable lo : nat.
Variable tp : tl3.
Hypothesis Wp : WF items lo tp.
Hypothesis Hnamed : forall x, In x tp -> exists j, snd x = RKey j \/ snd x = RVal j.
Hypothesis Htok : forall x, In x tp -> key_os_ok (snd (fst x)).
Variable R : lv.

(* every named field keeps "a value on the line has its key on the line" *)
Lemma items_good fuel its l vs lk :
  incl its items ->
  Good tp R l -> arun (map (aeval fuel) (map compile_item its)) l = Some (vs, lk) -> Good tp R lk.
Proof.
  intros Hin Hg E. eapply (arun_pres (Good tp R)); [|exact Hg|exact E].
  rewrite Forall_forall. intros ev Hev. apply in_map_iff in Hev. destruct Hev as (q & <- & Hq).
  apply in_map_iff in Hq. destruct Hq as (it & <- & Hit). apply item_pres.
  - intros Ia pr ab. apply (flag_good items Hdis lo tp Wp R it pr ab); [apply Hin; exact Hit|exact Ia].
  - intros Ia ty. apply (arg_good items lo tp Wp R).
Qed.

(* a token of the attributed prefix that stands first is a key -- never a command word *)
Lemma head_prefix_not_cmd lk h a rest names w :
  Good tp R lk -> lk = (h, a) :: rest -> asc lk -> In (h, a) (untag tp) ->
  forallb plainb names = true -> cmd_word a = Some w -> mem_bytes w names = false.
Proof.
  intros (U & I & P) -> [Hmin _] Hin Hp Hw.
  apply untag_in in Hin. destruct Hin as [r Hr]. destruct (Hnamed _ Hr) as [k [Er|Er]]; cbn in Er; subst r.
  - destruct (wf_rkey items lo tp Wp _ _ _ Hr) as (K & _). eapply key_not_cmd; eauto. apply (Htok _ Hr).
  - exfalso. destruct (wf_rval items lo tp Wp _ _ _ Hr) as (j & a' & it & w' & -> & _).
    destruct (P j a k Hr (or_introl eq_refl)) as (a2 & _ & Hl). destruct Hl as [E|Hl]; [inversion E; lia|].
    apply Hmin in Hl. cbn in Hl. lia.
Qed.
End Head.

(* ------------------------------------------------------------------ the scan of a level with subcommands, up to the token it rejects *)
Section RejCmd.
Variable items anc : list citem.
Variable cs : clist.

Definition novalue (rest : list (arg * bool)) : Prop :=
  match rest with (b, false) :: _ => is_value b = None | _ => True end.

Inductive reject_head (x : arg) (rest : list (arg * bool)) : Prop :=
| RH_unowned : is_key x = true -> find_owner items x 0 = None -> reject_head x rest
| RH_novalue k it : is_key x = true -> find_owner items x 0 = Some (k, it) -> is_argument it = true ->
    novalue rest -> reject_head x rest
| RH_word w : x = Word w -> find_cmd cs w = None -> reject_head x rest
| RH_posword w : x = PosWord w -> reject_head x rest
| RH_argword w : x = ArgWord w -> reject_head x rest.

Lemma good_nil ix : scan_cmd_good items ix [] (mkAttr [] [] []).
Proof. unfold scan_cmd_good. cbn. repeat split; try constructor. intros y []. Qed.

Lemma scan_reject_cmd n : forall ts, length ts <= n -> forall ix,
  scan items anc (TCmds cs) ts = ScReject ->
  exists pre x rest a', ts = pre ++ (x, false) :: rest /\ scan_cmd_good items ix pre a' /\ reject_head x rest.
Proof.
  induction n as [|n IH]; intros ts Hn ix H.
  - destruct ts; [cbn in H; discriminate|cbn in Hn; lia].
  - destruct ts as [|[x m] r]; [cbn in H; discriminate|]. cbn [scan] in H. cbn [length] in Hn.
    destruct m.
    + apply att_cons_reject in H.
      destruct (IH r ltac:(lia) (S ix) H) as (pre & x' & rest & a' & -> & (W & Ho & Hu & Hr) & Hh).
      exists ((x, true) :: pre), x', rest, (mkAttr (RMark :: at_roles a') (at_occ a') (at_words a')).
      split; [reflexivity|]. split; [|exact Hh].
      unfold scan_cmd_good. cbn [at_roles at_occ tag_from app live_from].
      repeat split; auto. eapply WF_weaken; [|exact W]. lia.
    + assert (Hkey : is_key x = true ->
        (if is_help x then ScUnspec else
          match find_owner items x 0 with
          | Some (k, it) =>
            if is_argument it then
              match r with
              | (ArgWord w, false) :: rest' | (Word w, false) :: rest' =>
                att_cons [RKey k; RVal k] [(k, Some w)] [] (scan items anc (TCmds cs) rest')
              | _ => if unspec_later items anc (TCmds cs) false ((x, false) :: r) then ScUnspec else ScReject
              end
            else att_cons [RKey k] [(k, None)] [] (scan items anc (TCmds cs) r)
          | None =>
            match find_owner anc x 0 with
            | Some _ => ScUnspec
            | None => if unspec_later items anc (TCmds cs) false ((x, false) :: r) then ScUnspec else ScReject
            end
          end) = ScReject ->
        exists pre x' rest a', (x, false) :: r = pre ++ (x', false) :: rest /\ scan_cmd_good items ix pre a' /\ reject_head x' rest).
      { intros Kx H'. destruct (is_help x); [discriminate|].
        destruct (find_owner items x 0) as [[k it]|] eqn:Fo.
        - destruct (is_argument it) eqn:Ia.
          + assert (Hrej : novalue r -> exists pre x' rest a', (x, false) :: r = pre ++ (x', false) :: rest /\
                      scan_cmd_good items ix pre a' /\ reject_head x' rest).
            { intros Hnv. exists [], x, r, (mkAttr [] [] []). split; [reflexivity|]. split; [apply good_nil|].
              eapply RH_novalue; eauto. }
            assert (Hacc : forall b w rest', r = (b, false) :: rest' -> is_value b = Some w ->
                      scan items anc (TCmds cs) rest' = ScReject ->
                      exists pre x' rest a', (x, false) :: r = pre ++ (x', false) :: rest /\
                        scan_cmd_good items ix pre a' /\ reject_head x' rest).
            { intros b w rest' -> Vb Hr'. cbn [length] in Hn.
              destruct (IH rest' ltac:(lia) (S (S ix)) Hr') as (pre & x' & rest & a' & -> & (W & Ho & Hu & Hr) & Hh).
              exists ((x, false) :: (b, false) :: pre), x', rest,
                (mkAttr (RKey k :: RVal k :: at_roles a') ((k, Some w) :: at_occ a') (at_words a')).
              split; [reflexivity|]. split; [|exact Hh].
              unfold scan_cmd_good. cbn [at_roles at_occ tag_from app live_from]. repeat split.
              - eapply WF_arg; eauto.
              - cbn [occs_of]. assert (Ew : word_of b = w) by (destruct b; cbn in Vb |- *; congruence).
                rewrite Ew, Ho. reflexivity.
              - cbn [untag map fst]. f_equal. f_equal. exact Hu.
              - intros y [<-|[<-|Hy]]; [exists k; auto|exists k; auto|apply Hr; exact Hy]. }
            destruct r as [|[b mb] r']; [apply Hrej; exact I|].
            destruct b as [c2 a2 o2|n2 a2 o2|w|w|w]; destruct mb;
              try (apply att_cons_reject in H'; eapply Hacc; [reflexivity|reflexivity|exact H']);
              apply Hrej; cbn; try exact I; reflexivity.
          + apply att_cons_reject in H'.
            destruct (IH r ltac:(lia) (S ix) H') as (pre & x' & rest & a' & -> & (W & Ho & Hu & Hr) & Hh).
            exists ((x, false) :: pre), x', rest, (mkAttr (RKey k :: at_roles a') ((k, None) :: at_occ a') (at_words a')).
            split; [reflexivity|]. split; [|exact Hh].
            unfold scan_cmd_good. cbn [at_roles at_occ tag_from app live_from]. repeat split.
            * eapply WF_flag; eauto.
            * rewrite (occs_flag items ix ix _ k _ W (le_n ix)). rewrite Ho. reflexivity.
            * cbn [untag map fst]. f_equal. exact Hu.
            * intros y [<-|Hy]; [exists k; auto|apply Hr; exact Hy].
        - destruct (find_owner anc x 0); [discriminate|].
          exists [], x, r, (mkAttr [] [] []). split; [reflexivity|]. split; [apply good_nil|]. apply RH_unowned; assumption. }
      destruct x as [c adj os|nm adj os|w|w|w].
      * apply Hkey; [reflexivity|exact H].
      * apply Hkey; [reflexivity|exact H].
      * exists [], (ArgWord w), r, (mkAttr [] [] []). split; [reflexivity|]. split; [apply good_nil|]. eapply RH_argword; reflexivity.
      * destruct (dashy w); [discriminate|]. destruct (find_cmd cs w) eqn:Fc; [discriminate|].
        exists [], (Word w), r, (mkAttr [] [] []). split; [reflexivity|]. split; [apply good_nil|]. eapply RH_word; eauto.
      * exists [], (PosWord w), r, (mkAttr [] [] []). split; [reflexivity|]. split; [apply good_nil|]. eapply RH_posword; reflexivity.
Qed.
End RejCmd.

(* ------------------------------------------------------------------ the rejected token is stuck *)
Lemma reject_stuck items cs (Hdis : disjoint_names items) ix pre a' x rest :
  scan_cmd_good items ix pre a' -> reject_head items cs x rest ->
  let tp := tag_from ix pre (at_roles a') in
  let c := ix + length pre in
  stuck items TNone (c, x) (untag tp ++ (c, x) :: live_from (S c) rest).
Proof.
  intros (W & Ho & Hu & Hr) Hh tp c. fold tp in W, Ho, Hu, Hr.
  assert (Hlt : forall y, In y (untag tp) -> fst y < c).
  { intros y Hy. rewrite Hu in Hy. apply live_from_ub in Hy. exact Hy. }
  assert (Hgt : forall y, In y (live_from (S c) rest) -> c < fst y).
  { intros y Hy. apply live_from_lb in Hy. lia. }
  destruct Hh as [Kx Fo|k it Kx Fo Ia Hnv|w -> Fc|w ->|w ->].
  - apply St_unowned; [exact Kx|]. intros it Hit. cbn [snd]. eapply find_owner_none; eauto.
  - destruct (find_owner_spec items x 0 k it Fo) as (_ & Hn & M). rewrite Nat.sub_0_r in Hn.
    apply (St_novalue items TNone (c, x) _ it (nth_error_In _ _ Hn) Ia M).
    intros b w G V. cbn [fst] in G. apply aget_in in G. apply in_app_or in G. destruct G as [G|[G|G]].
    + apply Hlt in G. cbn in G. lia.
    + inversion G. lia.
    + destruct rest as [|[b0 m0] r']; [contradiction|]. cbn [live_from] in G. apply in_app_or in G. destruct G as [G|G].
      * destruct m0; [contradiction|]. destruct G as [G|[]]. inversion G; subst b0. cbn in Hnv. congruence.
      * apply live_from_lb in G. cbn in G. lia.
  - apply St_stray; [reflexivity| |left; reflexivity].
    intros j b E G. cbn [fst] in E. apply aget_in in G. apply in_app_or in G. destruct G as [G|[G|G]].
    + apply untag_in in G. destruct G as [r G]. destruct (Hr _ G) as [k [Er|Er]]; cbn in Er; subst r.
      * destruct (wf_rkey items ix tp W _ _ _ G) as (K & it & Fo & Hv).
        destruct (is_argument it) eqn:Ia; [|eapply flag_key_argsafe; eauto].
        destruct (Hv eq_refl) as (b' & w' & Hb' & _).
        assert (Hin : In (S j, b') (untag tp)) by (unfold untag; apply in_map_iff; exists (S j, b', RVal k); auto).
        apply Hlt in Hin. cbn in Hin. lia.
      * destruct (wf_rval items ix tp W _ _ _ G) as (j' & a2 & it & w' & _ & _ & _ & _ & V).
        apply not_key_argsafe. eapply value_not_key; eauto.
    + inversion G. lia.
    + apply Hgt in G. cbn in G. lia.
  - eapply St_posword; reflexivity.
  - apply St_stray; [reflexivity| |right; exists w; reflexivity].
    intros j b E G. cbn [fst] in E. apply aget_in in G. apply in_app_or in G. destruct G as [G|[G|G]].
    + apply untag_in in G. destruct G as [r G]. destruct (Hr _ G) as [k [Er|Er]]; cbn in Er; subst r.
      * destruct (wf_rkey items ix tp W _ _ _ G) as (K & it & Fo & Hv).
        destruct (is_argument it) eqn:Ia; [|eapply flag_key_argsafe; eauto].
        destruct (Hv eq_refl) as (b' & w' & Hb' & _).
        assert (Hin : In (S j, b') (untag tp)) by (unfold untag; apply in_map_iff; exists (S j, b', RVal k); auto).
        apply Hlt in Hin. cbn in Hin. lia.
      * destruct (wf_rval items ix tp W _ _ _ G) as (j' & a2 & it & w' & _ & _ & _ & _ & V).
        apply not_key_argsafe. eapply value_not_key; eauto.
    + inversion G. lia.
    + apply Hgt in G. cbn in G. lia.
Qed.

(* ------------------------------------------------------------------ specified vectors: nothing of an enclosing level right of a command name *)
Definition cross (anc : list citem) (l : level) : Prop :=
  forall it it' a, In it (all_items l) -> In it' anc ->
    matches_arg (item_named it) false a = true -> matches_arg (item_named it') false a = true -> False.

Lemma anc_free_incl anc anc' ts : incl anc anc' -> anc_free anc' ts -> anc_free anc ts.
Proof. intros Hi Hf b Hb it Hit. apply (Hf b Hb it). apply Hi. exact Hit. Qed.

Lemma spec_free f : forall l anc ts,
  tree_ok l -> cross anc l -> denote_level f l anc ts <> Unspecified -> anc_free anc ts.
Proof.
  induction f as [|f IH]; intros [items tail] anc ts Hok Hc Hs; [cbn in Hs; contradiction Hs; reflexivity|].
  cbn [denote_level] in Hs.
  assert (Hci : forall it it' a, In it items -> In it' anc ->
            matches_arg (item_named it) false a = true -> matches_arg (item_named it') false a = true -> False).
  { intros it it' a Hit Hit'. apply (Hc it it' a); [|exact Hit']. cbn [all_items]. apply in_or_app. left. exact Hit. }
  pose proof (scan_spec items anc tail Hci _ ts (le_n _)) as P.
  destruct (scan items anc tail ts) as [a|a sub rest| |] eqn:Sc; cbn [post] in P.
  - exact P.
  - destruct P as (pre & w & -> & Hf).
    destruct tail as [|ps|cs];
      [exfalso; eapply (scan_not_cmd items anc TNone _ (fun cs E => ltac:(discriminate)) _ (le_n _)); exact Sc
      |exfalso; eapply (scan_not_cmd items anc (TPos ps) _ (fun cs E => ltac:(discriminate)) _ (le_n _)); exact Sc|].
    destruct (scan_cmd_wf items anc cs _ _ (le_n _) 0 a sub rest Sc) as (pre' & w' & _ & Hfc & _).
    rewrite find_cmd_list in Hfc. destruct (find (cmatch w') (cs_list cs)) as [tm|] eqn:Ff; [|discriminate].
    cbn in Hfc. inversion Hfc; subst sub. destruct (find_some _ _ Ff) as [Htm _].
    cbn [tree_ok] in Hok. destruct Hok as (Hne & Hdis & Hnames & Hlen1 & Hsubs & Huniq & Hcross).
    assert (Hrest : anc_free (anc ++ items) rest).
    { apply (IH (snd tm) (anc ++ items) rest).
      - eapply tree_ok_cs_in; eauto.
      - intros it it' a0 Hit Hit' M M'. apply in_app_or in Hit'. destruct Hit' as [Hit'|Hit'].
        + apply (Hc it it' a0); auto. cbn [all_items]. apply in_or_app. right. apply (cs_list_items cs tm Htm). exact Hit.
        + apply (Hcross it' it a0 Hit'); auto. apply (cs_list_items cs tm Htm). exact Hit.
      - intros E. rewrite E in Hs. apply Hs. reflexivity. }
    apply anc_free_app; [exact Hf|].
    apply (anc_free_app anc [(Word w, false)] rest); [apply free_nonkey; reflexivity|].
    eapply anc_free_incl; [|exact Hrest]. apply incl_appl, incl_refl.
  - exact P.
  - contradiction Hs. reflexivity.
Qed.

(* ------------------------------------------------------------------ a flat level never parses what its grammar rejects *)
Lemma flat_reject_false env n items anc tail ts ix s s' v :
  flat_ok items tail -> Sim n s (live_from ix ts) -> length ts <= n ->
  scan items anc tail ts = ScReject ->
  eval env (compile (Level items tail)) s = (ROk v, s') -> first_item_ix s' = None -> False.
Proof.
  intros Hok S0 Hlen Sc Ee Hfi. pose proof Hok as (Hdis & Hnames & Hl2).
  pose proof (ok_abstract env n items tail ts ix s s' v Hok S0 Ee Hfi) as Ha.
  destruct (compile_flat items tail Hok) as [Ec _]. rewrite Ec in Ha. cbn [aeval] in Ha. rewrite aevals_plist in Ha.
  assert (Hnc : forall cs, tail <> TCmds cs) by (intros cs ->; contradiction).
  destruct (scan_reject_stuck items anc tail Hdis _ ts (le_n _) ix [] Sc) as (x & Hx & St).
  - intros p [].
  - intros j b E [].
  - cbn [app] in Hx, St.
    assert (Ept : ptail tail = tail) by (unfold ptail; destruct tail; [reflexivity|reflexivity|exfalso; eapply Hnc; reflexivity]).
    rewrite Ept in St.
    pose proof (stuck_survives items Hdis (S (S n)) tail x _ [] None Hnc (live_from_uniq _ ix) Hx St) as Hin.
    rewrite Ha in Hin. exact Hin.
Qed.

(* ------------------------------------------------------------------ a level with subcommands whose line holds no command word *)
Lemma scan_done_cmd items anc cs n : forall ts, length ts <= n -> forall ix a,
  scan items anc (TCmds cs) ts = ScDone a -> scan_cmd_good items ix ts a.
Proof.
  induction n as [|n IH]; intros ts Hn ix a H.
  - destruct ts; [|cbn in Hn; lia]. cbn in H. inversion H; subst. apply good_nil.
  - destruct ts as [|[x m] r]; [cbn in H; inversion H; subst; apply good_nil|]. cbn [scan] in H. cbn [length] in Hn.
    destruct m.
    + apply att_cons_done in H. destruct H as (a' & H & ->).
      destruct (IH r ltac:(lia) (S ix) a' H) as (W & Ho & Hu & Hr).
      unfold scan_cmd_good. cbn [at_roles at_occ tag_from app live_from].
      repeat split; auto. eapply WF_weaken; [|exact W]. lia.
    + assert (Hkey : is_key x = true ->
        (if is_help x then ScUnspec else
          match find_owner items x 0 with
          | Some (k, it) =>
            if is_argument it then
              match r with
              | (ArgWord w, false) :: rest' | (Word w, false) :: rest' =>
                att_cons [RKey k; RVal k] [(k, Some w)] [] (scan items anc (TCmds cs) rest')
              | _ => if unspec_later items anc (TCmds cs) false ((x, false) :: r) then ScUnspec else ScReject
              end
            else att_cons [RKey k] [(k, None)] [] (scan items anc (TCmds cs) r)
          | None =>
            match find_owner anc x 0 with
            | Some _ => ScUnspec
            | None => if unspec_later items anc (TCmds cs) false ((x, false) :: r) then ScUnspec else ScReject
            end
          end) = ScDone a -> scan_cmd_good items ix ((x, false) :: r) a).
      { intros Kx H'. destruct (is_help x); [discriminate|].
        destruct (find_owner items x 0) as [[k it]|] eqn:Fo;
          [|destruct (find_owner anc x 0); [discriminate|destruct (unspec_later _ _ _ _ _); discriminate]].
        destruct (is_argument it) eqn:Ia.
        - assert (Hacc : forall b w rest', r = (b, false) :: rest' -> is_value b = Some w ->
                    att_cons [RKey k; RVal k] [(k, Some w)] [] (scan items anc (TCmds cs) rest') = ScDone a ->
                    scan_cmd_good items ix ((x, false) :: r) a).
          { intros b w rest' -> Vb Hr'. cbn [length] in Hn.
            apply att_cons_done in Hr'. destruct Hr' as (a' & Hr' & ->).
            destruct (IH rest' ltac:(lia) (S (S ix)) a' Hr') as (W & Ho & Hu & Hr).
            unfold scan_cmd_good. cbn [at_roles at_occ tag_from app live_from]. repeat split.
            - eapply WF_arg; eauto.
            - cbn [occs_of]. assert (Ew : word_of b = w) by (destruct b; cbn in Vb |- *; congruence).
              rewrite Ew, Ho. reflexivity.
            - cbn [untag map fst]. f_equal. f_equal. exact Hu.
            - intros y [<-|[<-|Hy]]; [exists k; auto|exists k; auto|apply Hr; exact Hy]. }
          destruct r as [|[b mb] r']; [destruct (unspec_later _ _ _ _ _); discriminate|].
          destruct b as [c2 a2 o2|n2 a2 o2|w|w|w]; destruct mb;
            try (destruct (unspec_later _ _ _ _ _); discriminate);
            (eapply Hacc; [reflexivity|reflexivity|exact H']).
        - apply att_cons_done in H'. destruct H' as (a' & H' & ->).
          destruct (IH r ltac:(lia) (S ix) a' H') as (W & Ho & Hu & Hr).
          unfold scan_cmd_good. cbn [at_roles at_occ tag_from app live_from]. repeat split.
          + eapply WF_flag; eauto.
          + rewrite (occs_flag items ix ix _ k _ W (le_n ix)). rewrite Ho. reflexivity.
          + cbn [untag map fst]. f_equal. exact Hu.
          + intros y [<-|Hy]; [exists k; auto|apply Hr; exact Hy]. }
      destruct x as [c adj os|nm adj os|w|w|w].
      * apply Hkey; [reflexivity|exact H].
      * apply Hkey; [reflexivity|exact H].
      * destruct (unspec_later _ _ _ _ _); discriminate.
      * destruct (dashy w); [discriminate|]. destruct (find_cmd cs w); [discriminate|].
        destruct (unspec_later _ _ _ _ _); discriminate.
      * destruct (unspec_later _ _ _ _ _); discriminate.
Qed.

(* ------------------------------------------------------------------ the starting point of the invariant *)
Lemma good_init items lo tp R : WF items lo tp -> uniq (untag tp ++ R) -> Good tp R (untag tp ++ R).
Proof.
  intros W U. split; [exact U|]. split; [apply incl_refl|].
  intros j b k Hv _. destruct (wf_rval items lo tp W _ _ _ Hv) as (j' & a & it & w & E & Hk & _). inversion E; subst j'.
  exists a. split; [exact Hk|]. apply in_or_app. left. unfold untag. apply in_map_iff. exists (j, a, RKey k). auto.
Qed.

Lemma find_none_cmatch w ts t : find (cmatch w) ts = None -> In t ts -> cmatch w t = false.
Proof. intros F Hin. apply (find_none _ _ F _ Hin). Qed.

(* ------------------------------------------------------------------ the converse, by induction on the tree *)
Definition toks_ok (ts : list (arg * bool)) : Prop := Forall (fun t => key_os_ok (fst t)) ts.

Lemma toks_ok_app a b : toks_ok (a ++ b) -> toks_ok a /\ toks_ok b.
Proof. unfold toks_ok. intros H. apply Forall_app in H. exact H. Qed.

Section Main.
Variable env : bytes -> option bytes.
Variable n : nat.

Theorem tree_sound f : forall l anc ts ix s s' v,
  tree_ok l -> plain_cmds l = true -> cross anc l -> toks_ok ts ->
  Sim n s (live_from ix ts) -> length ts <= n ->
  denote_level f l anc ts <> Unspecified ->
  eval env (compile l) s = (ROk v, s') -> first_item_ix s' = None ->
  denote_level f l anc ts = Accept v.
Proof.
  induction f as [|f IH]; intros [items tail] anc ts ix s s' v Hok Hpl Hc Htk S0 Hlen Hs Ee Hfi;
    [contradiction Hs; reflexivity|].
  assert (Hflat : flat_ok items tail -> (forall cs, tail <> TCmds cs) ->
                  denote_level (S f) (Level items tail) anc ts = Accept v).
  { intros Hf Hnc. cbn [denote_level] in Hs.
    destruct (scan items anc tail ts) as [a|a sub rest| |] eqn:Sc.
    - exact (level_sound_flat env n items anc tail ts ix s s' v a f Hf S0 Hlen Sc Ee Hfi).
    - exfalso. eapply (scan_not_cmd items anc tail _ Hnc _ (le_n _)). exact Sc.
    - exfalso. eapply flat_reject_false; eauto.
    - contradiction Hs; reflexivity. }
  destruct tail as [|ps|cs]; [apply Hflat; [exact Hok|discriminate]|apply Hflat; [exact Hok|discriminate]|]. clear Hflat.
  cbn [tree_ok] in Hok. destruct Hok as (Hne & Hdis & Hnames & Hlen1 & Hsubs & Huniq & Hcross).
  cbn [plain_cmds] in Hpl.
  (* the compiled parser: the items, then the alternative of commands *)
  cbn [compile] in Ee. rewrite compile_cmds_list in Ee.
  destruct (cs_list cs) as [|t0 more] eqn:Ecs; [destruct cs; [contradiction|discriminate]|].
  cbn [map] in Ee. set (alt := fold_left POr (map mkcmd more) (mkcmd t0)) in *.
  assert (Efields : exists p1 p2 r, map compile_item items ++ [alt] = p1 :: p2 :: r).
  { destruct items as [|i1 it']; [cbn in Hlen1; lia|]. cbn [map app]. destruct (map compile_item it' ++ [alt]) as [|p2 r] eqn:E.
    - destruct (map compile_item it'); discriminate.
    - eauto. }
  destruct Efields as (p1 & p2 & r & Ef). rewrite Ef in Ee. cbn [plist_of] in Ee. rewrite eval_PCon_many in Ee.
  change (PCons p1 (PCons p2 (plist_of r))) with (plist_of (p1 :: p2 :: r)) in Ee. rewrite <- Ef in Ee.
  rewrite evals_plist, map_app in Ee. cbn [map] in Ee. unfold con_body, con_reset in Ee.
  match type of Ee with context [con_go ?a ?b ?c ?d ?e ?g] => destruct (con_go a b c d e g) as [rr sx] eqn:Eg end.
  inversion Ee; subst rr. clear Ee.
  destruct (con_go_inv n _ _ (eval env alt) (items_sim env n items Hnames) s _ true [] v sx S0 Eg)
    as (vs & lk & sk & vc & s'' & Ea & Sk & Ev & Hv).
  cbn [rev app] in Hv.
  (* which command was entered *)
  destruct (fold_or_ok env (map mkcmd more) (mkcmd t0) sk vc s'' Ev) as (q & sq & Hq & Eq).
  assert (Hqt : exists tq, In tq (cs_list cs) /\ q = mkcmd tq).
  { rewrite Ecs. destruct Hq as [<-|Hq]; [exists t0; split; [left; reflexivity|reflexivity]|].
    apply in_map_iff in Hq. destruct Hq as (tq & <- & Hin). exists tq. split; [right; exact Hin|reflexivity]. }
  destruct Hqt as (tq & Htq & ->).
  destruct tq as [[nameq aliasesq] subq]. cbn [mkcmd] in Eq.
  destruct (plain_cs_in cs _ Hpl Htq) as [Hplq Hplsub]. cbn [fst snd] in Hplq, Hplsub.
  (* the first token the named fields leave must be this command's name *)
  assert (Hhead : exists h a rest_lk w', lk = (h, a) :: rest_lk /\ cmd_word a = Some w' /\ mem_bytes w' (nameq :: aliasesq) = true).
  { destruct lk as [|[h a] rest_lk].
    - exfalso. eapply (cmd_nohit env n nameq aliasesq (compile subq) sk [] vc sq Sk I). exact Eq.
    - destruct (cmd_word a) as [w'|] eqn:Ew.
      + destruct (mem_bytes w' (nameq :: aliasesq)) eqn:Mw; [eauto 8|].
        exfalso. eapply (cmd_nohit env n nameq aliasesq (compile subq) sk _ vc sq Sk); [|exact Eq].
        intros w0 Hw0. rewrite Ew in Hw0. inversion Hw0; subst. exact Mw.
      + exfalso. eapply (cmd_nohit env n nameq aliasesq (compile subq) sk _ vc sq Sk); [|exact Eq].
        intros w0 Hw0. rewrite Ew in Hw0. discriminate. }
  destruct Hhead as (h & a & rest_lk & w' & Elk & Ew & Mw).
  (* the list after the fields is an ascending filter of the line *)
  destruct (arun_filt _ (item_filt_all (S (S n)) items) _ _ _ Ea) as [g Eg'].
  assert (Alk : asc lk) by (rewrite Eg'; apply asc_filter, asc_live_from).
  cbn [denote_level] in Hs |- *.
  destruct (scan items anc (TCmds cs) ts) as [a0|a0 sub rest| |] eqn:Sc.
  - (* no command word on the line *)
    exfalso.
    pose proof (scan_done_cmd items anc cs _ ts (le_n _) ix a0 Sc) as (W & Ho & Hu & Hr).
    set (tp := tag_from ix ts (at_roles a0)) in *.
    assert (Hg : Good tp [] lk).
    { eapply (items_good items Hdis ix tp W []); [apply incl_refl| |exact Ea].
      rewrite <- Hu. rewrite <- (app_nil_r (untag tp)). apply (good_init items ix); [exact W|].
      rewrite app_nil_r, Hu. apply live_from_uniq. }
    assert (Hin : In (h, a) (untag tp)).
    { destruct Hg as (_ & I & _). specialize (I (h, a)). rewrite Elk in I. specialize (I (or_introl eq_refl)).
      unfold l0 in I. rewrite app_nil_r in I. exact I. }
    assert (Htokp : forall x, In x tp -> key_os_ok (snd (fst x))).
    { intros x Hx. assert (Hx' : In (fst x) (untag tp)) by (unfold untag; apply in_map; exact Hx).
      rewrite Hu in Hx'. apply live_from_tok in Hx'. unfold toks_ok in Htk. rewrite Forall_forall in Htk. apply (Htk _ Hx'). }
    pose proof (head_prefix_not_cmd items ix tp W Hr Htokp [] lk h a rest_lk (nameq :: aliasesq) w' Hg Elk Alk Hin Hplq Ew) as F.
    congruence.
  - (* the scan stopped at a command word *)
    destruct (scan_cmd_wf items anc cs _ ts (le_n _) ix a0 sub rest Sc) as (pre & w & -> & Hfc & W & Ho & Hu & Hr).
    rewrite find_cmd_list in Hfc.
    destruct (find (cmatch w) (cs_list cs)) as [tm|] eqn:Ff; [|discriminate]. cbn in Hfc. inversion Hfc; subst sub. clear Hfc.
    destruct (find_some _ _ Ff) as [Htm Mtm].
    assert (Hoksub : tree_ok (snd tm)) by (eapply tree_ok_cs_in; eauto).
    assert (Hcsub : cross (anc ++ items) (snd tm)).
    { intros it it' a1 Hit Hit' M M'. apply in_app_or in Hit'. destruct Hit' as [Hit'|Hit'].
      - apply (Hc it it' a1); auto. cbn [all_items]. apply in_or_app. right. apply (cs_list_items cs tm Htm). exact Hit.
      - apply (Hcross it' it a1 Hit'); auto. apply (cs_list_items cs tm Htm). exact Hit. }
    assert (Hsub_spec : denote_level f (snd tm) (anc ++ items) rest <> Unspecified).
    { intros E. rewrite E in Hs. apply Hs. reflexivity. }
    pose proof (spec_free f (snd tm) (anc ++ items) rest Hoksub Hcsub Hsub_spec) as Hfree.
    set (tp := tag_from ix pre (at_roles a0)) in *.
    set (j := ix + length pre).
    set (F := foreign_tag (live_from j ((Word w, false) :: rest))).
    assert (Hinert : forall b, In (b, false) ((Word w, false) :: rest) -> inert items b).
    { intros b [E|Hb] it Hit.
      - inversion E; subst b. reflexivity.
      - apply (Hfree b Hb it). apply in_or_app. right. exact Hit. }
    assert (WFf : WF items j F) by (apply WF_foreign_live; exact Hinert).
    assert (Hub : forall x, In x (untag tp) -> fst x < j).
    { intros x Hx. rewrite Hu in Hx. apply live_from_ub in Hx. exact Hx. }
    assert (W0 : WF items ix (tp ++ F)) by (apply (WF_app items ix j); [exact W|unfold j; lia|exact Hub|exact WFf]).
    assert (Hlive : live_from ix (pre ++ (Word w, false) :: rest) = untag (tp ++ F)).
    { rewrite live_from_app. unfold untag. rewrite map_app. fold (untag tp). fold (untag F). rewrite Hu.
      unfold F. rewrite untag_foreign. reflexivity. }
    assert (Ho0 : occs_of (tp ++ F) = at_occ a0).
    { unfold F. rewrite (occs_app_foreign items ix tp _ j W ltac:(unfold j; lia) Hub WFf). exact Ho. }
    assert (Hl0 : length (tp ++ F) < S (S n)).
    { rewrite <- (untag_length (tp ++ F)), <- Hlive. pose proof (live_from_le (pre ++ (Word w, false) :: rest) ix). lia. }
    assert (HuF : untag F = (j, Word w) :: live_from (S j) rest).
    { unfold F. rewrite untag_foreign. reflexivity. }
    pose proof Ea as Ea'. rewrite Hlive in Ea'. rewrite <- (filter_keep_0 (tp ++ F)) in Ea'.
    destruct (items_arun_inv items Hdis (S (S n)) ix (tp ++ F) W0 Hl0 items 0 vs lk (fun p it H => H) Ea')
      as [[Hvs Elk']|(x & it & Hx & Hit & Mx)].
    + (* the fields took exactly their occurrences: the command word stands first *)
      cbn [Nat.add] in Elk'. rewrite filter_app, (filter_prefix_gone items ix tp W Hr) in Elk'.
      unfold F in Elk'. rewrite filter_keep_foreign in Elk'. cbn [app] in Elk'. rewrite untag_foreign in Elk'.
      cbn [live_from app] in Elk'. fold j in Elk'.
      rewrite Elk' in Elk. inversion Elk; subst h a rest_lk. cbn [cmd_word] in Ew. inversion Ew; subst w'. clear Ew Elk.
      assert (Etm : tm = (nameq, aliasesq, subq)).
      { pose proof (find_first_unique w (cs_list cs) (nameq, aliasesq, subq)) as Hfu.
        rewrite Ecs in Hfu at 1. specialize (Hfu (Huniq w)). specialize (Hfu Htq Mw). congruence. }
      subst tm. cbn [snd] in *.
      rewrite Elk' in Sk.
      destruct (cmd_inv env n nameq aliasesq (compile subq) sk j w _ vc sq Sk Mw Eq) as (s3 & s4 & S3 & E4 & F4).
      assert (Hrest : toks_ok rest).
      { apply toks_ok_app in Htk. destruct Htk as [_ Htk]. inversion Htk; assumption. }
      assert (Hlr : length rest <= n) by (rewrite app_length in Hlen; cbn in Hlen; lia).
      pose proof (IH subq (anc ++ items) rest (S j) s3 s4 vc Hoksub Hplsub Hcsub Hrest S3 Hlr Hsub_spec E4 F4) as Hsubv.
      rewrite Hsubv. rewrite <- Ho0, Hvs. rewrite Hv. reflexivity.
    + (* a field left one of its keys behind: it stands before the command word, so no command is entered *)
      exfalso.
      assert (Hg : Good tp (untag F) lk).
      { assert (Huapp : untag (tp ++ F) = untag tp ++ untag F) by (unfold untag; apply map_app).
        eapply (items_good items Hdis ix tp W (untag F)); [apply incl_refl| |exact Ea].
        rewrite Hlive, Huapp. apply (good_init items ix); [exact W|].
        rewrite <- Huapp, <- Hlive. apply live_from_uniq. }
      assert (Hincl : incl lk (untag tp ++ untag F)) by (destruct Hg as (_ & I & _); exact I).
      assert (HxT : In x (untag tp)).
      { apply Hincl in Hx. apply in_app_or in Hx. destruct Hx as [Hx|Hx]; [exact Hx|].
        exfalso. rewrite HuF in Hx. fold (live_from j ((Word w, false) :: rest)) in Hx.
        assert (Hb : In (snd x, false) ((Word w, false) :: rest)).
        { change ((j, Word w) :: live_from (S j) rest) with (live_from j ((Word w, false) :: rest)) in Hx.
          apply live_from_tok in Hx. exact Hx. }
        rewrite (Hinert _ Hb it Hit) in Mx. discriminate. }
      assert (Hhj : h < j).
      { apply Hub in HxT. rewrite Elk in Hx, Alk. destruct Hx as [E|Hx]; [subst x; exact HxT|].
        destruct Alk as [Hmin _]. apply Hmin in Hx. cbn in Hx. lia. }
      assert (Hin : In (h, a) (untag tp)).
      { assert (Hh : In (h, a) lk) by (rewrite Elk; left; reflexivity).
        apply Hincl in Hh. apply in_app_or in Hh. destruct Hh as [Hh|Hh]; [exact Hh|].
        exfalso. rewrite HuF in Hh. change ((j, Word w) :: live_from (S j) rest) with (live_from j ((Word w, false) :: rest)) in Hh.
        apply live_from_lb in Hh. cbn in Hh. lia. }
      assert (Htokp : forall y, In y tp -> key_os_ok (snd (fst y))).
      { intros y Hy. assert (Hy' : In (fst y) (untag tp)) by (unfold untag; apply in_map; exact Hy).
        rewrite Hu in Hy'. apply live_from_tok in Hy'. apply toks_ok_app in Htk. destruct Htk as [Htk _].
        unfold toks_ok in Htk. rewrite Forall_forall in Htk. apply (Htk _ Hy'). }
      pose proof (head_prefix_not_cmd items ix tp W Hr Htokp (untag F) lk h a rest_lk (nameq :: aliasesq) w' Hg Elk Alk Hin Hplq Ew) as Fm.
      congruence.
  - (* the scan rejected a token: it is still there when the alternative runs *)
    exfalso.
    destruct (scan_reject_cmd items anc cs _ ts (le_n _) ix Sc) as (pre & x & rest & a' & -> & Hgood & Hh).
    pose proof Hgood as (W & Ho & Hu & Hr).
    pose proof (reject_stuck items cs Hdis ix pre a' x rest Hgood Hh) as St. cbn zeta in St.
    set (tp := tag_from ix pre (at_roles a')) in *. set (c := ix + length pre) in *.
    assert (Hlive : live_from ix (pre ++ (x, false) :: rest) = untag tp ++ (c, x) :: live_from (S c) rest).
    { rewrite live_from_app. cbn [live_from app]. rewrite Hu. reflexivity. }
    assert (Hub : forall y, In y (untag tp) -> fst y < c).
    { intros y Hy. rewrite Hu in Hy. apply live_from_ub in Hy. exact Hy. }
    assert (Hxk : In (c, x) lk).
    { pose proof (arun_acon _ _ _ _ [] Ea) as Hac.
      pose proof (stuck_survives items Hdis (S (S n)) TNone (c, x) (live_from ix (pre ++ (x, false) :: rest)) [] None
                    (fun cs0 E => ltac:(discriminate)) (live_from_uniq _ ix)) as Hsv.
      cbn [tail_fields] in Hsv. rewrite app_nil_r in Hsv. rewrite Hac in Hsv. cbn [snd] in Hsv.
      apply Hsv; rewrite Hlive; [apply in_or_app; right; left; reflexivity|exact St]. }
    assert (Hg : Good tp ((c, x) :: live_from (S c) rest) lk).
    { eapply (items_good items Hdis ix tp W); [apply incl_refl| |exact Ea].
      rewrite Hlive. apply (good_init items ix); [exact W|]. rewrite <- Hlive. apply live_from_uniq. }
    assert (Hincl : incl lk (untag tp ++ (c, x) :: live_from (S c) rest)) by (destruct Hg as (_ & I & _); exact I).
    assert (Htokp : forall y, In y tp -> key_os_ok (snd (fst y))).
    { intros y Hy. assert (Hy' : In (fst y) (untag tp)) by (unfold untag; apply in_map; exact Hy).
      rewrite Hu in Hy'. apply live_from_tok in Hy'. apply toks_ok_app in Htk. destruct Htk as [Htk _].
      unfold toks_ok in Htk. rewrite Forall_forall in Htk. apply (Htk _ Hy'). }
    assert (Hh0 : In (h, a) lk) by (rewrite Elk; left; reflexivity).
    pose proof (Hincl _ Hh0) as Hh1. apply in_app_or in Hh1. destruct Hh1 as [Hh1|Hh1].
    + pose proof (head_prefix_not_cmd items ix tp W Hr Htokp _ lk h a rest_lk (nameq :: aliasesq) w' Hg Elk Alk Hh1 Hplq Ew) as Fm.
      congruence.
    + (* the head is the rejected token itself *)
      assert (Hhc : h = c).
      { assert (c <= h).
        { destruct Hh1 as [E|Hh1]; [inversion E; lia|]. apply live_from_lb in Hh1. cbn in Hh1. lia. }
        rewrite Elk in Hxk, Alk. destruct Hxk as [E|Hxk]; [inversion E; reflexivity|].
        destruct Alk as [Hmin _]. apply Hmin in Hxk. cbn in Hxk. lia. }
      subst h.
      assert (a = x).
      { destruct Hg as (U & _ & _). assert (E : (c, a) = (c, x)) by (apply (uniq_same lk); auto). inversion E. reflexivity. }
      subst a.
      assert (Kox : key_os_ok x).
      { apply toks_ok_app in Htk. destruct Htk as [_ Htk]. inversion Htk; assumption. }
      destruct Hh as [Kx Fo|k it Kx Fo Ia Hnv|w0 -> Fc|w0 ->|w0 ->].
      * pose proof (key_not_cmd x w' (nameq :: aliasesq) Kx Kox Hplq Ew). congruence.
      * pose proof (key_not_cmd x w' (nameq :: aliasesq) Kx Kox Hplq Ew). congruence.
      * cbn [cmd_word] in Ew. inversion Ew; subst w'. rewrite find_cmd_list in Fc.
        destruct (find (cmatch w0) (cs_list cs)) eqn:Ff; [discriminate|].
        pose proof (find_none_cmatch w0 _ (nameq, aliasesq, subq) Ff Htq) as Fn. cbn [cmatch] in Fn. congruence.
      * discriminate.
      * discriminate.
  - contradiction Hs. reflexivity.
Qed.
End Main.

(* ------------------------------------------------------------------ whole runs *)
Lemma mark_go_toks mk its : forall ix, Forall key_os_ok its -> toks_ok (mark_go mk its ix).
Proof.
  induction its as [|a t IH]; intros ix H; cbn [mark_go]; [constructor|].
  inversion H; subst. constructor; [assumption|apply IH; assumption].
Qed.

(* C01, the converse for whole subcommand trees *)
Theorem denote_sound_tree feat env l argv v :
  tree_ok l -> plain_cmds l = true ->
  denote l argv <> Unspecified ->
  run_inner feat env (compile_options l) None argv = OutOk v ->
  denote l argv = Accept v.
Proof.
  intros Hok Hpl Hs Hr.
  unfold denote in Hs |- *. unfold run_inner, run_inner_state, initial_state in Hr.
  destruct (short_tables (compile_options l)) as [sf sa].
  pose proof (construct_sim sf sa None argv) as S0. cbn zeta in S0.
  pose proof (construct_amb sf sa None argv) as Hamb.
  pose proof (tokenize_os_ok sf sa argv) as Hos.
  set (t := tokenize sf sa argv) in *.
  destruct (construct sf sa None argv) as [s0 amb0]. cbn [fst snd] in S0, Hamb. subst amb0.
  destruct (t_ambiguity t) as [amb|] eqn:Ea; [contradiction Hs; reflexivity|].
  assert (Hlen : length (mark_tokens t) = length (t_items t)) by (unfold mark_tokens; apply mark_go_length).
  unfold compile_options in Hr. rewrite run_sub_eq in Hr.
  destruct (eval env (compile l) s0) as [r s1] eqn:Ee.
  apply run_sub_body_ok in Hr. destruct Hr as [-> Hfi].
  apply (tree_sound env (length (t_items t)) _ l [] (mark_tokens t) 0 s0 s1 v Hok Hpl); auto.
  - intros it it' a _ [].
  - unfold mark_tokens. apply mark_go_toks. exact Hos.
  - lia.
Qed.

(* both directions: on every vector the grammar specifies, Ok v exactly for the sentences denoting v *)
Theorem denote_complete_tree feat env l argv v :
  tree_ok l -> plain_cmds l = true -> denote l argv <> Unspecified ->
  (denote l argv = Accept v <-> run_inner feat env (compile_options l) None argv = OutOk v).
Proof.
  intros Hok Hpl Hs. split; [apply denote_accept_tree; exact Hok|apply denote_sound_tree; assumption].
Qed.

Corollary denote_reject_tree feat env l argv :
  tree_ok l -> plain_cmds l = true -> denote l argv = Reject ->
  forall v, run_inner feat env (compile_options l) None argv <> OutOk v.
Proof.
  intros Hok Hpl Hd v Hr.
  assert (Hs : denote l argv <> Unspecified) by (rewrite Hd; discriminate).
  rewrite (denote_sound_tree feat env l argv v Hok Hpl Hs Hr) in Hd. discriminate.
Qed.
Print Assumptions denote_complete_tree.
Print Assumptions denote_reject_tree.
