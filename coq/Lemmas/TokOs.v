(* TokOs.v -- what the tokenizer records as the original text of a key token (`-x`, `--name`):
   the command-line item it came from, which starts with a dash, or nothing (later members of a
   cluster of short flags).  A command name is compared with that text, so a key token is never
   taken for a command whose name is non-empty and does not start with a dash. *)
From Coq Require Import Lia List Bool NArith.
From BpafModel Require Import Tokenize.
Import ListNotations.

Definition dash_or_nil (os : bytes) : Prop := os = [] \/ exists t, os = c_dash :: t.

Definition key_os_ok (a : arg) : Prop :=
  match a with Short _ _ os | Long _ _ os => dash_or_nil os | _ => True end.

Lemma split_dash os r : split_os_argument os = Some r -> exists t, os = c_dash :: t.
Proof.
  unfold split_os_argument. destruct os as [|d0 [|second rest]]; try discriminate.
  destruct (negb (d0 =? c_dash)%N) eqn:E; [discriminate|]. intros _.
  apply negb_false_iff in E. apply N.eqb_eq in E. subst d0. eauto.
Qed.

Lemma dis_go_ok sf sa os cs : forall first ff acc,
  dash_or_nil os -> dash_or_nil ff -> Forall key_os_ok acc ->
  match dis_go sf sa os cs first ff acc with DisOk l | DisAmbig l => Forall key_os_ok l end.
Proof.
  induction cs as [|c rest IH]; intros first ff acc Ho Hf Ha; cbn [dis_go].
  - apply Forall_rev. exact Ha.
  - destruct (first && is_nil rest).
    + apply Forall_rev. constructor; [exact Hf|exact Ha].
    + destruct (mem_N c sf), (mem_N c sa).
      * apply Forall_rev. constructor; [exact I|exact Ha].
      * apply IH; [exact Ho|left; reflexivity|constructor; [exact Hf|exact Ha]].
      * destruct (negb (is_nil rest)); apply Forall_rev.
        -- constructor; [exact I|]. constructor; [exact Ho|exact Ha].
        -- constructor; [exact Ho|exact Ha].
      * constructor; [exact I|constructor].
Qed.

Lemma tok_go_ok sf sa argv : forall pos_only acc marker,
  Forall key_os_ok acc -> Forall key_os_ok (t_items (tok_go sf sa argv pos_only acc marker)).
Proof.
  induction argv as [|os more IH]; intros pos_only acc marker Ha; cbn [tok_go].
  - cbn. apply Forall_rev. exact Ha.
  - destruct pos_only; [apply IH; constructor; [exact I|exact Ha]|].
    destruct (split_os_argument os) as [[[ty nm] body]|] eqn:E.
    + destruct (split_dash os _ E) as [t Et].
      assert (Ho : dash_or_nil os) by (right; eauto).
      destruct ty; destruct body as [body|].
      * destruct (utf8_decode nm) as [[|c cs]|]; try (cbn; apply Forall_rev; exact Ha).
        apply IH. constructor; [exact I|]. constructor; [exact Ho|exact Ha].
      * destruct (utf8_decode nm) as [cs|]; [|cbn; apply Forall_rev; exact Ha].
        pose proof (dis_go_ok sf sa os cs true os [] Ho Ho (Forall_nil _)) as Hd.
        unfold disambiguate_short. destruct (dis_go sf sa os cs true os []) as [l|l].
        -- apply IH. apply Forall_app. split; [apply Forall_rev; exact Hd|exact Ha].
        -- cbn. apply Forall_rev. apply Forall_app. split; [apply Forall_rev; exact Hd|exact Ha].
      * apply IH. constructor; [exact I|]. constructor; [exact Ho|exact Ha].
      * apply IH. constructor; [exact Ho|exact Ha].
    + destruct (beqb os dashdash); apply IH; constructor; try exact I; exact Ha.
Qed.

Theorem tokenize_os_ok sf sa argv : Forall key_os_ok (t_items (tokenize sf sa argv)).
Proof. apply tok_go_ok. constructor. Qed.
