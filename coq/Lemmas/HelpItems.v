(* HelpItems.v -- the items --help lists are exactly the visible leaves of the command level (C12).
   `vis p` is an independent, direct specification of what a user can pass at this level and is
   meant to be documented; the theorem says the item list computed from the metadata
   (Parser::meta, then HelpItems::append_meta) contains exactly those, in order, plus structural
   markers (group / adjacent-block delimiters and suffixes). *)
From Coq Require Import Lia List Bool NArith.
From BpafModel Require Import Help Eval.
From BpafLemmas Require Import Reach.
Import ListNotations.

(* ------------------------------------------------------------------ induction on metadata trees *)
Section MetaInd.
Variable P : meta -> Prop.
Hypothesis HAnd : forall xs, Forall P xs -> P (MAnd xs).
Hypothesis HOr : forall xs, Forall P xs -> P (MOr xs).
Hypothesis HOpt : forall m, P m -> P (MOptional m).
Hypothesis HReq : forall m, P m -> P (MRequired m).
Hypothesis HAdj : forall m, P m -> P (MAdjacent m).
Hypothesis HItem : forall i, P (MItem i).
Hypothesis HMany : forall m, P m -> P (MMany m).
Hypothesis HSub : forall m d, P m -> P (MSubsection m d).
Hypothesis HSuf : forall m d, P m -> P (MSuffix m d).
Hypothesis HSkip : P MSkip.
Hypothesis HCu : forall m d, P m -> P (MCustomUsage m d).
Hypothesis HStrict : forall m, P m -> P (MStrict m).

Fixpoint meta_ind' (m : meta) : P m :=
  let go := fix go (xs : list meta) : Forall P xs :=
    match xs with
    | [] => Forall_nil P
    | x :: t => Forall_cons x (meta_ind' x) (go t)
    end in
  match m with
  | MAnd xs => HAnd xs (go xs)
  | MOr xs => HOr xs (go xs)
  | MOptional x => HOpt x (meta_ind' x)
  | MRequired x => HReq x (meta_ind' x)
  | MAdjacent x => HAdj x (meta_ind' x)
  | MItem i => HItem i
  | MMany x => HMany x (meta_ind' x)
  | MSubsection x d => HSub x d (meta_ind' x)
  | MSuffix x d => HSuf x d (meta_ind' x)
  | MSkip => HSkip
  | MCustomUsage x d => HCu x d (meta_ind' x)
  | MStrict x => HStrict x (meta_ind' x)
  end.
End MetaInd.

(* ------------------------------------------------------------------ real entries *)
Definition is_real (h : helpitem) : bool :=
  match h with
  | HAny _ _ _ | HPositional _ _ | HCommand _ _ _ _ _ | HFlag _ _ _ | HArgument _ _ _ _ => true
  | _ => false
  end.
Definition reals (l : list helpitem) : list helpitem := filter is_real l.

Lemma reals_app a b : reals (a ++ b) = reals a ++ reals b.
Proof. apply filter_app. Qed.

(* the list version of append_go used for And / Or *)
Fixpoint append_all (xs : list meta) (no_ss : bool) (acc : list helpitem) : list helpitem :=
  match xs with
  | [] => acc
  | x :: t => append_all t no_ss (append_go x no_ss acc)
  end.

Lemma append_go_and xs b acc : append_go (MAnd xs) b acc = append_all xs b acc.
Proof. cbn. revert acc. induction xs as [|x t IH]; intros acc; cbn; [reflexivity|apply IH]. Qed.
Lemma append_go_or xs b acc : append_go (MOr xs) b acc = append_all xs b acc.
Proof. cbn. revert acc. induction xs as [|x t IH]; intros acc; cbn; [reflexivity|apply IH]. Qed.

(* the accumulator is only appended to *)
Lemma append_go_acc m : forall b acc, append_go m b acc = acc ++ append_go m b [].
Proof.
  induction m using meta_ind'; intros b acc.
  - rewrite !append_go_and. revert acc. induction H as [|x t Hx Ht IH]; intros acc; cbn.
    + rewrite app_nil_r. reflexivity.
    + rewrite IH. rewrite (IH (append_go x b [])). rewrite (Hx b acc). rewrite app_assoc. reflexivity.
  - rewrite !append_go_or. revert acc. induction H as [|x t Hx Ht IH]; intros acc; cbn.
    + rewrite app_nil_r. reflexivity.
    + rewrite IH. rewrite (IH (append_go x b [])). rewrite (Hx b acc). rewrite app_assoc. reflexivity.
  - cbn. apply IHm.
  - cbn. apply IHm.
  - cbn. destruct (peek_front_ty m); [|rewrite app_nil_r; reflexivity].
    rewrite IHm. rewrite (IHm b [HAnywhereStart m h]). rewrite <- !app_assoc. reflexivity.
  - cbn. destruct i as [mv a h|mv [h|]|n s h mm ii|n sh e h|n sh mv e h]; cbn; rewrite ?app_nil_r; reflexivity.
  - cbn. apply IHm.
  - cbn. destruct (peek_front_ty m); [|rewrite app_nil_r; reflexivity].
    destruct b.
    + apply IHm.
    + rewrite IHm. rewrite (IHm true [HGroupStart d h]). rewrite <- !app_assoc. reflexivity.
  - cbn. destruct (peek_front_ty m); [|rewrite app_nil_r; reflexivity].
    rewrite IHm. rewrite <- app_assoc. reflexivity.
  - cbn. rewrite app_nil_r. reflexivity.
  - cbn. apply IHm.
  - cbn. apply IHm.
Qed.

Lemma append_all_acc xs b acc : append_all xs b acc = acc ++ append_all xs b [].
Proof.
  revert acc. induction xs as [|x t IH]; intros acc; cbn; [rewrite app_nil_r; reflexivity|].
  rewrite IH. rewrite (IH (append_go x b [])). rewrite (append_go_acc x b acc). rewrite app_assoc. reflexivity.
Qed.

(* the real entries of a metadata tree, computed directly *)
Fixpoint meta_items (m : meta) : list helpitem :=
  let all := fix all (xs : list meta) : list helpitem :=
    match xs with [] => [] | x :: t => meta_items x ++ all t end in
  match m with
  | MAnd xs | MOr xs => all xs
  | MOptional x | MRequired x | MAdjacent x | MMany x | MSubsection x _ | MSuffix x _
  | MCustomUsage x _ | MStrict x => meta_items x
  | MItem (IPositional _ None) => []
  | MItem i => [helpitem_of i]
  | MSkip => []
  end.

Fixpoint meta_items_all (xs : list meta) : list helpitem :=
  match xs with [] => [] | x :: t => meta_items x ++ meta_items_all t end.
Lemma meta_items_and xs : meta_items (MAnd xs) = meta_items_all xs.
Proof. cbn. induction xs as [|x t IH]; cbn; [reflexivity|rewrite IH; reflexivity]. Qed.
Lemma meta_items_or xs : meta_items (MOr xs) = meta_items_all xs.
Proof. cbn. induction xs as [|x t IH]; cbn; [reflexivity|rewrite IH; reflexivity]. Qed.

Fixpoint peek_first (xs : list meta) : option hity :=
  match xs with
  | [] => None
  | x :: t => match peek_front_ty x with Some ty => Some ty | None => peek_first t end
  end.
Lemma peek_and xs : peek_front_ty (MAnd xs) = peek_first xs.
Proof. cbn. induction xs as [|x t IH]; cbn; [reflexivity|]. destruct (peek_front_ty x); [reflexivity|exact IH]. Qed.
Lemma peek_or xs : peek_front_ty (MOr xs) = peek_first xs.
Proof. cbn. induction xs as [|x t IH]; cbn; [reflexivity|]. destruct (peek_front_ty x); [reflexivity|exact IH]. Qed.

(* no front type = nothing to list.  NOTE the exception built into the code: a positional item
   without help text has a type but no entry, so the converse does not hold. *)
Lemma peek_none_no_items m : peek_front_ty m = None -> meta_items m = [].
Proof.
  induction m using meta_ind'; intros Hp; try (cbn in *; auto; fail).
  - rewrite peek_and in Hp. rewrite meta_items_and.
    induction H as [|x t Hx Ht IH]; cbn in *; [reflexivity|].
    destruct (peek_front_ty x) eqn:E; [discriminate|]. rewrite (Hx eq_refl). cbn. apply IH. exact Hp.
  - rewrite peek_or in Hp. rewrite meta_items_or.
    induction H as [|x t Hx Ht IH]; cbn in *; [reflexivity|].
    destruct (peek_front_ty x) eqn:E; [discriminate|]. rewrite (Hx eq_refl). cbn. apply IH. exact Hp.
  - cbn in Hp. discriminate.
Qed.

(* the real entries collected by append_meta are exactly meta_items, whatever the group flag *)
Theorem reals_append_go m : forall b, reals (append_go m b []) = meta_items m.
Proof.
  induction m using meta_ind'; intros b.
  - rewrite append_go_and, meta_items_and.
    induction H as [|x t Hx Ht IH]; cbn; [reflexivity|].
    rewrite append_all_acc, reals_app, Hx, IH. reflexivity.
  - rewrite append_go_or, meta_items_or.
    induction H as [|x t Hx Ht IH]; cbn; [reflexivity|].
    rewrite append_all_acc, reals_app, Hx, IH. reflexivity.
  - cbn. apply IHm.
  - cbn. apply IHm.
  - cbn. destruct (peek_front_ty m) eqn:E.
    + rewrite append_go_acc, !reals_app, IHm. cbn. rewrite app_nil_r. reflexivity.
    + symmetry. apply peek_none_no_items. exact E.
  - destruct i as [mv a h|mv [h|]|n s h mm ii|n sh e h|n sh mv e h]; reflexivity.
  - cbn. apply IHm.
  - cbn. destruct (peek_front_ty m) eqn:E.
    + destruct b; [apply IHm|].
      rewrite append_go_acc, !reals_app, IHm. cbn. rewrite app_nil_r. reflexivity.
    + symmetry. apply peek_none_no_items. exact E.
  - cbn. destruct (peek_front_ty m) eqn:E.
    + rewrite reals_app, IHm. cbn. rewrite app_nil_r. reflexivity.
    + symmetry. apply peek_none_no_items. exact E.
  - reflexivity.
  - cbn. apply IHm.
  - cbn. apply IHm.
Qed.

(* ------------------------------------------------------------------ visible leaves of a parser *)
Definition opt_list {A} (o : option A) : list A := match o with Some x => [x] | None => [] end.

Fixpoint vis (p : parser) {struct p} : list helpitem :=
  match p with
  | PFlag n _ _ => map helpitem_of (opt_list (flag_item n))
  | PArg n mv _ _ => map helpitem_of (opt_list (arg_item n mv))
  | PPos mv _ _ help => match help with Some _ => [HPositional mv help] | None => [] end
  | PAny mv help _ anywhere => [HAny mv anywhere help]
  | PCmd name _ shorts help _ sub => [HCommand name (hd_error shorts) help (ometa_of sub) (oinfo_of sub)]
  | PCon fields | PAdj fields => lvis fields
  | POr a b => vis a ++ vis b
  | POptional q _ | PMany q _ | PSome q _ _ | PCollect q _ | PCount q | PLast q
  | PFallback q _ _ | PFallbackWith q _ _ | PGuard q _ _ | PParse q _ | PMap q _
  | PUsage q _ | PGroupHelp q _ | PBoxed q => vis q
  | PHide _ => []                                  (* hidden: never listed *)
  | PPure _ | PPureWith _ | PFail _ => []
  end
with lvis (ps : plist) {struct ps} : list helpitem :=
  match ps with
  | PNil => []
  | PCons q t => vis q ++ lvis t
  end.

Lemma meta_items_alts m : meta_items_all (alts m) = meta_items m.
Proof.
  destruct m; cbn; rewrite ?app_nil_r; try reflexivity;
    try (induction xs as [|x t IH]; cbn; [reflexivity|rewrite IH; reflexivity]).
Qed.

Lemma meta_items_all_app a b : meta_items_all (a ++ b) = meta_items_all a ++ meta_items_all b.
Proof. induction a as [|x t IH]; cbn; [reflexivity|rewrite IH, app_assoc; reflexivity]. Qed.

Lemma meta_items_or_meta a b : meta_items (meta_or a b) = meta_items a ++ meta_items b.
Proof.
  unfold meta_or. rewrite <- (meta_items_alts a), <- (meta_items_alts b), <- meta_items_all_app.
  destruct (alts a ++ alts b) as [|x [|y t]] eqn:E.
  - reflexivity.
  - cbn. rewrite app_nil_r. reflexivity.
  - rewrite meta_items_or. reflexivity.
Qed.

Lemma meta_items_with_suffix m shown : meta_items (with_suffix m shown) = meta_items m.
Proof. unfold with_suffix. destruct (is_nil shown); reflexivity. Qed.

Theorem meta_items_vis_all :
  (forall p, meta_items (meta_of p) = vis p) /\
  (forall ps, meta_items_all (metas_of ps) = lvis ps /\ meta_items (con_meta ps) = lvis ps) /\
  (forall o : oparser, True).
Proof.
  apply parser_plist_oparser_ind; intros; cbn [vis lvis]; try exact I.
  - cbn [meta_of]. unfold flag_item. destruct (shortlong_of n) as [sl|]; cbn; [|reflexivity].
    destruct absent; reflexivity.
  - cbn [meta_of]. unfold arg_item. destruct (shortlong_of n) as [sl|]; reflexivity.
  - cbn [meta_of]. destruct pos; destruct help; reflexivity.
  - reflexivity.
  - reflexivity.
  - cbn [meta_of]. apply H.
  - cbn [meta_of]. cbn [meta_items]. apply H.
  - cbn [meta_of]. rewrite meta_items_or_meta, H, H0. reflexivity.
  - cbn [meta_of meta_items]. exact H.
  - cbn [meta_of meta_items]. exact H.
  - cbn [meta_of meta_items]. exact H.
  - cbn [meta_of meta_items]. exact H.
  - cbn [meta_of meta_items]. exact H.
  - cbn [meta_of meta_items]. exact H.
  - cbn [meta_of]. rewrite meta_items_with_suffix. exact H.
  - cbn [meta_of]. rewrite meta_items_with_suffix. exact H.
  - cbn [meta_of]. exact H.
  - cbn [meta_of]. exact H.
  - cbn [meta_of]. exact H.
  - reflexivity.
  - cbn [meta_of meta_items]. exact H.
  - cbn [meta_of meta_items]. exact H.
  - reflexivity.
  - reflexivity.
  - reflexivity.
  - cbn [meta_of]. exact H.
  - split; reflexivity.
  - destruct H0 as [Ha Hc]. split.
    + cbn [metas_of meta_items_all]. rewrite H, Ha. reflexivity.
    + cbn [con_meta]. match goal with |- context [match ?ps with PNil => _ | PCons _ _ => _ end] => destruct ps as [|q2 t] end.
      * cbn [lvis]. rewrite app_nil_r. exact H.
      * rewrite meta_items_and. cbn [meta_items_all]. rewrite H. f_equal. exact Ha.
Qed.

(* C12: the entries collected for --help are exactly the visible leaves, in declaration order *)
Theorem help_items_exact p b : reals (append_go (meta_of p) b []) = vis p.
Proof. rewrite reals_append_go. apply (proj1 meta_items_vis_all). Qed.

(* hide_usage / custom_usage change the usage line only *)
Theorem usage_only q d acc : append_meta acc (meta_of (PUsage q d)) = append_meta acc (meta_of q).
Proof. reflexivity. Qed.

(* group_help adds delimiters, never entries; and does not hide any *)
Theorem group_help_same_entries q d b : reals (append_go (meta_of (PGroupHelp q d)) b []) = vis q.
Proof. rewrite help_items_exact. reflexivity. Qed.

(* a hidden parser contributes nothing *)
Theorem hidden_contributes_nothing q b : append_go (meta_of (PHide q)) b [] = [].
Proof. reflexivity. Qed.

(* every name shown belongs to the parser it came from: the first short and the first long name *)
Theorem shown_flag_name_accepted n it :
  flag_item n = Some it ->
  exists sl sh e h, it = IFlag sl sh e h /\
    match sl with
    | SLShort c => matches_arg n false (Short c false []) = true
    | SLLong l => matches_arg n false (Long l false []) = true
    | SLBoth c l => matches_arg n false (Short c false []) = true /\ matches_arg n false (Long l false []) = true
    end.
Proof.
  unfold flag_item, shortlong_of. intros H.
  destruct (n_short n) as [|c cs] eqn:Es; destruct (n_long n) as [|l ls] eqn:El; inversion H; subst;
    eexists; eexists; eexists; eexists; (split; [reflexivity|]); cbn; rewrite ?Es, ?El; cbn;
      rewrite ?N.eqb_refl; cbn; auto.
  - assert (beqb l l = true) by (clear; induction l; cbn; [reflexivity|rewrite N.eqb_refl; exact IHl]).
    rewrite H0. reflexivity.
  - assert (beqb l l = true) by (clear; induction l; cbn; [reflexivity|rewrite N.eqb_refl; exact IHl]).
    rewrite H0. auto.
Qed.

Definition sl_accepted (n : named) (sl : shortlong) : Prop :=
  match sl with
  | SLShort c => matches_arg n false (Short c false []) = true
  | SLLong l => matches_arg n false (Long l false []) = true
  | SLBoth c l => matches_arg n false (Short c false []) = true /\ matches_arg n false (Long l false []) = true
  end.

Lemma beqb_refl l : beqb l l = true.
Proof. induction l; cbn; [reflexivity|rewrite N.eqb_refl; exact IHl]. Qed.

Lemma shortlong_accepted n sl : shortlong_of n = Some sl -> sl_accepted n sl.
Proof.
  unfold shortlong_of. intros H.
  destruct (n_short n) as [|c cs] eqn:Es; destruct (n_long n) as [|l ls] eqn:El; inversion H; subst;
    cbn; rewrite ?Es, ?El; cbn; rewrite ?N.eqb_refl, ?beqb_refl; cbn; auto.
Qed.

(* the same for arguments: the name shown with the metavariable is one the argument parser takes *)
Theorem shown_arg_name_accepted n mv it :
  arg_item n mv = Some it ->
  exists sl sh e h, it = IArgument sl sh mv e h /\ sl_accepted n sl.
Proof.
  unfold arg_item. intros H. destruct (shortlong_of n) as [sl|] eqn:E; [|discriminate].
  inversion H; subst. do 4 eexists. split; [reflexivity|]. apply shortlong_accepted, E.
Qed.
