(* HelpEntries.v -- what the item lists of --help consist of (C12): every writer of Model/Help.v, applied
   to a document with a CLOSED prefix (one that does not end in a text chunk), leaves the prefix alone and
   appends what it would have written on its own.  Hence the item part of the help document is EXACTLY the
   concatenation, in order, of the entries (`item_doc`) of the items that survive the duplicate filter --
   one definition-list entry per non-duplicate item, nothing in between. *)
From Coq Require Import Lia List Bool NArith.
From BpafModel Require Import Help Eval.
From BpafLemmas Require Import HelpItems HelpOrder.
Import ListNotations.

(* a writer that only looks at the end of the document *)
Definition rel (W : doc -> doc) : Prop := forall e x, closed e -> W (e ++ x) = e ++ W x.

Lemma rel_id : rel (fun d => d).
Proof. intros e x _. reflexivity. Qed.
Lemma rel_comp W1 W2 : rel W1 -> rel W2 -> rel (fun d => W2 (W1 d)).
Proof. intros H1 H2 e x C. rewrite H1, H2 by exact C. reflexivity. Qed.

Lemma rel_dwrite sty s : rel (fun d => dwrite d sty s).
Proof.
  intros e x C. destruct x as [|t x'] using rev_ind.
  - rewrite app_nil_r. unfold dwrite. unfold closed in C. cbn [rev].
    destruct (rev e) as [|[st' s'|b|b] r] eqn:E; try (exfalso; exact C); reflexivity.
  - clear IHx'. unfold dwrite. rewrite app_assoc, !rev_app_distr. cbn [rev app].
    destruct t as [st' s'|b|b]; try (rewrite <- !app_assoc; reflexivity).
    destruct (style_eqb sty st'); [|rewrite <- !app_assoc; reflexivity].
    cbn [rev]. rewrite !rev_app_distr, !rev_involutive. rewrite <- ?app_assoc. reflexivity.
Qed.
Lemma rel_dtok t : rel (fun d => dtok d t).
Proof. intros e x _. unfold dtok. rewrite app_assoc. reflexivity. Qed.
Lemma rel_dchar sty c : rel (fun d => dchar d sty c).
Proof. apply rel_dwrite. Qed.
Lemma rel_ddoc buf : rel (fun d => ddoc d buf).
Proof. intros e x _. unfold ddoc. rewrite <- !app_assoc. reflexivity. Qed.

Ltac rel_step :=
  match goal with
  | |- rel (fun d => dwrite (@?W d) ?sty ?s) => apply (rel_comp W (fun d => dwrite d sty s)); [|apply rel_dwrite]
  | |- rel (fun d => dchar (@?W d) ?sty ?c) => apply (rel_comp W (fun d => dchar d sty c)); [|apply rel_dchar]
  | |- rel (fun d => dtok (@?W d) ?t) => apply (rel_comp W (fun d => dtok d t)); [|apply rel_dtok]
  | |- rel (fun d => ddoc (@?W d) ?b) => apply (rel_comp W (fun d => ddoc d b)); [|apply rel_ddoc]
  | |- rel (fun d => d) => apply rel_id
  end.

Lemma rel_dmetavar mv : rel (fun d => dmetavar d mv).
Proof. unfold dmetavar. destruct (forallb is_metavar_char mv); repeat rel_step. Qed.
Lemma rel_dshortlong_item n : rel (fun d => dshortlong_item d n).
Proof. destruct n; cbn [dshortlong_item]; repeat rel_step. Qed.
Lemma rel_dshortlong_usage n : rel (fun d => dshortlong_usage d n).
Proof. destruct n; cbn [dshortlong_usage]; repeat rel_step. Qed.

Lemma rel_ext W1 W2 : (forall d, W1 d = W2 d) -> rel W2 -> rel W1.
Proof. intros E H e x C. rewrite !E. apply H. exact C. Qed.

Lemma rel_dbody h : rel (fun d => dbody d h).
Proof. destruct h; cbn [dbody]; repeat rel_step. Qed.

Lemma rel_dem_doc buf : rel (fun d => dem_doc d buf).
Proof.
  unfold dem_doc. destruct buf as [|[[] p|bb|bb] rest]; try (repeat rel_step; intros e x _; unfold dtok; rewrite <- !app_assoc; reflexivity).
  destruct (split_once_nl p) as [[a b]|].
  - apply (rel_comp (fun d => dtok (dwrite (dtok (dwrite (dtok d (TStart BInlineBlock)) SEmphasis a) (TStart BSection3)) SText b ++ rest)
                                   (TEnd BSection3)) (fun d => dtok d (TEnd BInlineBlock))); [|apply rel_dtok].
    apply (rel_comp (fun d => dwrite (dtok (dwrite (dtok d (TStart BInlineBlock)) SEmphasis a) (TStart BSection3)) SText b ++ rest)
                    (fun d => dtok d (TEnd BSection3))); [|apply rel_dtok].
    apply (rel_comp (fun d => dwrite (dtok (dwrite (dtok d (TStart BInlineBlock)) SEmphasis a) (TStart BSection3)) SText b)
                    (fun d => d ++ rest)); [repeat rel_step|].
    intros e x _. rewrite app_assoc. reflexivity.
  - repeat rel_step.
Qed.

Lemma rel_dwrite_item i : rel (fun d => dwrite_item d i).
Proof.
  destruct i; cbn [dwrite_item]; repeat rel_step.
  - apply rel_dmetavar.
  - apply rel_dshortlong_usage.
  - apply (rel_comp (fun d => dchar (dshortlong_usage d name) SText c_eq) (fun d => dmetavar d metavar)); [|apply rel_dmetavar].
    apply (rel_comp (fun d => dshortlong_usage d name) (fun d => dchar d SText c_eq)); [apply rel_dshortlong_usage|apply rel_dchar].
Qed.

Lemma rel_wm_sep s xs : Forall (fun m => rel (wm_go m)) xs -> forall first, rel (wm_sep s first xs).
Proof.
  induction 1 as [|x t Hx _ IH]; intros first; cbn [wm_sep]; [apply rel_id|].
  apply (rel_comp (fun d => wm_go x (if first then d else dwrite d SText s)) (wm_sep s false t)); [|apply IH].
  destruct first; [exact Hx|]. apply (rel_comp (fun d => dwrite d SText s) (wm_go x)); [apply rel_dwrite|exact Hx].
Qed.

Lemma rel_wm_go m : rel (wm_go m).
Proof.
  induction m as [xs IHxs|xs IHxs|m IHm|m IHm|m IHm|i|m IHm|m dd IHm|m dd IHm| |m dd IHm|m IHm] using meta_ind'.
  - apply (rel_ext _ (wm_sep b_sp true xs)); [intros d; apply wm_go_and|apply rel_wm_sep, IHxs].
  - apply (rel_ext _ (wm_sep b_bar true xs)); [intros d; apply wm_go_or|apply rel_wm_sep, IHxs].
  - cbn [wm_go]. apply (rel_comp (fun d => wm_go m (dwrite d SText [91%N])) (fun d => dwrite d SText [93%N])); [|apply rel_dwrite].
    apply (rel_comp (fun d => dwrite d SText [91%N]) (wm_go m)); [apply rel_dwrite|exact IHm].
  - cbn [wm_go]. apply (rel_comp (fun d => wm_go m (dwrite d SText [40%N])) (fun d => dwrite d SText [41%N])); [|apply rel_dwrite].
    apply (rel_comp (fun d => dwrite d SText [40%N]) (wm_go m)); [apply rel_dwrite|exact IHm].
  - exact IHm.
  - apply rel_dwrite_item.
  - cbn [wm_go]. apply (rel_comp (wm_go m) (fun d => dwrite d SText b_dots)); [exact IHm|apply rel_dwrite].
  - exact IHm.
  - exact IHm.
  - apply rel_id.
  - cbn [wm_go]. apply rel_ddoc.
  - cbn [wm_go]. apply (rel_comp (fun d => dwrite (dwrite d SLiteral b_dashdash) SText b_sp) (wm_go m)); [|exact IHm].
    repeat rel_step.
Qed.

Lemma rel_dwrite_meta m fu : rel (fun d => dwrite_meta d m fu).
Proof.
  unfold dwrite_meta.
  apply (rel_comp (fun d => wm_go (normalized fu m) (dtok d (TStart BMono))) (fun d => dtok d (TEnd BMono))); [|apply rel_dtok].
  apply (rel_comp (fun d => dtok d (TStart BMono)) (wm_go (normalized fu m))); [apply rel_dtok|apply rel_wm_go].
Qed.

Lemma rel_denv_line a b e v : rel (fun d => denv_line d a b e v).
Proof.
  unfold denv_line. destruct a, b; repeat rel_step.
Qed.

Section Entries.
Variable env : bytes -> option bytes.

Lemma rel_write_help_item it ie : rel (fun d => write_help_item env d it ie).
Proof.
  destruct it; cbn [write_help_item].
  - repeat rel_step.
  - apply (rel_comp (fun d => dtok (dem_doc (dtok (dtok d (TStart BBlock)) (TStart BSection2)) help) (TEnd BSection2))
                    (fun d => dtok d (TStart BDefinitionList))); [|apply rel_dtok].
    apply (rel_comp (fun d => dem_doc (dtok (dtok d (TStart BBlock)) (TStart BSection2)) help) (fun d => dtok d (TEnd BSection2))); [|apply rel_dtok].
    apply (rel_comp (fun d => dtok (dtok d (TStart BBlock)) (TStart BSection2)) (fun d => dem_doc d help)); [repeat rel_step|apply rel_dem_doc].
  - repeat rel_step.
  - apply (rel_comp (fun d => dtok (ddoc (dtok d (TStart BItemTerm)) metavar) (TEnd BItemTerm)) (fun d => dbody d help)); [repeat rel_step|apply rel_dbody].
  - apply (rel_comp (fun d => dtok (dmetavar (dtok d (TStart BItemTerm)) metavar) (TEnd BItemTerm)) (fun d => dbody d help)); [|apply rel_dbody].
    apply (rel_comp (fun d => dmetavar (dtok d (TStart BItemTerm)) metavar) (fun d => dtok d (TEnd BItemTerm))); [|apply rel_dtok].
    apply (rel_comp (fun d => dtok d (TStart BItemTerm)) (fun d => dmetavar d metavar)); [apply rel_dtok|apply rel_dmetavar].
  - apply (rel_comp (fun d => dtok (match short with
                                    | Some s => dchar (dwrite (dwrite (dtok d (TStart BItemTerm)) SLiteral name) SText b_comma_sp) SLiteral s
                                    | None => dwrite (dtok d (TStart BItemTerm)) SLiteral name end) (TEnd BItemTerm))
                    (fun d => dbody d help)); [|apply rel_dbody].
    destruct short; repeat rel_step.
  - set (W1 := fun d => dbody (dtok (dshortlong_item (dtok d (TStart BItemTerm)) name) (TEnd BItemTerm)) help).
    assert (R1 : rel W1).
    { unfold W1. apply (rel_comp (fun d => dtok (dshortlong_item (dtok d (TStart BItemTerm)) name) (TEnd BItemTerm)) (fun d => dbody d help)); [|apply rel_dbody].
      apply (rel_comp (fun d => dshortlong_item (dtok d (TStart BItemTerm)) name) (fun d => dtok d (TEnd BItemTerm))); [|apply rel_dtok].
      apply (rel_comp (fun d => dtok d (TStart BItemTerm)) (fun d => dshortlong_item d name)); [apply rel_dtok|apply rel_dshortlong_item]. }
    destruct env0; [|exact R1].
    apply (rel_comp W1 (fun d => denv_line d (is_some help) ie b (match env b with Some _ => b_set | None => b_not_set end))); [exact R1|apply rel_denv_line].
  - set (W1 := fun d => dbody (dtok (dmetavar (dchar (dshortlong_item (dtok d (TStart BItemTerm)) name) SText c_eq) metavar) (TEnd BItemTerm)) help).
    assert (R1 : rel W1).
    { unfold W1.
      apply (rel_comp (fun d => dtok (dmetavar (dchar (dshortlong_item (dtok d (TStart BItemTerm)) name) SText c_eq) metavar) (TEnd BItemTerm))
                      (fun d => dbody d help)); [|apply rel_dbody].
      apply (rel_comp (fun d => dmetavar (dchar (dshortlong_item (dtok d (TStart BItemTerm)) name) SText c_eq) metavar) (fun d => dtok d (TEnd BItemTerm))); [|apply rel_dtok].
      apply (rel_comp (fun d => dchar (dshortlong_item (dtok d (TStart BItemTerm)) name) SText c_eq) (fun d => dmetavar d metavar)); [|apply rel_dmetavar].
      apply (rel_comp (fun d => dshortlong_item (dtok d (TStart BItemTerm)) name) (fun d => dchar d SText c_eq)); [|apply rel_dchar].
      apply (rel_comp (fun d => dtok d (TStart BItemTerm)) (fun d => dshortlong_item d name)); [apply rel_dtok|apply rel_dshortlong_item]. }
    destruct env0; [|exact R1].
    apply (rel_comp W1 (fun d => denv_line d (is_some help) ie b
                                  (match env b with Some x => [32; 61; 32]%N ++ debug_str x | None => b_na end))); [exact R1|apply rel_denv_line].
  - apply (rel_comp (fun d => dwrite_meta (dtok d (TStart BSection3)) inner true) (fun d => dtok d (TEnd BSection3))); [|apply rel_dtok].
    apply (rel_comp (fun d => dtok d (TStart BSection3)) (fun d => dwrite_meta d inner true)); [apply rel_dtok|apply rel_dwrite_meta].
  - repeat rel_step.
Qed.

(* the entry of one item *)
Definition item_doc (it : helpitem) (ie : bool) : doc := write_help_item env [] it ie.

Lemma write_help_item_closed d it ie : closed d -> write_help_item env d it ie = d ++ item_doc it ie.
Proof.
  intros C. pose proof (rel_write_help_item it ie d [] C) as H. rewrite app_nil_r in H. exact H.
Qed.

(* every entry ends in a block token: what follows it cannot merge into it *)
Lemma item_doc_closed d it ie : closed d -> closed (d ++ item_doc it ie).
Proof.
  intros C. rewrite <- write_help_item_closed by exact C.
  destruct it; cbn [write_help_item]; try apply closed_snoc_end; try apply closed_snoc_start.
  - destruct help; cbn [dbody]; apply closed_snoc_end.
  - destruct help; cbn [dbody]; apply closed_snoc_end.
  - destruct help; cbn [dbody]; apply closed_snoc_end.
  - destruct env0; [unfold denv_line; apply closed_snoc_end|]. destruct help; cbn [dbody]; apply closed_snoc_end.
  - destruct env0; [unfold denv_line; apply closed_snoc_end|]. destruct help; cbn [dbody]; apply closed_snoc_end.
Qed.

(* the items that survive the duplicate filter *)
Fixpoint kept (items : list helpitem) (seen : list dkey) (keepf : bool) : list helpitem :=
  match items with
  | [] => []
  | it :: t =>
    let '(keep, seen', keepf') := dedup_check seen keepf it in
    if keep then it :: kept t seen' keepf' else kept t seen' keepf'
  end.

Lemma closed_flat d items ie : closed d -> closed (d ++ flat_map (fun it => item_doc it ie) items).
Proof.
  revert d. induction items as [|it t IH]; intros d C; cbn [flat_map]; [rewrite app_nil_r; exact C|].
  rewrite app_assoc. apply IH. apply item_doc_closed, C.
Qed.

(* C12: the written list is exactly the entries of the kept items, in order *)
Theorem write_deduped_entries items ie : forall d seen keepf, closed d ->
  write_deduped env d items seen keepf ie = d ++ flat_map (fun it => item_doc it ie) (kept items seen keepf).
Proof.
  induction items as [|it t IH]; intros d seen keepf C; cbn [write_deduped kept]; [rewrite app_nil_r; reflexivity|].
  destruct (dedup_check seen keepf it) as [[keep seen'] keepf']. destruct keep.
  - rewrite write_help_item_closed by exact C. rewrite IH by (apply item_doc_closed, C).
    cbn [flat_map]. rewrite app_assoc. reflexivity.
  - apply IH. exact C.
Qed.
End Entries.

Section Sections.
Variable env : bytes -> option bytes.

Lemma dwrite_closed d sty s : closed d -> dwrite d sty s = d ++ [TText sty s].
Proof. intros C. pose proof (rel_dwrite sty s d [] C) as H. rewrite app_nil_r in H. exact H. Qed.

(* one section of the item lists: nothing when no item of that kind is left, otherwise the header, the
   entries of the kept items in order, and the two closing tokens *)
Theorem help_section_entries d items ty name ie : closed d ->
  write_help_items env d items ty name ie =
  d ++ match items_of_ty ty IBNo items with
       | [] => []
       | xs => [TStart BBlock; TStart BSection2; TText SEmphasis name; TEnd BSection2; TStart BDefinitionList]
               ++ flat_map (fun it => item_doc env it ie) (kept xs [] false)
               ++ [TEnd BDefinitionList; TEnd BBlock]
       end.
Proof.
  intros C. unfold write_help_items. destruct (items_of_ty ty IBNo items) as [|x xs] eqn:E; [rewrite app_nil_r; reflexivity|].
  set (d1 := dtok (dtok d (TStart BBlock)) (TStart BSection2)).
  assert (C1 : closed d1) by apply closed_snoc_start.
  rewrite (dwrite_closed d1 SEmphasis name C1).
  set (d2 := dtok (dtok (d1 ++ [TText SEmphasis name]) (TEnd BSection2)) (TStart BDefinitionList)).
  assert (C2 : closed d2) by apply closed_snoc_start.
  rewrite (write_deduped_entries env (x :: xs) ie d2 [] false C2).
  subst d2 d1. unfold dtok. rewrite <- !app_assoc. reflexivity.
Qed.

(* which items are dropped: only ones whose name, metavariable and help equal those of an entry already
   written in the same list *)
Definition key_of (it : helpitem) : option dkey :=
  match it with
  | HAny mv _ h => Some (DKAny mv h)
  | HPositional mv h => Some (DKPos mv h)
  | HCommand n _ h _ _ => Some (DKCmd n h)
  | HFlag n _ h => Some (DKFlag n h)
  | HArgument n mv _ h => Some (DKArg n mv h)
  | _ => None
  end.

Theorem kept_or_duplicate : forall items seen keepf it k,
  In it items -> key_of it = Some k ->
  In it (kept items seen keepf) \/ existsb (dkey_eqb k) seen = true \/
  exists it' k', In it' (kept items seen keepf) /\ key_of it' = Some k' /\ dkey_eqb k k' = true.
Proof.
  induction items as [|x t IH]; intros seen keepf it k Hin Hk; [destruct Hin|].
  cbn [kept]. destruct Hin as [->|Hin].
  - destruct it; cbn in Hk; inversion Hk; subst; cbn [dedup_check];
      match goal with |- context [existsb ?f seen] => destruct (existsb f seen) eqn:E end;
      first [right; left; reflexivity|left; left; reflexivity].
  - destruct (dedup_check seen keepf x) as [[keep seen'] keepf'] eqn:D.
    destruct (IH seen' keepf' it k Hin Hk) as [H|[H|(it' & k' & H1 & H2 & H3)]].
    + left. destruct keep; [right|]; exact H.
    + (* the key is in seen': either it was in seen, or x put it there -- and then x was kept *)
      assert (Hs : existsb (dkey_eqb k) seen = true \/
                   (keep = true /\ exists kx, key_of x = Some kx /\ dkey_eqb k kx = true)).
      { destruct x; cbn [dedup_check] in D; try (inversion D; subst; left; exact H);
          match type of D with context [existsb ?f seen] => destruct (existsb f seen) eqn:E end;
          inversion D; subst; try (left; exact H);
          cbn [existsb] in H; apply orb_prop in H; destruct H as [H|H]; try (left; exact H);
          right; (split; [reflexivity|]); eexists; (split; [reflexivity|exact H]). }
      destruct Hs as [Hs|[-> (kx & Kx & Ex)]]; [right; left; exact Hs|].
      right. right. exists x, kx. split; [left; reflexivity|]. split; assumption.
    + right. right. exists it', k'. split; [destruct keep; [right|]; exact H1|]. split; assumption.
Qed.
End Sections.
