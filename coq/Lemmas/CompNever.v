(* CompNever.v -- with a completion request the outcome is never a parsed value and never an error message, for EVERY
   parser definition of the model (first clause of C14).  Invariant carried through the evaluator of the autocomplete
   build by mutual induction over the parser: the completion state stays switched on with its revision, the items of
   the line never change, and every final failure a subcommand hands up is completion output or stdout.  Each command
   level then answers through Lemmas/CompAlways.v (level_answers_with_completion). *)
From BpafLemmas Require Import Tac EvalEq Find CompInert CompAlways.
From BpafModel Require Import Message CompEval.

Section Never.
Variable rv : nat.
Variable its : list arg.
Hypothesis Hrev : rev_ok rv.
Hypothesis Hlit : forall s, items s = its -> lit_items s <> [].

Notation xinv := (xinv rv its).
Notation good := (good rv its).
Notation rgood := (rgood rv its).

Lemma xinv_pair s k : xinv (s, k) <-> items s = its /\ krev k = Some rv.
Proof. reflexivity. Qed.

Lemma rfin_other m : (forall f, m <> MsgParseFailure f) -> rfin (RErr m).
Proof. intros H f E. inversion E. subst. exfalso. exact (H f eq_refl). Qed.

Ltac notpf := apply rfin_other; intros ? ?; discriminate.

(* ------------------------------------------------------------------ leaves *)
Section Leaves.
Variable env : bytes -> option bytes.
Variable docgen : bool.

Lemma flag_good n p a : good (c_eval_flag env docgen n p a).
Proof.
  intros [s k] [Hi Hk]. cbn [fst snd] in *. unfold c_eval_flag.
  pose proof (eval_flag_items env n p a s) as Hit. pose proof (eval_flag_rfin env n p a s) as Hf.
  destruct (eval_flag env n p a s) as [r s']. cbn [fst snd] in *. split; [|exact Hf].
  apply xinv_pair. split; [congruence|].
  destruct (take_flag n s); [destruct (touching_last _ k)|destruct (env_first env (n_env n)); [destruct (touching_last _ k)|]];
    rewrite ?krev_push_flag; exact Hk.
Qed.
Lemma arg_good n mv ty adj : good (c_eval_arg env docgen n mv ty adj).
Proof.
  intros [s k] [Hi Hk]. cbn [fst snd] in *. unfold c_eval_arg.
  pose proof (eval_arg_items env n mv ty adj s) as Hit. pose proof (eval_arg_rfin env n mv ty adj s) as Hf.
  destruct (eval_arg env n mv ty adj s) as [r s']. cbn [fst snd] in *. split; [|exact Hf].
  apply xinv_pair. split; [congruence|].
  destruct (take_arg n adj s); [| |destruct (touching_last _ k)];
    rewrite ?krev_push_argument, ?krev_push_metavar; exact Hk.
Qed.
Lemma pos_good mv ty pos help : good (c_eval_pos docgen mv ty pos help).
Proof.
  intros [s k] [Hi Hk]. cbn [fst snd] in *. unfold c_eval_pos.
  pose proof (eval_pos_items mv ty pos help s) as Hit. pose proof (eval_pos_rfin mv ty pos help s) as Hf.
  destruct (eval_pos mv ty pos help s) as [r s']. cbn [fst snd] in *. split; [|exact Hf].
  apply xinv_pair. split; [congruence|].
  destruct (take_positional_word s) as [[[[ix st] w] s1]|].
  - destruct pos, st; try exact Hk; rewrite ?krev_push_pos_sep; try exact Hk;
      (destruct (touching_last s1 k && negb (knopos k)); [rewrite krev_kset_nopos, krev_push_metavar|]; exact Hk).
  - destruct (negb (knopos k)); [rewrite krev_kset_nopos, krev_push_metavar|]; exact Hk.
Qed.
Lemma any_good mv help check anywhere : good (c_lift (eval_any mv help check anywhere)).
Proof.
  intros [s k] [Hi Hk]. cbn [fst snd] in *. unfold c_lift. cbn [fst snd].
  pose proof (eval_any_items mv help check anywhere s) as Hit. pose proof (eval_any_rfin mv help check anywhere s) as Hf.
  destruct (eval_any mv help check anywhere s) as [r s']. cbn [fst snd] in *. split; [|exact Hf].
  apply xinv_pair. split; [congruence|exact Hk].
Qed.
End Leaves.

(* ------------------------------------------------------------------ repetition *)
Definition ofin (o : opt_res) : Prop := match o with OErr e => rfin (RErr e) | _ => True end.

Lemma parse_option_good cev len x c :
  good cev -> xinv x -> xinv (snd (c_parse_option cev len x c)) /\ ofin (fst (fst (c_parse_option cev len x c))).
Proof.
  intros H Hx. unfold c_parse_option. destruct (H x Hx) as [Hx' Hf].
  destruct (cev x) as [r [s' k']]. cbn [fst snd] in *. destruct r; cbn [fst snd ofin]; try (split; [exact Hx'|exact I]).
  - destruct (lt_len (remaining s') len); cbn [fst snd ofin]; split; try exact Hx'; exact I.
  - destruct (c || _ || _); cbn [fst snd ofin].
    + split; [|exact I]. destruct x as [s k]. destruct Hx as [Hi Hk]. destruct Hx' as [Hi' Hk']. cbn [fst snd] in *.
      apply xinv_pair. split; [exact Hi|]. destruct k'; [exact Hk'|exact Hk].
    + split; [exact Hx'|exact Hf].
Qed.

Lemma many_loop_good cev c fuel len x acc :
  good cev -> xinv x ->
  xinv (snd (c_many_loop cev c fuel len x acc)) /\ rfin (fst (fst (c_many_loop cev c fuel len x acc))).
Proof.
  intros H. revert len x acc. induction fuel as [|f IH]; intros len x acc Hx; cbn [c_many_loop].
  - split; [exact Hx|apply rfin_fuel].
  - destruct (parse_option_good cev len x c H Hx) as [Hx' Ho].
    destruct (c_parse_option cev len x c) as [[o l] x']. cbn [fst snd] in *.
    destruct o; cbn [fst snd]; try (split; [exact Hx'|]); try apply rfin_ok; try apply rfin_panic; try apply rfin_fuel.
    + apply IH. exact Hx'.
    + exact Ho.
Qed.

Lemma count_loop_good cev fuel len x cur n last :
  good cev -> xinv x ->
  xinv (snd (c_count_loop cev fuel len x cur n last)) /\ rfin (fst (fst (fst (c_count_loop cev fuel len x cur n last)))).
Proof.
  intros H. revert len x cur n last. induction fuel as [|f IH]; intros len x cur n last Hx; cbn [c_count_loop].
  - split; [exact Hx|apply rfin_fuel].
  - destruct (parse_option_good cev len x false H Hx) as [Hx' Ho].
    destruct (c_parse_option cev len x false) as [[o l] x']. cbn [fst snd] in *.
    destruct o; cbn [fst snd]; try (split; [exact Hx'|]); try apply rfin_ok; try apply rfin_panic; try apply rfin_fuel.
    + destruct (Nat.eqb cur (remaining (fst x'))); cbn [fst snd]; [split; [exact Hx'|apply rfin_ok]|]. apply IH. exact Hx'.
    + exact Ho.
Qed.

Lemma optional_good cev c : good cev -> good (c_optional_body cev c).
Proof.
  intros H x Hx. unfold c_optional_body. destruct (parse_option_good cev None x c H Hx) as [Hx' Ho].
  destruct (c_parse_option cev None x c) as [[o l] x']. cbn [fst snd] in *.
  destruct o; cbn [fst snd]; split; try exact Hx'; try apply rfin_ok; try apply rfin_panic; try apply rfin_fuel. exact Ho.
Qed.
Lemma many_good cev c : good cev -> good (c_many_body cev c).
Proof.
  intros H x Hx. unfold c_many_body. destruct (many_loop_good cev c (loop_fuel (fst x)) None x [] H Hx) as [Hx' Hf].
  destruct (c_many_loop cev c (loop_fuel (fst x)) None x []) as [[r acc] x']. cbn [fst snd] in *.
  destruct r; cbn [fst snd]; split; try exact Hx'; try exact Hf. apply rfin_ok.
Qed.
Lemma some_good cev m c : good cev -> good (c_some_body cev m c).
Proof.
  intros H x Hx. unfold c_some_body. destruct (many_loop_good cev c (loop_fuel (fst x)) None x [] H Hx) as [Hx' Hf].
  destruct (c_many_loop cev c (loop_fuel (fst x)) None x []) as [[r acc] x']. cbn [fst snd] in *.
  destruct r; cbn [fst snd]; try (split; [exact Hx'|exact Hf]).
  destruct acc; cbn [fst snd]; split; try exact Hx'; [notpf|apply rfin_ok].
Qed.
Lemma count_good cev : good cev -> good (c_count_body cev).
Proof.
  intros H x Hx. unfold c_count_body.
  destruct (count_loop_good cev (loop_fuel (fst x)) None x (remaining (fst x)) 0 None H Hx) as [Hx' Hf].
  destruct (c_count_loop cev (loop_fuel (fst x)) None x (remaining (fst x)) 0 None) as [[[r n] l] x']. cbn [fst snd] in *.
  destruct r; cbn [fst snd]; split; try exact Hx'; try exact Hf. apply rfin_ok.
Qed.
Lemma last_good cev : good cev -> good (c_last_body cev).
Proof.
  intros H x Hx. unfold c_last_body.
  destruct (count_loop_good cev (loop_fuel (fst x)) None x (remaining (fst x)) 0 None H Hx) as [Hx' Hf].
  destruct (c_count_loop cev (loop_fuel (fst x)) None x (remaining (fst x)) 0 None) as [[[r n] l] x']. cbn [fst snd] in *.
  destruct r; cbn [fst snd]; try (split; [exact Hx'|exact Hf]).
  destruct l; cbn [fst snd]; [split; [exact Hx'|apply rfin_ok]|]. apply H. exact Hx'.
Qed.

(* ------------------------------------------------------------------ wrappers *)
Lemma fallback_with_good cev fb : good cev -> good (c_fallback_with_body cev fb).
Proof.
  intros H x Hx. unfold c_fallback_with_body. destruct (H x Hx) as [Hx' Hf].
  destruct (cev x) as [r [s' k']]. cbn [fst snd] in *. destruct r; cbn [fst snd]; try (split; [exact Hx'|exact Hf]).
  assert (Hx2 : xinv (fst x, k')).
  { destruct x as [s k]. destruct Hx as [Hi _]. destruct Hx' as [_ Hk']. apply xinv_pair. split; assumption. }
  destruct (can_catch m); [destruct fb|]; cbn [fst snd]; split; try exact Hx2; try apply rfin_ok; try exact Hf. notpf.
Qed.
Lemma guard_good cev c m : good cev -> good (c_guard_body cev c m).
Proof.
  intros H x Hx. unfold c_guard_body. destruct (H x Hx) as [Hx' Hf].
  destruct (cev x) as [r x']. cbn [fst snd] in *. destruct r; cbn [fst snd]; try (split; [exact Hx'|exact Hf]).
  destruct (c v); cbn [fst snd]; split; try exact Hx'; [apply rfin_ok|notpf].
Qed.
Lemma parse_good cev f : good cev -> good (c_parse_body cev f).
Proof.
  intros H x Hx. unfold c_parse_body. destruct (H x Hx) as [Hx' Hf].
  destruct (cev x) as [r x']. cbn [fst snd] in *. destruct r; cbn [fst snd]; try (split; [exact Hx'|exact Hf]).
  destruct (f v); cbn [fst snd]; split; try exact Hx'; [apply rfin_ok|notpf].
Qed.
Lemma map_good cev f : good cev -> good (c_map_body cev f).
Proof.
  intros H x Hx. unfold c_map_body. destruct (H x Hx) as [Hx' Hf].
  destruct (cev x) as [r x']. cbn [fst snd] in *. destruct r; cbn [fst snd]; split; try exact Hx'; try exact Hf. apply rfin_ok.
Qed.

Lemma xinv_swap_in s k : xinv (s, k) -> xinv (s, fst (kswap k [])).
Proof. intros [Hi Hk]. apply xinv_pair. split; [exact Hi|]. rewrite krev_kswap. exact Hk. Qed.

Lemma hide_good cev : good cev -> good (c_hide_body cev).
Proof.
  intros H [s k] Hx. unfold c_hide_body. destruct (kswap k []) as [k0 stash] eqn:Ek.
  assert (Hx0 : xinv (s, k0)) by (replace k0 with (fst (kswap k [])) by (rewrite Ek; reflexivity); apply xinv_swap_in; exact Hx).
  destruct (H _ Hx0) as [Hx' Hf]. destruct (cev (s, k0)) as [r [s' k']]. cbn [fst snd] in *.
  assert (Hx1 : xinv (s', fst (kswap k' stash))).
  { destruct Hx' as [Hi Hk]. apply xinv_pair. split; [exact Hi|]. rewrite krev_kswap. exact Hk. }
  destruct r; cbn [fst snd]; try (split; [exact Hx1|exact Hf]).
  destruct m; cbn [fst snd]; split; try exact Hx1; try exact Hf. notpf.
Qed.
Lemma group_help_good docgen cev d : good cev -> good (c_group_help_body docgen cev d).
Proof.
  intros H [s k] Hx. unfold c_group_help_body. destruct (kswap k []) as [k0 stash] eqn:Ek.
  assert (Hx0 : xinv (s, k0)) by (replace k0 with (fst (kswap k [])) by (rewrite Ek; reflexivity); apply xinv_swap_in; exact Hx).
  destruct (H _ Hx0) as [Hx' Hf]. destruct (cev (s, k0)) as [r [s' k']]. cbn [fst snd] in *.
  destruct (kswap k' stash) as [k1 inner] eqn:Ek1. cbn [fst snd]. split; [|exact Hf].
  destruct Hx' as [Hi Hk]. apply xinv_pair. split; [exact Hi|]. rewrite krev_push_with_group.
  replace k1 with (fst (kswap k' stash)) by (rewrite Ek1; reflexivity). rewrite krev_kswap. exact Hk.
Qed.
Lemma complete_good cev f g : good cev -> good (c_complete_body cev f g).
Proof.
  intros H [s k] Hx. unfold c_complete_body. destruct (kswap k []) as [k0 stash] eqn:Ek.
  assert (Hx0 : xinv (s, k0)) by (replace k0 with (fst (kswap k [])) by (rewrite Ek; reflexivity); apply xinv_swap_in; exact Hx).
  destruct (H _ Hx0) as [Hx' Hf]. destruct (cev (s, k0)) as [r [s' k']]. cbn [fst snd] in *.
  destruct Hx' as [Hi Hk]. destruct k' as [c'|]; [|discriminate]. cbn [kswap].
  destruct r; cbn [fst snd]; (split; [apply xinv_pair; split; [exact Hi|exact Hk]|]); try exact Hf.
Qed.
Lemma comp_shell_good cev op : good cev -> good (c_comp_shell_body cev op).
Proof.
  intros H [s k] Hx. unfold c_comp_shell_body. destruct (kswap k []) as [k0 stash] eqn:Ek.
  assert (Hx0 : xinv (s, k0)) by (replace k0 with (fst (kswap k [])) by (rewrite Ek; reflexivity); apply xinv_swap_in; exact Hx).
  destruct (H _ Hx0) as [Hx' Hf]. destruct (cev (s, k0)) as [r [s' k']]. cbn [fst snd] in *.
  destruct (kswap k' stash) as [k1 inner] eqn:Ek1. cbn [fst snd]. split; [|exact Hf].
  destruct Hx' as [Hi Hk]. apply xinv_pair. split; [exact Hi|]. rewrite krev_kextend.
  replace k1 with (fst (kswap k' stash)) by (rewrite Ek1; reflexivity). rewrite krev_kswap. exact Hk.
Qed.

(* ------------------------------------------------------------------ alternatives *)
Lemma save_conflicts_items s l w : items (save_conflicts s l w) = items s.
Proof. reflexivity. Qed.

Lemma this_or_that_items ra rb s sa sb :
  items s = its -> items sa = its -> items sb = its -> items (snd (this_or_that ra rb s sa sb)) = its.
Proof.
  intros Hs Ha Hb. unfold this_or_that. destruct (Nat.compare (depth sa) (depth sb)); cbn [snd]; try assumption.
  destruct ra, rb; cbn [snd]; try assumption;
    (match goal with |- context [if ?c then _ else pick_winner sa sb] => destruct c end;
     [cbn; assumption|destruct (pick_winner sa sb) as [[|] [w|]]; cbn [snd]; rewrite ?save_conflicts_items; assumption]).
Qed.

Lemma combine_with_pf e1 e2 f :
  combine_with e1 e2 = MsgParseFailure f -> e1 = MsgParseFailure f \/ e2 = MsgParseFailure f.
Proof.
  unfold combine_with. destruct e1; destruct e2; try (destruct (can_catch _)); intros E; try discriminate; auto.
Qed.

Lemma this_or_that_rfin ra rb s sa sb e :
  rfin ra -> rfin rb -> fst (this_or_that ra rb s sa sb) = inr e -> rfin (RErr e).
Proof.
  intros Ha Hb. unfold this_or_that. destruct (Nat.compare (depth sa) (depth sb)); cbn [fst].
  - destruct ra, rb; cbn [fst]; try discriminate;
      try (match goal with |- context [if ?c then _ else pick_winner sa sb] =>
             destruct c; [|destruct (pick_winner sa sb) as [[|] [w|]]] end; cbn; discriminate).
    intros E. inversion E. subst. intros f Ef. inversion Ef as [Ec].
    destruct (combine_with_pf _ _ _ Ec) as [->| ->]; [exact (Ha f eq_refl)|exact (Hb f eq_refl)].
  - destruct rb; cbn [fst]; try discriminate. intros E. inversion E. subst. exact Hb.
  - destruct ra; cbn [fst]; try discriminate. intros E. inversion E. subst. exact Ha.
Qed.

Lemma krev_or_comps k0 stash sa ka sb kb pick :
  krev k0 = Some rv -> krev ka = Some rv -> krev kb = Some rv -> krev (or_comps k0 stash sa ka sb kb pick) = Some rv.
Proof.
  intros H0 Ha Hb. unfold or_comps. destruct (Nat.compare (depth sa) (depth sb)); rewrite ?krev_kextend; try assumption.
  destruct ka as [ca|]; [|discriminate]. destruct kb as [cb|]; [|discriminate].
  destruct (if Nat.eqb _ _ then _ else _) as [ka' kb']. rewrite krev_kextend.
  destruct pick as [[|]|]; [destruct ka'|destruct kb'|]; try assumption.
Qed.

Lemma or_good ca cb : good ca -> good cb -> good (c_or_body ca cb).
Proof.
  intros Ha Hb [s k] Hx. unfold c_or_body. destruct (kswap k []) as [k0 stash] eqn:Ek.
  assert (Hx0 : xinv (s, k0)) by (replace k0 with (fst (kswap k [])) by (rewrite Ek; reflexivity); apply xinv_swap_in; exact Hx).
  destruct (Ha _ Hx0) as [Hxa Hfa]. destruct (ca (s, k0)) as [ra [sa ka]]. cbn [fst snd] in *.
  destruct (Hb _ Hx0) as [Hxb Hfb].
  assert (Hgo : forall (P : eres * xst -> Prop),
            (forall rb sb kb, cb (s, k0) = (rb, (sb, kb)) -> P
               (match rb with
                | RPanic w => (RPanic w, (sb, kb))
                | RFuel => (RFuel, (sb, kb))
                | _ => let '(pick, s') := this_or_that ra rb s sa sb in
                       (match pick with inl true => ra | inl false => rb | inr e => RErr e end,
                        (s', or_comps k0 stash sa ka sb kb pick))
                end)) -> P (let '(rb, (sb, kb)) := cb (s, k0) in
               match rb with
                | RPanic w => (RPanic w, (sb, kb))
                | RFuel => (RFuel, (sb, kb))
                | _ => let '(pick, s') := this_or_that ra rb s sa sb in
                       (match pick with inl true => ra | inl false => rb | inr e => RErr e end,
                        (s', or_comps k0 stash sa ka sb kb pick))
                end)).
  { intros P HP. destruct (cb (s, k0)) as [rb [sb kb]] eqn:E. apply HP. reflexivity. }
  assert (Hmain : forall rb sb kb, cb (s, k0) = (rb, (sb, kb)) ->
            let res := (let '(pick, s') := this_or_that ra rb s sa sb in
                       (match pick with inl true => ra | inl false => rb | inr e => RErr e end,
                        (s', or_comps k0 stash sa ka sb kb pick))) in
            xinv (snd res) /\ rfin (fst res)).
  { intros rb sb kb E. rewrite E in Hxb, Hfb. cbn [fst snd] in *.
    destruct Hx0 as [Hi0 Hk0]. destruct Hxa as [Hia Hka]. destruct Hxb as [Hib Hkb]. cbn [fst snd] in *.
    pose proof (this_or_that_items ra rb s sa sb Hi0 Hia Hib) as Hit.
    pose proof (fun e => this_or_that_rfin ra rb s sa sb e Hfa Hfb) as Hfe.
    destruct (this_or_that ra rb s sa sb) as [pick s']. cbn [fst snd] in *. split.
    - apply xinv_pair. split; [exact Hit|]. apply krev_or_comps; assumption.
    - destruct pick as [[|]|e]; [exact Hfa|exact Hfb|apply Hfe; reflexivity]. }
  destruct ra; try (cbn [fst snd]; split; [exact Hxa|try apply rfin_panic; apply rfin_fuel]);
    (apply Hgo; intros rb sb kb E; specialize (Hmain rb sb kb E); rewrite E in Hxb; cbn [fst snd] in Hxb;
     destruct rb; cbn [fst snd]; try exact Hmain; (split; [exact Hxb|try apply rfin_panic; apply rfin_fuel])).
Qed.

(* ------------------------------------------------------------------ construct! *)
Lemma xinv_set_current x v : xinv x -> xinv (xset_current x v).
Proof. intros [Hi Hk]. split; assumption. Qed.

Lemma con_go_good ff cevs x first acc err :
  Forall good cevs -> xinv x -> (forall e, err = Some e -> rfin (RErr e)) ->
  xinv (snd (c_con_go ff cevs x first acc err)) /\ rfin (fst (c_con_go ff cevs x first acc err)).
Proof.
  intros H. revert x first acc err. induction H as [|cev l Hc Hl IH]; intros x first acc err Hx He; cbn [c_con_go].
  - destruct err as [e|]; cbn [fst snd].
    + split; [exact Hx|exact (He e eq_refl)].
    + split; [apply xinv_set_current; exact Hx|apply rfin_ok].
  - destruct (Hc x Hx) as [Hx' Hf]. destruct (cev x) as [r x']. cbn [fst snd] in *.
    destruct r; cbn [fst snd]; try (split; [exact Hx'|try apply rfin_panic; apply rfin_fuel]).
    + apply IH; assumption.
    + destruct (ff && first); cbn [fst snd]; [split; [exact Hx'|exact Hf]|].
      apply IH; [exact Hx'|]. destruct err as [e0|]; intros e E; inversion E; subst; [exact (He e eq_refl)|exact Hf].
Qed.
Lemma con_good ff cevs : Forall good cevs -> good (c_con_body ff cevs).
Proof.
  intros H x Hx. unfold c_con_body.
  destruct (con_go_good ff cevs x true [] None H Hx) as [Hx' Hf]; [intros e E; discriminate|].
  destruct (c_con_go ff cevs x true [] None) as [r x']. cbn [fst snd] in *. split; [apply xinv_set_current; exact Hx'|exact Hf].
Qed.

(* ------------------------------------------------------------------ adjacent groups *)
Definition best_ok (b : c_adj_best) : Prop := xinv (cb_args b) /\ rfin (RErr (cb_err b)).
Definition step_ok (st : c_adj_step) : Prop :=
  match st with
  | CAReturn _ x => xinv x
  | CANext b => best_ok b
  | CAStop r _ => rfin r
  end.

Lemma xinv_set_scope s k a b s' : xinv (s, k) -> set_scope s a b = Some s' -> xinv (s', k).
Proof. intros [Hi Hk] E. apply xinv_pair. split; [rewrite (set_scope_items _ _ _ _ E); exact Hi|exact Hk]. Qed.

Lemma adj_inner_good cev orig before fuel ta best :
  good cev -> xinv orig -> xinv ta -> best_ok best -> step_ok (c_adj_inner cev orig before fuel ta best).
Proof.
  intros H Ho. revert ta best. induction fuel as [|f IH]; intros ta best Hta Hb; cbn [c_adj_inner step_ok]; [apply rfin_fuel|].
  destruct (H ta Hta) as [Hx' Hf]. destruct (cev ta) as [r [t1 kt]]. cbn [fst snd] in *.
  destruct r; cbn [step_ok]; try apply rfin_panic; try apply rfin_fuel.
  - destruct (adjacent_scope t1 (fst orig)) as [| |a b]; cbn [step_ok]; try apply rfin_panic.
    + destruct (set_scope t1 _ _) as [fin|] eqn:E; cbn [step_ok]; [exact (xinv_set_scope _ _ _ _ _ Hx' E)|apply rfin_panic].
    + destruct (set_scope (fst orig) a b) as [ta'|] eqn:E; cbn [step_ok]; [|apply rfin_panic].
      apply IH; [|exact Hb]. destruct orig as [so ko]. exact (xinv_set_scope _ _ _ _ _ Ho E).
  - destruct (Nat.ltb before (remaining t1)); cbn [step_ok]; [apply rfin_panic|].
    destruct (Nat.ltb (cb_consumed best) (before - remaining t1)); cbn [step_ok]; [split; [exact Hx'|exact Hf]|exact Hb].
Qed.

Lemma adj_try_good cev orig width start best :
  good cev -> xinv orig -> best_ok best -> step_ok (c_adj_try cev orig width start best).
Proof.
  intros H Ho Hb. unfold c_adj_try. destruct orig as [so ko]. cbn [fst snd].
  destruct (set_scope so start (length (items so))) as [ta0|] eqn:E0; cbn [step_ok]; [|apply rfin_panic].
  pose proof (xinv_set_scope _ _ _ _ _ Ho E0) as H0.
  destruct (set_scope ta0 start (start + width)) as [scratch|] eqn:E1; cbn [step_ok]; [|apply rfin_panic].
  pose proof (xinv_set_scope _ _ _ _ _ H0 E1) as H1.
  destruct (Nat.eqb (remaining scratch) 0); cbn [step_ok]; [exact Hb|].
  destruct (H _ H1) as [_ _]. destruct (cev (scratch, ko)) as [r0 [scratch' ks]].
  assert (Hrest : step_ok
    (if Nat.eqb (remaining scratch) (remaining scratch') then CANext best
     else match set_scope ta0 start (sc_end so) with
          | None => CAStop (RPanic P_set_scope) (so, ko)
          | Some this_arg1 =>
            match (if Nat.ltb (remaining this_arg1) (sc_end so - start)
                   then let '(a, b) := adjacently_available_from this_arg1 start in set_scope this_arg1 a b
                   else Some this_arg1) with
            | None => CAStop (RPanic P_set_scope) (so, ko)
            | Some this_arg2 => c_adj_inner cev (so, ko) (remaining this_arg1) (loop_fuel so) (this_arg2, ko) best
            end
          end)).
  { destruct (Nat.eqb (remaining scratch) (remaining scratch')); cbn [step_ok]; [exact Hb|].
    destruct (set_scope ta0 start (sc_end so)) as [ta1|] eqn:E2; cbn [step_ok]; [|apply rfin_panic].
    pose proof (xinv_set_scope _ _ _ _ _ H0 E2) as H2.
    destruct (Nat.ltb (remaining ta1) (sc_end so - start)).
    - destruct (adjacently_available_from ta1 start) as [a b]. destruct (set_scope ta1 a b) as [ta2|] eqn:E3; cbn [step_ok]; [|apply rfin_panic].
      apply adj_inner_good; try assumption. exact (xinv_set_scope _ _ _ _ _ H2 E3).
    - apply adj_inner_good; assumption. }
  destruct r0; cbn [step_ok]; try exact Hrest; try apply rfin_panic; apply rfin_fuel.
Qed.

Lemma adj_outer_good cev orig width starts best :
  good cev -> xinv orig -> best_ok best ->
  xinv (snd (c_adj_outer cev orig width starts best)) /\ rfin (fst (c_adj_outer cev orig width starts best)).
Proof.
  intros H Ho. revert best. induction starts as [|st more IH]; intros best Hb; cbn [c_adj_outer].
  - destruct Hb as [Hbx Hbf]. destruct (cb_args best) as [sb kb]. cbn [fst snd].
    destruct (set_scope sb _ _) as [fin|] eqn:E; cbn [fst snd]; split; try exact Ho; try apply rfin_panic; try exact Hbf.
    exact (xinv_set_scope _ _ _ _ _ Hbx E).
  - pose proof (adj_try_good cev orig width st best H Ho Hb) as Hs.
    destruct (c_adj_try cev orig width st best); cbn [step_ok fst snd] in *.
    + split; [exact Hs|apply rfin_ok].
    + apply IH. exact Hs.
    + split; [exact Ho|exact Hs].
Qed.

Lemma adjacent_good cev fi : good cev -> good (c_eval_adjacent cev fi).
Proof.
  intros H x Hx. unfold c_eval_adjacent. destruct fi as [it|]; cbn [fst snd]; [|split; [exact Hx|apply rfin_panic]].
  apply adj_outer_good; try assumption. split; cbn [cb_args cb_err]; [exact Hx|]. unfold missing_msg. notpf.
Qed.

(* ------------------------------------------------------------------ commands and command levels *)
Lemma sfin_rfin f : sfin (SFail f) -> rfin (RErr (MsgParseFailure f)).
Proof. intros H g E. inversion E. subst. exact H. Qed.

Lemma cmd_good docgen name aliases shorts help adjacent m i crun :
  rgood crun -> good (c_cmd_body docgen name aliases shorts help adjacent m i crun).
Proof.
  intros H [s k] Hx. unfold c_cmd_body. pose proof (take_cmd_any_items ((name :: aliases) ++ map utf8_encode_char shorts) s) as Hit.
  destruct (take_cmd_any _ s) as [hit s1]. cbn [snd] in Hit. destruct Hx as [Hi Hk]. cbn [fst snd] in Hi, Hk.
  assert (H1 : xinv (s1, k)) by (apply xinv_pair; split; [congruence|exact Hk]).
  destruct hit; cbn [fst snd].
  2:{ split; [|unfold missing_msg; notpf]. apply xinv_pair. split; [congruence|]. rewrite krev_push_command. exact Hk. }
  destruct (touching_last s1 k); cbn [fst snd].
  { split; [|notpf]. apply xinv_pair. split; [congruence|]. rewrite krev_push_command, krev_kclear. exact Hk. }
  destruct (current s1) as [cur|]; cbn [fst snd]; [|split; [exact H1|apply rfin_panic]].
  destruct (set_scope s1 cur (sc_end s1)) as [s2|] eqn:E2; cbn [fst snd]; [|split; [exact H1|apply rfin_panic]].
  pose proof (xinv_set_scope _ _ _ _ _ H1 E2) as H2.
  assert (H3 : xinv (set_path s2 (path s2 ++ [name]), k)) by exact H2.
  set (s3 := set_path s2 (path s2 ++ [name])) in *.
  destruct adjacent.
  - destruct (adjacently_available_from s3 (S (sc_start s3))) as [a b].
    destruct (set_scope s3 a b) as [s4|] eqn:E4; cbn [fst snd]; [|split; [exact H3|apply rfin_panic]].
    pose proof (xinv_set_scope _ _ _ _ _ H3 E4) as H4. destruct (H _ H4) as [Hx5 Hf5].
    destruct (crun (s4, k)) as [r [s5 k5]]. cbn [fst snd] in *.
    destruct r as [v|f|w|]; cbn [fst snd]; try (split; [exact Hx5|try apply rfin_panic; apply rfin_fuel]).
    + contradiction.
    + destruct (adjacent_scope s5 s3) as [| |na nb]; cbn [fst snd]; try (split; [exact Hx5|try apply rfin_panic; apply sfin_rfin; exact Hf5]).
      destruct (set_scope s3 na nb) as [o1|] eqn:E6; cbn [fst snd]; [|split; [exact Hx5|apply rfin_panic]].
      pose proof (xinv_set_scope _ _ _ _ _ H3 E6) as H6. destruct (H _ H6) as [Hx7 Hf7].
      destruct (crun (o1, k)) as [r2 [o2 k6]]. cbn [fst snd] in *.
      destruct r2 as [v|f2|w|]; cbn [fst snd]; try (split; [exact Hx7|try apply rfin_panic; apply rfin_fuel]).
      * contradiction.
      * split; [exact Hx5|apply sfin_rfin; exact Hf5].
  - destruct (H _ H3) as [Hx4 Hf4]. destruct (crun (s3, k)) as [r x4]. cbn [fst snd] in *.
    destruct r as [v|f|w|]; cbn [fst snd]; try (split; [exact Hx4|try apply rfin_panic; apply rfin_fuel]).
    + contradiction.
    + split; [exact Hx4|apply sfin_rfin; exact Hf4].
Qed.

Lemma run_sub_body_early env inf m s r s1 :
  early inf s r = true -> rfin r ->
  snd (run_sub_body env inf m s (r, s1)) = s1 /\ sfin (fst (run_sub_body env inf m s (r, s1))).
Proof.
  intros Ee Hf. unfold run_sub_body, early in *.
  destruct r as [v|e|w|]; try discriminate; try (cbn; split; [reflexivity|exact I]).
  destruct e; cbn -[info_eval render_message invariant_ok Nat.eqb];
    try (cbn -[Nat.eqb] in Ee; rewrite Ee; destruct (invariant_ok m); cbn; (split; [reflexivity|exact I])).
  match goal with H : rfin (RErr (MsgParseFailure ?g)) |- _ => destruct g as [h|t|mm dd] end;
    cbn -[info_eval render_message invariant_ok Nat.eqb].
  - split; [reflexivity|exact I].
  - destruct (i_help_if_no_args inf && Nat.eqb (remaining s) 0); [destruct (invariant_ok m)|]; cbn; (split; [reflexivity|exact I]).
  - destruct (i_help_if_no_args inf && Nat.eqb (remaining s) 0); [destruct (invariant_ok m)|]; cbn;
      (split; [reflexivity|try exact I]).
    exact (Hf _ eq_refl).
Qed.

Lemma run_sub_body_good env inf m x r s1 k1 :
  xinv x -> xinv (s1, k1) -> rfin r ->
  xinv (snd (c_run_sub_body env inf m x (r, (s1, k1)))) /\ sfin (fst (c_run_sub_body env inf m x (r, (s1, k1)))).
Proof.
  intros Hx H1 Hf. unfold c_run_sub_body.
  destruct H1 as [Hi1 Hk1]. cbn [fst snd] in Hi1, Hk1. destruct k1 as [c|]; [|discriminate].
  destruct (early inf (fst x) r) eqn:Ee.
  - destruct (run_sub_body_early env inf m (fst x) r s1 Ee Hf) as [Hs Hsf].
    destruct (run_sub_body env inf m (fst x) (r, s1)) as [pr ps]. cbn [fst snd] in *. subst ps.
    split; [apply xinv_pair; split; [exact Hi1|exact Hk1]|exact Hsf].
  - destruct (run_sub_body env inf m (fst x) (r, s1)) as [pr ps].
    assert (Hc : rev_ok (cs_rev c)) by (cbn in Hk1; inversion Hk1; subst; exact Hrev).
    destruct (check_complete_some s1 c (Hlit s1 Hi1) Hc) as [t ->]. cbn [fst snd].
    split; [apply xinv_pair; split; [exact Hi1|exact Hk1]|exact I].
Qed.

(* ------------------------------------------------------------------ every parser *)
Theorem ceval_good_all env docgen :
  (forall p, good (ceval env docgen p)) /\
  (forall ps, Forall good (cevals env docgen ps)) /\
  (forall o, rgood (crun_sub env docgen o)).
Proof.
  apply cparser_cplist_coparser_ind; intros.
  - apply flag_good.
  - apply arg_good.
  - apply pos_good.
  - apply any_good.
  - apply cmd_good. exact H.
  - destruct fields as [|q1 [|q2 t]].
    + intros x Hx. cbn [ceval fst snd]. split; [apply xinv_set_current; exact Hx|apply rfin_ok].
    + inversion H; subst. assumption.
    + intros x Hx. rewrite ceval_XCon_many. apply con_good; assumption.
  - intros x Hx. apply (adjacent_good _ _ (con_good true _ H)). exact Hx.
  - apply or_good; assumption.
  - apply optional_good; assumption.
  - apply many_good; assumption.
  - apply some_good; assumption.
  - apply many_good; assumption.
  - apply count_good; assumption.
  - apply last_good; assumption.
  - apply fallback_with_good; assumption.
  - apply fallback_with_good; assumption.
  - apply guard_good; assumption.
  - apply parse_good; assumption.
  - apply map_good; assumption.
  - apply hide_good; assumption.
  - exact H.
  - apply group_help_good; assumption.
  - intros x Hx. cbn [ceval fst snd]. split; [apply xinv_set_current; exact Hx|apply rfin_ok].
  - intros x Hx. cbn [ceval]. destruct r; cbn [fst snd]; split; try exact Hx; [apply rfin_ok|notpf].
  - intros x Hx. cbn [ceval fst snd]. split; [apply xinv_set_current; exact Hx|notpf].
  - exact H.
  - apply complete_good; assumption.
  - apply comp_shell_good; assumption.
  - constructor.
  - rewrite cevals_cons. constructor; assumption.
  - intros x Hx. rewrite crun_sub_eq. destruct (H x Hx) as [Hx' Hf].
    destruct (ceval env docgen p x) as [r [s1 k1]]. cbn [fst snd] in *. apply run_sub_body_good; assumption.
Qed.

End Never.

(* run_inner with a completion request: never a value, never an error message *)
Theorem request_never_value_or_error feat env o name argv rv0 :
  let x := fst (c_initial_state o name argv rv0) in
  forall c, snd x = Some c -> rev_ok (cs_rev c) -> lit_items (fst x) <> [] ->
  match c_run_inner feat env o name argv rv0 with
  | OutOk _ | OutStderr _ => False
  | _ => True
  end.
Proof.
  intros x c Hc Hr Hl. unfold c_run_inner, c_run_inner_state. subst x.
  destruct (c_initial_state o name argv rv0) as [[s0 k0] amb]. cbn [fst snd] in *. subst k0.
  assert (Hlit : forall s, items s = items s0 -> lit_items s <> []).
  { intros s E. unfold lit_items in *. rewrite E. exact Hl. }
  assert (Hx : xinv (cs_rev c) (items s0) (s0, Some c)) by (split; reflexivity).
  destruct (proj2 (proj2 (ceval_good_all (cs_rev c) (items s0) Hr Hlit env (f_docgen feat))) o _ Hx) as [_ Hf].
  destruct amb as [[ix short]|]; cbn [snd];
    (destruct (crun_sub env (f_docgen feat) o (s0, Some c)) as [r x']; cbn [fst snd] in *;
     destruct r as [v|f|w|]; cbn [outcome_of]; try exact I; try contradiction; destruct f; cbn in Hf; try exact I; contradiction).
Qed.
