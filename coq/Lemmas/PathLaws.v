(* PathLaws.v -- the flat fragment never touches the command path (the "depth" the alternative
   combinator compares).  Only entering a subcommand extends it. *)
From Coq Require Import Lia List Bool Arith.
From BpafModel Require Import Conv.
From BpafLemmas Require Import Tac EvalEq Find Reach AbsSim.
Import ListNotations.

Definition keepsp (ev : evaluator) : Prop := forall s, path (snd (ev s)) = path s.

Lemma sremove_path k ix s : path (sremove k ix s) = path s.
Proof. unfold sremove. destruct (in_scope s ix && _); reflexivity. Qed.

Section WithEnv.
Variable env : bytes -> option bytes.

Lemma flag_path n pr ab : keepsp (eval_flag env n pr ab).
Proof.
  intros s. unfold eval_flag, take_flag. destruct (find_item s _); cbn; [apply sremove_path|].
  destruct (env_first env (n_env n)); cbn; [reflexivity|]. destruct ab; cbn; [reflexivity|].
  destruct (flag_item n); cbn; [reflexivity|]. destruct (n_env n); reflexivity.
Qed.

Lemma convert_path ty w s : path (snd (convert_res ty w s)) = path s.
Proof. unfold convert_res. destruct (convert ty w); reflexivity. Qed.

Lemma arg_path n mv ty adj : keepsp (eval_arg env n mv ty adj).
Proof.
  intros s. unfold eval_arg, take_arg. destruct (find_item s _) as [k|]; cbn.
  - destruct (get s (S k)) as [[c a os|l a os|w|w|w]|]; cbn; try reflexivity;
      rewrite convert_path, !sremove_path; reflexivity.
  - destruct (env_first env (n_env n)); cbn; [rewrite convert_path; reflexivity|].
    destruct (arg_item n mv); cbn; [reflexivity|]. destruct (n_env n); reflexivity.
Qed.

Lemma pos_path mv ty pos help : keepsp (eval_pos mv ty pos help).
Proof.
  intros s. unfold eval_pos, take_positional_word. destruct (find_item s _) as [ix|]; cbn; [|reflexivity].
  destruct (nth_error (items s) ix) as [[c a os|l a os|w|w|w]|]; cbn; try reflexivity;
    destruct pos; cbn; try rewrite convert_path; try apply sremove_path; reflexivity.
Qed.

Lemma parse_option_path ev len s c : keepsp ev ->
  path (snd (parse_option ev len s c)) = path s.
Proof.
  intros H. unfold parse_option. pose proof (H s) as P. destruct (ev s) as [r s']. cbn [snd] in P.
  destruct r; cbn; try exact P.
  - destruct (lt_len (remaining s') len); cbn; exact P.
  - destruct (c || (is_missing m && Nat.eqb (remaining s) (remaining s')) || (negb (is_missing m) && can_catch m)); cbn; [reflexivity|exact P].
Qed.

Lemma many_loop_path ev c : keepsp ev -> forall fuel len s acc, path (snd (many_loop ev c fuel len s acc)) = path s.
Proof.
  intros H. induction fuel as [|f IH]; intros len s acc; cbn [many_loop]; [reflexivity|].
  pose proof (parse_option_path ev len s c H) as P. destruct (parse_option ev len s c) as [[o len'] s']. cbn [snd] in P.
  destruct o; cbn; try exact P. rewrite IH. exact P.
Qed.

Lemma count_loop_path ev : keepsp ev -> forall fuel len s cur k last, path (snd (count_loop ev fuel len s cur k last)) = path s.
Proof.
  intros H. induction fuel as [|f IH]; intros len s cur k last; cbn [count_loop]; [reflexivity|].
  pose proof (parse_option_path ev len s false H) as P. destruct (parse_option ev len s false) as [[o len'] s']. cbn [snd] in P.
  destruct o; cbn; try exact P. destruct (Nat.eqb cur (remaining s')); cbn; [exact P|]. rewrite IH. exact P.
Qed.

Lemma optional_path ev c : keepsp ev -> keepsp (optional_body ev c).
Proof.
  intros H s. unfold optional_body. pose proof (parse_option_path ev None s c H) as P.
  destruct (parse_option ev None s c) as [[o l] s']. destruct o; exact P.
Qed.
Lemma many_path ev c : keepsp ev -> keepsp (many_body ev c).
Proof.
  intros H s. unfold many_body. pose proof (many_loop_path ev c H (loop_fuel s) None s []) as P.
  destruct (many_loop ev c (loop_fuel s) None s []) as [[r acc] s']. destruct r; exact P.
Qed.
Lemma some_path ev m c : keepsp ev -> keepsp (some_body ev m c).
Proof.
  intros H s. unfold some_body. pose proof (many_loop_path ev c H (loop_fuel s) None s []) as P.
  destruct (many_loop ev c (loop_fuel s) None s []) as [[r acc] s']. destruct r; try exact P. destruct acc; exact P.
Qed.
Lemma count_path ev : keepsp ev -> keepsp (count_body ev).
Proof.
  intros H s. unfold count_body. pose proof (count_loop_path ev H (loop_fuel s) None s (remaining s) 0 None) as P.
  destruct (count_loop ev (loop_fuel s) None s (remaining s) 0 None) as [[[r k] l] s']. destruct r; exact P.
Qed.
Lemma last_path ev : keepsp ev -> keepsp (last_body ev).
Proof.
  intros H s. unfold last_body. pose proof (count_loop_path ev H (loop_fuel s) None s (remaining s) 0 None) as P.
  destruct (count_loop ev (loop_fuel s) None s (remaining s) 0 None) as [[[r k] l] s']. cbn [snd] in P.
  destruct r; try exact P. destruct l; [exact P|]. rewrite H. exact P.
Qed.
Lemma fallback_path ev v : keepsp ev -> keepsp (fallback_body ev v).
Proof.
  intros H s. unfold fallback_body, fallback_with_body. pose proof (H s) as P. destruct (ev s) as [r s']. cbn [snd] in P.
  destruct r; cbn; try exact P. destruct (can_catch m); reflexivity.
Qed.

Lemma con_go_path evs : Forall keepsp evs -> forall s first acc err,
  path (snd (con_go false evs s first acc err)) = path s.
Proof.
  induction 1 as [|ev t H Ht IH]; intros s first acc err; cbn [con_go].
  - destruct err; reflexivity.
  - pose proof (H s) as P. destruct (ev s) as [r s']. cbn [snd] in P.
    destruct r; cbn [andb]; try exact P; rewrite IH; exact P.
Qed.

Lemma con_path evs : Forall keepsp evs -> keepsp (con_body false evs).
Proof.
  intros H s. unfold con_body, con_reset. pose proof (con_go_path evs H s true [] None) as P.
  destruct (con_go false evs s true [] None) as [r s']. exact P.
Qed.

Theorem flat_path_all :
  (forall p, flatp p = true -> keepsp (eval env p)) /\
  (forall ps, lflatp ps = true -> Forall keepsp (evals env ps)) /\
  (forall o : oparser, True).
Proof.
  apply parser_plist_oparser_ind; intros; try exact I; cbn [flatp lflatp] in *; try discriminate.
  - intros s. rewrite eval_PFlag. apply flag_path.
  - intros s. rewrite eval_PArg. apply arg_path.
  - intros s. rewrite eval_PPos. apply pos_path.
  - destruct fields as [|q1 [|q2 t]]; try discriminate. intros s. rewrite eval_PCon_many. apply con_path. auto.
  - apply andb_prop in H0. destruct H0 as [_ Hq]. intros s. rewrite eval_POptional. apply optional_path. auto.
  - apply andb_prop in H0. destruct H0 as [_ Hq]. intros s. rewrite eval_PMany. apply many_path. auto.
  - apply andb_prop in H0. destruct H0 as [_ Hq]. intros s. rewrite eval_PSome. apply some_path. auto.
  - intros s. rewrite eval_PCount. apply count_path. auto.
  - intros s. rewrite eval_PLast. apply last_path. auto.
  - intros s. rewrite eval_PFallback. apply fallback_path. auto.
  - constructor.
  - apply andb_prop in H1. destruct H1 as [Hq Ht]. rewrite evals_cons. constructor; auto.
Qed.

Definition flat_path := proj1 flat_path_all.
End WithEnv.
