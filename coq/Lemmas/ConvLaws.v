(* ConvLaws.v -- the conventional fragment (C01): facts that tie Conv.denote's ownership to what
   the evaluator can do with the compiled parser. *)
From Coq Require Import List Bool.
From BpafModel Require Import Conv.
From BpafLemmas Require Import Tac EvalEq Find Reach Ledger NoLoss C05Lemmas OkReach OkLaws.
Import ListNotations.

(* all command names of a level tree *)
Fixpoint all_cmd_names (l : level) : list bytes :=
  match l with
  | Level _ tail => match tail with TCmds cs => all_cmd_names_cs cs | _ => [] end
  end
with all_cmd_names_cs (cs : clist) : list bytes :=
  match cs with
  | CNil => []
  | CCons name aliases sub rest => (name :: aliases) ++ all_cmd_names sub ++ all_cmd_names_cs rest
  end.

Scheme level_mut := Induction for level Sort Prop
  with ctail_mut := Induction for ctail Sort Prop
  with clist_mut := Induction for clist Sort Prop.
Combined Scheme level_ctail_clist_ind from level_mut, ctail_mut, clist_mut.

Section Unowned.
Variable a : arg.
Hypothesis Hkey : is_key a = true.
Let K (k : ckind) : Prop := accepts k a = false.

Lemma key_not_value n : K (KArgVal n).
Proof. unfold K. destruct a; try discriminate; reflexivity. Qed.
Lemma key_not_pos : K KPos.
Proof. unfold K. destruct a; try discriminate; reflexivity. Qed.

Lemma lpkinds_app l1 l2 : lpkinds_ok K (plist_of l1) -> lpkinds_ok K (plist_of l2) -> lpkinds_ok K (plist_of (l1 ++ l2)).
Proof. induction l1 as [|p t IH]; cbn; [auto|]. intros [H1 H2] H3. split; auto. Qed.

Lemma compile_item_ok it : matches_arg (item_named it) false a = false -> pkinds_ok K (compile_item it).
Proof.
  intros H. destruct it as [n|n p q|n p|n|n p|n mv ty ar]; cbn in *; try exact H.
  destruct ar; cbn; (split; [exact H|apply key_not_value]).
Qed.

Lemma compile_items_ok items :
  (forall it, In it items -> matches_arg (item_named it) false a = false) ->
  lpkinds_ok K (plist_of (map compile_item items)).
Proof.
  induction items as [|it t IH]; cbn; [auto|]. intros H. split.
  - apply compile_item_ok. apply H. left. reflexivity.
  - apply IH. intros x Hx. apply H. right. exact Hx.
Qed.

Lemma compile_pos_ok ps : lpkinds_ok K (plist_of (map compile_pos ps)).
Proof.
  induction ps as [|p t IH]; cbn; [auto|]. split; [|exact IH].
  unfold compile_pos. destruct (cp_par p); cbn; apply key_not_pos.
Qed.

Lemma fold_or_ok more : forall c, pkinds_ok K c -> Forall (pkinds_ok K) more -> pkinds_ok K (fold_left POr more c).
Proof.
  induction more as [|x t IH]; intros c Hc Hm; cbn; [exact Hc|].
  inversion Hm; subst. apply IH; [cbn; auto|assumption].
Qed.

(* the raw text of the token is none of the command names *)
Definition not_cmd (names : list bytes) : Prop :=
  forall w, In w names -> beqb (arg_os a) w = false.

Lemma accepts_cmd w : beqb (arg_os a) w = false -> K (KCmd w).
Proof. unfold K. intros H. destruct a; cbn in *; try discriminate; try exact H. destruct adj; [reflexivity|exact H]. Qed.

Definition tail_items (t : ctail) : list citem := match t with TCmds cs => all_items_cs cs | _ => [] end.
Definition tail_names (t : ctail) : list bytes := match t with TCmds cs => all_cmd_names_cs cs | _ => [] end.
Definition tail_parsers (t : ctail) : list parser :=
  match t with
  | TNone => []
  | TPos ps => map compile_pos ps
  | TCmds cs => match compile_cmds cs with [] => [] | c :: more => [fold_left POr more c] end
  end.

Theorem compile_unowned_all :
  (forall l, (forall it, In it (all_items l) -> matches_arg (item_named it) false a = false) ->
             not_cmd (all_cmd_names l) -> pkinds_ok K (compile l)) /\
  (forall t, (forall it, In it (tail_items t) -> matches_arg (item_named it) false a = false) ->
             not_cmd (tail_names t) -> lpkinds_ok K (plist_of (tail_parsers t))) /\
  (forall cs, (forall it, In it (all_items_cs cs) -> matches_arg (item_named it) false a = false) ->
              not_cmd (all_cmd_names_cs cs) -> Forall (pkinds_ok K) (compile_cmds cs)).
Proof.
  apply level_ctail_clist_ind.
  - (* Level *)
    intros items tail IHt Hit Hn. cbn [compile pkinds_ok]. apply lpkinds_app.
    + apply compile_items_ok. intros it Hin. apply Hit. cbn [all_items]. apply in_or_app. left. exact Hin.
    + apply IHt.
      * intros it Hin. apply Hit. cbn [all_items]. apply in_or_app. right. destruct tail; exact Hin.
      * intros w Hw. apply Hn. destruct tail; exact Hw.
  - intros _ _. exact I.
  - intros ps _ _. apply compile_pos_ok.
  - intros cs IH Hit Hn. cbn [tail_parsers]. specialize (IH Hit Hn).
    destruct (compile_cmds cs) as [|c more]; cbn; [exact I|]. split; [|exact I].
    inversion IH; subst. apply fold_or_ok; assumption.
  - intros _ _. constructor.
  - intros name aliases sub IHs rest IHr Hit Hn. cbn [compile_cmds]. constructor.
    + cbn [pkinds_ok opkinds_ok]. split.
      * intros w Hw. rewrite app_nil_r in Hw. apply accepts_cmd. apply Hn. cbn [all_cmd_names_cs].
        apply in_or_app. left. exact Hw.
      * apply IHs.
        -- intros it Hin. apply Hit. cbn [all_items_cs]. apply in_or_app. left. exact Hin.
        -- intros w Hw. apply Hn. cbn [all_cmd_names_cs]. apply in_or_app. right. apply in_or_app. left. exact Hw.
    + apply IHr.
      * intros it Hin. apply Hit. cbn [all_items_cs]. apply in_or_app. right. exact Hin.
      * intros w Hw. apply Hn. cbn [all_cmd_names_cs]. apply in_or_app. right. apply in_or_app. right. exact Hw.
Qed.
End Unowned.

(* C01, the `unknown name' half of Reject: a key (`-x`, `--name`, with or without an attached value)
   that no item of the level tree owns, and whose text is not a command name, is never swallowed:
   the compiled parser cannot return a value on such a vector *)
Theorem unowned_key_never_value feat env l name argv st amb i a :
  initial_state (compile_options l) name argv = (st, amb) ->
  nth_error (items st) i = Some a -> live st i -> is_key a = true ->
  (forall it, In it (all_items l) -> matches_arg (item_named it) false a = false) ->
  (forall w, In w (all_cmd_names l) -> beqb (arg_os a) w = false) ->
  forall v, run_inner feat env (compile_options l) name argv <> OutOk v.
Proof.
  intros Hinit Ha Hl Hk Hit Hn.
  eapply unclaimable_item_run_inner; eauto.
  unfold compile_options. cbn [opkinds_ok].
  apply (proj1 (compile_unowned_all a Hk)); assumption.
Qed.
