(* Find.v -- facts about the ArgsIter search (find_from / find_item / first_item_ix). *)
From BpafLemmas Require Import Tac.

Lemma find_from_some f ix its sts e r :
  find_from f ix its sts e = Some r ->
  ix <= r < e /\ r - ix < length its /\ r - ix < length sts /\
  (exists a st, nth_error its (r - ix) = Some a /\ nth_error sts (r - ix) = Some st /\
                present st = true /\ f r a = true).
Proof.
  revert ix sts. induction its as [|a its IH]; intros ix sts H; cbn in H; [discriminate H|].
  destruct sts as [|st sts]; [discriminate H|].
  destruct (Nat.ltb ix e) eqn:Hlt; [|cbn in H; discriminate H].
  apply Nat.ltb_lt in Hlt.
  destruct (present st && f ix a) eqn:Hc.
  - inversion H; subst r. replace (ix - ix) with 0 by lia. cbn.
    apply andb_prop in Hc. destruct Hc as [Hp Hf].
    repeat split; try lia. exists a, st. auto.
  - apply IH in H. destruct H as (Hr & Hl1 & Hl2 & a' & st' & Ha & Hs & Hp & Hf).
    replace (r - ix) with (S (r - S ix)) by lia. cbn.
    repeat split; try lia. exists a', st'. auto.
Qed.

Lemma find_from_none f ix its sts e :
  find_from f ix its sts e = None ->
  forall k a st, ix + k < e -> nth_error its k = Some a -> nth_error sts k = Some st ->
                 present st = true -> f (ix + k) a = false.
Proof.
  revert ix sts. induction its as [|a its IH]; intros ix sts H k a' st' Hk Ha Hs Hp.
  - destruct k; discriminate.
  - destruct sts as [|st sts]; [destruct k; discriminate|].
    cbn in H. destruct (Nat.ltb ix e) eqn:Hlt.
    + destruct (present st && f ix a) eqn:Hc; [discriminate|].
      destruct k as [|k]; cbn in Ha, Hs.
      * inversion Ha; inversion Hs; subst. rewrite Hp in Hc. cbn in Hc.
        replace (ix + 0) with ix by lia. exact Hc.
      * replace (ix + S k) with (S ix + k) by lia.
        eapply IH; eauto. lia.
    + apply Nat.ltb_ge in Hlt. lia.
Qed.

(* ------------------------------------------------------------------ state helpers *)
Lemma nth_error_skipn {A} (l : list A) n k : nth_error (skipn n l) k = nth_error l (n + k).
Proof.
  revert l. induction n as [|n IH]; intros l; cbn; [reflexivity|].
  destruct l; cbn; [destruct k; reflexivity|apply IH].
Qed.

Lemma find_item_some s f ix :
  find_item s f = Some ix ->
  in_scope s ix = true /\
  exists a st, nth_error (items s) ix = Some a /\ ist_at s ix = Some st /\
               present st = true /\ f ix a = true.
Proof.
  unfold find_item. intros H. apply find_from_some in H.
  destruct H as (Hr & _ & _ & a & st & Ha & Hs & Hp & Hf).
  rewrite nth_error_skipn in Ha. rewrite nth_error_skipn in Hs.
  replace (sc_start s + (ix - sc_start s)) with ix in * by lia.
  split.
  - unfold in_scope. apply andb_true_intro. split; [apply Nat.leb_le|apply Nat.ltb_lt]; lia.
  - exists a, st. auto.
Qed.

Lemma find_item_none s f :
  find_item s f = None ->
  forall ix a st, in_scope s ix = true -> nth_error (items s) ix = Some a ->
                  ist_at s ix = Some st -> present st = true -> f ix a = false.
Proof.
  unfold find_item. intros H ix a st Hin Ha Hs Hp.
  unfold in_scope in Hin. apply andb_prop in Hin. destruct Hin as [H1 H2].
  apply Nat.leb_le in H1. apply Nat.ltb_lt in H2.
  pose proof (find_from_none _ _ _ _ _ H (ix - sc_start s) a st) as Hn.
  replace (sc_start s + (ix - sc_start s)) with ix in Hn by lia.
  apply Hn; try assumption.
  - rewrite nth_error_skipn. replace (sc_start s + (ix - sc_start s)) with ix by lia. exact Ha.
  - rewrite nth_error_skipn. replace (sc_start s + (ix - sc_start s)) with ix by lia. exact Hs.
Qed.

Lemma sremove_other_present k ix s jx :
  jx <> ix -> ist_at (sremove k ix s) jx = ist_at s jx.
Proof.
  intros Hne. unfold sremove.
  destruct (in_scope s ix && _); [|reflexivity].
  unfold ist_at; cbn. clear -Hne.
  revert ix jx Hne. induction (ist s) as [|x l IH]; intros ix jx Hne; cbn.
  - destruct ix; reflexivity.
  - destruct ix, jx; cbn; try reflexivity; try congruence. apply IH. congruence.
Qed.

Lemma sremove_items k ix s : items (sremove k ix s) = items s.
Proof. unfold sremove. destruct (_ && _); reflexivity. Qed.

Lemma sremove_scope k ix s jx : in_scope (sremove k ix s) jx = in_scope s jx.
Proof. unfold sremove. destruct (_ && _); reflexivity. Qed.

Lemma get_some s ix a :
  get s ix = Some a ->
  in_scope s ix = true /\ nth_error (items s) ix = Some a /\
  exists st, ist_at s ix = Some st /\ present st = true.
Proof.
  unfold get. destruct (in_scope s ix) eqn:Hin; cbn [andb]; [|discriminate].
  destruct (ist_at s ix) as [st|] eqn:Hs; [|discriminate].
  destruct (present st) eqn:Hp; [|discriminate].
  intros H. repeat split; auto. eauto.
Qed.

Lemma save_conflicts_go_length win a b : length (save_conflicts_go win a b) = length a.
Proof.
  revert b. induction a as [|x a IH]; intros b; cbn; [reflexivity|].
  destruct b; cbn; [reflexivity|]. rewrite IH. reflexivity.
Qed.

Lemma save_conflicts_go_present win a b i :
  option_map present (nth_error (save_conflicts_go win a b) i) = option_map present (nth_error a i).
Proof.
  revert b i. induction a as [|x a IH]; intros b i; cbn; [reflexivity|].
  destruct b as [|y b]; cbn; [reflexivity|].
  destruct i; cbn.
  - destruct (present x && parsed y) eqn:Hc; [|reflexivity].
    apply andb_prop in Hc. destruct Hc as [Hx _]. cbn. rewrite Hx. reflexivity.
  - apply IH.
Qed.

(* a conflict mark put by save_conflicts names the winner handed in; the others were there before *)
Lemma save_conflicts_go_conflict win a b i w :
  nth_error (save_conflicts_go win a b) i = Some (Conflict w) -> w = win \/ nth_error a i = Some (Conflict w).
Proof.
  revert b i. induction a as [|x a IH]; intros b i; cbn; [auto|].
  destruct b as [|y b]; cbn; [auto|].
  destruct i; cbn.
  - destruct (present x && parsed y); intros H; [inversion H; auto|auto].
  - apply IH.
Qed.

(* pick_winner: the index it reports is a position of both ledgers *)
Lemma pick_winner_go_lt ix me other b w :
  pick_winner_go ix me other = (b, Some w) -> ix <= w /\ w < ix + length me /\ w < ix + length other.
Proof.
  revert ix other. induction me as [|x me IH]; intros ix other; cbn; [discriminate|].
  destruct other as [|y other]; [discriminate|].
  destruct (xorb (parsed x) (parsed y)).
  - intros H. inversion H; subst. cbn. repeat split; try apply Nat.le_refl; apply Nat.lt_add_pos_r; apply Nat.lt_0_succ.
  - intros H. apply IH in H. cbn [length]. destruct H as (H1 & H2 & H3). repeat split.
    + apply Nat.le_trans with (S ix); [apply Nat.le_succ_diag_r|exact H1].
    + rewrite <- Nat.add_succ_comm. exact H2.
    + rewrite <- Nat.add_succ_comm. exact H3.
Qed.

Lemma pick_winner_lt sa sb b w :
  pick_winner sa sb = (b, Some w) -> w < length (ist sa) /\ w < length (ist sb).
Proof. unfold pick_winner. intros H. apply pick_winner_go_lt in H. cbn in H. tauto. Qed.

Lemma find_from_before f ix its sts e r :
  find_from f ix its sts e = Some r ->
  forall k a st, ix + k < r -> nth_error its k = Some a -> nth_error sts k = Some st ->
                 present st = true -> f (ix + k) a = false.
Proof.
  revert ix sts. induction its as [|a its IH]; intros ix sts H k a' st' Hk Ha Hs Hp.
  - destruct k; discriminate.
  - destruct sts as [|st sts]; [destruct k; discriminate|].
    cbn in H. destruct (Nat.ltb ix e) eqn:Hlt; [|discriminate].
    destruct (present st && f ix a) eqn:Hc.
    + inversion H; subst r. lia.
    + destruct k as [|k]; cbn in Ha, Hs.
      * inversion Ha; inversion Hs; subst. rewrite Hp in Hc. cbn in Hc.
        replace (ix + 0) with ix by lia. exact Hc.
      * replace (ix + S k) with (S ix + k) by lia.
        eapply IH; eauto. lia.
Qed.
