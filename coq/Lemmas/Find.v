(* Find.v -- facts about the ArgsIter search (find_from / find_item / first_item_ix). *)
From BpafLemmas Require Import Tac.

Lemma find_from_some f ix its sts e r :
  find_from f ix its sts e = Some r ->
  ix <= r < e /\ r - ix < length its /\ r - ix < length sts /\
  (exists a st, nth_error its (r - ix) = Some a /\ nth_error sts (r - ix) = Some st /\
                present st = true /\ f r a = true).
Proof.
  revert ix sts. induction its as [|a its IH]; intros ix sts H; cbn in H; [discriminate H|].
  destruct sts as [|st sts]; [discriminate H|].
  destruct (Nat.ltb ix e) eqn:Hlt; [|cbn in H; discriminate H].
  apply Nat.ltb_lt in Hlt.
  destruct (present st && f ix a) eqn:Hc.
  - inversion H; subst r. replace (ix - ix) with 0 by lia. cbn.
    apply andb_prop in Hc. destruct Hc as [Hp Hf].
    repeat split; try lia. exists a, st. auto.
  - apply IH in H. destruct H as (Hr & Hl1 & Hl2 & a' & st' & Ha & Hs & Hp & Hf).
    replace (r - ix) with (S (r - S ix)) by lia. cbn.
    repeat split; try lia. exists a', st'. auto.
Qed.

Lemma find_from_none f ix its sts e :
  find_from f ix its sts e = None ->
  forall k a st, ix + k < e -> nth_error its k = Some a -> nth_error sts k = Some st ->
                 present st = true -> f (ix + k) a = false.
Proof.
  revert ix sts. induction its as [|a its IH]; intros ix sts H k a' st' Hk Ha Hs Hp.
  - destruct k; discriminate.
  - destruct sts as [|st sts]; [destruct k; discriminate|].
    cbn in H. destruct (Nat.ltb ix e) eqn:Hlt.
    + destruct (present st && f ix a) eqn:Hc; [discriminate|].
      destruct k as [|k]; cbn in Ha, Hs.
      * inversion Ha; inversion Hs; subst. rewrite Hp in Hc. cbn in Hc.
        replace (ix + 0) with ix by lia. exact Hc.
      * replace (ix + S k) with (S ix + k) by lia.
        eapply IH; eauto. lia.
    + apply Nat.ltb_ge in Hlt. lia.
Qed.
