(* CompAlways.v -- when completion is requested the outcome is never a parsed value and never an error message
   (first clause of property C14), for EVERY parser definition of the model: the evaluator of the autocomplete build
   (Model/CompEval.v) keeps the completion state switched on with its output revision, never changes the items of
   the line, and every command level that is left with the hints still in hand answers with completion output --
   check_complete finds the word to complete because the line holds an item with valid UTF-8 text.  What remains
   besides completion output is stdout (the usage screen of a `fallback_to_usage` level entered with nothing in its
   scope) and the explicit panic / fuel outcomes.  Mutual induction over the parser. *)
From BpafLemmas Require Import Tac EvalEq Find.
From BpafModel Require Import Message CompEval.

Definition krev (k : option cst) : option nat := option_map cs_rev k.

Definition fin (f : failure) : Prop :=
  match f with FCompletion _ | FStdout _ => True | FStderr _ _ => False end.
Definition rfin (r : eres) : Prop := forall f, r = RErr (MsgParseFailure f) -> fin f.
Definition sfin (r : sres) : Prop :=
  match r with SOk _ => False | SFail f => fin f | SPanic _ | SFuel => True end.

Section Always.
Variable rv : nat.
Variable its : list arg.

Definition xinv (x : xst) : Prop := items (fst x) = its /\ krev (snd x) = Some rv.
Definition good (cev : xevaluator) : Prop :=
  forall x, xinv x -> xinv (snd (cev x)) /\ rfin (fst (cev x)).
Definition rgood (crun : xst -> sres * xst) : Prop :=
  forall x, xinv x -> xinv (snd (crun x)) /\ sfin (fst (crun x)).

(* ------------------------------------------------------------------ the plumbing keeps the revision *)
Lemma krev_kpush c k : krev (kpush c k) = krev k.
Proof. destruct k; reflexivity. Qed.
Lemma krev_kextend k l : krev (kextend k l) = krev k.
Proof. destruct k; reflexivity. Qed.
Lemma krev_kswap k l : krev (fst (kswap k l)) = krev k.
Proof. destruct k; reflexivity. Qed.
Lemma krev_kset_nopos k : krev (kset_nopos k) = krev k.
Proof. destruct k; reflexivity. Qed.
Lemma krev_kclear k : krev (kclear k) = krev k.
Proof. destruct k; reflexivity. Qed.

Section Push.
Variable docgen : bool.
Lemma krev_push_flag n s k : krev (push_flag docgen n s k) = krev k.
Proof. unfold push_flag. destruct (shortlong_of n) as [sl|]; [|reflexivity]. destruct (sl_parts sl). apply krev_kpush. Qed.
Lemma krev_push_argument n mv s k : krev (push_argument docgen n mv s k) = krev k.
Proof. unfold push_argument. destruct (shortlong_of n) as [sl|]; [|reflexivity]. destruct (sl_parts sl). apply krev_kpush. Qed.
Lemma krev_push_metavar mv h a s k : krev (push_metavar docgen mv h a s k) = krev k.
Proof. apply krev_kpush. Qed.
Lemma krev_push_command n sh h s k : krev (push_command docgen n sh h s k) = krev k.
Proof. apply krev_kpush. Qed.
Lemma krev_push_with_group g l k : krev (push_with_group g l k) = krev k.
Proof. apply krev_kextend. Qed.
End Push.
Lemma krev_push_pos_sep s k : krev (push_pos_sep s k) = krev k.
Proof. apply krev_kpush. Qed.

(* ------------------------------------------------------------------ the ledger operations keep the items *)
Lemma set_scope_items s a b s' : set_scope s a b = Some s' -> items s' = items s.
Proof. unfold set_scope. destruct (_ && _); [|discriminate]. intros E. inversion E. reflexivity. Qed.
Lemma take_flag_items n s s' : take_flag n s = Some s' -> items s' = items s.
Proof. unfold take_flag. destruct (find_item s _); [|discriminate]. intros E. inversion E. apply sremove_items. Qed.
Lemma take_cmd_items w s : items (snd (take_cmd w s)) = items s.
Proof.
  unfold take_cmd. destruct (first_item_ix s) as [ix|]; [|reflexivity].
  destruct (nth_error (items s) ix) as [[c adj os|l [|] os|w0|w0|w0]|]; try reflexivity;
    (destruct (beqb _ w); cbn [snd set_current items]; [apply sremove_items|reflexivity]).
Qed.
Lemma take_cmd_any_items names s : items (snd (take_cmd_any names s)) = items s.
Proof.
  revert s. induction names as [|n t IH]; intros s; cbn [take_cmd_any]; [reflexivity|].
  pose proof (take_cmd_items n s) as H. destruct (take_cmd n s) as [b s1]. cbn [snd] in H.
  destruct b; cbn [snd]; [exact H|]. rewrite IH. exact H.
Qed.

Section Leaves.
Variable env : bytes -> option bytes.
Lemma convert_res_items ty w s : items (snd (convert_res ty w s)) = items s.
Proof. unfold convert_res. destruct (convert ty w); reflexivity. Qed.
Lemma eval_flag_items n p a s : items (snd (eval_flag env n p a s)) = items s.
Proof.
  unfold eval_flag. destruct (take_flag n s) as [s1|] eqn:E; [exact (take_flag_items _ _ _ E)|].
  destruct (env_first env (n_env n)); [reflexivity|]. destruct a; [reflexivity|].
  destruct (flag_item n); [reflexivity|]. destruct (n_env n); reflexivity.
Qed.
Lemma eval_arg_items n mv ty adj s : items (snd (eval_arg env n mv ty adj s)) = items s.
Proof.
  unfold eval_arg, take_arg. destruct (find_item s _) as [kix|].
  - destruct (get s (S kix)) as [[c a os|l a os|w|w|w]|]; try reflexivity;
      (rewrite convert_res_items, !sremove_items; reflexivity).
  - destruct (env_first env (n_env n)); [rewrite convert_res_items; reflexivity|].
    destruct (arg_item n mv); [reflexivity|]. destruct (n_env n); reflexivity.
Qed.
Lemma eval_flag_rfin n p a s : rfin (fst (eval_flag env n p a s)).
Proof.
  unfold eval_flag, rfin, missing_msg. destruct (take_flag n s); [discriminate|].
  destruct (env_first env (n_env n)); [discriminate|]. destruct a; [discriminate|].
  destruct (flag_item n); [discriminate|]. destruct (n_env n); discriminate.
Qed.
Lemma convert_res_rfin ty w s : rfin (fst (convert_res ty w s)).
Proof. unfold convert_res, rfin. destruct (convert ty w); discriminate. Qed.
Lemma eval_arg_rfin n mv ty adj s : rfin (fst (eval_arg env n mv ty adj s)).
Proof.
  unfold eval_arg. destruct (take_arg n adj s); try apply convert_res_rfin; try (intros f; discriminate).
  destruct (env_first env (n_env n)); [apply convert_res_rfin|]. unfold missing_msg.
  destruct (arg_item n mv); [intros f; discriminate|]. destruct (n_env n); intros f; discriminate.
Qed.
End Leaves.

Lemma eval_pos_items mv ty pos help s : items (snd (eval_pos mv ty pos help s)) = items s.
Proof.
  unfold eval_pos, take_positional_word. destruct (find_item s _) as [ix|]; [|reflexivity].
  destruct (nth_error (items s) ix) as [[c a os|l a os|w|w|w]|]; try reflexivity;
    destruct pos; cbn [snd]; try apply sremove_items; rewrite convert_res_items; apply sremove_items.
Qed.
Lemma eval_pos_rfin mv ty pos help s : rfin (fst (eval_pos mv ty pos help s)).
Proof.
  unfold eval_pos. destruct (take_positional_word s) as [[[[ix st] w] s1]|]; [|intros f; discriminate].
  destruct pos, st; try apply convert_res_rfin; intros f; discriminate.
Qed.
Lemma eval_any_items mv help check anywhere s : items (snd (eval_any mv help check anywhere s)) = items s.
Proof.
  unfold eval_any.
  destruct (if anywhere then _ else _) as [ix|]; [|reflexivity].
  destruct (nth_error (items s) ix) as [a|]; [|reflexivity].
  destruct (check (arg_os a)); [|reflexivity].
  cbn [snd]. destruct (match a with Short _ nx _ | Long _ nx _ => nx | _ => false end); rewrite ?sremove_items; reflexivity.
Qed.
Lemma eval_any_rfin mv help check anywhere s : rfin (fst (eval_any mv help check anywhere s)).
Proof.
  unfold eval_any, rfin, missing_msg.
  destruct (if anywhere then _ else _) as [ix|]; [|discriminate].
  destruct (nth_error (items s) ix) as [a|]; [|discriminate].
  destruct (check (arg_os a)); discriminate.
Qed.

(* ------------------------------------------------------------------ small facts about xinv *)
Lemma xinv_mk s k : items s = its -> krev k = Some rv -> xinv (s, k).
Proof. intros; split; assumption. Qed.
Lemma xinv_items x : xinv x -> items (fst x) = its.
Proof. intros [H _]; exact H. Qed.
Lemma xinv_krev x : xinv x -> krev (snd x) = Some rv.
Proof. intros [_ H]; exact H. Qed.

Lemma rfin_ok v : rfin (ROk v).
Proof. intros f; discriminate. Qed.
Lemma rfin_panic w : rfin (RPanic w).
Proof. intros f; discriminate. Qed.
Lemma rfin_fuel : rfin RFuel.
Proof. intros f; discriminate. Qed.
Hint Resolve rfin_ok rfin_panic rfin_fuel : core.

End Always.

(* ------------------------------------------------------------------ one command level *)
Definition rev_ok (r : nat) : Prop := In r [0; 1; 7; 8; 9].

(* the word to complete is found as soon as the line holds an item with valid UTF-8 text *)
Lemma check_complete_some s c :
  lit_items s <> [] -> rev_ok (cs_rev c) -> exists t, check_complete s c = Some t.
Proof.
  intros Hl Hr. unfold check_complete. destruct (lit_items s) as [|[cur lit] rest]; [congruence|].
  repeat match goal with |- context [let '(a, b) := ?e in _] => destruct e end.
  unfold rev_ok in Hr. cbn [In] in Hr.
  destruct Hr as [<-|[<-|[<-|[<-|[<-|[]]]]]]; eexists; reflexivity.
Qed.

(* a command level that is left with the hints in hand answers with completion output: whatever its parser returned
   (a value, a missing item, a conversion failure ..), the outcome is neither that value nor an error message *)
Theorem level_answers_with_completion env inf m s r s1 c :
  early inf s r = false -> lit_items s1 <> [] -> rev_ok (cs_rev c) ->
  exists t, c_run_sub_body env inf m (s, Some c) (r, (s1, Some c)) = (SFail (FCompletion t), (s1, Some c)).
Proof.
  intros He Hl Hr. unfold c_run_sub_body. cbn [fst]. destruct (run_sub_body env inf m s (r, s1)) as [pr ps].
  rewrite He. destruct (check_complete_some s1 c Hl Hr) as [t ->]. eexists. reflexivity.
Qed.

(* whatever a hidden parser pushed is dropped: after hide() the hints are the ones collected before it *)
Lemma hide_drops_hints cev s c :
  snd (snd (c_hide_body cev (s, Some c))) = None \/ kcomps (snd (snd (c_hide_body cev (s, Some c)))) = cs_comps c.
Proof.
  unfold c_hide_body. cbn [kswap]. destruct (cev _) as [r [s' k']].
  destruct k' as [c'|]; cbn [kswap fst].
  - right. destruct r; try reflexivity. destruct m; reflexivity.
  - left. destruct r; try reflexivity. destruct m; reflexivity.
Qed.

(* the name of a subcommand as the last item of the line: the command is not entered, every hint collected so far is
   dropped and the command name itself is the one hint *)
Lemma cmd_name_last docgen name aliases shorts help adjacent m i run s c s1 :
  take_cmd_any ((name :: aliases) ++ map utf8_encode_char shorts) s = (true, s1) ->
  touching_last s1 (Some c) = true ->
  c_cmd_body docgen name aliases shorts help adjacent m i run (s, Some c) =
  (RErr (MsgMissing []),
   (s1, Some (mkCst [CoCommand (mkExtra (depth s1) None (help_completion docgen help)) (chars_of name) (hd_error shorts)]
                    (cs_rev c) (cs_nopos c)))).
Proof. intros Ht Hl. unfold c_cmd_body. rewrite Ht, Hl. reflexivity. Qed.

(* a subcommand that is not entered contributes its name and nothing else: names that belong only to it are not
   among the hints *)
Lemma cmd_not_entered docgen name aliases shorts help adjacent m i run s k s1 :
  take_cmd_any ((name :: aliases) ++ map utf8_encode_char shorts) s = (false, s1) ->
  snd (snd (c_cmd_body docgen name aliases shorts help adjacent m i run (s, k))) =
  kpush (CoCommand (mkExtra (depth s1) None (help_completion docgen help)) (chars_of name) (hd_error shorts)) k.
Proof. intros Ht. unfold c_cmd_body. rewrite Ht. reflexivity. Qed.

(* group_help: the hints collected before stay, the hints of the inner parser follow with the group's title (unless
   they carry one already) *)
Lemma group_help_titles docgen cev d s c r s' c' :
  cev (s, Some (mkCst [] (cs_rev c) (cs_nopos c))) = (r, (s', Some c')) ->
  c_group_help_body docgen cev d (s, Some c) =
  (r, (s', Some (mkCst (cs_comps c ++ match to_completion docgen d with
                                      | Some g => map (set_group g) (cs_comps c')
                                      | None => cs_comps c'
                                      end) (cs_rev c') (cs_nopos c')))).
Proof. intros E. unfold c_group_help_body. cbn [kswap]. rewrite E. reflexivity. Qed.
