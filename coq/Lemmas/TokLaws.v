(* TokLaws.v -- algebraic laws of the tokenizer (split_os_argument, tok_go), for all byte strings. *)
From BpafLemmas Require Import Tac.

Definition no_eq (l : bytes) : Prop := forall b, In b l -> is_eq_byte b = false.

Lemma split_first_app (n v : bytes) :
  no_eq n -> split_first is_eq_byte (n ++ c_eq :: v) = (n, Some v).
Proof.
  induction n as [|b n IH]; intros Hn; cbn.
  - reflexivity.
  - rewrite (Hn b (or_introl eq_refl)). rewrite IH; [reflexivity|].
    intros x Hx. apply Hn. right. exact Hx.
Qed.

Lemma split_first_none (n : bytes) : no_eq n -> split_first is_eq_byte n = (n, None).
Proof.
  induction n as [|b n IH]; intros Hn; cbn; [reflexivity|].
  rewrite (Hn b (or_introl eq_refl)). rewrite IH; [reflexivity|].
  intros x Hx. apply Hn. right. exact Hx.
Qed.

(* --name=value : the value is every byte after the first `=`, whatever it contains *)
Theorem split_long_eq (n v : bytes) :
  no_eq n -> utf8_valid n = true ->
  split_os_argument (c_dash :: c_dash :: n ++ c_eq :: v) = Some (ATLong, n, Some v).
Proof.
  intros Hn Hu. unfold split_os_argument.
  change (negb (c_dash =? c_dash)%N) with false. cbn [negb].
  change ((c_dash =? c_dash)%N) with true. cbn match.
  rewrite split_first_app by exact Hn. unfold str_ok. rewrite Hu. reflexivity.
Qed.

(* --name *)
Theorem split_long_plain (n : bytes) :
  no_eq n -> n <> [] -> utf8_valid n = true ->
  split_os_argument (c_dash :: c_dash :: n) = Some (ATLong, n, None).
Proof.
  intros Hn Hne Hu. unfold split_os_argument.
  change (negb (c_dash =? c_dash)%N) with false. cbn [negb].
  change ((c_dash =? c_dash)%N) with true. cbn match.
  rewrite split_first_none by exact Hn. unfold str_ok. rewrite Hu.
  destruct n; [congruence|reflexivity].
Qed.

(* -c=value for a one-byte (ASCII) short name *)
Theorem split_short_eq (c : N) (v : bytes) :
  (c <? 128)%N = true -> (c =? c_dash)%N = false ->
  split_os_argument (c_dash :: c :: c_eq :: v) = Some (ATShort, [c], Some v).
Proof.
  intros Hc Hd. unfold split_os_argument.
  change (negb (c_dash =? c_dash)%N) with false. cbn [negb]. rewrite Hd.
  cbn [split_first]. change (is_eq_byte c_eq) with true. cbn match.
  unfold str_ok, utf8_valid. cbn [utf8_decode]. rewrite Hc. reflexivity.
Qed.

(* -c alone *)
Theorem split_short_plain (c : N) :
  (c <? 128)%N = true -> (c =? c_dash)%N = false ->
  split_os_argument [c_dash; c] = Some (ATShort, [c], None).
Proof.
  intros Hc Hd. unfold split_os_argument.
  change (negb (c_dash =? c_dash)%N) with false. cbn [negb]. rewrite Hd.
  cbn [split_first]. unfold str_ok, utf8_valid. cbn [utf8_decode]. rewrite Hc. reflexivity.
Qed.

(* -cREST=more : a short name followed by text containing `=`; everything after the first BYTE is
   the value, including the `=` *)
Theorem split_short_adj_eq (c : N) (v1 v2 : bytes) :
  (c <? 128)%N = true -> (c =? c_dash)%N = false -> no_eq v1 -> v1 <> [] ->
  split_os_argument (c_dash :: c :: v1 ++ c_eq :: v2) = Some (ATShort, [c], Some (v1 ++ c_eq :: v2)).
Proof.
  intros Hc Hd Hn Hne. unfold split_os_argument.
  change (negb (c_dash =? c_dash)%N) with false. cbn [negb]. rewrite Hd.
  rewrite split_first_app by exact Hn.
  destruct v1 as [|b v1]; [congruence|].
  unfold str_ok, utf8_valid. cbn [utf8_decode]. rewrite Hc. reflexivity.
Qed.

(* the defect recorded as known finding C02-short-eq-multibyte: `-ж=1` is not split at all *)
Theorem split_short_eq_multibyte_refuted :
  exists c1 c2 v, utf8_valid [c1; c2] = true /\
                  split_os_argument (c_dash :: c1 :: c2 :: c_eq :: v) = None.
Proof. exists 208%N, 182%N, [49%N]. split; vm_compute; reflexivity. Qed.

(* items that do not start with a dash, the lone dash, and the empty string are never names *)
Theorem split_plain_word (w : bytes) :
  match w with b :: _ :: _ => (b =? c_dash)%N = false | _ => True end ->
  split_os_argument w = None.
Proof.
  destruct w as [|b [|b2 w]]; intros H; cbn; try reflexivity. rewrite H. reflexivity.
Qed.

(* ------------------------------------------------------------------ tok_go level *)
(* after `--` every item becomes a PosWord verbatim *)
Lemma tok_go_pos_only sf sa argv acc marker :
  tok_go sf sa argv true acc marker = mkTok (rev acc ++ map PosWord argv) marker None.
Proof.
  revert acc. induction argv as [|os more IH]; intros acc; cbn [tok_go map].
  - rewrite app_nil_r. reflexivity.
  - rewrite IH. cbn [rev]. rewrite <- app_assoc. reflexivity.
Qed.

(* an item that tokenizes by itself contributes the same tokens wherever it stands (left of `--`) *)
Definition item_tokens (sf sa : list char) (os : bytes) : option (list arg) :=
  match split_os_argument os with
  | Some (ATShort, short, None) =>
    match utf8_decode short with
    | None => None
    | Some cs => match disambiguate_short sf sa os cs with DisOk pushed => Some pushed | DisAmbig _ => None end
    end
  | Some (ATShort, short, Some body) =>
    match utf8_decode short with
    | Some (c :: _) => Some [Short c true os; ArgWord body]
    | _ => None
    end
  | Some (ATLong, long, Some body) => Some [Long long true os; ArgWord body]
  | Some (ATLong, long, None) => Some [Long long false os]
  | None => if beqb os dashdash then None else Some [Word os]
  end.

Lemma tok_go_step sf sa os more acc marker toks :
  item_tokens sf sa os = Some toks ->
  tok_go sf sa (os :: more) false acc marker = tok_go sf sa more false (rev toks ++ acc) marker.
Proof.
  unfold item_tokens. cbn [tok_go].
  destruct (split_os_argument os) as [[[ty nm] body]|].
  - destruct ty, body as [body|].
    + destruct (utf8_decode nm) as [[|c cs]|]; try discriminate. intros H; inv H. reflexivity.
    + destruct (utf8_decode nm) as [cs|]; try discriminate.
      destruct (disambiguate_short sf sa os cs); try discriminate. intros H; inv H. reflexivity.
    + intros H; inv H. reflexivity.
    + intros H; inv H. reflexivity.
  - destruct (beqb os dashdash); try discriminate. intros H; inv H. reflexivity.
Qed.

(* the first `--` : pre-consumed marker, everything after it positional, verbatim *)
Lemma tok_go_dashdash sf sa more acc marker :
  tok_go sf sa (dashdash :: more) false acc marker =
  mkTok (rev acc ++ PosWord dashdash :: map PosWord more) (Some (length acc)) None.
Proof.
  cbn [tok_go]. change (split_os_argument dashdash) with (@None (argtype * bytes * option bytes)).
  change (beqb dashdash dashdash) with true. cbn match.
  rewrite tok_go_pos_only. cbn [rev]. rewrite <- app_assoc. reflexivity.
Qed.

(* C09/C02: tokens of  pre ++ [--] ++ post  when every item of pre tokenizes by itself *)
Fixpoint pre_tokens (sf sa : list char) (pre : list bytes) : option (list arg) :=
  match pre with
  | [] => Some []
  | os :: t =>
    match item_tokens sf sa os, pre_tokens sf sa t with
    | Some a, Some b => Some (a ++ b)
    | _, _ => None
    end
  end.

Lemma tok_go_pre sf sa pre rest acc marker toks :
  pre_tokens sf sa pre = Some toks ->
  tok_go sf sa (pre ++ rest) false acc marker = tok_go sf sa rest false (rev toks ++ acc) marker.
Proof.
  revert acc toks. induction pre as [|os t IH]; intros acc toks H; cbn in H.
  - inv H. reflexivity.
  - destruct (item_tokens sf sa os) as [a|] eqn:Ha; [|discriminate].
    destruct (pre_tokens sf sa t) as [b|] eqn:Hb; [|discriminate]. inv H.
    cbn [app]. rewrite (tok_go_step _ _ _ _ _ _ _ Ha). rewrite (IH _ _ eq_refl).
    rewrite rev_app_distr, <- app_assoc. reflexivity.
Qed.

Theorem tokenize_dashdash sf sa pre post toks :
  pre_tokens sf sa pre = Some toks ->
  tokenize sf sa (pre ++ dashdash :: post) =
  mkTok (toks ++ PosWord dashdash :: map PosWord post) (Some (length toks)) None.
Proof.
  intros H. unfold tokenize. rewrite (tok_go_pre _ _ _ _ _ _ _ H).
  rewrite tok_go_dashdash. rewrite app_nil_r, rev_involutive, rev_length. reflexivity.
Qed.

Theorem tokenize_no_dashdash sf sa pre toks :
  pre_tokens sf sa pre = Some toks ->
  tokenize sf sa pre = mkTok toks None None.
Proof.
  intros H. unfold tokenize. rewrite <- (app_nil_r pre). rewrite (tok_go_pre _ _ _ _ _ _ _ H).
  cbn. rewrite app_nil_r, rev_involutive. reflexivity.
Qed.

(* tokens are a homomorphism on vectors whose items tokenize by themselves: this is what makes
   moving or replacing one whole occurrence a local change of the token list (C02, C03) *)
Theorem pre_tokens_app sf sa a b ta tb :
  pre_tokens sf sa a = Some ta -> pre_tokens sf sa b = Some tb ->
  pre_tokens sf sa (a ++ b) = Some (ta ++ tb).
Proof.
  revert ta. induction a as [|os t IH]; intros ta Ha Hb; cbn in *.
  - inv Ha. exact Hb.
  - destruct (item_tokens sf sa os) as [x|]; [|discriminate].
    destruct (pre_tokens sf sa t) as [y|] eqn:Hy; [|discriminate]. inv Ha.
    rewrite (IH _ eq_refl Hb). rewrite app_assoc. reflexivity.
Qed.

(* ------------------------------------------------------------------ clusters *)
(* -abc with every letter a declared flag that is not also an argument = -a -b -c, up to the
   original-text payload of the first token *)
Lemma dis_go_flags sf sa os cs first ff acc :
  (forall c, In c cs -> mem_N c sf = true /\ mem_N c sa = false) ->
  (first = true -> length cs >= 2) ->
  dis_go sf sa os cs first ff acc =
  DisOk (rev acc ++ match cs with
                    | [] => []
                    | c :: t => Short c false ff :: map (fun c => Short c false []) t
                    end).
Proof.
  revert first ff acc. induction cs as [|c rest IH]; intros first ff acc Hall Hlen; cbn [dis_go].
  - rewrite app_nil_r. reflexivity.
  - match goal with |- context [if ?c then _ else _] => assert (Hf : c = false) end.
    { destruct first; [|reflexivity]. specialize (Hlen eq_refl). destruct rest; cbn in *; [lia|reflexivity]. }
    rewrite Hf. destruct (Hall c (or_introl eq_refl)) as [H1 H2]. rewrite H1, H2.
    rewrite IH.
    + cbn [rev]. rewrite <- app_assoc. cbn [app]. f_equal. f_equal.
      destruct rest; reflexivity.
    + intros x Hx. apply Hall. right. exact Hx.
    + discriminate.
Qed.

Theorem cluster_tokens sf sa os cs :
  (forall c, In c cs -> mem_N c sf = true /\ mem_N c sa = false) -> length cs >= 2 ->
  disambiguate_short sf sa os cs =
  DisOk (match cs with
         | [] => []
         | c :: t => Short c false os :: map (fun c => Short c false []) t
         end).
Proof.
  intros Hall Hlen. unfold disambiguate_short. rewrite dis_go_flags; auto.
Qed.
