(* TokLaws.v -- algebraic laws of the tokenizer (split_os_argument, tok_go), for all byte strings. *)
From BpafLemmas Require Import Tac.

Definition no_eq (l : bytes) : Prop := forall b, In b l -> is_eq_byte b = false.

Lemma split_first_app (n v : bytes) :
  no_eq n -> split_first is_eq_byte (n ++ c_eq :: v) = (n, Some v).
Proof.
  induction n as [|b n IH]; intros Hn; cbn.
  - reflexivity.
  - rewrite (Hn b (or_introl eq_refl)). rewrite IH; [reflexivity|].
    intros x Hx. apply Hn. right. exact Hx.
Qed.

Lemma split_first_none (n : bytes) : no_eq n -> split_first is_eq_byte n = (n, None).
Proof.
  induction n as [|b n IH]; intros Hn; cbn; [reflexivity|].
  rewrite (Hn b (or_introl eq_refl)). rewrite IH; [reflexivity|].
  intros x Hx. apply Hn. right. exact Hx.
Qed.

(* --name=value : the value is every byte after the first `=`, whatever it contains *)
Theorem split_long_eq (n v : bytes) :
  no_eq n -> utf8_valid n = true ->
  split_os_argument (c_dash :: c_dash :: n ++ c_eq :: v) = Some (ATLong, n, Some v).
Proof.
  intros Hn Hu. unfold split_os_argument.
  change (negb (c_dash =? c_dash)%N) with false. cbn [negb].
  change ((c_dash =? c_dash)%N) with true. cbn match.
  rewrite split_first_app by exact Hn. unfold str_ok. rewrite Hu. reflexivity.
Qed.

(* --name *)
Theorem split_long_plain (n : bytes) :
  no_eq n -> n <> [] -> utf8_valid n = true ->
  split_os_argument (c_dash :: c_dash :: n) = Some (ATLong, n, None).
Proof.
  intros Hn Hne Hu. unfold split_os_argument.
  change (negb (c_dash =? c_dash)%N) with false. cbn [negb].
  change ((c_dash =? c_dash)%N) with true. cbn match.
  rewrite split_first_none by exact Hn. unfold str_ok. rewrite Hu.
  destruct n; [congruence|reflexivity].
Qed.

Lemma first_len_ascii c : (c <? 128)%N = true -> utf8_first_len c = 1.
Proof.
  intros H. unfold utf8_first_len. apply N.ltb_lt in H.
  assert (E : (c <? 192)%N = true) by (apply N.ltb_lt; lia). rewrite E. reflexivity.
Qed.

(* -c=value for a one-byte (ASCII) short name *)
Theorem split_short_eq (c : N) (v : bytes) :
  (c <? 128)%N = true -> (c =? c_dash)%N = false ->
  split_os_argument (c_dash :: c :: c_eq :: v) = Some (ATShort, [c], Some v).
Proof.
  intros Hc Hd. unfold split_os_argument.
  change (negb (c_dash =? c_dash)%N) with false. cbn [negb]. rewrite Hd.
  cbn [split_first]. change (is_eq_byte c_eq) with true. cbn match.
  rewrite (first_len_ascii c Hc). cbn [length Nat.min Nat.ltb Nat.leb].
  unfold str_ok, utf8_valid. cbn [utf8_decode]. rewrite Hc. reflexivity.
Qed.

(* -c alone *)
Theorem split_short_plain (c : N) :
  (c <? 128)%N = true -> (c =? c_dash)%N = false ->
  split_os_argument [c_dash; c] = Some (ATShort, [c], None).
Proof.
  intros Hc Hd. unfold split_os_argument.
  change (negb (c_dash =? c_dash)%N) with false. cbn [negb]. rewrite Hd.
  cbn [split_first]. unfold str_ok, utf8_valid. cbn [utf8_decode]. rewrite Hc. reflexivity.
Qed.

(* -cREST=more : a short name followed by text containing `=`; everything after the first CHARACTER is
   the value, including the `=` *)
Theorem split_short_adj_eq (c : N) (v1 v2 : bytes) :
  (c <? 128)%N = true -> (c =? c_dash)%N = false -> no_eq v1 -> v1 <> [] ->
  split_os_argument (c_dash :: c :: v1 ++ c_eq :: v2) = Some (ATShort, [c], Some (v1 ++ c_eq :: v2)).
Proof.
  intros Hc Hd Hn Hne. unfold split_os_argument.
  change (negb (c_dash =? c_dash)%N) with false. cbn [negb]. rewrite Hd.
  rewrite split_first_app by exact Hn.
  destruct v1 as [|b v1]; [congruence|].
  rewrite (first_len_ascii c Hc). cbn [length Nat.min Nat.ltb Nat.leb firstn skipn].
  unfold str_ok, utf8_valid. cbn [utf8_decode]. rewrite Hc. reflexivity.
Qed.

(* ---- short names of ANY character (after the fix: commit; before it `-ж=1` was not split at all: the name was cut
   after its first BYTE -- the former known finding C02-short-eq-multibyte) *)
Lemma utf8_decode_nil t : utf8_decode t = Some [] -> t = [].
Proof.
  destruct t as [|b0 t0]; [reflexivity|]. cbn [utf8_decode]. intros H. exfalso.
  repeat match type of H with
         | (if ?c then _ else _) = _ => destruct c
         | match ?x with _ => _ end = _ => destruct x
         | option_map _ ?o = _ => destruct o; cbn [option_map] in H
         end; discriminate.
Qed.

Lemma cont_not_eq b : is_cont b = true -> is_eq_byte b = false.
Proof.
  unfold is_cont, is_eq_byte, c_eq. intros H. apply andb_prop in H. destruct H as [H _].
  apply N.leb_le in H. apply N.eqb_neq. lia.
Qed.

Lemma ge_not_eq lo b : (lo <=? b)%N = true -> (128 <= lo)%N -> is_eq_byte b = false.
Proof. unfold is_eq_byte, c_eq. intros H Hl. apply N.leb_le in H. apply N.eqb_neq. lia. Qed.

(* a name that is exactly one character (1 to 4 bytes): `-X=value` gives the name X and every byte after the `=` *)
Theorem split_short_eq_char (n v : bytes) (ch : char) :
  utf8_decode n = Some [ch] -> (hd 0%N n =? c_dash)%N = false ->
  split_os_argument (c_dash :: n ++ c_eq :: v) = Some (ATShort, n, Some v).
Proof.
  destruct n as [|b0 t0]; [discriminate|]. cbn [hd]. intros Hu Hd.
  assert (Hv : str_ok (b0 :: t0) = true) by (unfold str_ok, utf8_valid; rewrite Hu; reflexivity).
  cbn [utf8_decode] in Hu.
  unfold split_os_argument. cbn [app]. change (negb (c_dash =? c_dash)%N) with false. cbn [negb]. rewrite Hd.
  destruct (b0 <? 128)%N eqn:A1.
  - (* one byte *)
    destruct (utf8_decode t0) as [l|] eqn:E; [|discriminate]. cbn [option_map] in Hu. injection Hu as _ Hl. subst l.
    apply utf8_decode_nil in E. subst t0. cbn [app split_first]. change (is_eq_byte c_eq) with true. cbn match.
    rewrite (first_len_ascii b0 A1). cbn [length Nat.min Nat.ltb Nat.leb]. rewrite Hv. reflexivity.
  - destruct ((194 <=? b0)%N && (b0 <=? 223)%N) eqn:A2.
    + (* two bytes *)
      destruct t0 as [|b1 t1]; [discriminate|]. destruct (is_cont b1) eqn:C1; [|discriminate].
      destruct (utf8_decode t1) as [l|] eqn:E; [|discriminate]. cbn [option_map] in Hu. injection Hu as _ Hl. subst l.
      apply utf8_decode_nil in E. subst t1. cbn [app split_first]. rewrite (cont_not_eq b1 C1).
      change (is_eq_byte c_eq) with true. cbn match.
      apply andb_prop in A2. destruct A2 as [L1 L2]. apply N.leb_le in L1. apply N.leb_le in L2.
      assert (F : utf8_first_len b0 = 2).
      { unfold utf8_first_len. assert (X1 : (b0 <? 192)%N = false) by (apply N.ltb_ge; lia).
        assert (X2 : (b0 <? 224)%N = true) by (apply N.ltb_lt; lia). rewrite X1, X2. reflexivity. }
      rewrite F. cbn [length Nat.min Nat.ltb Nat.leb]. rewrite Hv. reflexivity.
    + destruct ((224 <=? b0)%N && (b0 <=? 239)%N) eqn:A3.
      * (* three bytes *)
        destruct t0 as [|b1 [|b2 t2]]; try discriminate.
        match type of Hu with (if ?c then _ else _) = _ => destruct c eqn:C end; [|discriminate].
        destruct (utf8_decode t2) as [l|] eqn:E; [|discriminate]. cbn [option_map] in Hu. injection Hu as _ Hl. subst l.
        apply utf8_decode_nil in E. subst t2.
        apply andb_prop in C. destruct C as [C C2]. apply andb_prop in C. destruct C as [Clo _].
        assert (N1 : is_eq_byte b1 = false).
        { eapply ge_not_eq; [exact Clo|]. destruct (b0 =? 224)%N; lia. }
        cbn [app split_first]. rewrite N1, (cont_not_eq b2 C2). change (is_eq_byte c_eq) with true. cbn match.
        apply andb_prop in A3. destruct A3 as [L1 L2]. apply N.leb_le in L1. apply N.leb_le in L2.
        assert (F : utf8_first_len b0 = 3).
        { unfold utf8_first_len. assert (X1 : (b0 <? 192)%N = false) by (apply N.ltb_ge; lia).
          assert (X2 : (b0 <? 224)%N = false) by (apply N.ltb_ge; lia).
          assert (X3 : (b0 <? 240)%N = true) by (apply N.ltb_lt; lia). rewrite X1, X2, X3. reflexivity. }
        rewrite F. cbn [length Nat.min Nat.ltb Nat.leb]. rewrite Hv. reflexivity.
      * destruct ((240 <=? b0)%N && (b0 <=? 244)%N) eqn:A4; [|discriminate].
        (* four bytes *)
        destruct t0 as [|b1 [|b2 [|b3 t3]]]; try discriminate.
        match type of Hu with (if ?c then _ else _) = _ => destruct c eqn:C end; [|discriminate].
        destruct (utf8_decode t3) as [l|] eqn:E; [|discriminate]. cbn [option_map] in Hu. injection Hu as _ Hl. subst l.
        apply utf8_decode_nil in E. subst t3.
        apply andb_prop in C. destruct C as [C C3]. apply andb_prop in C. destruct C as [C C2].
        apply andb_prop in C. destruct C as [Clo _].
        assert (N1 : is_eq_byte b1 = false).
        { eapply ge_not_eq; [exact Clo|]. destruct (b0 =? 240)%N; lia. }
        cbn [app split_first]. rewrite N1, (cont_not_eq b2 C2), (cont_not_eq b3 C3).
        change (is_eq_byte c_eq) with true. cbn match.
        apply andb_prop in A4. destruct A4 as [L1 L2]. apply N.leb_le in L1. apply N.leb_le in L2.
        assert (F : utf8_first_len b0 = 4).
        { unfold utf8_first_len. assert (X1 : (b0 <? 192)%N = false) by (apply N.ltb_ge; lia).
          assert (X2 : (b0 <? 224)%N = false) by (apply N.ltb_ge; lia).
          assert (X3 : (b0 <? 240)%N = false) by (apply N.ltb_ge; lia). rewrite X1, X2, X3. reflexivity. }
        rewrite F. cbn [length Nat.min Nat.ltb Nat.leb]. rewrite Hv. reflexivity.
Qed.

(* the shape of a name that is exactly one character: as long as its lead byte says, and no `=` after the lead byte *)
Lemma one_char_shape (n : bytes) (ch : char) :
  utf8_decode n = Some [ch] ->
  exists b0 t, n = b0 :: t /\ length n = utf8_first_len b0 /\ no_eq t.
Proof.
  destruct n as [|b0 t0]; [discriminate|]. intros Hu. exists b0, t0. split; [reflexivity|].
  cbn [utf8_decode] in Hu.
  destruct (b0 <? 128)%N eqn:A1.
  - destruct (utf8_decode t0) as [l|] eqn:E; [|discriminate]. cbn [option_map] in Hu. injection Hu as _ Hl. subst l.
    apply utf8_decode_nil in E. subst t0. rewrite (first_len_ascii b0 A1). split; [reflexivity|]. intros b [].
  - destruct ((194 <=? b0)%N && (b0 <=? 223)%N) eqn:A2.
    + destruct t0 as [|b1 t1]; [discriminate|]. destruct (is_cont b1) eqn:C1; [|discriminate].
      destruct (utf8_decode t1) as [l|] eqn:E; [|discriminate]. cbn [option_map] in Hu. injection Hu as _ Hl. subst l.
      apply utf8_decode_nil in E. subst t1.
      apply andb_prop in A2. destruct A2 as [L1 L2]. apply N.leb_le in L1. apply N.leb_le in L2.
      split.
      * unfold utf8_first_len. assert (X1 : (b0 <? 192)%N = false) by (apply N.ltb_ge; lia).
        assert (X2 : (b0 <? 224)%N = true) by (apply N.ltb_lt; lia). rewrite X1, X2. reflexivity.
      * intros b [<-|[]]. apply cont_not_eq. exact C1.
    + destruct ((224 <=? b0)%N && (b0 <=? 239)%N) eqn:A3.
      * destruct t0 as [|b1 [|b2 t2]]; try discriminate.
        match type of Hu with (if ?c then _ else _) = _ => destruct c eqn:C end; [|discriminate].
        destruct (utf8_decode t2) as [l|] eqn:E; [|discriminate]. cbn [option_map] in Hu. injection Hu as _ Hl. subst l.
        apply utf8_decode_nil in E. subst t2.
        apply andb_prop in C. destruct C as [C C2]. apply andb_prop in C. destruct C as [Clo _].
        apply andb_prop in A3. destruct A3 as [L1 L2]. apply N.leb_le in L1. apply N.leb_le in L2.
        split.
        -- unfold utf8_first_len. assert (X1 : (b0 <? 192)%N = false) by (apply N.ltb_ge; lia).
           assert (X2 : (b0 <? 224)%N = false) by (apply N.ltb_ge; lia).
           assert (X3 : (b0 <? 240)%N = true) by (apply N.ltb_lt; lia). rewrite X1, X2, X3. reflexivity.
        -- intros b [<-|[<-|[]]]; [|apply cont_not_eq; exact C2].
           eapply ge_not_eq; [exact Clo|]. destruct (b0 =? 224)%N; lia.
      * destruct ((240 <=? b0)%N && (b0 <=? 244)%N) eqn:A4; [|discriminate].
        destruct t0 as [|b1 [|b2 [|b3 t3]]]; try discriminate.
        match type of Hu with (if ?c then _ else _) = _ => destruct c eqn:C end; [|discriminate].
        destruct (utf8_decode t3) as [l|] eqn:E; [|discriminate]. cbn [option_map] in Hu. injection Hu as _ Hl. subst l.
        apply utf8_decode_nil in E. subst t3.
        apply andb_prop in C. destruct C as [C C3]. apply andb_prop in C. destruct C as [C C2].
        apply andb_prop in C. destruct C as [Clo _].
        apply andb_prop in A4. destruct A4 as [L1 L2]. apply N.leb_le in L1. apply N.leb_le in L2.
        split.
        -- unfold utf8_first_len. assert (X1 : (b0 <? 192)%N = false) by (apply N.ltb_ge; lia).
           assert (X2 : (b0 <? 224)%N = false) by (apply N.ltb_ge; lia).
           assert (X3 : (b0 <? 240)%N = false) by (apply N.ltb_ge; lia). rewrite X1, X2, X3. reflexivity.
        -- intros b [<-|[<-|[<-|[]]]]; [|apply cont_not_eq; exact C2|apply cont_not_eq; exact C3].
           eapply ge_not_eq; [exact Clo|]. destruct (b0 =? 240)%N; lia.
Qed.

(* -Xvalue=more for a name X of any character: everything after the CHARACTER is the value, `=` included *)
Theorem split_short_adj_eq_char (n v1 v2 : bytes) (ch : char) :
  utf8_decode n = Some [ch] -> (hd 0%N n =? c_dash)%N = false -> no_eq v1 -> v1 <> [] ->
  split_os_argument (c_dash :: n ++ v1 ++ c_eq :: v2) = Some (ATShort, n, Some (v1 ++ c_eq :: v2)).
Proof.
  intros Hu Hd Hn Hne.
  assert (Hv : str_ok n = true) by (unfold str_ok, utf8_valid; rewrite Hu; reflexivity).
  destruct (one_char_shape n ch Hu) as (b0 & t & -> & Hl & Ht). cbn [hd] in Hd.
  unfold split_os_argument. cbn [app]. change (negb (c_dash =? c_dash)%N) with false. cbn [negb]. rewrite Hd.
  rewrite app_assoc. rewrite split_first_app.
  2:{ intros b Hb. apply in_app_or in Hb. destruct Hb; auto. }
  cbn [length] in Hl.
  assert (Hlen : length (b0 :: t ++ v1) = utf8_first_len b0 + length v1) by (cbn [length]; rewrite app_length; lia).
  assert (Hpos : 1 <= length v1) by (destruct v1; [congruence|cbn; lia]).
  rewrite Hlen. rewrite Nat.min_l by lia.
  assert (Hlt : Nat.ltb (utf8_first_len b0) (utf8_first_len b0 + length v1) = true) by (apply Nat.ltb_lt; lia).
  rewrite Hlt.
  assert (F : firstn (utf8_first_len b0) (b0 :: t ++ v1) = b0 :: t).
  { rewrite <- Hl. change (b0 :: t ++ v1) with ((b0 :: t) ++ v1). change (S (length t)) with (length (b0 :: t)).
    rewrite firstn_app, Nat.sub_diag, firstn_all. cbn [firstn]. apply app_nil_r. }
  assert (K : skipn (utf8_first_len b0) (b0 :: t ++ v1) = v1).
  { rewrite <- Hl. change (b0 :: t ++ v1) with ((b0 :: t) ++ v1). change (S (length t)) with (length (b0 :: t)).
    rewrite skipn_app, Nat.sub_diag, skipn_all. reflexivity. }
  rewrite F, K, Hv. reflexivity.
Qed.

(* the former witness of the defect: `-ж=1` *)
Example split_short_eq_cyrillic :
  split_os_argument [45; 208; 182; 61; 49]%N = Some (ATShort, [208; 182]%N, Some [49%N]).
Proof. vm_compute. reflexivity. Qed.

(* items that do not start with a dash, the lone dash, and the empty string are never names *)
Theorem split_plain_word (w : bytes) :
  match w with b :: _ :: _ => (b =? c_dash)%N = false | _ => True end ->
  split_os_argument w = None.
Proof.
  destruct w as [|b [|b2 w]]; intros H; cbn; try reflexivity. rewrite H. reflexivity.
Qed.

(* ------------------------------------------------------------------ tok_go level *)
(* after `--` every item becomes a PosWord verbatim *)
Lemma tok_go_pos_only sf sa argv acc marker :
  tok_go sf sa argv true acc marker = mkTok (rev acc ++ map PosWord argv) marker None.
Proof.
  revert acc. induction argv as [|os more IH]; intros acc; cbn [tok_go map].
  - rewrite app_nil_r. reflexivity.
  - rewrite IH. cbn [rev]. rewrite <- app_assoc. reflexivity.
Qed.

(* an item that tokenizes by itself contributes the same tokens wherever it stands (left of `--`) *)
Definition item_tokens (sf sa : list char) (os : bytes) : option (list arg) :=
  match split_os_argument os with
  | Some (ATShort, short, None) =>
    match utf8_decode short with
    | None => None
    | Some cs => match disambiguate_short sf sa os cs with DisOk pushed => Some pushed | DisAmbig _ => None end
    end
  | Some (ATShort, short, Some body) =>
    match utf8_decode short with
    | Some (c :: _) => Some [Short c true os; ArgWord body]
    | _ => None
    end
  | Some (ATLong, long, Some body) => Some [Long long true os; ArgWord body]
  | Some (ATLong, long, None) => Some [Long long false os]
  | None => if beqb os dashdash then None else Some [Word os]
  end.

Lemma tok_go_step sf sa os more acc marker toks :
  item_tokens sf sa os = Some toks ->
  tok_go sf sa (os :: more) false acc marker = tok_go sf sa more false (rev toks ++ acc) marker.
Proof.
  unfold item_tokens. cbn [tok_go].
  destruct (split_os_argument os) as [[[ty nm] body]|].
  - destruct ty, body as [body|].
    + destruct (utf8_decode nm) as [[|c cs]|]; try discriminate. intros H; inv H. reflexivity.
    + destruct (utf8_decode nm) as [cs|]; try discriminate.
      destruct (disambiguate_short sf sa os cs); try discriminate. intros H; inv H. reflexivity.
    + intros H; inv H. reflexivity.
    + intros H; inv H. reflexivity.
  - destruct (beqb os dashdash); try discriminate. intros H; inv H. reflexivity.
Qed.

(* the first `--` : pre-consumed marker, everything after it positional, verbatim *)
Lemma tok_go_dashdash sf sa more acc marker :
  tok_go sf sa (dashdash :: more) false acc marker =
  mkTok (rev acc ++ PosWord dashdash :: map PosWord more) (Some (length acc)) None.
Proof.
  cbn [tok_go]. change (split_os_argument dashdash) with (@None (argtype * bytes * option bytes)).
  change (beqb dashdash dashdash) with true. cbn match.
  rewrite tok_go_pos_only. cbn [rev]. rewrite <- app_assoc. reflexivity.
Qed.

(* C09/C02: tokens of  pre ++ [--] ++ post  when every item of pre tokenizes by itself *)
Fixpoint pre_tokens (sf sa : list char) (pre : list bytes) : option (list arg) :=
  match pre with
  | [] => Some []
  | os :: t =>
    match item_tokens sf sa os, pre_tokens sf sa t with
    | Some a, Some b => Some (a ++ b)
    | _, _ => None
    end
  end.

Lemma tok_go_pre sf sa pre rest acc marker toks :
  pre_tokens sf sa pre = Some toks ->
  tok_go sf sa (pre ++ rest) false acc marker = tok_go sf sa rest false (rev toks ++ acc) marker.
Proof.
  revert acc toks. induction pre as [|os t IH]; intros acc toks H; cbn in H.
  - inv H. reflexivity.
  - destruct (item_tokens sf sa os) as [a|] eqn:Ha; [|discriminate].
    destruct (pre_tokens sf sa t) as [b|] eqn:Hb; [|discriminate]. inv H.
    cbn [app]. rewrite (tok_go_step _ _ _ _ _ _ _ Ha). rewrite (IH _ _ eq_refl).
    rewrite rev_app_distr, <- app_assoc. reflexivity.
Qed.

Theorem tokenize_dashdash sf sa pre post toks :
  pre_tokens sf sa pre = Some toks ->
  tokenize sf sa (pre ++ dashdash :: post) =
  mkTok (toks ++ PosWord dashdash :: map PosWord post) (Some (length toks)) None.
Proof.
  intros H. unfold tokenize. rewrite (tok_go_pre _ _ _ _ _ _ _ H).
  rewrite tok_go_dashdash. rewrite app_nil_r, rev_involutive, rev_length. reflexivity.
Qed.

Theorem tokenize_no_dashdash sf sa pre toks :
  pre_tokens sf sa pre = Some toks ->
  tokenize sf sa pre = mkTok toks None None.
Proof.
  intros H. unfold tokenize. rewrite <- (app_nil_r pre). rewrite (tok_go_pre _ _ _ _ _ _ _ H).
  cbn. rewrite app_nil_r, rev_involutive. reflexivity.
Qed.

(* tokens are a homomorphism on vectors whose items tokenize by themselves: this is what makes
   moving or replacing one whole occurrence a local change of the token list (C02, C03) *)
Theorem pre_tokens_app sf sa a b ta tb :
  pre_tokens sf sa a = Some ta -> pre_tokens sf sa b = Some tb ->
  pre_tokens sf sa (a ++ b) = Some (ta ++ tb).
Proof.
  revert ta. induction a as [|os t IH]; intros ta Ha Hb; cbn in *.
  - inv Ha. exact Hb.
  - destruct (item_tokens sf sa os) as [x|]; [|discriminate].
    destruct (pre_tokens sf sa t) as [y|] eqn:Hy; [|discriminate]. inv Ha.
    rewrite (IH _ eq_refl Hb). rewrite app_assoc. reflexivity.
Qed.

(* ------------------------------------------------------------------ clusters *)
(* -abc with every letter a declared flag that is not also an argument = -a -b -c, up to the
   original-text payload of the first token *)
Lemma dis_go_flags sf sa os cs first ff acc :
  (forall c, In c cs -> mem_N c sf = true /\ mem_N c sa = false) ->
  (first = true -> length cs >= 2) ->
  dis_go sf sa os cs first ff acc =
  DisOk (rev acc ++ match cs with
                    | [] => []
                    | c :: t => Short c false ff :: map (fun c => Short c false []) t
                    end).
Proof.
  revert first ff acc. induction cs as [|c rest IH]; intros first ff acc Hall Hlen; cbn [dis_go].
  - rewrite app_nil_r. reflexivity.
  - match goal with |- context [if ?c then _ else _] => assert (Hf : c = false) end.
    { destruct first; [|reflexivity]. specialize (Hlen eq_refl). destruct rest; cbn in *; [lia|reflexivity]. }
    rewrite Hf. destruct (Hall c (or_introl eq_refl)) as [H1 H2]. rewrite H1, H2.
    rewrite IH.
    + cbn [rev]. rewrite <- app_assoc. cbn [app]. f_equal. f_equal.
      destruct rest; reflexivity.
    + intros x Hx. apply Hall. right. exact Hx.
    + discriminate.
Qed.

Theorem cluster_tokens sf sa os cs :
  (forall c, In c cs -> mem_N c sf = true /\ mem_N c sa = false) -> length cs >= 2 ->
  disambiguate_short sf sa os cs =
  DisOk (match cs with
         | [] => []
         | c :: t => Short c false os :: map (fun c => Short c false []) t
         end).
Proof.
  intros Hall Hlen. unfold disambiguate_short. rewrite dis_go_flags; auto.
Qed.
