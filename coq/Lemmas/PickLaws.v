(* PickLaws.v -- the decision rule of ParseOrElse (this_or_that_picks_first, pick_winner). *)
From BpafLemmas Require Import Tac EvalEq Find.

(* pick_winner: the first index at which exactly one of the two ledgers shows the item consumed
   decides; the branch that consumed it wins; no such index: the first branch *)
Lemma pick_winner_go_spec ix me other b r :
  pick_winner_go ix me other = (b, r) ->
  match r with
  | Some j =>
    ix <= j /\
    (forall k, k < j - ix -> forall x y, nth_error me k = Some x -> nth_error other k = Some y ->
                                         parsed x = parsed y) /\
    (exists x y, nth_error me (j - ix) = Some x /\ nth_error other (j - ix) = Some y /\
                 parsed x = b /\ parsed y = negb b)
  | None =>
    b = true /\
    (forall k x y, nth_error me k = Some x -> nth_error other k = Some y -> parsed x = parsed y)
  end.
Proof.
  revert ix other. induction me as [|a me IH]; intros ix other H; cbn in H.
  - inv H. split; [reflexivity|]. intros k x y Hx. destruct k; discriminate.
  - destruct other as [|c other].
    + inv H. split; [reflexivity|]. intros k x y _ Hy. destruct k; discriminate.
    + destruct (xorb (parsed a) (parsed c)) eqn:Hx.
      * inv H. split; [lia|]. split; [intros k Hk; lia|].
        replace (ix - ix) with 0 by lia. exists a, c. cbn. repeat split.
        destruct (parsed a), (parsed c); cbn in *; congruence.
      * apply IH in H. destruct r as [j|].
        -- destruct H as (Hle & Hbefore & x & y & Hx1 & Hy1 & Hb1 & Hb2).
           split; [lia|]. split.
           ++ intros k Hk x0 y0 Hx0 Hy0. destruct k as [|k]; cbn in *.
              ** inv Hx0. inv Hy0. destruct (parsed x0), (parsed y0); cbn in *; congruence.
              ** eapply Hbefore; eauto. lia.
           ++ replace (j - ix) with (S (j - S ix)) by lia. cbn. eauto 8.
        -- destruct H as [-> Hall]. split; [reflexivity|].
           intros k x y Hx0 Hy0. destruct k as [|k]; cbn in *.
           ++ inv Hx0. inv Hy0. destruct (parsed x), (parsed y); cbn in *; congruence.
           ++ eapply Hall; eauto.
Qed.

Theorem pick_winner_spec sa sb b r :
  pick_winner sa sb = (b, r) ->
  match r with
  | Some j =>
    (forall k, k < j -> forall x y, nth_error (ist sa) k = Some x -> nth_error (ist sb) k = Some y ->
                                    parsed x = parsed y) /\
    (exists x y, nth_error (ist sa) j = Some x /\ nth_error (ist sb) j = Some y /\
                 parsed x = b /\ parsed y = negb b)
  | None => b = true
  end.
Proof.
  unfold pick_winner. intros H. apply pick_winner_go_spec in H. destruct r as [j|].
  - destruct H as (_ & H1 & H2). replace (j - 0) with j in * by lia. split; assumption.
  - destruct H; assumption.
Qed.

(* the deeper branch (longer command path) wins, whatever the other did *)
Theorem deeper_wins ra rb s sa sb :
  depth sa < depth sb ->
  this_or_that ra rb s sa sb =
  (match rb with RErr e => inr e | _ => inl false end, sb).
Proof.
  intros H. unfold this_or_that. apply Nat.compare_lt_iff in H. rewrite H. destruct rb; reflexivity.
Qed.

Theorem deeper_wins_left ra rb s sa sb :
  depth sb < depth sa ->
  this_or_that ra rb s sa sb =
  (match ra with RErr e => inr e | _ => inl true end, sa).
Proof.
  intros H. unfold this_or_that. apply Nat.compare_gt_iff in H. rewrite H. destruct ra; reflexivity.
Qed.

(* equal depth: the only success wins; two failures combine *)
Theorem only_success_wins va e s sa sb :
  depth sa = depth sb ->
  this_or_that (ROk va) (RErr e) s sa sb = (inl true, sa) /\
  this_or_that (RErr e) (ROk va) s sa sb = (inl false, sb).
Proof.
  intros H. unfold this_or_that. apply Nat.compare_eq_iff in H. rewrite H. split; reflexivity.
Qed.

Theorem both_fail ea eb s sa sb :
  depth sa = depth sb ->
  this_or_that (RErr ea) (RErr eb) s sa sb = (inr (combine_with ea eb), s).
Proof. intros H. unfold this_or_that. apply Nat.compare_eq_iff in H. rewrite H. reflexivity. Qed.

(* equal depth, both succeed: nothing consumed -> first listed; otherwise pick_winner; the loser's
   consumed items are marked as conflicts in the winner's ledger and stay live *)
Theorem both_succeed va vb s sa sb :
  depth sa = depth sb ->
  this_or_that (ROk va) (ROk vb) s sa sb =
  (if Nat.eqb (remaining s) (remaining sa) && Nat.eqb (remaining s) (remaining sb)
   then (inl true, sa)
   else match pick_winner sa sb with
        | (true, Some w) => (inl true, save_conflicts sa sb w)
        | (true, None) => (inl true, sa)
        | (false, Some w) => (inl false, save_conflicts sb sa w)
        | (false, None) => (inl false, sb)
        end).
Proof.
  intros H. unfold this_or_that. apply Nat.compare_eq_iff in H. rewrite H. cbn.
  destruct (Nat.eqb (remaining s) (remaining sa) && Nat.eqb (remaining s) (remaining sb)); [reflexivity|].
  destruct (pick_winner sa sb) as [[|] [w|]]; reflexivity.
Qed.

Theorem conflicts_marked win winner loser i w l :
  nth_error winner i = Some w -> nth_error loser i = Some l ->
  nth_error (save_conflicts_go win winner loser) i =
  Some (if present w && parsed l then Conflict win else w).
Proof.
  revert loser i. induction winner as [|x winner IH]; intros loser i Hw Hl; [destruct i; discriminate|].
  destruct loser as [|y loser]; [destruct i; discriminate|].
  destruct i; cbn in *.
  - inv Hw. inv Hl. reflexivity.
  - apply IH; assumption.
Qed.

(* or_body returns the value of the branch this_or_that picked, never a mixture *)
Theorem or_returns_a_branch eva evb s v s' :
  or_body eva evb s = (ROk v, s') ->
  (fst (eva s) = ROk v) \/ (fst (evb s) = ROk v).
Proof.
  unfold or_body. destruct (eva s) as [ra sa]. destruct (evb s) as [rb sb]. cbn.
  destruct ra; try (intros H; inv H; fail); destruct rb; try (intros H; inv H; fail);
    destruct (this_or_that _ _ s sa sb) as [[[|]|e] s0]; intros H; inv H; auto.
Qed.
