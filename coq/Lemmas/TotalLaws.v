(* TotalLaws.v -- C04: for EVERY parser built without `adjacent` (groups or commands), whose named
   items have a name or a variable and whose option levels pass the invariant check, evaluation from
   every well-formed state ends in a value or an error: no panic outcome, no fuel exhaustion.
   The well-formedness of states (ledger bounded, scope inside the ledger) is kept by every
   evaluation because states only move by the legal steps of Reach.v. *)
From Coq Require Import Lia List Bool Arith.
From BpafModel Require Import Wf.
From BpafLemmas Require Import Tac EvalEq Find Reach LoopLaws Ledger NoLoss C05Lemmas Exact.
Import ListNotations.

Definition scope_ok (s : state) : Prop := sc_start s <= sc_end s /\ sc_end s <= length (ist s).
(* well-formed states: the ledger is bounded, the scope lies inside it, `remaining` counts exactly *)
Definition G (s : state) : Prop := bounded s /\ scope_ok s /\ exact s.

Lemma step_scope K s s' : step K s s' -> scope_ok s -> scope_ok s'.
Proof.
  intros St [H1 H2]. destruct St as [k ix s st HK Hin Hst Hp Ha|s c|s p|s a b s' Hs|s ist' Hl Hm]; unfold scope_ok.
  - unfold sremove. destruct (in_scope s ix && _); cbn; [rewrite LoopLaws.update_nth_length|]; auto.
  - cbn. auto.
  - cbn. auto.
  - unfold set_scope in Hs. destruct (Nat.leb a b && Nat.leb b (length (ist s))) eqn:E; [|discriminate].
    inversion Hs; subst; cbn. apply andb_prop in E. destruct E as [E1 E2].
    apply Nat.leb_le in E1. apply Nat.leb_le in E2. auto.
  - cbn. rewrite Hl. auto.
Qed.

Lemma reach_scope_ok K s s' : reach K s s' -> scope_ok s -> scope_ok s'.
Proof. induction 1 as [s|s1 s2 s3 R IH St]; intros H; [exact H|]. eapply step_scope; eauto. Qed.

Lemma reach_G K s s' : reach K s s' -> G s -> G s' /\ items s' = items s.
Proof.
  intros R (Hb & Hs & He). destruct (reach_bounded K s s' R Hb) as [B I]. split; [split; [exact B|split]|exact I].
  - eapply reach_scope_ok; eauto.
  - eapply reach_exact; eauto.
Qed.

(* a result that is a value or an error *)
Definition nf (r : eres) : Prop := match r with RPanic _ | RFuel => False | _ => True end.
Definition nfs (r : sres) : Prop := match r with SPanic _ | SFuel => False | _ => True end.

Definition keepsG (ev : evaluator) : Prop := forall s, G s -> G (snd (ev s)) /\ items (snd (ev s)) = items s.
Definition total (ev : evaluator) : Prop := forall s, G s -> nf (fst (ev s)).
Definition keepsGr (run : state -> sres * state) : Prop := forall s, G s -> G (snd (run s)) /\ items (snd (run s)) = items s.
Definition totalr (run : state -> sres * state) : Prop := forall s, G s -> nfs (fst (run s)).

Lemma ev_reach_keepsG K ev : ev_reach K ev -> keepsG ev.
Proof. intros H s Hg. apply (reach_G K s _ (H s) Hg). Qed.
Lemma run_reach_keepsGr K run : run_reach K run -> keepsGr run.
Proof. intros H s Hg. apply (reach_G K s _ (H s) Hg). Qed.

Section WithEnv.
Variable env : bytes -> option bytes.

(* ------------------------------------------------------------------ leaves *)
Lemma convert_nf ty w s : nf (fst (convert_res ty w s)).
Proof. unfold convert_res. destruct (convert ty w); exact I. Qed.

Lemma flag_total n p a : keyedb n = true -> total (eval_flag env n p a).
Proof.
  intros Hk s _. unfold eval_flag. destruct (take_flag n s); [exact I|].
  destruct (env_first env (n_env n)); [exact I|]. destruct a; [exact I|].
  unfold flag_item, keyedb in *. destruct (shortlong_of n); cbn; [exact I|].
  destruct (n_env n); [discriminate|exact I].
Qed.

Lemma arg_total n mv ty adj : keyedb n = true -> total (eval_arg env n mv ty adj).
Proof.
  intros Hk s _. unfold eval_arg. destruct (take_arg n adj s); try apply convert_nf; try exact I.
  destruct (env_first env (n_env n)); [apply convert_nf|].
  unfold arg_item, keyedb in *. destruct (shortlong_of n); cbn; [exact I|].
  destruct (n_env n); [discriminate|exact I].
Qed.

Lemma pos_total mv ty pos help : total (eval_pos mv ty pos help).
Proof.
  intros s _. unfold eval_pos. destruct (take_positional_word s) as [[[[ix st] w] s']|]; [|exact I].
  destruct pos; destruct st; try exact I; apply convert_nf.
Qed.

Lemma any_total mv help check anywhere : total (eval_any mv help check anywhere).
Proof.
  intros s _. unfold eval_any.
  match goal with |- context [match ?f with Some ix => _ | None => _ end] => destruct f as [ix|] end; [|exact I].
  destruct (nth_error (items s) ix) as [a|]; [|exact I]. destruct (check (arg_os a)); exact I.
Qed.

(* ------------------------------------------------------------------ repetition *)
Section Loops.
Variable ev : evaluator.
Variable its : list arg.
Hypothesis Hkeep : keepsG ev.
Hypothesis Htot : total ev.

Definition goodG (s : state) : Prop := G s /\ items s = its.

Lemma goodG_next s : goodG s -> goodG (snd (ev s)).
Proof. intros [Hg Hi]. destruct (Hkeep s Hg) as [B E]. split; [exact B|congruence]. Qed.

Definition measure (len : option nat) : nat :=
  match len with None => S (S (length its)) | Some n => S n end.

Lemma parse_option_some' len s catch v len' s' :
  goodG s -> parse_option ev len s catch = (OSome v, len', s') ->
  goodG s' /\ measure len' < measure len.
Proof.
  intros Hg. unfold parse_option. pose proof (goodG_next s Hg) as Hn.
  destruct (ev s) as [r s1] eqn:E. cbn [snd] in Hn. destruct r; try discriminate.
  - destruct (lt_len (remaining s1) len) eqn:L; [|discriminate]. intros H; inversion H; subst. split; [exact Hn|].
    destruct Hn as [[[_ Hr] _] Hi]. rewrite Hi in Hr. destruct len as [n|]; cbn in *.
    + apply Nat.ltb_lt in L. lia.
    + lia.
  - destruct (catch || (is_missing m && Nat.eqb (remaining s) (remaining s1)) || (negb (is_missing m) && can_catch m));
      discriminate.
Qed.

Lemma parse_option_nf len s catch : goodG s ->
  match fst (fst (parse_option ev len s catch)) with OPanic _ | OFuel => False | _ => True end.
Proof.
  intros [Hg _]. unfold parse_option. pose proof (Htot s Hg) as N. destruct (ev s) as [r s1]. cbn [fst] in N.
  destruct r; try contradiction.
  - destruct (lt_len (remaining s1) len); exact I.
  - destruct (catch || (is_missing m && Nat.eqb (remaining s) (remaining s1)) || (negb (is_missing m) && can_catch m)); exact I.
Qed.

Lemma many_loop_nf catch fuel : forall len s acc,
  goodG s -> measure len <= fuel -> nf (fst (fst (many_loop ev catch fuel len s acc))).
Proof.
  induction fuel as [|f IH]; intros len s acc Hg Hm; [destruct len; cbn in Hm; lia|].
  cbn [many_loop]. pose proof (parse_option_nf len s catch Hg) as N.
  destruct (parse_option ev len s catch) as [[o len'] s'] eqn:E. cbn [fst] in N.
  destruct o; try contradiction; try exact I.
  destruct (parse_option_some' len s catch v len' s' Hg E) as [Hg' Hlt]. apply IH; [exact Hg'|lia].
Qed.

Lemma count_loop_nf fuel : forall len s cur n last,
  goodG s -> measure len <= fuel -> nf (fst (fst (fst (count_loop ev fuel len s cur n last)))).
Proof.
  induction fuel as [|f IH]; intros len s cur n last Hg Hm; [destruct len; cbn in Hm; lia|].
  cbn [count_loop]. pose proof (parse_option_nf len s false Hg) as N.
  destruct (parse_option ev len s false) as [[o len'] s'] eqn:E. cbn [fst] in N.
  destruct o; try contradiction; try exact I.
  destruct (parse_option_some' len s false v len' s' Hg E) as [Hg' Hlt].
  destruct (Nat.eqb cur (remaining s')); [exact I|]. apply IH; [exact Hg'|lia].
Qed.

Lemma count_loop_goodG fuel : forall len s cur n last,
  goodG s -> goodG (snd (count_loop ev fuel len s cur n last)).
Proof.
  induction fuel as [|f IH]; intros len s cur n last Hg; cbn [count_loop]; [exact Hg|].
  unfold parse_option. pose proof (goodG_next s Hg) as Hn. destruct (ev s) as [r s1]. cbn [snd] in Hn.
  destruct r; cbn [snd].
  - destruct (lt_len (remaining s1) len); cbn [snd]; [|exact Hn].
    destruct (Nat.eqb cur (remaining s1)); cbn [snd]; [exact Hn|apply IH; exact Hn].
  - destruct (false || (is_missing m && Nat.eqb (remaining s) (remaining s1)) || (negb (is_missing m) && can_catch m)); cbn [snd];
      [exact Hg|exact Hn].
  - exact Hn.
  - exact Hn.
Qed.
End Loops.

Lemma measure_fuel s : measure (items s) None <= loop_fuel s.
Proof. unfold measure, loop_fuel. lia. Qed.

Lemma optional_total ev c : keepsG ev -> total ev -> total (optional_body ev c).
Proof.
  intros Hk Ht s Hg. unfold optional_body.
  pose proof (parse_option_nf ev (items s) Ht None s c (conj Hg eq_refl)) as N.
  destruct (parse_option ev None s c) as [[o l] s']. cbn [fst] in N. destruct o; try contradiction; exact I.
Qed.
Lemma many_total ev c : keepsG ev -> total ev -> total (many_body ev c).
Proof.
  intros Hk Ht s Hg. unfold many_body.
  pose proof (many_loop_nf ev (items s) Hk Ht c (loop_fuel s) None s [] (conj Hg eq_refl) (measure_fuel s)) as N.
  destruct (many_loop ev c (loop_fuel s) None s []) as [[r acc] s']. cbn [fst] in N. destruct r; try contradiction; exact I.
Qed.
Lemma some_total ev m c : keepsG ev -> total ev -> total (some_body ev m c).
Proof.
  intros Hk Ht s Hg. unfold some_body.
  pose proof (many_loop_nf ev (items s) Hk Ht c (loop_fuel s) None s [] (conj Hg eq_refl) (measure_fuel s)) as N.
  destruct (many_loop ev c (loop_fuel s) None s []) as [[r acc] s']. cbn [fst] in N. destruct r; try contradiction; try exact I.
  destruct acc; exact I.
Qed.
Lemma count_total ev : keepsG ev -> total ev -> total (count_body ev).
Proof.
  intros Hk Ht s Hg. unfold count_body.
  pose proof (count_loop_nf ev (items s) Hk Ht (loop_fuel s) None s (remaining s) 0 None (conj Hg eq_refl) (measure_fuel s)) as N.
  destruct (count_loop ev (loop_fuel s) None s (remaining s) 0 None) as [[[r k] l] s']. cbn [fst] in N.
  destruct r; try contradiction; exact I.
Qed.
Lemma last_total ev : keepsG ev -> total ev -> total (last_body ev).
Proof.
  intros Hk Ht s Hg. unfold last_body.
  pose proof (count_loop_nf ev (items s) Hk Ht (loop_fuel s) None s (remaining s) 0 None (conj Hg eq_refl) (measure_fuel s)) as N.
  pose proof (count_loop_goodG ev (items s) Hk (loop_fuel s) None s (remaining s) 0 None (conj Hg eq_refl)) as Gn.
  destruct (count_loop ev (loop_fuel s) None s (remaining s) 0 None) as [[[r k] l] s']. cbn [fst snd] in N, Gn.
  destruct r; try contradiction; try exact I. destruct l; [exact I|]. apply Ht. apply Gn.
Qed.

(* ------------------------------------------------------------------ pass-through wrappers *)
Lemma fallback_with_total ev fb : total ev -> total (fallback_with_body ev fb).
Proof.
  intros Ht s Hg. unfold fallback_with_body. pose proof (Ht s Hg) as N. destruct (ev s) as [r s']. cbn [fst] in N.
  destruct r; try contradiction; try exact I. destruct (can_catch m); [destruct fb|]; exact I.
Qed.
Lemma guard_total ev c m : total ev -> total (guard_body ev c m).
Proof.
  intros Ht s Hg. unfold guard_body. pose proof (Ht s Hg) as N. destruct (ev s) as [r s']. cbn [fst] in N.
  destruct r; try contradiction; try exact I. destruct (c v); exact I.
Qed.
Lemma parse_total ev f : total ev -> total (parse_body ev f).
Proof.
  intros Ht s Hg. unfold parse_body. pose proof (Ht s Hg) as N. destruct (ev s) as [r s']. cbn [fst] in N.
  destruct r; try contradiction; try exact I. destruct (f v); exact I.
Qed.
Lemma map_total ev f : total ev -> total (map_body ev f).
Proof.
  intros Ht s Hg. unfold map_body. pose proof (Ht s Hg) as N. destruct (ev s) as [r s']. cbn [fst] in N.
  destruct r; try contradiction; exact I.
Qed.
Lemma hide_total ev : total ev -> total (hide_body ev).
Proof.
  intros Ht s Hg. unfold hide_body. pose proof (Ht s Hg) as N. destruct (ev s) as [r s']. cbn [fst] in N.
  destruct r; try contradiction; try exact I. destruct m; exact I.
Qed.

Lemma or_total eva evb : total eva -> total evb -> total (or_body eva evb).
Proof.
  intros Ha Hb s Hg. unfold or_body. pose proof (Ha s Hg) as Na. pose proof (Hb s Hg) as Nb.
  destruct (eva s) as [ra sa]. destruct (evb s) as [rb sb]. cbn [fst] in Na, Nb.
  destruct ra; try contradiction; destruct rb; try contradiction;
    (destruct (this_or_that _ _ s sa sb) as [[[|]|e] s']; exact I).
Qed.

Lemma con_go_total ff evs : Forall keepsG evs -> Forall total evs -> forall s first acc err,
  G s -> nf (fst (con_go ff evs s first acc err)).
Proof.
  intros Hk Ht. induction evs as [|ev t IH]; intros s first acc err Hg; cbn [con_go].
  - destruct err; exact I.
  - inversion Hk as [|? ? Hk1 Hk2]; subst. inversion Ht as [|? ? Ht1 Ht2]; subst.
    pose proof (Ht1 s Hg) as N. destruct (Hk1 s Hg) as [Gn _]. destruct (ev s) as [r s']. cbn [fst snd] in N, Gn.
    destruct r; try contradiction.
    + apply IH; assumption.
    + destruct (ff && first); [exact I|]. apply IH; assumption.
Qed.

Lemma con_total ff evs : Forall keepsG evs -> Forall total evs -> total (con_body ff evs).
Proof.
  intros Hk Ht s Hg. unfold con_body, con_reset. pose proof (con_go_total ff evs Hk Ht s true [] None Hg) as N.
  destruct (con_go ff evs s true [] None) as [r s']. exact N.
Qed.

(* ------------------------------------------------------------------ commands *)
Lemma take_cmd_hit word s s1 : G s -> take_cmd word s = (true, s1) ->
  exists cur, current s1 = Some cur /\ cur < sc_end s1 /\ sc_end s1 <= length (ist s1).
Proof.
  intros [Hb [[H1 H2] _]] H. unfold take_cmd in H.
  destruct (first_item_ix s) as [ix|] eqn:F; [|discriminate].
  apply find_item_some in F. destruct F as [Hin _].
  unfold in_scope in Hin. apply andb_prop in Hin. destruct Hin as [_ Hlt]. apply Nat.ltb_lt in Hlt.
  assert (E : forall w, (if beqb w word then (true, set_current (sremove (KCmd word) ix s) (Some ix)) else (false, set_current s None)) = (true, s1) ->
              exists cur, current s1 = Some cur /\ cur < sc_end s1 /\ sc_end s1 <= length (ist s1)).
  { intros w Hw. destruct (beqb w word); [|discriminate]. inversion Hw; subst. exists ix. cbn.
    unfold sremove. destruct (in_scope s ix && _); cbn; [rewrite LoopLaws.update_nth_length|]; repeat split; lia. }
  destruct (nth_error (items s) ix) as [[c adj os|l adj os|w|w|w]|]; try discriminate; try (apply (E _ H)).
  destruct adj; [discriminate H|apply (E _ H)].
Qed.

Lemma take_cmd_any_hit (K : ckind -> Prop) names : (forall w, In w names -> K (KCmd w)) -> forall s s1, G s -> take_cmd_any names s = (true, s1) ->
  exists cur, current s1 = Some cur /\ cur < sc_end s1 /\ sc_end s1 <= length (ist s1).
Proof.
  induction names as [|n t IH]; intros Hk s s1 Hg H; cbn in H; [discriminate|].
  pose proof (take_cmd_reach K n s (Hk n (or_introl eq_refl))) as R.
  destruct (take_cmd n s) as [b s'] eqn:E. cbn in R. destruct b.
  - inversion H; subst. eapply take_cmd_hit; eauto.
  - apply (IH (fun w Hw => Hk w (or_intror Hw)) s' s1); [|exact H]. apply (reach_G K s s' R Hg).
Qed.

Lemma cmd_total name aliases shorts help m_sub i_sub run :
  keepsGr run -> totalr run -> total (cmd_body name aliases shorts help false m_sub i_sub run).
Proof.
  intros Hk Ht s Hg. unfold cmd_body.
  pose proof (take_cmd_any_reach (fun _ => True) ((name :: aliases) ++ map utf8_encode_char shorts) s (fun _ _ => I)) as R.
  pose proof (take_cmd_any_hit (fun _ => True) ((name :: aliases) ++ map utf8_encode_char shorts) (fun _ _ => I) s) as Hh.
  destruct (take_cmd_any _ s) as [hit s1]. cbn [snd] in R. destruct hit; [|exact I].
  destruct (Hh s1 Hg eq_refl) as (cur & Ec & Hc1 & Hc2). rewrite Ec.
  destruct (reach_G _ s s1 R Hg) as [G1 _].
  apply Nat.lt_le_incl in Hc1.
  unfold set_scope at 1. apply Nat.leb_le in Hc1. apply Nat.leb_le in Hc2. rewrite Hc1, Hc2. cbn [andb].
  match goal with |- context [run ?x] => assert (G3 : G x) end.
  { destruct G1 as [[B1 B2] [S1 _]]. apply Nat.leb_le in Hc1. apply Nat.leb_le in Hc2.
    split; [split; cbn; [exact B1|]|split; [split; cbn; lia|reflexivity]].
    pose proof (count_present_le (ist s1) cur (sc_end s1)). lia. }
  match goal with |- context [run ?x] => pose proof (Ht x G3) as N; destruct (run x) as [r s4] end.
  cbn [fst] in N. destruct r; try contradiction; exact I.
Qed.

(* ------------------------------------------------------------------ run_subparser *)
Lemma run_sub_body_total inf m s r s1 :
  invariant_ok m = true -> nf r -> nfs (fst (run_sub_body env inf m s (r, s1))).
Proof.
  intros Hi N. unfold run_sub_body. destruct r as [v|e|w|]; try contradiction.
  - cbn [andb]. destruct (first_item_ix s1); [|exact I].
    destruct (info_eval env inf s1) as [[[d|ver]|] s2]; [rewrite Hi| |]; exact I.
  - destruct (_ && i_help_if_no_args inf && Nat.eqb (remaining s) 0); [rewrite Hi; exact I|].
    destruct e; try (destruct (info_eval env inf s1) as [[[d|ver]|] s2]; [rewrite Hi| |]; exact I). exact I.
Qed.

(* ------------------------------------------------------------------ every parser *)
Lemma kinds_all : (forall p, kinds_ok (fun _ => True) p) /\ (forall ps, lkinds_ok (fun _ => True) ps) /\
                  (forall o, okinds_ok (fun _ => True) o).
Proof. exact kinds_ok_true. Qed.

Lemma eval_keepsG p : keepsG (eval env p).
Proof. apply (ev_reach_keepsG (fun _ => True)). apply eval_reach. apply (proj1 kinds_all). Qed.
Lemma evals_keepsG ps : Forall keepsG (evals env ps).
Proof.
  pose proof (proj1 (proj2 (eval_reach_all (fun _ => True) env)) ps (proj1 (proj2 kinds_all) ps)) as H.
  induction H; constructor; [eapply ev_reach_keepsG; eauto|assumption].
Qed.
Lemma run_sub_keepsGr o : keepsGr (run_sub env o).
Proof. apply (run_reach_keepsGr (fun _ => True)). apply run_sub_reach. apply (proj2 (proj2 kinds_all)). Qed.
End WithEnv.
