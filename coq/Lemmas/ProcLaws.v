(* ProcLaws.v -- outcome classes, streams and exit status (C11). *)
From Coq Require Import Lia List Bool NArith ZArith.
From BpafModel Require Import Process.
Import ListNotations.

Section Proc.
Variable tso : helpreq -> bytes.
Variable tse : message -> bytes.

(* the status table, over the exit_code function regenerated from src/error.rs *)
Theorem status_table o p :
  process_of tso tse o = Some p ->
  (p_status p = 0%Z <-> (exists v, o = OutOk v) \/ (exists h, o = OutStdout h) \/ (exists s, o = OutCompletion s)) /\
  (p_status p = 1%Z <-> exists m, o = OutStderr m).
Proof.
  destruct o; cbn; intros H; inversion H; subst; cbn; split; split;
    try (intros; eauto; fail); try (intros; lia);
    try (intros [[? E]|[[? E]|[? E]]]; discriminate E); try (intros [? E]; discriminate E).
Qed.

Theorem streams o p :
  process_of tso tse o = Some p ->
  match o with
  | OutOk v => p_stdout p = [] /\ p_stderr p = [] /\ p_body p = Some v
  | OutStdout h => p_stdout p = tso h ++ [c_nl] /\ p_stderr p = [] /\ p_body p = None
  | OutCompletion s => p_stdout p = s /\ p_stderr p = [] /\ p_body p = None
  | OutStderr m =>
    p_stdout p = [] /\ p_stderr p = error_prefix ++ tse m ++ [c_nl] /\ p_stderr p <> [] /\ p_body p = None
  | _ => False
  end.
Proof.
  destruct o; cbn; intros H; inversion H; subst; cbn; repeat split; discriminate.
Qed.

(* the program body is reached iff a value was produced *)
Theorem body_iff_value o p v :
  process_of tso tse o = Some p -> (p_body p = Some v <-> o = OutOk v).
Proof.
  destruct o; cbn; intros H; inversion H; subst; cbn; split; intros E; try discriminate; congruence.
Qed.

(* a failure always says something on stderr and nothing on stdout *)
Theorem failure_message_nonempty m p :
  process_of tso tse (OutStderr m) = Some p ->
  p_stdout p = [] /\ exists rest, p_stderr p = error_prefix ++ rest.
Proof. cbn. intros H. inversion H; subst; cbn. split; [reflexivity|eauto]. Qed.

End Proc.

Theorem program_name_spec argv0 n :
  program_name argv0 = Some n <->
  exists p, argv0 = Some p /\ file_name p = Some n /\ utf8_valid n = true.
Proof.
  unfold program_name. destruct argv0 as [p|].
  - destruct (file_name p) as [f|] eqn:Ef.
    + destruct (utf8_valid f) eqn:Eu; split.
      * intros H; inversion H; subst. eauto.
      * intros (q & Hq & Hf & Hu). inversion Hq; subst. congruence.
      * discriminate.
      * intros (q & Hq & Hf & Hu). inversion Hq; subst. congruence.
    + split; [discriminate|]. intros (q & Hq & Hf & _). inversion Hq; subst. congruence.
  - split; [discriminate|]. intros (q & Hq & _). discriminate.
Qed.
