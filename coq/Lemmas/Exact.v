(* Exact.v -- `remaining` is exactly the number of present entries of the ledger inside the scope, and
   every legal step (Reach.v) keeps it so.  Counting is done pointwise (cnt) to make the usual facts
   (monotone in the right end, pointwise comparison, one flipped entry) one-liners. *)
From Coq Require Import Lia List Bool Arith.
From BpafLemmas Require Import Tac EvalEq Find Reach Ledger LoopLaws.
Import ListNotations.

Definition pres (l : list istate) (i : nat) : bool :=
  match nth_error l i with Some st => present st | None => false end.

Definition cnt (f : nat -> bool) (a n : nat) : nat := length (filter f (seq a n)).

Lemma cnt_S f a n : cnt f a (S n) = (if f a then 1 else 0) + cnt f (S a) n.
Proof. unfold cnt. cbn [seq filter]. destruct (f a); reflexivity. Qed.

Lemma cnt_ext f g a n : (forall i, a <= i < a + n -> f i = g i) -> cnt f a n = cnt g a n.
Proof.
  revert a. induction n as [|n IH]; intros a H; [reflexivity|]. rewrite !cnt_S, (H a) by lia.
  f_equal. apply IH. intros i Hi. apply H. lia.
Qed.

Lemma cnt_le f g a n : (forall i, a <= i < a + n -> f i = true -> g i = true) -> cnt f a n <= cnt g a n.
Proof.
  revert a. induction n as [|n IH]; intros a H; [reflexivity|]. rewrite !cnt_S.
  assert (H1 : cnt f (S a) n <= cnt g (S a) n) by (apply IH; intros i Hi; apply H; lia).
  destruct (f a) eqn:Ef; [rewrite (H a) by (try lia; exact Ef); lia|destruct (g a); lia].
Qed.

Lemma cnt_split f a n m : cnt f a (n + m) = cnt f a n + cnt f (a + n) m.
Proof.
  revert a. induction n as [|n IH]; intros a; cbn [Nat.add]; [rewrite Nat.add_0_r; reflexivity|].
  rewrite !cnt_S, IH. replace (S a + n) with (a + S n) by lia. lia.
Qed.

Lemma cnt_zero f a n : (forall i, a <= i < a + n -> f i = false) -> cnt f a n = 0.
Proof.
  revert a. induction n as [|n IH]; intros a H; [reflexivity|]. rewrite cnt_S, (H a) by lia.
  apply IH. intros i Hi. apply H. lia.
Qed.

Lemma cnt_all f a n : (forall i, a <= i < a + n -> f i = true) -> cnt f a n = n.
Proof.
  revert a. induction n as [|n IH]; intros a H; [reflexivity|]. rewrite cnt_S, (H a) by lia.
  rewrite IH; [reflexivity|]. intros i Hi. apply H. lia.
Qed.

Lemma cnt_bound f a n : cnt f a n <= n.
Proof. revert a. induction n as [|n IH]; intros a; [reflexivity|]. rewrite cnt_S. specialize (IH (S a)). destruct (f a); lia. Qed.

Lemma cnt_mono_right f a n m : n <= m -> cnt f a n <= cnt f a m.
Proof. intros H. replace m with (n + (m - n)) by lia. rewrite cnt_split. lia. Qed.

(* one entry flipped from true to false *)
Lemma cnt_flip f g a n ix :
  a <= ix < a + n -> f ix = true -> g ix = false -> (forall i, i <> ix -> g i = f i) ->
  cnt g a n = pred (cnt f a n) /\ 1 <= cnt f a n.
Proof.
  intros Hix Hf Hg Ho.
  replace n with ((ix - a) + (1 + (n - (ix - a) - 1))) by lia.
  rewrite !cnt_split. replace (a + (ix - a)) with ix by lia.
  assert (E1 : cnt g a (ix - a) = cnt f a (ix - a)) by (apply cnt_ext; intros i Hi; apply Ho; lia).
  assert (E2 : cnt g (ix + 1) (n - (ix - a) - 1) = cnt f (ix + 1) (n - (ix - a) - 1))
    by (apply cnt_ext; intros i Hi; apply Ho; lia).
  assert (F1 : cnt f ix 1 = 1) by (unfold cnt; cbn [seq filter]; rewrite Hf; reflexivity).
  assert (G1 : cnt g ix 1 = 0) by (unfold cnt; cbn [seq filter]; rewrite Hg; reflexivity).
  rewrite E1, E2, F1, G1. lia.
Qed.

Lemma skipn_nth {A} (l : list A) a :
  skipn a l = match nth_error l a with Some x => x :: skipn (S a) l | None => [] end.
Proof.
  revert a. induction l as [|h t IH]; intros [|a]; cbn [skipn nth_error]; try reflexivity.
  rewrite IH. destruct (nth_error t a); reflexivity.
Qed.

Lemma count_present_cnt l a b : count_present l a b = cnt (pres l) a (b - a).
Proof.
  unfold count_present. generalize (b - a) as n. clear b. intros n. revert a.
  induction n as [|n IH]; intros a; [reflexivity|].
  rewrite cnt_S, skipn_nth. unfold pres at 1. destruct (nth_error l a) as [x|] eqn:E.
  - cbn [firstn filter]. rewrite <- IH. destruct (present x); reflexivity.
  - cbn [firstn filter length]. symmetry. rewrite cnt_zero; [reflexivity|].
    intros i Hi. unfold pres. apply nth_error_None in E.
    destruct (nth_error l i) eqn:Ei; [|reflexivity]. assert (i < length l) by (apply nth_error_Some; congruence). lia.
Qed.

(* ------------------------------------------------------------------ the invariant *)
Definition exact (s : state) : Prop := remaining s = count_present (ist s) (sc_start s) (sc_end s).


Lemma pres_update l ix i : ix < length l ->
  pres (update_nth ix Parsed l) i = if Nat.eqb i ix then false else pres l i.
Proof.
  intros H. unfold pres. destruct (Nat.eqb_spec i ix) as [->|Hne].
  - rewrite Ledger.update_nth_same by exact H. reflexivity.
  - rewrite Ledger.update_nth_other by exact Hne. reflexivity.
Qed.

Lemma step_exact K s s' : step K s s' -> exact s -> exact s'.
Proof.
  intros St He. destruct St as [k ix s st HK Hin Hat Hp Hacc|s c|s p|s a b s' Hs|s ist' Hlen Hpres]; unfold exact in *.
  - unfold sremove. rewrite Hin, Hat, Hp. cbn [andb]. unfold ist_at in Hat.
    cbn [remaining ist sc_start sc_end]. rewrite !count_present_cnt in *.
    unfold in_scope in Hin. apply andb_prop in Hin. destruct Hin as [H1 H2].
    apply Nat.leb_le in H1. apply Nat.ltb_lt in H2.
    assert (Hlt : ix < length (ist s)) by (apply nth_error_Some; congruence).
    destruct (cnt_flip (pres (ist s)) (pres (update_nth ix Parsed (ist s))) (sc_start s) (sc_end s - sc_start s) ix) as [E _].
    + lia.
    + unfold pres. rewrite Hat. exact Hp.
    + rewrite pres_update by exact Hlt. rewrite Nat.eqb_refl. reflexivity.
    + intros i Hi. rewrite pres_update by exact Hlt. destruct (Nat.eqb_spec i ix); [contradiction|reflexivity].
    + rewrite E, He. reflexivity.
  - exact He.
  - exact He.
  - unfold set_scope in Hs. destruct (Nat.leb a b && Nat.leb b (length (ist s))); [|discriminate].
    inversion Hs; subst s'. reflexivity.
  - cbn [remaining ist sc_start sc_end set_ist]. rewrite He, !count_present_cnt. apply cnt_ext.
    intros i _. unfold pres. specialize (Hpres i).
    destruct (nth_error ist' i), (nth_error (ist s) i); cbn in Hpres; congruence.
Qed.

Lemma reach_exact K s s' : reach K s s' -> exact s -> exact s'.
Proof. induction 1 as [s|s1 s2 s3 R IH St]; intros H; [exact H|]. eapply step_exact; eauto. Qed.

Lemma set_scope_exact s a b s' : set_scope s a b = Some s' -> exact s'.
Proof.
  unfold set_scope. destruct (_ && _); [|discriminate]. intros H; inversion H; subst. reflexivity.
Qed.
