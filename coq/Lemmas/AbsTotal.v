(* AbsTotal.v -- the flat fragment is total and terminating (C04, C01).
   The token-list interpreter never removes more than it has and never runs out of the fuel the
   evaluator gives its loops; through AbsSim.eval_sim the real evaluator on a full-scope state
   therefore returns a value or an error -- never a panic outcome, never fuel exhaustion. *)
From Coq Require Import Lia List Bool Arith ZArith.
From BpafModel Require Import Conv.
From BpafLemmas Require Import Tac EvalEq Find Reach AbsSim.
Import ListNotations.

Definition shrinks (ev : lv -> ares * lv) : Prop := forall l, length (snd (ev l)) <= length l.
Definition unstuck (n : nat) (ev : lv -> ares * lv) : Prop :=
  forall l, length l <= n -> fst (ev l) <> AStuck.

Lemma aremove_len i l : length (aremove i l) <= length l.
Proof. unfold aremove. induction l as [|x t IH]; cbn; [lia|]. destruct (negb (Nat.eqb (fst x) i)); cbn; lia. Qed.

Lemma aconvert_len ty w l : length (snd (aconvert ty w l)) = length l.
Proof. unfold aconvert. destruct (convert ty w); reflexivity. Qed.
Lemma aconvert_unstuck ty w l : fst (aconvert ty w l) <> AStuck.
Proof. unfold aconvert. destruct (convert ty w); discriminate. Qed.

Lemma flag_total nm pr ab : shrinks (aeval_flag nm pr ab) /\ forall l, fst (aeval_flag nm pr ab l) <> AStuck.
Proof.
  split; intros l; unfold aeval_flag; destruct (afind (matches_arg nm false) l) as [[i a]|]; cbn.
  - apply aremove_len.
  - destruct ab; cbn; lia.
  - discriminate.
  - destruct ab; discriminate.
Qed.

Lemma arg_total nm ty : shrinks (aeval_arg nm ty) /\ forall l, fst (aeval_arg nm ty l) <> AStuck.
Proof.
  split; intros l; unfold aeval_arg; destruct (afind (matches_arg nm false) l) as [[i a]|]; cbn; try lia; try discriminate.
  - destruct (aget (S i) l) as [[c adj os|n' adj os|w|w|w]|]; cbn; try lia;
      rewrite aconvert_len; pose proof (aremove_len (S i) (aremove i l)); pose proof (aremove_len i l); lia.
  - destruct (aget (S i) l) as [[c adj os|n' adj os|w|w|w]|]; try discriminate; apply aconvert_unstuck.
Qed.

Lemma pos_total ty : shrinks (aeval_pos ty) /\ forall l, fst (aeval_pos ty l) <> AStuck.
Proof.
  split; intros l; unfold aeval_pos; destruct (afind is_word l) as [[i a]|]; cbn; try lia; try discriminate.
  - destruct a; cbn; try lia; rewrite aconvert_len; apply aremove_len.
  - destruct a; try discriminate; apply aconvert_unstuck.
Qed.

Section Loops.
Variable n : nat.
Variable ev : lv -> ares * lv.
Hypothesis Hsh : shrinks ev.
Hypothesis Hun : unstuck n ev.

Lemma aparse_option_total len l :
  length l <= n ->
  let '(o, len', l') := aparse_option ev len l in
  o <> AOStuck /\ length l' <= length l /\
  (forall v, o = AOSome v -> len' = Some (length l') /\ lt_len (length l') len = true).
Proof.
  intros Hl. unfold aparse_option. pose proof (Hsh l) as S1. pose proof (Hun l Hl) as U1.
  destruct (ev l) as [r l1]. cbn [fst snd] in *.
  destruct r as [v|m c|]; [| |contradiction].
  - destruct (lt_len (length l1) len) eqn:L; cbn.
    + split; [discriminate|]. split; [exact S1|]. intros v' E. inversion E. auto.
    + split; [discriminate|]. split; [exact S1|]. intros v' E. discriminate.
  - destruct ((m && Nat.eqb (length l) (length l1)) || (negb m && c)); cbn.
    + split; [discriminate|]. split; [lia|]. intros v' E. discriminate.
    + split; [discriminate|]. split; [exact S1|]. intros v' E. discriminate.
Qed.

Definition measure (len : option nat) : nat := match len with None => S (S n) | Some m => S m end.

Lemma amany_total fuel : forall len l acc,
  length l <= n -> measure len <= fuel ->
  fst (fst (amany_loop ev fuel len l acc)) <> AStuck /\ length (snd (amany_loop ev fuel len l acc)) <= length l.
Proof.
  induction fuel as [|f IH]; intros len l acc Hl Hm; [destruct len; cbn in Hm; lia|].
  cbn [amany_loop]. pose proof (aparse_option_total len l Hl) as P.
  destruct (aparse_option ev len l) as [[o len'] l']. destruct P as (Ho & Hl' & Hv).
  destruct o as [|v|m c|]; cbn [fst snd]; try (split; [discriminate|exact Hl']); [|contradiction].
  destruct (Hv v eq_refl) as [-> L].
  destruct (IH (Some (length l')) l' (v :: acc)) as [A B]; [lia| |].
  - cbn. destruct len as [m|]; cbn in L, Hm |- *; [apply Nat.ltb_lt in L; lia|lia].
  - split; [exact A|lia].
Qed.

Lemma acount_total fuel : forall len l cur k last,
  length l <= n -> measure len <= fuel ->
  fst (fst (fst (acount_loop ev fuel len l cur k last))) <> AStuck /\
  length (snd (acount_loop ev fuel len l cur k last)) <= length l.
Proof.
  induction fuel as [|f IH]; intros len l cur k last Hl Hm; [destruct len; cbn in Hm; lia|].
  cbn [acount_loop]. pose proof (aparse_option_total len l Hl) as P.
  destruct (aparse_option ev len l) as [[o len'] l']. destruct P as (Ho & Hl' & Hv).
  destruct o as [|v|m c|]; cbn [fst snd]; try (split; [discriminate|exact Hl']); [|contradiction].
  destruct (Hv v eq_refl) as [-> L].
  destruct (Nat.eqb cur (length l')); [cbn; split; [discriminate|exact Hl']|].
  destruct (IH (Some (length l')) l' (length l') (S k) (Some v)) as [A B]; [lia| |].
  - cbn. destruct len as [m|]; cbn in L, Hm |- *; [apply Nat.ltb_lt in L; lia|lia].
  - split; [exact A|lia].
Qed.

Lemma aoptional_total : shrinks (aoptional ev) /\ unstuck n (aoptional ev).
Proof.
  split; intros l; [|intros Hl]; unfold aoptional.
  - unfold aparse_option. pose proof (Hsh l) as S1. destruct (ev l) as [r l1]. cbn [snd] in S1.
    destruct r as [v|m c|]; cbn [lt_len].
    + cbn. exact S1.
    + destruct ((m && Nat.eqb (length l) (length l1)) || (negb m && c)); cbn; [lia|exact S1].
    + cbn. exact S1.
  - pose proof (aparse_option_total None l Hl) as P. destruct (aparse_option ev None l) as [[o len'] l'].
    destruct P as (Ho & _ & _). destruct o; cbn; try discriminate. contradiction.
Qed.
End Loops.

(* shrinking without the length bound, for the loops (needed for `shrinks` on every list) *)
Lemma amany_shrinks ev fuel : shrinks ev -> forall len l acc,
  length (snd (amany_loop ev fuel len l acc)) <= length l.
Proof.
  intros Hsh. induction fuel as [|f IH]; intros len l acc; cbn [amany_loop]; [cbn; lia|].
  unfold aparse_option. pose proof (Hsh l) as S1. destruct (ev l) as [r l1]. cbn [snd] in S1.
  destruct r as [v|m c|]; cbn.
  - destruct (lt_len (length l1) len); cbn; [|exact S1]. specialize (IH (Some (length l1)) l1 (v :: acc)). lia.
  - destruct ((m && Nat.eqb (length l) (length l1)) || (negb m && c)); cbn; [lia|exact S1].
  - exact S1.
Qed.

Lemma acount_shrinks ev fuel : shrinks ev -> forall len l cur k last,
  length (snd (acount_loop ev fuel len l cur k last)) <= length l.
Proof.
  intros Hsh. induction fuel as [|f IH]; intros len l cur k last; cbn [acount_loop]; [cbn; lia|].
  unfold aparse_option. pose proof (Hsh l) as S1. destruct (ev l) as [r l1]. cbn [snd] in S1.
  destruct r as [v|m c|]; cbn.
  - destruct (lt_len (length l1) len); cbn; [|exact S1].
    destruct (Nat.eqb cur (length l1)); cbn; [exact S1|]. specialize (IH (Some (length l1)) l1 (length l1) (S k) (Some v)). lia.
  - destruct ((m && Nat.eqb (length l) (length l1)) || (negb m && c)); cbn; [lia|exact S1].
  - exact S1.
Qed.

Lemma acon_total n evs : Forall (fun ev => shrinks ev /\ unstuck n ev) evs ->
  forall l acc err, length (snd (acon_go evs l acc err)) <= length l /\
                    (length l <= n -> fst (acon_go evs l acc err) <> AStuck).
Proof.
  induction 1 as [|ev evs [Hs Hu] Hl IH]; intros l acc err; cbn [acon_go].
  - destruct err as [[m c]|]; cbn; split; try lia; discriminate.
  - pose proof (Hs l) as S1. pose proof (Hu l) as U1. destruct (ev l) as [r l1]. cbn [fst snd] in *.
    destruct r as [v|m c|].
    + destruct (IH l1 (v :: acc) err) as [A B]. split; [lia|]. intros Hn. apply B. lia.
    + destruct (IH l1 acc (match err with Some _ => err | None => Some (m, c) end)) as [A B]. split; [lia|]. intros Hn. apply B. lia.
    + cbn. split; [exact S1|]. intros Hn. exfalso. apply (U1 Hn). reflexivity.
Qed.

Theorem aeval_total_all n :
  (forall p, flatp p = true -> shrinks (aeval (S (S n)) p) /\ unstuck n (aeval (S (S n)) p)) /\
  (forall ps, lflatp ps = true -> Forall (fun ev => shrinks ev /\ unstuck n ev) (aevals (S (S n)) ps)) /\
  (forall o : oparser, True).
Proof.
  apply parser_plist_oparser_ind; intros; try exact I; cbn [flatp lflatp] in *; try discriminate.
  - destruct (flag_total n0 present absent) as [A B]. split; [exact A|intros l _; apply B].
  - destruct (arg_total n0 ty) as [A B]. split; [exact A|intros l _; apply B].
  - destruct (pos_total ty) as [A B]. split; [exact A|intros l _; apply B].
  - (* PCon *) destruct fields as [|q1 [|q2 t]]; try discriminate. specialize (H H0).
    cbn [aeval]. split.
    + intros l. apply (acon_total n _ H l [] None).
    + intros l Hl. apply (acon_total n _ H l [] None). exact Hl.
  - apply andb_prop in H0. destruct H0 as [_ Hq]. destruct (H Hq) as [Hs Hu]. cbn [aeval].
    apply aoptional_total; assumption.
  - apply andb_prop in H0. destruct H0 as [_ Hq]. destruct (H Hq) as [Hs Hu]. cbn [aeval]. split.
    + intros l. unfold amany. pose proof (amany_shrinks _ (S (S n)) Hs None l []) as A.
      destruct (amany_loop (aeval (S (S n)) p) (S (S n)) None l []) as [[r acc] l']. destruct r; exact A.
    + intros l Hl. unfold amany. destruct (amany_total n _ Hs Hu (S (S n)) None l [] Hl (le_n _)) as [A _].
      destruct (amany_loop (aeval (S (S n)) p) (S (S n)) None l []) as [[r acc] l']. destruct r; cbn in *; try discriminate. contradiction.
  - apply andb_prop in H0. destruct H0 as [_ Hq]. destruct (H Hq) as [Hs Hu]. cbn [aeval]. split.
    + intros l. unfold asome. pose proof (amany_shrinks _ (S (S n)) Hs None l []) as A.
      destruct (amany_loop (aeval (S (S n)) p) (S (S n)) None l []) as [[r acc] l']. destruct r; try exact A. destruct acc; exact A.
    + intros l Hl. unfold asome. destruct (amany_total n _ Hs Hu (S (S n)) None l [] Hl (le_n _)) as [A _].
      destruct (amany_loop (aeval (S (S n)) p) (S (S n)) None l []) as [[r acc] l']. destruct r; cbn in *; try discriminate; [destruct acc; discriminate|contradiction].
  - destruct (H H0) as [Hs Hu]. cbn [aeval]. split.
    + intros l. unfold acount. pose proof (acount_shrinks _ (S (S n)) Hs None l (length l) 0 None) as A.
      destruct (acount_loop (aeval (S (S n)) p) (S (S n)) None l (length l) 0 None) as [[[r k] la] l']. destruct r; exact A.
    + intros l Hl. unfold acount. destruct (acount_total n _ Hs Hu (S (S n)) None l (length l) 0 None Hl (le_n _)) as [A _].
      destruct (acount_loop (aeval (S (S n)) p) (S (S n)) None l (length l) 0 None) as [[[r k] la] l']. destruct r; cbn in *; try discriminate. contradiction.
  - destruct (H H0) as [Hs Hu]. cbn [aeval]. split.
    + intros l. unfold alast. pose proof (acount_shrinks _ (S (S n)) Hs None l (length l) 0 None) as A.
      destruct (acount_loop (aeval (S (S n)) p) (S (S n)) None l (length l) 0 None) as [[[r k] la] l']. cbn [snd] in A.
      destruct r; try exact A. destruct la; [exact A|]. pose proof (Hs l'). lia.
    + intros l Hl. unfold alast. destruct (acount_total n _ Hs Hu (S (S n)) None l (length l) 0 None Hl (le_n _)) as [A B].
      destruct (acount_loop (aeval (S (S n)) p) (S (S n)) None l (length l) 0 None) as [[[r k] la] l']. cbn [fst snd] in *.
      destruct r; try discriminate; [|contradiction]. destruct la; [discriminate|]. apply Hu. lia.
  - destruct (H H0) as [Hs Hu]. cbn [aeval]. split.
    + intros l. unfold afallback. pose proof (Hs l) as A. destruct (aeval (S (S n)) p l) as [r l']. cbn [snd] in A.
      destruct r as [x|m c|]; cbn; try exact A. destruct c; cbn; lia.
    + intros l Hl. unfold afallback. pose proof (Hu l Hl) as A. destruct (aeval (S (S n)) p l) as [r l']. cbn [fst] in A.
      destruct r as [x|m c|]; cbn; try discriminate; [destruct c; discriminate|contradiction].
  - constructor.
  - apply andb_prop in H1. destruct H1 as [Hq Ht]. cbn [aevals]. constructor; auto.
Qed.

Lemma view_from_len ix its sts : length (view_from ix its sts) <= length its.
Proof.
  revert ix sts. induction its as [|a t IH]; intros ix [|st sts]; cbn; try lia.
  rewrite app_length. specialize (IH (S ix) sts). destruct (present st); cbn; lia.
Qed.

(* C04 for the flat fragment: on a full-scope state every parser of the fragment returns a value or
   an error -- there is no panic outcome and the loop fuel is never exhausted *)
Theorem flat_eval_total env n p s l :
  flatp p = true -> Sim n s l ->
  (exists v, fst (eval env p s) = ROk v) \/ (exists e, fst (eval env p s) = RErr e).
Proof.
  intros Hf HS. destruct (eval_sim env n p Hf s l HS) as [R _].
  destruct (proj1 (aeval_total_all n) p Hf) as [_ Hu].
  assert (Hl : length l <= n).
  { rewrite <- (sim_view _ _ _ HS). unfold view.
    pose proof (view_from_len (sc_start s) (skipn (sc_start s) (items s)) (skipn (sc_start s) (ist s))) as H.
    rewrite skipn_length, (sim_items _ _ _ HS) in H. lia. }
  specialize (Hu l Hl).
  destruct (fst (eval env p s)) as [v|e|w|]; destruct (fst (aeval (S (S n)) p l)); cbn in R; try contradiction; eauto.
Qed.
