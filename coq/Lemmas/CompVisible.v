(* CompVisible.v -- hidden items are never offered, for EVERY parser definition: every flag / argument / command NAME
   among the hints the evaluator of the autocomplete build collects is the name of a VISIBLE item of the definition
   (one not under hide()), wherever it stands -- under any wrapper, in any alternative, group or subcommand.
   The invariant concerns the hint lists only; it is carried through every combinator body (the plumbing moves,
   stashes, re-titles and replaces hints, it never invents a name) by mutual induction over the parser. *)
From BpafLemmas Require Import Tac EvalEq CompInert.
From BpafModel Require Import Message CompEval.

(* names of the visible named items / commands of a definition *)
Definition nm_of (n : named) : list (option N * option str) :=
  match shortlong_of n with Some sl => [sl_parts sl] | None => [] end.

Fixpoint vis_names (p : cparser) : list (option N * option str) :=
  match p with
  | XFlag n _ _ => nm_of n
  | XArg n _ _ _ => nm_of n
  | XPos _ _ _ _ | XAny _ _ _ _ | XPure _ | XPureWith _ | XFail _ => []
  | XCmd _ _ _ _ _ sub => ovis_names sub
  | XCon fields | XAdj fields => lvis_names fields
  | XOr a b => vis_names a ++ vis_names b
  | XOptional q _ | XMany q _ | XSome q _ _ | XCollect q _ | XCount q | XLast q
  | XFallback q _ _ | XFallbackWith q _ _ | XGuard q _ _ | XParse q _ | XMap q _
  | XUsage q _ | XGroupHelp q _ | XBoxed q | XComplete q _ _ | XCompShell q _ => vis_names q
  | XHide _ => []
  end
with lvis_names (ps : cplist) : list (option N * option str) :=
  match ps with XNil => [] | XCons q t => vis_names q ++ lvis_names t end
with ovis_names (o : coparser) : list (option N * option str) :=
  match o with XOptions q _ => vis_names q end.

Fixpoint vis_cmds (p : cparser) : list str :=
  match p with
  | XFlag _ _ _ | XArg _ _ _ _ | XPos _ _ _ _ | XAny _ _ _ _ | XPure _ | XPureWith _ | XFail _ => []
  | XCmd name _ _ _ _ sub => chars_of name :: ovis_cmds sub
  | XCon fields | XAdj fields => lvis_cmds fields
  | XOr a b => vis_cmds a ++ vis_cmds b
  | XOptional q _ | XMany q _ | XSome q _ _ | XCollect q _ | XCount q | XLast q
  | XFallback q _ _ | XFallbackWith q _ _ | XGuard q _ _ | XParse q _ | XMap q _
  | XUsage q _ | XGroupHelp q _ | XBoxed q | XComplete q _ _ | XCompShell q _ => vis_cmds q
  | XHide _ => []
  end
with lvis_cmds (ps : cplist) : list str :=
  match ps with XNil => [] | XCons q t => vis_cmds q ++ lvis_cmds t end
with ovis_cmds (o : coparser) : list str :=
  match o with XOptions q _ => vis_cmds q end.

Section Visible.
Variable Vn : list (option N * option str).
Variable Vc : list str.

Definition name_ok (c : comp) : Prop :=
  match c with
  | CoFlag _ sh lo | CoArgument _ sh lo _ => In (sh, lo) Vn
  | CoCommand _ n _ => In n Vc
  | CoValue _ _ _ | CoMeta _ _ _ | CoShell _ _ _ => True
  end.

Definition kall (k : option cst) : Prop :=
  match k with Some c => Forall name_ok (cs_comps c) | None => True end.

Definition vgood (cev : xevaluator) : Prop := forall x, kall (snd x) -> kall (snd (snd (cev x))).
Definition vrgood (crun : xst -> sres * xst) : Prop := forall x, kall (snd x) -> kall (snd (snd (crun x))).

(* ------------------------------------------------------------------ plumbing *)
Lemma kall_kpush c k : name_ok c -> kall k -> kall (kpush c k).
Proof. destruct k as [x|]; cbn; [|auto]. intros Hc Hk. apply Forall_app. split; [exact Hk|constructor; [exact Hc|constructor]]. Qed.
Lemma kall_kextend k l : kall k -> Forall name_ok l -> kall (kextend k l).
Proof. destruct k as [x|]; cbn; [|auto]. intros Hk Hl. apply Forall_app. split; assumption. Qed.
Lemma kall_kswap_fst k l : Forall name_ok l -> kall (fst (kswap k l)).
Proof. destruct k as [x|]; cbn; auto. Qed.
Lemma kall_kswap_snd k l : kall k -> Forall name_ok l -> Forall name_ok (snd (kswap k l)).
Proof. destruct k as [x|]; cbn; auto. Qed.
Lemma kall_kset_nopos k : kall k -> kall (kset_nopos k).
Proof. destruct k as [x|]; cbn; auto. Qed.
Lemma kall_kclear k : kall (kclear k).
Proof. destruct k as [x|]; cbn; auto. Qed.
Lemma kall_comps k : kall k -> Forall name_ok (kcomps k).
Proof. destruct k as [x|]; cbn; auto. Qed.

Lemma name_ok_set_group g c : name_ok c -> name_ok (set_group g c).
Proof. destruct c; cbn; auto. Qed.

Lemma kall_push_with_group g l k : kall k -> Forall name_ok l -> kall (push_with_group g l k).
Proof.
  intros Hk Hl. unfold push_with_group. apply kall_kextend; [exact Hk|]. destruct g as [gg|]; [|exact Hl].
  apply Forall_forall. intros c Hc. apply in_map_iff in Hc. destruct Hc as [c0 [<- Hc0]]. apply name_ok_set_group.
  exact (proj1 (Forall_forall _ _) Hl c0 Hc0).
Qed.

Section Push.
Variable docgen : bool.
Lemma kall_push_flag n s k : incl (nm_of n) Vn -> kall k -> kall (push_flag docgen n s k).
Proof.
  intros Hn Hk. unfold push_flag. unfold nm_of in Hn. destruct (shortlong_of n) as [sl|]; [|exact Hk].
  destruct (sl_parts sl) as [sh lo] eqn:E. apply kall_kpush; [|exact Hk]. cbn. apply Hn. left. reflexivity.
Qed.
Lemma kall_push_argument n mv s k : incl (nm_of n) Vn -> kall k -> kall (push_argument docgen n mv s k).
Proof.
  intros Hn Hk. unfold push_argument. unfold nm_of in Hn. destruct (shortlong_of n) as [sl|]; [|exact Hk].
  destruct (sl_parts sl) as [sh lo] eqn:E. apply kall_kpush; [|exact Hk]. cbn. apply Hn. left. reflexivity.
Qed.
Lemma kall_push_metavar mv h a s k : kall k -> kall (push_metavar docgen mv h a s k).
Proof. intros Hk. apply kall_kpush; [exact I|exact Hk]. Qed.
Lemma kall_push_command n sh h s k : In (chars_of n) Vc -> kall k -> kall (push_command docgen n sh h s k).
Proof. intros Hn Hk. apply kall_kpush; [exact Hn|exact Hk]. Qed.
End Push.
Lemma kall_push_pos_sep s k : kall k -> kall (push_pos_sep s k).
Proof. intros Hk. apply kall_kpush; [exact I|exact Hk]. Qed.

(* ------------------------------------------------------------------ leaves *)
Section Leaves.
Variable env : bytes -> option bytes.
Variable docgen : bool.

Lemma flag_vgood n p a : incl (nm_of n) Vn -> vgood (c_eval_flag env docgen n p a).
Proof.
  intros Hn [s k] Hk. cbn [snd] in Hk. unfold c_eval_flag. destruct (eval_flag env n p a s) as [r s']. cbn [snd].
  destruct (take_flag n s); [destruct (touching_last _ k)|destruct (env_first env (n_env n)); [destruct (touching_last _ k)|]];
    try exact Hk; apply kall_push_flag; assumption.
Qed.
Lemma arg_vgood n mv ty adj : incl (nm_of n) Vn -> vgood (c_eval_arg env docgen n mv ty adj).
Proof.
  intros Hn [s k] Hk. cbn [snd] in Hk. unfold c_eval_arg. destruct (eval_arg env n mv ty adj s) as [r s']. cbn [snd].
  destruct (take_arg n adj s); [| |destruct (touching_last _ k)]; try exact Hk;
    try (apply kall_push_argument; assumption). apply kall_push_metavar. exact Hk.
Qed.
Lemma pos_vgood mv ty pos help : vgood (c_eval_pos docgen mv ty pos help).
Proof.
  intros [s k] Hk. cbn [snd] in Hk. unfold c_eval_pos. destruct (eval_pos mv ty pos help s) as [r s']. cbn [snd].
  destruct (take_positional_word s) as [[[[ix st] w] s1]|].
  - destruct pos, st; try exact Hk; try (apply kall_push_pos_sep; exact Hk);
      (destruct (touching_last s1 k && negb (knopos k)); [apply kall_kset_nopos, kall_push_metavar|]; exact Hk).
  - destruct (negb (knopos k)); [apply kall_kset_nopos, kall_push_metavar|]; exact Hk.
Qed.
Lemma lift_vgood ev : vgood (c_lift ev).
Proof. intros [s k] Hk. unfold c_lift. cbn [fst snd] in *. destruct (ev s). exact Hk. Qed.
End Leaves.

(* ------------------------------------------------------------------ repetition *)
Lemma parse_option_vgood cev len x c : vgood cev -> kall (snd x) -> kall (snd (snd (c_parse_option cev len x c))).
Proof.
  intros H Hx. unfold c_parse_option. pose proof (H x Hx) as Hx'. destruct (cev x) as [r [s' k']]. cbn [snd] in *.
  destruct r; cbn [snd]; try exact Hx'.
  - destruct (lt_len (remaining s') len); exact Hx'.
  - destruct (c || _ || _); cbn [snd]; [|exact Hx']. destruct k'; [exact Hx'|exact Hx].
Qed.
Lemma many_loop_vgood cev c fuel len x acc :
  vgood cev -> kall (snd x) -> kall (snd (snd (c_many_loop cev c fuel len x acc))).
Proof.
  intros H. revert len x acc. induction fuel as [|f IH]; intros len x acc Hx; cbn [c_many_loop]; [exact Hx|].
  pose proof (parse_option_vgood cev len x c H Hx) as Hx'. destruct (c_parse_option cev len x c) as [[o l] x']. cbn [snd] in *.
  destruct o; cbn [snd]; try exact Hx'. apply IH. exact Hx'.
Qed.
Lemma count_loop_vgood cev fuel len x cur n last :
  vgood cev -> kall (snd x) -> kall (snd (snd (c_count_loop cev fuel len x cur n last))).
Proof.
  intros H. revert len x cur n last. induction fuel as [|f IH]; intros len x cur n last Hx; cbn [c_count_loop]; [exact Hx|].
  pose proof (parse_option_vgood cev len x false H Hx) as Hx'. destruct (c_parse_option cev len x false) as [[o l] x']. cbn [snd] in *.
  destruct o; cbn [snd]; try exact Hx'. destruct (Nat.eqb cur (remaining (fst x'))); cbn [snd]; [exact Hx'|]. apply IH. exact Hx'.
Qed.
Lemma optional_vgood cev c : vgood cev -> vgood (c_optional_body cev c).
Proof.
  intros H x Hx. unfold c_optional_body. pose proof (parse_option_vgood cev None x c H Hx) as Hx'.
  destruct (c_parse_option cev None x c) as [[o l] x']. cbn [snd] in *. destruct o; exact Hx'.
Qed.
Lemma many_vgood cev c : vgood cev -> vgood (c_many_body cev c).
Proof.
  intros H x Hx. unfold c_many_body. pose proof (many_loop_vgood cev c (loop_fuel (fst x)) None x [] H Hx) as Hx'.
  destruct (c_many_loop cev c (loop_fuel (fst x)) None x []) as [[r acc] x']. cbn [snd] in *. destruct r; exact Hx'.
Qed.
Lemma some_vgood cev m c : vgood cev -> vgood (c_some_body cev m c).
Proof.
  intros H x Hx. unfold c_some_body. pose proof (many_loop_vgood cev c (loop_fuel (fst x)) None x [] H Hx) as Hx'.
  destruct (c_many_loop cev c (loop_fuel (fst x)) None x []) as [[r acc] x']. cbn [snd] in *. destruct r; try exact Hx'.
  destruct acc; exact Hx'.
Qed.
Lemma count_vgood cev : vgood cev -> vgood (c_count_body cev).
Proof.
  intros H x Hx. unfold c_count_body.
  pose proof (count_loop_vgood cev (loop_fuel (fst x)) None x (remaining (fst x)) 0 None H Hx) as Hx'.
  destruct (c_count_loop cev (loop_fuel (fst x)) None x (remaining (fst x)) 0 None) as [[[r n] l] x']. cbn [snd] in *.
  destruct r; exact Hx'.
Qed.
Lemma last_vgood cev : vgood cev -> vgood (c_last_body cev).
Proof.
  intros H x Hx. unfold c_last_body.
  pose proof (count_loop_vgood cev (loop_fuel (fst x)) None x (remaining (fst x)) 0 None H Hx) as Hx'.
  destruct (c_count_loop cev (loop_fuel (fst x)) None x (remaining (fst x)) 0 None) as [[[r n] l] x']. cbn [snd] in *.
  destruct r; try exact Hx'. destruct l; [exact Hx'|]. apply H. exact Hx'.
Qed.

(* ------------------------------------------------------------------ wrappers *)
Lemma fallback_with_vgood cev fb : vgood cev -> vgood (c_fallback_with_body cev fb).
Proof.
  intros H x Hx. unfold c_fallback_with_body. pose proof (H x Hx) as Hx'. destruct (cev x) as [r [s' k']]. cbn [snd] in *.
  destruct r; try exact Hx'. destruct (can_catch m); [destruct fb|]; exact Hx'.
Qed.
Lemma guard_vgood cev c m : vgood cev -> vgood (c_guard_body cev c m).
Proof.
  intros H x Hx. unfold c_guard_body. pose proof (H x Hx) as Hx'. destruct (cev x) as [r x']. cbn [snd] in *.
  destruct r; try exact Hx'. destruct (c v); exact Hx'.
Qed.
Lemma parse_vgood cev f : vgood cev -> vgood (c_parse_body cev f).
Proof.
  intros H x Hx. unfold c_parse_body. pose proof (H x Hx) as Hx'. destruct (cev x) as [r x']. cbn [snd] in *.
  destruct r; try exact Hx'. destruct (f v); exact Hx'.
Qed.
Lemma map_vgood cev f : vgood cev -> vgood (c_map_body cev f).
Proof.
  intros H x Hx. unfold c_map_body. pose proof (H x Hx) as Hx'. destruct (cev x) as [r x']. cbn [snd] in *.
  destruct r; exact Hx'.
Qed.

(* hide: whatever the hidden parser is -- NO hypothesis about it -- the hints afterwards are the ones from before *)
Lemma hide_vgood cev : vgood (c_hide_body cev).
Proof.
  intros [s k] Hk. cbn [snd] in Hk. unfold c_hide_body. destruct (kswap k []) as [k0 stash] eqn:Ek.
  assert (Hst : Forall name_ok stash).
  { replace stash with (snd (kswap k [])) by (rewrite Ek; reflexivity). apply kall_kswap_snd; [exact Hk|constructor]. }
  destruct (cev (s, k0)) as [r [s' k']].
  assert (H1 : kall (fst (kswap k' stash))) by (apply kall_kswap_fst; exact Hst).
  destruct r; cbn [snd]; try exact H1. destruct m; exact H1.
Qed.

Lemma stash_ok k k0 stash : kall k -> kswap k [] = (k0, stash) -> kall k0 /\ Forall name_ok stash.
Proof.
  intros Hk E. split.
  - replace k0 with (fst (kswap k [])) by (rewrite E; reflexivity). apply kall_kswap_fst. constructor.
  - replace stash with (snd (kswap k [])) by (rewrite E; reflexivity). apply kall_kswap_snd; [exact Hk|constructor].
Qed.

Lemma group_help_vgood docgen cev d : vgood cev -> vgood (c_group_help_body docgen cev d).
Proof.
  intros H [s k] Hk. cbn [snd] in Hk. unfold c_group_help_body. destruct (kswap k []) as [k0 stash] eqn:Ek.
  destruct (stash_ok k k0 stash Hk Ek) as [H0 Hst]. pose proof (H (s, k0) H0) as Hx'.
  destruct (cev (s, k0)) as [r [s' k']]. cbn [snd] in *. destruct (kswap k' stash) as [k1 inner] eqn:E1. cbn [snd].
  apply kall_push_with_group.
  - replace k1 with (fst (kswap k' stash)) by (rewrite E1; reflexivity). apply kall_kswap_fst. exact Hst.
  - replace inner with (snd (kswap k' stash)) by (rewrite E1; reflexivity). apply kall_kswap_snd; assumption.
Qed.

Lemma comp_values_ok f g v d c ci : Forall name_ok c -> name_ok ci -> Forall name_ok (comp_values f g v d c ci).
Proof.
  intros Hc Hci. unfold comp_values. destruct ci; try (apply Forall_app; split; [exact Hc|constructor; [exact Hci|constructor]]).
  apply Forall_app. split.
  - destruct (Nat.eqb _ 1); [exact Hc|]. apply Forall_app. split; [exact Hc|constructor; [exact I|constructor]].
  - apply Forall_forall. intros c0 H0. apply in_map_iff in H0. destruct H0 as [[b h] [<- _]]. exact I.
Qed.
Lemma fold_comp_values_ok f g v d inner c :
  Forall name_ok c -> Forall name_ok inner -> Forall name_ok (fold_left (comp_values f g v d) inner c).
Proof.
  revert c. induction inner as [|ci t IH]; intros c Hc Hi; cbn [fold_left]; [exact Hc|].
  inversion Hi; subst. apply IH; [apply comp_values_ok; assumption|assumption].
Qed.

Lemma complete_vgood cev f g : vgood cev -> vgood (c_complete_body cev f g).
Proof.
  intros H [s k] Hk. cbn [snd] in Hk. unfold c_complete_body. destruct (kswap k []) as [k0 stash] eqn:Ek.
  destruct (stash_ok k k0 stash Hk Ek) as [H0 Hst]. pose proof (H (s, k0) H0) as Hx'.
  destruct (cev (s, k0)) as [r [s' k']]. cbn [snd] in *. destruct (kswap k' stash) as [k1 inner] eqn:E1.
  assert (H1 : kall k1) by (replace k1 with (fst (kswap k' stash)) by (rewrite E1; reflexivity); apply kall_kswap_fst; exact Hst).
  assert (Hin : Forall name_ok inner)
    by (replace inner with (snd (kswap k' stash)) by (rewrite E1; reflexivity); apply kall_kswap_snd; assumption).
  destruct k1 as [c1|]; [|exact I].
  destruct r; cbn [snd]; try exact H1.
  - cbn. apply fold_comp_values_ok; [exact H1|exact Hin].
  - apply (kall_kextend (Some c1)); assumption.
Qed.
Lemma comp_shell_vgood cev op : vgood cev -> vgood (c_comp_shell_body cev op).
Proof.
  intros H [s k] Hk. cbn [snd] in Hk. unfold c_comp_shell_body. destruct (kswap k []) as [k0 stash] eqn:Ek.
  destruct (stash_ok k k0 stash Hk Ek) as [H0 Hst]. pose proof (H (s, k0) H0) as Hx'.
  destruct (cev (s, k0)) as [r [s' k']]. cbn [snd] in *. destruct (kswap k' stash) as [k1 inner] eqn:E1. cbn [snd].
  apply kall_kextend.
  - replace k1 with (fst (kswap k' stash)) by (rewrite E1; reflexivity). apply kall_kswap_fst. exact Hst.
  - assert (Hin : Forall name_ok inner)
      by (replace inner with (snd (kswap k' stash)) by (rewrite E1; reflexivity); apply kall_kswap_snd; assumption).
    apply Forall_forall. intros c0 H0'. apply in_map_iff in H0'. destruct H0' as [ci [<- Hci]].
    pose proof (proj1 (Forall_forall _ _) Hin ci Hci) as Hok. destruct ci; exact Hok || exact I.
Qed.

(* ------------------------------------------------------------------ alternatives *)
Lemma kall_or_comps k0 stash sa ka sb kb pick :
  kall k0 -> Forall name_ok stash -> kall ka -> kall kb -> kall (or_comps k0 stash sa ka sb kb pick).
Proof.
  intros H0 Hst Ha Hb. unfold or_comps. destruct (Nat.compare (depth sa) (depth sb)); try (apply kall_kextend; assumption).
  destruct ka as [ca|]; destruct kb as [cb|]; try (apply kall_kextend; [destruct pick as [[|]|]; assumption|exact Hst]).
  destruct (if Nat.eqb _ _ then _ else _) as [keep_a keep_b]. apply kall_kextend.
  - destruct pick as [[|]|]; [destruct keep_a|destruct keep_b|]; try assumption; cbn; constructor.
  - apply Forall_app. split; [exact Hst|]. apply Forall_app. split; [destruct keep_a|destruct keep_b]; try constructor; assumption.
Qed.

Lemma or_vgood ca cb : vgood ca -> vgood cb -> vgood (c_or_body ca cb).
Proof.
  intros Ha Hb [s k] Hk. cbn [snd] in Hk. unfold c_or_body. destruct (kswap k []) as [k0 stash] eqn:Ek.
  destruct (stash_ok k k0 stash Hk Ek) as [H0 Hst].
  pose proof (Ha (s, k0) H0) as Hxa. destruct (ca (s, k0)) as [ra [sa ka]]. cbn [snd] in Hxa.
  pose proof (Hb (s, k0) H0) as Hxb. destruct (cb (s, k0)) as [rb [sb kb]]. cbn [snd] in Hxb.
  destruct ra; try exact Hxa;
    (destruct rb; try exact Hxb;
     destruct (this_or_that _ _ s sa sb) as [pick s']; cbn [snd]; apply kall_or_comps; assumption).
Qed.

(* ------------------------------------------------------------------ construct! *)
Lemma con_go_vgood ff cevs x first acc err :
  Forall vgood cevs -> kall (snd x) -> kall (snd (snd (c_con_go ff cevs x first acc err))).
Proof.
  intros H. revert x first acc err. induction H as [|cev l Hc Hl IH]; intros x first acc err Hx; cbn [c_con_go].
  - destruct err; exact Hx.
  - pose proof (Hc x Hx) as Hx'. destruct (cev x) as [r x']. cbn [snd] in *. destruct r; try exact Hx'.
    + apply IH. exact Hx'.
    + destruct (ff && first); [exact Hx'|apply IH; exact Hx'].
Qed.
Lemma con_vgood ff cevs : Forall vgood cevs -> vgood (c_con_body ff cevs).
Proof.
  intros H x Hx. unfold c_con_body. pose proof (con_go_vgood ff cevs x true [] None H Hx) as Hx'.
  destruct (c_con_go ff cevs x true [] None) as [r x']. exact Hx'.
Qed.

(* ------------------------------------------------------------------ adjacent groups *)
Definition vstep_ok (st : c_adj_step) : Prop :=
  match st with
  | CAReturn _ x => kall (snd x)
  | CANext b => kall (snd (cb_args b))
  | CAStop _ _ => True
  end.

Lemma adj_inner_vgood cev orig before fuel ta best :
  vgood cev -> kall (snd orig) -> kall (snd ta) -> kall (snd (cb_args best)) ->
  vstep_ok (c_adj_inner cev orig before fuel ta best).
Proof.
  intros H Ho. revert ta best. induction fuel as [|f IH]; intros ta best Hta Hb; cbn [c_adj_inner vstep_ok]; [exact I|].
  pose proof (H ta Hta) as Hx'. destruct (cev ta) as [r [t1 kt]]. cbn [snd] in Hx'.
  destruct r; cbn [vstep_ok]; try exact I.
  - destruct (adjacent_scope t1 (fst orig)) as [| |a b]; cbn [vstep_ok]; try exact I.
    + destruct (set_scope t1 _ _); cbn [vstep_ok snd]; [exact Hx'|exact I].
    + destruct (set_scope (fst orig) a b); cbn [vstep_ok]; [|exact I]. apply IH; [exact Ho|exact Hb].
  - destruct (Nat.ltb before (remaining t1)); cbn [vstep_ok]; [exact I|].
    destruct (Nat.ltb (cb_consumed best) (before - remaining t1)); cbn [vstep_ok cb_args snd]; [exact Hx'|exact Hb].
Qed.

Lemma adj_try_vgood cev orig width start best :
  vgood cev -> kall (snd orig) -> kall (snd (cb_args best)) -> vstep_ok (c_adj_try cev orig width start best).
Proof.
  intros H Ho Hb. unfold c_adj_try.
  destruct (set_scope (fst orig) start (length (items (fst orig)))) as [ta0|]; cbn [vstep_ok]; [|exact I].
  destruct (set_scope ta0 start (start + width)) as [scratch|]; cbn [vstep_ok]; [|exact I].
  destruct (Nat.eqb (remaining scratch) 0); cbn [vstep_ok]; [exact Hb|].
  destruct (cev (scratch, snd orig)) as [r0 [scratch' ks]].
  destruct r0; cbn [vstep_ok]; try exact I;
    (destruct (Nat.eqb (remaining scratch) (remaining scratch')); cbn [vstep_ok]; [exact Hb|];
     destruct (set_scope ta0 start (sc_end (fst orig))) as [ta1|]; cbn [vstep_ok]; [|exact I];
     destruct (if Nat.ltb (remaining ta1) (sc_end (fst orig) - start) then _ else _) as [ta2|]; cbn [vstep_ok]; [|exact I];
     apply adj_inner_vgood; assumption).
Qed.

Lemma adj_outer_vgood cev orig width starts best :
  vgood cev -> kall (snd orig) -> kall (snd (cb_args best)) ->
  kall (snd (snd (c_adj_outer cev orig width starts best))).
Proof.
  intros H Ho. revert best. induction starts as [|st more IH]; intros best Hb; cbn [c_adj_outer].
  - destruct (set_scope (fst (cb_args best)) _ _); cbn [snd]; [exact Hb|exact Ho].
  - pose proof (adj_try_vgood cev orig width st best H Ho Hb) as Hs.
    destruct (c_adj_try cev orig width st best); cbn [vstep_ok snd] in *; [exact Hs|apply IH; exact Hs|exact Ho].
Qed.

Lemma adjacent_vgood cev fi : vgood cev -> vgood (c_eval_adjacent cev fi).
Proof.
  intros H x Hx. unfold c_eval_adjacent. destruct fi as [it|]; cbn [snd]; [|exact Hx].
  apply adj_outer_vgood; assumption.
Qed.

(* ------------------------------------------------------------------ commands and command levels *)
Lemma cmd_vgood docgen name aliases shorts help adjacent m i crun :
  In (chars_of name) Vc -> vrgood crun -> vgood (c_cmd_body docgen name aliases shorts help adjacent m i crun).
Proof.
  intros Hn H [s k] Hk. cbn [snd] in Hk. unfold c_cmd_body. destruct (take_cmd_any _ s) as [hit s1].
  destruct hit; cbn [snd]; [|apply kall_push_command; assumption].
  destruct (touching_last s1 k); cbn [snd]; [apply kall_push_command; [exact Hn|apply kall_kclear]|].
  destruct (current s1) as [cur|]; cbn [snd]; [|exact Hk].
  destruct (set_scope s1 cur (sc_end s1)) as [s2|]; cbn [snd]; [|exact Hk].
  destruct adjacent.
  - destruct (adjacently_available_from _ _) as [a b]. destruct (set_scope _ a b) as [s4|]; cbn [snd]; [|exact Hk].
    pose proof (H (s4, k) Hk) as H5. destruct (crun (s4, k)) as [r [s5 k5]]. cbn [snd] in H5.
    destruct r; cbn [snd]; try exact H5.
    + destruct (set_scope s5 _ _); exact H5.
    + destruct (adjacent_scope s5 _) as [| |na nb]; cbn [snd]; try exact H5.
      destruct (set_scope _ na nb) as [o1|]; cbn [snd]; [|exact H5].
      pose proof (H (o1, k) Hk) as H7. destruct (crun (o1, k)) as [r2 [o2 k6]]. cbn [snd] in H7.
      destruct r2; cbn [snd]; try exact H7; try exact H5. destruct (set_scope o2 _ _); exact H7.
  - pose proof (H (set_path s2 (path s2 ++ [name]), k) Hk) as H4. destruct (crun _) as [r x4]. destruct r; exact H4.
Qed.

Lemma run_sub_body_vgood env inf m x r s1 k1 : kall k1 -> kall (snd (snd (c_run_sub_body env inf m x (r, (s1, k1))))).
Proof.
  intros H1. unfold c_run_sub_body. destruct (run_sub_body env inf m (fst x) (r, s1)) as [pr ps].
  destruct k1 as [c|]; [|exact I]. destruct (early inf (fst x) r); cbn [snd]; [exact H1|].
  destruct (check_complete s1 c); exact H1.
Qed.

End Visible.

(* ------------------------------------------------------------------ every parser *)
Theorem ceval_visible_all env docgen :
  (forall p Vn Vc, incl (vis_names p) Vn -> incl (vis_cmds p) Vc -> vgood Vn Vc (ceval env docgen p)) /\
  (forall ps Vn Vc, incl (lvis_names ps) Vn -> incl (lvis_cmds ps) Vc -> Forall (vgood Vn Vc) (cevals env docgen ps)) /\
  (forall o Vn Vc, incl (ovis_names o) Vn -> incl (ovis_cmds o) Vc -> vrgood Vn Vc (crun_sub env docgen o)).
Proof.
  apply cparser_cplist_coparser_ind; intros; cbn [vis_names lvis_names ovis_names vis_cmds lvis_cmds ovis_cmds] in *.
  - apply flag_vgood; assumption.
  - apply arg_vgood; assumption.
  - apply pos_vgood.
  - apply lift_vgood.
  - apply cmd_vgood; [apply H1; left; reflexivity|]. apply H; [assumption|]. intros z Hz. apply H1. right. exact Hz.
  - destruct fields as [|q1 [|q2 t]].
    + intros x Hx. exact Hx.
    + specialize (H Vn Vc H0 H1). inversion H; subst. assumption.
    + intros x Hx. rewrite ceval_XCon_many. apply con_vgood; [apply H; assumption|exact Hx].
  - intros x Hx. apply adjacent_vgood; [|exact Hx]. apply con_vgood. apply H; assumption.
  - apply or_vgood; [apply H|apply H0]; eauto using incl_appl, incl_appr, incl_tran, incl_refl.
  - apply optional_vgood; auto.
  - apply many_vgood; auto.
  - apply some_vgood; auto.
  - apply many_vgood; auto.
  - apply count_vgood; auto.
  - apply last_vgood; auto.
  - apply fallback_with_vgood; auto.
  - apply fallback_with_vgood; auto.
  - apply guard_vgood; auto.
  - apply parse_vgood; auto.
  - apply map_vgood; auto.
  - apply hide_vgood.
  - auto.
  - apply group_help_vgood; auto.
  - intros x Hx. exact Hx.
  - intros x Hx. cbn [ceval]. destruct r; exact Hx.
  - intros x Hx. exact Hx.
  - auto.
  - apply complete_vgood; auto.
  - apply comp_shell_vgood; auto.
  - constructor.
  - rewrite cevals_cons. constructor; [apply H|apply H0]; eauto using incl_appl, incl_appr, incl_tran, incl_refl.
  - intros x Hx. rewrite crun_sub_eq. pose proof (H Vn Vc H0 H1 x Hx) as Hx'.
    destruct (ceval env docgen p x) as [r [s1 k1]]. cbn [snd] in Hx'. apply run_sub_body_vgood. exact Hx'.
Qed.

(* the hints a whole run collects name visible items only *)
Corollary run_hints_name_visible_items env docgen o s c :
  kall (ovis_names o) (ovis_cmds o) (snd (snd (crun_sub env docgen o (s, Some (mkCst [] (cs_rev c) (cs_nopos c)))))).
Proof.
  apply (proj2 (proj2 (ceval_visible_all env docgen)) o _ _ (incl_refl _) (incl_refl _)). cbn. constructor.
Qed.

(* ------------------------------------------------------------------ both stages together *)
From BpafLemmas Require Import CompleteLaws.

(* every candidate Complete::complete computes from hints that name visible items stems from such a hint *)
Theorem candidates_from_visible_items Vn Vc cs arg po nm px i :
  Forall (name_ok Vn Vc) cs -> In i (fst (complete cs arg po nm px)) ->
  exists c, In c cs /\ name_ok Vn Vc c /\ comp_item arg po px c = Some i.
Proof.
  intros Hk Hi. destruct (complete_sound cs arg po nm px i Hi) as [c [Hc [_ [_ Hci]]]].
  exists c. split; [exact Hc|]. split; [exact (proj1 (Forall_forall _ _) Hk c Hc)|exact Hci].
Qed.

(* a whole command level: whatever candidates are computed from the hints its parser collected, each stems from a
   hint that names a visible item of the definition (or is a value / placeholder / shell completer) *)
Corollary level_candidates_from_visible_items env docgen p s c arg po nm px i :
  In i (fst (complete (kcomps (snd (snd (ceval env docgen p (s, Some (mkCst [] (cs_rev c) (cs_nopos c))))))) arg po nm px)) ->
  exists h, name_ok (vis_names p) (vis_cmds p) h /\ comp_item arg po px h = Some i.
Proof.
  intros Hi.
  pose proof (proj1 (ceval_visible_all env docgen) p _ _ (incl_refl _) (incl_refl _)
                    (s, Some (mkCst [] (cs_rev c) (cs_nopos c)))) as Hk.
  cbn [snd] in Hk. specialize (Hk (Forall_nil _)).
  destruct (candidates_from_visible_items _ _ _ arg po nm px i (kall_comps _ _ _ Hk) Hi) as [h [_ [Hn Hc]]].
  exists h. split; assumption.
Qed.
