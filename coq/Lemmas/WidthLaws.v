(* WidthLaws.v -- render_console: the column counter dominates the length of the current line, and a
   word is only ever placed beyond the width when it is the first thing after the indentation / the
   definition term of its line (C13, width clause). *)
From Coq Require Import Lia List Bool NArith.
From BpafModel Require Import Console.
From BpafLemmas Require Import ConsoleLaws.
Import ListNotations.
Local Open Scope N_scope.

(* the number of characters after the last line break; the output is kept reversed *)
Fixpoint cur_len (r : str) : N :=
  match r with
  | [] => 0
  | c :: t => if (c =? nl) then 0 else 1 + cur_len t
  end.

Lemma cur_len_nl r : cur_len (nl :: r) = 0.
Proof. reflexivity. Qed.

Lemma cur_len_cons c r : cur_len (c :: r) <= 1 + cur_len r.
Proof. cbn [cur_len]. destruct (c =? nl); lia. Qed.

Lemma cur_len_push s : forall r, cur_len (push_rev s r) <= clen s + cur_len r.
Proof.
  unfold push_rev, clen. induction s as [|c s IH]; intros r; cbn [rev_append length]; [lia|].
  specialize (IH (c :: r)). pose proof (cur_len_cons c r). lia.
Qed.

Lemma clen_pad n : clen (pad n) = n.
Proof. unfold clen, pad. rewrite repeat_length. lia. Qed.

Lemma char_blen_pos c : 1 <= char_blen c.
Proof. unfold char_blen. destruct (c <? 128); [lia|]. destruct (c <? 2048); [lia|]. destruct (c <? 65536); lia. Qed.

Lemma clen_le_blen s : clen s <= blen s.
Proof.
  unfold clen. induction s as [|c s IH]; cbn [length blen]; [lia|]. pose proof (char_blen_pos c). lia.
Qed.

(* ------------------------------------------------------------------ the column counter *)
Definition LineInv (st : cstate_r) : Prop := cur_len (rres st) <= char_pos st.

Definition chunk_ok (c : chunk) : Prop :=
  match c with CRaw s w => clen s <= w /\ (s = [] -> w = 0 \/ W_CODE <= w) | _ => True end.

Lemma raw_step_line mw s w st : clen s <= w -> LineInv st -> LineInv (raw_step mw s w st).
Proof.
  unfold LineInv, raw_step. intros Hw H.
  set (margin := cur_margin (margins st)).
  (* the guarded block *)
  assert (G : forall r1 cp1 (skipit : bool),
     (if is_nil (rres st) then (rres st, char_pos st, false)
      else
        let '(ra, cpa) :=
          if (pend_nl st || pend_blank st) && negb (ends_nl (rres st))
          then (nl :: rres st, 0) else (rres st, char_pos st) in
        let rb := if pend_blank st && negb (ends_nlnl ra) then nl :: ra else ra in
        if (mw <? cpa + blen s)
        then (nl :: drop_while is_ws rb, 0, beqb s [sp])
        else (rb, cpa, false)) = (r1, cp1, skipit) -> cur_len r1 <= cp1).
  { intros r1 cp1 skipit E. destruct (is_nil (rres st)); [inversion E; subst; exact H|].
    destruct ((pend_nl st || pend_blank st) && negb (ends_nl (rres st))).
    - destruct (pend_blank st && negb (ends_nlnl (nl :: rres st))); destruct (mw <? 0 + blen s);
        inversion E; subst; cbn; lia.
    - destruct (pend_blank st && negb (ends_nlnl (rres st))); destruct (mw <? char_pos st + blen s);
        inversion E; subst; cbn [cur_len]; rewrite ?N.eqb_refl; try lia; exact H. }
  destruct (if is_nil (rres st) then _ else _) as [[r1 cp1] skipit] eqn:E.
  specialize (G r1 cp1 skipit eq_refl).
  destruct skipit; [exact G|].
  destruct (cp1 <=? margin) eqn:Hm.
  - apply N.leb_le in Hm.
    pose proof (cur_len_push (pad (margin - cp1)) r1) as P1. rewrite clen_pad in P1.
    destruct (pend_margin st && (MAX_TAB + 4 <=? margin) && (margin - cp1 <? 2)) eqn:Hg; cbn [rres char_pos].
    + pose proof (cur_len_push (pad (2 - (margin - cp1))) (push_rev (pad (margin - cp1)) r1)) as P2. rewrite clen_pad in P2.
      pose proof (cur_len_push s (push_rev (pad (2 - (margin - cp1))) (push_rev (pad (margin - cp1)) r1))) as P3. lia.
    + pose proof (cur_len_push s (push_rev (pad (margin - cp1)) r1)) as P3. lia.
  - destruct (pend_margin st && (MAX_TAB + 4 <=? cp1) && (0 <? 2)) eqn:Hg; cbn [rres char_pos].
    + pose proof (cur_len_push (pad (2 - 0)) r1) as P2. rewrite clen_pad in P2.
      pose proof (cur_len_push s (push_rev (pad (2 - 0)) r1)) as P3. lia.
    + pose proof (cur_len_push s r1) as P3. lia.
Qed.

(* nothing written yet: the counter is at 0, or an empty code line moved it beyond every width *)
Definition EmptyInv (st : cstate_r) : Prop := rres st = [] -> char_pos st = 0 \/ W_CODE <= char_pos st.

Lemma push_rev_nil s r : push_rev s r = [] -> s = [] /\ r = [].
Proof.
  unfold push_rev. rewrite rev_append_rev. intros H. apply app_eq_nil in H. destruct H as [H1 H2].
  split; [|exact H2]. destruct s; [reflexivity|]. cbn in H1. apply app_eq_nil in H1. destruct H1 as [_ H1]. discriminate.
Qed.

Lemma pad_nil n : pad n = [] -> n = 0.
Proof. unfold pad. intros H. destruct (N.to_nat n) eqn:E; [lia|discriminate]. Qed.

(* a word (or a separating space): the chunk's width is its number of characters *)
Lemma raw_step_width mw s st :
  EmptyInv st ->
  let st' := raw_step mw s (clen s) st in
  char_pos st' <= mw + 2 \/ char_pos st' <= cur_margin (margins st) + 2 + clen s \/ W_CODE <= char_pos st'.
Proof.
  intros He. unfold raw_step.
  set (margin := cur_margin (margins st)).
  pose proof (clen_le_blen s) as Hb.
  assert (G : forall r1 cp1 (skipit : bool),
     (if is_nil (rres st) then (rres st, char_pos st, false)
      else
        let '(ra, cpa) :=
          if (pend_nl st || pend_blank st) && negb (ends_nl (rres st))
          then (nl :: rres st, 0) else (rres st, char_pos st) in
        let rb := if pend_blank st && negb (ends_nlnl ra) then nl :: ra else ra in
        if (mw <? cpa + blen s)
        then (nl :: drop_while is_ws rb, 0, beqb s [sp])
        else (rb, cpa, false)) = (r1, cp1, skipit) ->
     cp1 = 0 \/ W_CODE <= cp1 \/ cp1 + blen s <= mw).
  { intros r1 cp1 skipit E. destruct (is_nil (rres st)) eqn:Hn.
    - inversion E; subst. destruct (rres st) eqn:Er; [|discriminate]. destruct (He Er); auto.
    - destruct ((pend_nl st || pend_blank st) && negb (ends_nl (rres st))).
      + destruct (pend_blank st && negb (ends_nlnl (nl :: rres st))); destruct (mw <? 0 + blen s) eqn:Hw;
          inversion E; subst; auto.
      + destruct (pend_blank st && negb (ends_nlnl (rres st))); destruct (mw <? char_pos st + blen s) eqn:Hw;
          inversion E; subst; auto; apply N.ltb_ge in Hw; auto. }
  destruct (if is_nil (rres st) then _ else _) as [[r1 cp1] skipit] eqn:E.
  specialize (G r1 cp1 skipit eq_refl).
  destruct skipit.
  { cbn [char_pos].
    (* a skipped space: only on a fresh line *)
    destruct (is_nil (rres st)); [inversion E|].
    destruct ((pend_nl st || pend_blank st) && negb (ends_nl (rres st)));
      [destruct (pend_blank st && negb (ends_nlnl (nl :: rres st))); destruct (mw <? 0 + blen s)
      |destruct (pend_blank st && negb (ends_nlnl (rres st))); destruct (mw <? char_pos st + blen s)];
      inversion E; subst; left; lia. }
  destruct (cp1 <=? margin) eqn:Hm.
  - apply N.leb_le in Hm.
    destruct (pend_margin st && (MAX_TAB + 4 <=? margin) && (margin - cp1 <? 2)) eqn:Hg; cbn [char_pos]; right; left; lia.
  - apply N.leb_gt in Hm.
    destruct (pend_margin st && (MAX_TAB + 4 <=? cp1) && (0 <? 2)) eqn:Hg; cbn [char_pos];
      (destruct G as [G|[G|G]]; [lia|right; right; lia|left; lia]).
Qed.

Lemma raw_step_empty mw s w st : (s = [] -> w = 0 \/ W_CODE <= w) -> EmptyInv st -> EmptyInv (raw_step mw s w st).
Proof.
  intros Hw He. unfold EmptyInv, raw_step.
  set (margin := cur_margin (margins st)).
  destruct (if is_nil (rres st) then _ else _) as [[r1 cp1] skipit] eqn:E.
  assert (Hr1 : r1 = [] -> rres st = [] /\ cp1 = char_pos st).
  { intros ->. destruct (is_nil (rres st)) eqn:Hn.
    - injection E as E1 E2 E3. split; [exact E1|symmetry; exact E2].
    - exfalso. destruct ((pend_nl st || pend_blank st) && negb (ends_nl (rres st))).
      + destruct (pend_blank st && negb (ends_nlnl (nl :: rres st))); destruct (mw <? 0 + blen s); inversion E.
      + destruct (pend_blank st && negb (ends_nlnl (rres st))); destruct (mw <? char_pos st + blen s); injection E as E1 E2 E3;
          try discriminate; rewrite E1 in Hn; discriminate. }
  destruct skipit.
  { cbn [rres char_pos]. intros Hn. destruct (Hr1 Hn) as [Hs ->]. apply He. exact Hs. }
  destruct (cp1 <=? margin) eqn:Hm.
  - apply N.leb_le in Hm.
    destruct (pend_margin st && (MAX_TAB + 4 <=? margin) && (margin - cp1 <? 2)) eqn:Hg; cbn [rres char_pos]; intros Hn.
    + apply push_rev_nil in Hn. destruct Hn as [Hs Hn]. apply push_rev_nil in Hn. destruct Hn as [Hp _].
      apply pad_nil in Hp. apply andb_prop in Hg. destruct Hg as [_ Hg]. apply N.ltb_lt in Hg. lia.
    + apply push_rev_nil in Hn. destruct Hn as [Hs Hn]. apply push_rev_nil in Hn. destruct Hn as [Hp Hr].
      apply pad_nil in Hp. destruct (Hr1 Hr) as [Hs0 Ec]. destruct (He Hs0) as [H0|H0].
      * destruct (Hw Hs) as [Hz|Hz]; [left; lia|right; lia].
      * right. lia.
  - apply N.leb_gt in Hm.
    destruct (pend_margin st && (MAX_TAB + 4 <=? cp1) && (0 <? 2)) eqn:Hg; cbn [rres char_pos]; intros Hn.
    + apply push_rev_nil in Hn. destruct Hn as [_ Hn]. apply push_rev_nil in Hn. destruct Hn as [Hp _].
      apply pad_nil in Hp. lia.
    + apply push_rev_nil in Hn. destruct Hn as [Hs Hr]. destruct (Hr1 Hr) as [Hs0 Ec].
      destruct (He Hs0) as [H0|H0]; [lia|right; lia].
Qed.

(* ------------------------------------------------------------------ every state the renderer passes through *)
Section Reach.
Variable mw : N.

Inductive Reach : cstate_r -> Prop :=
| R_init : Reach init_cr
| R_raw st s w : Reach st -> chunk_ok (CRaw s w) -> Reach (raw_step mw s w st)
| R_nl st sk : Reach st ->
    Reach (mkCR (nl :: rres st) 0 sk (margins st) (pend_nl st) (pend_blank st) (pend_margin st) (cpanic st))
| R_flags st sk m pn pb pm : Reach st -> Reach (set_flags st (rres st) (char_pos st) sk m pn pb pm)
| R_tick st sk m pn pb pm : Reach st -> Reach (set_flags st (tick :: rres st) (char_pos st + 1) sk m pn pb pm).

Lemma reach_inv st : Reach st -> LineInv st /\ EmptyInv st.
Proof.
  induction 1 as [|st s w R [IL IE] [Hw He]|st sk R [IL IE]|st sk m pn pb pm R [IL IE]|st sk m pn pb pm R [IL IE]].
  - split; [unfold LineInv; cbn; lia|intros _; left; reflexivity].
  - split; [apply raw_step_line; assumption|apply raw_step_empty; assumption].
  - split; [unfold LineInv; cbn; lia|intros H; discriminate].
  - split; [exact IL|exact IE].
  - split; [|intros H; discriminate]. unfold LineInv, set_flags in *. cbn [rres char_pos].
    pose proof (cur_len_cons tick (rres st)). lia.
Qed.

Lemma chunks_reach full cs : Forall chunk_ok cs -> forall st, Reach st -> Reach (chunks_step full mw cs st).
Proof.
  induction 1 as [|c cs Hc Hcs IH]; intros st R; cbn [chunks_step]; [exact R|].
  destruct c as [s w| |].
  - apply IH. apply R_raw; assumption.
  - destruct full.
    + apply IH. apply (R_nl st (skip st)). exact R.
    + apply (R_nl st 1). exact R.
  - apply IH. apply (R_nl st (skip st)). exact R.
Qed.
End Reach.

(* ------------------------------------------------------------------ the splitter produces such chunks *)
Lemma split_nl_len s :
  (length (fst (split_nl s)) + match snd (split_nl s) with Some r => S (length r) | None => O end = length s)%nat.
Proof.
  induction s as [|c t IH]; cbn [split_nl]; [reflexivity|].
  destruct (c =? nl); cbn; [reflexivity|]. destruct (split_nl t) as [a b]. cbn in *. destruct b; lia.
Qed.

Lemma take_word_len s : (length (fst (take_word s)) + length (snd (take_word s)) = length s)%nat.
Proof.
  induction s as [|c t IH]; cbn [take_word]; [reflexivity|].
  destruct ((c =? nl) || (c =? sp)); cbn; [reflexivity|]. destruct (take_word t) as [a b]. cbn in *. lia.
Qed.

Lemma skipn_len {A} n (l : list A) : (length (skipn n l) <= length l)%nat.
Proof. rewrite skipn_length. lia. Qed.

Lemma clen_le a b : (length a <= length b)%nat -> clen a <= clen b.
Proof. unfold clen. lia. Qed.

Lemma split_next_ok docgen code input ch input' code' :
  split_next docgen code input = Some (ch, input', code') -> clen input <= W_CODE ->
  chunk_ok ch /\ (length input' <= length input)%nat.
Proof.
  unfold split_next. destruct input as [|c0 tail0]; [discriminate|]. intros H Hl.
  assert (Wt : W_CODE <= W_TICKED) by (unfold W_CODE, W_TICKED; lia).
  destruct (docgen && match code with CodeNo => false | _ => true end).
  - pose proof (split_nl_len (c0 :: tail0)) as L. destruct (split_nl (c0 :: tail0)) as [line [rest|]]; cbn [fst snd] in L.
    + assert (Hc : clen line <= W_TICKED) by (unfold clen in *; lia).
      destruct (starts_with [nl; nl] (nl :: rest) && _); inversion H; subst; (split; [split; [exact Hc|intros _; right; exact Wt]|cbn [length] in *; lia]).
    + inversion H; subst. split; [split; [unfold clen in *; lia|intros _; right; exact Wt]|cbn; lia].
  - destruct (c0 =? nl).
    + destruct (starts_with four_spaces tail0).
      * pose proof (split_nl_len (skipn 4 tail0)) as L. pose proof (skipn_len 4 tail0) as K.
        destruct (split_nl (skipn 4 tail0)) as [line [rest|]]; cbn [fst snd] in L; inversion H; subst;
          (split; [split; [unfold clen in *; cbn [length] in *; lia|intros _; right; lia]|cbn [length] in *; lia]).
      * destruct (starts_with [nl; tick; tick; tick] tail0).
        { inversion H; subst. split; [exact I|]. destruct tail0; cbn [skipn length]; lia. }
        destruct (starts_with (nl :: four_spaces) tail0).
        { inversion H; subst. split; [exact I|cbn; lia]. }
        destruct tail0 as [|c1 t2].
        { inversion H; subst. split; [split; [cbn; lia|discriminate]|cbn; lia]. }
        destruct (c1 =? nl); [inversion H; subst; split; [exact I|cbn; lia]|].
        destruct (c1 =? sp); inversion H; subst; [split; [exact I|cbn; lia]|split; [split; [cbn; lia|discriminate]|cbn; lia]].
    + destruct (c0 =? sp).
      * inversion H; subst. split; [split; [cbn; lia|discriminate]|cbn; lia].
      * pose proof (take_word_len (c0 :: tail0)) as L. destruct (take_word (c0 :: tail0)) as [w rest]. cbn [fst snd] in L.
        inversion H; subst. split; [split; [lia|intros ->; left; reflexivity]|lia].
Qed.

Lemma split_go_ok docgen : forall fuel code input, clen input <= W_CODE -> Forall chunk_ok (split_go docgen fuel code input).
Proof.
  induction fuel as [|f IH]; intros code input Hl; cbn [split_go]; [constructor|].
  destruct (split_next docgen code input) as [[[ch input'] code']|] eqn:E; [|constructor].
  destruct (split_next_ok _ _ _ _ _ _ E Hl) as [Hc Hi]. constructor; [exact Hc|]. apply IH. unfold clen in *. lia.
Qed.

Lemma split_ok docgen s : clen s <= W_CODE -> Forall chunk_ok (split docgen s).
Proof. apply split_go_ok. Qed.

(* ------------------------------------------------------------------ documents *)
Definition texts_ok (d : cdoc) : Prop := forall sty s, In (CText sty s) d -> clen s <= W_CODE.

Lemma token_reach docgen full mw ts st t :
  (forall sty s, t = CText sty s -> clen s <= W_CODE) -> Reach mw st -> Reach mw (token_step docgen full mw ts st t).
Proof.
  intros Ht R. destruct t as [sty s|b|b]; cbn [token_step].
  - destruct (Nat.ltb 0 (skip st)); [exact R|]. apply chunks_reach; [|exact R]. apply split_ok. eapply Ht. reflexivity.
  - destruct b; try exact R; try (apply R_flags; exact R). apply R_tick. exact R.
  - destruct b; try (apply R_flags; exact R). apply R_tick. exact R.
Qed.

Lemma fold_reach docgen full mw ts d : texts_ok d -> forall st, Reach mw st ->
  Reach mw (fold_left (token_step docgen full mw ts) d st).
Proof.
  induction d as [|t d IH]; intros Hd st R; cbn [fold_left]; [exact R|].
  apply IH.
  - intros sty s Hin. apply (Hd sty s). right. exact Hin.
  - apply token_reach; [|exact R]. intros sty s ->. apply (Hd sty s). left. reflexivity.
Qed.

Lemma firstn_incl {A} k (l : list A) x : In x (firstn k l) -> In x l.
Proof.
  revert l. induction k as [|k IH]; intros l H; [contradiction|]. destruct l as [|y l]; [contradiction|].
  cbn in H. destruct H as [H|H]; [left; exact H|right; apply IH; exact H].
Qed.

(* C13, width clause, part 1: at every prefix of every document the column counter is at least the
   length of the line being written *)
Theorem column_dominates_line docgen full mw ts d k :
  texts_ok d ->
  let st := fold_left (token_step docgen full mw ts) (firstn k d) init_cr in
  cur_len (rres st) <= char_pos st.
Proof.
  intros Hd. apply (reach_inv mw). apply fold_reach; [|apply R_init].
  intros sty s Hin. apply (Hd sty s). eapply firstn_incl. exact Hin.
Qed.

(* part 2: wherever the renderer stands, placing a word (or a separating space) leaves a line of at
   most width + 2 characters -- unless the word is the first thing after the indentation / the
   definition term (it then starts at the margin, plus the two-column gutter), or the line holds a
   preformatted code line *)
Theorem word_width mw st s :
  Reach mw st ->
  let st' := raw_step mw s (clen s) st in
  cur_len (rres st') <= mw + 2 \/
  cur_len (rres st') <= cur_margin (margins st) + 2 + clen s \/
  W_CODE <= char_pos st'.
Proof.
  intros R. destruct (reach_inv mw st R) as [IL IE].
  pose proof (raw_step_line mw s (clen s) st (N.le_refl _) IL) as L. unfold LineInv in L.
  destruct (raw_step_width mw s st IE) as [H|[H|H]]; [left|right; left|right; right]; cbn zeta in *; lia.
Qed.

(* the renderer reaches only such states *)
Theorem render_reach docgen full mw d :
  texts_ok d -> Reach mw (render_state docgen full mw d).
Proof. intros Hd. unfold render_state. apply fold_reach; [exact Hd|apply R_init]. Qed.
