(* BalLaws.v -- the documents bpaf builds have balanced blocks (C16, C12):
   every writer of Model/Help.v and Model/Docs.v extends a document by a block-neutral piece, given
   that the documents the user supplied (help texts, group titles, custom usage, descriptions ...)
   are balanced -- which is all the Doc API can build.  Consequences: the help / HTML / manpage
   documents of every parser are balanced, and the group loop of write_help_item_groups terminates. *)
From Coq Require Import Lia List Bool NArith.
From BpafModel Require Import Docs.
From BpafLemmas Require Import Reach HtmlLaws HelpItems HelpOrder.
Import ListNotations.

(* ------------------------------------------------------------------ the block stack after a document *)
Fixpoint run (st : list block) (d : doc) : option (list block) :=
  match d with
  | [] => Some st
  | TText _ _ :: t => run st t
  | TStart b :: t => run (b :: st) t
  | TEnd b :: t =>
    match st with
    | b' :: below => if block_eqb b b' then run below t else None
    | [] => None
    end
  end.

Definition obind {A B} (o : option A) (f : A -> option B) : option B :=
  match o with Some x => f x | None => None end.

Lemma run_app a : forall st b, run st (a ++ b) = obind (run st a) (fun s => run s b).
Proof.
  induction a as [|t a IH]; intros st b; cbn [app run obind]; [reflexivity|].
  destruct t as [sty s|bl|bl]; [apply IH|apply IH|].
  destruct st as [|b' below]; [reflexivity|]. destruct (block_eqb bl b'); [apply IH|reflexivity].
Qed.

Lemma bal_run d : forall st, bal st d = true <-> run st d = Some [].
Proof.
  induction d as [|t d IH]; intros st; cbn [bal run].
  - destruct st; cbn; split; congruence.
  - destruct t as [sty s|b|b]; [apply IH|apply IH|].
    destruct st as [|b' below]; [split; discriminate|].
    destruct (block_eqb b b'); cbn [andb]; [apply IH|split; discriminate].
Qed.

Lemma block_eqb_refl b : block_eqb b b = true.
Proof. destruct b; reflexivity. Qed.

(* a piece that leaves every stack as it found it *)
Definition neutral (e : doc) : Prop := forall st, run st e = Some st.

Lemma neutral_nil : neutral [].
Proof. intros st. reflexivity. Qed.
Lemma neutral_app a b : neutral a -> neutral b -> neutral (a ++ b).
Proof. intros Ha Hb st. rewrite run_app, Ha. cbn. apply Hb. Qed.
Lemma neutral_text sty s : neutral [TText sty s].
Proof. intros st. reflexivity. Qed.
Lemma neutral_block b e : neutral e -> neutral (TStart b :: e ++ [TEnd b]).
Proof.
  intros He st. cbn [run]. rewrite run_app, He. cbn. rewrite block_eqb_refl. reflexivity.
Qed.
Lemma neutral_cons_text sty s e : neutral e -> neutral (TText sty s :: e).
Proof. intros He st. cbn [run]. apply He. Qed.
Lemma neutral_tail_text sty s e : neutral (TText sty s :: e) -> neutral e.
Proof. intros He st. specialize (He st). cbn [run] in He. exact He. Qed.
Lemma neutral_bal e : neutral e -> bal [] e = true.
Proof. intros He. apply bal_run. apply He. Qed.

Definition oneutral (o : option doc) : Prop := match o with Some d => neutral d | None => True end.

(* d' is d followed by something that pushes the blocks k (k = [] : a neutral extension) *)
Definition extk (k : list block) (d d' : doc) : Prop :=
  forall st, run st d' = obind (run st d) (fun s => Some (k ++ s)).
Notation ext := (extk []).

Lemma obind_some {A} (o : option A) : obind o (fun s => Some s) = o.
Proof. destruct o; reflexivity. Qed.

Lemma ext_refl d : ext d d.
Proof. intros st. cbn [app]. symmetry. apply obind_some. Qed.

Lemma extk_trans k1 k2 a b c : extk k1 a b -> extk k2 b c -> extk (k2 ++ k1) a c.
Proof.
  intros H1 H2 st. rewrite H2, H1. destruct (run st a); cbn; [rewrite app_assoc|]; reflexivity.
Qed.
Lemma ext_trans k a b c : extk k a b -> ext b c -> extk k a c.
Proof. intros H1 H2. exact (extk_trans k [] a b c H1 H2). Qed.

Lemma extk_app k pre d e : extk k pre d -> neutral e -> extk k pre (d ++ e).
Proof.
  intros H He st. rewrite run_app, H. destruct (run st pre); cbn; [apply He|reflexivity].
Qed.

Lemma extk_start k pre d b : extk k pre d -> extk (b :: k) pre (dtok d (TStart b)).
Proof.
  intros H st. unfold dtok. rewrite run_app, H. destruct (run st pre); reflexivity.
Qed.
Lemma extk_end k pre d b : extk (b :: k) pre d -> extk k pre (dtok d (TEnd b)).
Proof.
  intros H st. unfold dtok. rewrite run_app, H. destruct (run st pre); cbn; [rewrite block_eqb_refl|]; reflexivity.
Qed.

Lemma run_dwrite d sty s st : run st (dwrite d sty s) = run st d.
Proof.
  unfold dwrite. destruct (rev d) as [|[sty' s'|b|b] r] eqn:E;
    try (rewrite run_app; destruct (run st d); reflexivity).
  destruct (style_eqb sty sty'); [|rewrite run_app; destruct (run st d); reflexivity].
  assert (Hd : d = rev r ++ [TText sty' s']).
  { rewrite <- (rev_involutive d), E. reflexivity. }
  cbn [rev]. rewrite Hd, !run_app. destruct (run st (rev r)); reflexivity.
Qed.

Lemma extk_dwrite k pre d sty s : extk k pre d -> extk k pre (dwrite d sty s).
Proof. intros H st. rewrite run_dwrite. apply H. Qed.
Lemma extk_dchar k pre d sty c : extk k pre d -> extk k pre (dchar d sty c).
Proof. apply extk_dwrite. Qed.

Lemma extk_ddoc k pre d buf : neutral buf -> extk k pre d -> extk k pre (ddoc d buf).
Proof.
  intros Hb H. unfold ddoc. apply extk_app; [exact H|]. apply (neutral_block BInlineBlock buf Hb).
Qed.

(* ------------------------------------------------------------------ the Doc builder *)
Lemma extk_dem_doc k pre d buf : neutral buf -> extk k pre d -> extk k pre (dem_doc d buf).
Proof.
  intros Hb H. unfold dem_doc. apply extk_end.
  pose proof (extk_start k pre d BInlineBlock H) as H0.
  destruct buf as [|[sty prefix|b|b] rest]; try (apply extk_app; assumption).
  destruct sty; try (apply extk_app; assumption).
  destruct (split_once_nl prefix) as [[a b]|].
  - apply extk_end. apply extk_app; [|exact (neutral_tail_text _ _ _ Hb)].
    apply extk_dwrite. apply extk_start. apply extk_dwrite. exact H0.
  - apply extk_dwrite. exact H0.
Qed.

Lemma extk_dmetavar k pre d mv : extk k pre d -> extk k pre (dmetavar d mv).
Proof. intros H. unfold dmetavar. destruct (forallb is_metavar_char mv); repeat apply extk_dwrite; exact H. Qed.

Lemma extk_dshortlong_usage k pre d n : extk k pre d -> extk k pre (dshortlong_usage d n).
Proof. intros H. destruct n; cbn [dshortlong_usage]; repeat first [apply extk_dchar | apply extk_dwrite]; exact H. Qed.

Lemma extk_dshortlong_item k pre d n : extk k pre d -> extk k pre (dshortlong_item d n).
Proof. intros H. destruct n; cbn [dshortlong_item]; repeat first [apply extk_dchar | apply extk_dwrite]; exact H. Qed.

(* ------------------------------------------------------------------ what a user's document looks like *)
(* The Doc API (text / literal / emphasis / invalid / meta / doc / em_doc) builds balanced documents
   whose blocks are InlineBlock, Mono and Section3: never Block::Meta (html: todo!()) nor
   Block::TermRef (roff: todo!()). *)
Definition allowed (ok : block -> bool) (d : doc) : bool :=
  forallb (fun t => match t with TText _ _ => true | TStart b | TEnd b => ok b end) d.
Definition userblock (b : block) : bool :=
  match b with BMeta | BTermRef => false | _ => true end.
Definition good (d : doc) : Prop := neutral d /\ allowed userblock d = true.
Definition ogood (o : option doc) : Prop := match o with Some d => good d | None => True end.
Lemma good_neutral d : good d -> neutral d.
Proof. intros H; apply H. Qed.
Lemma ogood_oneutral o : ogood o -> oneutral o.
Proof. destruct o; [apply good_neutral|auto]. Qed.
Lemma good_text sty s : good [TText sty s].
Proof. split; [apply neutral_text|reflexivity]. Qed.

(* ------------------------------------------------------------------ documents inside metadata *)
Definition named_ok (n : named) : Prop := ogood (n_help n).
Definition info_ok (i : info) : Prop :=
  ogood (i_version i) /\ ogood (i_descr i) /\ ogood (i_header i) /\ ogood (i_footer i) /\
  ogood (i_usage i) /\ named_ok (i_help_arg i) /\ named_ok (i_version_arg i).

Fixpoint mok (m : meta) : Prop :=
  let all := fix all (xs : list meta) : Prop :=
    match xs with [] => True | x :: t => mok x /\ all t end in
  match m with
  | MAnd xs | MOr xs => all xs
  | MOptional x | MRequired x | MAdjacent x | MMany x | MStrict x => mok x
  | MSubsection x d | MSuffix x d | MCustomUsage x d => mok x /\ good d
  | MItem i => iok i
  | MSkip => True
  end
with iok (i : item) : Prop :=
  match i with
  | IAny mv _ h => good mv /\ ogood h
  | IPositional _ h | IFlag _ _ _ h | IArgument _ _ _ _ h => ogood h
  | ICommand _ _ h m inf => ogood h /\ mok m /\ info_ok inf
  end.

Fixpoint mok_all (xs : list meta) : Prop :=
  match xs with [] => True | x :: t => mok x /\ mok_all t end.
Lemma mok_and xs : mok (MAnd xs) = mok_all xs.
Proof. cbn. induction xs as [|x t IH]; cbn; [reflexivity|]. f_equal; try exact IH. Qed.
Lemma mok_or xs : mok (MOr xs) = mok_all xs.
Proof. cbn. induction xs as [|x t IH]; cbn; [reflexivity|]. f_equal; try exact IH. Qed.
Lemma mok_all_forall xs : mok_all xs <-> Forall mok xs.
Proof.
  induction xs as [|x t IH]; cbn; split; intros H.
  - constructor.
  - exact I.
  - destruct H as [A B]. constructor; [exact A|apply IH, B].
  - inversion H; subst. split; [assumption|apply IH; assumption].
Qed.

Lemma extk_dwrite_item k pre d i : iok i -> extk k pre d -> extk k pre (dwrite_item d i).
Proof.
  intros Hi H. destruct i; cbn [dwrite_item].
  - apply extk_ddoc; [apply Hi|exact H].
  - apply extk_dmetavar, H.
  - apply extk_dwrite, H.
  - apply extk_dshortlong_usage, H.
  - apply extk_dmetavar, extk_dchar, extk_dshortlong_usage, H.
Qed.

(* ------------------------------------------------------------------ write_meta *)
Lemma extk_wm_sep k pre s xs :
  Forall (fun m => forall d, extk k pre d -> extk k pre (wm_go m d)) xs ->
  forall first d, extk k pre d -> extk k pre (wm_sep s first xs d).
Proof.
  induction 1 as [|x t Hx _ IH]; intros first d H; cbn [wm_sep]; [exact H|].
  apply IH. apply Hx. destruct first; [exact H|apply extk_dwrite, H].
Qed.

Lemma extk_wm_go k pre m : mok m -> forall d, extk k pre d -> extk k pre (wm_go m d).
Proof.
  induction m as [xs IHxs|xs IHxs|m IHm|m IHm|m IHm|i|m IHm|m dd IHm|m dd IHm| |m dd IHm|m IHm] using meta_ind';
    intros Hm d H.
  - rewrite wm_go_and. rewrite mok_and in Hm. apply mok_all_forall in Hm.
    apply extk_wm_sep; [|exact H].
    clear H d. induction IHxs as [|x t Hx _ IH]; [constructor|]. inversion Hm; subst. constructor; [auto|apply IH; assumption].
  - rewrite wm_go_or. rewrite mok_or in Hm. apply mok_all_forall in Hm.
    apply extk_wm_sep; [|exact H].
    clear H d. induction IHxs as [|x t Hx _ IH]; [constructor|]. inversion Hm; subst. constructor; [auto|apply IH; assumption].
  - cbn [wm_go]. apply extk_dwrite, IHm; [exact Hm|]. apply extk_dwrite, H.
  - cbn [wm_go]. apply extk_dwrite, IHm; [exact Hm|]. apply extk_dwrite, H.
  - cbn [wm_go]. apply IHm; assumption.
  - cbn [wm_go]. apply extk_dwrite_item; assumption.
  - cbn [wm_go]. apply extk_dwrite, IHm; assumption.
  - cbn [wm_go]. apply IHm; [apply Hm|exact H].
  - cbn [wm_go]. apply IHm; [apply Hm|exact H].
  - exact H.
  - cbn [wm_go]. apply extk_ddoc; [apply Hm|exact H].
  - cbn [wm_go]. apply IHm; [exact Hm|]. apply extk_dwrite, extk_dwrite, H.
Qed.

(* ------------------------------------------------------------------ normalize keeps the documents *)
Lemma iok_norm_item fu i : iok i -> iok (norm_item fu i).
Proof. destruct i; cbn; auto. Qed.

Lemma mok_norm_target a b m : mok m -> mok (fst (norm_target a b m)).
Proof. intros H. destruct a, b; cbn; exact H. Qed.

Lemma forall_filter {A} (P : A -> Prop) f l : Forall P l -> Forall P (filter f l).
Proof. induction 1 as [|x t Hx _ IH]; cbn; [constructor|]. destruct (f x); [constructor|]; assumption. Qed.

Lemma forall_retain xs : forall saw, Forall mok xs -> Forall mok (retain_first_cmd xs saw).
Proof.
  induction xs as [|x t IH]; intros saw H; cbn; [constructor|]. inversion H; subst.
  destruct (is_command_meta x && saw); [apply IH; assumption|constructor; [assumption|apply IH; assumption]].
Qed.

Lemma mok_of_list (ys : list meta) :
  Forall mok ys -> mok (match ys with [] => MSkip | [y] => y | _ => MAnd ys end).
Proof.
  intros H. destruct ys as [|y [|z t]]; [exact I|inversion H; assumption|].
  rewrite mok_and. apply mok_all_forall. exact H.
Qed.

Lemma normalize_ok fu m : mok m -> forall n, mok (fst (normalize fu m n)).
Proof.
  induction m as [xs IHxs|xs IHxs|m IHm|m IHm|m IHm|i|m IHm|m dd IHm|m dd IHm| |m dd IHm|m IHm] using meta_ind';
    intros Hm n.
  - rewrite mok_and in Hm. apply mok_all_forall in Hm. cbn [normalize fst].
    match goal with |- context [filter _ (?f xs n)] => assert (HF : forall cur, Forall mok (f xs cur)) end.
    { clear n. induction IHxs as [|x t Hx _ IH]; intros cur; [constructor|]. inversion Hm; subst.
      cbn. destruct (normalize fu x cur) as [x1 tn] eqn:E1. destruct (norm_target cur tn x1) as [x2 c'] eqn:E2.
      constructor; [|apply IH; assumption].
      change x2 with (fst (x2, c')). rewrite <- E2. apply mok_norm_target.
      change x1 with (fst (x1, tn)). rewrite <- E1. apply Hx. assumption. }
    apply mok_of_list. apply forall_filter. apply HF.
  - rewrite mok_or in Hm. apply mok_all_forall in Hm. cbn [normalize].
    match goal with |- context [?f xs n] =>
      match type of f with list meta -> snorm -> list meta * snorm =>
        assert (HF : forall fin, Forall mok (fst (f xs fin))) end end.
    { induction IHxs as [|x t Hx _ IH]; intros fin; [constructor|]. inversion Hm; subst.
      cbn. destruct (normalize fu x n) as [x1 tn] eqn:E1. destruct (norm_target fin tn x1) as [x2 f'] eqn:E2.
      match goal with |- context [let '(rest, fin0) := ?g t f' in _] => specialize (IH H2 f'); destruct (g t f') as [rest fin1] eqn:E3 end.
      cbn [fst]. constructor; [|exact IH].
      change x2 with (fst (x2, f')). rewrite <- E2. apply mok_norm_target.
      change x1 with (fst (x1, tn)). rewrite <- E1. apply Hx. assumption. }
    match goal with |- context [?f xs n] =>
      match type of f with list meta -> snorm -> list meta * snorm =>
        specialize (HF n); destruct (f xs n) as [ys0 fin2] end end.
    cbn [fst] in *.
    pose proof (forall_filter mok (fun x => negb (is_skip x)) ys0 HF) as HY.
    destruct (filter (fun x => negb (is_skip x)) ys0) as [|y [|z t]] eqn:EY; [exact I|inversion HY; assumption|].
    pose proof (forall_retain (y :: z :: t) false HY) as HR.
    destruct (retain_first_cmd (y :: z :: t) false) as [|y' [|z' t']]; [exact I|inversion HR; assumption|].
    change (mok (MOr (y' :: z' :: t'))). rewrite mok_or. apply mok_all_forall. exact HR.
  - cbn [normalize]. specialize (IHm Hm n). destruct (normalize fu m n) as [x' n']. cbn [fst] in *.
    destruct x' as [| | x1 | x1 | | | x1 | | | | |]; try exact IHm; try exact I.
    destruct x1; try exact IHm.
  - cbn [normalize]. specialize (IHm Hm n). destruct (normalize fu m n) as [x' n']. cbn [fst] in *.
    destruct x'; try exact IHm; try exact I.
  - cbn [normalize]. apply IHm. exact Hm.
  - cbn [normalize fst mok]. apply iok_norm_item. exact Hm.
  - cbn [normalize]. specialize (IHm Hm n). destruct (normalize fu m n) as [x' n']. cbn [fst] in *.
    destruct x'; try exact IHm; try exact I.
  - cbn [normalize]. apply IHm. apply Hm.
  - cbn [normalize]. apply IHm. apply Hm.
  - exact I.
  - cbn [normalize]. destruct Hm as [Hm Hd]. specialize (IHm Hm n). destruct (normalize fu m n) as [x' n']. cbn [fst] in *.
    destruct fu; [|exact IHm]. destruct (is_nil dd); [exact I|]. split; assumption.
  - cbn [normalize]. specialize (IHm Hm n). destruct (normalize fu m n) as [x' n']. exact IHm.
Qed.

Lemma normalized_ok fu m : mok m -> mok (normalized fu m).
Proof.
  intros Hm. unfold normalized. pose proof (normalize_ok fu m Hm NPull) as H.
  destruct (normalize fu m NPull) as [m1 norm]. cbn [fst] in H.
  assert (H2 : mok (match m1 with MRequired i => i | x => x end)) by (destruct m1; exact H).
  set (m2 := match m1 with MRequired i => i | x => x end) in *.
  assert (H3 : mok (match m2 with MOr _ => MRequired m2 | x => x end)) by (destruct m2; exact H2).
  destruct norm; exact H3.
Qed.

Lemma extk_dwrite_meta k pre d m fu : mok m -> extk k pre d -> extk k pre (dwrite_meta d m fu).
Proof.
  intros Hm H. unfold dwrite_meta. apply extk_end. apply extk_wm_go; [apply normalized_ok, Hm|].
  apply extk_start, H.
Qed.

Lemma extk_dwrite_path k pre path : forall d, extk k pre d -> extk k pre (dwrite_path d path).
Proof.
  unfold dwrite_path. induction path as [|p t IH]; intros d H; cbn [fold_left]; [exact H|].
  apply IH. apply extk_dchar, extk_dwrite, H.
Qed.

(* ------------------------------------------------------------------ help items *)
Definition hok (it : helpitem) : Prop :=
  match it with
  | HDecorSuffix help _ | HGroupStart help _ => good help
  | HGroupEnd _ | HAnywhereStop _ => True
  | HAny mv _ help => good mv /\ ogood help
  | HPositional _ help | HFlag _ _ help | HArgument _ _ _ help => ogood help
  | HCommand _ _ help m i => ogood help /\ mok m /\ info_ok i
  | HAnywhereStart inner _ => mok inner
  end.
Definition plain (it : helpitem) : bool := negb (is_group_start it || is_group_end it).
Definition pok (it : helpitem) : Prop := plain it = true /\ hok it.

(* group brackets are well formed: plain items, and groups of plain items *)
Inductive wfi : list helpitem -> Prop :=
| wfi_nil : wfi []
| wfi_plain it l : pok it -> wfi l -> wfi (it :: l)
| wfi_grp h ty ty' mid l :
    good h -> Forall pok mid -> wfi l -> wfi (HGroupStart h ty :: mid ++ HGroupEnd ty' :: l).

Lemma wfi_of_plain l : Forall pok l -> wfi l.
Proof. induction 1; constructor; assumption. Qed.
Lemma wfi_app a b : wfi a -> wfi b -> wfi (a ++ b).
Proof.
  induction 1 as [|it l Hit _ IH|h ty ty' mid l Hh Hm _ IH]; intros Hb; cbn [app].
  - exact Hb.
  - constructor; [exact Hit|apply IH, Hb].
  - rewrite <- app_assoc. cbn [app]. constructor; [exact Hh|exact Hm|apply IH, Hb].
Qed.

Section Items.
Variable env : bytes -> option bytes.

Lemma extk_dbody k pre d h : oneutral h -> extk k pre d -> extk k pre (dbody d h).
Proof.
  intros Hh H. destruct h as [x|]; cbn [dbody]; [|exact H].
  apply extk_end, extk_ddoc; [exact Hh|]. apply extk_start, H.
Qed.

Lemma extk_denv_line k pre d a b e v : extk k pre d -> extk k pre (denv_line d a b e v).
Proof.
  intros H. unfold denv_line. apply extk_end.
  assert (H1 : extk k pre (if a then dtok (dtok d (TStart BItemTerm)) (TEnd BItemTerm) else d)).
  { destruct a; [apply extk_end, extk_start, H|exact H]. }
  destruct b; repeat apply extk_dwrite; apply extk_start, H1.
Qed.

Lemma extk_item_plain k pre d it ie :
  pok it -> extk k pre d -> extk k pre (write_help_item env d it ie).
Proof.
  intros [Hp Hk] H. destruct it; cbn [write_help_item]; try discriminate Hp; cbn [hok] in Hk.
  - apply extk_end, extk_ddoc; [apply Hk|]. apply extk_start, extk_end, extk_start, H.
  - apply extk_dbody; [apply ogood_oneutral, Hk|]. apply extk_end, extk_ddoc; [apply Hk|]. apply extk_start, H.
  - apply extk_dbody; [apply ogood_oneutral, Hk|]. apply extk_end, extk_dmetavar, extk_start, H.
  - apply extk_dbody; [apply ogood_oneutral, Hk|]. apply extk_end.
    destruct short; [apply extk_dchar, extk_dwrite|]; apply extk_dwrite, extk_start, H.
  - assert (H1 : extk k pre (dbody (dtok (dshortlong_item (dtok d (TStart BItemTerm)) name) (TEnd BItemTerm)) help)).
    { apply extk_dbody; [apply ogood_oneutral, Hk|]. apply extk_end, extk_dshortlong_item, extk_start, H. }
    destruct env0; [apply extk_denv_line|]; exact H1.
  - assert (H1 : extk k pre (dbody (dtok (dmetavar (dchar (dshortlong_item (dtok d (TStart BItemTerm)) name) SText c_eq) metavar)
                                         (TEnd BItemTerm)) help)).
    { apply extk_dbody; [apply ogood_oneutral, Hk|]. apply extk_end, extk_dmetavar, extk_dchar, extk_dshortlong_item, extk_start, H. }
    destruct env0; [apply extk_denv_line|]; exact H1.
  - apply extk_end, extk_dwrite_meta; [exact Hk|]. apply extk_start, H.
  - apply extk_end, extk_start, H.
Qed.

Lemma extk_group_start k pre d h ty ie :
  neutral h -> extk k pre d -> extk (BDefinitionList :: BBlock :: k) pre (write_help_item env d (HGroupStart h ty) ie).
Proof.
  intros Hh H. cbn [write_help_item]. apply extk_start, extk_end, extk_dem_doc; [exact Hh|].
  apply extk_start, extk_start, H.
Qed.
Lemma extk_group_end k pre d ty ie :
  extk (BDefinitionList :: BBlock :: k) pre d -> extk k pre (write_help_item env d (HGroupEnd ty) ie).
Proof. intros H. cbn [write_help_item]. apply extk_end, extk_end, H. Qed.

Lemma dedup_plain seen kf it : plain it = true ->
  forall keep seen' kf', dedup_check seen kf it = (keep, seen', kf') -> True.
Proof. auto. Qed.

Lemma extk_deduped_plain k pre items ie : Forall pok items ->
  forall d seen kf, extk k pre d -> extk k pre (write_deduped env d items seen kf ie).
Proof.
  induction 1 as [|it t Hit _ IH]; intros d seen kf H; cbn [write_deduped]; [exact H|].
  destruct (dedup_check seen kf it) as [[keep seen'] kf']. apply IH.
  destruct keep; [apply extk_item_plain; assumption|exact H].
Qed.

Lemma extk_deduped_group_tail k pre mid ty ie : Forall pok mid ->
  forall d seen kf, extk (BDefinitionList :: BBlock :: k) pre d ->
  extk k pre (write_deduped env d (mid ++ [HGroupEnd ty]) seen kf ie).
Proof.
  induction 1 as [|it t Hit _ IH]; intros d seen kf H; cbn [app write_deduped].
  - cbn [dedup_check]. apply extk_group_end, H.
  - destruct (dedup_check seen kf it) as [[keep seen'] kf']. apply IH.
    destruct keep; [apply extk_item_plain; assumption|exact H].
Qed.

Lemma extk_deduped_group k pre d h ty ty' mid ie :
  neutral h -> Forall pok mid -> extk k pre d ->
  extk k pre (write_deduped env d (HGroupStart h ty :: mid ++ [HGroupEnd ty']) [] false ie).
Proof.
  intros Hh Hm H. cbn [write_deduped dedup_check].
  apply extk_deduped_group_tail; [exact Hm|]. apply extk_group_start; assumption.
Qed.
End Items.

(* ------------------------------------------------------------------ append_meta builds well-formed lists *)
Lemma append_all_nil_cons x t b : append_all (x :: t) b [] = append_go x b [] ++ append_all t b [].
Proof. cbn [append_all]. apply append_all_acc. Qed.

Lemma hok_helpitem_of i : iok i -> pok (helpitem_of i).
Proof. intros H. destruct i; split; try reflexivity; exact H. Qed.

Lemma append_ok m : mok m -> Forall pok (append_go m true []) /\ wfi (append_go m false []).
Proof.
  induction m as [xs IHxs|xs IHxs|m IHm|m IHm|m IHm|i|m IHm|m dd IHm|m dd IHm| |m dd IHm|m IHm] using meta_ind';
    intros Hm.
  - rewrite mok_and in Hm. apply mok_all_forall in Hm. rewrite !append_go_and.
    induction IHxs as [|x t Hx _ IH]; [split; constructor|]. inversion Hm; subst.
    rewrite !append_all_nil_cons. destruct (Hx H1) as [A B]. destruct (IH H2) as [C D].
    split; [apply Forall_app; split; assumption|apply wfi_app; assumption].
  - rewrite mok_or in Hm. apply mok_all_forall in Hm. rewrite !append_go_or.
    induction IHxs as [|x t Hx _ IH]; [split; constructor|]. inversion Hm; subst.
    rewrite !append_all_nil_cons. destruct (Hx H1) as [A B]. destruct (IH H2) as [C D].
    split; [apply Forall_app; split; assumption|apply wfi_app; assumption].
  - cbn [append_go]. apply IHm, Hm.
  - cbn [append_go]. apply IHm, Hm.
  - cbn [append_go]. destruct (peek_front_ty m) as [ty|]; [|split; constructor].
    destruct (IHm Hm) as [A B]. cbn [app]. rewrite !(append_go_acc m _ [_]).
    assert (Hs : pok (HAnywhereStart m ty)) by (split; [reflexivity|exact Hm]).
    assert (He : pok (HAnywhereStop ty)) by (split; [reflexivity|exact I]).
    split.
    + cbn [app]. constructor; [exact Hs|]. apply Forall_app; split; [exact A|constructor; [exact He|constructor]].
    + cbn [app]. constructor; [exact Hs|]. apply wfi_app; [exact B|]. constructor; [exact He|constructor].
  - cbn [append_go]. destruct i as [mv a h|mv [h|]| | |]; try (split; [constructor; [|constructor]|constructor; [|constructor]]; apply hok_helpitem_of, Hm).
    split; constructor.
  - cbn [append_go]. apply IHm, Hm.
  - destruct Hm as [Hm Hd]. cbn [append_go]. destruct (peek_front_ty m) as [ty|]; [|split; constructor].
    destruct (IHm Hm) as [A B]. split; [exact A|].
    cbn [app]. rewrite (append_go_acc m _ [_]). cbn [app].
    apply (wfi_grp dd ty ty (append_go m true []) []); [exact Hd|exact A|constructor].
  - destruct Hm as [Hm Hd]. cbn [append_go]. destruct (peek_front_ty m) as [ty|]; [|split; constructor].
    destruct (IHm Hm) as [A B].
    assert (Hs : pok (HDecorSuffix dd ty)) by (split; [reflexivity|exact Hd]).
    split; [apply Forall_app; split; [exact A|constructor; [exact Hs|constructor]]|].
    apply wfi_app; [exact B|constructor; [exact Hs|constructor]].
  - split; constructor.
  - cbn [append_go]. apply IHm, Hm.
  - cbn [append_go]. apply IHm, Hm.
Qed.

Lemma append_meta_wfi acc m : wfi acc -> mok m -> wfi (append_meta acc m).
Proof.
  intros Ha Hm. unfold append_meta. rewrite append_go_acc. apply wfi_app; [exact Ha|apply append_ok, Hm].
Qed.

(* ------------------------------------------------------------------ the group loop *)
Lemma position_plain_start l : Forall pok l -> forall x t, is_group_start x = true ->
  Help.position is_group_start (l ++ x :: t) = Some (length l).
Proof.
  induction 1 as [|y l [Hy _] _ IH]; intros x t Hx; cbn [app Help.position length]; [rewrite Hx; reflexivity|].
  unfold plain in Hy. apply negb_true_iff, orb_false_iff in Hy. rewrite (proj1 Hy), (IH x t Hx). reflexivity.
Qed.
Lemma position_plain_end l : Forall pok l -> forall x t, is_group_end x = true ->
  Help.position is_group_end (l ++ x :: t) = Some (length l).
Proof.
  induction 1 as [|y l [Hy _] _ IH]; intros x t Hx; cbn [app Help.position length]; [rewrite Hx; reflexivity|].
  unfold plain in Hy. apply negb_true_iff, orb_false_iff in Hy. rewrite (proj2 Hy), (IH x t Hx). reflexivity.
Qed.
Lemma position_plain_none f l : (forall x, pok x -> f x = false) -> Forall pok l -> Help.position f l = None.
Proof.
  intros Hf. induction 1 as [|y l Hy _ IH]; cbn [Help.position]; [reflexivity|]. rewrite (Hf y Hy), IH. reflexivity.
Qed.

Definition ngroups (l : list helpitem) : nat := length (filter is_group_start l).
Lemma ngroups_app a b : ngroups (a ++ b) = ngroups a + ngroups b.
Proof. unfold ngroups. rewrite filter_app, app_length. reflexivity. Qed.
Lemma ngroups_plain l : Forall pok l -> ngroups l = 0.
Proof.
  induction 1 as [|y l [Hy _] _ IH]; [reflexivity|]. unfold ngroups in *. cbn [filter].
  unfold plain in Hy. apply negb_true_iff, orb_false_iff in Hy. rewrite (proj1 Hy). exact IH.
Qed.

(* a well-formed list is plain, or has a first group between plain items *)
Lemma wfi_split l : wfi l ->
  Forall pok l \/
  exists pl h ty mid ty' rest,
    l = pl ++ HGroupStart h ty :: mid ++ HGroupEnd ty' :: rest /\
    Forall pok pl /\ good h /\ Forall pok mid /\ wfi rest.
Proof.
  induction 1 as [|it l Hit Hl IH|h ty ty' mid l Hh Hm Hl IH].
  - left. constructor.
  - destruct IH as [IH|(pl & h & ty & mid & ty' & rest & E & A & B & C & D)].
    + left. constructor; assumption.
    + right. exists (it :: pl), h, ty, mid, ty', rest. subst l.
      split; [reflexivity|]. split; [constructor; assumption|]. split; [exact B|]. split; assumption.
  - right. exists [], h, ty, mid, ty', l.
    split; [reflexivity|]. split; [constructor|]. split; [exact Hh|]. split; assumption.
Qed.

Lemma firstn_snoc {A} (l : list A) x r : firstn (S (length l)) (l ++ x :: r) = l ++ [x].
Proof. induction l as [|y l IH]; cbn [length app firstn]; [reflexivity|]. f_equal. exact IH. Qed.

Section Groups.
Variable env : bytes -> option bytes.

Lemma write_groups_ok k pre ie : forall fuel items d,
  wfi items -> ngroups items < fuel -> extk k pre d ->
  exists d' rest, write_groups env fuel d items ie = Some (d', rest) /\ extk k pre d' /\ Forall pok rest.
Proof.
  induction fuel as [|f IH]; intros items d Hw Hn H; [lia|].
  cbn [write_groups].
  destruct (wfi_split items Hw) as [Hp|(pl & h & ty & mid & ty' & rest & E & A & B & C & D)].
  - rewrite (position_plain_none is_group_start items).
    + exists d, items. auto.
    + intros x [Hx _]. unfold plain in Hx. apply negb_true_iff, orb_false_iff in Hx. apply Hx.
    + exact Hp.
  - subst items.
    rewrite (position_plain_start pl A (HGroupStart h ty) (mid ++ HGroupEnd ty' :: rest) eq_refl).
    assert (E2 : pl ++ HGroupStart h ty :: mid ++ HGroupEnd ty' :: rest
                 = (pl ++ HGroupStart h ty :: mid) ++ HGroupEnd ty' :: rest)
      by (rewrite <- app_assoc; reflexivity).
    assert (Hpm : Help.position is_group_end (pl ++ HGroupStart h ty :: mid ++ HGroupEnd ty' :: rest)
                  = Some (length pl + S (length mid))).
    { rewrite E2.
      assert (Hgs : forall l1 l2 x t, Forall pok l1 -> Forall pok l2 -> is_group_end x = true ->
                Help.position is_group_end ((l1 ++ HGroupStart h ty :: l2) ++ x :: t) = Some (length l1 + S (length l2))).
      { intros l1 l2 x t H1 H2 Hx. induction H1 as [|y l1 [Hy _] _ IH1]; cbn [app Help.position length].
        - rewrite (position_plain_end l2 H2 x t Hx). reflexivity.
        - unfold plain in Hy. apply negb_true_iff, orb_false_iff in Hy. rewrite (proj2 Hy), IH1. reflexivity. }
      apply Hgs; auto. }
    rewrite Hpm.
    assert (Hle : Nat.leb (length pl) (length pl + S (length mid)) = true) by (apply Nat.leb_le; lia).
    rewrite Hle.
    assert (Hsk : skipn (length pl) (pl ++ HGroupStart h ty :: mid ++ HGroupEnd ty' :: rest)
                  = HGroupStart h ty :: mid ++ HGroupEnd ty' :: rest).
    { rewrite skipn_app, skipn_all, Nat.sub_diag. reflexivity. }
    assert (Hgrp : firstn (S (length pl + S (length mid)) - length pl)
                          (skipn (length pl) (pl ++ HGroupStart h ty :: mid ++ HGroupEnd ty' :: rest))
                   = HGroupStart h ty :: mid ++ [HGroupEnd ty']).
    { rewrite Hsk. replace (S (length pl + S (length mid)) - length pl) with (S (S (length mid))) by lia.
      cbn [firstn]. f_equal. apply firstn_snoc. }
    assert (Hfn : firstn (length pl) (pl ++ HGroupStart h ty :: mid ++ HGroupEnd ty' :: rest) = pl).
    { replace (length pl) with (length pl + 0) by lia. rewrite firstn_app_2. cbn [firstn]. apply app_nil_r. }
    assert (Hrs : skipn (S (length pl + S (length mid))) (pl ++ HGroupStart h ty :: mid ++ HGroupEnd ty' :: rest) = rest).
    { replace (pl ++ HGroupStart h ty :: mid ++ HGroupEnd ty' :: rest)
        with ((pl ++ HGroupStart h ty :: mid ++ [HGroupEnd ty']) ++ rest)
        by (rewrite <- !app_assoc; cbn [app]; rewrite <- app_assoc; reflexivity).
      replace (S (length pl + S (length mid))) with (length (pl ++ HGroupStart h ty :: mid ++ [HGroupEnd ty']))
        by (rewrite !app_length; cbn [length]; rewrite app_length; cbn [length]; lia).
      rewrite skipn_app, skipn_all, Nat.sub_diag. reflexivity. }
    rewrite Hgrp, Hfn, Hrs.
    apply IH.
    + apply wfi_app; [apply wfi_of_plain, A|exact D].
    + rewrite ngroups_app, (ngroups_plain pl A). rewrite ngroups_app, (ngroups_plain pl A) in Hn.
      change (ngroups (HGroupStart h ty :: mid ++ HGroupEnd ty' :: rest))
        with (S (ngroups (mid ++ HGroupEnd ty' :: rest))) in Hn.
      rewrite ngroups_app, (ngroups_plain mid C) in Hn.
      change (ngroups (HGroupEnd ty' :: rest)) with (ngroups rest) in Hn. lia.
    + apply extk_deduped_group; [apply good_neutral, B|exact C|exact H].
Qed.

Lemma forall_items_of_ty ty : forall items blk, Forall pok items -> Forall pok (items_of_ty ty blk items).
Proof.
  induction items as [|it t IH]; intros blk H; cbn [items_of_ty]; [constructor|]. inversion H; subst.
  match goal with |- context [let '(keep, blk') := ?x in _] => destruct x as [keep blk'] end.
  destruct keep; [constructor; [assumption|]|]; apply IH; assumption.
Qed.

Lemma extk_write_help_items k pre d items ty name ie :
  Forall pok items -> extk k pre d -> extk k pre (write_help_items env d items ty name ie).
Proof.
  intros Hi H. unfold write_help_items.
  pose proof (forall_items_of_ty ty items IBNo Hi) as Hx.
  destruct (items_of_ty ty IBNo items) as [|x xs]; [exact H|].
  apply extk_end, extk_end. apply extk_deduped_plain; [exact Hx|].
  apply extk_start, extk_end, extk_dwrite, extk_start, extk_start, H.
Qed.

Lemma ngroups_le_length l : ngroups l <= length l.
Proof.
  unfold ngroups. induction l as [|x l IH]; cbn [filter length]; [lia|].
  destruct (is_group_start x); cbn [length]; lia.
Qed.

Theorem write_help_item_groups_ok k pre d items ie :
  wfi items -> extk k pre d ->
  exists d', write_help_item_groups env d items ie = Some d' /\ extk k pre d'.
Proof.
  intros Hw H. unfold write_help_item_groups.
  destruct (write_groups_ok k pre ie (S (length items)) items d Hw) as (d1 & rest & E & H1 & Hr);
    [pose proof (ngroups_le_length items); lia|exact H|].
  rewrite E. eexists; split; [reflexivity|].
  repeat apply extk_write_help_items; assumption.
Qed.
End Groups.

(* ------------------------------------------------------------------ whole documents *)
Lemma ext_nil_neutral d : ext [] d -> neutral d.
Proof. intros H st. rewrite H. reflexivity. Qed.

Lemma extk_dblock k pre d t : oneutral t -> extk k pre d -> extk k pre (dblock d t).
Proof.
  intros Ht H. destruct t as [x|]; cbn [dblock]; [|exact H].
  apply extk_end, extk_ddoc; [exact Ht|]. apply extk_start, H.
Qed.

Lemma mok_info_meta i : info_ok i -> mok (info_meta i).
Proof.
  intros (Hv & _ & _ & _ & _ & Hh & Hva). unfold info_meta.
  assert (F : forall n, named_ok n -> mok (meta_of (PFlag n VUnit None))).
  { intros n Hn. cbn [meta_of]. unfold flag_item. destruct (shortlong_of n); cbn; [exact Hn|exact I]. }
  destruct (i_version i); [|apply F, Hh].
  rewrite mok_and. cbn [mok_all]. auto.
Qed.

Section Whole.
Variable env : bytes -> option bytes.

Theorem render_help_neutral path inf pm hm ie :
  info_ok inf -> mok pm -> mok hm ->
  exists d, render_help env path inf pm hm ie = Some d /\ neutral d.
Proof.
  intros (Hv & Hd & Hh & Hf & Hu & Hha & Hva) Hpm Hhm. unfold render_help.
  apply ogood_oneutral in Hd. apply ogood_oneutral in Hh. apply ogood_oneutral in Hf. apply ogood_oneutral in Hu.
  assert (H0 : ext [] (dblock [] (i_descr inf))) by (apply extk_dblock; [exact Hd|apply ext_refl]).
  assert (H2 : ext [] (dtok (match i_usage inf with
            | Some u => ddoc (dtok (dblock [] (i_descr inf)) (TStart BBlock)) u
            | None =>
              dtok (dwrite_meta (dwrite_path (dtok (dwrite (dwrite (dtok (dblock [] (i_descr inf)) (TStart BBlock)) SEmphasis b_usage) SText b_colon_sp)
                                                   (TStart BMono)) path) pm true) (TEnd BMono)
            end) (TEnd BBlock))).
  { apply extk_end. destruct (i_usage inf) as [u|].
    - apply extk_ddoc; [exact Hu|]. apply extk_start, H0.
    - apply extk_end, extk_dwrite_meta; [exact Hpm|]. apply extk_dwrite_path, extk_start, extk_dwrite, extk_dwrite, extk_start, H0. }
  assert (Hw : wfi (append_meta (append_meta [] pm) hm)).
  { apply append_meta_wfi; [apply append_meta_wfi; [constructor|exact Hpm]|exact Hhm]. }
  match goal with |- context [write_help_item_groups env ?d3 ?items ie] =>
    destruct (write_help_item_groups_ok env [] [] d3 items ie Hw) as (d4 & E & H4)
  end.
  { apply extk_dblock; [exact Hh|exact H2]. }
  rewrite E. eexists; split; [reflexivity|]. apply ext_nil_neutral. apply extk_dblock; [exact Hf|exact H4].
Qed.

(* sections carry metadata whose documents are fine *)
Definition sec_ok (s : section) : Prop := mok (sec_meta s) /\ info_ok (sec_info s).

Lemma wfi_hok l : wfi l -> Forall hok l.
Proof.
  induction 1 as [|it l [_ Hit] _ IH|h ty ty' mid l Hh Hm _ IH]; [constructor|constructor; assumption|].
  constructor; [exact Hh|]. apply Forall_app; split.
  - clear -Hm. induction Hm as [|x t [_ Hx] _ IH]; constructor; assumption.
  - constructor; [exact I|exact IH].
Qed.

Lemma sections_ok : forall fuel m inf path secs,
  mok m -> info_ok inf -> sections_go fuel m inf path = Some secs -> Forall sec_ok secs.
Proof.
  induction fuel as [|f IH]; intros m inf path secs Hm Hi E; [discriminate|].
  cbn [sections_go] in E.
  match type of E with match ?each ?items with _ => _ end = _ =>
    assert (HE : forall its r, Forall hok its -> each its = Some r -> Forall sec_ok r)
  end.
  { induction its as [|it t IHt]; intros r Hh Er; [inversion Er; constructor|].
    inversion Hh; subst.
    destruct it; try (apply IHt; assumption).
    match type of Er with match ?a with _ => _ end = _ => destruct a as [x|] eqn:Ea; [|discriminate] end.
    match type of Er with match ?b with _ => _ end = _ => destruct b as [y|] eqn:Eb; [|discriminate] end.
    inversion Er; subst. apply Forall_app; split.
    - cbn [hok] in H1. destruct H1 as (_ & Hm' & Hi'). eapply IH; eassumption.
    - apply (IHt y H2 eq_refl). }
  match type of E with match ?x with _ => _ end = _ => destruct x as [rest|] eqn:Ex; [|discriminate] end.
  inversion E; subst. constructor; [split; assumption|].
  eapply HE; [|exact Ex]. apply wfi_hok. apply append_meta_wfi; [constructor|exact Hm].
Qed.
End Whole.

Section Docs.
Variable env : bytes -> option bytes.

Definition oext (od : option doc) : Prop := match od with Some d => ext [] d | None => True end.

Theorem collect_html_neutral app m inf d :
  mok m -> info_ok inf -> collect_html env app m inf = Some d -> neutral d.
Proof.
  intros Hm Hi E. unfold collect_html in E.
  destruct (extract_sections m inf app) as [secs|] eqn:Es; [|discriminate].
  assert (Hs : Forall sec_ok secs) by (eapply sections_ok; eassumption).
  apply ext_nil_neutral.
  match type of E with fold_left ?F secs (Some ?d0) = _ =>
    assert (H0 : ext [] d0);
    [|assert (HF : forall l od, Forall sec_ok l -> oext od -> oext (fold_left F l od))]
  end.
  - destruct secs as [|s1 [|s2 t]]; try apply ext_refl.
    match goal with |- ext [] (fold_left ?G _ _) =>
      assert (HG : forall l d, ext [] d -> ext [] (fold_left G l d))
    end.
    { induction l as [|s l IH]; intros d1 H1; cbn [fold_left]; [exact H1|].
      apply IH. apply extk_end, extk_dwrite, extk_start, H1. }
    apply HG. apply extk_end, extk_end. unfold dtext. apply extk_dwrite, extk_start, extk_start, ext_refl.
  - induction l as [|s l IH]; intros od Hl Hod; cbn [fold_left]; [exact Hod|].
    inversion Hl as [|s' l' Hsk Hl']; subst. apply IH; [assumption|].
    destruct od as [d1|]; [|exact I]. cbn [oext] in Hod.
    destruct Hsk as [Hsm Hsi].
    destruct (render_help_neutral env (sec_path s) (sec_info s) (sec_meta s) (info_meta (sec_info s)) false Hsi Hsm
                                  (mok_info_meta _ Hsi)) as (b & Eb & Hb).
    rewrite Eb. cbn [oext]. apply extk_ddoc; [exact Hb|].
    apply extk_end. unfold dtext. apply extk_dwrite, extk_start, Hod.
  - pose proof (HF secs (Some _) Hs H0) as HX. unfold oext in HX.
    match type of HX with match ?x with _ => _ end => replace x with (Some d) in HX by (symmetry; exact E) end.
    exact HX.
Qed.

Theorem manpage_doc_neutral app m inf d :
  mok m -> info_ok inf -> manpage_doc env app m inf = Some d -> neutral d.
Proof.
  intros Hm Hi E. unfold manpage_doc in E.
  destruct (extract_sections m inf app) as [secs|] eqn:Es; [|discriminate].
  assert (Hs : Forall sec_ok secs) by (eapply sections_ok; eassumption).
  apply ext_nil_neutral.
  set (many := match secs with _ :: _ :: _ => true | _ => false end) in *.
  match type of E with fold_left ?F secs (Some ?d0) = _ =>
    assert (H0 : ext [] d0);
    [|assert (HF : forall l od, Forall sec_ok l -> oext od -> oext (fold_left F l od))]
  end.
  - destruct many; [|apply ext_refl]. apply extk_end.
    match goal with |- extk ?k [] (fold_left ?G secs _) =>
      assert (HG : forall l d, Forall sec_ok l -> extk k [] d -> extk k [] (fold_left G l d))
    end.
    { induction l as [|s l IH]; intros d1 Hl H1; cbn [fold_left]; [exact H1|]. inversion Hl as [|s' l' Hsk Hl']; subst.
      apply IH; [assumption|]. unfold dtext. apply extk_dwrite, extk_dwrite_meta; [apply Hsk|].
      generalize (sec_path s). intros p. revert d1 H1. induction p as [|q p IHp]; intros d1 H1; cbn [fold_left]; [exact H1|].
      apply IHp. apply extk_dwrite, extk_dwrite, H1. }
    apply HG; [exact Hs|]. apply extk_start, extk_end, extk_end. unfold dtext. apply extk_dwrite, extk_start, extk_start, ext_refl.
  - induction l as [|s l IH]; intros od Hl Hod; cbn [fold_left]; [exact Hod|].
    inversion Hl as [|s' l' Hsk Hl']; subst. apply IH; [assumption|].
    destruct od as [d1|]; [|exact I]. cbn [oext] in Hod.
    destruct Hsk as [Hsm Hsi]. pose proof Hsi as (Hv & Hd & Hh & Hf & Hu & Hha & Hva).
    apply ogood_oneutral in Hd. apply ogood_oneutral in Hh. apply ogood_oneutral in Hf.
    assert (A1 : ext [] (if many then dtok (dwrite_path (dtok d1 (TStart BHeader)) (sec_path s)) (TEnd BHeader) else d1)).
    { destruct many; [|exact Hod]. apply extk_end, extk_dwrite_path, extk_start, Hod. }
    match goal with |- context [write_help_item_groups env ?d5 ?items false] =>
      assert (A5 : ext [] d5); [|
      assert (Hw : wfi items) by (apply append_meta_wfi; [apply append_meta_wfi; [constructor|exact Hsm]|apply mok_info_meta, Hsi]);
      destruct (write_help_item_groups_ok env [] [] d5 items false Hw A5) as (d6 & E6 & H6) ]
    end.
    { apply extk_dblock; [exact Hh|]. apply extk_dwrite_meta; [exact Hsm|]. apply extk_dwrite_path.
      apply extk_end. unfold dtext. apply extk_dwrite, extk_start.
      destruct (i_descr (sec_info s)) as [descr|]; [|exact A1].
      apply extk_ddoc; [exact Hd|]. unfold dtext. apply extk_dwrite, extk_dwrite, extk_end, extk_dwrite, extk_start, A1. }
    rewrite E6. cbn [oext]. apply extk_dblock; [exact Hf|exact H6].
  - pose proof (HF secs (Some _) Hs H0) as HX. unfold oext in HX.
    match type of HX with match ?x with _ => _ end => replace x with (Some d) in HX by (symmetry; exact E) end.
    exact HX.
Qed.
End Docs.

(* ------------------------------------------------------------------ from parsers *)
(* the documents a parser definition carries; hidden parts contribute nothing to any document *)
Fixpoint pdok (p : parser) : Prop :=
  match p with
  | PFlag n _ _ | PArg n _ _ _ => named_ok n
  | PPos _ _ _ help => ogood help
  | PAny mv help _ _ => good mv /\ ogood help
  | PCmd _ _ _ help _ sub => ogood help /\ odok sub
  | PCon fs | PAdj fs => pldok fs
  | POr a b => pdok a /\ pdok b
  | POptional q _ | PMany q _ | PSome q _ _ | PCollect q _ | PCount q | PLast q
  | PFallback q _ _ | PFallbackWith q _ _ | PGuard q _ _ | PParse q _ | PMap q _ | PBoxed q => pdok q
  | PUsage q d | PGroupHelp q d => pdok q /\ good d
  | PHide _ | PPure _ | PPureWith _ | PFail _ => True
  end
with pldok (ps : plist) : Prop :=
  match ps with PNil => True | PCons q t => pdok q /\ pldok t end
with odok (o : oparser) : Prop :=
  match o with Options q i => pdok q /\ info_ok i end.

Lemma mok_meta_or a b : mok a -> mok b -> mok (meta_or a b).
Proof.
  intros Ha Hb. unfold meta_or.
  assert (HA : forall m, mok m -> Forall mok (alts m)).
  { intros m Hm. destruct m; cbn [alts]; try (constructor; [exact Hm|constructor]); try constructor.
    rewrite mok_or in Hm. apply mok_all_forall, Hm. }
  pose proof (proj2 (Forall_app mok (alts a) (alts b)) (conj (HA a Ha) (HA b Hb))) as H.
  destruct (alts a ++ alts b) as [|x [|y t]]; [exact I|inversion H; assumption|].
  rewrite mok_or. apply mok_all_forall, H.
Qed.

Lemma mok_with_suffix m shown : mok m -> mok (with_suffix m shown).
Proof.
  intros H. unfold with_suffix. destruct (is_nil shown); [exact H|]. split; [exact H|apply good_text].
Qed.

Theorem meta_of_ok :
  (forall p, pdok p -> mok (meta_of p)) /\
  (forall ps, pldok ps -> mok_all (metas_of ps) /\ mok (con_meta ps)) /\
  (forall o, odok o -> mok (ometa_of o) /\ info_ok (oinfo_of o)).
Proof.
  apply parser_plist_oparser_ind; intros; cbn [meta_of metas_of con_meta ometa_of oinfo_of] in *.
  - unfold flag_item. destruct (shortlong_of n); cbn [option_map]; [|exact I]. destruct absent; exact H.
  - unfold arg_item. destruct (shortlong_of n); cbn [option_map]; [exact H|exact I].
  - destruct pos; exact H.
  - exact H.
  - cbn [pdok] in H0. destruct H0 as [Hh Ho]. destruct (H Ho) as [A B]. cbn [mok iok]. auto.
  - apply H, H0.
  - apply H, H0.
  - destruct H1. apply mok_meta_or; auto.
  - apply H, H0.
  - apply H, H0.
  - apply H, H0.
  - apply H, H0.
  - apply H, H0.
  - apply H, H0.
  - apply mok_with_suffix. apply H, H0.
  - apply mok_with_suffix. apply H, H0.
  - apply H, H0.
  - apply H, H0.
  - apply H, H0.
  - exact I.
  - destruct H0. split; auto.
  - destruct H0. split; auto.
  - exact I.
  - exact I.
  - exact I.
  - apply H, H0.
  - split; exact I.
  - cbn [pldok] in H1. destruct H1 as [Hq Ht]. destruct (H0 Ht) as [A B]. split.
    + cbn [mok_all]. auto.
    + match goal with |- context [match ?ps with PNil => _ | PCons _ _ => _ end] => destruct ps as [|q2 t] end;
        [apply H, Hq|]. rewrite mok_and. cbn [mok_all]. split; [apply H, Hq|exact A].
  - cbn [odok] in H0. destruct H0. auto.
Qed.

(* ------------------------------------------------------------------ extract_sections never runs out of fuel *)
Fixpoint depth_all (xs : list meta) : nat :=
  match xs with [] => O | x :: t => Nat.max (meta_depth x) (depth_all t) end.
Lemma meta_depth_and xs : meta_depth (MAnd xs) = S (depth_all xs).
Proof. reflexivity. Qed.
Lemma meta_depth_or xs : meta_depth (MOr xs) = S (depth_all xs).
Proof. reflexivity. Qed.

Definition cmd_depth_lt (n : nat) (it : helpitem) : Prop :=
  match it with HCommand _ _ _ m' _ => meta_depth m' < n | _ => True end.

Lemma append_depth m : forall b, Forall (cmd_depth_lt (meta_depth m)) (append_go m b []).
Proof.
  assert (Hmono : forall n k l, n <= k -> Forall (cmd_depth_lt n) l -> Forall (cmd_depth_lt k) l).
  { intros n k l Hle H. induction H as [|x l Hx _ IH]; constructor; [|exact IH].
    destruct x; cbn in *; try exact I. lia. }
  induction m as [xs IHxs|xs IHxs|m IHm|m IHm|m IHm|i|m IHm|m dd IHm|m dd IHm| |m dd IHm|m IHm] using meta_ind';
    intros b.
  - rewrite append_go_and, meta_depth_and.
    induction IHxs as [|x t Hx _ IH]; [constructor|]. rewrite append_all_nil_cons. cbn [depth_all].
    apply Forall_app; split; [apply (Hmono (meta_depth x)); [lia|apply Hx]|apply (Hmono (S (depth_all t))); [lia|exact IH]].
  - rewrite append_go_or, meta_depth_or.
    induction IHxs as [|x t Hx _ IH]; [constructor|]. rewrite append_all_nil_cons. cbn [depth_all].
    apply Forall_app; split; [apply (Hmono (meta_depth x)); [lia|apply Hx]|apply (Hmono (S (depth_all t))); [lia|exact IH]].
  - cbn [append_go meta_depth]. apply (Hmono (meta_depth m)); [lia|apply IHm].
  - cbn [append_go meta_depth]. apply (Hmono (meta_depth m)); [lia|apply IHm].
  - cbn [append_go meta_depth]. destruct (peek_front_ty m); [|constructor].
    cbn [app]. rewrite (append_go_acc m _ [_]). cbn [app].
    constructor; [exact I|]. apply Forall_app; split; [apply (Hmono (meta_depth m)); [lia|apply IHm]|constructor; [exact I|constructor]].
  - cbn [append_go]. destruct i as [mv a h|mv [h|]| | |]; try (constructor; [|constructor]); try constructor; cbn; try exact I; try lia.
  - cbn [append_go meta_depth]. apply (Hmono (meta_depth m)); [lia|apply IHm].
  - cbn [append_go meta_depth]. destruct (peek_front_ty m); [|constructor]. destruct b.
    + apply (Hmono (meta_depth m)); [lia|apply IHm].
    + cbn [app]. rewrite (append_go_acc m _ [_]). cbn [app]. constructor; [exact I|].
      apply Forall_app; split; [apply (Hmono (meta_depth m)); [lia|apply IHm]|constructor; [exact I|constructor]].
  - cbn [append_go meta_depth]. destruct (peek_front_ty m); [|constructor].
    apply Forall_app; split; [apply (Hmono (meta_depth m)); [lia|apply IHm]|constructor; [exact I|constructor]].
  - constructor.
  - cbn [append_go meta_depth]. apply (Hmono (meta_depth m)); [lia|apply IHm].
  - cbn [append_go meta_depth]. apply (Hmono (meta_depth m)); [lia|apply IHm].
Qed.

Lemma sections_total : forall fuel m inf path, meta_depth m < fuel -> exists secs, sections_go fuel m inf path = Some secs.
Proof.
  induction fuel as [|f IH]; intros m inf path Hd; [lia|].
  cbn [sections_go].
  match goal with |- context [?each (append_meta [] m)] =>
    assert (HE : forall its, Forall (cmd_depth_lt f) its -> exists r, each its = Some r)
  end.
  { induction its as [|it t IHt]; intros Hh; [eexists; reflexivity|].
    inversion Hh as [|x l Hx Hl]; subst. destruct (IHt Hl) as [r Er].
    destruct it; try (exists r; exact Er).
    cbn in Hx. destruct (IH m0 i (path ++ [name]) Hx) as [a Ea].
    exists (a ++ r). rewrite Ea, Er. reflexivity. }
  destruct (HE (append_meta [] m)) as [r Er].
  - unfold append_meta.
    assert (Hmono : forall l, Forall (cmd_depth_lt (meta_depth m)) l -> Forall (cmd_depth_lt f) l).
    { intros l H. induction H as [|x l Hx _ IHl]; constructor; [|exact IHl]. destruct x; cbn in *; try exact I. lia. }
    apply Hmono, append_depth.
  - rewrite Er. eexists; reflexivity.
Qed.

Section Total.
Variable env : bytes -> option bytes.

Theorem collect_html_total app m inf : mok m -> info_ok inf -> exists d, collect_html env app m inf = Some d /\ neutral d.
Proof.
  intros Hm Hi. unfold collect_html, extract_sections.
  destruct (sections_total (S (meta_depth m)) m inf [app]) as [secs Es]; [lia|].
  assert (Hs : Forall sec_ok secs) by (eapply sections_ok; eassumption).
  assert (HT : forall l od, Forall sec_ok l -> (exists d, od = Some d) ->
               exists d, fold_left (fun (od : option doc) s =>
                 match od with
                 | None => None
                 | Some d =>
                   match render_help env (sec_path s) (sec_info s) (sec_meta s) (info_meta (sec_info s)) false with
                   | Some b => Some (ddoc (dtok (dtext (dtok d (TStart BHeader)) (join [32%N] (sec_path s))) (TEnd BHeader)) b)
                   | None => None
                   end
                 end) l od = Some d).
  { induction l as [|s l IH]; intros od Hl [d Hd]; cbn [fold_left]; [exists d; exact Hd|].
    inversion Hl as [|s' l' [Hsm Hsi] Hl']; subst. apply IH; [assumption|].
    destruct (render_help_neutral env (sec_path s) (sec_info s) (sec_meta s) (info_meta (sec_info s)) false Hsi Hsm
                                  (mok_info_meta _ Hsi)) as (b & Eb & _).
    rewrite Eb. eexists; reflexivity. }
  pose proof (collect_html_neutral env app m inf) as HN. unfold collect_html, extract_sections in HN.
  rewrite Es in *.
  match goal with |- exists d, fold_left ?F secs (Some ?d0) = Some d /\ _ =>
    destruct (HT secs (Some d0) Hs (ex_intro _ d0 eq_refl)) as [d Ed]
  end.
  exists d. split; [exact Ed|]. apply HN; assumption.
Qed.

Theorem manpage_doc_total app m inf : mok m -> info_ok inf -> exists d, manpage_doc env app m inf = Some d /\ neutral d.
Proof.
  intros Hm Hi.
  pose proof (manpage_doc_neutral env app m inf) as HN. unfold manpage_doc, extract_sections in *.
  destruct (sections_total (S (meta_depth m)) m inf [app]) as [secs Es]; [lia|]. rewrite Es in *.
  assert (Hs : Forall sec_ok secs) by (eapply sections_ok; eassumption).
  set (many := match secs with _ :: _ :: _ => true | _ => false end) in *.
  match goal with |- exists d, fold_left ?F secs (Some ?d0) = Some d /\ _ =>
    assert (HT : forall l od, Forall sec_ok l -> (exists d, od = Some d) -> exists d, fold_left F l od = Some d)
  end.
  { induction l as [|s l IH]; intros od Hl [d Hd]; cbn [fold_left]; [exists d; exact Hd|].
    inversion Hl as [|s' l' [Hsm Hsi] Hl']; subst. apply IH; [assumption|].
    match goal with |- context [write_help_item_groups env ?d5 ?items false] =>
      assert (Hw : wfi items) by (apply append_meta_wfi; [apply append_meta_wfi; [constructor|exact Hsm]|apply mok_info_meta, Hsi]);
      destruct (write_help_item_groups_ok env [] d5 d5 items false Hw (ext_refl d5)) as (d6 & E6 & _)
    end.
    rewrite E6. eexists; reflexivity. }
  match goal with |- exists d, fold_left ?F secs (Some ?d0) = Some d /\ _ =>
    destruct (HT secs (Some d0) Hs (ex_intro _ d0 eq_refl)) as [d Ed]
  end.
  exists d. split; [exact Ed|]. apply HN; assumption.
Qed.
End Total.

(* ------------------------------------------------------------------ statements about parser definitions *)
Theorem html_document_total_balanced env app o : odok o ->
  exists d, collect_html env app (ometa_of o) (oinfo_of o) = Some d /\ bal [] d = true.
Proof.
  intros Ho. destruct (proj2 (proj2 meta_of_ok) o Ho) as [Hm Hi].
  destruct (collect_html_total env app _ _ Hm Hi) as (d & E & N). exists d. split; [exact E|apply neutral_bal, N].
Qed.

Theorem manpage_document_total_balanced env app o : odok o ->
  exists d, manpage_doc env app (ometa_of o) (oinfo_of o) = Some d /\ bal [] d = true.
Proof.
  intros Ho. destruct (proj2 (proj2 meta_of_ok) o Ho) as [Hm Hi].
  destruct (manpage_doc_total env app _ _ Hm Hi) as (d & E & N). exists d. split; [exact E|apply neutral_bal, N].
Qed.

Theorem help_document_total_balanced env path o ie : odok o ->
  exists d, render_help env path (oinfo_of o) (ometa_of o) (info_meta (oinfo_of o)) ie = Some d /\ bal [] d = true.
Proof.
  intros Ho. destruct (proj2 (proj2 meta_of_ok) o Ho) as [Hm Hi].
  destruct (render_help_neutral env path _ _ _ ie Hi Hm (mok_info_meta _ Hi)) as (d & E & N).
  exists d. split; [exact E|apply neutral_bal, N].
Qed.

Theorem html_well_nested_parser env app o full d evs : odok o ->
  collect_html env app (ometa_of o) (oinfo_of o) = Some d ->
  render_html_events full d = Some evs -> wn [] evs = Some [].
Proof.
  intros Ho E R. destruct (proj2 (proj2 meta_of_ok) o Ho) as [Hm Hi].
  apply (html_well_nested full d evs); [|exact R]. apply neutral_bal. eapply collect_html_neutral; eassumption.
Qed.

(* ------------------------------------------------------------------ which blocks the documents contain *)
(* html: Block::Meta is todo!(); roff: Block::TermRef is todo!().  The documents bpaf builds for a parser
   contain neither (the manpage document contains Meta, which roff renders). *)
Section Allowed.
Variable ok : block -> bool.
Hypothesis Hok : forall b, userblock b = true -> ok b = true.
Notation al d := (allowed ok d = true).

Lemma al_app a b : al a -> al b -> al (a ++ b).
Proof. intros Ha Hb. unfold allowed. rewrite forallb_app. unfold allowed in Ha, Hb. rewrite Ha, Hb. reflexivity. Qed.
Lemma al_app_inv a b : al (a ++ b) -> al a /\ al b.
Proof. unfold allowed. rewrite forallb_app. intros H. apply andb_prop in H. exact H. Qed.
Lemma al_good d : good d -> al d.
Proof.
  intros [_ H]. unfold allowed in *. rewrite forallb_forall in *. intros t Ht. specialize (H t Ht).
  destruct t; [reflexivity|apply Hok, H|apply Hok, H].
Qed.

Lemma al_dtok d t : al d -> al [t] -> al (dtok d t).
Proof. intros. unfold dtok. apply al_app; assumption. Qed.
Lemma al_start d b : userblock b = true -> al d -> al (dtok d (TStart b)).
Proof. intros Hb H. apply al_dtok; [exact H|]. cbn. rewrite (Hok b Hb). reflexivity. Qed.
Lemma al_end d b : userblock b = true -> al d -> al (dtok d (TEnd b)).
Proof. intros Hb H. apply al_dtok; [exact H|]. cbn. rewrite (Hok b Hb). reflexivity. Qed.

Lemma al_dwrite d sty s : al d -> al (dwrite d sty s).
Proof.
  intros H. unfold dwrite. destruct (rev d) as [|[sty' s'|b|b] r] eqn:E; try (apply al_app; [exact H|reflexivity]).
  destruct (style_eqb sty sty'); [|apply al_app; [exact H|reflexivity]].
  assert (Hd : d = rev r ++ [TText sty' s']) by (rewrite <- (rev_involutive d), E; reflexivity).
  cbn [rev]. rewrite Hd in H. apply al_app_inv in H. apply al_app; [apply H|reflexivity].
Qed.
Lemma al_dchar d sty c : al d -> al (dchar d sty c).
Proof. apply al_dwrite. Qed.

Lemma al_ddoc d buf : al buf -> al d -> al (ddoc d buf).
Proof.
  intros Hb H. unfold ddoc. apply al_app; [exact H|]. apply al_app; [cbn; rewrite Hok; reflexivity|].
  apply al_app; [exact Hb|cbn; rewrite Hok; reflexivity].
Qed.

Lemma al_dem_doc d buf : al buf -> al d -> al (dem_doc d buf).
Proof.
  intros Hb H. unfold dem_doc. apply al_end; [reflexivity|].
  pose proof (al_start d BInlineBlock eq_refl H) as H0.
  destruct buf as [|[sty prefix|b|b] rest]; try (apply al_app; assumption).
  destruct sty; try (apply al_app; assumption).
  destruct (split_once_nl prefix) as [[a b]|].
  - apply al_end; [reflexivity|]. apply al_app; [|apply (al_app_inv [TText SText prefix] rest Hb)].
    apply al_dwrite, al_start; [reflexivity|]. apply al_dwrite, H0.
  - apply al_dwrite, H0.
Qed.

Lemma al_dmetavar d mv : al d -> al (dmetavar d mv).
Proof. intros H. unfold dmetavar. destruct (forallb is_metavar_char mv); repeat apply al_dwrite; exact H. Qed.
Lemma al_dshortlong_usage d n : al d -> al (dshortlong_usage d n).
Proof. intros H. destruct n; cbn [dshortlong_usage]; repeat first [apply al_dchar | apply al_dwrite]; exact H. Qed.
Lemma al_dshortlong_item d n : al d -> al (dshortlong_item d n).
Proof. intros H. destruct n; cbn [dshortlong_item]; repeat first [apply al_dchar | apply al_dwrite]; exact H. Qed.

Lemma al_dwrite_item d i : iok i -> al d -> al (dwrite_item d i).
Proof.
  intros Hi H. destruct i; cbn [dwrite_item].
  - apply al_ddoc; [apply al_good, Hi|exact H].
  - apply al_dmetavar, H.
  - apply al_dwrite, H.
  - apply al_dshortlong_usage, H.
  - apply al_dmetavar, al_dchar, al_dshortlong_usage, H.
Qed.

Lemma al_wm_sep s xs :
  Forall (fun m => forall d, al d -> al (wm_go m d)) xs ->
  forall first d, al d -> al (wm_sep s first xs d).
Proof.
  induction 1 as [|x t Hx _ IH]; intros first d H; cbn [wm_sep]; [exact H|].
  apply IH. apply Hx. destruct first; [exact H|apply al_dwrite, H].
Qed.

Lemma al_wm_go m : mok m -> forall d, al d -> al (wm_go m d).
Proof.
  induction m as [xs IHxs|xs IHxs|m IHm|m IHm|m IHm|i|m IHm|m dd IHm|m dd IHm| |m dd IHm|m IHm] using meta_ind';
    intros Hm d H.
  - rewrite wm_go_and. rewrite mok_and in Hm. apply mok_all_forall in Hm.
    apply al_wm_sep; [|exact H].
    clear H d. induction IHxs as [|x t Hx _ IH]; [constructor|]. inversion Hm; subst. constructor; [auto|apply IH; assumption].
  - rewrite wm_go_or. rewrite mok_or in Hm. apply mok_all_forall in Hm.
    apply al_wm_sep; [|exact H].
    clear H d. induction IHxs as [|x t Hx _ IH]; [constructor|]. inversion Hm; subst. constructor; [auto|apply IH; assumption].
  - cbn [wm_go]. apply al_dwrite, IHm; [exact Hm|]. apply al_dwrite, H.
  - cbn [wm_go]. apply al_dwrite, IHm; [exact Hm|]. apply al_dwrite, H.
  - cbn [wm_go]. apply IHm; assumption.
  - cbn [wm_go]. apply al_dwrite_item; assumption.
  - cbn [wm_go]. apply al_dwrite, IHm; assumption.
  - cbn [wm_go]. apply IHm; [apply Hm|exact H].
  - cbn [wm_go]. apply IHm; [apply Hm|exact H].
  - exact H.
  - cbn [wm_go]. apply al_ddoc; [apply al_good, Hm|exact H].
  - cbn [wm_go]. apply IHm; [exact Hm|]. apply al_dwrite, al_dwrite, H.
Qed.

Lemma al_dwrite_meta d m fu : mok m -> al d -> al (dwrite_meta d m fu).
Proof.
  intros Hm H. unfold dwrite_meta. apply al_end; [reflexivity|]. apply al_wm_go; [apply normalized_ok, Hm|].
  apply al_start; [reflexivity|exact H].
Qed.
Lemma al_dwrite_path path : forall d, al d -> al (dwrite_path d path).
Proof.
  unfold dwrite_path. induction path as [|p t IH]; intros d H; cbn [fold_left]; [exact H|].
  apply IH. apply al_dchar, al_dwrite, H.
Qed.

Variable env : bytes -> option bytes.

Lemma al_dbody d h : ogood h -> al d -> al (dbody d h).
Proof.
  intros Hh H. destruct h as [x|]; cbn [dbody]; [|exact H].
  apply al_end; [reflexivity|]. apply al_ddoc; [apply al_good, Hh|]. apply al_start; [reflexivity|exact H].
Qed.
Lemma al_denv_line d a b e v : al d -> al (denv_line d a b e v).
Proof.
  intros H. unfold denv_line. apply al_end; [reflexivity|].
  assert (H1 : al (if a then dtok (dtok d (TStart BItemTerm)) (TEnd BItemTerm) else d)).
  { destruct a; [apply al_end; [reflexivity|]; apply al_start; [reflexivity|exact H]|exact H]. }
  destruct b; repeat apply al_dwrite; (apply al_start; [reflexivity|exact H1]).
Qed.

Ltac al_blocks := repeat first [ apply al_end; [reflexivity|] | apply al_start; [reflexivity|] | apply al_dwrite | apply al_dchar
                               | apply al_dmetavar | apply al_dshortlong_item ].

Lemma al_write_help_item d it ie : hok it -> al d -> al (write_help_item env d it ie).
Proof.
  intros Hk H. destruct it; cbn [write_help_item]; cbn [hok] in Hk.
  - apply al_end; [reflexivity|]. apply al_ddoc; [apply al_good, Hk|]. al_blocks. exact H.
  - apply al_start; [reflexivity|]. apply al_end; [reflexivity|]. apply al_dem_doc; [apply al_good, Hk|]. al_blocks. exact H.
  - al_blocks. exact H.
  - apply al_dbody; [apply Hk|]. apply al_end; [reflexivity|]. apply al_ddoc; [apply al_good, Hk|]. al_blocks. exact H.
  - apply al_dbody; [exact Hk|]. al_blocks. exact H.
  - apply al_dbody; [apply Hk|]. apply al_end; [reflexivity|].
    destruct short; al_blocks; exact H.
  - assert (H1 : al (dbody (dtok (dshortlong_item (dtok d (TStart BItemTerm)) name) (TEnd BItemTerm)) help)).
    { apply al_dbody; [exact Hk|]. al_blocks. exact H. }
    destruct env0; [apply al_denv_line|]; exact H1.
  - assert (H1 : al (dbody (dtok (dmetavar (dchar (dshortlong_item (dtok d (TStart BItemTerm)) name) SText c_eq) metavar)
                                 (TEnd BItemTerm)) help)).
    { apply al_dbody; [exact Hk|]. al_blocks. exact H. }
    destruct env0; [apply al_denv_line|]; exact H1.
  - apply al_end; [reflexivity|]. apply al_dwrite_meta; [exact Hk|]. al_blocks. exact H.
  - al_blocks. exact H.
Qed.

Lemma al_write_deduped items ie : Forall hok items ->
  forall d seen kf, al d -> al (write_deduped env d items seen kf ie).
Proof.
  induction 1 as [|it t Hit _ IH]; intros d seen kf H; cbn [write_deduped]; [exact H|].
  destruct (dedup_check seen kf it) as [[keep seen'] kf']. apply IH.
  destruct keep; [apply al_write_help_item; assumption|exact H].
Qed.

Lemma forall_firstn {A} (P : A -> Prop) n l : Forall P l -> Forall P (firstn n l).
Proof. revert l. induction n as [|n IH]; intros l H; cbn [firstn]; [constructor|]. destruct H; constructor; auto. Qed.
Lemma forall_skipn {A} (P : A -> Prop) n l : Forall P l -> Forall P (skipn n l).
Proof. revert l. induction n as [|n IH]; intros l H; cbn [skipn]; [exact H|]. destruct H; [constructor|auto]. Qed.

Lemma al_write_groups ie : forall fuel items d d' rest,
  Forall hok items -> al d -> write_groups env fuel d items ie = Some (d', rest) -> al d' /\ Forall hok rest.
Proof.
  induction fuel as [|f IH]; intros items d d' rest Hi H E; [discriminate|]. cbn [write_groups] in E.
  destruct (Help.position is_group_start items) as [a|]; [|inversion E; subst; auto].
  destruct (Help.position is_group_end items) as [b|]; [|inversion E; subst; auto].
  destruct (Nat.leb a b); [|discriminate].
  eapply IH; [| |exact E].
  - apply Forall_app; split; [apply forall_firstn, Hi|apply forall_skipn, Hi].
  - apply al_write_deduped; [|exact H]. apply forall_firstn, forall_skipn, Hi.
Qed.

Lemma forall_hok_items_of_ty ty : forall items blk, Forall hok items -> Forall hok (items_of_ty ty blk items).
Proof.
  induction items as [|it t IH]; intros blk H; cbn [items_of_ty]; [constructor|]. inversion H; subst.
  match goal with |- context [let '(keep, blk') := ?x in _] => destruct x as [keep blk'] end.
  destruct keep; [constructor; [assumption|]|]; apply IH; assumption.
Qed.

Lemma al_write_help_items d items ty name ie : Forall hok items -> al d -> al (write_help_items env d items ty name ie).
Proof.
  intros Hi H. unfold write_help_items.
  pose proof (forall_hok_items_of_ty ty items IBNo Hi) as Hx.
  destruct (items_of_ty ty IBNo items) as [|x xs]; [exact H|].
  apply al_end; [reflexivity|]. apply al_end; [reflexivity|]. apply al_write_deduped; [exact Hx|].
  al_blocks. exact H.
Qed.

Lemma al_write_help_item_groups d items ie d' : Forall hok items -> al d ->
  write_help_item_groups env d items ie = Some d' -> al d'.
Proof.
  intros Hi H E. unfold write_help_item_groups in E.
  destruct (write_groups env (S (length items)) d items ie) as [[d1 rest]|] eqn:Eg; [|discriminate].
  destruct (al_write_groups ie _ _ _ _ _ Hi H Eg) as [H1 Hr]. inversion E; subst.
  repeat apply al_write_help_items; assumption.
Qed.

Lemma al_dblock d t : ogood t -> al d -> al (dblock d t).
Proof.
  intros Ht H. destruct t as [x|]; cbn [dblock]; [|exact H].
  apply al_end; [reflexivity|]. apply al_ddoc; [apply al_good, Ht|]. apply al_start; [reflexivity|exact H].
Qed.

Lemma al_render_help path inf pm hm ie d :
  info_ok inf -> mok pm -> mok hm -> render_help env path inf pm hm ie = Some d -> al d.
Proof.
  intros (Hv & Hd & Hh & Hf & Hu & Hha & Hva) Hpm Hhm E. unfold render_help in E.
  match type of E with match write_help_item_groups env ?d3 ?items ie with _ => _ end = _ =>
    destruct (write_help_item_groups env d3 items ie) as [d4|] eqn:E4; [|discriminate];
    assert (H3 : al d3); [|
    assert (Hw : Forall hok items) by
      (apply wfi_hok, append_meta_wfi; [apply append_meta_wfi; [constructor|exact Hpm]|exact Hhm]) ]
  end.
  - apply al_dblock; [exact Hh|]. apply al_end; [reflexivity|].
    assert (H0 : al (dtok (dblock [] (i_descr inf)) (TStart BBlock))).
    { apply al_start; [reflexivity|]. apply al_dblock; [exact Hd|reflexivity]. }
    destruct (i_usage inf) as [u|].
    + apply al_ddoc; [apply al_good, Hu|exact H0].
    + apply al_end; [reflexivity|]. apply al_dwrite_meta; [exact Hpm|]. apply al_dwrite_path.
      apply al_start; [reflexivity|]. apply al_dwrite, al_dwrite, H0.
  - inversion E; subst. apply al_dblock; [exact Hf|]. eapply al_write_help_item_groups; eassumption.
Qed.

Theorem al_collect_html app m inf d :
  mok m -> info_ok inf -> collect_html env app m inf = Some d -> al d.
Proof.
  intros Hm Hi E. unfold collect_html in E.
  destruct (extract_sections m inf app) as [secs|] eqn:Es; [|discriminate].
  assert (Hs : Forall sec_ok secs) by (eapply sections_ok; eassumption).
  match type of E with fold_left ?F secs (Some ?d0) = _ =>
    assert (H0 : al d0);
    [|assert (HF : forall l od, Forall sec_ok l -> match od with Some x => al x | None => True end ->
                                 match fold_left F l od with Some x => al x | None => True end)]
  end.
  - destruct secs as [|s1 [|s2 t]]; try reflexivity.
    match goal with |- al (fold_left ?G _ _) =>
      assert (HG : forall l d, al d -> al (fold_left G l d))
    end.
    { induction l as [|s l IH]; intros d1 H1; cbn [fold_left]; [exact H1|].
      apply IH. apply al_end; [reflexivity|]. unfold dtext. apply al_dwrite. apply al_start; [reflexivity|exact H1]. }
    apply HG. unfold dtext. al_blocks. reflexivity.
  - induction l as [|s l IH]; intros od Hl Hod; cbn [fold_left]; [exact Hod|].
    inversion Hl as [|s' l' [Hsm Hsi] Hl']; subst. apply IH; [assumption|].
    destruct od as [d1|]; [|exact I].
    destruct (render_help env (sec_path s) (sec_info s) (sec_meta s) (info_meta (sec_info s)) false) as [b|] eqn:Eb; [|exact I].
    apply al_ddoc; [eapply al_render_help; [exact Hsi|exact Hsm|apply mok_info_meta, Hsi|exact Eb]|].
    apply al_end; [reflexivity|]. unfold dtext. apply al_dwrite. apply al_start; [reflexivity|exact Hod].
  - pose proof (HF secs (Some _) Hs H0) as HX.
    match type of HX with match ?x with _ => _ end => replace x with (Some d) in HX by (symmetry; exact E) end.
    exact HX.
Qed.
End Allowed.

Section AllowedMan.
Variable ok : block -> bool.
Hypothesis Hok : forall b, userblock b = true -> ok b = true.
Hypothesis HokMeta : ok BMeta = true.
Variable env : bytes -> option bytes.
Notation al d := (allowed ok d = true).

Theorem al_manpage_doc app m inf d :
  mok m -> info_ok inf -> manpage_doc env app m inf = Some d -> al d.
Proof.
  intros Hm Hi E. unfold manpage_doc in E.
  destruct (extract_sections m inf app) as [secs|] eqn:Es; [|discriminate].
  assert (Hs : Forall sec_ok secs) by (eapply sections_ok; eassumption).
  set (many := match secs with _ :: _ :: _ => true | _ => false end) in *.
  pose proof (al_start ok Hok) as Hstart. pose proof (al_end ok Hok) as Hend.
  match type of E with fold_left ?F secs (Some ?d0) = _ =>
    assert (H0 : al d0);
    [|assert (HF : forall l od, Forall sec_ok l -> match od with Some x => al x | None => True end ->
                                 match fold_left F l od with Some x => al x | None => True end)]
  end.
  - destruct many; [|reflexivity]. apply al_dtok; [|cbn; rewrite HokMeta; reflexivity].
    match goal with |- al (fold_left ?G secs _) =>
      assert (HG : forall l d, Forall sec_ok l -> al d -> al (fold_left G l d))
    end.
    { induction l as [|s l IH]; intros d1 Hl H1; cbn [fold_left]; [exact H1|]. inversion Hl as [|s' l' Hsk Hl']; subst.
      apply IH; [assumption|]. unfold dtext. apply al_dwrite, al_dwrite_meta; [exact Hok|apply Hsk|].
      generalize (sec_path s). intros p. revert d1 H1. induction p as [|q p IHp]; intros d1 H1; cbn [fold_left]; [exact H1|].
      apply IHp. apply al_dwrite, al_dwrite, H1. }
    apply HG; [exact Hs|]. apply al_dtok; [|cbn; rewrite HokMeta; reflexivity].
    apply Hend; [reflexivity|]. apply Hend; [reflexivity|]. unfold dtext. apply al_dwrite.
    apply Hstart; [reflexivity|]. apply Hstart; [reflexivity|reflexivity].
  - induction l as [|s l IH]; intros od Hl Hod; cbn [fold_left]; [exact Hod|].
    inversion Hl as [|s' l' [Hsm Hsi] Hl']; subst. apply IH; [assumption|].
    destruct od as [d1|]; [|exact I].
    pose proof Hsi as (Hv & Hd & Hh & Hf & Hu & Hha & Hva).
    match goal with |- match (match write_help_item_groups env ?d5 ?items false with _ => _ end) with _ => _ end =>
      destruct (write_help_item_groups env d5 items false) as [d6|] eqn:E6; [|exact I];
      assert (A5 : al d5); [|
      assert (Hw : Forall hok items) by
        (apply wfi_hok, append_meta_wfi; [apply append_meta_wfi; [constructor|exact Hsm]|apply mok_info_meta, Hsi]) ]
    end.
    + assert (A1 : al (if many then dtok (dwrite_path (dtok d1 (TStart BHeader)) (sec_path s)) (TEnd BHeader) else d1)).
      { destruct many; [|exact Hod]. apply Hend; [reflexivity|]. apply al_dwrite_path. apply Hstart; [reflexivity|exact Hod]. }
      apply al_dblock; [exact Hok|exact Hh|]. apply al_dwrite_meta; [exact Hok|exact Hsm|]. apply al_dwrite_path.
      apply Hend; [reflexivity|]. unfold dtext. apply al_dwrite. apply Hstart; [reflexivity|].
      destruct (i_descr (sec_info s)) as [descr|]; [|exact A1].
      apply al_ddoc; [exact Hok|apply al_good; [exact Hok|exact Hd]|]. unfold dtext. apply al_dwrite, al_dwrite.
      apply Hend; [reflexivity|]. apply al_dwrite. apply Hstart; [reflexivity|exact A1].
    + apply al_dblock; [exact Hok|exact Hf|]. eapply al_write_help_item_groups; [exact Hok|exact Hw|exact A5|exact E6].
  - pose proof (HF secs (Some _) Hs H0) as HX.
    match type of HX with match ?x with _ => _ end => replace x with (Some d) in HX by (symmetry; exact E) end.
    exact HX.
Qed.
End AllowedMan.

(* ------------------------------------------------------------------ the renderers return *)
Definition no_meta (b : block) : bool := match b with BMeta => false | _ => true end.
Definition no_termref (b : block) : bool := match b with BTermRef => false | _ => true end.

Lemma html_run_some full : forall d st, allowed no_meta d = true -> exists evs, html_run full st d = Some evs.
Proof.
  induction d as [|t d IH]; intros st H; cbn [html_run]; [eexists; reflexivity|].
  cbn [allowed forallb] in H. apply andb_prop in H. destruct H as [Ht Hd].
  assert (Hs : exists e st', html_step full st t = Some (e, st')).
  { destruct t as [sty s|b|b]; cbn [html_step].
    - destruct (Nat.ltb 0 (hs_skip st)); [eexists; eexists; reflexivity|].
      destruct (html_chunks full (split true s)); eexists; eexists; reflexivity.
    - destruct b; try discriminate Ht; eexists; eexists; reflexivity.
    - destruct b; try discriminate Ht; eexists; eexists; reflexivity. }
  destruct Hs as (e & st' & Es). rewrite Es. destruct (IH st' Hd) as [r Er]. rewrite Er. eexists; reflexivity.
Qed.

Lemma md_run_some full : forall d st, allowed no_meta d = true -> exists st', md_run full st d = Some st'.
Proof.
  induction d as [|t d IH]; intros st H; cbn [md_run]; [eexists; reflexivity|].
  cbn [allowed forallb] in H. apply andb_prop in H. destruct H as [Ht Hd].
  assert (Hs : exists st', md_step full st t (hd_error d) = Some st').
  { destruct t as [sty s|b|b]; cbn [md_step].
    - destruct (Nat.ltb 0 (ms_skip st)); [eexists; reflexivity|].
      destruct (md_chunks full (split true s) (md_style st (styles_of sty))); eexists; reflexivity.
    - destruct b; try discriminate Ht; eexists; reflexivity.
    - destruct b; try discriminate Ht; eexists; reflexivity. }
  destruct Hs as (st' & Es). rewrite Es. apply IH. exact Hd.
Qed.

Lemma roff_frags_some : forall d st, allowed no_termref d = true -> exists fs, roff_frags st d = Some fs.
Proof.
  induction d as [|t d IH]; intros st H; cbn [roff_frags]; [eexists; reflexivity|].
  cbn [allowed forallb] in H. apply andb_prop in H. destruct H as [Ht Hd].
  assert (Hs : exists e st', roff_step st t = Some (e, st')).
  { destruct t as [sty s|b|b]; cbn [roff_step].
    - destruct (rs_capturing st); eexists; eexists; reflexivity.
    - destruct b; try discriminate Ht; eexists; eexists; reflexivity.
    - destruct b; try discriminate Ht; eexists; eexists; reflexivity. }
  destruct Hs as (e & st' & Es). rewrite Es. destruct (IH st' Hd) as [r Er]. rewrite Er. eexists; reflexivity.
Qed.

Theorem render_html_returns env app o full : odok o ->
  exists d html, collect_html env app (ometa_of o) (oinfo_of o) = Some d /\ render_html full d = Some html.
Proof.
  intros Ho. destruct (proj2 (proj2 meta_of_ok) o Ho) as [Hm Hi].
  destruct (collect_html_total env app _ _ Hm Hi) as (d & E & _).
  assert (Ha : allowed no_meta d = true).
  { apply (al_collect_html no_meta) with (env := env) (app := app) (m := ometa_of o) (inf := oinfo_of o); auto.
    intros b Hb. destruct b; try reflexivity; discriminate Hb. }
  destruct (html_run_some full d hs_init Ha) as [evs Ev].
  exists d, (html_bytes evs). split; [exact E|]. unfold render_html, render_html_events. rewrite Ev. reflexivity.
Qed.

(* render_markdown renders the same document as render_html (OptionParser::render_markdown = collect_html(..)
   .render_markdown(true)); its only panic site is the `todo!()` of Block::Meta, which that document never holds *)
Theorem render_markdown_returns env app o full : odok o ->
  exists d md, collect_html env app (ometa_of o) (oinfo_of o) = Some d /\ render_markdown full d = Some md.
Proof.
  intros Ho. destruct (proj2 (proj2 meta_of_ok) o Ho) as [Hm Hi].
  destruct (collect_html_total env app _ _ Hm Hi) as (d & E & _).
  assert (Ha : allowed no_meta d = true).
  { apply (al_collect_html no_meta) with (env := env) (app := app) (m := ometa_of o) (inf := oinfo_of o); auto.
    intros b Hb. destruct b; try reflexivity; discriminate Hb. }
  destruct (md_run_some full d ms_init Ha) as [st Ev].
  exists d, (rev (ms_out st)). split; [exact E|]. unfold render_markdown. rewrite Ev. reflexivity.
Qed.

Theorem render_manpage_returns env app o : odok o ->
  exists d man, manpage_doc env app (ometa_of o) (oinfo_of o) = Some d /\ render_roff (manpage_th app) d = Some man.
Proof.
  intros Ho. destruct (proj2 (proj2 meta_of_ok) o Ho) as [Hm Hi].
  destruct (manpage_doc_total env app _ _ Hm Hi) as (d & E & _).
  assert (Ha : allowed no_termref d = true).
  { apply (al_manpage_doc no_termref) with (env := env) (app := app) (m := ometa_of o) (inf := oinfo_of o); auto.
    intros b Hb. destruct b; try reflexivity; discriminate Hb. }
  destruct (roff_frags_some d rs_init Ha) as [fs Ef].
  eexists d, _. split; [exact E|]. unfold render_roff, render_roff_frags. rewrite Ef. reflexivity.
Qed.
