(* TotalAll.v -- C04: every definition `okp`/`oko` accepts (Model/Wf.v) evaluates from every well-formed
   state to a value or an error: mutual induction over the parser, one lemma of TotalLaws.v per
   combinator, AdjTotal.v for adjacent groups. *)
From Coq Require Import Lia List Bool Arith.
From BpafModel Require Import Wf.
From BpafLemmas Require Import Tac EvalEq Find Reach LoopLaws Ledger NoLoss C05Lemmas Exact TotalLaws AdjLaws AdjTotal.
Import ListNotations.

Section WithEnv.
Variable env : bytes -> option bytes.

Theorem eval_total_all :
  (forall p, okp p = true -> total (eval env p)) /\
  (forall ps, okl ps = true -> Forall total (evals env ps)) /\
  (forall o, oko o = true -> totalr (run_sub env o)).
Proof.
  apply parser_plist_oparser_ind; intros; cbn [okp okl oko] in *; try discriminate;
    try (intros s; autorewrite with evaleq).
  - apply flag_total; assumption.
  - apply arg_total; assumption.
  - apply pos_total.
  - apply any_total.
  - destruct adjacent; [apply cmd_adjacent_total|apply cmd_total]; try apply run_sub_keepsGr; apply H; exact H0.
  - (* PCon *) destruct fields as [|q1 [|q2 t]].
    + rewrite eval_PCon_nil. intros _. exact I.
    + rewrite eval_PCon_one. specialize (H H0). rewrite evals_cons in H. inversion H; subst. auto.
    + rewrite eval_PCon_many. apply con_total; [apply evals_keepsG|apply H; exact H0].
  - (* PAdj: members that keep their scope, total themselves, a first item *)
    apply andb_prop in H0. destruct H0 as [H0 Hfi]. apply andb_prop in H0. destruct H0 as [Hm Hok].
    apply adjacent_total.
    + apply con_inscope. apply (proj1 (proj2 (memb_inscope env))). exact Hm.
    + apply con_reach. apply (proj1 (proj2 (eval_reach_all (fun _ => True) env)) fields (proj1 (proj2 kinds_all) fields)).
    + apply con_total; [apply evals_keepsG|apply H; exact Hok].
    + destruct (first_item (con_meta fields)); [discriminate|discriminate Hfi].
  - apply andb_prop in H1. destruct H1. apply or_total; auto.
  - apply optional_total; [apply eval_keepsG|auto].
  - apply many_total; [apply eval_keepsG|auto].
  - apply some_total; [apply eval_keepsG|auto].
  - apply many_total; [apply eval_keepsG|auto].
  - apply count_total; [apply eval_keepsG|auto].
  - apply last_total; [apply eval_keepsG|auto].
  - apply fallback_with_total; auto.
  - apply fallback_with_total; auto.
  - apply guard_total; auto.
  - apply parse_total; auto.
  - apply map_total; auto.
  - apply hide_total; auto.
  - apply H; auto.
  - apply H; auto.
  - intros _. exact I.
  - intros _. destruct r; exact I.
  - intros _. exact I.
  - apply H; auto.
  - rewrite evals_nil. constructor.
  - apply andb_prop in H1. destruct H1. rewrite evals_cons. constructor; auto.
  - apply andb_prop in H0. destruct H0 as [Hp Hi]. intros Hg. rewrite run_sub_eq.
    pose proof (H Hp s Hg) as N. destruct (eval env p s) as [r s1]. apply run_sub_body_total; assumption.
Qed.
End WithEnv.

(* ------------------------------------------------------------------ a whole run *)
Lemma pres_repeat n i : pres (repeat Unparsed n) i = Nat.ltb i n.
Proof.
  unfold pres. destruct (Nat.ltb_spec i n) as [H|H].
  - rewrite repeat_nth by exact H. reflexivity.
  - assert (E : nth_error (repeat Unparsed n) i = None) by (apply nth_error_None; rewrite repeat_length; lia).
    rewrite E. reflexivity.
Qed.

Lemma construct_G sf sa name argv : G (fst (construct sf sa name argv)).
Proof.
  split; [apply construct_bounded|].
  unfold construct. set (t := tokenize sf sa argv).
  pose proof (tok_go_marker sf sa argv false [] None (fun m E => ltac:(discriminate))) as Hmk.
  fold (tokenize sf sa argv) in Hmk. fold t in Hmk.
  destruct (t_marker t) as [ix|]; cbn [fst].
  - specialize (Hmk ix eq_refl). split.
    + unfold scope_ok; cbn. rewrite LoopLaws.update_nth_length, repeat_length. lia.
    + unfold exact; cbn [remaining ist sc_start sc_end]. rewrite count_present_cnt, Nat.sub_0_r.
      destruct (cnt_flip (pres (repeat Unparsed (length (t_items t))))
                         (pres (update_nth ix Parsed (repeat Unparsed (length (t_items t))))) 0 (length (t_items t)) ix) as [E _].
      * lia.
      * rewrite pres_repeat. apply Nat.ltb_lt. exact Hmk.
      * rewrite pres_update by (rewrite repeat_length; exact Hmk). rewrite Nat.eqb_refl. reflexivity.
      * intros i Hi. rewrite pres_update by (rewrite repeat_length; exact Hmk).
        destruct (Nat.eqb_spec i ix); [contradiction|reflexivity].
      * rewrite E. rewrite cnt_all; [reflexivity|]. intros i Hi. rewrite pres_repeat. apply Nat.ltb_lt. lia.
  - split.
    + unfold scope_ok; cbn. rewrite repeat_length. lia.
    + unfold exact; cbn [remaining ist sc_start sc_end]. rewrite count_present_cnt, Nat.sub_0_r.
      rewrite cnt_all; [reflexivity|]. intros i Hi. rewrite pres_repeat. apply Nat.ltb_lt. lia.
Qed.

Definition normal (o : outcome) : Prop := match o with OutPanic _ | OutFuel => False | _ => True end.

(* C04: every definition without `adjacent`, on every vector, in every environment *)
Theorem run_total feat env o name argv :
  oko o = true -> normal (run_inner feat env o name argv).
Proof.
  intros Hok. unfold run_inner, run_inner_state, initial_state.
  destruct (short_tables o) as [sf sa]. pose proof (construct_G sf sa name argv) as Hg.
  destruct (construct sf sa name argv) as [st amb]. cbn [fst] in Hg.
  destruct amb as [[ix sh]|]; [exact I|].
  pose proof (proj2 (proj2 (eval_total_all env)) o Hok st Hg) as N.
  destruct (run_sub env o st) as [r s']. cbn [fst] in *. destruct r as [v|[h|c|m]|w|]; try contradiction; exact I.
Qed.
Print Assumptions run_total.
