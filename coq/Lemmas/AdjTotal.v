(* AdjTotal.v -- C04 for adjacent groups: the retry loop of ParseAdjacent::eval terminates within the
   fuel the model gives it and none of its panic sites (scope arithmetic, `before - remaining`) is
   reached, for every group whose member parser keeps its scope and consumes only inside it
   (ev_inscope: flags, arguments, positionals, optional / guarded / parsed / mapped members, combined by
   construct!) and is itself total.
   The argument: every retry runs the member parser on the ORIGINAL ledger with a new right end; after
   the first retry the item at the right end is available and outside the scope, so the next end is at
   most the current one -- equal ends stop the loop, smaller ones shrink it. *)
From Coq Require Import Lia List Bool Arith.
From BpafModel Require Import Wf.
From BpafLemmas Require Import Tac EvalEq Find Reach Ledger NoLoss C05Lemmas AdjLaws LoopLaws Exact TotalLaws.
Import ListNotations.

Lemma live_pres s i : live s i <-> pres (ist s) i = true.
Proof.
  unfold live, present_at, ist_at, pres. destruct (nth_error (ist s) i) as [st|]; cbn; split; intros H; try discriminate.
  - inversion H. reflexivity.
  - rewrite H. reflexivity.
Qed.

Lemma pres_lt l i : pres l i = true -> i < length l.
Proof. unfold pres. destruct (nth_error l i) eqn:E; [intros _; apply nth_error_Some; congruence|discriminate]. Qed.

(* both_present_from on the two ledgers from `start` on, pointwise *)
Definition bp (a b : list istate) (i : nat) : bool := pres a i && pres b i.

Lemma bpf_spec a b : forall start ix this orig,
  this = skipn start a -> orig = skipn start b ->
  match both_present_from (ix + start) this orig with
  | Some off => ix + start <= off /\ bp a b (off - ix) = true /\ forall i, start <= i < off - ix -> bp a b i = false
  | None => forall i, start <= i -> bp a b i = false
  end.
Proof.
  intros start ix this. revert start ix. induction this as [|x this IH]; intros start ix orig Ht Ho; cbn [both_present_from].
  - intros i Hi. unfold bp, pres.
    assert (E : nth_error a i = None).
    { apply nth_error_None. assert (L : length (skipn start a) = 0) by (rewrite <- Ht; reflexivity).
      rewrite skipn_length in L. lia. }
    rewrite E. reflexivity.
  - destruct orig as [|y orig].
    + intros i Hi. unfold bp, pres.
      assert (E : nth_error b i = None).
      { apply nth_error_None. assert (L : length (skipn start b) = 0) by (rewrite <- Ho; reflexivity).
        rewrite skipn_length in L. lia. }
      rewrite E. apply andb_false_r.
    + assert (Ea : nth_error a start = Some x /\ this = skipn (S start) a).
      { rewrite (skipn_nth a start) in Ht. destruct (nth_error a start); inversion Ht; auto. }
      assert (Eb : nth_error b start = Some y /\ orig = skipn (S start) b).
      { rewrite (skipn_nth b start) in Ho. destruct (nth_error b start); inversion Ho; auto. }
      destruct Ea as [Ea Ta], Eb as [Eb Tb].
      assert (Hs : bp a b start = present x && present y) by (unfold bp, pres; rewrite Ea, Eb; reflexivity).
      destruct (present x && present y) eqn:Hc.
      * split; [lia|]. replace (ix + start - ix) with start by lia. split; [exact Hs|]. intros i Hi. lia.
      * specialize (IH (S start) ix orig Ta Tb). replace (ix + S start) with (S (ix + start)) in IH by lia.
        destruct (both_present_from (S (ix + start)) this orig) as [off|].
        -- destruct IH as (H1 & H2 & H3). split; [lia|]. split; [exact H2|].
           intros i Hi. destruct (Nat.eq_dec i start) as [->|Hne]; [exact Hs|]. apply H3. lia.
        -- intros i Hi. destruct (Nat.eq_dec i start) as [->|Hne]; [exact Hs|]. apply IH. lia.
Qed.

Lemma bpf_at a b start :
  match both_present_from start (skipn start a) (skipn start b) with
  | Some off => start <= off /\ bp a b off = true /\ forall i, start <= i < off -> bp a b i = false
  | None => forall i, start <= i -> bp a b i = false
  end.
Proof.
  pose proof (bpf_spec a b start 0 _ _ eq_refl eq_refl) as H. cbn [Nat.add] in H.
  destruct (both_present_from start (skipn start a) (skipn start b)) as [off|]; [|exact H].
  rewrite Nat.sub_0_r in H. exact H.
Qed.

Definition nostop (st : adj_step) : Prop := match st with AStop _ _ => False | _ => True end.

Lemma set_scope_G s a b s' : length (ist s) = length (items s) -> set_scope s a b = Some s' -> G s'.
Proof.
  intros Hl H. pose proof (set_scope_exact _ _ _ _ H) as He.
  apply set_scope_fields in H. destruct H as (Hi & Ht & _ & _ & _ & Ha & Hb & Hab & Hbl).
  split; [split|split; [split|exact He]].
  - congruence.
  - unfold exact in He. rewrite He, Hi, Ht. rewrite <- Hl. apply count_present_le.
  - lia.
  - rewrite Hb, Ht. exact Hbl.
Qed.

Lemma set_scope_some s a b : a <= b -> b <= length (ist s) -> exists s', set_scope s a b = Some s'.
Proof.
  intros H1 H2. unfold set_scope. apply Nat.leb_le in H1. apply Nat.leb_le in H2. rewrite H1, H2. eexists; reflexivity.
Qed.

Section Adj.
Variable ev : evaluator.
Hypothesis Hin : ev_inscope ev.
Hypothesis Hre : ev_reach (fun _ => True) ev.
Hypothesis Htot : total ev.

(* what one run of the member parser does to a well-formed state *)
Lemma ev_facts s : G s ->
  let s' := snd (ev s) in
  G s' /\ sc_start s' = sc_start s /\ sc_end s' = sc_end s /\ length (ist s') = length (ist s) /\
  items s' = items s /\
  (forall i, pres (ist s') i = true -> pres (ist s) i = true) /\
  (forall i, in_scope s i = false -> pres (ist s') i = pres (ist s) i) /\
  nf (fst (ev s)).
Proof.
  intros Hg s'. destruct (ev_reach_keepsG _ ev Hre s Hg) as [G' I']. destruct (Hin s) as ((S1 & S2) & _ & L & C).
  fold s' in G', I', S1, S2, L, C.
  assert (M : forall i, pres (ist s') i = true -> pres (ist s) i = true).
  { intros i H. apply live_pres. apply (reach_mono (fun _ => True) s s' i (Hre s)). apply live_pres. exact H. }
  split; [exact G'|]. split; [exact S1|]. split; [exact S2|]. split; [exact L|]. split; [exact I'|].
  split; [exact M|]. split.
  - intros i Hi. destruct (pres (ist s') i) eqn:E1; [symmetry; apply M, E1|].
    destruct (pres (ist s) i) eqn:E2; [|reflexivity].
    assert (X : in_scope s i = true).
    { apply C; [apply live_pres, E2|]. intros Hl. apply live_pres in Hl. congruence. }
    congruence.
  - apply Htot. exact Hg.
Qed.

Section Loop.
Variable orig : state.
Variable start before : nat.
Hypothesis Go : G orig.

Record LI (ta : state) : Prop := mkLI {
  li_ist : ist ta = ist orig;
  li_items : items ta = items orig;
  li_start : sc_start ta = start;
  li_G : G ta;
  li_cnt : cnt (pres (ist orig)) start (sc_end ta - start) <= before }.

Lemma LI_of_scope b ta : set_scope orig start b = Some ta ->
  cnt (pres (ist orig)) start (b - start) <= before -> LI ta.
Proof.
  intros H Hc. pose proof (set_scope_G orig start b ta (proj1 (proj1 Go)) H) as Gt.
  apply set_scope_fields in H. destruct H as (Hi & Ht & _ & _ & _ & Ha & Hb & _).
  constructor; auto. rewrite Hb. exact Hc.
Qed.

(* one iteration: either it ends (value or error), or it retries on a state that satisfies the loop
   invariant again, whose right end `off` holds an available item and is not the current end *)
Lemma iteration f ta best : LI ta ->
  (nostop (adj_inner ev orig before (S f) ta best) /\
   match adj_inner ev orig before (S f) ta best with AStop _ _ => False | _ => True end) \/
  exists off ta', off <> sc_end ta /\ start <= off /\ pres (ist orig) off = true /\
    (pres (ist orig) (sc_end ta) = true -> off <= sc_end ta) /\
    set_scope orig start off = Some ta' /\ LI ta' /\
    adj_inner ev orig before (S f) ta best = adj_inner ev orig before f ta' best.
Proof.
  intros [Hi Hit Hs Hg Hc]. rewrite adj_inner_S.
  destruct (ev_facts ta Hg) as (Gt & S1 & S2 & L & It & M & O & N).
  destruct (ev ta) as [r t1] eqn:Ev. cbn [fst snd] in *.
  destruct Hg as (Hb & [Hs1 Hs2] & Hex). destruct Go as (Hbo & [Ho1 Ho2] & Hexo).
  destruct r as [res|err|w|]; try contradiction.
  - (* Ok *)
    assert (Hret : exists fin, set_scope t1 (sc_start orig) (sc_end orig) = Some fin).
    { apply set_scope_some; [exact Ho1|]. rewrite L, Hi. exact Ho2. }
    unfold adjacent_scope. destruct (is_nil (items t1)); [destruct Hret as [fin ->]; left; split; exact I|].
    rewrite S1.
    assert (E1 : Nat.ltb (length (ist t1)) (sc_start ta) = false) by (apply Nat.ltb_ge; rewrite L; lia).
    assert (E2 : Nat.ltb (length (ist orig)) (sc_start ta) = false) by (apply Nat.ltb_ge; rewrite <- Hi; lia).
    rewrite E1, E2. cbn [orb]. rewrite Hs.
    pose proof (bpf_at (ist t1) (ist orig) start) as B.
    destruct (both_present_from start (skipn start (ist t1)) (skipn start (ist orig))) as [off|];
      [|destruct Hret as [fin ->]; left; split; exact I].
    destruct B as (B1 & B2 & B3). rewrite Nat.eqb_refl. cbn [andb]. rewrite S2.
    destruct (Nat.eqb_spec (sc_end ta) off) as [Eo|Eo]; [destruct Hret as [fin ->]; left; split; exact I|].
    right.
    assert (Po : pres (ist orig) off = true) by (unfold bp in B2; apply andb_prop in B2; apply B2).
    assert (Hlt : off < length (ist orig)) by (apply pres_lt, Po).
    destruct (set_scope_some orig start off B1 (Nat.lt_le_incl _ _ Hlt)) as [ta' Et].
    (* outside the scope of ta the two ledgers agree, so `both present` is `present in orig` there *)
    assert (Out : forall i, sc_end ta <= i -> bp (ist t1) (ist orig) i = pres (ist orig) i).
    { intros i Hi'. unfold bp. rewrite O, Hi; [apply andb_diag|].
      unfold in_scope. apply andb_false_iff. right. apply Nat.ltb_ge. exact Hi'. }
    exists off, ta'. split; [congruence|]. split; [exact B1|]. split; [exact Po|]. split; [|split; [exact Et|split]].
    + intros Pe. destruct (Nat.le_gt_cases off (sc_end ta)) as [Hle|Hgt]; [exact Hle|].
      exfalso. assert (X : bp (ist t1) (ist orig) (sc_end ta) = false) by (apply B3; lia).
      rewrite Out in X by lia. congruence.
    + apply (LI_of_scope off ta' Et).
      destruct (Nat.le_gt_cases off (sc_end ta)) as [Hle|Hgt].
      * etransitivity; [apply cnt_mono_right|exact Hc]. lia.
      * replace (off - start) with ((sc_end ta - start) + (off - sc_end ta)) by lia.
        rewrite cnt_split. replace (start + (sc_end ta - start)) with (sc_end ta) by lia.
        rewrite (cnt_zero _ (sc_end ta)); [lia|].
        intros i Hi'. rewrite <- Out by lia. apply B3. lia.
    + rewrite Et. reflexivity.
  - (* Err: `before - remaining` does not underflow *)
    left.
    assert (Hr : remaining t1 <= before).
    { destruct Gt as (_ & _ & Ex). unfold exact in Ex. rewrite Ex, count_present_cnt, S1, S2, Hs.
      etransitivity; [|exact Hc]. rewrite <- Hi. apply cnt_le. intros i _. apply M. }
    apply Nat.ltb_ge in Hr. rewrite Hr. cbn. destruct (Nat.ltb (b_consumed best) (before - remaining t1)); split; exact I.
Qed.

(* after a retry the right end holds an available item: the ends can only shrink *)
Lemma shrinking : forall f ta best, LI ta -> pres (ist orig) (sc_end ta) = true ->
  sc_end ta - start < f -> nostop (adj_inner ev orig before f ta best).
Proof.
  induction f as [|f IH]; intros ta best Hli Pe Hf; [lia|].
  destruct (iteration f ta best Hli) as [[H _]|(off & ta' & Hne & Hso & Po & Hle & Et & Hli' & Eq)]; [exact H|].
  rewrite Eq. specialize (Hle Pe).
  assert (Se : sc_end ta' = off) by (apply set_scope_fields in Et; apply Et).
  apply IH; [exact Hli'|rewrite Se; exact Po|rewrite Se; lia].
Qed.

Lemma loop_total ta best : LI ta -> nostop (adj_inner ev orig before (loop_fuel orig) ta best).
Proof.
  intros Hli. unfold loop_fuel.
  destruct (iteration (S (length (items orig))) ta best Hli) as [[H _]|(off & ta' & Hne & Hso & Po & Hle & Et & Hli' & Eq)];
    [exact H|].
  rewrite Eq.
  assert (Se : sc_end ta' = off) by (apply set_scope_fields in Et; apply Et).
  apply shrinking; [exact Hli'|rewrite Se; exact Po|].
  rewrite Se. apply pres_lt in Po. destruct Go as ((Hl & _) & _). rewrite Hl in Po. lia.
Qed.
End Loop.

(* ------------------------------------------------------------------ one start offset *)
Lemma adj_try_total orig width start best :
  G orig -> start <= sc_end orig -> start + width <= length (items orig) ->
  nostop (adj_try ev orig width start best).
Proof.
  intros Go Hse Hsw. pose proof Go as ((Hl & Hr) & (Ho1 & Ho2) & Hexo).
  unfold adj_try.
  destruct (set_scope_some orig start (length (items orig))) as [ta0 E0]; [lia|rewrite Hl; lia|]. rewrite E0.
  pose proof (set_scope_fields _ _ _ _ E0) as (I0 & T0 & _ & _ & _ & A0 & B0 & _).
  destruct (set_scope_some ta0 start (start + width)) as [scratch Es]; [lia|rewrite T0, Hl; lia|]. rewrite Es.
  assert (L0 : length (ist ta0) = length (items ta0)) by congruence.
  pose proof (set_scope_G ta0 _ _ scratch L0 Es) as Gs.
  destruct (Nat.eqb (remaining scratch) 0); [exact I|].
  pose proof (Htot scratch Gs) as N. destruct (ev scratch) as [r0 scratch']. cbn [fst] in N.
  assert (Hmain : nostop
    (if Nat.eqb (remaining scratch) (remaining scratch') then ANext best
     else match set_scope ta0 start (sc_end orig) with
          | None => AStop (RPanic P_set_scope) orig
          | Some this_arg1 =>
            match (if Nat.ltb (remaining this_arg1) (sc_end orig - start)
                   then let '(a, b) := adjacently_available_from this_arg1 start in
                        set_scope this_arg1 a b
                   else Some this_arg1) with
            | None => AStop (RPanic P_set_scope) orig
            | Some this_arg2 =>
              adj_inner ev orig (remaining this_arg1) (loop_fuel orig) this_arg2 best
            end
          end)).
  { destruct (Nat.eqb (remaining scratch) (remaining scratch')); [exact I|].
    destruct (set_scope_some ta0 start (sc_end orig)) as [ta1 E1]; [exact Hse|rewrite T0; exact Ho2|]. rewrite E1.
    pose proof (set_scope_G ta0 _ _ ta1 L0 E1) as G1.
    pose proof (set_scope_fields _ _ _ _ E1) as (I1 & T1 & _ & _ & _ & A1 & B1 & _).
    assert (R1 : remaining ta1 = cnt (pres (ist orig)) start (sc_end orig - start)).
    { destruct G1 as (_ & _ & Ex). unfold exact in Ex. rewrite Ex, count_present_cnt, A1, B1, T1, T0. reflexivity. }
    destruct (Nat.ltb (remaining ta1) (sc_end orig - start)) eqn:Hlt.
    - unfold adjacently_available_from.
      set (t := length (take_while present (skipn start (ist ta1)))).
      assert (Ht : start + t <= length (ist ta1)).
      { pose proof (take_while_length_le present (skipn start (ist ta1))) as H. fold t in H. rewrite skipn_length in H.
        rewrite T1, T0 in *. lia. }
      destruct (set_scope_some ta1 start (start + t)) as [ta2 E2]; [lia|exact Ht|]. rewrite E2.
      assert (L1 : length (ist ta1) = length (items ta1)) by congruence.
      pose proof (set_scope_G ta1 _ _ ta2 L1 E2) as G2.
      pose proof (set_scope_fields _ _ _ _ E2) as (I2 & T2 & _ & _ & _ & A2 & B2 & _).
      apply loop_total with (start := start); [exact Go|].
      constructor; [congruence|congruence|exact A2|exact G2|].
      rewrite B2, R1. replace (start + t - start) with t by lia.
      apply Nat.ltb_lt in Hlt. rewrite R1 in Hlt.
      destruct (Nat.le_gt_cases t (sc_end orig - start)) as [Hle|Hgt]; [apply cnt_mono_right, Hle|].
      exfalso. rewrite cnt_all in Hlt; [lia|].
      intros i Hi. unfold pres.
      assert (Hn : i < length (ist orig)) by (rewrite T1, T0 in Ht; lia).
      destruct (nth_error (ist orig) i) as [st|] eqn:En; [|apply nth_error_None in En; lia].
      apply (take_while_all present (skipn start (ist ta1)) (i - start) st); [fold t; lia|].
      rewrite nth_error_skipn. replace (start + (i - start)) with i by lia. rewrite T1, T0. exact En.
    - apply loop_total with (start := start); [exact Go|].
      constructor; [congruence|congruence|exact A1|exact G1|]. rewrite B1, R1. reflexivity. }
  destruct r0; try contradiction; exact Hmain.
Qed.

(* ------------------------------------------------------------------ all start offsets *)
Lemma adj_starts_ok s width start : In start (adj_starts s width) ->
  start <= sc_end s /\ start + width <= length (items s).
Proof.
  unfold adj_starts. rewrite filter_In, in_seq. intros [Hr Hc].
  destruct (present_at s start) as [[|]|]; try discriminate. apply Nat.leb_le in Hc. lia.
Qed.

Lemma adj_outer_total orig width : G orig -> forall starts best,
  (forall st, In st starts -> st <= sc_end orig /\ st + width <= length (items orig)) ->
  reach (fun _ => True) orig (b_args best) ->
  nf (fst (adj_outer ev orig width starts best)).
Proof.
  intros Go. induction starts as [|st more IH]; intros best Hs Rb; cbn [adj_outer].
  - (* the caller's scope fits the best attempt's ledger: it has the length of the caller's *)
    destruct (reach_G _ _ _ Rb Go) as [[[Lb _] _] Ib]. destruct Go as [[Lo _] [[S1 S2] _]].
    destruct (set_scope_some (b_args best) (sc_start orig) (sc_end orig)) as [fin E]; [exact S1|congruence|].
    rewrite E. exact I.
  - destruct (Hs st (or_introl eq_refl)) as [H1 H2].
    pose proof (adj_try_total orig width st best Go H1 H2) as N.
    pose proof (adj_try_reach (fun _ => True) ev orig orig width st best Hre (reach_refl _ _) Rb) as R.
    destruct (adj_try ev orig width st best) as [v s|best'|r s]; [exact I| |contradiction].
    apply IH; [intros st' Hi; apply Hs; right; exact Hi|exact R].
Qed.

Theorem adjacent_total fi : fi <> None -> total (eval_adjacent ev fi).
Proof.
  intros Hf s Hg. unfold eval_adjacent. destruct fi as [it|]; [|congruence].
  apply adj_outer_total; [exact Hg| |apply reach_refl]. intros st Hi. apply (adj_starts_ok s _ st Hi).
Qed.
End Adj.

(* ------------------------------------------------------------------ a group is itself a scope-keeping member *)
(* Whatever a group's member parser does inside the windows the group opens, the group as a whole keeps its caller's
   scope, the item list and the length of the ledger, and consumes only inside the caller's scope -- on success, on
   failure (the scope is handed back, fix: commit) and on the never-taken panic exits (they hand back the caller's
   state).  So a group can be a member of another group: nested groups are covered by everything proved for members. *)
Section AdjInscope.
Variable ev : evaluator.
Hypothesis Hin : ev_inscope ev.
Hypothesis Hre : ev_reach (fun _ => True) ev.

Section Orig.
Variable orig : state.

Record W (ta : state) : Prop := mkW {
  w_items : items ta = items orig;
  w_len : length (ist ta) = length (ist orig);
  w_diff : forall i, live orig i -> ~ live ta i -> in_scope orig i = true;
  w_in : forall i, in_scope ta i = true -> live ta i -> in_scope orig i = true }.

Lemma live_dec s i : {live s i} + {~ live s i}.
Proof. unfold live. destruct (present_at s i) as [[|]|]; [left; reflexivity|right; discriminate|right; discriminate]. Qed.

(* a window on the caller's ledger whose available items lie in the caller's scope *)
Lemma W_window ta : ist ta = ist orig -> items ta = items orig ->
  (forall i, in_scope ta i = true -> live orig i -> in_scope orig i = true) -> W ta.
Proof.
  intros Hi Ht Hw.
  assert (L : forall i, live ta i <-> live orig i) by (intros i; unfold live, present_at, ist_at; rewrite Hi; tauto).
  split; [exact Ht|rewrite Hi; reflexivity| |].
  - intros i Ho Hn. exfalso. apply Hn. apply L. exact Ho.
  - intros i Hs Hl. apply Hw; [exact Hs|apply L; exact Hl].
Qed.

Lemma W_set_scope a b ta : set_scope orig a b = Some ta ->
  (forall i, a <= i < b -> live orig i -> in_scope orig i = true) -> W ta.
Proof.
  intros E Hw. apply set_scope_fields in E. destruct E as (Hi & Ht & _ & _ & _ & Ha & Hb & _).
  apply W_window; [exact Ht|exact Hi|]. intros i Hs Hl. apply Hw; [|exact Hl].
  unfold in_scope in Hs. rewrite Ha, Hb in Hs. apply andb_prop in Hs. destruct Hs as [H1 H2].
  apply Nat.leb_le in H1. apply Nat.ltb_lt in H2. lia.
Qed.

Lemma W_ev ta : W ta -> W (snd (ev ta)).
Proof.
  intros [Wi Wl Wd Wn]. destruct (Hin ta) as ((S1 & S2) & I1 & L1 & C1).
  pose proof (fun i => reach_mono (fun _ => True) ta (snd (ev ta)) i (Hre ta)) as M.
  split; [congruence|congruence| |].
  - intros i Ho Hn. destruct (live_dec ta i) as [Hl|Hl]; [|apply Wd; assumption].
    apply Wn; [apply C1; assumption|exact Hl].
  - intros i Hs Hl. apply Wn; [|apply M; exact Hl]. unfold in_scope in *. rewrite S1, S2 in Hs. exact Hs.
Qed.

Lemma W_final ta fin : W ta -> set_scope ta (sc_start orig) (sc_end orig) = Some fin -> inrel orig fin.
Proof.
  intros [Wi Wl Wd Wn] E. apply set_scope_fields in E. destruct E as (Hi & Ht & _ & _ & _ & Ha & Hb & _).
  assert (L : forall i, live fin i <-> live ta i) by (intros i; unfold live, present_at, ist_at; rewrite Ht; tauto).
  split; [split; assumption|]. split; [congruence|]. split; [congruence|].
  intros i Ho Hn. apply Wd; [exact Ho|]. intros Hl. apply Hn. apply L. exact Hl.
Qed.

Definition stepW (st : adj_step) : Prop :=
  match st with AReturn _ fin => inrel orig fin | ANext b => W (b_args b) | AStop _ _ => True end.

Lemma adj_inner_W before : forall fuel ta best, W ta -> W (b_args best) -> stepW (adj_inner ev orig before fuel ta best).
Proof.
  induction fuel as [|f IH]; intros ta best Wt Wb; [exact I|].
  unfold adj_inner; fold adj_inner. pose proof (W_ev ta Wt) as W1.
  destruct (ev ta) as [r t1]. cbn [snd] in W1. destruct r; try exact I.
  - destruct (adjacent_scope t1 orig) as [| |a b] eqn:A; try exact I.
    + destruct (set_scope t1 (sc_start orig) (sc_end orig)) as [fin|] eqn:E; [|exact I]. eapply W_final; eauto.
    + destruct (set_scope orig a b) as [ta'|] eqn:E; [|exact I].
      apply IH; [|exact Wb]. apply (W_set_scope a b ta' E).
      (* up to the first item both ledgers show, what the caller still has was consumed by this attempt: inside the scope *)
      intros i Hi Ho. unfold adjacent_scope in A. destruct (is_nil (items t1)); [discriminate|].
      destruct (_ || _); [discriminate|].
      pose proof (bpf_at (ist t1) (ist orig) (sc_start t1)) as B.
      destruct (both_present_from (sc_start t1) (skipn (sc_start t1) (ist t1)) (skipn (sc_start t1) (ist orig))) as [off|]; [|discriminate].
      destruct (_ && _); [discriminate|]. inversion A; subst a b. destruct B as (_ & _ & B3).
      specialize (B3 i Hi). unfold bp in B3. apply live_pres in Ho. rewrite Ho, andb_true_r in B3.
      apply (w_diff t1 W1 i); [apply live_pres; exact Ho|]. intros Hl. apply live_pres in Hl. congruence.
  - destruct (Nat.ltb before (remaining t1)); [exact I|].
    destruct (Nat.ltb (b_consumed best) (before - remaining t1)); [exact W1|exact Wb].
Qed.

Lemma cnt_full f a n : (forall i, a <= i < a + n -> f i = true) -> cnt f a n = n.
Proof. intros H. apply cnt_all. exact H. Qed.

Lemma adj_try_W width start best : sc_start orig <= start -> start <= sc_end orig -> W (b_args best) ->
  stepW (adj_try ev orig width start best).
Proof.
  intros H1 H2 Wb. unfold adj_try.
  destruct (set_scope orig start (length (items orig))) as [t0|] eqn:E0; [|exact I].
  apply set_scope_fields in E0. destruct E0 as (I0 & T0 & _).
  destruct (set_scope t0 start (start + width)) as [sc|]; [|exact I].
  destruct (Nat.eqb (remaining sc) 0); [exact Wb|].
  destruct (ev sc) as [r0 sc'].
  assert (Hgo : stepW (if Nat.eqb (remaining sc) (remaining sc') then ANext best
                   else match set_scope t0 start (sc_end orig) with
                        | None => AStop (RPanic P_set_scope) orig
                        | Some this_arg1 =>
                          match (if Nat.ltb (remaining this_arg1) (sc_end orig - start)
                                 then let '(a, b) := adjacently_available_from this_arg1 start in set_scope this_arg1 a b
                                 else Some this_arg1) with
                          | None => AStop (RPanic P_set_scope) orig
                          | Some this_arg2 => adj_inner ev orig (remaining this_arg1) (loop_fuel orig) this_arg2 best
                          end
                        end)).
  { destruct (Nat.eqb (remaining sc) (remaining sc')); [exact Wb|].
    destruct (set_scope t0 start (sc_end orig)) as [t1|] eqn:E2; [|exact I].
    pose proof (set_scope_exact _ _ _ _ E2) as R1'. unfold exact in R1'.
    apply set_scope_fields in E2. destruct E2 as (I2 & T2 & _ & _ & _ & A2 & B2 & _).
    assert (W1 : W t1).
    { apply W_window; [congruence|congruence|]. intros i Hs _. unfold in_scope in *. rewrite A2, B2 in Hs.
      apply andb_prop in Hs. destruct Hs as [X1 X2]. apply Nat.leb_le in X1. apply andb_true_intro. split; [apply Nat.leb_le; lia|exact X2]. }
    destruct (Nat.ltb (remaining t1) (sc_end orig - start)) eqn:Lt.
    - destruct (adjacently_available_from t1 start) as [a b] eqn:Av.
      destruct (set_scope t1 a b) as [t2|] eqn:E3; [|exact I].
      apply adj_inner_W; [|exact Wb].
      apply set_scope_fields in E3. destruct E3 as (I3 & T3 & _ & _ & _ & A3 & B3 & _).
      destruct (adjacently_available_live t1 start) as [Fa Fl]. rewrite Av in Fa, Fl. cbn [fst snd] in Fa, Fl.
      (* the run of available items from `start` ends before the end of the caller's scope: something there is taken *)
      assert (Hb : b <= sc_end orig).
      { destruct (Nat.le_gt_cases b (sc_end orig)) as [Hle|Hgt]; [exact Hle|exfalso].
        apply Nat.ltb_lt in Lt. rewrite R1', A2, B2, count_present_cnt in Lt.
        rewrite cnt_full in Lt; [lia|]. intros i Hi. apply live_pres. apply Fl. lia. }
      apply W_window; [congruence|congruence|]. intros i Hs _. unfold in_scope in *. rewrite A3, B3 in Hs.
      apply andb_prop in Hs. destruct Hs as [X1 X2]. apply Nat.leb_le in X1. apply Nat.ltb_lt in X2.
      apply andb_true_intro. split; [apply Nat.leb_le; lia|apply Nat.ltb_lt; lia].
    - apply adj_inner_W; [exact W1|exact Wb]. }
  destruct r0; try exact I; exact Hgo.
Qed.

Lemma W_refl : W orig.
Proof. apply W_window; auto. Qed.

Lemma adj_outer_inrel width : forall starts best,
  (forall st, In st starts -> sc_start orig <= st /\ st <= sc_end orig) -> W (b_args best) ->
  inrel orig (snd (adj_outer ev orig width starts best)).
Proof.
  induction starts as [|st more IH]; intros best Hs Wb; cbn [adj_outer].
  - destruct (set_scope (b_args best) (sc_start orig) (sc_end orig)) as [fin|] eqn:E; cbn [snd]; [|apply inrel_refl].
    eapply W_final; eauto.
  - destruct (Hs st (or_introl eq_refl)) as [H1 H2].
    pose proof (adj_try_W width st best H1 H2 Wb) as N.
    destruct (adj_try ev orig width st best) as [v fin|b'|r sx]; cbn [snd stepW] in *; [exact N| |apply inrel_refl].
    apply IH; [intros x Hx; apply Hs; right; exact Hx|exact N].
Qed.
End Orig.

Theorem adjacent_inscope fi : ev_inscope (eval_adjacent ev fi).
Proof.
  intros s. unfold eval_adjacent. destruct fi as [it|]; [|apply inrel_refl].
  apply adj_outer_inrel; [|apply W_refl].
  intros st Hi. unfold adj_starts in Hi. apply filter_In in Hi. destruct Hi as [Hr _]. apply in_seq in Hr. lia.
Qed.
End AdjInscope.

(* ------------------------------------------------------------------ the members the theorem covers *)
Section Members.
Variable env : bytes -> option bytes.

Lemma memb_inscope :
  (forall p, memb p = true -> ev_inscope (eval env p)) /\
  (forall ps, membl ps = true -> Forall ev_inscope (evals env ps)) /\
  (forall o : oparser, True).
Proof.
  apply parser_plist_oparser_ind; intros; cbn [memb membl] in *; try discriminate; try exact I.
  - intros s. rewrite eval_PFlag. apply eval_flag_inscope.
  - intros s. rewrite eval_PArg. apply eval_arg_inscope.
  - intros s. rewrite eval_PPos. apply eval_pos_inscope.
  - intros s. rewrite eval_PAny. apply eval_any_inscope.
  - (* PCon *) destruct fields as [|q1 [|q2 t]].
    + intros s. rewrite eval_PCon_nil. apply inrel_current.
    + intros s. rewrite eval_PCon_one. specialize (H H0). rewrite evals_cons in H. inversion H; subst. auto.
    + intros s. rewrite eval_PCon_many. apply con_inscope. apply H. exact H0.
  - (* PAdj: a nested group *) intros s. rewrite eval_PAdj. apply adjacent_inscope.
    + apply con_inscope. apply H. exact H0.
    + apply con_reach. apply (proj1 (proj2 (eval_reach_all (fun _ => True) env)) fields (proj1 (proj2 kinds_all) fields)).
  - apply andb_prop in H1. destruct H1. intros s. rewrite eval_POr. apply or_inscope; auto.
  - intros s. rewrite eval_POptional. apply optional_inscope. auto.
  - intros s. rewrite eval_PMany. apply many_inscope. auto.
  - intros s. rewrite eval_PSome. apply some_inscope. auto.
  - intros s. rewrite eval_PCollect. apply many_inscope. auto.
  - intros s. rewrite eval_PCount. apply count_inscope. auto.
  - intros s. rewrite eval_PLast. apply last_inscope. auto.
  - intros s. rewrite eval_PFallback. apply fallback_with_inscope. auto.
  - intros s. rewrite eval_PFallbackWith. apply fallback_with_inscope. auto.
  - intros s. rewrite eval_PGuard. apply guard_inscope. auto.
  - intros s. rewrite eval_PParse. apply parse_inscope. auto.
  - intros s. rewrite eval_PMap. apply map_inscope. auto.
  - intros s. rewrite eval_PHide. apply hide_inscope. auto.
  - intros s. rewrite eval_PUsage. apply H. exact H0.
  - intros s. rewrite eval_PGroupHelp. apply H. exact H0.
  - intros s. rewrite eval_PPure. apply inrel_current.
  - intros s. rewrite eval_PPureWith. destruct r; apply inrel_refl.
  - intros s. rewrite eval_PFail. apply inrel_current.
  - intros s. rewrite eval_PBoxed. apply H. exact H0.
  - rewrite evals_nil. constructor.
  - apply andb_prop in H1. destruct H1. rewrite evals_cons. constructor; auto.
Qed.
End Members.

(* ------------------------------------------------------------------ adjacent commands *)
Section AdjCmd.
Variable env : bytes -> option bytes.

Lemma G_set_path s p : G s -> G (set_path s p).
Proof. intros H. exact H. Qed.

Lemma cmd_adjacent_total name aliases shorts help m_sub i_sub run :
  keepsGr run -> totalr run -> total (cmd_body name aliases shorts help true m_sub i_sub run).
Proof.
  intros Hk Ht s Hg. unfold cmd_body.
  pose proof (take_cmd_any_reach (fun _ => True) ((name :: aliases) ++ map utf8_encode_char shorts) s (fun _ _ => I)) as R.
  pose proof (take_cmd_any_hit (fun _ => True) ((name :: aliases) ++ map utf8_encode_char shorts) (fun _ _ => I) s) as Hh.
  destruct (take_cmd_any _ s) as [hit s1]. cbn [snd] in R. destruct hit; [|exact I].
  destruct (Hh s1 Hg eq_refl) as (cur & Ec & Hc1 & Hc2). rewrite Ec.
  destruct (reach_G _ s s1 R Hg) as [G1 _]. pose proof G1 as ((L1 & _) & _ & _).
  destruct (set_scope_some s1 cur (sc_end s1)) as [s2 E2]; [lia|exact Hc2|]. rewrite E2.
  pose proof (set_scope_G s1 _ _ s2 L1 E2) as G2.
  pose proof (set_scope_fields _ _ _ _ E2) as (I2 & T2 & _ & _ & _ & A2 & B2 & _).
  set (s3 := set_path s2 (path s2 ++ [name])).
  assert (G3 : G s3) by exact G2.
  assert (L3 : length (ist s3) = length (items s3)) by (cbn; congruence).
  unfold adjacently_available_from.
  set (t := length (take_while present (skipn (S (sc_start s3)) (ist s3)))).
  assert (Hb : S (sc_start s3) + t <= length (ist s3)).
  { pose proof (take_while_length_le present (skipn (S (sc_start s3)) (ist s3))) as H. fold t in H. rewrite skipn_length in H.
    cbn [sc_start ist s3 set_path] in *. rewrite A2, T2 in *. lia. }
  destruct (set_scope_some s3 (S (sc_start s3)) (S (sc_start s3) + t)) as [s4 E4]; [lia|exact Hb|]. rewrite E4.
  pose proof (set_scope_G s3 _ _ s4 L3 E4) as G4.
  pose proof (set_scope_fields _ _ _ _ E4) as (I4 & T4 & _).
  pose proof (Ht s4 G4) as N4. destruct (Hk s4 G4) as [G5 I5].
  destruct (run s4) as [r5 s5]. cbn [fst snd] in *.
  assert (L5 : length (ist s5) = length (ist s3)).
  { destruct G5 as ((L & _) & _). rewrite L, I5, I4. symmetry. exact L3. }
  assert (Sc3 : sc_start s3 <= sc_end s3 /\ sc_end s3 <= length (ist s3)) by (destruct G3 as (_ & S & _); exact S).
  destruct r5 as [v|f|w|]; try contradiction.
  - destruct (set_scope_some s5 (sc_start s3) (sc_end s3)) as [s6 E6]; [apply Sc3|rewrite L5; apply Sc3|]. rewrite E6. exact I.
  - unfold adjacent_scope. destruct (is_nil (items s5)); [exact I|].
    destruct G5 as (B5 & (S51 & S52) & X5).
    assert (E1 : Nat.ltb (length (ist s5)) (sc_start s5) = false) by (apply Nat.ltb_ge; lia).
    assert (E2' : Nat.ltb (length (ist s3)) (sc_start s5) = false) by (apply Nat.ltb_ge; rewrite <- L5; lia).
    rewrite E1, E2'. cbn [orb].
    pose proof (bpf_at (ist s5) (ist s3) (sc_start s5)) as B.
    destruct (both_present_from (sc_start s5) (skipn (sc_start s5) (ist s5)) (skipn (sc_start s5) (ist s3))) as [off|]; [|exact I].
    destruct B as (Bq1 & Bq2 & _).
    destruct (Nat.eqb (sc_start s5) (sc_start s5) && Nat.eqb (sc_end s5) off); [exact I|].
    assert (Po : off < length (ist s3)) by (unfold bp in Bq2; apply andb_prop in Bq2; apply pres_lt, Bq2).
    destruct (set_scope_some s3 (sc_start s5) off Bq1 (Nat.lt_le_incl _ _ Po)) as [o1 Eo]. rewrite Eo.
    pose proof (set_scope_G s3 _ _ o1 L3 Eo) as Go1.
    pose proof (set_scope_fields _ _ _ _ Eo) as (Io & To & _).
    pose proof (Ht o1 Go1) as No. destruct (Hk o1 Go1) as [Go2 Io2].
    destruct (run o1) as [r o2]. cbn [fst snd] in *.
    destruct r as [res|f2|w|]; try contradiction; try exact I.
    assert (Lo : length (ist o2) = length (ist s3)).
    { destruct Go2 as ((L & _) & _). rewrite L, Io2, Io. symmetry. exact L3. }
    destruct (set_scope_some o2 (sc_start s3) (sc_end s3)) as [o3 E3]; [apply Sc3|rewrite Lo; apply Sc3|]. rewrite E3. exact I.
Qed.
End AdjCmd.
