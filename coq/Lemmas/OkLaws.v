(* OkLaws.v -- exactly-once with the parser's OWN consumers only (help/version lookups excluded),
   and its corollaries: a help/version item is never swallowed by a successful run (C10), an
   alternative contributes one branch (C07). *)
From BpafLemmas Require Import Tac EvalEq Find Reach Ledger NoLoss C05Lemmas OkReach.

Lemma kinds_ok_true :
  (forall p, kinds_ok (fun _ => True) p) /\ (forall ps, lkinds_ok (fun _ => True) ps) /\
  (forall o, okinds_ok (fun _ => True) o).
Proof. apply parser_plist_oparser_ind; intros; cbn; auto. Qed.

(* all items dead after a successful run_subparser on a full-scope state *)
Lemma run_ok_all_dead env o s v s' :
  lenwf s -> full_scope s -> run_sub env o s = (SOk v, s') ->
  lenwf s' /\ forall i, i < length (ist s) -> dead s' i.
Proof.
  intros Hw Hfull Hrun.
  destruct (eval_good_all (fun _ => True) env) as (_ & _ & Hgood).
  destruct (Hgood o (proj2 (proj2 kinds_ok_true) o)) as [Hreach Hnl].
  pose proof (Hreach s) as R. rewrite Hrun in R. cbn in R.
  destruct (Hnl _ _ _ Hw Hrun) as [N Hfirst].
  assert (Hw' : lenwf s') by (eapply reach_lenwf; eauto).
  split; [exact Hw'|].
  destruct (reach_ext _ _ _ R) as [l E].
  intros i Hi.
  destruct (lt_live_or_dead s' i) as [Hl|Hd]; [rewrite (ext_len _ _ _ _ E); exact Hi| |exact Hd].
  exfalso. eapply (no_live s' Hw' Hfirst i); [|exact Hl].
  apply N; [|exact Hl]. apply full_scope_in; assumption.
Qed.

Theorem exactly_once_own :
  forall K env o s v s',
    opkinds_ok K o -> lenwf s -> full_scope s ->
    run_sub env o s = (SOk v, s') ->
    exists l,
      log s' = l ++ log s /\
      NoDup (map fst l) /\
      (forall i, live s i -> In i (map fst l)) /\
      (forall i k, In (i, k) l ->
         K k /\ live s i /\ forall a, nth_error (items s) i = Some a -> accepts k a = true).
Proof.
  intros K env o s v s' Hk Hw Hfull Hrun.
  destruct (run_ok_all_dead env o s v s' Hw Hfull Hrun) as [Hw' Hdead].
  destruct (eval_ok_all K env) as (_ & _ & Hok).
  pose proof (Hok o Hk s v s' Hrun) as R.
  destruct (reach_ext _ _ _ R) as [l E].
  exists l. split; [apply (ext_log _ _ _ _ E)|].
  split; [apply (ext_nodup _ _ _ _ E)|].
  split.
  - intros i Hl. apply (ext_complete _ _ _ _ E); [exact Hl|]. apply Hdead. eapply live_lt; eauto.
  - intros i k Hin. destruct (ext_entries _ _ _ _ E i k Hin) as (H1 & H2 & _ & H4). auto.
Qed.

(* an item none of the parser's own consumers accepts -- for instance `--help` when no item of the
   parser is called help -- makes run_subparser fail: it never yields a value *)
Theorem unclaimable_item :
  forall env o s i a,
    opkinds_ok (fun k => accepts k a = false) o -> lenwf s -> full_scope s ->
    nth_error (items s) i = Some a -> live s i ->
    forall v s', run_sub env o s <> (SOk v, s').
Proof.
  intros env o s i a Hk Hw Hfull Ha Hl v s' Hrun.
  destruct (exactly_once_own _ env o s v s' Hk Hw Hfull Hrun) as (l & _ & _ & Hcov & Hent).
  specialize (Hcov i Hl). apply in_map_iff in Hcov. destruct Hcov as [[i' k] [Hfst Hin]].
  cbn in Hfst. subst i'. destruct (Hent i k Hin) as (Hrej & _ & Hacc).
  specialize (Hacc a Ha). cbn in Hrej. congruence.
Qed.

Theorem unclaimable_item_run_inner :
  forall feat env o name argv i a st amb,
    opkinds_ok (fun k => accepts k a = false) o ->
    initial_state o name argv = (st, amb) ->
    nth_error (items st) i = Some a -> live st i ->
    forall v, run_inner feat env o name argv <> OutOk v.
Proof.
  intros feat env o name argv i a st amb Hk Hinit Ha Hl v H.
  unfold run_inner, run_inner_state in H. rewrite Hinit in H.
  unfold initial_state in Hinit. destruct (short_tables o) as [sf sa].
  pose proof (construct_ok sf sa name argv) as Hok. rewrite Hinit in Hok. cbn in Hok.
  destruct Hok as [Hw Hfull _].
  assert (Hrun : exists s', run_sub env o st = (SOk v, s')).
  { destruct amb as [[ix sh]|].
    - cbn in H. discriminate.
    - destruct (run_sub env o st) as [r s']. destruct r as [v0|[h|c|m]|w|]; cbn in H; inv H. eauto. }
  destruct Hrun as [s' Hrun].
  eapply unclaimable_item; eauto.
Qed.

(* alternatives are exclusive: if the line holds an item only branch `a` can claim and one only
   branch `b` can claim, `a or b` cannot yield a value *)
Theorem or_exclusive :
  forall env a b inf s i j ti tj,
    pkinds_ok (fun k => accepts k tj = false) a ->
    pkinds_ok (fun k => accepts k ti = false) b ->
    lenwf s -> full_scope s ->
    nth_error (items s) i = Some ti -> live s i ->
    nth_error (items s) j = Some tj -> live s j ->
    forall v s', run_sub env (Options (POr a b) inf) s <> (SOk v, s').
Proof.
  intros env a b inf s i j ti tj Ha Hb Hw Hfull Hti Hli Htj Hlj v s' Hrun.
  destruct (run_ok_all_dead env _ s v s' Hw Hfull Hrun) as [Hw' Hdead].
  rewrite run_sub_eq in Hrun. destruct (eval env (POr a b) s) as [r s1] eqn:He.
  apply run_sub_body_nl in Hrun. destruct Hrun as (-> & -> & _).
  rewrite eval_POr in He.
  destruct (eval_ok_all (fun k => accepts k tj = false) env) as (Oa & _ & _).
  destruct (eval_ok_all (fun k => accepts k ti = false) env) as (Ob & _ & _).
  destruct (or_ok2 _ _ _ _ _ _ _ (Oa a Ha) (Ob b Hb) He) as [R|R].
  - (* only a-consumers ran: j cannot have been claimed *)
    destruct (reach_ext _ _ _ R) as [l E].
    assert (Hin : In j (map fst l)).
    { apply (ext_complete _ _ _ _ E); [exact Hlj|]. apply Hdead. eapply live_lt; eauto. }
    apply in_map_iff in Hin. destruct Hin as [[j' k] [Hf Hin]]. cbn in Hf. subst j'.
    destruct (ext_entries _ _ _ _ E j k Hin) as (Hrej & _ & _ & Hacc).
    specialize (Hacc tj Htj). cbn in Hrej. congruence.
  - destruct (reach_ext _ _ _ R) as [l E].
    assert (Hin : In i (map fst l)).
    { apply (ext_complete _ _ _ _ E); [exact Hli|]. apply Hdead. eapply live_lt; eauto. }
    apply in_map_iff in Hin. destruct Hin as [[i' k] [Hf Hin]]. cbn in Hf. subst i'.
    destruct (ext_entries _ _ _ _ E i k Hin) as (Hrej & _ & _ & Hacc).
    specialize (Hacc ti Hti). cbn in Hrej. congruence.
Qed.
