(* CompInert.v -- the completion bookkeeping of a build with the `autocomplete` feature is inert when no
   completion was requested: with `comp = None` the evaluator of Model/CompEval.v computes what the evaluator of
   Model/Eval.v computes on the parser with the completer wrappers erased, for every parser, every state and every
   environment, and leaves `comp = None` (property C20; also the base of C14: a run without a request is not
   touched by completers).  Mutual induction over the parser; every combinator body is shown inert in its
   sub-evaluators first. *)
From BpafLemmas Require Import Tac EvalEq.
From BpafModel Require Import CompEval.

Definition inert (cev : xevaluator) (ev : evaluator) : Prop :=
  forall s, cev (s, None) = (fst (ev s), (snd (ev s), None)).
Definition run_inert (crun : xst -> sres * xst) (run : state -> sres * state) : Prop :=
  forall s, crun (s, None) = (fst (run s), (snd (run s), None)).

(* ------------------------------------------------------------------ plumbing on `None` *)
Lemma kswap_None l : kswap None l = (None, l).
Proof. reflexivity. Qed.
Lemma touching_last_None s : touching_last s None = false.
Proof. reflexivity. Qed.

Section Inert.
Variable env : bytes -> option bytes.
Variable docgen : bool.

Lemma push_flag_None n s : push_flag docgen n s None = None.
Proof. unfold push_flag. destruct (shortlong_of n) as [sl|]; [|reflexivity]. destruct (sl_parts sl). reflexivity. Qed.
Lemma push_argument_None n mv s : push_argument docgen n mv s None = None.
Proof. unfold push_argument. destruct (shortlong_of n) as [sl|]; [|reflexivity]. destruct (sl_parts sl). reflexivity. Qed.

(* ------------------------------------------------------------------ leaves *)
Lemma flag_inert n p a : inert (c_eval_flag env docgen n p a) (eval_flag env n p a).
Proof.
  intros s. unfold c_eval_flag. destruct (eval_flag env n p a s) as [r s']. cbn [fst snd].
  rewrite !push_flag_None. unfold touching_last. cbn [is_some andb].
  destruct (take_flag n s); [reflexivity|]. destruct (env_first env (n_env n)); reflexivity.
Qed.
Lemma arg_inert n mv ty adj : inert (c_eval_arg env docgen n mv ty adj) (eval_arg env n mv ty adj).
Proof.
  intros s. unfold c_eval_arg. destruct (eval_arg env n mv ty adj s) as [r s']. cbn [fst snd].
  rewrite !push_argument_None. unfold touching_last. cbn [is_some andb]. destruct (take_arg n adj s); reflexivity.
Qed.
Lemma pos_inert mv ty pos help : inert (c_eval_pos docgen mv ty pos help) (eval_pos mv ty pos help).
Proof.
  intros s. unfold c_eval_pos. destruct (eval_pos mv ty pos help s) as [r s']. cbn [fst snd].
  destruct (take_positional_word s) as [[[[ix st] w] s1]|]; [|reflexivity].
  unfold touching_last. cbn [is_some andb]. destruct pos, st; reflexivity.
Qed.
Lemma lift_inert ev : inert (c_lift ev) ev.
Proof. intros s. unfold c_lift. cbn [fst snd]. destruct (ev s). reflexivity. Qed.

(* ------------------------------------------------------------------ repetition *)
Lemma parse_option_inert cev ev len s c :
  inert cev ev ->
  c_parse_option cev len (s, None) c =
  (fst (fst (parse_option ev len s c)), snd (fst (parse_option ev len s c)), (snd (parse_option ev len s c), None)).
Proof.
  intros H. unfold c_parse_option, parse_option. rewrite H. destruct (ev s) as [r s']. cbn [fst snd].
  destruct r; try reflexivity.
  - destruct (lt_len (remaining s') len); reflexivity.
  - destruct (c || _ || _); reflexivity.
Qed.

Lemma many_loop_inert cev ev c fuel len s acc :
  inert cev ev ->
  c_many_loop cev c fuel len (s, None) acc =
  (fst (fst (many_loop ev c fuel len s acc)), snd (fst (many_loop ev c fuel len s acc)),
   (snd (many_loop ev c fuel len s acc), None)).
Proof.
  intros H. revert len s acc. induction fuel as [|f IH]; intros len s acc; cbn [c_many_loop many_loop]; [reflexivity|].
  rewrite (parse_option_inert cev ev len s c H).
  destruct (parse_option ev len s c) as [[o l] s']. cbn [fst snd]. destruct o; try reflexivity. apply IH.
Qed.

Lemma count_loop_inert cev ev fuel len s cur n last :
  inert cev ev ->
  c_count_loop cev fuel len (s, None) cur n last =
  (fst (count_loop ev fuel len s cur n last), (snd (count_loop ev fuel len s cur n last), None)).
Proof.
  intros H. revert len s cur n last. induction fuel as [|f IH]; intros len s cur n last;
    cbn [c_count_loop count_loop]; [reflexivity|].
  rewrite (parse_option_inert cev ev len s false H).
  destruct (parse_option ev len s false) as [[o l] s']. cbn [fst snd]. destruct o; try reflexivity.
  destruct (Nat.eqb cur (remaining s')); [reflexivity|]. apply IH.
Qed.

Lemma optional_inert cev ev c : inert cev ev -> inert (c_optional_body cev c) (optional_body ev c).
Proof.
  intros H s. unfold c_optional_body, optional_body. rewrite (parse_option_inert cev ev None s c H).
  destruct (parse_option ev None s c) as [[o l] s']. cbn [fst snd]. destruct o; reflexivity.
Qed.
Lemma many_inert cev ev c : inert cev ev -> inert (c_many_body cev c) (many_body ev c).
Proof.
  intros H s. unfold c_many_body, many_body. cbn [fst]. rewrite (many_loop_inert cev ev c _ None s [] H).
  destruct (many_loop ev c (loop_fuel s) None s []) as [[r acc] s']. cbn [fst snd]. destruct r; reflexivity.
Qed.
Lemma some_inert cev ev m c : inert cev ev -> inert (c_some_body cev m c) (some_body ev m c).
Proof.
  intros H s. unfold c_some_body, some_body. cbn [fst]. rewrite (many_loop_inert cev ev c _ None s [] H).
  destruct (many_loop ev c (loop_fuel s) None s []) as [[r acc] s']. cbn [fst snd]. destruct r; try reflexivity.
  destruct acc; reflexivity.
Qed.
Lemma count_inert cev ev : inert cev ev -> inert (c_count_body cev) (count_body ev).
Proof.
  intros H s. unfold c_count_body, count_body. cbn [fst]. rewrite (count_loop_inert cev ev _ None s _ _ _ H).
  destruct (count_loop ev (loop_fuel s) None s (remaining s) 0 None) as [[[r n] l] s']. cbn [fst snd].
  destruct r; reflexivity.
Qed.
Lemma last_inert cev ev : inert cev ev -> inert (c_last_body cev) (last_body ev).
Proof.
  intros H s. unfold c_last_body, last_body. cbn [fst]. rewrite (count_loop_inert cev ev _ None s _ _ _ H).
  destruct (count_loop ev (loop_fuel s) None s (remaining s) 0 None) as [[[r n] l] s']. cbn [fst snd].
  destruct r; try reflexivity. destruct l; [reflexivity|]. apply H.
Qed.

(* ------------------------------------------------------------------ wrappers *)
Lemma fallback_with_inert cev ev fb : inert cev ev -> inert (c_fallback_with_body cev fb) (fallback_with_body ev fb).
Proof.
  intros H s. unfold c_fallback_with_body, fallback_with_body. rewrite H. destruct (ev s) as [r s']. cbn [fst snd].
  destruct r; try reflexivity. destruct (can_catch m); [destruct fb|]; reflexivity.
Qed.
Lemma guard_inert cev ev c m : inert cev ev -> inert (c_guard_body cev c m) (guard_body ev c m).
Proof.
  intros H s. unfold c_guard_body, guard_body. rewrite H. destruct (ev s) as [r s']. cbn [fst snd].
  destruct r; try reflexivity. destruct (c v); reflexivity.
Qed.
Lemma parse_inert cev ev f : inert cev ev -> inert (c_parse_body cev f) (parse_body ev f).
Proof.
  intros H s. unfold c_parse_body, parse_body. rewrite H. destruct (ev s) as [r s']. cbn [fst snd].
  destruct r; try reflexivity. destruct (f v); reflexivity.
Qed.
Lemma map_inert cev ev f : inert cev ev -> inert (c_map_body cev f) (map_body ev f).
Proof.
  intros H s. unfold c_map_body, map_body. rewrite H. destruct (ev s) as [r s']. cbn [fst snd].
  destruct r; reflexivity.
Qed.
Lemma hide_inert cev ev : inert cev ev -> inert (c_hide_body cev) (hide_body ev).
Proof.
  intros H s. unfold c_hide_body, hide_body. rewrite kswap_None, H. destruct (ev s) as [r s']. cbn [fst snd].
  destruct r; try reflexivity. destruct m; reflexivity.
Qed.
Lemma group_help_inert cev ev d : inert cev ev -> inert (c_group_help_body docgen cev d) ev.
Proof.
  intros H s. unfold c_group_help_body. rewrite kswap_None, H. destruct (ev s) as [r s']. cbn [fst snd].
  rewrite kswap_None. reflexivity.
Qed.
(* the completer wrappers do nothing without a request *)
Lemma complete_inert cev ev f g : inert cev ev -> inert (c_complete_body cev f g) ev.
Proof.
  intros H s. unfold c_complete_body. rewrite kswap_None, H. destruct (ev s) as [r s']. cbn [fst snd].
  rewrite kswap_None. reflexivity.
Qed.
Lemma comp_shell_inert cev ev op : inert cev ev -> inert (c_comp_shell_body cev op) ev.
Proof.
  intros H s. unfold c_comp_shell_body. rewrite kswap_None, H. destruct (ev s) as [r s']. cbn [fst snd].
  rewrite kswap_None. reflexivity.
Qed.

(* ------------------------------------------------------------------ alternatives *)
Lemma or_comps_None stash sa sb pick : or_comps None stash sa None sb None pick = None.
Proof. unfold or_comps. destruct (Nat.compare (depth sa) (depth sb)); try reflexivity. destruct pick as [[|]|]; reflexivity. Qed.

Lemma or_inert ca a cb b : inert ca a -> inert cb b -> inert (c_or_body ca cb) (or_body a b).
Proof.
  intros Ha Hb s. unfold c_or_body, or_body. rewrite kswap_None, Ha. destruct (a s) as [ra sa]. cbn [fst snd].
  destruct ra; try reflexivity.
  - rewrite Hb. destruct (b s) as [rb sb]. cbn [fst snd]. destruct rb; try reflexivity;
      destruct (this_or_that _ _ s sa sb) as [[[|]|e] s']; rewrite or_comps_None; reflexivity.
  - rewrite Hb. destruct (b s) as [rb sb]. cbn [fst snd]. destruct rb; try reflexivity;
      destruct (this_or_that _ _ s sa sb) as [[[|]|e] s']; rewrite or_comps_None; reflexivity.
Qed.

(* ------------------------------------------------------------------ construct! *)
Lemma con_go_inert ff cevs evs s first acc err :
  Forall2 inert cevs evs ->
  c_con_go ff cevs (s, None) first acc err = (fst (con_go ff evs s first acc err), (snd (con_go ff evs s first acc err), None)).
Proof.
  intros H. revert s first acc err. induction H as [|cev ev cl l Hce Hl IH]; intros s first acc err;
    cbn [c_con_go con_go].
  - destruct err; reflexivity.
  - rewrite Hce. destruct (ev s) as [r s']. cbn [fst snd]. destruct r; try reflexivity; try apply IH.
    destruct (ff && first); [reflexivity|apply IH].
Qed.
Lemma con_inert ff cevs evs : Forall2 inert cevs evs -> inert (c_con_body ff cevs) (con_body ff evs).
Proof.
  intros H s. unfold c_con_body, con_body, con_reset. rewrite (con_go_inert ff cevs evs s true [] None H).
  destruct (con_go ff evs s true [] None) as [r s']. reflexivity.
Qed.

(* ------------------------------------------------------------------ adjacent groups *)
Definition lift_best (b : adj_best) : c_adj_best := mkCBest (b_consumed b) (b_args b, None) (b_err b).
Definition lift_step (st : adj_step) : c_adj_step :=
  match st with
  | AReturn v s => CAReturn v (s, None)
  | ANext b => CANext (lift_best b)
  | AStop r s => CAStop r (s, None)
  end.

Lemma adj_inner_inert cev ev orig before fuel ta best :
  inert cev ev ->
  c_adj_inner cev (orig, None) before fuel (ta, None) (lift_best best) = lift_step (adj_inner ev orig before fuel ta best).
Proof.
  intros H. revert ta best. induction fuel as [|f IH]; intros ta best.
  - rewrite adj_inner_O. reflexivity.
  - rewrite adj_inner_S. cbn [c_adj_inner]. rewrite H. destruct (ev ta) as [r ta1]. cbn [fst snd].
    destruct r; try reflexivity.
    + destruct (adjacent_scope ta1 orig) as [| |a b]; try reflexivity.
      * destruct (set_scope ta1 (sc_start orig) (sc_end orig)); reflexivity.
      * destruct (set_scope orig a b); [apply IH|reflexivity].
    + destruct (Nat.ltb before (remaining ta1)); [reflexivity|].
      cbn [lift_best cb_consumed]. destruct (Nat.ltb (b_consumed best) (before - remaining ta1)); reflexivity.
Qed.

Lemma adj_try_inert cev ev orig width start best :
  inert cev ev ->
  c_adj_try cev (orig, None) width start (lift_best best) = lift_step (adj_try ev orig width start best).
Proof.
  intros H. unfold c_adj_try, adj_try. cbn [fst snd].
  destruct (set_scope orig start (length (items orig))) as [ta0|]; [|reflexivity].
  destruct (set_scope ta0 start (start + width)) as [scratch|]; [|reflexivity].
  destruct (Nat.eqb (remaining scratch) 0); [reflexivity|].
  rewrite H. destruct (ev scratch) as [r0 scratch']. cbn [fst snd].
  destruct r0; try reflexivity;
    (destruct (Nat.eqb (remaining scratch) (remaining scratch')); [reflexivity|];
     destruct (set_scope ta0 start (sc_end orig)) as [ta1|]; [|reflexivity];
     destruct (if Nat.ltb (remaining ta1) (sc_end orig - start) then _ else _); [|reflexivity];
     apply adj_inner_inert; exact H).
Qed.

Lemma adj_outer_inert cev ev orig width starts best :
  inert cev ev ->
  c_adj_outer cev (orig, None) width starts (lift_best best) =
  (fst (adj_outer ev orig width starts best), (snd (adj_outer ev orig width starts best), None)).
Proof.
  intros H. revert best. induction starts as [|st more IH]; intros best; cbn [c_adj_outer adj_outer].
  - cbn [lift_best cb_args cb_err fst snd]. destruct (set_scope (b_args best) (sc_start orig) (sc_end orig)); reflexivity.
  - rewrite (adj_try_inert cev ev orig width st best H).
    destruct (adj_try ev orig width st best); cbn [lift_step]; try reflexivity. apply IH.
Qed.

Lemma adjacent_inert cev ev fi : inert cev ev -> inert (c_eval_adjacent cev fi) (eval_adjacent ev fi).
Proof.
  intros H s. unfold c_eval_adjacent, eval_adjacent. destruct fi as [it|]; [|reflexivity]. cbn [fst].
  exact (adj_outer_inert cev ev s (item_width it) (adj_starts s (item_width it)) (mkBest 0 s (missing_msg it s)) H).
Qed.

(* ------------------------------------------------------------------ commands and command levels *)
Lemma cmd_inert name aliases shorts help adjacent m i crun run :
  run_inert crun run ->
  inert (c_cmd_body docgen name aliases shorts help adjacent m i crun) (cmd_body name aliases shorts help adjacent m i run).
Proof.
  intros H s. unfold c_cmd_body, cmd_body. destruct (take_cmd_any _ s) as [hit s1]. destruct hit; [|reflexivity].
  rewrite touching_last_None. destruct (current s1) as [cur|]; [|reflexivity].
  destruct (set_scope s1 cur (sc_end s1)) as [s2|]; [|reflexivity].
  destruct adjacent.
  - destruct (adjacently_available_from _ _) as [a b]. destruct (set_scope _ a b) as [s4|]; [|reflexivity].
    rewrite H. destruct (run s4) as [r s5]. cbn [fst snd]. destruct r; try reflexivity.
    + destruct (set_scope s5 _ _); reflexivity.
    + destruct (adjacent_scope s5 _) as [| |na nb]; try reflexivity.
      destruct (set_scope _ na nb) as [o1|]; [|reflexivity].
      rewrite H. destruct (run o1) as [r2 o2]. cbn [fst snd]. destruct r2; try reflexivity.
      destruct (set_scope o2 _ _); reflexivity.
  - rewrite H. destruct (run _) as [r s4]. cbn [fst snd]. destruct r; reflexivity.
Qed.

Lemma run_sub_body_inert inf m s r s1 :
  c_run_sub_body env inf m (s, None) (r, (s1, None)) =
  (fst (run_sub_body env inf m s (r, s1)), (snd (run_sub_body env inf m s (r, s1)), None)).
Proof. unfold c_run_sub_body. cbn [fst]. destruct (run_sub_body env inf m s (r, s1)). reflexivity. Qed.

(* ------------------------------------------------------------------ unfolding equations of the interpreter *)
Lemma ceval_XCon_many q1 q2 t x :
  ceval env docgen (XCon (XCons q1 (XCons q2 t))) x = c_con_body false (cevals env docgen (XCons q1 (XCons q2 t))) x.
Proof. reflexivity. Qed.
Lemma cevals_cons q t : cevals env docgen (XCons q t) = ceval env docgen q :: cevals env docgen t.
Proof. reflexivity. Qed.
Lemma crun_sub_eq q inf x :
  crun_sub env docgen (XOptions q inf) x = c_run_sub_body env inf (meta_of (erase q)) x (ceval env docgen q x).
Proof. reflexivity. Qed.

End Inert.

Scheme cparser_mut := Induction for cparser Sort Prop
  with cplist_mut := Induction for cplist Sort Prop
  with coparser_mut := Induction for coparser Sort Prop.
Combined Scheme cparser_cplist_coparser_ind from cparser_mut, cplist_mut, coparser_mut.

Theorem ceval_inert_all env docgen :
  (forall p, inert (ceval env docgen p) (eval env (erase p))) /\
  (forall ps, Forall2 inert (cevals env docgen ps) (evals env (erase_l ps))) /\
  (forall o, run_inert (crun_sub env docgen o) (run_sub env (erase_o o))).
Proof.
  apply cparser_cplist_coparser_ind; intros; cbn [erase erase_l erase_o].
  - apply flag_inert.
  - apply arg_inert.
  - apply pos_inert.
  - intros s. apply (lift_inert (eval_any metavar help check anywhere)).
  - intros s. rewrite eval_PCmd. apply cmd_inert. exact H.
  - destruct fields as [|q1 [|q2 t]]; cbn [erase_l].
    + intros s. reflexivity.
    + intros s. rewrite eval_PCon_one. cbn [erase_l] in H. inversion H; subst. match goal with Hi : inert _ _ |- _ => exact (Hi s) end.
    + intros s. rewrite eval_PCon_many, ceval_XCon_many. apply con_inert. exact H.
  - intros s. rewrite eval_PAdj. apply (adjacent_inert _ _ _ (con_inert true _ _ H)).
  - intros s. rewrite eval_POr. apply or_inert; assumption.
  - intros s. rewrite eval_POptional. apply optional_inert; assumption.
  - intros s. rewrite eval_PMany. apply many_inert; assumption.
  - intros s. rewrite eval_PSome. apply some_inert; assumption.
  - intros s. rewrite eval_PCollect. apply many_inert; assumption.
  - intros s. rewrite eval_PCount. apply count_inert; assumption.
  - intros s. rewrite eval_PLast. apply last_inert; assumption.
  - intros s. rewrite eval_PFallback. apply fallback_with_inert; assumption.
  - intros s. rewrite eval_PFallbackWith. apply fallback_with_inert; assumption.
  - intros s. rewrite eval_PGuard. apply guard_inert; assumption.
  - intros s. rewrite eval_PParse. apply parse_inert; assumption.
  - intros s. rewrite eval_PMap. apply map_inert; assumption.
  - intros s. rewrite eval_PHide. apply hide_inert; assumption.
  - intros s. rewrite eval_PUsage. apply H.
  - intros s. rewrite eval_PGroupHelp. apply group_help_inert; assumption.
  - intros s. reflexivity.
  - intros s. rewrite eval_PPureWith. destruct r; reflexivity.
  - intros s. reflexivity.
  - intros s. rewrite eval_PBoxed. apply H.
  - apply complete_inert; assumption.
  - apply comp_shell_inert; assumption.
  - constructor.
  - rewrite cevals_cons, evals_cons. constructor; assumption.
  - intros s. rewrite crun_sub_eq, run_sub_eq, H. destruct (eval env (erase p) s) as [r s1]. cbn [fst snd].
    apply run_sub_body_inert.
Qed.

Corollary ceval_inert env docgen p s :
  ceval env docgen p (s, None) = (fst (eval env (erase p) s), (snd (eval env (erase p) s), None)).
Proof. apply (proj1 (ceval_inert_all env docgen)). Qed.
Corollary crun_sub_inert env docgen o s :
  crun_sub env docgen o (s, None) = (fst (run_sub env (erase_o o) s), (snd (run_sub env (erase_o o) s), None)).
Proof. apply (proj2 (proj2 (ceval_inert_all env docgen))). Qed.

(* a line without completion markers is scanned into itself *)
Lemma scan_markers_none sf sa argv :
  (forall w, In w argv -> marker_rev w = None) -> scan_markers sf sa argv None = (argv, None).
Proof.
  induction argv as [|w t IH]; intros H; cbn [scan_markers]; [reflexivity|].
  destruct (beqb w dashdash); [reflexivity|].
  rewrite (H w (or_introl eq_refl)). destruct (word_ambiguous sf sa w); [reflexivity|].
  rewrite IH; [reflexivity|]. intros v Hv. apply H. right. exact Hv.
Qed.

(* run_inner of a build with `autocomplete`, no completion requested (no `set_comp`, no marker on the line)
   = run_inner of a build without it *)
Theorem c_run_inner_no_request feat env o name argv :
  (forall w, In w argv -> marker_rev w = None) ->
  c_run_inner feat env o name argv None = run_inner feat env (erase_o o) name argv.
Proof.
  intros Hm. unfold c_run_inner, c_run_inner_state, c_initial_state, run_inner, run_inner_state, initial_state.
  destruct (short_tables (erase_o o)) as [sf sa]. rewrite (scan_markers_none sf sa argv Hm).
  destruct (construct sf sa name argv) as [st amb]. cbn [snd].
  destruct amb as [[ix short]|]; [reflexivity|].
  rewrite crun_sub_inert. reflexivity.
Qed.
