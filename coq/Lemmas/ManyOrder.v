(* ManyOrder.v -- C07, "the collected values follow command-line order": one step of a repeated choice.
   For a choice between two required flags, evaluated on a state where the leftmost available occurrence of the first
   stands at i and of the second at j (i <> j: the names are different), the choice takes the item at min i j and
   yields the value of the flag that owns it; the other fork's item stays available (marked as a conflict), so the next
   round of `many` / `some` meets it again.  The rounds of a repetition therefore consume the occurrences from left to
   right, whichever flag they belong to. *)
From Coq Require Import Lia List Bool Arith.
From BpafLemmas Require Import Tac EvalEq Find PickLaws.
Import ListNotations.

(* two ledgers that differ from a common one by one consumed item each *)
Lemma pick_winner_go_two : forall l ix i j x y,
  nth_error l i = Some x -> present x = true -> nth_error l j = Some y -> present y = true -> i <> j ->
  pick_winner_go ix (update_nth i Parsed l) (update_nth j Parsed l) = (Nat.ltb i j, Some (ix + Nat.min i j)).
Proof.
  induction l as [|h t IH]; intros ix i j x y Hi Px Hj Py Hne; [destruct i; discriminate|].
  destruct i as [|i], j as [|j]; cbn [update_nth pick_winner_go]; try congruence.
  - cbn in Hj, Hi. inversion Hi; subst h.
    assert (E : parsed x = false) by (unfold parsed; rewrite Px; reflexivity).
    cbn [parsed present negb]. rewrite E. cbn [xorb]. rewrite Nat.add_0_r. reflexivity.
  - cbn in Hj. inversion Hj; subst h.
    assert (E : parsed y = false) by (unfold parsed; rewrite Py; reflexivity).
    cbn [parsed present negb]. rewrite E. cbn [xorb]. rewrite Nat.add_0_r. reflexivity.
  - cbn in Hi, Hj. rewrite xorb_nilpotent.
    rewrite (IH (S ix) i j x y Hi Px Hj Py ltac:(congruence)).
    replace (S ix + Nat.min i j) with (ix + Nat.min (S i) (S j)) by (cbn; lia). reflexivity.
Qed.

Section Step.
Variable env : bytes -> option bytes.

(* a required flag: the leftmost available occurrence, or `missing` *)
Lemma req_flag_eval n v s : n_env n = [] ->
  eval_flag env n v None s =
  match find_item s (fun _ a => matches_arg n false a) with
  | Some ix => (ROk v, sremove (KFlag n) ix s)
  | None => match flag_item n with Some it => (RErr (missing_msg it s), s) | None => (RPanic P_no_key, s) end
  end.
Proof.
  intros He. unfold eval_flag, take_flag. destruct (find_item s _); [reflexivity|]. rewrite He. reflexivity.
Qed.

Theorem choice_takes_leftmost na va nb vb s i j x y :
  n_env na = [] -> n_env nb = [] ->
  find_item s (fun _ a => matches_arg na false a) = Some i ->
  find_item s (fun _ a => matches_arg nb false a) = Some j ->
  i <> j -> ist_at s i = Some x -> ist_at s j = Some y -> 1 <= remaining s ->
  or_body (eval_flag env na va None) (eval_flag env nb vb None) s =
  if Nat.ltb i j
  then (ROk va, save_conflicts (sremove (KFlag na) i s) (sremove (KFlag nb) j s) i)
  else (ROk vb, save_conflicts (sremove (KFlag nb) j s) (sremove (KFlag na) i s) j).
Proof.
  intros Ea Eb Fa Fb Hne Hx Hy Hr. unfold or_body. rewrite (req_flag_eval na va s Ea), (req_flag_eval nb vb s Eb), Fa, Fb.
  apply find_item_some in Fa. destruct Fa as (Ia & a & sx & _ & Hsx & Px & _).
  apply find_item_some in Fb. destruct Fb as (Ib & b & sy & _ & Hsy & Py & _).
  assert (sx = x) by congruence. assert (sy = y) by congruence. subst sx sy.
  assert (Ra : sremove (KFlag na) i s =
               mkState (items s) (update_nth i Parsed (ist s)) (pred (remaining s)) (Some i) (path s) (sc_start s) (sc_end s)
                       ((i, KFlag na) :: log s)).
  { unfold sremove. rewrite Ia, Hx, Px. reflexivity. }
  assert (Rb : sremove (KFlag nb) j s =
               mkState (items s) (update_nth j Parsed (ist s)) (pred (remaining s)) (Some j) (path s) (sc_start s) (sc_end s)
                       ((j, KFlag nb) :: log s)).
  { unfold sremove. rewrite Ib, Hy, Py. reflexivity. }
  rewrite both_succeed by (rewrite Ra, Rb; reflexivity).
  assert (Hrem : Nat.eqb (remaining s) (remaining (sremove (KFlag na) i s)) = false).
  { rewrite Ra. cbn [remaining]. apply Nat.eqb_neq. lia. }
  rewrite Hrem. cbn [andb].
  assert (Pw : pick_winner (sremove (KFlag na) i s) (sremove (KFlag nb) j s) = (Nat.ltb i j, Some (Nat.min i j))).
  { unfold pick_winner. rewrite Ra, Rb. cbn [ist]. unfold ist_at in Hx, Hy.
    rewrite (pick_winner_go_two (ist s) 0 i j x y Hx Px Hy Py Hne). reflexivity. }
  rewrite Pw. destruct (Nat.ltb i j) eqn:L.
  - apply Nat.ltb_lt in L. rewrite Nat.min_l by lia. reflexivity.
  - apply Nat.ltb_ge in L. rewrite Nat.min_r by lia. reflexivity.
Qed.

(* only one of the two is on the line: it is taken *)
Theorem choice_takes_the_one_present na va nb vb s i :
  n_env na = [] -> n_env nb = [] -> flag_item nb <> None ->
  find_item s (fun _ a => matches_arg na false a) = Some i ->
  find_item s (fun _ a => matches_arg nb false a) = None ->
  or_body (eval_flag env na va None) (eval_flag env nb vb None) s = (ROk va, sremove (KFlag na) i s).
Proof.
  intros Ea Eb Hk Fa Fb. unfold or_body. rewrite (req_flag_eval na va s Ea), (req_flag_eval nb vb s Eb), Fa, Fb.
  destruct (flag_item nb) as [it|]; [|congruence].
  assert (D : depth (sremove (KFlag na) i s) = depth s).
  { unfold sremove. destruct (in_scope s i && _); reflexivity. }
  unfold this_or_that. rewrite D, Nat.compare_refl. reflexivity.
Qed.
End Step.
