(* MessageLaws.v -- what the rendered error messages carry (Model/Message.v = src/error.rs Message::render):
   the conversion / guard / user text is the tail of the message (C06), messages are not empty unless the
   user supplied an empty text (C11), and rendering returns whenever the positions the message records are
   items of the line (C04). *)
From Coq Require Import Lia List Bool NArith.
From BpafModel Require Import Message.
Import ListNotations.

(* the text of a document, styles and blocks forgotten *)
Definition doc_text (d : doc) : bytes := flat_map (fun t => match t with TText _ s => s | _ => [] end) d.

Lemma doc_text_app a b : doc_text (a ++ b) = doc_text a ++ doc_text b.
Proof. unfold doc_text. apply flat_map_app. Qed.

Lemma doc_text_dwrite d sty s : doc_text (dwrite d sty s) = doc_text d ++ s.
Proof.
  unfold dwrite. destruct (rev d) as [|[sty' s'|b|b] r] eqn:E; try (rewrite doc_text_app; cbn; rewrite app_nil_r; reflexivity).
  destruct (style_eqb sty sty'); [|rewrite doc_text_app; cbn; rewrite app_nil_r; reflexivity].
  assert (Hd : d = rev r ++ [TText sty' s']) by (rewrite <- (rev_involutive d), E; reflexivity).
  cbn [rev]. rewrite Hd, !doc_text_app. cbn. rewrite !app_nil_r, app_assoc. reflexivity.
Qed.
Lemma doc_text_dtok d t : (forall sty s, t <> TText sty s) -> doc_text (dtok d t) = doc_text d.
Proof. intros H. unfold dtok. rewrite doc_text_app. destruct t; [exfalso; eapply H; reflexivity| |]; cbn; apply app_nil_r. Qed.
Lemma doc_text_dchar d sty c : doc_text (dchar d sty c) = doc_text d ++ utf8_encode_char c.
Proof. apply doc_text_dwrite. Qed.
Lemma doc_text_tref d f x : (forall e, doc_text (f e) = doc_text e ++ x) -> doc_text (tref d f) = doc_text d ++ x.
Proof.
  intros H. unfold tref. rewrite doc_text_dtok by discriminate. rewrite H. rewrite doc_text_dtok by discriminate. reflexivity.
Qed.

(* C06: a conversion failure's message ends with the conversion error text, a guard failure's with the
   guard's message, a `some`/`fail`/`fallback_with` failure IS the user's text *)
Theorem parse_failed_text s mix t d :
  render_doc (RPlain (MsgParseFailed mix t)) s = Some d -> exists pre, doc_text d = pre ++ m_colon_sp ++ t.
Proof.
  cbn [render_doc]. intros H. inversion H; subst. rewrite !doc_text_dwrite. eexists. rewrite <- app_assoc. reflexivity.
Qed.
Theorem guard_failed_text s mix t d :
  render_doc (RPlain (MsgGuardFailed mix t)) s = Some d -> exists pre, doc_text d = pre ++ t.
Proof. cbn [render_doc]. intros H. inversion H; subst. rewrite doc_text_dwrite. eexists. reflexivity. Qed.
Theorem user_text s t d :
  (render_doc (RPlain (MsgParseSome t)) s = Some d \/ render_doc (RPlain (MsgParseFail t)) s = Some d \/
   render_doc (RPlain (MsgPureFailed t)) s = Some d) -> doc_text d = t.
Proof. cbn [render_doc]. intros [H|[H|H]]; inversion H; subst; rewrite doc_text_dwrite; reflexivity. Qed.

(* these kinds are what the evaluator reports for them, and pre_render leaves them alone *)
Theorem pre_render_keeps msg s m :
  match msg with MsgUnconsumed _ | MsgMissing _ => False | _ => True end -> pre_render msg s m = Some (RPlain msg).
Proof. destruct msg; cbn; tauto. Qed.

(* ------------------------------------------------------------------ messages are not empty (C11) *)
Lemma ne_app_r (a b : bytes) : b <> [] -> a ++ b <> [].
Proof. intros H E. apply app_eq_nil in E. tauto. Qed.
Lemma ne_app_l (a b : bytes) : a <> [] -> a ++ b <> [].
Proof. intros H E. apply app_eq_nil in E. tauto. Qed.
Lemma ne_dwrite d sty c : c <> [] -> doc_text (dwrite d sty c) <> [].
Proof. intros H. rewrite doc_text_dwrite. apply ne_app_r, H. Qed.
Lemma ne_dwrite_l d sty c : doc_text d <> [] -> doc_text (dwrite d sty c) <> [].
Proof. intros H. rewrite doc_text_dwrite. apply ne_app_l, H. Qed.
Lemma ne_dtok d t : doc_text d <> [] -> doc_text (dtok d t) <> [].
Proof. intros H. unfold dtok. rewrite doc_text_app. apply ne_app_l, H. Qed.
Lemma ne_dmetavar d mv : doc_text d <> [] -> doc_text (dmetavar d mv) <> [].
Proof. intros H. unfold dmetavar. destruct (forallb is_metavar_char mv); repeat apply ne_dwrite_l; exact H. Qed.
Lemma ne_tref d f : (forall e, doc_text e <> [] -> doc_text (f e) <> []) -> doc_text d <> [] -> doc_text (tref d f) <> [].
Proof. intros Hf H. unfold tref. apply ne_dtok, Hf, ne_dtok, H. Qed.
Lemma ne_tref_lit d sty c : c <> [] -> doc_text (tref d (fun e => dwrite e sty c)) <> [].
Proof. intros H. unfold tref. apply ne_dtok. apply ne_dwrite, H. Qed.

Ltac ne_const := let H := fresh in intros H; vm_compute in H; discriminate H.

Theorem message_nonempty r s d :
  render_doc r s = Some d ->
  match r with
  | RPlain (MsgParseSome _) | RPlain (MsgParseFail _) | RPlain (MsgPureFailed _) | RPlain (MsgMissing _)
  | RPlain (MsgParseFailure _) => False
  | _ => True
  end ->
  doc_text d <> [].
Proof.
  intros H Hk. destruct r as [msg|w l|w l|ix sg|exp actual]; cbn [render_doc] in H.
  - destruct msg; try contradiction.
    + inversion H; subst. apply ne_dwrite. ne_const.
    + inversion H; subst. apply ne_tref_lit. discriminate.
    + inversion H; subst. apply ne_tref_lit. discriminate.
    + inversion H; subst. apply ne_dwrite_l, ne_dwrite. ne_const.
    + inversion H; subst. apply ne_dwrite_l. destruct (textual_part s ix); [apply ne_dwrite; ne_const|apply ne_dwrite; ne_const].
    + destruct (nth_error (items s) ix) as [a|]; [|discriminate].
      assert (Hh : doc_text (tref (dwrite (tref [] (fun d0 => dwrite d0 SLiteral (arg_text a))) SText m_requires) (fun d0 => dmetavar d0 mv)) <> []).
      { apply ne_tref; [intros e He; apply ne_dmetavar, He|]. apply ne_dwrite. ne_const. }
      destruct (get s (S ix)) as [[c adj os|l adj os|?|?|?]|]; inversion H; subst; try exact Hh; apply ne_dwrite; ne_const.
    + destruct (nth_error (items s) ix) as [a|]; [|discriminate]. inversion H; subst. apply ne_dwrite. ne_const.
    + destruct (utf8_decode s0) as [[|f [|sc rest]]|]; try discriminate.
      destruct (nth_error (items s) ix) as [a|]; [|discriminate]. inversion H; subst. apply ne_dwrite. ne_const.
  - destruct (nth_error (items s) l) as [a|]; [|discriminate]. destruct (nth_error (items s) w) as [b|]; [|discriminate].
    inversion H; subst. apply ne_tref; [intros e He; apply ne_dwrite_l, He|]. apply ne_dwrite. ne_const.
  - destruct (nth_error (items s) l) as [a|]; [|discriminate]. inversion H; subst. apply ne_dwrite. ne_const.
  - destruct (nth_error (items s) ix) as [a|]; [|discriminate].
    destruct sg; inversion H; subst; apply ne_dwrite; ne_const.
  - destruct actual as [ix|].
    + destruct (nth_error (items s) ix) as [a|]; [|discriminate]. inversion H; subst. apply ne_dwrite. ne_const.
    + inversion H; subst. apply ne_dwrite. ne_const.
Qed.

(* ------------------------------------------------------------------ rendering returns (C04) *)
(* the positions a message records are items of the line *)
Definition miss_ok (n : nat) (x : missing_item) : Prop :=
  fst (mi_scope x) <= snd (mi_scope x) /\ snd (mi_scope x) <= n /\ mi_position x <= snd (mi_scope x).
Definition msg_ok (n : nat) (m : message) : Prop :=
  match m with
  | MsgUnconsumed ix | MsgNoArgument ix _ => ix < n
  | MsgAmbiguity ix nm => ix < n /\ exists f sc r, utf8_decode nm = Some (f :: sc :: r)
  | MsgMissing xs => Forall (miss_ok n) xs
  | MsgParseFailure _ => False
  | _ => True
  end.

Lemma nth_some {A} (l : list A) i : i < length l -> exists x, nth_error l i = Some x.
Proof. intros H. destruct (nth_error l i) eqn:E; [eauto|]. apply nth_error_None in E. lia. Qed.

Theorem render_plain_returns msg s :
  msg_ok (length (items s)) msg -> render_doc (RPlain msg) s <> None.
Proof.
  intros H. destruct msg; cbn [render_doc msg_ok] in *; try discriminate; try contradiction.
  - destruct (nth_some (items s) ix H) as [a ->].
    destruct (get s (S ix)) as [[? ? ?|? ? ?|?|?|?]|]; discriminate.
  - destruct (nth_some (items s) ix H) as [a ->]. discriminate.
  - destruct H as [H (f & sc & r & ->)]. destruct (nth_some (items s) ix H) as [a ->]. discriminate.
Qed.

Lemma best_missing_in xs : forall b r, best_missing xs b = Some r -> (b = Some r \/ In r xs).
Proof.
  induction xs as [|x t IH]; intros b r H; cbn [best_missing] in H; [left; exact H|].
  destruct b as [b0|].
  - destruct (key_le _ _); apply IH in H; destruct H as [H|H]; auto; [inversion H; subst; right; left; reflexivity|right; right; exact H|right; right; exact H].
  - apply IH in H. destruct H as [H|H]; [inversion H; subst; right; left; reflexivity|right; right; exact H].
Qed.

(* summarize_missing never hits the slice panic of State::set_scope *)
Theorem summarize_missing_returns xs m s :
  Forall (miss_ok (length (ist s))) xs -> summarize_missing xs m s <> None.
Proof.
  intros H. unfold summarize_missing. destruct (best_missing xs None) as [best|] eqn:E; [|discriminate].
  apply best_missing_in in E. destruct E as [E|E]; [discriminate|].
  rewrite Forall_forall in H. destruct (H best E) as (H1 & H2 & H3).
  unfold set_scope.
  assert (A : Nat.leb (Nat.max (fst (mi_scope best)) (mi_position best)) (snd (mi_scope best)) = true) by (apply Nat.leb_le; lia).
  assert (B : Nat.leb (snd (mi_scope best)) (length (ist s)) = true) by (apply Nat.leb_le; exact H2).
  rewrite A, B. cbn [andb].
  match goal with |- context [first_item_ix ?x] => destruct (first_item_ix x) end; [|discriminate].
  match goal with |- context [suggest ?x m] => destruct (suggest x m) as [[? ?]|] end; discriminate.
Qed.
