(* ConvTree.v -- C01 for whole subcommand trees: a level may offer a CHOICE of subcommands
   (construct!([a, b, c]) = nested or_else).  Every alternative is evaluated; the ones whose name is
   not the command word fail without entering (the command path keeps its depth), the one that
   matches enters and succeeds with a longer path, and the pick rule of the alternative combinator
   (deeper wins; a success beats a failure at equal depth) returns it. *)
From Coq Require Import Lia List Bool Arith ZArith.
From BpafModel Require Import Conv.
From BpafLemmas Require Import Tac EvalEq Find Reach Ledger NoLoss C05Lemmas OkReach OkLaws ConvLaws PickLaws
     AbsSim AbsTotal ConvRefine PathLaws ConvChain.
Import ListNotations.

Definition dep (s : state) : nat := length (path s).

Lemma dep_depth s : depth s = dep s.
Proof. reflexivity. Qed.

Section Tree.
Variable env : bytes -> option bytes.
Variable n : nat.

(* a command whose names do not contain the word: it fails without entering *)
Lemma take_cmd_any_miss s i w rest names :
  Sim n s ((i, Word w) :: rest) -> mem_bytes w names = false ->
  exists s1, take_cmd_any names s = (false, s1) /\ path s1 = path s /\ Sim n s1 ((i, Word w) :: rest).
Proof.
  revert s. induction names as [|nm t IH]; intros s HS Hm; cbn [take_cmd_any].
  - exists s. auto.
  - unfold take_cmd. rewrite (first_item_head n s i _ rest HS).
    assert (Hin : In (i, Word w) ((i, Word w) :: rest)) by (left; reflexivity).
    pose proof (proj1 (view_in _ _ _ _ _ HS) Hin) as (_ & Ha & _). rewrite Ha.
    unfold mem_bytes in Hm. cbn [existsb] in Hm. apply orb_false_iff in Hm. destruct Hm as [E Hm]. rewrite E.
    destruct (IH (set_current s None) (set_current_sim _ _ _ _ HS) Hm) as (s1 & E1 & P1 & S1).
    exists s1. split; [exact E1|]. split; [exact P1|exact S1].
Qed.

Lemma cmd_miss name aliases q s i w rest :
  Sim n s ((i, Word w) :: rest) -> mem_bytes w (name :: aliases) = false ->
  exists e s1, eval env (PCmd name aliases [] None false (Options q default_info)) s = (RErr e, s1) /\ dep s1 = dep s.
Proof.
  intros HS Hm. rewrite eval_PCmd. unfold cmd_body. cbn [map app]. rewrite app_nil_r.
  destruct (take_cmd_any_miss s i w rest (name :: aliases) HS Hm) as (s1 & E1 & P1 & _). rewrite E1.
  eexists. exists s1. split; [reflexivity|]. unfold dep. rewrite P1. reflexivity.
Qed.

(* entering the matching command: the path gets longer *)
Lemma cmd_hit name aliases q s i w rest v :
  Sim n s ((i, Word w) :: rest) -> mem_bytes w (name :: aliases) = true ->
  (forall s3, Sim n s3 rest -> exists s4, eval env q s3 = (ROk v, s4) /\ Sim n s4 [] /\ dep s3 <= dep s4) ->
  exists s', eval env (PCmd name aliases [] None false (Options q default_info)) s = (ROk v, s') /\ Sim n s' [] /\
             dep s < dep s'.
Proof.
  intros HS M Hq.
  rewrite eval_PCmd. unfold cmd_body. cbn [map app]. rewrite app_nil_r.
  destruct (take_cmd_any_hit n s i w rest (name :: aliases) HS M) as (s0 & k & S0 & P0 & Et).
  rewrite Et. cbn [current set_current].
  destruct (cmd_enter n s0 i w rest k S0) as (s2 & Es2 & S2 & P2).
  cbn zeta in Es2. rewrite Es2.
  set (s3 := set_path s2 (path s2 ++ [name])).
  assert (S3 : Sim n s3 rest) by (destruct S2; constructor; auto).
  rewrite run_sub_eq.
  destruct (Hq s3 S3) as (s4 & Ee & S4 & D4). rewrite Ee.
  unfold run_sub_body. cbn [andb].
  unfold first_item_ix. rewrite (find_item_view n s4 [] (fun _ => true) S4). cbn.
  eexists. split; [reflexivity|]. split; [exact S4|].
  unfold dep in *. subst s3. unfold set_path in D4. cbn [path] in D4. rewrite app_length in D4. cbn [length] in D4.
  rewrite P2, P0 in D4.
  eapply Nat.lt_le_trans; [|exact D4]. rewrite Nat.add_1_r. apply Nat.lt_succ_diag_r.
Qed.

(* ------------------------------------------------------------------ the alternative of commands *)
Definition ctriple := (bytes * list bytes * level)%type.
Definition mkcmd (t : ctriple) : parser :=
  let '(name, aliases, sub) := t in PCmd name aliases [] None false (Options (compile sub) default_info).
Definition cmatch (w : bytes) (t : ctriple) : bool :=
  let '(name, aliases, _) := t in mem_bytes w (name :: aliases).

Fixpoint cs_list (cs : clist) : list ctriple :=
  match cs with CNil => [] | CCons name aliases sub rest => (name, aliases, sub) :: cs_list rest end.

Lemma compile_cmds_list cs : compile_cmds cs = map mkcmd (cs_list cs).
Proof. induction cs as [|name aliases sub rest IH]; cbn; [reflexivity|]. rewrite IH. reflexivity. Qed.

Lemma find_cmd_list cs w :
  find_cmd cs w = option_map (fun t => snd t) (find (cmatch w) (cs_list cs)).
Proof.
  induction cs as [|name aliases sub rest IH]; cbn [find_cmd cs_list find]; [reflexivity|].
  unfold cmatch at 1. unfold mem_bytes. cbn [existsb]. fold (mem_bytes w aliases).
  destruct (beqb w name || mem_bytes w aliases); [reflexivity|exact IH].
Qed.

(* what evaluating a partial alternative yields on a state whose first live item is the word w *)
Inductive alt_state (s : state) (v : val) : eres * state -> Prop :=
| AltFail e se : dep se = dep s -> alt_state s v (RErr e, se)
| AltOk s' : Sim n s' [] -> dep s < dep s' -> alt_state s v (ROk v, s').

Lemma or_fail_fail a b s ea sa eb sb :
  eval env a s = (RErr ea, sa) -> eval env b s = (RErr eb, sb) -> dep sa = dep s -> dep sb = dep s ->
  exists e, eval env (POr a b) s = (RErr e, s).
Proof.
  intros Ea Eb Da Db. rewrite eval_POr. unfold or_body. rewrite Ea, Eb.
  rewrite (both_fail ea eb s sa sb); [eauto|]. unfold dep in *. unfold depth. congruence.
Qed.

Lemma or_fail_ok a b s ea sa v sb :
  eval env a s = (RErr ea, sa) -> eval env b s = (ROk v, sb) -> dep sa = dep s -> dep s < dep sb ->
  eval env (POr a b) s = (ROk v, sb).
Proof.
  intros Ea Eb Da Db. rewrite eval_POr. unfold or_body. rewrite Ea, Eb.
  rewrite (deeper_wins (RErr ea) (ROk v) s sa sb); [reflexivity|]. unfold dep in *. unfold depth. rewrite Da. exact Db.
Qed.

Lemma or_ok_fail a b s v sa eb sb :
  eval env a s = (ROk v, sa) -> eval env b s = (RErr eb, sb) -> dep s < dep sa -> dep sb = dep s ->
  eval env (POr a b) s = (ROk v, sa).
Proof.
  intros Ea Eb Da Db. rewrite eval_POr. unfold or_body. rewrite Ea, Eb.
  rewrite (deeper_wins_left (ROk v) (RErr eb) s sa sb); [reflexivity|]. unfold dep in *. unfold depth. rewrite Db. exact Da.
Qed.

(* one more alternative *)
Lemma alt_step s i w rest v acc t :
  Sim n s ((i, Word w) :: rest) ->
  alt_state s v (eval env acc s) ->
  (cmatch w t = true ->
     (exists e se, eval env acc s = (RErr e, se)) /\
     (forall s3, Sim n s3 rest -> exists s4, eval env (compile (snd t)) s3 = (ROk v, s4) /\ Sim n s4 [] /\ dep s3 <= dep s4)) ->
  alt_state s v (eval env (POr acc (mkcmd t)) s) /\
  ((exists s', eval env acc s = (ROk v, s')) \/ cmatch w t = true -> exists s', eval env (POr acc (mkcmd t)) s = (ROk v, s')) /\
  ((exists e se, eval env acc s = (RErr e, se)) -> cmatch w t = false -> exists e se, eval env (POr acc (mkcmd t)) s = (RErr e, se)).
Proof.
  intros HS Ha Hm. destruct t as [[name aliases] sub]. cbn [mkcmd cmatch snd] in *.
  destruct (mem_bytes w (name :: aliases)) eqn:M.
  - destruct (Hm eq_refl) as [[e [se Ee]] Hq].
    rewrite Ee in Ha. inversion Ha as [e0 se0 De|]; subst.
    destruct (cmd_hit name aliases (compile sub) s i w rest v HS M Hq) as (s' & E' & S' & D').
    rewrite (or_fail_ok _ _ s e se v s' Ee E' De D'). split; [apply AltOk; assumption|]. split; [eauto|]. intros _ F. discriminate.
  - destruct (cmd_miss name aliases (compile sub) s i w rest HS M) as (eb & sb & Eb & Db).
    destruct (eval env acc s) as [ra sa] eqn:Ea. inversion Ha as [e0 se0 De|s0 S0' D0]; subst.
    + destruct (or_fail_fail _ _ s e0 sa eb sb Ea Eb De Db) as [e E]. rewrite E.
      split; [apply AltFail; reflexivity|]. split; [intros [[s' F]|F]; discriminate|eauto].
    + rewrite (or_ok_fail _ _ s v sa eb sb Ea Eb D0 Db).
      split; [apply AltOk; assumption|]. split; [eauto|]. intros [e [se F]]. discriminate.
Qed.

(* no two alternatives carry the word *)
Definition unique_match (w : bytes) (ts : list ctriple) : Prop :=
  forall t1 t2 pre mid post, ts = pre ++ t1 :: mid ++ t2 :: post -> cmatch w t1 = true -> cmatch w t2 = true -> False.

Lemma alt_fold s i w rest v more : forall acc,
  Sim n s ((i, Word w) :: rest) ->
  alt_state s v (eval env acc s) ->
  (* a matching alternative still to come: nothing matched so far, and its level succeeds on the rest *)
  (forall t, In t more -> cmatch w t = true ->
     (exists e se, eval env acc s = (RErr e, se)) /\
     (forall s3, Sim n s3 rest -> exists s4, eval env (compile (snd t)) s3 = (ROk v, s4) /\ Sim n s4 [] /\ dep s3 <= dep s4)) ->
  unique_match w more ->
  alt_state s v (eval env (fold_left POr (map mkcmd more) acc) s) /\
  ((exists s', eval env acc s = (ROk v, s')) \/ (exists t, In t more /\ cmatch w t = true) ->
   exists s', eval env (fold_left POr (map mkcmd more) acc) s = (ROk v, s')).
Proof.
  induction more as [|t more IH]; intros acc HS Ha Hm Hu; cbn [map fold_left].
  - split; [exact Ha|]. intros [H|[t [[] _]]]. exact H.
  - destruct (alt_step s i w rest v acc t HS Ha (Hm t (or_introl eq_refl))) as (A1 & A2 & A3).
    destruct (IH (POr acc (mkcmd t)) HS A1) as [B1 B2].
    + intros t' Hin Mt'. destruct (Hm t' (or_intror Hin) Mt') as [Hf Hq]. split; [|exact Hq].
      apply A3; [exact Hf|]. destruct (cmatch w t) eqn:Mt; [|reflexivity]. exfalso.
      apply in_split in Hin. destruct Hin as (mid & post & ->). apply (Hu t t' [] mid post eq_refl Mt Mt').
    + intros t1 t2 pre mid post E. apply (Hu t1 t2 (t :: pre) mid post). rewrite E. reflexivity.
    + split; [exact B1|]. intros [H|[t' [[<-|Hin] Mt']]].
      * apply B2. left. apply A2. left. exact H.
      * apply B2. left. apply A2. right. exact Mt'.
      * apply B2. right. eauto.
Qed.

Lemma con_go_last_dep evs aevs evc vc lfin :
  Forall2 (sim_ev n) evs aevs -> Forall keepsp evs ->
  forall s l first acc vs lk,
    Sim n s l -> arun aevs l = Some (vs, lk) ->
    (forall sk, Sim n sk lk -> exists s', evc sk = (ROk vc, s') /\ Sim n s' lfin /\ dep sk <= dep s') ->
    exists s', con_go false (evs ++ [evc]) s first acc None = (ROk (VTuple (rev acc ++ vs ++ [vc])), s') /\ Sim n s' lfin /\
               dep s <= dep s'.
Proof.
  intros Hs Hk. revert Hk. induction Hs as [|ev aev evs aevs H1 Hl IH]; intros Hk s l first acc vs lk HS Ea Hc; cbn [app con_go arun] in *.
  - inversion Ea; subst. destruct (Hc s HS) as (s1 & E1 & S1 & D1). rewrite E1. cbn [rev].
    eexists. split; [rewrite app_nil_l; reflexivity|]. split; [apply set_current_sim; exact S1|exact D1].
  - inversion Hk as [|? ? Hk1 Hk2]; subst.
    destruct (H1 s l HS) as [R S1]. pose proof (Hk1 s) as P1. destruct (ev s) as [r s1]. destruct (aev l) as [a l1]. cbn [fst snd] in *.
    destruct a as [x'|m c|]; try discriminate.
    destruct r as [x|e|w|]; cbn in R; try contradiction. subst x'.
    destruct (arun aevs l1) as [[vs' l2]|] eqn:Er; [|discriminate]. inversion Ea; subst vs lk.
    destruct (IH Hk2 s1 l1 false (x :: acc) vs' l2 S1 Er Hc) as (s' & E' & S' & D').
    exists s'. split; [|split; [exact S'|]].
    + rewrite E'. cbn [rev]. rewrite <- !app_assoc. reflexivity.
    + unfold dep in *. rewrite P1 in D'. exact D'.
Qed.

Lemma items_keepsp items :
  Forall (fun it => named_ok (item_named it) = true) items ->
  Forall keepsp (map (eval env) (map compile_item items)).
Proof.
  induction 1 as [|it t Hit Ht IH]; cbn [map]; constructor; [|exact IH].
  apply flat_path. apply flatp_item. exact Hit.
Qed.

(* ------------------------------------------------------------------ trees *)
Definition cmd_names_unique (ts : list ctriple) : Prop := forall w, unique_match w ts.

Fixpoint tree_ok (l : level) : Prop :=
  match l with
  | Level items tail =>
    match tail with
    | TCmds cs =>
      cs <> CNil /\ disjoint_names items /\ Forall (fun it => named_ok (item_named it) = true) items /\
      1 <= length items /\ tree_ok_cs cs /\ cmd_names_unique (cs_list cs) /\
      (forall it it' a, In it items -> In it' (all_items_cs cs) ->
                        matches_arg (item_named it) false a = true -> matches_arg (item_named it') false a = true -> False)
    | _ => flat_ok items tail
    end
  end
with tree_ok_cs (cs : clist) : Prop :=
  match cs with
  | CNil => True
  | CCons _ _ sub rest => tree_ok sub /\ tree_ok_cs rest
  end.

Lemma tree_ok_cs_in cs t : tree_ok_cs cs -> In t (cs_list cs) -> tree_ok (snd t).
Proof.
  induction cs as [|name aliases sub rest IH]; cbn [tree_ok_cs cs_list]; [intros _ []|].
  intros [H1 H2] [<-|Hin]; [exact H1|apply IH; assumption].
Qed.

Lemma cs_list_items cs t : In t (cs_list cs) -> incl (all_items (snd t)) (all_items_cs cs).
Proof.
  induction cs as [|name aliases sub rest IH]; cbn [cs_list all_items_cs]; [intros []|].
  intros [<-|Hin]; [apply incl_appl, incl_refl|apply incl_appr, IH; exact Hin].
Qed.

Lemma find_first_unique w ts t : unique_match w ts -> In t ts -> cmatch w t = true -> find (cmatch w) ts = Some t.
Proof.
  induction ts as [|x r IH]; intros Hu Hin M; [contradiction|]. cbn [find].
  destruct Hin as [->|Hin]; [rewrite M; reflexivity|].
  destruct (cmatch w x) eqn:Mx.
  - exfalso. apply in_split in Hin. destruct Hin as (mid & post & ->). apply (Hu x t [] mid post eq_refl Mx M).
  - apply IH; [|exact Hin|exact M]. intros t1 t2 pre mid post E. apply (Hu t1 t2 (x :: pre) mid post). rewrite E. reflexivity.
Qed.

Theorem tree_eval f : forall l anc ts ix s v,
  tree_ok l -> Sim n s (live_from ix ts) -> length ts <= n ->
  denote_level f l anc ts = Accept v ->
  exists s', eval env (compile l) s = (ROk v, s') /\ Sim n s' [] /\ dep s <= dep s'.
Proof.
  induction f as [|f IH]; intros [items tail] anc ts ix s v Hok S0 Hlen Hd; [discriminate|].
  assert (Hflatcase : flat_ok items tail ->
            exists s', eval env (compile (Level items tail)) s = (ROk v, s') /\ Sim n s' [] /\ dep s <= dep s').
  { intros Hf. destruct (level_eval_flat env n items tail anc ts ix s v f Hf S0 Hlen Hd) as (s' & E & S').
    exists s'. split; [exact E|]. split; [exact S'|].
    destruct (compile_flat items tail Hf) as [_ Hfl].
    pose proof (flat_path env _ Hfl s) as P. rewrite E in P. cbn [snd] in P. unfold dep. rewrite P. apply le_n. }
  destruct tail as [|ps|cs]; [apply Hflatcase; exact Hok|apply Hflatcase; exact Hok|]. clear Hflatcase.
  cbn [tree_ok] in Hok. destruct Hok as (Hne & Hdis & Hnames & Hlen1 & Hsubs & Huniq & Hcross).
  cbn [denote_level] in Hd.
  destruct (scan items anc (TCmds cs) ts) as [a|a sub' rest| |] eqn:Sc; try discriminate.
  { destruct (items_values items 0 (at_occ a)); discriminate. }
  destruct (scan_cmd_wf items anc _ _ ts (le_n _) ix a sub' rest Sc) as (pre & w & -> & Hfc & W & Ho & Hu & Hr).
  rewrite find_cmd_list in Hfc.
  destruct (find (cmatch w) (cs_list cs)) as [tm|] eqn:Ff; [|discriminate]. cbn in Hfc. inversion Hfc; subst sub'. clear Hfc.
  destruct (find_some _ _ Ff) as [Htm Mtm].
  destruct (denote_level f (snd tm) (anc ++ items) rest) as [sv| |] eqn:Ds; try discriminate.
  destruct (items_values items 0 (at_occ a)) as [vs|] eqn:Ev; [|discriminate].
  inversion Hd; subst v. clear Hd.
  set (tp := tag_from ix pre (at_roles a)) in *.
  set (j := ix + length pre).
  set (F := foreign_tag (live_from j ((Word w, false) :: rest))).
  assert (Hinert : forall b, In (b, false) ((Word w, false) :: rest) -> inert items b).
  { intros b [E|Hb] it Hit.
    - inversion E; subst b. reflexivity.
    - destruct (is_key b) eqn:Kb; [|apply not_key_no_match; exact Kb].
      destruct (denote_keys_owned f (snd tm) (anc ++ items) rest sv Ds b Hb Kb) as (it' & Hit' & M').
      destruct (matches_arg (item_named it) false b) eqn:M; [|reflexivity].
      exfalso. apply (Hcross it it' b Hit); [|exact M|exact M']. apply (cs_list_items cs tm Htm). exact Hit'. }
  assert (WFf : WF items j F) by (apply WF_foreign_live; exact Hinert).
  assert (Hub : forall x, In x (untag tp) -> fst x < j).
  { intros x Hx. rewrite Hu in Hx. apply live_from_ub in Hx. exact Hx. }
  assert (W0 : WF items ix (tp ++ F)) by (apply (WF_app items ix j); [exact W|unfold j; lia|exact Hub|exact WFf]).
  assert (Hlive : live_from ix (pre ++ (Word w, false) :: rest) = untag (tp ++ F)).
  { rewrite live_from_app. unfold untag. rewrite map_app. fold (untag tp). fold (untag F). rewrite Hu.
    unfold F. rewrite untag_foreign. reflexivity. }
  rewrite Hlive in S0.
  assert (Ho0 : occs_of (tp ++ F) = at_occ a).
  { unfold F. rewrite (occs_app_foreign items ix tp _ j W ltac:(unfold j; lia) Hub WFf). exact Ho. }
  assert (Hl0 : length (tp ++ F) < S (S n)).
  { rewrite <- (untag_length (tp ++ F)), <- Hlive. pose proof (live_from_le (pre ++ (Word w, false) :: rest) ix). lia. }
  pose proof (items_run items Hdis (S (S n)) ix (tp ++ F) W0 Hl0 items 0 vs (fun p it H => H)) as Hrun.
  rewrite Ho0 in Hrun. specialize (Hrun Ev). cbn [Nat.add] in Hrun. rewrite filter_keep_0 in Hrun.
  rewrite filter_app in Hrun. rewrite (filter_prefix_gone items ix tp W Hr) in Hrun.
  unfold F in Hrun. rewrite filter_keep_foreign in Hrun. cbn [app] in Hrun. rewrite untag_foreign in Hrun.
  cbn [live_from app] in Hrun.
  (* the compiled parser: the items, then the alternative of commands *)
  cbn [compile]. rewrite compile_cmds_list.
  destruct (cs_list cs) as [|t0 more] eqn:Ecs; [destruct cs; [contradiction|discriminate]|].
  cbn [map]. set (alt := fold_left POr (map mkcmd more) (mkcmd t0)).
  assert (Efields : exists p1 p2 r, map compile_item items ++ [alt] = p1 :: p2 :: r).
  { destruct items as [|i1 it']; [cbn in Hlen1; lia|]. cbn [map app]. destruct (map compile_item it' ++ [alt]) as [|p2 r] eqn:E.
    - destruct (map compile_item it'); discriminate.
    - eauto. }
  destruct Efields as (p1 & p2 & r & Ef). rewrite Ef. cbn [plist_of]. rewrite eval_PCon_many.
  change (PCons p1 (PCons p2 (plist_of r))) with (plist_of (p1 :: p2 :: r)). rewrite <- Ef.
  rewrite evals_plist, map_app. cbn [map]. unfold con_body, con_reset.
  (* the last field on the state the items leave *)
  assert (Hlast : forall sk, Sim n sk ((j, Word w) :: live_from (S j) rest) ->
            exists s', eval env alt sk = (ROk sv, s') /\ Sim n s' [] /\ dep sk < dep s').
  { intros sk Sk.
    assert (Hsub : forall s3, Sim n s3 (live_from (S j) rest) ->
              exists s4, eval env (compile (snd tm)) s3 = (ROk sv, s4) /\ Sim n s4 [] /\ dep s3 <= dep s4).
    { intros s3 S3. apply (IH (snd tm) (anc ++ items) rest (S j) s3 sv); [|exact S3| |exact Ds].
      - eapply tree_ok_cs_in; eauto. rewrite Ecs. exact Htm.
      - rewrite app_length in Hlen. cbn in Hlen. lia. }
    assert (Hu0 : unique_match w (t0 :: more)) by (apply Huniq).
    assert (Ha0 : alt_state sk sv (eval env (mkcmd t0) sk) /\
                  (cmatch w t0 = true -> exists s', eval env (mkcmd t0) sk = (ROk sv, s')) /\
                  (cmatch w t0 = false -> exists e se, eval env (mkcmd t0) sk = (RErr e, se))).
    { destruct t0 as [[name0 aliases0] sub0]. cbn [mkcmd cmatch].
      destruct (mem_bytes w (name0 :: aliases0)) eqn:M0.
      - assert (tm = (name0, aliases0, sub0)).
        { pose proof (find_first_unique w _ (name0, aliases0, sub0) Hu0 (or_introl eq_refl) M0) as Ff'. congruence. }
        subst tm. cbn [snd] in Hsub.
        destruct (cmd_hit name0 aliases0 (compile sub0) sk j w _ sv Sk M0 Hsub) as (s' & E' & S' & D').
        rewrite E'. split; [apply AltOk; assumption|]. split; [eauto|discriminate].
      - destruct (cmd_miss name0 aliases0 (compile sub0) sk j w _ Sk M0) as (e & se & Ee & De).
        rewrite Ee. split; [apply AltFail; exact De|]. split; [discriminate|eauto]. }
    destruct Ha0 as (A0 & A0ok & A0fail).
    destruct (alt_fold sk j w (live_from (S j) rest) sv more (mkcmd t0) Sk A0) as [B1 B2].
    - intros t Hin Mt. split.
      + apply A0fail. destruct (cmatch w t0) eqn:M0; [|reflexivity]. exfalso.
        apply in_split in Hin. destruct Hin as (mid & post & ->). apply (Hu0 t0 t [] mid post eq_refl M0 Mt).
      + assert (tm = t).
        { pose proof (find_first_unique w _ t Hu0 (or_intror Hin) Mt) as Ff'. congruence. }
        subst t. exact Hsub.
    - intros t1 t2 pre0 mid post E. apply (Hu0 t1 t2 (t0 :: pre0) mid post). rewrite E. reflexivity.
    - destruct B2 as [s' Es'].
      + destruct Htm as [<-|Hin]; [left; apply A0ok; exact Mtm|right; eauto].
      + fold alt in Es', B1. rewrite Es' in B1. inversion B1; subst. exists s'. auto. }
  destruct (con_go_last_dep _ _ (eval env alt) sv [] (items_sim env n items Hnames) (items_keepsp items Hnames)
              s (untag (tp ++ F)) true [] vs _ S0 Hrun) as (s' & Ec & S' & D').
  { intros sk Sk. destruct (Hlast sk Sk) as (s' & E' & S'' & D''). exists s'. split; [exact E'|]. split; [exact S''|].
    apply Nat.lt_le_incl. exact D''. }
  match goal with |- context [con_go ?a ?b ?c ?d ?e ?g] => destruct (con_go a b c d e g) as [x sx] eqn:Eg end.
  assert (Heq : (x, sx) = (ROk (VTuple (rev [] ++ vs ++ [sv])), s')) by (rewrite <- Eg; exact Ec).
  inversion Heq; subst x sx. cbn [rev app]. eexists. split; [reflexivity|]. split; [apply set_current_sim; exact S'|].
  exact D'.
Qed.
End Tree.

(* C01 for whole subcommand trees: sentences are accepted with the value they denote *)
Theorem denote_accept_tree feat env l argv v :
  tree_ok l ->
  denote l argv = Accept v ->
  run_inner feat env (compile_options l) None argv = OutOk v.
Proof.
  intros Hok Hd.
  unfold denote in Hd. unfold run_inner, run_inner_state, initial_state.
  destruct (short_tables (compile_options l)) as [sf sa].
  pose proof (construct_sim sf sa None argv) as S0. cbn zeta in S0.
  pose proof (construct_amb sf sa None argv) as Hamb.
  set (t := tokenize sf sa argv) in *.
  destruct (construct sf sa None argv) as [s0 amb0]. cbn [fst snd] in S0, Hamb. subst amb0.
  destruct (t_ambiguity t) as [amb|] eqn:Ea; [discriminate|].
  assert (Hlen : length (mark_tokens t) <= length (t_items t)) by (unfold mark_tokens; rewrite mark_go_length; lia).
  destruct (tree_eval env _ _ l [] (mark_tokens t) 0 s0 v Hok S0 Hlen Hd) as (s1 & Ee & S1 & _).
  unfold compile_options. rewrite run_sub_eq, Ee.
  unfold run_sub_body. cbn [andb].
  unfold first_item_ix. rewrite (find_item_view _ s1 [] (fun _ => true) S1). reflexivity.
Qed.

(* ------------------------------------------------------------------ the tree condition is decidable *)
Lemma mem_bytes_in w l : mem_bytes w l = true -> In w l.
Proof.
  unfold mem_bytes. intros H. apply existsb_exists in H. destruct H as (d & Hd & E). apply beqb_true in E. subst. exact Hd.
Qed.
Lemma in_mem_bytes w l : In w l -> mem_bytes w l = true.
Proof.
  intros H. unfold mem_bytes. apply existsb_exists. exists w. split; [exact H|].
  clear. induction w; cbn; [reflexivity|]. rewrite N.eqb_refl. exact IHw.
Qed.

Definition tnames (t : ctriple) : list bytes := let '(name, aliases, _) := t in name :: aliases.

Lemma cs_names_list cs : cs_names cs = map tnames (cs_list cs).
Proof. induction cs as [|name aliases sub rest IH]; cbn; [reflexivity|]. rewrite IH. reflexivity. Qed.

Lemma names_uniqueb_sound ts w : names_uniqueb (map tnames ts) = true -> unique_match w ts.
Proof.
  induction ts as [|x r IH]; intros H t1 t2 pre mid post E M1 M2.
  - destruct pre; discriminate.
  - cbn [map names_uniqueb] in H. apply andb_prop in H. destruct H as [Hx Hr].
    destruct pre as [|p pre]; cbn in E; inversion E; subst.
    + rewrite forallb_forall in Hx. specialize (Hx (tnames t2)).
      assert (Hin : In (tnames t2) (map tnames (mid ++ t2 :: post))) by (apply in_map; apply in_or_app; right; left; reflexivity).
      specialize (Hx Hin). rewrite forallb_forall in Hx.
      destruct t1 as [[n1 a1] s1]. destruct t2 as [[n2 a2] s2]. cbn [cmatch tnames] in *.
      specialize (Hx w (mem_bytes_in _ _ M1)). rewrite M2 in Hx. discriminate.
    + eapply (IH Hr t1 t2 pre mid post); eauto.
Qed.

Fixpoint tree_okb_sound (l : level) : tree_okb l = true -> tree_ok l
with tree_okb_cs_sound (cs : clist) : tree_okb_cs cs = true -> tree_ok_cs cs.
Proof.
  - destruct l as [items tail]. destruct tail as [|ps|cs]; cbn [tree_okb tree_ok].
    + apply flat_okb_sound.
    + apply flat_okb_sound.
    + intros H. apply andb_prop in H. destruct H as [H H7]. apply andb_prop in H. destruct H as [H H6].
      apply andb_prop in H. destruct H as [H H5]. apply andb_prop in H. destruct H as [H H4].
      apply andb_prop in H. destruct H as [H H3]. apply andb_prop in H. destruct H as [H1 H2].
      split; [destruct cs; [discriminate|discriminate]|].
      split; [apply disjointb_sound; exact H2|]. split; [apply Forall_forall; rewrite forallb_forall in H3; exact H3|].
      split; [apply Nat.leb_le; exact H4|]. split; [apply (tree_okb_cs_sound cs); exact H5|].
      split; [intros w; apply names_uniqueb_sound; rewrite <- cs_names_list; exact H6|].
      intros it it' a Hit Hit' Ma Mb. rewrite forallb_forall in H7. specialize (H7 it Hit).
      rewrite forallb_forall in H7. specialize (H7 it' Hit'). apply negb_true_iff in H7.
      eapply share_false_no_common; eauto.
  - destruct cs as [|name aliases sub rest]; cbn [tree_okb_cs tree_ok_cs]; [auto|].
    intros H. apply andb_prop in H. destruct H as [H1 H2]. split; [apply (tree_okb_sound sub); exact H1|apply (tree_okb_cs_sound rest); exact H2].
Qed.

(* C08 on conventional trees: a level that offers subcommands is a sentence exactly through ONE of
   them -- the scan stops at the first free word naming it, everything to its right is judged by
   that subcommand's own grammar (with the enclosing items as ancestors), and its value comes last
   in the enclosing result; the parser returns exactly that *)
Theorem tree_cmd_value feat env items cs argv v :
  tree_ok (Level items (TCmds cs)) ->
  denote (Level items (TCmds cs)) argv = Accept v ->
  let st := short_tables (compile_options (Level items (TCmds cs))) in
  let ts := mark_tokens (tokenize (fst st) (snd st) argv) in
  exists a sub rest vs sv,
    scan items [] (TCmds cs) ts = ScCmd a sub rest /\
    denote_level (length ts) sub ([] ++ items) rest = Accept sv /\
    items_values items 0 (at_occ a) = Some vs /\
    v = VTuple (vs ++ [sv]) /\
    run_inner feat env (compile_options (Level items (TCmds cs))) None argv = OutOk v.
Proof.
  intros Hok Hd. pose proof (denote_accept_tree feat env _ argv v Hok Hd) as Hr.
  cbn zeta. unfold denote in Hd.
  destruct (short_tables (compile_options (Level items (TCmds cs)))) as [sf sa]. cbn [fst snd].
  destruct (t_ambiguity (tokenize sf sa argv)); [discriminate|].
  assert (El : length (mark_tokens (tokenize sf sa argv)) = length (t_items (tokenize sf sa argv)))
    by (unfold mark_tokens; apply mark_go_length).
  rewrite <- El in Hd. cbn [denote_level] in Hd.
  destruct (scan items [] (TCmds cs) (mark_tokens (tokenize sf sa argv))) as [a|a sub rest| |]; try discriminate.
  - destruct (items_values items 0 (at_occ a)); discriminate.
  - destruct (denote_level (length (mark_tokens (tokenize sf sa argv))) sub ([] ++ items) rest) as [sv| |] eqn:Es; try discriminate.
    destruct (items_values items 0 (at_occ a)) as [vs|] eqn:Ev; [|discriminate].
    inversion Hd; subst v. exists a, sub, rest, vs, sv. repeat split; auto.
Qed.
Print Assumptions tree_cmd_value.
